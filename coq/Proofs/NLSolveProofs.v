(** Proofs about the executable model of solve_impulse_nonlinear (Model/NLSolve.v). *)
From Coq Require Import ZArith QArith Qcanon Bool List Arith Lia Ring.
From SSJ Require Import Lib.Sums Model.Sparse Model.SimpleBlk Model.SimpleBlkQ Model.Chain Model.GET Model.NLSolve
  Proofs.SimpleBlkProofs Proofs.GETProofs.
Import ListNotations.

(** ---- the loop ---- *)
Lemma nl_loop_sound fuel F ok upd : forall U0 Up r,
  nl_loop fuel F ok upd U0 = Converged Up r -> r = F Up /\ ok r = true.
Proof.
  induction fuel as [|k IH]; intros U0 Up r H; cbn [nl_loop] in H; [discriminate|].
  destruct (ok (F U0)) eqn:Hok.
  - inversion H; subst. split; [reflexivity | exact Hok].
  - destruct (upd U0 (F U0)) as [U1|]; [|discriminate]. eapply IH; eassumption.
Qed.

Lemma nl_loop_first fuel F ok upd U0 : ok (F U0) = true -> nl_loop (S fuel) F ok upd U0 = Converged U0 (F U0).
Proof. intros H; cbn [nl_loop]; rewrite H; reflexivity. Qed.

Lemma nl_loop_never fuel F ok upd : (forall u, ok (F u) = false) -> forall U0 Up r, nl_loop fuel F ok upd U0 <> Converged Up r.
Proof.
  intros Hn. induction fuel as [|k IH]; intros U0 Up r; cbn [nl_loop]; [discriminate|].
  rewrite Hn. destruct (upd U0 (F U0)); [apply IH | discriminate].
Qed.

(** ---- the tolerance test ---- *)
Lemma qltb_lt x y : qltb x y = true -> (x < y)%Qc.
Proof. unfold qltb; intros H. apply Qclt_alt. destruct (x ?= y)%Qc; [discriminate | reflexivity | discriminate]. Qed.

Lemma nl_ok_spec ss Tg tol res : nl_ok ss Tg tol res = true ->
  forall tg v, In tg Tg -> In v (dev_of ss res tg) -> (qabs v < tol)%Qc.
Proof.
  unfold nl_ok; intros H tg v Htg Hv. rewrite forallb_forall in H. specialize (H tg Htg).
  rewrite forallb_forall in H. apply qltb_lt, H, Hv.
Qed.

Lemma Qcopp_lt_compat p q : (p < q)%Qc -> (- q < - p)%Qc.
Proof.
  intros H. apply Qclt_minus_iff in H. apply Qclt_minus_iff. replace (- p + - - q)%Qc with (q + - p)%Qc by ring. exact H.
Qed.

Lemma qabs_bound v tol : (qabs v < tol)%Qc -> (- tol < v)%Qc /\ (v < tol)%Qc.
Proof.
  assert (E : (- g0 = g0)%Qc) by (unfold g0; ring).
  unfold qabs. destruct (v ?= g0)%Qc eqn:Hc; intros H.
  - apply Qceq_alt in Hc. subst v. split; [|exact H].
    apply Qcopp_lt_compat in H. rewrite E in H. exact H.
  - apply Qclt_alt in Hc. pose proof (Qcopp_lt_compat _ _ Hc) as Hc'. rewrite E in Hc'. split.
    + apply Qcopp_lt_compat in H. rewrite Qcopp_involutive in H. exact H.
    + eapply Qclt_trans; [exact Hc|]. eapply Qclt_trans; [exact Hc' | exact H].
  - apply Qcgt_alt in Hc. split; [|exact H].
    pose proof (Qcopp_lt_compat _ _ H) as H'. pose proof (Qcopp_lt_compat _ _ Hc) as Hc'. rewrite E in Hc'.
    eapply Qclt_trans; [exact H'|]. eapply Qclt_trans; [exact Hc' | exact Hc].
Qed.

(** ---- the update ---- *)
Lemma nl_update_sound T ss HU Tg Up res Up' : nl_update T ss HU Tg Up res = Some Up' ->
  exists X, mmul HU X = map (fun x => [x]) (flat_map (dev_of ss res) Tg) /\
            Up' = map (fun ui => map (fun p => Qcminus (fst p) (snd p))
                                     (combine (nth ui Up []) (firstn (Z.to_nat T) (skipn (ui * Z.to_nat T) (map (fun row => hd g0 row) X)))))
                      (seq 0 (length Up)).
Proof.
  unfold nl_update. destruct (msolve HU _) as [X|] eqn:Hs; [|discriminate]. intros H; inversion H; subst.
  exists X. split; [apply (msolve_sound_lemma _ _ _ Hs) | reflexivity].
Qed.

(** ---- zero shock at a consistent steady state ---- *)
Definition ss_consistent (ss : tbl) (prog : list sblock) : Prop :=
  forall b oe, In b prog -> In oe (sb_outs b) -> qeval_ss (qlookup ss) (snd oe) = qlookup ss (fst oe).
Definition at_ss (ss : tbl) (P : paths) : Prop := forall x v, In v (nth x P []) -> v = qlookup ss x.

Lemma nth_upd_nth {A} (n : nat) (x : A) l d k : (n < length l)%nat ->
  nth k (upd_nth n x l) d = if Nat.eqb k n then x else nth k l d.
Proof.
  intros Hn. unfold upd_nth. destruct (Nat.eqb_spec k n) as [->|Hne].
  - rewrite app_nth2; rewrite firstn_length_le by lia; [|lia]. replace (n - n)%nat with 0%nat by lia. reflexivity.
  - destruct (Nat.lt_ge_cases k n) as [Hlt|Hge].
    + rewrite app_nth1 by (rewrite firstn_length_le; lia).
      rewrite <- (firstn_skipn n l) at 2. rewrite app_nth1 by (rewrite firstn_length_le; lia). reflexivity.
    + rewrite app_nth2; rewrite firstn_length_le by lia; [|lia].
      destruct (k - n)%nat as [|j] eqn:Hj; [lia|]. cbn [nth].
      rewrite <- (firstn_skipn (S n) l) at 2. rewrite app_nth2; rewrite firstn_length_le by lia; [|lia].
      replace (k - S n)%nat with j by lia. reflexivity.
Qed.
Lemma upd_nth_length {A} (n : nat) (x : A) l : (n < length l)%nat -> length (upd_nth n x l) = length l.
Proof.
  intros Hn. unfold upd_nth. rewrite app_length. cbn [length]. rewrite firstn_length_le by lia. rewrite skipn_length. lia.
Qed.

Lemma penv_at_ss ss P : at_ss ss P -> forall x u, penv P ss x u = qlookup ss x.
Proof.
  intros H x u. unfold penv. destruct (u <? 0)%Z; [reflexivity|].
  destruct (Nat.lt_ge_cases (Z.to_nat u) (length (nth x P []))) as [Hlt|Hge].
  - apply H. apply nth_In. exact Hlt.
  - apply nth_overflow. exact Hge.
Qed.

Lemma eval_block_at_ss T ss prog b P : ss_consistent ss prog -> In b prog ->
  (forall oe, In oe (sb_outs b) -> (fst oe < length P)%nat) ->
  at_ss ss P -> at_ss ss (eval_block T ss ss P b) /\ length (eval_block T ss ss P b) = length P.
Proof.
  intros Hc Hb Hlen Hat. unfold eval_block. destruct (existsb (perturbed P) (sb_ins b)); [|split; [exact Hat | reflexivity]].
  pose proof (penv_at_ss ss P Hat) as Henv.
  assert (Hgen : forall outs P', (forall oe, In oe outs -> In oe (sb_outs b)) -> at_ss ss P' -> length P' = length P ->
     at_ss ss (fold_left (fun P'' oe => upd_nth (fst oe) (map (fun t => qeval_td (Some T) (qlookup ss) (qlookup ss) (penv P ss) (snd oe) (Z.of_nat t)) (seq 0 (Z.to_nat T))) P'') outs P')
     /\ length (fold_left (fun P'' oe => upd_nth (fst oe) (map (fun t => qeval_td (Some T) (qlookup ss) (qlookup ss) (penv P ss) (snd oe) (Z.of_nat t)) (seq 0 (Z.to_nat T))) P'') outs P') = length P).
  { induction outs as [|oe outs IH]; intros P' Hin Hat' Hl'; cbn [fold_left]; [split; assumption|].
    apply IH.
    - intros; apply Hin; right; assumption.
    - intros x v Hv. rewrite nth_upd_nth in Hv by (rewrite Hl'; apply Hlen, Hin; left; reflexivity).
      destruct (Nat.eqb_spec x (fst oe)) as [->|Hne]; [|apply Hat'; exact Hv].
      apply in_map_iff in Hv. destruct Hv as [t [Hv _]]. subst v.
      unfold qeval_td. rewrite ss_td_agree by exact Henv. apply (Hc b oe Hb). apply Hin; left; reflexivity.
    - rewrite upd_nth_length; [exact Hl' | rewrite Hl'; apply Hlen, Hin; left; reflexivity]. }
  apply Hgen; [auto | exact Hat | reflexivity].
Qed.

Lemma nl_eval_at_ss T ss prog : ss_consistent ss prog -> forall P,
  (forall b oe, In b prog -> In oe (sb_outs b) -> (fst oe < length P)%nat) -> at_ss ss P -> at_ss ss (nl_eval T ss ss prog P).
Proof.
  intros Hc. unfold nl_eval.
  assert (Hgen : forall bs, (forall b, In b bs -> In b prog) -> forall P,
     (forall b oe, In b prog -> In oe (sb_outs b) -> (fst oe < length P)%nat) -> at_ss ss P -> at_ss ss (fold_left (eval_block T ss ss) bs P)).
  { induction bs as [|b bs IH]; intros Hin P Hlen Hat; cbn [fold_left]; [exact Hat|].
    destruct (eval_block_at_ss T ss prog b P Hc (Hin b (or_introl eq_refl)) (fun oe H => Hlen b oe (Hin b (or_introl eq_refl)) H) Hat) as [Hat' Hl'].
    apply IH; [intros; apply Hin; right; assumption | rewrite Hl'; exact Hlen | exact Hat']. }
  intros P; apply Hgen; auto.
Qed.

Lemma init_paths_at_ss N ss devs : (forall d v, In d devs -> In v (snd d) -> v = g0) -> (forall d, In d devs -> (fst d < N)%nat) ->
  at_ss ss (init_paths N ss devs) /\ length (init_paths N ss devs) = N.
Proof.
  intros Hz Hn. unfold init_paths.
  assert (Hgen : forall ds P, (forall d, In d ds -> In d devs) -> at_ss ss P -> length P = N ->
     at_ss ss (fold_left (fun P d => upd_nth (fst d) (map (fun v => Qcplus (qlookup ss (fst d)) v) (snd d)) P) ds P) /\
     length (fold_left (fun P d => upd_nth (fst d) (map (fun v => Qcplus (qlookup ss (fst d)) v) (snd d)) P) ds P) = N).
  { induction ds as [|d ds IH]; intros P Hin Hat Hl; cbn [fold_left]; [split; assumption|].
    apply IH.
    - intros; apply Hin; right; assumption.
    - intros x v Hv. rewrite nth_upd_nth in Hv by (rewrite Hl; apply Hn, Hin; left; reflexivity).
      destruct (Nat.eqb_spec x (fst d)) as [->|Hne]; [|apply Hat; exact Hv].
      apply in_map_iff in Hv. destruct Hv as [w [Hv Hw]]. subst v.
      rewrite (Hz d w (Hin d (or_introl eq_refl)) Hw). change g0 with (Q2Qc 0). ring.
    - rewrite upd_nth_length; [exact Hl | rewrite Hl; apply Hn, Hin; left; reflexivity]. }
  apply Hgen; [auto | | apply repeat_length].
  intros x v Hv. exfalso.
  assert (Hr : forall n k, nth k (repeat (@nil Qc) n) [] = []).
  { induction n as [|n IHn]; intros [|k]; cbn; auto. }
  specialize (Hr N x).
  rewrite Hr in Hv. exact Hv.
Qed.

Lemma dev_of_at_ss ss P o v : at_ss ss P -> In v (dev_of ss P o) -> v = g0.
Proof.
  intros Hat Hv. unfold dev_of in Hv. apply in_map_iff in Hv. destruct Hv as [w [Hv Hw]]. subst v.
  rewrite (Hat o w Hw). change g0 with (Q2Qc 0). ring.
Qed.

Lemma qabs_zero_lt tol : (g0 < tol)%Qc -> qltb (qabs g0) tol = true.
Proof.
  intros H. unfold qabs. assert (E : (g0 ?= g0)%Qc = Eq) by (apply Qceq_alt; reflexivity). rewrite E.
  unfold qltb. pose proof (proj1 (Qclt_alt g0 tol) H) as H'. rewrite H'. reflexivity.
Qed.

Theorem nl_zero_shock_lemma maxit N T ss prog U Tg shocks tol :
  ss_consistent ss prog ->
  (forall b oe, In b prog -> In oe (sb_outs b) -> (fst oe < N)%nat) ->
  (forall d, In d shocks -> (fst d < N)%nat) -> (forall u, In u U -> (u < N)%nat) ->
  (forall d v, In d shocks -> In v (snd d) -> v = g0) ->
  (g0 < tol)%Qc ->
  let U0 := map (fun _ => repeat g0 (Z.to_nat T)) U in
  let res := nl_results N T ss ss prog U shocks U0 in
  nl_solve (S maxit) N T ss ss prog U Tg shocks tol = Converged U0 res /\
  forall o v, In v (dev_of ss res o) -> v = g0.
Proof.
  intros Hc Hout Hsh HU Hz Htol U0 res.
  assert (Hdev : forall d, In d (shocks ++ combine U U0) -> (forall v, In v (snd d) -> v = g0) /\ (fst d < N)%nat).
  { intros d Hd. apply in_app_or in Hd. destruct Hd as [Hd|Hd]; [split; [intros v; apply Hz; exact Hd | apply Hsh; exact Hd]|].
    destruct d as [u p]. pose proof (in_combine_l _ _ _ _ Hd) as Hu. pose proof (in_combine_r _ _ _ _ Hd) as Hp.
    unfold U0 in Hp. apply in_map_iff in Hp. destruct Hp as [_ [Hp _]]. subst p.
    split; [intros v Hv; apply repeat_spec in Hv; exact Hv | apply HU; exact Hu]. }
  destruct (init_paths_at_ss N ss (shocks ++ combine U U0)) as [Hat Hl];
    [intros d v Hd; apply (proj1 (Hdev d Hd)) | intros d Hd; apply (proj2 (Hdev d Hd)) |].
  assert (Hres : at_ss ss res).
  { unfold res, nl_results. apply nl_eval_at_ss; [exact Hc | rewrite Hl; exact Hout | exact Hat]. }
  split.
  - unfold nl_solve. apply nl_loop_first. fold U0. fold res. unfold nl_ok.
    apply forallb_forall; intros tg _. apply forallb_forall; intros v Hv.
    rewrite (dev_of_at_ss ss res tg v Hres Hv). apply qabs_zero_lt; exact Htol.
  - intros o v Hv. eapply dev_of_at_ss; eassumption.
Qed.

(** ---- what a returned solution satisfies ---- *)
Theorem nl_solve_sound_lemma maxit N T ss ssi prog U Tg shocks tol Up res :
  nl_solve maxit N T ss ssi prog U Tg shocks tol = Converged Up res ->
  res = nl_eval T ss ssi prog (init_paths N ss (shocks ++ combine U Up)) /\
  forall tg v, In tg Tg -> In v (dev_of ss res tg) -> (- tol < v)%Qc /\ (v < tol)%Qc.
Proof.
  unfold nl_solve. intros H. apply nl_loop_sound in H. destruct H as [Hr Hok]. split; [exact Hr|].
  intros tg v Htg Hv. apply qabs_bound. eapply nl_ok_spec; eassumption.
Qed.

Theorem nl_solve_no_return_lemma N T ss ssi prog U Tg shocks tol Up res :
  nl_solve 0 N T ss ssi prog U Tg shocks tol <> Converged Up res.
Proof. unfold nl_solve; cbn [nl_loop]; discriminate. Qed.
