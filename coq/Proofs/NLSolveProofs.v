(** Proofs about the executable model of solve_impulse_nonlinear (Model/NLSolve.v). *)
From Coq Require Import ZArith QArith Qcanon Bool List Arith Lia Ring.
From SSJ Require Import Lib.Sums Model.Sparse Model.SimpleBlk Model.SimpleBlkQ Model.Chain Model.GET Model.NLSolve
  Proofs.SimpleBlkProofs Proofs.GETProofs.
Import ListNotations.

(** ---- the loop ---- *)
Lemma nl_loop_sound fuel F ok upd : forall U0 Up r,
  nl_loop fuel F ok upd U0 = Converged Up r -> r = F Up /\ ok r = true.
Proof.
  induction fuel as [|k IH]; intros U0 Up r H; cbn [nl_loop] in H; [discriminate|].
  destruct (ok (F U0)) eqn:Hok.
  - inversion H; subst. split; [reflexivity | exact Hok].
  - destruct (upd U0 (F U0)) as [U1|]; [|discriminate]. eapply IH; eassumption.
Qed.

Lemma nl_loop_first fuel F ok upd U0 : ok (F U0) = true -> nl_loop (S fuel) F ok upd U0 = Converged U0 (F U0).
Proof. intros H; cbn [nl_loop]; rewrite H; reflexivity. Qed.

Lemma nl_loop_never fuel F ok upd : (forall u, ok (F u) = false) -> forall U0 Up r, nl_loop fuel F ok upd U0 <> Converged Up r.
Proof.
  intros Hn. induction fuel as [|k IH]; intros U0 Up r; cbn [nl_loop]; [discriminate|].
  rewrite Hn. destruct (upd U0 (F U0)); [apply IH | discriminate].
Qed.

(** ---- the tolerance test ---- *)
Lemma qltb_lt x y : qltb x y = true -> (x < y)%Qc.
Proof. unfold qltb; intros H. apply Qclt_alt. destruct (x ?= y)%Qc; [discriminate | reflexivity | discriminate]. Qed.

Lemma nl_ok_spec ss Tg tol res : nl_ok ss Tg tol res = true ->
  forall tg v, In tg Tg -> In v (dev_of ss res tg) -> (qabs v < tol)%Qc.
Proof.
  unfold nl_ok; intros H tg v Htg Hv. rewrite forallb_forall in H. specialize (H tg Htg).
  rewrite forallb_forall in H. apply qltb_lt, H, Hv.
Qed.

Lemma Qcopp_lt_compat p q : (p < q)%Qc -> (- q < - p)%Qc.
Proof.
  intros H. apply Qclt_minus_iff in H. apply Qclt_minus_iff. replace (- p + - - q)%Qc with (q + - p)%Qc by ring. exact H.
Qed.

Lemma qabs_bound v tol : (qabs v < tol)%Qc -> (- tol < v)%Qc /\ (v < tol)%Qc.
Proof.
  assert (E : (- g0 = g0)%Qc) by (unfold g0; ring).
  unfold qabs. destruct (v ?= g0)%Qc eqn:Hc; intros H.
  - apply Qceq_alt in Hc. subst v. split; [|exact H].
    apply Qcopp_lt_compat in H. rewrite E in H. exact H.
  - apply Qclt_alt in Hc. pose proof (Qcopp_lt_compat _ _ Hc) as Hc'. rewrite E in Hc'. split.
    + apply Qcopp_lt_compat in H. rewrite Qcopp_involutive in H. exact H.
    + eapply Qclt_trans; [exact Hc|]. eapply Qclt_trans; [exact Hc' | exact H].
  - apply Qcgt_alt in Hc. split; [|exact H].
    pose proof (Qcopp_lt_compat _ _ H) as H'. pose proof (Qcopp_lt_compat _ _ Hc) as Hc'. rewrite E in Hc'.
    eapply Qclt_trans; [exact H'|]. eapply Qclt_trans; [exact Hc' | exact Hc].
Qed.

(** ---- the update ---- *)
Lemma nl_update_sound T ss HU Tg Up res Up' : nl_update T ss HU Tg Up res = Some Up' ->
  exists X, mmul HU X = map (fun x => [x]) (flat_map (dev_of ss res) Tg) /\
            Up' = map (fun ui => map (fun p => Qcminus (fst p) (snd p))
                                     (combine (nth ui Up []) (firstn (Z.to_nat T) (skipn (ui * Z.to_nat T) (map (fun row => hd g0 row) X)))))
                      (seq 0 (length Up)).
Proof.
  unfold nl_update. destruct (msolve HU _) as [X|] eqn:Hs; [|discriminate]. intros H; inversion H; subst.
  exists X. split; [apply (msolve_sound_lemma _ _ _ Hs) | reflexivity].
Qed.

(** ---- zero shock at a consistent steady state ---- *)
Definition ss_consistent (ss : tbl) (prog : list sblock) : Prop :=
  forall b oe, In b prog -> In oe (sb_outs b) -> qeval_ss (qlookup ss) (snd oe) = qlookup ss (fst oe).
Definition at_ss (ss : tbl) (P : paths) : Prop := forall x v, In v (nth x P []) -> v = qlookup ss x.

Lemma nth_upd_nth {A} (n : nat) (x : A) l d k : (n < length l)%nat ->
  nth k (upd_nth n x l) d = if Nat.eqb k n then x else nth k l d.
Proof.
  intros Hn. unfold upd_nth. destruct (Nat.eqb_spec k n) as [->|Hne].
  - rewrite app_nth2; rewrite firstn_length_le by lia; [|lia]. replace (n - n)%nat with 0%nat by lia. reflexivity.
  - destruct (Nat.lt_ge_cases k n) as [Hlt|Hge].
    + rewrite app_nth1 by (rewrite firstn_length_le; lia).
      rewrite <- (firstn_skipn n l) at 2. rewrite app_nth1 by (rewrite firstn_length_le; lia). reflexivity.
    + rewrite app_nth2; rewrite firstn_length_le by lia; [|lia].
      destruct (k - n)%nat as [|j] eqn:Hj; [lia|]. cbn [nth].
      rewrite <- (firstn_skipn (S n) l) at 2. rewrite app_nth2; rewrite firstn_length_le by lia; [|lia].
      replace (k - S n)%nat with j by lia. reflexivity.
Qed.
Lemma upd_nth_length {A} (n : nat) (x : A) l : (n < length l)%nat -> length (upd_nth n x l) = length l.
Proof.
  intros Hn. unfold upd_nth. rewrite app_length. cbn [length]. rewrite firstn_length_le by lia. rewrite skipn_length. lia.
Qed.

Lemma penv_at_ss ss P : at_ss ss P -> forall x u, penv P ss x u = qlookup ss x.
Proof.
  intros H x u. unfold penv. destruct (u <? 0)%Z; [reflexivity|].
  destruct (Nat.lt_ge_cases (Z.to_nat u) (length (nth x P []))) as [Hlt|Hge].
  - apply H. apply nth_In. exact Hlt.
  - apply nth_overflow. exact Hge.
Qed.

Lemma eval_block_at_ss (force : bool) T ss prog b P : ss_consistent ss prog -> In b prog ->
  (forall oe, In oe (sb_outs b) -> (fst oe < length P)%nat) ->
  at_ss ss P -> at_ss ss (eval_block force T ss ss P b) /\ length (eval_block force T ss ss P b) = length P.
Proof.
  intros Hc Hb Hlen Hat. unfold eval_block. destruct (force || existsb (perturbed P) (sb_ins b)); [|split; [exact Hat | reflexivity]].
  pose proof (penv_at_ss ss P Hat) as Henv.
  assert (Hgen : forall outs P', (forall oe, In oe outs -> In oe (sb_outs b)) -> at_ss ss P' -> length P' = length P ->
     at_ss ss (fold_left (fun P'' oe => upd_nth (fst oe) (map (fun t => qeval_td (Some T) (qlookup ss) (qlookup ss) (penv P ss) (snd oe) (Z.of_nat t)) (seq 0 (Z.to_nat T))) P'') outs P')
     /\ length (fold_left (fun P'' oe => upd_nth (fst oe) (map (fun t => qeval_td (Some T) (qlookup ss) (qlookup ss) (penv P ss) (snd oe) (Z.of_nat t)) (seq 0 (Z.to_nat T))) P'') outs P') = length P).
  { induction outs as [|oe outs IH]; intros P' Hin Hat' Hl'; cbn [fold_left]; [split; assumption|].
    apply IH.
    - intros; apply Hin; right; assumption.
    - intros x v Hv. rewrite nth_upd_nth in Hv by (rewrite Hl'; apply Hlen, Hin; left; reflexivity).
      destruct (Nat.eqb_spec x (fst oe)) as [->|Hne]; [|apply Hat'; exact Hv].
      apply in_map_iff in Hv. destruct Hv as [t [Hv _]]. subst v.
      unfold qeval_td. rewrite ss_td_agree by exact Henv. apply (Hc b oe Hb). apply Hin; left; reflexivity.
    - rewrite upd_nth_length; [exact Hl' | rewrite Hl'; apply Hlen, Hin; left; reflexivity]. }
  apply Hgen; [auto | exact Hat | reflexivity].
Qed.

Lemma nl_eval_at_ss (force : bool) T ss prog : ss_consistent ss prog -> forall P,
  (forall b oe, In b prog -> In oe (sb_outs b) -> (fst oe < length P)%nat) -> at_ss ss P -> at_ss ss (nl_eval force T ss ss prog P).
Proof.
  intros Hc. unfold nl_eval.
  assert (Hgen : forall bs, (forall b, In b bs -> In b prog) -> forall P,
     (forall b oe, In b prog -> In oe (sb_outs b) -> (fst oe < length P)%nat) -> at_ss ss P -> at_ss ss (fold_left (eval_block force T ss ss) bs P)).
  { induction bs as [|b bs IH]; intros Hin P Hlen Hat; cbn [fold_left]; [exact Hat|].
    destruct (eval_block_at_ss force T ss prog b P Hc (Hin b (or_introl eq_refl)) (fun oe H => Hlen b oe (Hin b (or_introl eq_refl)) H) Hat) as [Hat' Hl'].
    apply IH; [intros; apply Hin; right; assumption | rewrite Hl'; exact Hlen | exact Hat']. }
  intros P; apply Hgen; auto.
Qed.

Lemma init_paths_at_ss N ss devs : (forall d v, In d devs -> In v (snd d) -> v = g0) -> (forall d, In d devs -> (fst d < N)%nat) ->
  at_ss ss (init_paths N ss devs) /\ length (init_paths N ss devs) = N.
Proof.
  intros Hz Hn. unfold init_paths.
  assert (Hgen : forall ds P, (forall d, In d ds -> In d devs) -> at_ss ss P -> length P = N ->
     at_ss ss (fold_left (fun P d => upd_nth (fst d) (map (fun v => Qcplus (qlookup ss (fst d)) v) (snd d)) P) ds P) /\
     length (fold_left (fun P d => upd_nth (fst d) (map (fun v => Qcplus (qlookup ss (fst d)) v) (snd d)) P) ds P) = N).
  { induction ds as [|d ds IH]; intros P Hin Hat Hl; cbn [fold_left]; [split; assumption|].
    apply IH.
    - intros; apply Hin; right; assumption.
    - intros x v Hv. rewrite nth_upd_nth in Hv by (rewrite Hl; apply Hn, Hin; left; reflexivity).
      destruct (Nat.eqb_spec x (fst d)) as [->|Hne]; [|apply Hat; exact Hv].
      apply in_map_iff in Hv. destruct Hv as [w [Hv Hw]]. subst v.
      rewrite (Hz d w (Hin d (or_introl eq_refl)) Hw). change g0 with (Q2Qc 0). ring.
    - rewrite upd_nth_length; [exact Hl | rewrite Hl; apply Hn, Hin; left; reflexivity]. }
  apply Hgen; [auto | | apply repeat_length].
  intros x v Hv. exfalso.
  assert (Hr : forall n k, nth k (repeat (@nil Qc) n) [] = []).
  { induction n as [|n IHn]; intros [|k]; cbn; auto. }
  specialize (Hr N x).
  rewrite Hr in Hv. exact Hv.
Qed.

Lemma dev_of_at_ss ss P o v : at_ss ss P -> In v (dev_of ss P o) -> v = g0.
Proof.
  intros Hat Hv. unfold dev_of in Hv. apply in_map_iff in Hv. destruct Hv as [w [Hv Hw]]. subst v.
  rewrite (Hat o w Hw). change g0 with (Q2Qc 0). ring.
Qed.

Lemma qabs_zero_lt tol : (g0 < tol)%Qc -> qltb (qabs g0) tol = true.
Proof.
  intros H. unfold qabs. assert (E : (g0 ?= g0)%Qc = Eq) by (apply Qceq_alt; reflexivity). rewrite E.
  unfold qltb. pose proof (proj1 (Qclt_alt g0 tol) H) as H'. rewrite H'. reflexivity.
Qed.

Theorem nl_zero_shock_lemma (force : bool) maxit N T ss prog U Tg shocks tol :
  ss_consistent ss prog ->
  (forall b oe, In b prog -> In oe (sb_outs b) -> (fst oe < N)%nat) ->
  (forall d, In d shocks -> (fst d < N)%nat) -> (forall u, In u U -> (u < N)%nat) ->
  (forall d v, In d shocks -> In v (snd d) -> v = g0) ->
  (g0 < tol)%Qc ->
  let U0 := map (fun _ => repeat g0 (Z.to_nat T)) U in
  let res := nl_results force N T ss ss prog U shocks U0 in
  nl_solve force (S maxit) N T ss ss prog U Tg shocks tol = Converged U0 res /\
  forall o v, In v (dev_of ss res o) -> v = g0.
Proof.
  intros Hc Hout Hsh HU Hz Htol U0 res.
  assert (Hdev : forall d, In d (shocks ++ combine U U0) -> (forall v, In v (snd d) -> v = g0) /\ (fst d < N)%nat).
  { intros d Hd. apply in_app_or in Hd. destruct Hd as [Hd|Hd]; [split; [intros v; apply Hz; exact Hd | apply Hsh; exact Hd]|].
    destruct d as [u p]. pose proof (in_combine_l _ _ _ _ Hd) as Hu. pose proof (in_combine_r _ _ _ _ Hd) as Hp.
    unfold U0 in Hp. apply in_map_iff in Hp. destruct Hp as [_ [Hp _]]. subst p.
    split; [intros v Hv; apply repeat_spec in Hv; exact Hv | apply HU; exact Hu]. }
  destruct (init_paths_at_ss N ss (shocks ++ combine U U0)) as [Hat Hl];
    [intros d v Hd; apply (proj1 (Hdev d Hd)) | intros d Hd; apply (proj2 (Hdev d Hd)) |].
  assert (Hres : at_ss ss res).
  { unfold res, nl_results. apply nl_eval_at_ss; [exact Hc | rewrite Hl; exact Hout | exact Hat]. }
  split.
  - unfold nl_solve. apply nl_loop_first. fold U0. fold res. unfold nl_ok.
    apply forallb_forall; intros tg _. apply forallb_forall; intros v Hv.
    rewrite (dev_of_at_ss ss res tg v Hres Hv). apply qabs_zero_lt; exact Htol.
  - intros o v Hv. eapply dev_of_at_ss; eassumption.
Qed.

(** ---- what a returned solution satisfies ---- *)
Theorem nl_solve_sound_lemma (force : bool) maxit N T ss ssi prog U Tg shocks tol Up res :
  nl_solve force maxit N T ss ssi prog U Tg shocks tol = Converged Up res ->
  res = nl_eval force T ss ssi prog (init_paths N ss (shocks ++ combine U Up)) /\
  forall tg v, In tg Tg -> In v (dev_of ss res tg) -> (- tol < v)%Qc /\ (v < tol)%Qc.
Proof.
  unfold nl_solve. intros H. apply nl_loop_sound in H. destruct H as [Hr Hok]. split; [exact Hr|].
  intros tg v Htg Hv. apply qabs_bound. eapply nl_ok_spec; eassumption.
Qed.

Theorem nl_solve_no_return_lemma (force : bool) N T ss ssi prog U Tg shocks tol Up res :
  nl_solve force 0 N T ss ssi prog U Tg shocks tol <> Converged Up res.
Proof. unfold nl_solve; cbn [nl_loop]; discriminate. Qed.

(** ---- the steady state computed along a well-formed order is consistent with every block ---- *)
Lemma eval_ss_ext (s s' : nat -> Qc) e : (forall x, In x (evars e) -> s x = s' x) -> qeval_ss s e = qeval_ss s' e.
Proof.
  unfold qeval_ss. induction e as [x|c|k e IH|e IH|e IH|a IHa b IHb|a IHa b IHb|a IHa b IHb|a IHa b IHb|a IHa n|g dg e IHg]; intros H;
    cbn [SimpleBlk.eval_ss evars] in *; try reflexivity;
    try (rewrite IH by exact H; reflexivity);
    try (rewrite IHa, IHb by (intros; apply H; apply in_or_app; auto); reflexivity).
  - apply H. left; reflexivity.
  - rewrite IHa by exact H. reflexivity.
  - rewrite IHg by exact H. reflexivity.
Qed.

Lemma qlookup_upd_nth n x (l : tbl) k : (n < length l)%nat -> qlookup (upd_nth n x l) k = if Nat.eqb k n then x else qlookup l k.
Proof. intros H. unfold qlookup. apply nth_upd_nth. exact H. Qed.

Lemma ss_block_gen (ss : tbl) outs : forall s, (forall oe, In oe outs -> (fst oe < length s)%nat) ->
  let r := fold_left (fun s oe => upd_nth (fst oe) (qeval_ss (qlookup ss) (snd oe)) s) outs s in
  length r = length s /\
  (forall x, ~ In x (map fst outs) -> qlookup r x = qlookup s x) /\
  (NoDup (map fst outs) -> forall oe, In oe outs -> qlookup r (fst oe) = qeval_ss (qlookup ss) (snd oe)).
Proof.
  induction outs as [|oe outs IH]; intros s Hl; cbn [fold_left map].
  - split; [reflexivity|]. split; [reflexivity | intros _ ? []].
  - assert (Hl0 : (fst oe < length s)%nat) by (apply Hl; left; reflexivity).
    destruct (IH (upd_nth (fst oe) (qeval_ss (qlookup ss) (snd oe)) s)) as (L & Hout & Hin).
    { intros oe' H'. rewrite upd_nth_length by exact Hl0. apply Hl; right; exact H'. }
    rewrite upd_nth_length in L by exact Hl0. split; [exact L|]. split.
    + intros x Hx. rewrite Hout by (intros H'; apply Hx; right; exact H').
      rewrite qlookup_upd_nth by exact Hl0. destruct (Nat.eqb_spec x (fst oe)) as [->|]; [exfalso; apply Hx; left; reflexivity | reflexivity].
    + intros Hnd oe' [<-|H'].
      * inversion Hnd as [|? ? Hni Hnd']; subst. rewrite Hout by exact Hni. rewrite qlookup_upd_nth by exact Hl0. rewrite Nat.eqb_refl. reflexivity.
      * inversion Hnd as [|? ? Hni Hnd']; subst. apply Hin; assumption.
Qed.

Lemma ss_eval_untouched N : forall rest s, length s = N -> (forall b' o, In b' rest -> In o (outs_of b') -> (o < N)%nat) ->
  length (ss_eval rest s) = N /\ forall x, (forall b', In b' rest -> ~ In x (outs_of b')) -> qlookup (ss_eval rest s) x = qlookup s x.
Proof.
  induction rest as [|b rest IH]; intros s Hl Hn; cbn [ss_eval fold_left]; [split; [exact Hl | reflexivity]|].
  destruct (ss_block_gen s (sb_outs b) s) as (L & Hout & _).
  { intros oe Hoe. rewrite Hl. apply (Hn b (fst oe)); [left; reflexivity | apply in_map; exact Hoe]. }
  fold (ss_block s b) in *. fold (ss_eval rest (ss_block s b)).
  destruct (IH (ss_block s b)) as (L' & Hun); [rewrite L; exact Hl | intros; eapply Hn; [right; eassumption | assumption] |].
  split; [exact L'|]. intros x Hx. rewrite Hun by (intros; apply Hx; right; assumption).
  apply Hout. apply (Hx b). left; reflexivity.
Qed.

Lemma wf_prog_outs_lt N : forall prog, wf_prog N prog -> forall b o, In b prog -> In o (outs_of b) -> (o < N)%nat.
Proof.
  induction prog as [|b0 rest IH]; intros Hwf b o Hb Ho; [destruct Hb|].
  cbn [wf_prog] in Hwf. destruct Hwf as (_ & _ & Hlt & _ & Hrest). destruct Hb as [<-|Hb]; [apply Hlt; exact Ho | eapply IH; eassumption].
Qed.

Theorem ss_eval_consistent_lemma N : forall prog ss0, length ss0 = N -> wf_prog N prog -> ss_consistent (ss_eval prog ss0) prog.
Proof.
  induction prog as [|b rest IH]; intros ss0 Hl Hwf b' oe Hb' Hoe; [destruct Hb'|].
  cbn [wf_prog] in Hwf. destruct Hwf as (Hvars & Hnd & Hlt & Hlater & Hrest).
  cbn [ss_eval fold_left]. fold (ss_eval rest (ss_block ss0 b)).
  destruct (ss_block_gen ss0 (sb_outs b) ss0) as (L & Hout & Hin).
  { intros oe' H'. rewrite Hl. apply Hlt. apply in_map; exact H'. }
  fold (ss_block ss0 b) in *.
  destruct Hb' as [<-|Hb'].
  - destruct (ss_eval_untouched N rest (ss_block ss0 b)) as (_ & Hun); [rewrite L; exact Hl | apply wf_prog_outs_lt; exact Hrest |].
    rewrite Hun by (intros b2 Hb2 Ho; apply (proj2 (Hlater b2 (fst oe) Hb2 Ho)); apply in_map; exact Hoe).
    rewrite (Hin Hnd oe Hoe). apply eval_ss_ext. intros x Hx.
    pose proof (Hvars oe x Hoe Hx) as Hxin.
    rewrite Hun by (intros b2 Hb2 Ho; apply (proj1 (Hlater b2 x Hb2 Ho)); exact Hxin).
    apply Hout. intros Ho. apply (proj2 (Hlt x Ho)). exact Hxin.
  - assert (Hc : ss_consistent (ss_eval rest (ss_block ss0 b)) rest) by (apply IH; [rewrite L; exact Hl | exact Hrest]).
    exact (Hc b' oe Hb' Hoe).
Qed.

Lemma upd_nth_same (l : tbl) n : (n < length l)%nat -> upd_nth n (qlookup l n) l = l.
Proof.
  intros H. apply (nth_ext _ _ q0 q0); [apply upd_nth_length; exact H|].
  intros k _. rewrite nth_upd_nth by exact H. destruct (Nat.eqb_spec k n) as [->|]; reflexivity.
Qed.

(** re-evaluating the DAG at a consistent table reproduces the table *)
Theorem ss_eval_idempotent_lemma N prog ss : length ss = N -> (forall b o, In b prog -> In o (outs_of b) -> (o < N)%nat) ->
  ss_consistent ss prog -> ss_eval prog ss = ss.
Proof.
  intros Hl Hlt Hc. unfold ss_eval.
  assert (Hgen : forall bs, (forall b, In b bs -> In b prog) -> fold_left ss_block bs ss = ss).
  { induction bs as [|b bs IH]; intros Hin; cbn [fold_left]; [reflexivity|].
    assert (Hb : ss_block ss b = ss).
    { unfold ss_block.
      assert (Hg2 : forall outs, (forall oe, In oe outs -> In oe (sb_outs b)) ->
                fold_left (fun s oe => upd_nth (fst oe) (qeval_ss (qlookup ss) (snd oe)) s) outs ss = ss).
      { induction outs as [|oe outs IHo]; intros Ho; cbn [fold_left]; [reflexivity|].
        rewrite (Hc b oe (Hin b (or_introl eq_refl)) (Ho oe (or_introl eq_refl))).
        rewrite upd_nth_same; [apply IHo; intros; apply Ho; right; assumption|].
        rewrite Hl. apply (Hlt b); [apply Hin; left; reflexivity | apply in_map; apply Ho; left; reflexivity]. }
      apply Hg2; auto. }
    rewrite Hb. apply IH. intros; apply Hin; right; assumption. }
  apply Hgen; auto.
Qed.

(** ---- the boolean well-formedness test is sound ---- *)
Lemma memb_In x l : memb x l = true <-> In x l.
Proof.
  unfold memb. rewrite existsb_exists. split.
  - intros [y [Hy E]]. apply Nat.eqb_eq in E. subst. exact Hy.
  - intros H. exists x. split; [exact H | apply Nat.eqb_refl].
Qed.
Lemma memb_false x l : memb x l = false -> ~ In x l.
Proof. intros H Hin. apply memb_In in Hin. congruence. Qed.
Lemma nodupb_NoDup l : nodupb l = true -> NoDup l.
Proof.
  induction l as [|x l IH]; cbn [nodupb]; intros H; [constructor|]. apply andb_prop in H. destruct H as [H1 H2].
  constructor; [apply memb_false; apply negb_true_iff; exact H1 | apply IH; exact H2].
Qed.
Theorem wf_progb_sound N : forall prog, wf_progb N prog = true -> wf_prog N prog.
Proof.
  induction prog as [|b rest IH]; cbn [wf_progb wf_prog]; intros H; [exact I|].
  repeat (apply andb_prop in H; destruct H as [H ?]).
  match goal with Hr : wf_progb N rest = true |- _ => specialize (IH Hr) end.
  rewrite forallb_forall in *.
  split; [|split; [|split; [|split]]]; try assumption.
  - intros oe x Hoe Hx. apply memb_In. match goal with Hv : forall x, In x (sb_outs b) -> _ |- _ => specialize (Hv oe Hoe); rewrite forallb_forall in Hv; apply Hv; exact Hx end.
  - apply nodupb_NoDup; assumption.
  - intros o Ho. match goal with Hv : forall x, In x (outs_of b) -> _ |- _ => specialize (Hv o Ho); apply andb_prop in Hv; destruct Hv as [Hv1 Hv2] end.
    split; [apply Nat.ltb_lt; exact Hv1 | apply memb_false; apply negb_true_iff; exact Hv2].
  - intros b' o Hb' Ho. match goal with Hv : forall x, In x rest -> _ |- _ => specialize (Hv b' Hb'); rewrite forallb_forall in Hv; specialize (Hv o Ho); apply andb_prop in Hv; destruct Hv as [Hv1 Hv2] end.
    split; apply memb_false; apply negb_true_iff; assumption.
Qed.

(** ---- the steady state does not depend on the listing order ---- *)
Lemma consistent_unique N prog (s s' : tbl) : wf_prog N prog -> ss_consistent s prog -> ss_consistent s' prog ->
  (forall x, (forall b, In b prog -> ~ In x (outs_of b)) -> qlookup s x = qlookup s' x) ->
  forall b o, In b prog -> In o (outs_of b) -> qlookup s o = qlookup s' o.
Proof.
  induction prog as [|b0 rest IH]; intros Hwf Hc Hc' Hext b o Hb Ho; [destruct Hb|].
  cbn [wf_prog] in Hwf. destruct Hwf as (Hvars & Hnd & Hlt & Hlater & Hrest).
  assert (Hins : forall x, In x (sb_ins b0) -> qlookup s x = qlookup s' x).
  { intros x Hx. apply Hext. intros b1 [<-|Hb1] Hox; [apply (proj2 (Hlt x Hox)); exact Hx | apply (proj1 (Hlater b1 x Hb1 Hox)); exact Hx]. }
  assert (Hb0 : forall o0, In o0 (outs_of b0) -> qlookup s o0 = qlookup s' o0).
  { intros o0 Ho0. unfold outs_of in Ho0. apply in_map_iff in Ho0. destruct Ho0 as [oe [<- Hoe]].
    rewrite <- (Hc b0 oe (or_introl eq_refl) Hoe), <- (Hc' b0 oe (or_introl eq_refl) Hoe).
    apply eval_ss_ext. intros x Hx. apply Hins. eapply Hvars; eassumption. }
  destruct Hb as [<-|Hb]; [apply Hb0; exact Ho|].
  apply (IH Hrest (fun b1 oe H1 H2 => Hc b1 oe (or_intror H1) H2) (fun b1 oe H1 H2 => Hc' b1 oe (or_intror H1) H2)) with (b := b); [|exact Hb | exact Ho].
  intros x Hx. destruct (in_dec Nat.eq_dec x (outs_of b0)) as [Hi|Hn]; [apply Hb0; exact Hi|].
  apply Hext. intros b1 [<-|Hb1]; [exact Hn | apply Hx; exact Hb1].
Qed.

Theorem ss_order_independent_lemma N prog prog' calib : length calib = N -> wf_prog N prog -> wf_prog N prog' ->
  (forall b, In b prog <-> In b prog') -> ss_eval prog calib = ss_eval prog' calib.
Proof.
  intros Hl Hwf Hwf' Hperm.
  pose proof (ss_eval_consistent_lemma N prog calib Hl Hwf) as Hc.
  pose proof (ss_eval_consistent_lemma N prog' calib Hl Hwf') as Hc'.
  destruct (ss_eval_untouched N prog calib Hl (wf_prog_outs_lt N prog Hwf)) as [L Hun].
  destruct (ss_eval_untouched N prog' calib Hl (wf_prog_outs_lt N prog' Hwf')) as [L' Hun'].
  assert (Hc2 : ss_consistent (ss_eval prog' calib) prog) by (intros b oe Hb Hoe; exact (Hc' b oe (proj1 (Hperm b) Hb) Hoe)).
  assert (Hext : forall x, (forall b, In b prog -> ~ In x (outs_of b)) -> qlookup (ss_eval prog calib) x = qlookup (ss_eval prog' calib) x).
  { intros x Hx. rewrite Hun by exact Hx. rewrite Hun'; [reflexivity|]. intros b Hb. apply Hx. apply Hperm. exact Hb. }
  apply (nth_ext _ _ q0 q0); [rewrite L, L'; reflexivity|]. intros x _.
  destruct (existsb (fun b => memb x (outs_of b)) prog) eqn:E.
  - apply existsb_exists in E. destruct E as [b [Hb Ho]]. apply memb_In in Ho.
    exact (consistent_unique N prog _ _ Hwf Hc Hc2 Hext b x Hb Ho).
  - apply Hext. intros b Hb Ho. assert (existsb (fun b => memb x (outs_of b)) prog = true); [|congruence].
    apply existsb_exists. exists b. split; [exact Hb | apply memb_In; exact Ho].
Qed.

(** ---- the nonlinear evaluation of the DAG does not depend on the listing order ---- *)
Lemma eval_td_ext T ss ssi (env env' : nat -> Z -> Qc) e : (forall x, In x (evars e) -> forall u, env x u = env' x u) ->
  forall t, qeval_td T ss ssi env e t = qeval_td T ss ssi env' e t.
Proof.
  unfold qeval_td. induction e as [x|c|k e IH|e IH|e IH|a IHa b IHb|a IHa b IHb|a IHa b IHb|a IHa b IHb|a IHa n|g dg e IHg]; intros H t;
    cbn [SimpleBlk.eval_td evars] in *; try reflexivity;
    try (rewrite IH by exact H; reflexivity);
    try (rewrite IHa, IHb by (intros; apply H; apply in_or_app; auto); reflexivity).
  - apply H. left; reflexivity.
  - rewrite IHa by exact H. reflexivity.
  - rewrite IHg by exact H. reflexivity.
Qed.

Definition out_path (T : Z) (ss ssi : tbl) (P : paths) (e : @expr Qc) : list Qc :=
  map (fun t => qeval_td (Some T) (qlookup ss) (qlookup ssi) (penv P ss) e (Z.of_nat t)) (seq 0 (Z.to_nat T)).
Definition path_of (P : paths) (x : nat) : list Qc := nth x P [].

Lemma out_path_ext T ss ssi P P' e : (forall x, In x (evars e) -> path_of P x = path_of P' x) -> out_path T ss ssi P e = out_path T ss ssi P' e.
Proof.
  intros H. unfold out_path. apply map_ext. intros t. apply eval_td_ext. intros x Hx u. unfold penv. unfold path_of in H. rewrite (H x Hx). reflexivity.
Qed.
Lemma perturbed_ext P P' l : (forall x, In x l -> path_of P x = path_of P' x) -> existsb (perturbed P) l = existsb (perturbed P') l.
Proof.
  intros H. induction l as [|x l IH]; cbn [existsb]; [reflexivity|]. rewrite IH by (intros; apply H; right; assumption).
  unfold perturbed. unfold path_of in H. rewrite (H x (or_introl eq_refl)). reflexivity.
Qed.

Lemma path_upd_nth n (p : list Qc) (P : paths) k : (n < length P)%nat -> path_of (upd_nth n p P) k = if Nat.eqb k n then p else path_of P k.
Proof. intros H. unfold path_of. apply nth_upd_nth. exact H. Qed.

Lemma eval_fold_gen T ss ssi (P : paths) outs : forall P', (forall oe, In oe outs -> (fst oe < length P')%nat) ->
  let r := fold_left (fun P'' oe => upd_nth (fst oe) (out_path T ss ssi P (snd oe)) P'') outs P' in
  length r = length P' /\
  (forall x, ~ In x (map fst outs) -> path_of r x = path_of P' x) /\
  (NoDup (map fst outs) -> forall oe, In oe outs -> path_of r (fst oe) = out_path T ss ssi P (snd oe)).
Proof.
  induction outs as [|oe outs IH]; intros P' Hl; cbn [fold_left map].
  - split; [reflexivity|]. split; [reflexivity | intros _ ? []].
  - assert (Hl0 : (fst oe < length P')%nat) by (apply Hl; left; reflexivity).
    destruct (IH (upd_nth (fst oe) (out_path T ss ssi P (snd oe)) P')) as (L & Hout & Hin).
    { intros oe' H'. rewrite upd_nth_length by exact Hl0. apply Hl; right; exact H'. }
    rewrite upd_nth_length in L by exact Hl0. split; [exact L|]. split.
    + intros x Hx. rewrite Hout by (intros H'; apply Hx; right; exact H').
      rewrite path_upd_nth by exact Hl0. destruct (Nat.eqb_spec x (fst oe)) as [->|]; [exfalso; apply Hx; left; reflexivity | reflexivity].
    + intros Hnd oe' [<-|H'].
      * inversion Hnd as [|? ? Hni Hnd']; subst. rewrite Hout by exact Hni. rewrite path_upd_nth by exact Hl0. rewrite Nat.eqb_refl. reflexivity.
      * inversion Hnd as [|? ? Hni Hnd']; subst. apply Hin; assumption.
Qed.

Lemma eval_block_spec (force : bool) T ss ssi P b : (forall o, In o (outs_of b) -> (o < length P)%nat) ->
  let r := eval_block force T ss ssi P b in
  length r = length P /\
  (forall x, ~ In x (outs_of b) -> path_of r x = path_of P x) /\
  (NoDup (outs_of b) -> forall oe, In oe (sb_outs b) ->
     path_of r (fst oe) = if force || existsb (perturbed P) (sb_ins b) then out_path T ss ssi P (snd oe) else path_of P (fst oe)).
Proof.
  intros Hl. unfold eval_block. destruct (force || existsb (perturbed P) (sb_ins b)).
  - apply (eval_fold_gen T ss ssi P (sb_outs b) P). intros oe Hoe. apply Hl. apply in_map. exact Hoe.
  - cbv zeta. split; [reflexivity|]. split; reflexivity.
Qed.

Lemma nl_eval_untouched (force : bool) T ss ssi N : forall rest P, length P = N -> (forall b' o, In b' rest -> In o (outs_of b') -> (o < N)%nat) ->
  length (nl_eval force T ss ssi rest P) = N /\ forall x, (forall b', In b' rest -> ~ In x (outs_of b')) -> path_of (nl_eval force T ss ssi rest P) x = path_of P x.
Proof.
  induction rest as [|b rest IH]; intros P Hl Hn; cbn [nl_eval fold_left]; [split; [exact Hl | reflexivity]|].
  destruct (eval_block_spec force T ss ssi P b) as (L & Hout & _).
  { intros o Ho. rewrite Hl. apply (Hn b o); [left; reflexivity | exact Ho]. }
  fold (nl_eval force T ss ssi rest (eval_block force T ss ssi P b)).
  destruct (IH (eval_block force T ss ssi P b)) as (L' & Hun); [rewrite L; exact Hl | intros; eapply Hn; [right; eassumption | assumption] |].
  split; [exact L'|]. intros x Hx. rewrite Hun by (intros; apply Hx; right; assumption).
  apply Hout. apply (Hx b). left; reflexivity.
Qed.

(** what the final paths satisfy: every block's outputs are its expressions evaluated on the final paths when one of its inputs is
    perturbed, and are what they were in the initial paths otherwise *)
Definition nl_consistent (force : bool) (T : Z) (ss ssi : tbl) (P0 P : paths) (prog : list sblock) : Prop :=
  forall b oe, In b prog -> In oe (sb_outs b) ->
    path_of P (fst oe) = if force || existsb (perturbed P) (sb_ins b) then out_path T ss ssi P (snd oe) else path_of P0 (fst oe).

Lemma nl_eval_consistent (force : bool) T ss ssi N : forall prog P0, length P0 = N -> wf_prog N prog -> nl_consistent force T ss ssi P0 (nl_eval force T ss ssi prog P0) prog.
Proof.
  induction prog as [|b rest IH]; intros P0 Hl Hwf b' oe Hb' Hoe; [destruct Hb'|].
  cbn [wf_prog] in Hwf. destruct Hwf as (Hvars & Hnd & Hlt & Hlater & Hrest).
  cbn [nl_eval fold_left]. fold (nl_eval force T ss ssi rest (eval_block force T ss ssi P0 b)).
  destruct (eval_block_spec force T ss ssi P0 b) as (L & Hout & Hin).
  { intros o Ho. rewrite Hl. apply Hlt. exact Ho. }
  set (P1 := eval_block force T ss ssi P0 b) in *.
  destruct (nl_eval_untouched force T ss ssi N rest P1) as (_ & Hun); [rewrite L; exact Hl | apply wf_prog_outs_lt; exact Hrest |].
  destruct Hb' as [<-|Hb'].
  - assert (Hins : forall x, In x (sb_ins b) -> path_of (nl_eval force T ss ssi rest P1) x = path_of P0 x).
    { intros x Hx. rewrite Hun by (intros b2 Hb2 Ho; apply (proj1 (Hlater b2 x Hb2 Ho)); exact Hx).
      apply Hout. intros Ho. apply (proj2 (Hlt x Ho)). exact Hx. }
    rewrite Hun by (intros b2 Hb2 Ho; apply (proj2 (Hlater b2 (fst oe) Hb2 Ho)); apply in_map; exact Hoe).
    rewrite (Hin Hnd oe Hoe). rewrite (perturbed_ext _ P0 (sb_ins b) Hins).
    destruct (force || existsb (perturbed P0) (sb_ins b)); [|reflexivity].
    symmetry. apply out_path_ext. intros x Hx. apply Hins. eapply Hvars; eassumption.
  - assert (Hc : nl_consistent force T ss ssi P1 (nl_eval force T ss ssi rest P1) rest) by (apply IH; [rewrite L; exact Hl | exact Hrest]).
    rewrite (Hc b' oe Hb' Hoe). destruct (force || existsb (perturbed (nl_eval force T ss ssi rest P1)) (sb_ins b')); [reflexivity|].
    apply Hout. intros Ho. apply (proj2 (Hlater b' (fst oe) Hb' (in_map fst _ _ Hoe))). exact Ho.
Qed.

Lemma nl_consistent_unique (force : bool) T ss ssi N prog (P0 P P' : paths) : wf_prog N prog ->
  nl_consistent force T ss ssi P0 P prog -> nl_consistent force T ss ssi P0 P' prog ->
  (forall x, (forall b, In b prog -> ~ In x (outs_of b)) -> path_of P x = path_of P' x) ->
  forall b o, In b prog -> In o (outs_of b) -> path_of P o = path_of P' o.
Proof.
  induction prog as [|b0 rest IH]; intros Hwf Hc Hc' Hext b o Hb Ho; [destruct Hb|].
  cbn [wf_prog] in Hwf. destruct Hwf as (Hvars & Hnd & Hlt & Hlater & Hrest).
  assert (Hins : forall x, In x (sb_ins b0) -> path_of P x = path_of P' x).
  { intros x Hx. apply Hext. intros b1 [<-|Hb1] Hox; [apply (proj2 (Hlt x Hox)); exact Hx | apply (proj1 (Hlater b1 x Hb1 Hox)); exact Hx]. }
  assert (Hb0 : forall o0, In o0 (outs_of b0) -> path_of P o0 = path_of P' o0).
  { intros o0 Ho0. unfold outs_of in Ho0. apply in_map_iff in Ho0. destruct Ho0 as [oe [<- Hoe]].
    rewrite (Hc b0 oe (or_introl eq_refl) Hoe), (Hc' b0 oe (or_introl eq_refl) Hoe).
    rewrite (perturbed_ext P P' (sb_ins b0) Hins). destruct (force || existsb (perturbed P') (sb_ins b0)); [|reflexivity].
    apply out_path_ext. intros x Hx. apply Hins. eapply Hvars; eassumption. }
  destruct Hb as [<-|Hb]; [apply Hb0; exact Ho|].
  apply (IH Hrest (fun b1 oe H1 H2 => Hc b1 oe (or_intror H1) H2) (fun b1 oe H1 H2 => Hc' b1 oe (or_intror H1) H2)) with (b := b); [|exact Hb | exact Ho].
  intros x Hx. destruct (in_dec Nat.eq_dec x (outs_of b0)) as [Hi|Hn]; [apply Hb0; exact Hi|].
  apply Hext. intros b1 [<-|Hb1]; [exact Hn | apply Hx; exact Hb1].
Qed.

Theorem nl_order_independent_lemma (force : bool) T ss ssi N prog prog' P0 : length P0 = N -> wf_prog N prog -> wf_prog N prog' ->
  (forall b, In b prog <-> In b prog') -> nl_eval force T ss ssi prog P0 = nl_eval force T ss ssi prog' P0.
Proof.
  intros Hl Hwf Hwf' Hperm.
  pose proof (nl_eval_consistent force T ss ssi N prog P0 Hl Hwf) as Hc.
  pose proof (nl_eval_consistent force T ss ssi N prog' P0 Hl Hwf') as Hc'.
  destruct (nl_eval_untouched force T ss ssi N prog P0 Hl (wf_prog_outs_lt N prog Hwf)) as [L Hun].
  destruct (nl_eval_untouched force T ss ssi N prog' P0 Hl (wf_prog_outs_lt N prog' Hwf')) as [L' Hun'].
  assert (Hc2 : nl_consistent force T ss ssi P0 (nl_eval force T ss ssi prog' P0) prog) by (intros b oe Hb Hoe; exact (Hc' b oe (proj1 (Hperm b) Hb) Hoe)).
  assert (Hext : forall x, (forall b, In b prog -> ~ In x (outs_of b)) -> path_of (nl_eval force T ss ssi prog P0) x = path_of (nl_eval force T ss ssi prog' P0) x).
  { intros x Hx. rewrite Hun by exact Hx. rewrite Hun'; [reflexivity|]. intros b Hb. apply Hx. apply Hperm. exact Hb. }
  apply (nth_ext _ _ [] []); [rewrite L, L'; reflexivity|]. intros x _.
  destruct (existsb (fun b => memb x (outs_of b)) prog) eqn:E.
  - apply existsb_exists in E. destruct E as [b [Hb Ho]]. apply memb_In in Ho.
    exact (nl_consistent_unique force T ss ssi N prog P0 _ _ Hwf Hc Hc2 Hext b x Hb Ho).
  - apply Hext. intros b Hb Ho. assert (existsb (fun b => memb x (outs_of b)) prog = true); [|congruence].
    apply existsb_exists. exists b. split; [exact Hb | apply memb_In; exact Ho].
Qed.
