(** C12: renaming the variables of a DAG of simple blocks commutes with its steady state, its nonlinear evaluation and its Jacobians. *)
From Coq Require Import ZArith QArith Qcanon Bool List Arith Lia.
From SSJ Require Import Model.Sparse Model.SimpleBlk Model.SimpleBlkQ Model.Chain Model.GET Model.NLSolve Model.Rename Proofs.NLSolveProofs.
Import ListNotations.

Lemma eval_ss_rename pi (s s' : nat -> Qc) e : (forall x, In x (evars e) -> s' (pi x) = s x) -> qeval_ss s' (rename_expr pi e) = qeval_ss s e.
Proof.
  unfold qeval_ss. induction e as [x|c|k e IH|e IH|e IH|a IHa b IHb|a IHa b IHb|a IHa b IHb|a IHa b IHb|a IHa n|g dg e IHg]; intros H;
    cbn [SimpleBlk.eval_ss evars rename_expr] in *; try reflexivity;
    try (rewrite IH by exact H; reflexivity);
    try (rewrite IHa, IHb by (intros; apply H; apply in_or_app; auto); reflexivity).
  - apply H. left; reflexivity.
  - rewrite IHa by exact H. reflexivity.
  - rewrite IHg by exact H. reflexivity.
Qed.

Lemma eval_ssi_rename pi (s s' i0 i0' : nat -> Qc) e : (forall x, In x (evars e) -> s' (pi x) = s x) -> (forall x, In x (evars e) -> i0' (pi x) = i0 x) ->
  eval_ssi Qc q1 Qcplus Qcmult Qcminus Qcopp Qcdiv s' i0' (rename_expr pi e) = eval_ssi Qc q1 Qcplus Qcmult Qcminus Qcopp Qcdiv s i0 e.
Proof.
  induction e as [x|c|k e IH|e IH|e IH|a IHa b IHb|a IHa b IHb|a IHa b IHb|a IHa b IHb|a IHa n|g dg e IHg]; intros H H0;
    cbn [SimpleBlk.eval_ssi evars rename_expr] in *; try reflexivity;
    try (rewrite IH by assumption; reflexivity);
    try (rewrite IHa, IHb by (intros; (apply H || apply H0); apply in_or_app; auto); reflexivity).
  - apply H0. left; reflexivity.
  - apply (eval_ss_rename pi s s' e H).
  - rewrite IHa by assumption. reflexivity.
  - rewrite IHg by assumption. reflexivity.
Qed.

Lemma eval_td_rename pi T (s s' i0 i0' : nat -> Qc) (env env' : nat -> Z -> Qc) e :
  (forall x, In x (evars e) -> s' (pi x) = s x) -> (forall x, In x (evars e) -> i0' (pi x) = i0 x) -> (forall x, In x (evars e) -> forall u, env' (pi x) u = env x u) ->
  forall t, qeval_td T s' i0' env' (rename_expr pi e) t = qeval_td T s i0 env e t.
Proof.
  unfold qeval_td. induction e as [x|c|k e IH|e IH|e IH|a IHa b IHb|a IHa b IHb|a IHa b IHb|a IHa b IHb|a IHa n|g dg e IHg]; intros H H0 He t;
    cbn [SimpleBlk.eval_td evars rename_expr] in *; try reflexivity;
    try (rewrite IH by assumption; reflexivity);
    try (rewrite IHa, IHb by (intros; (apply H || apply H0 || apply He); apply in_or_app; auto); reflexivity).
  - apply He. left; reflexivity.
  - rewrite (eval_ssi_rename pi s s' i0 i0' e H H0). pose proof (eval_ss_rename pi s s' e H) as E. unfold qeval_ss in E. rewrite E.
    destruct (t + k <? 0)%Z; [reflexivity|]. destruct T as [T'|]; [destruct (T' <=? t + k)%Z; [reflexivity | apply IH; assumption] | apply IH; assumption].
  - apply (eval_ss_rename pi s s' e H).
  - rewrite IHa by assumption. reflexivity.
  - rewrite IHg by assumption. reflexivity.
Qed.

(** one update of a name-indexed list on both sides of a renaming *)
Lemma upd_renamed {A} (d : A) pi N N' (l l' : list A) o v : renaming pi N N' -> length l = N -> length l' = N' -> (o < N)%nat ->
  (forall x, (x < N)%nat -> nth (pi x) l' d = nth x l d) ->
  forall x, (x < N)%nat -> nth (pi x) (upd_nth (pi o) v l') d = nth x (upd_nth o v l) d.
Proof.
  intros [Hlt Hinj] Hl Hl' Ho Hag x Hx.
  rewrite nth_upd_nth by (rewrite Hl'; apply Hlt; exact Ho). rewrite nth_upd_nth by (rewrite Hl; exact Ho).
  destruct (Nat.eqb_spec x o) as [->|Hne]; [rewrite Nat.eqb_refl; reflexivity|].
  destruct (Nat.eqb_spec (pi x) (pi o)) as [E|_]; [exfalso; apply Hne; apply Hinj; assumption | apply Hag; exact Hx].
Qed.

Section Rename.
Variables (pi : nat -> nat) (N N' : nat).
Hypothesis Hren : renaming pi N N'.

Lemma ss_block_renamed (s s' : tbl) b : length s = N -> length s' = N' -> tbl_renamed pi N s s' ->
  (forall oe, In oe (sb_outs b) -> (fst oe < N)%nat /\ forall x, In x (evars (snd oe)) -> (x < N)%nat) ->
  tbl_renamed pi N (ss_block s b) (ss_block s' (rename_block pi b)) /\ length (ss_block s b) = N /\ length (ss_block s' (rename_block pi b)) = N'.
Proof.
  intros Hl Hl' Hag Hb. unfold ss_block, rename_block. cbn [sb_outs].
  assert (Hgen : forall outs a a', (forall oe, In oe outs -> In oe (sb_outs b)) -> length a = N -> length a' = N' -> tbl_renamed pi N a a' ->
     tbl_renamed pi N (fold_left (fun t oe => upd_nth (fst oe) (qeval_ss (qlookup s) (snd oe)) t) outs a)
                      (fold_left (fun t oe => upd_nth (fst oe) (qeval_ss (qlookup s') (snd oe)) t) (map (fun oe => (pi (fst oe), rename_expr pi (snd oe))) outs) a')
     /\ length (fold_left (fun t oe => upd_nth (fst oe) (qeval_ss (qlookup s) (snd oe)) t) outs a) = N
     /\ length (fold_left (fun t oe => upd_nth (fst oe) (qeval_ss (qlookup s') (snd oe)) t) (map (fun oe => (pi (fst oe), rename_expr pi (snd oe))) outs) a') = N').
  { induction outs as [|oe outs IH]; intros a a' Hin La La' Haa; cbn [fold_left map]; [repeat split; assumption|].
    destruct (Hb oe (Hin oe (or_introl eq_refl))) as [Ho Hv]. cbn [fst snd].
    apply IH; [intros; apply Hin; right; assumption | rewrite upd_nth_length by (rewrite La; exact Ho); exact La
               | rewrite upd_nth_length by (rewrite La'; apply (proj1 Hren); exact Ho); exact La' |].
    rewrite (eval_ss_rename pi (qlookup s) (qlookup s') (snd oe)) by (intros x Hx; apply Hag; apply Hv; exact Hx).
    intros x Hx. unfold qlookup. apply (upd_renamed q0 pi N N'); try assumption; try (intros y Hy; apply (Haa y Hy)). }
  apply Hgen; auto.
Qed.

Theorem ss_eval_renamed_lemma : forall prog (s s' : tbl), names_below N prog -> length s = N -> length s' = N' -> tbl_renamed pi N s s' ->
  tbl_renamed pi N (ss_eval prog s) (ss_eval (rename_prog pi prog) s').
Proof.
  induction prog as [|b rest IH]; intros s s' Hnb Hl Hl' Hag; cbn [ss_eval rename_prog map fold_left]; [exact Hag|].
  destruct (ss_block_renamed s s' b Hl Hl' Hag (fun oe H => proj2 (Hnb b (or_introl eq_refl)) oe H)) as (Hag1 & L1 & L1').
  apply (IH (ss_block s b) (ss_block s' (rename_block pi b))); [intros b' Hb'; apply Hnb; right; exact Hb' | exact L1 | exact L1' | exact Hag1].
Qed.

(** nonlinear evaluation *)
Lemma penv_renamed (P P' : paths) (s s' : tbl) x u : (x < N)%nat -> paths_renamed pi N P P' -> tbl_renamed pi N s s' -> penv P' s' (pi x) u = penv P s x u.
Proof. intros Hx HP Hs. unfold penv. rewrite (HP x Hx), (Hs x Hx). reflexivity. Qed.

Lemma perturbed_renamed (P P' : paths) l : paths_renamed pi N P P' -> (forall x, In x l -> (x < N)%nat) ->
  existsb (perturbed P') (map pi l) = existsb (perturbed P) l.
Proof.
  intros HP Hl. induction l as [|x l IH]; cbn [map existsb]; [reflexivity|]. rewrite IH by (intros; apply Hl; right; assumption).
  unfold perturbed. rewrite (HP x (Hl x (or_introl eq_refl))). reflexivity.
Qed.

Lemma eval_block_renamed force T (s s' i0 i0' : tbl) (P P' : paths) b : length P = N -> length P' = N' ->
  tbl_renamed pi N s s' -> tbl_renamed pi N i0 i0' -> paths_renamed pi N P P' ->
  (forall x, In x (sb_ins b) -> (x < N)%nat) -> (forall oe, In oe (sb_outs b) -> (fst oe < N)%nat /\ forall x, In x (evars (snd oe)) -> (x < N)%nat) ->
  paths_renamed pi N (eval_block force T s i0 P b) (eval_block force T s' i0' P' (rename_block pi b))
  /\ length (eval_block force T s i0 P b) = N /\ length (eval_block force T s' i0' P' (rename_block pi b)) = N'.
Proof.
  intros Hl Hl' Hs Hi HP Hins Hb. unfold eval_block, rename_block. cbn [sb_ins sb_outs].
  rewrite (perturbed_renamed P P' (sb_ins b) HP Hins).
  destruct (force || existsb (perturbed P) (sb_ins b)); [|repeat split; assumption].
  set (f := fun (Q : paths) (oe : nat * expr Qc) => upd_nth (fst oe) (map (fun t => qeval_td (Some T) (qlookup s) (qlookup i0) (penv P s) (snd oe) (Z.of_nat t)) (seq 0 (Z.to_nat T))) Q).
  set (f' := fun (Q : paths) (oe : nat * expr Qc) => upd_nth (fst oe) (map (fun t => qeval_td (Some T) (qlookup s') (qlookup i0') (penv P' s') (snd oe) (Z.of_nat t)) (seq 0 (Z.to_nat T))) Q).
  assert (Hgen : forall outs a a', (forall oe, In oe outs -> In oe (sb_outs b)) -> length a = N -> length a' = N' -> paths_renamed pi N a a' ->
     paths_renamed pi N (fold_left f outs a) (fold_left f' (map (fun oe => (pi (fst oe), rename_expr pi (snd oe))) outs) a')
     /\ length (fold_left f outs a) = N /\ length (fold_left f' (map (fun oe => (pi (fst oe), rename_expr pi (snd oe))) outs) a') = N').
  { induction outs as [|oe outs IH]; intros a a' Hin La La' Haa; cbn [fold_left map]; [repeat split; assumption|].
    destruct (Hb oe (Hin oe (or_introl eq_refl))) as [Ho Hv].
    apply IH; [intros; apply Hin; right; assumption | unfold f; rewrite upd_nth_length by (rewrite La; exact Ho); exact La
               | unfold f'; cbn [fst snd]; rewrite upd_nth_length by (rewrite La'; apply (proj1 Hren); exact Ho); exact La' |].
    unfold f, f'. cbn [fst snd].
    assert (E : map (fun t => qeval_td (Some T) (qlookup s') (qlookup i0') (penv P' s') (rename_expr pi (snd oe)) (Z.of_nat t)) (seq 0 (Z.to_nat T))
              = map (fun t => qeval_td (Some T) (qlookup s) (qlookup i0) (penv P s) (snd oe) (Z.of_nat t)) (seq 0 (Z.to_nat T))).
    { apply map_ext. intros t. apply eval_td_rename.
      - intros x Hx. apply Hs. apply Hv; exact Hx.
      - intros x Hx. apply Hi. apply Hv; exact Hx.
      - intros x Hx u. apply penv_renamed; [apply Hv; exact Hx | exact HP | exact Hs]. }
    rewrite E. intros x Hx. apply (upd_renamed [] pi N N'); try assumption. }
  apply Hgen; auto.
Qed.

Theorem nl_eval_renamed_lemma force T (s s' i0 i0' : tbl) : tbl_renamed pi N s s' -> tbl_renamed pi N i0 i0' ->
  forall prog (P P' : paths), names_below N prog -> length P = N -> length P' = N' -> paths_renamed pi N P P' ->
  paths_renamed pi N (nl_eval force T s i0 prog P) (nl_eval force T s' i0' (rename_prog pi prog) P').
Proof.
  intros Hs Hi. induction prog as [|b rest IH]; intros P P' Hnb Hl Hl' HP; cbn [nl_eval rename_prog map fold_left]; [exact HP|].
  destruct (Hnb b (or_introl eq_refl)) as [Hins Hb].
  destruct (eval_block_renamed force T s s' i0 i0' P P' b Hl Hl' Hs Hi HP Hins Hb) as (HP1 & L1 & L1').
  apply (IH _ _ (fun b' Hb' => Hnb b' (or_intror Hb')) L1 L1' HP1).
Qed.
End Rename.

(** the Jacobian entries: the derivative accumulator of the renamed expression with respect to the renamed input is the same object *)
Lemma accum_rename pi (s s' : nat -> Qc) x0 e N : (forall x y, (x < N)%nat -> (y < N)%nat -> pi x = pi y -> x = y) -> (x0 < N)%nat ->
  (forall x, In x (evars e) -> (x < N)%nat /\ s' (pi x) = s x) ->
  accum Qc q0 q1 Qcplus Qcmult Qcminus Qcopp Qcdiv (fun x => Qc_eq_bool x q0) s' (pi x0) (rename_expr pi e)
  = accum Qc q0 q1 Qcplus Qcmult Qcminus Qcopp Qcdiv (fun x => Qc_eq_bool x q0) s x0 e.
Proof.
  intros Hinj Hx0. induction e as [x|c|k e IH|e IH|e IH|a IHa b IHb|a IHa b IHb|a IHa b IHb|a IHa b IHb|a IHa n|g dg e IHg]; intros H;
    cbn [accum evars rename_expr] in *; try reflexivity;
    try (rewrite IH by exact H; reflexivity);
    try (rewrite IHa, IHb by (intros; apply H; apply in_or_app; auto); reflexivity).
  - destruct (H x (or_introl eq_refl)) as [Hx Hs]. rewrite Hs.
    destruct (Nat.eqb_spec x x0) as [->|Hne]; [rewrite Nat.eqb_refl; reflexivity|].
    destruct (Nat.eqb_spec (pi x) (pi x0)) as [E|_]; [exfalso; apply Hne; apply Hinj; assumption | reflexivity].
  - rewrite IHa by exact H. reflexivity.
  - rewrite IHg by exact H. reflexivity.
Qed.

Theorem jac_entry_renamed_lemma pi (s s' : tbl) x0 e N N' : renaming pi N N' -> tbl_renamed pi N s s' -> (x0 < N)%nat ->
  (forall x, In x (evars e) -> (x < N)%nat) ->
  qjac_entry (qlookup s') (pi x0) (rename_expr pi e) = qjac_entry (qlookup s) x0 e.
Proof.
  intros [_ Hinj] Hs Hx0 Hv. unfold qjac_entry, jac_entry.
  rewrite (accum_rename pi (qlookup s) (qlookup s') x0 e N Hinj Hx0); [reflexivity|].
  intros x Hx. split; [apply Hv; exact Hx | apply Hs; apply Hv; exact Hx].
Qed.
