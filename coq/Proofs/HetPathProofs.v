(** Proofs about the executable instance of the HetBlock nonlinear-impulse loops (Model/HetPath.v):
    mass conservation and asset-mean preservation of every step, lifted to every date of every path. *)
From Coq Require Import ZArith QArith Qcanon Bool List Arith Lia Ring Field.
From SSJ Require Import Lib.Sums Model.HetLoop Model.HetPath Proofs.HetLoopProofs.
Import ListNotations.

Local Notation "x +q y" := (Qcplus x y) (at level 50, left associativity).
Local Notation "x *q y" := (Qcmult x y) (at level 40, left associativity).

Lemma h0_is : h0 = Q2Qc 0. Proof. reflexivity. Qed.
Lemma h1_is : h1 = Q2Qc 1. Proof. reflexivity. Qed.

(** ---- sums ---- *)
Lemma hsum_ext n f g : (forall k, (k < n)%nat -> f k = g k) -> hsum n f = hsum n g.
Proof. intros H. unfold hsum. apply lsum_ext. intros a Ha. apply in_seq in Ha. apply H. lia. Qed.
Lemma hsum_add n f g : hsum n (fun k => f k +q g k) = hsum n f +q hsum n g.
Proof. unfold hsum. apply (lsum_add Qc _ _ _ _ _ _ Qcrt). Qed.
Lemma hsum_scale n c f : hsum n (fun k => c *q f k) = c *q hsum n f.
Proof. unfold hsum. apply (lsum_scale Qc _ _ _ _ _ _ Qcrt). Qed.
Lemma hsum_zero n f : (forall k, (k < n)%nat -> f k = h0) -> hsum n f = h0.
Proof. intros H. unfold hsum. apply (lsum_zero Qc _ _ _ _ _ _ Qcrt). intros a Ha. apply in_seq in Ha. apply H. lia. Qed.

Lemma lsum_cons {A} (f : A -> Qc) a l : lsum h0 Qcplus f (a :: l) = f a +q lsum h0 Qcplus f l.
Proof. reflexivity. Qed.
Lemma lsum_swap {A B} (f : A -> B -> Qc) (l1 : list A) (l2 : list B) :
  lsum h0 Qcplus (fun a => lsum h0 Qcplus (fun b => f a b) l2) l1 = lsum h0 Qcplus (fun b => lsum h0 Qcplus (fun a => f a b) l1) l2.
Proof.
  induction l1 as [|a l1 IH].
  - symmetry. apply (lsum_zero Qc _ _ _ _ _ _ Qcrt). reflexivity.
  - rewrite lsum_cons. rewrite IH. rewrite <- (lsum_add Qc _ _ _ _ _ _ Qcrt). apply lsum_ext. intros b _. rewrite lsum_cons. reflexivity.
Qed.
Lemma hsum_swap n m f : hsum n (fun i => hsum m (fun j => f i j)) = hsum m (fun j => hsum n (fun i => f i j)).
Proof. unfold hsum. apply lsum_swap. Qed.

Lemma lsum_single (l : list nat) (i : nat) (x : Qc) : NoDup l -> In i l ->
  lsum h0 Qcplus (fun j => if Nat.eqb i j then x else h0) l = x.
Proof.
  induction l as [|a l IH]; intros Hnd Hin; [destruct Hin|]. rewrite lsum_cons. inversion Hnd as [|? ? Hna Hnd']; subst.
  destruct (Nat.eqb_spec i a) as [->|Hne].
  - rewrite (lsum_zero Qc _ _ _ _ _ _ Qcrt); [unfold h0; ring|].
    intros b Hb. destruct (Nat.eqb_spec a b) as [->|]; [contradiction | reflexivity].
  - destruct Hin as [->|Hin]; [contradiction|]. rewrite IH by assumption. unfold h0; ring.
Qed.
Lemma hsum_single n i x : (i < n)%nat -> hsum n (fun j => if Nat.eqb i j then x else h0) = x.
Proof. intros H. unfold hsum. apply lsum_single; [apply seq_NoDup | apply in_seq; lia]. Qed.

(** ---- arrays ---- *)
Lemma nth_map_seq0 {A} (f : nat -> A) n k d : (k < n)%nat -> nth k (map f (seq 0 n)) d = f k.
Proof.
  intros H. rewrite (nth_indep _ d (f 0%nat)) by (rewrite map_length, seq_length; exact H).
  rewrite map_nth. rewrite seq_nth by exact H. reflexivity.
Qed.
Lemma ent_tabulate2 nz na f z a : (z < nz)%nat -> (a < na)%nat -> ent (tabulate2 nz na f) z a = f z a.
Proof. intros Hz Ha. unfold ent, row, tabulate2. rewrite nth_map_seq0 by exact Hz. rewrite nth_map_seq0 by exact Ha. reflexivity. Qed.

Definition mass (nz na : nat) (D : arr) : Qc := hsum nz (fun z => hsum na (fun a => ent D z a)).
Definition stochastic (nz : nat) (Pi : arr) : Prop := forall z, (z < nz)%nat -> hsum nz (fun z' => ent Pi z z') = h1.

(** Markov forward step conserves mass *)
Lemma mass_mk_forward nz na Pi D : stochastic nz Pi -> mass nz na (mk_forward nz na Pi D) = mass nz na D.
Proof.
  intros HPi. unfold mass, mk_forward.
  rewrite (hsum_ext nz _ (fun z' => hsum na (fun a => hsum nz (fun z => ent Pi z z' *q ent D z a)))).
  2:{ intros z' Hz'. apply hsum_ext. intros a Ha. apply ent_tabulate2; assumption. }
  rewrite (hsum_ext nz _ (fun z' => hsum nz (fun z => hsum na (fun a => ent Pi z z' *q ent D z a)))) by (intros; apply hsum_swap).
  rewrite hsum_swap. apply hsum_ext. intros z Hz.
  rewrite (hsum_ext nz _ (fun z' => ent Pi z z' *q hsum na (fun a => ent D z a))) by (intros; apply hsum_scale).
  rewrite (hsum_ext nz _ (fun z' => hsum na (fun a => ent D z a) *q ent Pi z z')) by (intros; ring).
  rewrite hsum_scale. replace (hsum nz (ent Pi z)) with h1 by (symmetry; apply (HPi z Hz)). unfold h1; ring.
Qed.

(** ---- the policy lottery ---- *)
Lemma bracket_from_step x0 x1 x2 g q i :
  bracket_from (x0 :: x1 :: x2 :: g) q i = if qleb q x1 then i else bracket_from (x1 :: x2 :: g) q (S i).
Proof. reflexivity. Qed.
Lemma bracket_from_bound g q : forall i, (2 <= length g)%nat -> (bracket_from g q i + 2 <= i + length g)%nat.
Proof.
  induction g as [|x0 g IH]; intros i Hl; [cbn in Hl; lia|].
  destruct g as [|x1 g]; [cbn in Hl; lia|]. destruct g as [|x2 g].
  - cbn. lia.
  - rewrite bracket_from_step. destruct (qleb q x1); [cbn [length]; lia|].
    specialize (IH (S i)). cbn [length] in *. lia.
Qed.
Lemma bracket_bound g q : (2 <= length g)%nat -> (S (bracket g q) < length g)%nat.
Proof. intros H. pose proof (bracket_from_bound g q 0 H). unfold bracket. lia. Qed.

Lemma lottery_row_nth na g pol Drow j : (j < na)%nat ->
  nth j (lottery_row na g pol Drow) h0 =
  hsum na (fun ia => let q := nth ia pol h0 in let i := bracket g q in let p := weight g q i in let d := nth ia Drow h0 in
                     (if Nat.eqb i j then p *q d else h0) +q (if Nat.eqb (S i) j then (Qcminus h1 p) *q d else h0)).
Proof. intros H. unfold lottery_row. rewrite nth_map_seq0 by exact H. reflexivity. Qed.

Lemma lottery_row_mass na g pol Drow : length g = na -> (2 <= na)%nat ->
  hsum na (fun j => nth j (lottery_row na g pol Drow) h0) = hsum na (fun ia => nth ia Drow h0).
Proof.
  intros Hg Hna.
  rewrite (hsum_ext na _ (fun j => hsum na (fun ia => let q := nth ia pol h0 in let i := bracket g q in let p := weight g q i in let d := nth ia Drow h0 in
                     (if Nat.eqb i j then p *q d else h0) +q (if Nat.eqb (S i) j then (Qcminus h1 p) *q d else h0))))
    by (intros; apply lottery_row_nth; assumption).
  rewrite hsum_swap. apply hsum_ext. intros ia Hia. cbv zeta.
  rewrite hsum_add.
  pose proof (bracket_bound g (nth ia pol h0)) as Hb. rewrite Hg in Hb. specialize (Hb Hna).
  rewrite hsum_single by lia. rewrite hsum_single by lia. unfold h1; ring.
Qed.

Lemma mass_lottery nz na g pol D : length g = na -> (2 <= na)%nat -> mass nz na (lottery_forward nz na g pol D) = mass nz na D.
Proof.
  intros Hg Hna. unfold mass. apply hsum_ext. intros z Hz.
  unfold lottery_forward, ent at 1, row at 1. rewrite nth_map_seq0 by exact Hz.
  rewrite lottery_row_mass by assumption. reflexivity.
Qed.

(** the lottery preserves the mean of the policy: sum_j Dnew[j] * grid[j] = sum_ia D[ia] * policy[ia]
    (linear extrapolation outside the grid included), for a grid whose neighbouring points differ *)
Lemma weight_mean g q i : nth (S i) g h0 <> nth i g h0 ->
  weight g q i *q nth i g h0 +q (Qcminus h1 (weight g q i)) *q nth (S i) g h0 = q.
Proof.
  intros H. unfold weight, h1. field. intros E. apply H.
  replace (nth (S i) g h0) with ((nth (S i) g h0 - nth i g h0) + nth i g h0)%Qc by ring. rewrite E. ring.
Qed.

Definition distinct_neighbours (g : list Qc) : Prop := forall i, (S i < length g)%nat -> nth (S i) g h0 <> nth i g h0.

Lemma lottery_row_mean na g pol Drow : length g = na -> (2 <= na)%nat -> distinct_neighbours g ->
  hsum na (fun j => nth j (lottery_row na g pol Drow) h0 *q nth j g h0) = hsum na (fun ia => nth ia Drow h0 *q nth ia pol h0).
Proof.
  intros Hg Hna Hd.
  rewrite (hsum_ext na _ (fun j => hsum na (fun ia => let q := nth ia pol h0 in let i := bracket g q in let p := weight g q i in let d := nth ia Drow h0 in
                     (if Nat.eqb i j then (p *q d) *q nth i g h0 else h0) +q (if Nat.eqb (S i) j then ((Qcminus h1 p) *q d) *q nth (S i) g h0 else h0)))).
  2:{ intros j Hj. rewrite lottery_row_nth by exact Hj. rewrite Qcmult_comm. rewrite <- hsum_scale. apply hsum_ext. intros ia _. cbv zeta.
      destruct (Nat.eqb_spec (bracket g (nth ia pol h0)) j) as [E1|E1]; destruct (Nat.eqb_spec (S (bracket g (nth ia pol h0))) j) as [E2|E2];
        try (exfalso; lia); try rewrite <- E1; try rewrite <- E2; unfold h0; ring. }
  rewrite hsum_swap. apply hsum_ext. intros ia Hia. cbv zeta.
  rewrite hsum_add.
  pose proof (bracket_bound g (nth ia pol h0)) as Hb. rewrite Hg in Hb. specialize (Hb Hna).
  rewrite hsum_single by lia. rewrite hsum_single by lia.
  pose proof (weight_mean g (nth ia pol h0) (bracket g (nth ia pol h0))) as Hw.
  specialize (Hw (Hd _ ltac:(rewrite Hg; exact Hb))).
  set (p := weight g (nth ia pol h0) (bracket g (nth ia pol h0))) in *.
  set (g0 := nth (bracket g (nth ia pol h0)) g h0) in *. set (g1 := nth (S (bracket g (nth ia pol h0))) g h0) in *.
  transitivity (nth ia Drow h0 *q (p *q g0 +q Qcminus h1 p *q g1)); [unfold h1; ring | rewrite Hw; reflexivity].
Qed.

(** ---- every date of every path ---- *)
Section PathProofs.
Variables (nz na : nat) (agrid : list Qc).
Hypothesis Hgrid : length agrid = na.
Hypothesis Hna : (2 <= na)%nat.

Lemma forward_mass : forall (back : list hback) (Dbeg : arr),
  (forall b, In b back -> stochastic nz (b_Pi b)) ->
  forall d, In d (forward_nonlinear hback arr (exogB nz na) (endogB nz na agrid) back Dbeg) ->
  mass nz na (fst d) = mass nz na Dbeg /\ mass nz na (snd d) = mass nz na Dbeg.
Proof.
  induction back as [|b rest IH]; intros Dbeg Hst d Hd; [destruct Hd|].
  cbn [forward_nonlinear] in Hd. destruct Hd as [<-|Hd].
  - cbn [fst snd]. split; [reflexivity|]. unfold exogB. apply mass_mk_forward. apply Hst; left; reflexivity.
  - destruct (IH _ (fun b' Hb' => Hst b' (or_intror Hb')) d Hd) as [H1 H2].
    assert (E : mass nz na (endogB nz na agrid b (exogB nz na b Dbeg)) = mass nz na Dbeg).
    { unfold endogB. rewrite mass_lottery by assumption. unfold exogB. apply mass_mk_forward. apply Hst; left; reflexivity. }
    rewrite E in H1, H2. split; assumption.
Qed.

(** assets carried into date t+1 by its beginning-of-period distribution = date t's aggregate of the asset policy *)
Lemma forward_asset_accounting : distinct_neighbours agrid -> forall (back : list hback) (Dbeg : arr) k b d d',
  nth_error back k = Some b ->
  nth_error (forward_nonlinear hback arr (exogB nz na) (endogB nz na agrid) back Dbeg) k = Some d ->
  nth_error (forward_nonlinear hback arr (exogB nz na) (endogB nz na agrid) back Dbeg) (S k) = Some d' ->
  hsum nz (fun z => hsum na (fun j => ent (fst d') z j *q nth j agrid h0)) = aggregate nz na (snd d) (b_a b).
Proof.
  intros Hd back Dbeg k b d d' Hb Hk Hk'.
  destruct (forward_loop_is_recursion_lemma hback arr (exogB nz na) (endogB nz na agrid) back Dbeg k b d Hb Hk) as (_ & _ & H3).
  rewrite (H3 d' Hk'). unfold endogB, aggregate. apply hsum_ext. intros z Hz.
  unfold lottery_forward, ent at 1, row at 1. rewrite nth_map_seq0 by exact Hz.
  rewrite lottery_row_mean by assumption. reflexivity.
Qed.
End PathProofs.

Lemma backward_all (I : Type) (bstep : I -> hback -> hback) (expect : hback -> hback) (P : hback -> Prop) T inputs ss :
  (forall i e, P (bstep i e)) -> forall b, In b (backward_nonlinear I hback bstep expect T inputs ss) -> P b.
Proof.
  intros HP. rewrite backward_loop_is_recursion_lemma. generalize 0%nat. induction T as [|T IH]; intros t0 b Hb; [destruct Hb|].
  cbn [spec_list] in Hb. destruct Hb as [<-|Hb]; [apply HP | eapply IH; exact Hb].
Qed.

(** the fixture household: its Markov matrix stays row-stochastic under any shifter *)
Lemma toy_Pi_stochastic nz Pi_ss shift : (1 <= nz)%nat -> stochastic nz Pi_ss -> stochastic nz (toy_Pi nz Pi_ss shift).
Proof.
  intros Hnz Hs z Hz. unfold toy_Pi.
  rewrite (hsum_ext nz _ (fun z' => ent Pi_ss z z' +q ((if Nat.eqb 0 z' then Qcopp shift else h0) +q (if Nat.eqb (nz - 1) z' then shift else h0)))).
  2:{ intros z' Hz'. rewrite ent_tabulate2 by assumption. rewrite (Nat.eqb_sym z' 0), (Nat.eqb_sym z' (nz - 1)). reflexivity. }
  rewrite hsum_add, hsum_add. rewrite hsum_single by lia. rewrite hsum_single by lia.
  replace (hsum nz (ent Pi_ss z)) with h1 by (symmetry; apply (Hs z Hz)). unfold h1; ring.
Qed.

Theorem toy_path_mass_lemma nz na agrid egrid Pi_ss kappa T inputs ss Dbeg0 :
  length agrid = na -> (2 <= na)%nat -> (1 <= nz)%nat -> stochastic nz Pi_ss ->
  let '(back, fwd, _) := het_paths nz na agrid toy_in (toy_step nz na agrid egrid Pi_ss kappa) T inputs ss Dbeg0 in
  forall d, In d fwd -> mass nz na (fst d) = mass nz na Dbeg0 /\ mass nz na (snd d) = mass nz na Dbeg0.
Proof.
  intros Hg Hna Hnz Hs. unfold het_paths. intros d Hd.
  eapply forward_mass; [exact Hg | exact Hna | | exact Hd].
  intros b Hb. apply (backward_all toy_in (bstepB toy_in (toy_step nz na agrid egrid Pi_ss kappa)) (expectB nz na) (fun b => stochastic nz (b_Pi b)) T inputs ss); [|exact Hb].
  intros i e. unfold bstepB, toy_step. cbn [b_Pi]. apply toy_Pi_stochastic; assumption.
Qed.

(** ---- aggregate accounting along a path (C13) ---- *)
Lemma aggregate_add nz na D X Y Z0 : (forall z a, (z < nz)%nat -> (a < na)%nat -> ent X z a +q ent Y z a = ent Z0 z a) ->
  aggregate nz na D X +q aggregate nz na D Y = aggregate nz na D Z0.
Proof.
  intros H. unfold aggregate. rewrite <- hsum_add. apply hsum_ext. intros z Hz. rewrite <- hsum_add. apply hsum_ext. intros a Ha.
  rewrite <- (H z a Hz Ha). ring.
Qed.

(** if consumption + asset choice = cash on hand at every grid point of date t, then along the forward pass
    C_t + (assets carried into t+1 by Dbeg_{t+1}) = distribution-weighted cash on hand of date t *)
Theorem budget_along_path_lemma nz na agrid : length agrid = na -> (2 <= na)%nat -> distinct_neighbours agrid ->
  forall (back : list hback) (Dbeg : arr) k b d d' (coh : arr),
  nth_error back k = Some b ->
  nth_error (forward_nonlinear hback arr (exogB nz na) (endogB nz na agrid) back Dbeg) k = Some d ->
  nth_error (forward_nonlinear hback arr (exogB nz na) (endogB nz na agrid) back Dbeg) (S k) = Some d' ->
  (forall z a, (z < nz)%nat -> (a < na)%nat -> ent (b_c b) z a +q ent (b_a b) z a = ent coh z a) ->
  aggregate nz na (snd d) (b_c b) +q carried_in nz na agrid (fst d') = aggregate nz na (snd d) coh.
Proof.
  intros Hg Hna Hd back Dbeg k b d d' coh Hb Hk Hk' Hbud.
  unfold carried_in. rewrite (forward_asset_accounting nz na agrid Hg Hna Hd back Dbeg k b d d' Hb Hk Hk').
  apply aggregate_add. exact Hbud.
Qed.

(** ---- no shock, no movement (C07): at a fixed point of the backward step with an invariant distribution every date repeats the steady state ---- *)
Lemma backward_constant (I : Type) (bstep : I -> hback -> hback) (expect : hback -> hback) T (inputs : nat -> I) ss :
  (forall t, bstep (inputs t) (expect ss) = ss) ->
  forall b, In b (backward_nonlinear I hback bstep expect T inputs ss) -> b = ss.
Proof.
  intros Hfix. rewrite backward_loop_is_recursion_lemma. generalize 0%nat.
  assert (Hhd : forall n t0, hd ss (spec_list I hback bstep expect inputs t0 n ss) = ss /\ forall b, In b (spec_list I hback bstep expect inputs t0 n ss) -> b = ss).
  { induction n as [|n IH]; intros t0; cbn [spec_list]; [split; [reflexivity | intros b []]|].
    destruct (IH (S t0)) as [Hh Hall]. rewrite Hh. rewrite Hfix. cbn [hd]. split; [reflexivity|].
    intros b [<-|Hb]; [reflexivity | apply Hall; exact Hb]. }
  intros t0 b Hb. exact (proj2 (Hhd T t0) b Hb).
Qed.

Lemma forward_constant (exog endog : hback -> arr -> arr) ss Dbeg : endog ss (exog ss Dbeg) = Dbeg ->
  forall back, (forall b, In b back -> b = ss) ->
  forall d, In d (forward_nonlinear hback arr exog endog back Dbeg) -> d = (Dbeg, exog ss Dbeg).
Proof.
  intros Hinv. induction back as [|b rest IH]; intros Hall d Hd; [destruct Hd|].
  cbn [forward_nonlinear] in Hd. rewrite (Hall b (or_introl eq_refl)) in Hd. destruct Hd as [<-|Hd]; [reflexivity|].
  rewrite Hinv in Hd. apply IH; [intros; apply Hall; right; assumption | exact Hd].
Qed.

Theorem het_zero_shock_lemma nz na agrid (I : Type) (step : I -> arr -> hback) T (inputs : nat -> I) ss Dbeg :
  (forall t, step (inputs t) (mk_expect nz na (b_Pi ss) (b_V ss)) = ss) ->
  lottery_forward nz na agrid (b_a ss) (mk_forward nz na (b_Pi ss) Dbeg) = Dbeg ->
  let '(back, fwd, agg) := het_paths nz na agrid I step T inputs ss Dbeg in
  (forall b, In b back -> b = ss) /\ (forall d, In d fwd -> d = (Dbeg, mk_forward nz na (b_Pi ss) Dbeg)) /\
  (forall ac, In ac agg -> ac = (aggregate nz na (mk_forward nz na (b_Pi ss) Dbeg) (b_a ss), aggregate nz na (mk_forward nz na (b_Pi ss) Dbeg) (b_c ss))).
Proof.
  intros Hfix Hinv. unfold het_paths.
  assert (Hb : forall b, In b (backward_nonlinear I hback (bstepB I step) (expectB nz na) T inputs ss) -> b = ss).
  { apply backward_constant. intros t. unfold bstepB, expectB. cbn [b_V]. apply Hfix. }
  assert (Hf : forall d, In d (forward_nonlinear hback arr (exogB nz na) (endogB nz na agrid) (backward_nonlinear I hback (bstepB I step) (expectB nz na) T inputs ss) Dbeg) ->
                    d = (Dbeg, mk_forward nz na (b_Pi ss) Dbeg)).
  { apply (forward_constant (exogB nz na) (endogB nz na agrid) ss Dbeg); [exact Hinv | exact Hb]. }
  split; [exact Hb|]. split; [exact Hf|].
  intros ac Hac. apply in_map_iff in Hac. destruct Hac as [[b d] [<- Hbd]].
  pose proof (in_combine_l _ _ _ _ Hbd) as H1. pose proof (in_combine_r _ _ _ _ Hbd) as H2.
  rewrite (Hb b H1), (Hf d H2). reflexivity.
Qed.
