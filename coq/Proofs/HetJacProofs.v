(** The operators of the executable fake-news instance (Model/HetJac.v) satisfy the hypotheses of the fake-news theorem (C01): the steady-state forward
    operator (Markov step, then policy lottery) has the expectation operator (lottery gather, then Markov expectation) as its adjoint under the pairing
    <w, d> = sum d * w, and the perturbations of the distribution it produces have zero mass. *)
From Coq Require Import ZArith QArith Qcanon Bool List Arith Lia Ring Field.
From SSJ Require Import Lib.Sums Model.HetLoop Model.HetPath Model.FakeNews Model.HetJac Proofs.HetPathProofs.
Import ListNotations.

Local Notation "x +q y" := (Qcplus x y) (at level 50, left associativity).
Local Notation "x *q y" := (Qcmult x y) (at level 40, left associativity).

Lemma ent_lottery_forward nz na g pol D z j : (z < nz)%nat -> (j < na)%nat ->
  ent (lottery_forward nz na g pol D) z j =
  hsum na (fun ia => let q := nth ia (row pol z) h0 in let i := bracket g q in let p := weight g q i in let d := nth ia (row D z) h0 in
                     (if Nat.eqb i j then p *q d else h0) +q (if Nat.eqb (S i) j then (Qcminus h1 p) *q d else h0)).
Proof.
  intros Hz Hj. unfold ent at 1, row at 1, lottery_forward. rewrite nth_map_seq0 by exact Hz. apply lottery_row_nth. exact Hj.
Qed.

(** <lottery_forward D, X> = <D, lottery_expect X> *)
Lemma lottery_adjoint nz na g pol D X : length g = na -> (2 <= na)%nat ->
  aggregate nz na (lottery_forward nz na g pol D) X = aggregate nz na D (lottery_expect nz na g pol X).
Proof.
  intros Hg Hna. unfold aggregate. apply hsum_ext. intros z Hz.
  rewrite (hsum_ext na _ (fun j => hsum na (fun ia => let q := ent pol z ia in let i := bracket g q in let p := weight g q i in let d := ent D z ia in
       (if Nat.eqb i j then (p *q d) *q ent X z i else h0) +q (if Nat.eqb (S i) j then ((Qcminus h1 p) *q d) *q ent X z (S i) else h0)))).
  2:{ intros j Hj. rewrite ent_lottery_forward by assumption. rewrite Qcmult_comm. rewrite <- hsum_scale. apply hsum_ext. intros ia _. cbv zeta. unfold ent, row.
      destruct (Nat.eqb_spec (bracket g (nth ia (nth z pol []) h0)) j) as [E1|E1]; destruct (Nat.eqb_spec (S (bracket g (nth ia (nth z pol []) h0))) j) as [E2|E2];
        try (exfalso; lia); try rewrite <- E1; try rewrite <- E2; unfold h0; ring. }
  rewrite hsum_swap. apply hsum_ext. intros ia Hia. cbv zeta. rewrite hsum_add.
  pose proof (bracket_bound g (ent pol z ia)) as Hb. rewrite Hg in Hb. specialize (Hb Hna).
  rewrite hsum_single by lia. rewrite hsum_single by lia.
  unfold lottery_expect. rewrite ent_tabulate2 by assumption. unfold h1. ring.
Qed.

(** <mk_forward Pi D, Y> = <D, mk_expect Pi Y> *)
Lemma markov_adjoint nz na Pi D Y : aggregate nz na (mk_forward nz na Pi D) Y = aggregate nz na D (mk_expect nz na Pi Y).
Proof.
  unfold aggregate.
  rewrite (hsum_ext nz _ (fun z' => hsum nz (fun z => hsum na (fun a => ent Pi z z' *q ent D z a *q ent Y z' a)))).
  2:{ intros z' Hz'. rewrite <- hsum_swap. apply hsum_ext. intros a Ha. unfold mk_forward. rewrite ent_tabulate2 by assumption.
      rewrite Qcmult_comm. rewrite <- hsum_scale. apply hsum_ext. intros; ring. }
  rewrite hsum_swap. apply hsum_ext. intros z Hz.
  rewrite hsum_swap. apply hsum_ext. intros a Ha. unfold mk_expect. rewrite ent_tabulate2 by assumption.
  rewrite <- hsum_scale. apply hsum_ext. intros; ring.
Qed.

Theorem forward_expectation_adjoint_lemma nz na g pol Pi D X : length g = na -> (2 <= na)%nat ->
  aggregate nz na (lottery_forward nz na g pol (mk_forward nz na Pi D)) X = aggregate nz na D (mk_expect nz na Pi (lottery_expect nz na g pol X)).
Proof. intros Hg Hna. rewrite lottery_adjoint by assumption. apply markov_adjoint. Qed.

(** a perturbed policy moves mass between neighbouring grid points only: the perturbation of the distribution has zero total mass *)
Theorem lottery_shock_zero_mass_lemma nz na g pol D da : length g = na -> (2 <= na)%nat -> mass nz na (lottery_shock nz na g pol D da) = h0.
Proof.
  intros Hg Hna. unfold mass. apply hsum_zero. intros z Hz.
  rewrite (hsum_ext na _ (fun j => hsum na (fun ia => let q := ent pol z ia in let i := bracket g q in
        let m := Qcopp (Qcdiv (ent da z ia) (Qcminus (nth (S i) g h0) (nth i g h0))) *q ent D z ia in
        (if Nat.eqb i j then m else h0) +q (if Nat.eqb (S i) j then Qcopp m else h0)))).
  2:{ intros j Hj. unfold lottery_shock. rewrite ent_tabulate2 by assumption. reflexivity. }
  rewrite hsum_swap. apply hsum_zero. intros ia Hia. cbv zeta. rewrite hsum_add.
  pose proof (bracket_bound g (ent pol z ia)) as Hb. rewrite Hg in Hb. specialize (Hb Hna).
  rewrite hsum_single by lia. rewrite hsum_single by lia. unfold h0; ring.
Qed.

(** a perturbation of the Markov matrix whose rows sum to zero moves no mass *)
Theorem markov_shock_zero_mass_lemma nz na dP D : (forall z, (z < nz)%nat -> hsum nz (fun z' => ent dP z z') = h0) -> mass nz na (mk_forward nz na dP D) = h0.
Proof.
  intros Hrow. unfold mass, mk_forward.
  rewrite (hsum_ext nz _ (fun z' => hsum na (fun a => hsum nz (fun z => ent dP z z' *q ent D z a)))).
  2:{ intros z' Hz'. apply hsum_ext. intros a Ha. apply ent_tabulate2; assumption. }
  rewrite (hsum_ext nz _ (fun z' => hsum nz (fun z => hsum na (fun a => ent dP z z' *q ent D z a)))) by (intros; apply hsum_swap).
  rewrite hsum_swap. apply hsum_zero. intros z Hz.
  rewrite (hsum_ext nz _ (fun z' => ent dP z z' *q hsum na (fun a => ent D z a))) by (intros; apply hsum_scale).
  rewrite (hsum_ext nz _ (fun z' => hsum na (fun a => ent D z a) *q ent dP z z')) by (intros; ring).
  rewrite hsum_scale. replace (hsum nz (ent dP z)) with h0 by (symmetry; apply (Hrow z Hz)). unfold h0; ring.
Qed.

Lemma dPi_rows_zero nz z : (1 <= nz)%nat -> (z < nz)%nat -> hsum nz (fun z' => ent (dPi nz) z z') = h0.
Proof.
  intros Hnz Hz. unfold dPi.
  rewrite (hsum_ext nz _ (fun z' => (if Nat.eqb 0 z' then Qcopp h1 else h0) +q (if Nat.eqb (nz - 1) z' then h1 else h0))).
  2:{ intros z' Hz'. rewrite ent_tabulate2 by assumption. rewrite (Nat.eqb_sym z' 0), (Nat.eqb_sym z' (nz - 1)). reflexivity. }
  rewrite hsum_add. rewrite hsum_single by lia. rewrite hsum_single by lia. unfold h0, h1; ring.
Qed.
