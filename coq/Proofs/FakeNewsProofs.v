(** C01: the fake-news construction (backward_fakenews + expectation_vectors + build_F + J_from_F) equals the direct linear
    recursion, for every shock date s and response date t (no horizon bound). *)
From Coq Require Import List Arith ZArith Bool Lia.
From SSJ Require Import Model.FakeNews.
Import ListNotations.
Close Scope Z_scope.
Open Scope nat_scope.

Section FakeNewsProofs.
Variables R V W Wb : Type.
Variable r0 : R.
Variable radd : R -> R -> R.
Hypothesis radd_comm : forall a b, radd a b = radd b a.
Hypothesis radd_assoc : forall a b c, radd a (radd b c) = radd (radd a b) c.
Hypothesis radd_0_l : forall a, radd r0 a = a.
Variable v0 : V.
Variable vadd : V -> V -> V.
Variable pair : W -> V -> R.
Hypothesis pair_add : forall w a b, pair w (vadd a b) = radd (pair w a) (pair w b).
Hypothesis pair_0 : forall w, pair w v0 = r0.
Variable L : V -> V.
Variable Ex : W -> W.
(** expectation is the adjoint of the forward step (C08 proves this for the code's transition kernels) *)
Hypothesis adjoint : forall w v, pair (Ex w) v = pair w (L v).
(** zero-mass perturbations: preserved by the forward step, and invisible to demeaning (C08: mass preservation, zero-mass shocks) *)
Variable ZM : V -> Prop.
Hypothesis L_ZM : forall v, ZM v -> ZM (L v).
Variable dm : W -> W.
(** well-shaped functions on the state space (e.g. arrays of the right shape, when W is a type of ragged lists): kept by expectation and demeaning *)
Variable WF : W -> Prop.
Hypothesis Ex_WF : forall w, WF w -> WF (Ex w).
Hypothesis dm_WF : forall w, WF w -> WF (dm w).
Hypothesis dm_pair : forall w v, WF w -> ZM v -> pair (dm w) v = pair w v.
Variable w0 : W.
Hypothesis w0_WF : WF w0.
Variable V0 : Wb.
Variable d0 : V.
Variable y0 : R.
Variable bV : Wb -> Wb.
Variable gD : Wb -> V.
Variable gY : Wb -> R.
Hypothesis d0_ZM : ZM d0.
Hypothesis gD_ZM : forall b, ZM (gD b).

Let iterW' := iterW W Ex.
Let cV' := cV Wb V0 bV.
Let cD' := cD V Wb V0 d0 bV gD.
Let cY' := cY R Wb V0 y0 bV gY.
Let cE' := cE W Ex dm w0.
Let bpass' := bpass R V Wb V0 d0 y0 bV gD gY.
Let dD_at' := dD_at R V Wb V0 d0 y0 bV gD gY.
Let dY_at' := dY_at R V Wb V0 d0 y0 bV gD gY.
Let dDbeg' := dDbeg R V Wb v0 vadd L V0 d0 y0 bV gD gY.
Let direct_J' := direct_J R V W Wb radd v0 vadd pair L w0 V0 d0 y0 bV gD gY.
Let build_F' := build_F R V W Wb pair Ex dm w0 V0 d0 y0 bV gD gY.
Let fake_news_J' := fake_news_J R V W Wb radd pair Ex dm w0 V0 d0 y0 bV gD gY.

Lemma radd_0_r a : radd a r0 = a.
Proof. rewrite radd_comm. apply radd_0_l. Qed.

Lemma cD_ZM k : ZM (cD' k).
Proof. destruct k; cbn; [exact d0_ZM | apply gD_ZM]. Qed.

Lemma iterW_shift n w : iterW' n (Ex w) = iterW' (S n) w.
Proof. unfold iterW'. induction n as [|n IH]; [reflexivity|]. cbn [iterW]. rewrite IH. reflexivity. Qed.

Lemma cE_WF t : WF (cE' t).
Proof. induction t as [|t IH]; cbn [cE' cE]; [apply dm_WF; exact w0_WF | apply dm_WF, Ex_WF; exact IH]. Qed.

(** demeaned expectation vectors act on zero-mass perturbations like the plain iterates *)
Lemma cE_pair : forall t v, ZM v -> pair (cE' t) v = pair (iterW' t w0) v.
Proof.
  induction t as [|t IH]; intros v Hv; cbn [cE' cE iterW' iterW].
  - apply dm_pair; [exact w0_WF | assumption].
  - rewrite (dm_pair _ _ (Ex_WF _ (cE_WF t)) Hv). rewrite !adjoint. apply IH. apply L_ZM; assumption.
Qed.

(** Part 1 = the direct backward pass: at date t <= s a date-s shock produces the horizon (s - t) perturbations *)
Lemma bpass_length n : length (bpass' n) = S n.
Proof. unfold bpass'. induction n as [|n IH]; [reflexivity|]. cbn [bpass length]. rewrite IH. reflexivity. Qed.

Lemma bpass_nth : forall s t, t <= s -> nth_error (bpass' s) t = Some (cV' (s - t), cD' (s - t), cY' (s - t)).
Proof.
  unfold bpass', cV', cD', cY'.
  induction s as [|s IH]; intros t Ht.
  - assert (t = 0) by lia; subst. reflexivity.
  - destruct t as [|t].
    + cbn [bpass nth_error]. f_equal.
      pose proof (IH 0 (Nat.le_0_l s)) as H0. rewrite Nat.sub_0_r in H0.
      destruct (bpass R V Wb V0 d0 y0 bV gD gY s) as [|x rest]; [discriminate|].
      cbn [nth_error] in H0. inversion H0; subst. cbn [hd fst]. rewrite Nat.sub_0_r. reflexivity.
    + cbn [bpass nth_error]. replace (S s - S t) with (s - t) by lia. apply IH. lia.
Qed.

Lemma bpass_nth_none s t : s < t -> nth_error (bpass' s) t = None.
Proof. intros H. apply nth_error_None. rewrite bpass_length. lia. Qed.

Lemma dD_at_le s t : t <= s -> dD_at' s t = Some (cD' (s - t)).
Proof. intros H. unfold dD_at', dD_at. fold bpass'. rewrite (bpass_nth s t H). reflexivity. Qed.
Lemma dD_at_gt s t : s < t -> dD_at' s t = None.
Proof. intros H. unfold dD_at', dD_at. fold bpass'. rewrite (bpass_nth_none s t H). reflexivity. Qed.
Lemma dY_at_le s t : t <= s -> dY_at' s t = Some (cY' (s - t)).
Proof. intros H. unfold dY_at', dY_at. fold bpass'. rewrite (bpass_nth s t H). reflexivity. Qed.
Lemma dY_at_gt s t : s < t -> dY_at' s t = None.
Proof. intros H. unfold dY_at', dY_at. fold bpass'. rewrite (bpass_nth_none s t H). reflexivity. Qed.

(** the forward pass seen through the pairing *)
Definition g (s t : nat) (w : W) : R := pair w (dDbeg' s t).

Lemma g_0 s w : g s 0 w = r0.
Proof. unfold g. cbn. apply pair_0. Qed.

Lemma g_step_le s t w : t <= s -> g s (S t) w = radd (g s t (Ex w)) (pair w (cD' (s - t))).
Proof.
  intros H. unfold g. cbn [dDbeg' dDbeg]. fold dD_at'. rewrite (dD_at_le s t H). fold dDbeg'.
  rewrite pair_add, adjoint. reflexivity.
Qed.

Lemma g_step_gt s t w : s < t -> g s (S t) w = g s t (Ex w).
Proof.
  intros H. unfold g. cbn [dDbeg' dDbeg]. fold dD_at'. rewrite (dD_at_gt s t H). fold dDbeg'.
  rewrite adjoint. reflexivity.
Qed.

(** shift invariance: a shock one date later, seen one date later, adds exactly one fake-news term *)
Lemma g_shift : forall t s w, g (S s) (S t) w = radd (pair (iterW' t w) (cD' (S s))) (g s t w).
Proof.
  induction t as [|t IH]; intros s w.
  - rewrite (g_step_le (S s) 0 w) by lia. rewrite !g_0. rewrite Nat.sub_0_r. cbn [iterW' iterW]. rewrite radd_0_l, radd_0_r. reflexivity.
  - destruct (le_lt_dec (S t) (S s)) as [Hle|Hgt].
    + rewrite (g_step_le (S s) (S t) w Hle). rewrite IH. rewrite iterW_shift.
      rewrite (g_step_le s t w) by lia. replace (S s - S t) with (s - t) by lia. rewrite radd_assoc. reflexivity.
    + rewrite (g_step_gt (S s) (S t) w Hgt). rewrite IH. rewrite iterW_shift.
      rewrite (g_step_gt s t w) by lia. reflexivity.
Qed.

Lemma g_col0 : forall t w, g 0 (S t) w = pair (iterW' t w) (cD' 0).
Proof.
  induction t as [|t IH]; intros w.
  - rewrite (g_step_le 0 0 w) by lia. rewrite g_0, radd_0_l. reflexivity.
  - rewrite (g_step_gt 0 (S t) w) by lia. rewrite IH. rewrite iterW_shift. reflexivity.
Qed.

Lemma direct_J_unfold t s : direct_J' t s = match dY_at' s t with Some y => radd (g s t w0) y | None => g s t w0 end.
Proof. reflexivity. Qed.

(** the direct recursion obeys the recursion of J_from_F with F = build_F *)
Lemma direct_row0 s : direct_J' 0 s = build_F' 0 s.
Proof. rewrite direct_J_unfold. rewrite (dY_at_le s 0) by lia. rewrite g_0, radd_0_l, Nat.sub_0_r. reflexivity. Qed.

Lemma direct_col0 t : direct_J' (S t) 0 = build_F' (S t) 0.
Proof.
  rewrite direct_J_unfold. rewrite (dY_at_gt 0 (S t)) by lia. rewrite g_col0.
  cbn [build_F' build_F]. fold cE'. fold cD'. symmetry. apply cE_pair. apply cD_ZM.
Qed.

Lemma direct_diag t s : direct_J' (S t) (S s) = radd (build_F' (S t) (S s)) (direct_J' t s).
Proof.
  rewrite !direct_J_unfold. rewrite g_shift.
  assert (HF : build_F' (S t) (S s) = pair (iterW' t w0) (cD' (S s))).
  { cbn [build_F' build_F]. fold cE'. fold cD'. apply cE_pair. apply cD_ZM. }
  rewrite HF.
  destruct (le_lt_dec t s) as [Hle|Hgt].
  - rewrite (dY_at_le (S s) (S t)) by lia. rewrite (dY_at_le s t Hle). replace (S s - S t) with (s - t) by lia.
    rewrite radd_assoc. reflexivity.
  - rewrite (dY_at_gt (S s) (S t)) by lia. rewrite (dY_at_gt s t Hgt). reflexivity.
Qed.

Theorem fake_news_is_direct_recursion_lemma : forall s t, fake_news_J' t s = direct_J' t s.
Proof.
  unfold fake_news_J', fake_news_J. fold build_F'.
  induction s as [|s IH]; intros t.
  - cbn [J_from_F_g]. destruct t as [|t]; [symmetry; apply direct_row0 | symmetry; apply direct_col0].
  - destruct t as [|t]; cbn [J_from_F_g].
    + symmetry; apply direct_row0.
    + rewrite IH. symmetry. apply direct_diag.
Qed.

(** consequence used by the property: entries do not depend on the horizon requested; and Part 1's outputs depend on
    (s - t) only, which is what makes T backward steps enough instead of T^2 *)
Theorem backward_pass_depends_on_distance_lemma s t : t <= s -> dD_at' s t = Some (cD' (s - t)) /\ dY_at' s t = Some (cY' (s - t)).
Proof. intros H; split; [apply dD_at_le | apply dY_at_le]; assumption. Qed.
End FakeNewsProofs.

(** the Z instance of the generic J_from_F is the model used for HetBlock.J_from_F *)
From SSJ Require Import Model.HetLoop.
Lemma J_from_F_g_Z F : forall s t, J_from_F_g Z Z.add F t s = J_from_F F t s.
Proof. induction s as [|s IH]; intros t; cbn [J_from_F_g J_from_F]; [reflexivity|]. destruct t; [reflexivity|]. rewrite IH. reflexivity. Qed.
