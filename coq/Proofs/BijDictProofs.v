(** Bijection @ dict (utilities/bijection.py, dict branch): REMAPPED NAMES WIN.  Translating a dictionary through a renaming puts, under the image of
    every renamed key, the value that key had -- even when the dictionary also holds an unrenamed key equal to that image (a model's steady state
    holds both the plain name produced by one block and the suffixed name a remapped block maps onto it). *)
From Coq Require Import ZArith Bool List Lia.
From SSJ Require Import Model.OSet Model.Bij Proofs.BijProofs.
Import ListNotations.
Open Scope Z_scope.

Definition dstep (b : bij) (d : dict) (kv : Z * Z) : dict :=
  match dget (fst kv) (bmap b) with
  | Some k' => dset k' (snd kv) d
  | None => if dhas (fst kv) d then d else dset (fst kv) (snd kv) d
  end.

Lemma apply_dict_fold b x : bij_apply_dict b x = fold_left (dstep b) x [].
Proof. reflexivity. Qed.

(** once the image of a renamed key is set, later entries leave it alone: other renamed keys have other images, unrenamed keys never overwrite *)
Lemma image_kept b k' v : forall r d, dget k' d = Some v ->
  (forall k2 v2 k2', In (k2, v2) r -> dget k2 (bmap b) = Some k2' -> k2' <> k') ->
  dget k' (fold_left (dstep b) r d) = Some v.
Proof.
  induction r as [|[k2 v2] r IH]; intros d Hd Hinj; cbn [fold_left]; [exact Hd|].
  apply IH; [|intros k3 v3 k3' H3 E3; apply (Hinj k3 v3 k3' (or_intror H3) E3)].
  unfold dstep. cbn [fst snd]. destruct (dget k2 (bmap b)) as [k2'|] eqn:E2.
  - rewrite dget_dset_other; [exact Hd|]. intros Heq. apply (Hinj k2 v2 k2' (or_introl eq_refl) E2). symmetry. exact Heq.
  - destruct (dhas k2 d) eqn:Eh; [exact Hd|].
    destruct (Z.eq_dec k' k2) as [->|Hne]; [|rewrite dget_dset_other by exact Hne; exact Hd].
    unfold dhas in Eh. rewrite Hd in Eh. discriminate.
Qed.

Theorem remapped_names_win_lemma b : forall x,
  NoDup (map fst x) ->
  (forall k1 k2 k', dget k1 (bmap b) = Some k' -> dget k2 (bmap b) = Some k' -> k1 = k2) ->
  forall k v k', dget k (bmap b) = Some k' -> In (k, v) x -> dget k' (bij_apply_dict b x) = Some v.
Proof.
  intros x Hnd Hinj k v k' Hk Hin. rewrite apply_dict_fold. generalize (@nil (Z * Z)) as d.
  induction x as [|[k0 v0] r IH]; intros d; [destruct Hin|]. cbn [fold_left].
  cbn [map fst] in Hnd. inversion Hnd as [|? ? Hni Hnd']; subst.
  destruct Hin as [Heq|Hin].
  - inversion Heq; subst k0 v0. unfold dstep at 2. cbn [fst snd]. rewrite Hk.
    apply image_kept; [apply dget_dset_same|].
    intros k2 v2 k2' H2 E2 Heq2. subst k2'. assert (k2 = k) by (eapply Hinj; eassumption). subst k2.
    apply Hni. apply in_map_iff. exists (k, v2). split; [reflexivity | exact H2].
  - apply IH; assumption.
Qed.
