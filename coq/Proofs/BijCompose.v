(** C18: UNBOUNDED composition law of Bijection.__matmul__(Bijection): for any alphabet and any two constructed bijections
    f, x and any universe U of existing names such that x is a collision-free renaming of U and f a collision-free renaming of
    the renamed universe, f @ x is constructed without error and (f @ x)[k] = f[x[k]] for every k in U. *)
From Coq Require Import ZArith Bool List Lia.
From SSJ Require Import Model.OSet Model.Bij Proofs.OSetProofs Proofs.BijProofs.
Import ListNotations.
Open Scope Z_scope.

(** ---------- dictionaries ---------- *)
Lemma keys_dset k v d : forall k', In k' (map fst (dset k v d)) <-> k' = k \/ In k' (map fst d).
Proof.
  induction d as [|[k0 v0] d IH]; intros k'; cbn [dset map fst In].
  - cbn. intuition.
  - destruct (k =? k0) eqn:E; cbn [map fst In].
    + apply Z.eqb_eq in E. subst. intuition.
    + rewrite IH. intuition.
Qed.

Lemma NoDup_keys_dset k v d : NoDup (map fst d) -> NoDup (map fst (dset k v d)).
Proof.
  induction d as [|[k0 v0] d IH]; intros H; cbn [dset map fst].
  - constructor; [intros [] | constructor].
  - inversion H as [|? ? Hn Hd]; subst. destruct (k =? k0) eqn:E; cbn [map fst].
    + constructor; assumption.
    + constructor; [|apply IH; assumption]. rewrite keys_dset. intros [->|Hin]; [rewrite Z.eqb_refl in E; discriminate | contradiction].
Qed.

Lemma dget_Some_iff_In k v d : NoDup (map fst d) -> (dget k d = Some v <-> In (k, v) d).
Proof. intros H. split; [apply dget_In | apply In_dget; assumption]. Qed.

Lemma dget_None_keys k d : dget k d = None <-> ~ In k (map fst d).
Proof.
  induction d as [|[k0 v0] d IH]; cbn [dget map fst In]; [tauto|].
  destruct (k =? k0) eqn:E.
  - apply Z.eqb_eq in E. subst. split; [discriminate | intros H; exfalso; apply H; left; reflexivity].
  - apply Z.eqb_neq in E. rewrite IH. split; [intros H [H1|H1]; [congruence | contradiction] | intros H H1; apply H; right; assumption].
Qed.

Lemma dhas_true k d : dhas k d = true <-> exists v, dget k d = Some v.
Proof. unfold dhas. destruct (dget k d) as [v|]; split; [eexists; reflexivity | reflexivity | discriminate | intros [v H]; discriminate]. Qed.

(** a fold of dict assignments with pairwise distinct keys *)
Section FoldDset.
Variable A : Type.
Variables (key val : A -> Z).
Let step := fun (M : dict) (e : A) => dset (key e) (val e) M.

Lemma fold_dset_get l : NoDup (map key l) -> forall M0 k u,
  dget k (fold_left step l M0) = Some u <->
  (exists e, In e l /\ key e = k /\ val e = u) \/ ((forall e, In e l -> key e <> k) /\ dget k M0 = Some u).
Proof.
  induction l as [|e l IH]; intros Hnd M0 k u; cbn [fold_left].
  - split; [intros H; right; split; [intros e [] | assumption] | intros [[e [[] _]]|[_ H]]; assumption].
  - inversion Hnd as [|? ? Hn Hd]; subst. rewrite (IH Hd). unfold step. split.
    + intros [[e' (H1 & H2 & H3)]|[H1 H2]].
      * left. exists e'. split; [right; assumption | tauto].
      * destruct (Z.eq_dec (key e) k) as [Hk|Hk].
        -- left. exists e. split; [left; reflexivity|]. split; [assumption|]. rewrite <- Hk, dget_dset_same in H2. inversion H2; reflexivity.
        -- right. split; [intros e' [<-|Hin]; [assumption | apply H1; assumption]|]. rewrite dget_dset_other in H2 by congruence. assumption.
    + intros [[e' ([<-|Hin] & H2 & H3)]|[H1 H2]].
      * right. split.
        -- intros e'' Hin Hk. apply Hn. apply in_map_iff. exists e''. split; [congruence | assumption].
        -- rewrite <- H2, dget_dset_same, H3. reflexivity.
      * left. exists e'. tauto.
      * right. split; [intros e' Hin; apply H1; right; assumption|]. rewrite dget_dset_other by (intros ->; apply (H1 e); [left; reflexivity | reflexivity]). assumption.
Qed.

Lemma fold_dset_keys l : forall M0, NoDup (map fst M0) -> NoDup (map fst (fold_left step l M0)).
Proof. induction l as [|e l IH]; intros M0 H; cbn [fold_left]; [assumption|]. apply IH. apply NoDup_keys_dset. assumption. Qed.
End FoldDset.

Lemma fold_cond_filter (fm : dict) l : forall M,
  fold_left (fun M (wv : Z * Z) => if dhas (snd wv) fm then M else dset (fst wv) (snd wv) M) l M
  = fold_left (fun M (wv : Z * Z) => dset (fst wv) (snd wv) M) (filter (fun wv => negb (dhas (snd wv) fm)) l) M.
Proof. induction l as [|e l IH]; intros M; cbn [fold_left filter]; [reflexivity|]. destruct (dhas (snd e) fm); cbn [negb fold_left]; apply IH. Qed.

Lemma NoDup_map_filter {A B} (g : A -> B) (p : A -> bool) l : NoDup (map g l) -> NoDup (map g (filter p l)).
Proof.
  induction l as [|a l IH]; intros H; cbn [filter map]; [constructor|]. inversion H as [|? ? Hn Hd]; subst.
  destruct (p a); cbn [map]; [constructor; [|apply IH; assumption] | apply IH; assumption].
  intros Hin. apply Hn. apply in_map_iff in Hin. destruct Hin as (b & Hb1 & Hb2). apply filter_In in Hb2. apply in_map_iff. exists b. tauto.
Qed.

Lemma NoDup_map_inj_on {A B} (g : A -> B) (l : list A) : NoDup l -> (forall a b, In a l -> In b l -> g a = g b -> a = b) -> NoDup (map g l).
Proof.
  induction l as [|a l IH]; intros Hnd Hinj; cbn [map]; [constructor|]. inversion Hnd as [|? ? Hn Hd]; subst. constructor.
  - intros Hin. apply in_map_iff in Hin. destruct Hin as (b & Hb1 & Hb2). assert (b = a) by (apply Hinj; [right; assumption | left; reflexivity | assumption]). subst. contradiction.
  - apply IH; [assumption|]. intros x y Hx Hy. apply Hinj; right; assumption.
Qed.

Lemma NoDup_vals (d : dict) : NoDup (map fst d) -> (forall k1 k2 u, In (k1, u) d -> In (k2, u) d -> k1 = k2) -> NoDup (map snd d).
Proof.
  intros Hk Hinj. apply NoDup_map_inj_on.
  - clear Hinj. induction d as [|e d IH]; [constructor|]. cbn [map] in Hk. inversion Hk as [|? ? Hn Hd]; subst. constructor; [|apply IH; assumption].
    intros Hin. apply Hn. apply in_map_iff. exists e. tauto.
  - intros [k1 u1] [k2 u2] H1 H2 E. cbn [snd] in E. subst u2. f_equal. eapply Hinj; eassumption.
Qed.

(** ---------- constructed bijections ---------- *)
Record WFb (m : dict) (b : bij) : Prop := {
  wf_keys : NoDup (map fst m);
  wf_vals : NoDup (map snd m);
  wf_mapkeys : NoDup (map fst (bmap b));
  wf_map : forall k v, dget k (bmap b) = Some v <-> In (k, v) m /\ k <> v;
  wf_inv : forall v k, dget v (binv b) = Some k <-> In (k, v) m }.

Lemma wfb_of_new m b : NoDup (map fst m) -> bij_new m = Some b -> WFb m b.
Proof.
  intros Hk. unfold bij_new. destruct (bij_invmap m) as [inv|] eqn:E; [|discriminate]. intros H; inversion H; subst b; clear H.
  apply inv_fold_spec in E. destruct E as (H1 & _ & H3 & H4 & _). constructor; cbn [bmap binv].
  - assumption.
  - assumption.
  - apply NoDup_map_filter. assumption.
  - intros k v. rewrite (dget_Some_iff_In k v _ (NoDup_map_filter fst _ m Hk)), filter_In. cbn [fst snd].
    rewrite negb_true_iff, Z.eqb_neq. reflexivity.
  - intros v k. split; [|apply H1]. intros Hg.
    assert (Hh : dhas v inv = true) by (unfold dhas; rewrite Hg; reflexivity).
    apply H3 in Hh. destruct Hh as [Hh|Hh]; [discriminate|]. apply in_map_iff in Hh. destruct Hh as ([k' v'] & Hv & Hin). cbn [snd] in Hv. subst v'.
    rewrite (H1 k' v Hin) in Hg. inversion Hg; subst. assumption.
Qed.

Lemma bget_new m c k : NoDup (map fst m) -> bij_new m = Some c -> bget c k = match dget k m with Some v => v | None => k end.
Proof.
  intros Hk Hc. pose proof (wfb_of_new m c Hk Hc) as W. unfold bget.
  destruct (dget k (bmap c)) as [v|] eqn:E.
  - apply (wf_map m c W) in E. destruct E as [E _]. rewrite (In_dget k v m Hk E). reflexivity.
  - destruct (dget k m) as [v|] eqn:E2; [|reflexivity]. destruct (Z.eq_dec k v) as [->|Hne]; [reflexivity|].
    assert (H : dget k (bmap c) = Some v) by (apply (wf_map m c W); split; [apply dget_In; assumption | assumption]). congruence.
Qed.

(** collision-free renaming of a universe V: every renamed name exists; every target is fresh or itself renamed away *)
Definition renamingP (b : bij) (V : list Z) : Prop :=
  forall k v, dget k (bmap b) = Some v -> In k V /\ (~ In v V \/ dhas v (bmap b) = true).

Lemma renaming_P mb b V : WFb mb b -> renaming b V = true -> renamingP b V.
Proof.
  intros W H k v Hg. unfold renaming in H. rewrite forallb_forall in H. specialize (H (k, v) (dget_In k v _ Hg)). cbn [fst snd] in H.
  apply andb_true_iff in H. destruct H as [H1 H2]. apply mem_In in H1. split; [assumption|].
  apply orb_true_iff in H2. destruct H2 as [H2|H2]; [left; apply negb_true_iff in H2; intros Hin; apply mem_In in Hin; congruence | right; assumption].
Qed.

Section Inj.
Variables (mb : dict) (b : bij) (V : list Z).
Hypothesis W : WFb mb b.
Hypothesis Ren : renamingP b V.

Lemma bget_inj_on v1 v2 : In v1 V -> In v2 V -> bget b v1 = bget b v2 -> v1 = v2.
Proof.
  intros H1 H2. unfold bget. destruct (dget v1 (bmap b)) as [u1|] eqn:E1, (dget v2 (bmap b)) as [u2|] eqn:E2; intros E.
  - rewrite E in E1. apply (wf_map mb b W) in E1, E2. destruct E1 as [E1 _], E2 as [E2 _]. apply (wf_inv mb b W) in E1, E2. congruence.
  - rewrite E in E1. destruct (Ren v1 v2 E1) as [_ [Hn|Hh]]; [contradiction|]. apply dhas_true in Hh. destruct Hh as [u Hu]. congruence.
  - rewrite <- E in E2. destruct (Ren v2 v1 E2) as [_ [Hn|Hh]]; [contradiction|]. apply dhas_true in Hh. destruct Hh as [u Hu]. congruence.
  - assumption.
Qed.

(** the inverse lookup with identity default undoes the renaming on V *)
Lemma inv_undoes k : In k V -> match dget (bget b k) (binv b) with Some k' => k' | None => bget b k end = k.
Proof.
  intros Hk. unfold bget. destruct (dget k (bmap b)) as [v|] eqn:E.
  - apply (wf_map mb b W) in E. destruct E as [E _]. apply (wf_inv mb b W) in E. rewrite E. reflexivity.
  - destruct (dget k (binv b)) as [k'|] eqn:E2; [|reflexivity].
    apply (wf_inv mb b W) in E2. destruct (Z.eq_dec k' k) as [->|Hne]; [reflexivity|]. exfalso.
    assert (Hm : dget k' (bmap b) = Some k) by (apply (wf_map mb b W); split; assumption).
    destruct (Ren k' k Hm) as [_ [Hn|Hh]]; [contradiction|]. apply dhas_true in Hh. destruct Hh as [u Hu]. congruence.
Qed.
End Inj.

(** ---------- the composition ---------- *)
Section Compose.
Variables (mf mx : dict) (f x : bij) (U : list Z).
Hypothesis Wf : WFb mf f.
Hypothesis Wx : WFb mx x.
Hypothesis Rx : renamingP x U.
Hypothesis Rf : renamingP f (map (bget x) U).

Let w (v : Z) : Z := match dget v (binv x) with Some k => k | None => v end.
Let l2 := filter (fun wv : Z * Z => negb (dhas (snd wv) (bmap f))) (bmap x).
Let M1 := fold_left (fun M (vu : Z * Z) => dset (w (fst vu)) (snd vu) M) (bmap f) [].
Let M2 := fold_left (fun M (wv : Z * Z) => dset (fst wv) (snd wv) M) l2 M1.

Lemma w_undoes k : In k U -> w (bget x k) = k.
Proof. intros Hk. unfold w. apply (inv_undoes mx x U Wx Rx k Hk). Qed.

Lemma f_keys_in_image v u : dget v (bmap f) = Some u -> exists k, In k U /\ bget x k = v.
Proof. intros H. destruct (Rf v u H) as [Hin _]. apply in_map_iff in Hin. destruct Hin as (k & E & Hk). exists k. tauto. Qed.

Lemma M1_keys_nodup : NoDup (map (fun vu : Z * Z => w (fst vu)) (bmap f)).
Proof.
  apply NoDup_map_inj_on.
  - pose proof (wf_mapkeys mf f Wf) as H. clear -H. induction (bmap f) as [|e d IH]; [constructor|]. cbn [map] in H. inversion H as [|? ? Hn Hd]; subst.
    constructor; [|apply IH; assumption]. intros Hin. apply Hn. apply in_map_iff. exists e. tauto.
  - intros [v1 u1] [v2 u2] H1 H2 E. cbn [fst] in E.
    apply (In_dget v1 u1 _ (wf_mapkeys mf f Wf)) in H1. apply (In_dget v2 u2 _ (wf_mapkeys mf f Wf)) in H2.
    destruct (f_keys_in_image v1 u1 H1) as (k1 & Hk1 & E1). destruct (f_keys_in_image v2 u2 H2) as (k2 & Hk2 & E2).
    rewrite <- E1, <- E2 in E. rewrite !w_undoes in E by assumption. subst k2. assert (Hv : v1 = v2) by congruence. assert (Hu : u1 = u2) by congruence. rewrite Hv, Hu. reflexivity.
Qed.

Lemma l2_keys_nodup : NoDup (map fst l2).
Proof. unfold l2. apply NoDup_map_filter. apply (wf_mapkeys mx x Wx). Qed.

Lemma M2_keys_nodup : NoDup (map fst M2).
Proof. unfold M2. apply (fold_dset_keys (Z * Z) fst snd). unfold M1. apply (fold_dset_keys (Z * Z) (fun vu => w (fst vu)) snd). constructor. Qed.

(** every entry of the composed dictionary is  k |-> f[x[k]]  with k in U *)
Lemma M2_value k u : dget k M2 = Some u -> In k U /\ u = bget f (bget x k).
Proof.
  unfold M2. rewrite (fold_dset_get (Z * Z) fst snd l2 l2_keys_nodup M1 k u).
  intros [([k' v] & Hin & Hk & Hv)|[Hno Hg]].
  - cbn [fst snd] in Hk, Hv. subst k' v. unfold l2 in Hin. apply filter_In in Hin. destruct Hin as [Hin Hnf]. cbn [snd] in Hnf.
    apply (In_dget k u _ (wf_mapkeys mx x Wx)) in Hin. destruct (Rx k u Hin) as [HkU _]. split; [assumption|].
    unfold bget at 2. rewrite Hin. unfold bget. apply negb_true_iff in Hnf. unfold dhas in Hnf. destruct (dget u (bmap f)); [discriminate | reflexivity].
  - unfold M1 in Hg. rewrite (fold_dset_get (Z * Z) (fun vu => w (fst vu)) snd (bmap f) M1_keys_nodup [] k u) in Hg.
    destruct Hg as [([v u'] & Hin & Hk & Hv)|[_ Hg]]; [|discriminate]. cbn [fst snd] in Hk, Hv. subst u'.
    apply (In_dget v u _ (wf_mapkeys mf f Wf)) in Hin. destruct (f_keys_in_image v u Hin) as (k0 & Hk0 & E0).
    rewrite <- E0, w_undoes in Hk by assumption. subst k0. split; [assumption|]. rewrite E0. unfold bget. rewrite Hin. reflexivity.
Qed.

(** and every k in U whose image differs from k has an entry *)
Lemma M2_none k : In k U -> dget k M2 = None -> bget f (bget x k) = k.
Proof.
  intros HkU Hnone.
  assert (Hl2 : forall e, In e l2 -> fst e <> k).
  { intros e Hin Hk. assert (Hs : dget k M2 = Some (snd e)).
    { unfold M2. apply (fold_dset_get (Z * Z) fst snd l2 l2_keys_nodup M1 k (snd e)). left. exists e. tauto. }
    congruence. }
  assert (Hf : forall e, In e (bmap f) -> w (fst e) <> k).
  { intros e Hin Hk. assert (Hs : dget k M2 = Some (snd e)).
    { unfold M2. apply (fold_dset_get (Z * Z) fst snd l2 l2_keys_nodup M1 k (snd e)). right. split; [assumption|].
      unfold M1. apply (fold_dset_get (Z * Z) (fun vu => w (fst vu)) snd (bmap f) M1_keys_nodup [] k (snd e)). left. exists e. tauto. }
    congruence. }
  destruct (dget k (bmap x)) as [v|] eqn:Ex.
  - (* k is renamed to v: either f renames v (loop 1 entry) or not (loop 2 entry): both contradict the absence *)
    exfalso. destruct (dget v (bmap f)) as [u|] eqn:Ef.
    + apply (Hf (v, u) (dget_In v u _ Ef)). cbn [fst]. replace v with (bget x k) by (unfold bget; rewrite Ex; reflexivity). apply w_undoes. assumption.
    + apply (Hl2 (k, v)); [|reflexivity]. unfold l2. apply filter_In. split; [apply dget_In; assumption|]. cbn [snd]. unfold dhas. rewrite Ef. reflexivity.
  - assert (Exk : bget x k = k) by (unfold bget; rewrite Ex; reflexivity). rewrite Exk.
    unfold bget. destruct (dget k (bmap f)) as [u|] eqn:Ef; [|reflexivity]. exfalso.
    apply (Hf (k, u) (dget_In k u _ Ef)). cbn [fst]. rewrite <- Exk at 1. apply w_undoes. assumption.
Qed.

Lemma M2_vals_nodup : NoDup (map snd M2).
Proof.
  apply NoDup_vals; [apply M2_keys_nodup|]. intros k1 k2 u H1 H2.
  apply (In_dget _ _ _ M2_keys_nodup) in H1, H2. apply M2_value in H1, H2. destruct H1 as [U1 E1], H2 as [U2 E2].
  assert (Ex : bget x k1 = bget x k2).
  { apply (bget_inj_on mf f (map (bget x) U) Wf Rf); [apply in_map; assumption | apply in_map; assumption | congruence]. }
  apply (bget_inj_on mx x U Wx Rx); assumption.
Qed.

Theorem compose_apply_lemma : exists c, bij_compose f x = Some c /\ forall k, In k U -> bget c k = bget f (bget x k).
Proof.
  assert (HM : bij_compose f x = bij_new M2).
  { unfold bij_compose. f_equal. unfold M2, M1, l2, w. rewrite fold_cond_filter. reflexivity. }
  destruct (bij_new M2) as [c|] eqn:Ec.
  - exists c. split; [assumption|]. intros k Hk. rewrite (bget_new M2 c k M2_keys_nodup Ec).
    destruct (dget k M2) as [u|] eqn:Eg; [apply M2_value in Eg; tauto | symmetry; apply M2_none; assumption].
  - exfalso. apply bij_new_rejects_iff in Ec. apply Ec. apply M2_vals_nodup.
Qed.

(** the composition is again a constructed bijection and a collision-free renaming of the same universe *)
Theorem compose_full_lemma : exists c mc, bij_compose f x = Some c /\ WFb mc c /\ (forall k, In k U -> bget c k = bget f (bget x k)) /\ renamingP c U.
Proof.
  destruct compose_apply_lemma as (c & Hc & Happ).
  assert (HM : bij_compose f x = bij_new M2).
  { unfold bij_compose. f_equal. unfold M2, M1, l2, w. rewrite fold_cond_filter. reflexivity. }
  rewrite HM in Hc. pose proof (wfb_of_new M2 c M2_keys_nodup Hc) as Wc.
  exists c, M2. split; [rewrite HM; assumption|]. split; [assumption|]. split; [assumption|].
  intros k v Hkv. apply (wf_map M2 c Wc) in Hkv. destruct Hkv as [Hin Hne].
  apply (In_dget _ _ _ M2_keys_nodup) in Hin. apply M2_value in Hin. destruct Hin as [HkU Hv]. split; [assumption|].
  destruct (in_dec Z.eq_dec v U) as [HvU|HvU]; [right | left; assumption].
  apply dhas_true. specialize (Happ v HvU).
  destruct (dget v (bmap c)) as [u|] eqn:Eg; [exists u; reflexivity|]. exfalso.
  (* f[x[v]] = v = f[x[k]] with v <> k contradicts injectivity on U *)
  assert (Hb : bget c v = v) by (unfold bget; rewrite Eg; reflexivity).
  assert (E1 : bget f (bget x v) = bget f (bget x k)) by congruence.
  assert (E2 : bget x v = bget x k).
  { apply (bget_inj_on mf f (map (bget x) U) Wf Rf); [apply in_map; assumption | apply in_map; assumption | assumption]. }
  apply Hne. symmetry. apply (bget_inj_on mx x U Wx Rx); assumption.
Qed.
End Compose.

Theorem bij_compose_apply_unbounded_lemma mf mx f x U :
  NoDup (map fst mf) -> NoDup (map fst mx) -> bij_new mf = Some f -> bij_new mx = Some x ->
  renaming x U = true -> renaming f (image x U) = true ->
  exists c, bij_compose f x = Some c /\ forall k, In k U -> bget c k = bget f (bget x k).
Proof.
  intros Kf Kx Hf Hx R1 R2. pose proof (wfb_of_new mf f Kf Hf) as Wf. pose proof (wfb_of_new mx x Kx Hx) as Wx.
  apply (compose_apply_lemma mf mx f x U Wf Wx); [eapply renaming_P; eassumption | eapply renaming_P; eassumption].
Qed.

(** ---------- associativity, any alphabet ---------- *)
Lemma renamingP_ext b V V' : (forall k, In k V <-> In k V') -> renamingP b V -> renamingP b V'.
Proof. intros H R k v Hg. destruct (R k v Hg) as [H1 H2]. split; [apply H; assumption|]. destruct H2 as [H2|H2]; [left; intros Hc; apply H2; apply H; assumption | right; assumption]. Qed.

Theorem bij_compose_assoc_unbounded_lemma mf mg mh f g h U :
  NoDup (map fst mf) -> NoDup (map fst mg) -> NoDup (map fst mh) -> bij_new mf = Some f -> bij_new mg = Some g -> bij_new mh = Some h ->
  renaming h U = true -> renaming g (image h U) = true -> renaming f (image g (image h U)) = true ->
  exists gh fg a b, bij_compose g h = Some gh /\ bij_compose f g = Some fg /\ bij_compose f gh = Some a /\ bij_compose fg h = Some b /\
    forall k, In k U -> bget a k = bget b k /\ bget a k = bget f (bget g (bget h k)).
Proof.
  intros Kf Kg Kh Hf Hg Hh R1 R2 R3.
  pose proof (wfb_of_new mf f Kf Hf) as Wf. pose proof (wfb_of_new mg g Kg Hg) as Wg. pose proof (wfb_of_new mh h Kh Hh) as Wh.
  pose proof (renaming_P mh h U Wh R1) as P1. pose proof (renaming_P mg g _ Wg R2) as P2. pose proof (renaming_P mf f _ Wf R3) as P3.
  unfold image in *.
  (* gh on U *)
  destruct (compose_full_lemma mg mh g h U Wg Wh P1 P2) as (gh & mgh & Egh & Wgh & Agh & Pgh).
  (* fg on V = image h U *)
  destruct (compose_full_lemma mf mg f g (map (bget h) U) Wf Wg P2 P3) as (fg & mfg & Efg & Wfg & Afg & Pfg).
  (* a = f @ gh on U: f must rename image gh U = image g (image h U) *)
  assert (P3' : renamingP f (map (bget gh) U)).
  { apply (renamingP_ext f (map (bget g) (map (bget h) U))); [|assumption]. intros k. rewrite map_map, !in_map_iff. split.
    - intros (u & E & Hu). exists u. split; [rewrite Agh by assumption; assumption | assumption].
    - intros (u & E & Hu). exists u. split; [rewrite <- Agh by assumption; assumption | assumption]. }
  destruct (compose_full_lemma mf mgh f gh U Wf Wgh Pgh P3') as (a & ma & Ea & _ & Aa & _).
  (* b = fg @ h on U *)
  destruct (compose_full_lemma mfg mh fg h U Wfg Wh P1 Pfg) as (b & mb & Eb & _ & Ab & _).
  exists gh, fg, a, b. repeat split; try assumption.
  - rewrite (Aa k H), (Ab k H), (Agh k H). rewrite (Afg (bget h k)) by (apply in_map; assumption). reflexivity.
  - rewrite (Aa k H), (Agh k H). reflexivity.
Qed.
