(** C02: the accumulator of the simple-block DSL (ring fragment) computes the steady-state value and the
    formal derivative of the infinite time-path map, for every expression, nesting of shifts, date pair. *)
From Coq Require Import ZArith Bool Lia ZifyBool List Ring.
From SSJ Require Import Lib.Sums Model.Shift Model.Sparse Gen.MultiplyBasis Gen.ComputeL Proofs.ShiftProofs Proofs.SparseProofs Model.SimpleBlk.
Import ListNotations.
Open Scope Z_scope.

Section SimpleBlkProofs.
Variable R : Type.
Variables (rO rI : R) (radd rmul rsub : R -> R -> R) (ropp : R -> R) (rdiv : R -> R -> R) (rinv : R -> R).
Variable Rth : ring_theory rO rI radd rmul rsub ropp eq.
Add Ring RringSB : Rth.
(** the only fact about division that is used: a / b = a * inv b  (inv is any function; no field axiom is needed because the
    quotient rule is stated with the same symbol) *)
Hypothesis div_def : forall a b, rdiv a b = rmul a (rinv b).
Hypothesis inv_l : forall a, a <> rO -> rmul (rinv a) a = rI.
Hypothesis sq_nz : forall a, a <> rO -> rmul a a <> rO.
Variable tiny : R -> bool.
Hypothesis tiny_zero : forall x, tiny x = true -> x = rO.
Infix "+r" := radd (at level 50, left associativity).
Infix "*r" := rmul (at level 40, left associativity).
Notation sden := (sden R rO rI radd rmul).
Notation bden := (bden R rO rI).
Notation wf := (wf R).
Notation accum := (accum R rO rI radd rmul rsub ropp rdiv tiny).
Notation eval_ss := (eval_ss R rI radd rmul rsub ropp rdiv).
Notation eval_td := (eval_td R rI radd rmul rsub ropp rdiv).
Notation deriv := (deriv R rO rI radd rmul rsub ropp rdiv).

Let sden_cons' := sden_cons R rO rI radd rmul.
Let sden_nil' := sden_nil R rO rI radd rmul.
Let sden_acc' := sden_acc R rO rI radd rmul rsub ropp Rth tiny tiny_zero.
Let sden_add' := sden_add R rO rI radd rmul rsub ropp Rth tiny tiny_zero.
Let wf_acc' := wf_acc R radd tiny.

Lemma sden_el_map g S t s (c : R) : (forall x, g x = c *r x) -> sden (el_map R g S) t s = c *r sden S t s.
Proof.
  intros Hg. induction S as [|[k x] S IH]; cbn [el_map map fst snd].
  - rewrite !sden_nil'. ring.
  - rewrite !sden_cons'. fold (el_map R g S). rewrite IH, Hg. ring.
Qed.

Lemma wf_el_map g S : wf S -> wf (el_map R g S).
Proof.
  intros H k x Hin. unfold el_map in Hin. apply in_map_iff in Hin. destruct Hin as [[k' x'] [E Hin]].
  cbn in E. inversion E; subst. eapply H; eassumption.
Qed.

Lemma wf_sp_add A B : wf A -> wf B -> wf (sp_add R radd tiny A B).
Proof.
  unfold sp_add. revert A. induction B as [|[k x] B IH]; intros A HA HB; cbn [fold_left fst snd]; [assumption|].
  apply IH; [apply wf_acc'; [apply (HB k x); left; reflexivity | assumption] | intros k0 x0 Hin; apply (HB k0 x0); right; assumption].
Qed.

Lemma sden_sub_acc A B t s : sden (sp_sub_acc R radd ropp tiny A B) t s = rsub (sden A t s) (sden B t s).
Proof.
  unfold sp_sub_acc. revert A. induction B as [|[k x] B IH]; intros A; cbn [fold_left fst snd].
  - rewrite ?sden_nil'. ring.
  - rewrite IH, sden_acc', sden_cons'. ring.
Qed.

Lemma wf_sub_acc A B : wf A -> wf B -> wf (sp_sub_acc R radd ropp tiny A B).
Proof.
  unfold sp_sub_acc. revert A. induction B as [|[k x] B IH]; intros A HA HB; cbn [fold_left fst snd]; [assumption|].
  apply IH; [apply wf_acc'; [apply (HB k x); left; reflexivity | assumption] | intros k0 x0 Hin; apply (HB k0 x0); right; assumption].
Qed.

(** the shift: requires that equal shifted keys are summed (Gen.acc_call_overwrites = false) *)
Lemma shift_keys_den i S t s : wf S ->
  sden (shift_keys R radd tiny i S) t s = if den (i, 0) t (t + i) then sden S (t + i) s else rO.
Proof.
  intros HS. unfold shift_keys. change acc_call_overwrites with false. cbv iota.
  assert (G : forall E, sden (fold_left (fun E kx => acc R radd tiny false (acc_call_key i (fst kx)) (snd kx) E) S E) t s
              = sden E t s +r (if den (i, 0) t (t + i) then sden S (t + i) s else rO)).
  { induction S as [|[[j n] x] S IH]; intros E; cbn [fold_left fst snd].
    - rewrite ?sden_nil'. destruct (den (i, 0) t (t + i)); ring.
    - rewrite IH by (intros k0 x0 Hin; apply (HS k0 x0); right; assumption).
      rewrite sden_acc', acc_call_key_is_product.
      rewrite (bden_product R rO rI i 0 j n t s) by (try lia; apply (HS (j, n) x); left; reflexivity).
      rewrite sden_cons'. destruct (den (i, 0) t (t + i)); ring. }
  rewrite G. rewrite ?sden_nil'. ring.
Qed.

Lemma wf_shift_keys i S : wf S -> wf (shift_keys R radd tiny i S).
Proof.
  intros HS. unfold shift_keys. change acc_call_overwrites with false. cbv iota.
  assert (G : forall E, wf E -> wf (fold_left (fun E kx => acc R radd tiny false (acc_call_key i (fst kx)) (snd kx) E) S E)).
  { induction S as [|[[j n] x] S IH]; intros E HE; cbn [fold_left fst snd]; [assumption|].
    apply IH; [intros k0 x0 Hin; apply (HS k0 x0); right; assumption|].
    apply wf_acc'; [|assumption]. rewrite acc_call_key_is_product. apply multiply_basis_wf; [lia|].
    apply (HS (j, n) x); left; reflexivity. }
  apply G. intros ? ? [].
Qed.

(** every divisor has a non-zero steady-state value (otherwise the code raises ZeroDivisionError / returns inf) *)
Fixpoint divs_ok (ss : nat -> R) (e : expr R) : Prop :=
  match e with
  | EVar _ | ENum _ => True
  | EShift _ e | ESs e | ENeg e | EPow e _ | EApp _ _ e => divs_ok ss e
  | EAdd a b | ESub a b | EMul a b => divs_ok ss a /\ divs_ok ss b
  | EDiv a b => divs_ok ss a /\ divs_ok ss b /\ eval_ss ss b <> rO
  end.

Lemma inv_sq d : d <> rO -> d *r rinv (d *r d) = rinv d.
Proof.
  intros Hd. pose proof (inv_l d Hd) as H1. pose proof (inv_l (d *r d) (sq_nz d Hd)) as H2.
  transitivity (d *r rinv (d *r d) *r (rinv d *r d)); [rewrite H1; ring|].
  transitivity ((rinv (d *r d) *r (d *r d)) *r rinv d); [ring | rewrite H2; ring].
Qed.

Definition aval_ok (ss : nat -> R) (x0 : nat) (e : expr R) (a : aval R) : Prop :=
  match a with
  | AConst c => eval_ss ss e = c /\ forall t s, deriv ss x0 s e t = rO
  | AAcc Sp f => eval_ss ss e = f /\ wf Sp /\ forall t s, 0 <= t -> 0 <= s -> deriv ss x0 s e t = sden Sp t s
  end.

Theorem accum_correct ss x0 e : divs_ok ss e -> aval_ok ss x0 e (accum ss x0 e).
Proof.
  induction e as [x|c|k e IH|e IH|e IH|a IHa b IHb|a IHa b IHb|a IHa b IHb|a IHa b IHb|a IHa n|g dg e IHg]; cbn [SimpleBlk.accum divs_ok]; intros Hok;
    try (specialize (IH Hok)); try (destruct Hok as [Hoka Hokb]; specialize (IHa Hoka); try (destruct Hokb as [Hokb Hnz]); specialize (IHb Hokb)).
  - (* variable *)
    destruct (Nat.eqb x x0) eqn:Ex; cbn [aval_ok SimpleBlk.eval_ss SimpleBlk.deriv]; rewrite ?Ex.
    + split; [reflexivity|]. split; [intros k y [H|[]]; inversion H; cbn; lia|].
      intros t s Ht Hs. rewrite sden_cons'. unfold Sparse.sden, Sums.lsum, Sparse.bden; cbn [fold_right den andb].
      replace ((s =? t + 0) && (0 <=? Z.min t s)) with (t =? s) by lia. destruct (t =? s); ring.
    + split; [reflexivity | intros; reflexivity].
  - cbn; split; [reflexivity | intros; reflexivity].
  - (* shift *)
    destruct (accum ss x0 e) as [c|S f]; cbn [aval_ok SimpleBlk.eval_ss SimpleBlk.deriv] in *.
    + destruct IH as [H1 H2]. split; [assumption|]. intros t s. destruct (t + k <? 0); [reflexivity | apply H2].
    + destruct IH as (H1 & H2 & H3). split; [assumption|]. split; [apply wf_shift_keys; assumption|].
      intros t s Ht Hs. rewrite shift_keys_den by assumption. cbv [den].
      destruct (t + k <? 0) eqn:E.
      * replace ((t + k =? t + k) && (0 <=? Z.min t (t + k))) with false by lia. reflexivity.
      * replace ((t + k =? t + k) && (0 <=? Z.min t (t + k))) with true by lia. apply H3; lia.
  - (* .ss *)
    destruct (accum ss x0 e) as [c|S f]; cbn [aval_ok SimpleBlk.eval_ss SimpleBlk.deriv a_value] in *.
    + destruct IH as [H1 _]. split; [assumption | intros; reflexivity].
    + destruct IH as (H1 & _). split; [assumption | intros; reflexivity].
  - (* neg *)
    destruct (accum ss x0 e) as [c|S f]; cbn [aval_ok SimpleBlk.eval_ss SimpleBlk.deriv] in *.
    + destruct IH as [H1 H2]. split; [rewrite H1; reflexivity | intros; rewrite H2; ring].
    + destruct IH as (H1 & H2 & H3). split; [rewrite H1; reflexivity|]. split; [apply wf_el_map; assumption|].
      intros t s Ht Hs. rewrite H3 by assumption. rewrite (sden_el_map ropp S t s (ropp rI)) by (intros; ring). ring.
  - (* add *)
    destruct (accum ss x0 a) as [c|S f], (accum ss x0 b) as [d|S' f']; cbn [aval_ok SimpleBlk.eval_ss SimpleBlk.deriv] in *.
    + destruct IHa as [A1 A2], IHb as [B1 B2]. split; [rewrite A1, B1; reflexivity | intros; rewrite A2, B2; ring].
    + destruct IHa as [A1 A2], IHb as (B1 & B2 & B3). split; [rewrite A1, B1; reflexivity|]. split; [assumption|].
      intros t s Ht Hs. rewrite A2, B3 by assumption. ring.
    + destruct IHa as (A1 & A2 & A3), IHb as [B1 B2]. split; [rewrite A1, B1; reflexivity|]. split; [assumption|].
      intros t s Ht Hs. rewrite A3, B2 by assumption. ring.
    + destruct IHa as (A1 & A2 & A3), IHb as (B1 & B2 & B3). split; [rewrite A1, B1; reflexivity|].
      split; [apply wf_sp_add; assumption|]. intros t s Ht Hs. rewrite A3, B3, sden_add' by assumption. reflexivity.
  - (* sub *)
    destruct (accum ss x0 a) as [c|S f], (accum ss x0 b) as [d|S' f']; cbn [aval_ok SimpleBlk.eval_ss SimpleBlk.deriv] in *.
    + destruct IHa as [A1 A2], IHb as [B1 B2]. split; [rewrite A1, B1; reflexivity | intros; rewrite A2, B2; ring].
    + destruct IHa as [A1 A2], IHb as (B1 & B2 & B3). split; [rewrite A1, B1; reflexivity|]. split; [apply wf_el_map; assumption|].
      intros t s Ht Hs. rewrite A2, B3 by assumption. rewrite (sden_el_map ropp S' t s (ropp rI)) by (intros; ring). ring.
    + destruct IHa as (A1 & A2 & A3), IHb as [B1 B2]. split; [rewrite A1, B1; reflexivity|]. split; [assumption|].
      intros t s Ht Hs. rewrite A3, B2 by assumption. ring.
    + destruct IHa as (A1 & A2 & A3), IHb as (B1 & B2 & B3). split; [rewrite A1, B1; reflexivity|].
      split; [apply wf_sub_acc; assumption|]. intros t s Ht Hs. rewrite A3, B3, sden_sub_acc by assumption. reflexivity.
  - (* mul *)
    destruct (accum ss x0 a) as [c|S f], (accum ss x0 b) as [d|S' f']; cbn [aval_ok SimpleBlk.eval_ss SimpleBlk.deriv] in *.
    + destruct IHa as [A1 A2], IHb as [B1 B2]. split; [rewrite A1, B1; reflexivity | intros; rewrite A2, B2; ring].
    + destruct IHa as [A1 A2], IHb as (B1 & B2 & B3). split; [rewrite A1, B1; reflexivity|]. split; [apply wf_el_map; assumption|].
      intros t s Ht Hs. rewrite A2, B3, A1 by assumption. rewrite (sden_el_map (fun x => c *r x) S' t s c) by (intros; ring). ring.
    + destruct IHa as (A1 & A2 & A3), IHb as [B1 B2]. split; [rewrite A1, B1; reflexivity|]. split; [apply wf_el_map; assumption|].
      intros t s Ht Hs. rewrite A3, B2, B1 by assumption. rewrite (sden_el_map (fun x => x *r d) S t s d) by (intros; ring). ring.
    + destruct IHa as (A1 & A2 & A3), IHb as (B1 & B2 & B3). split; [rewrite A1, B1; reflexivity|].
      split; [apply wf_sp_add; apply wf_el_map; assumption|]. intros t s Ht Hs.
      rewrite A3, B3, A1, B1, sden_add' by assumption.
      rewrite (sden_el_map (fun x => x *r f') S t s f') by (intros; ring).
      rewrite (sden_el_map (fun x => x *r f) S' t s f) by (intros; ring). ring.
  - (* div *)
    destruct (accum ss x0 a) as [c|S f], (accum ss x0 b) as [d|S' f']; cbn [aval_ok SimpleBlk.eval_ss SimpleBlk.deriv] in *.
    + destruct IHa as [A1 A2], IHb as [B1 B2]. split; [rewrite A1, B1; reflexivity | intros; rewrite A2, B2, !div_def; ring].
    + destruct IHa as [A1 A2], IHb as (B1 & B2 & B3). split; [rewrite A1, B1; reflexivity|]. split; [apply wf_el_map; assumption|].
      intros t s Ht Hs. rewrite A2, B3, A1, B1 by assumption.
      rewrite (sden_el_map (fun x => rdiv (ropp c) (f' *r f') *r x) S' t s (rdiv (ropp c) (f' *r f'))) by (intros; ring).
      rewrite !div_def. ring.
    + destruct IHa as (A1 & A2 & A3), IHb as [B1 B2]. split; [rewrite A1, B1; reflexivity|]. split; [apply wf_el_map; assumption|].
      intros t s Ht Hs. rewrite A3, B2, A1, B1 by assumption.
      rewrite (sden_el_map (fun x => rdiv x d) S t s (rinv d)) by (intros; rewrite div_def; ring).
      rewrite !div_def. rewrite <- (inv_sq d) by (rewrite <- B1; assumption). ring.
    + destruct IHa as (A1 & A2 & A3), IHb as (B1 & B2 & B3). split; [rewrite A1, B1; reflexivity|].
      split; [apply wf_el_map; apply wf_sub_acc; apply wf_el_map; assumption|]. intros t s Ht Hs.
      rewrite A3, B3, A1, B1 by assumption.
      rewrite (sden_el_map (fun x => rdiv x (f' *r f')) _ t s (rinv (f' *r f'))) by (intros; rewrite div_def; ring).
      rewrite sden_sub_acc.
      rewrite (sden_el_map (fun x => f' *r x) S t s f') by (intros; ring).
      rewrite (sden_el_map (fun x => f *r x) S' t s f) by (intros; ring).
      rewrite !div_def. ring.
  - (* pow *)
    specialize (IHa Hok). destruct (accum ss x0 a) as [c|Sp f]; cbn [aval_ok SimpleBlk.eval_ss SimpleBlk.deriv] in *.
    + destruct IHa as [A1 A2]. split; [rewrite A1; reflexivity | intros; rewrite A2; ring].
    + destruct IHa as (A1 & A2 & A3). split; [rewrite A1; reflexivity|]. split; [apply wf_el_map; assumption|].
      intros t s Ht Hs. rewrite A3, A1 by assumption.
      rewrite (sden_el_map (fun x => nat_r R rO rI radd (Datatypes.S n) *r rpow R rI rmul f n *r x) Sp t s (nat_r R rO rI radd (Datatypes.S n) *r rpow R rI rmul f n)) by (intros; ring).
      ring.
  - (* applied function: chain rule with the supplied derivative *)
    specialize (IHg Hok). destruct (accum ss x0 e) as [c|Sp f]; cbn [aval_ok SimpleBlk.eval_ss SimpleBlk.deriv] in *.
    + destruct IHg as [A1 A2]. split; [rewrite A1; reflexivity | intros; rewrite A2; ring].
    + destruct IHg as (A1 & A2 & A3). split; [rewrite A1; reflexivity|]. split; [apply wf_el_map; assumption|].
      intros t s Ht Hs. rewrite A3, A1 by assumption. rewrite (sden_el_map (fun x => dg f *r x) Sp t s (dg f)) by (intros; ring). ring.
Qed.

(** an entry reported absent has derivative zero everywhere; a present entry is the derivative *)
Theorem jac_entry_correct ss x0 e : divs_ok ss e ->
  match jac_entry R rO rI radd rmul rsub ropp rdiv tiny ss x0 e with
  | None => forall t s, 0 <= t -> 0 <= s -> deriv ss x0 s e t = rO
  | Some Sp => wf Sp /\ forall t s, 0 <= t -> 0 <= s -> deriv ss x0 s e t = sden Sp t s
  end.
Proof.
  intros Hok. unfold jac_entry. pose proof (accum_correct ss x0 e Hok) as H. destruct (accum ss x0 e) as [c|S f]; cbn [aval_ok] in H.
  - intros; apply H.
  - destruct H as (H1 & H2 & H3). destruct (forallb (fun kx => tiny (snd kx)) S) eqn:Et; [|split; assumption].
    intros t s Ht Hs. rewrite H3 by assumption. rewrite forallb_forall in Et.
    clear -Et tiny_zero Rth. induction S as [|[k x] S IH]; [reflexivity|].
    rewrite sden_cons. rewrite IH by (intros y Hy; apply Et; right; assumption).
    rewrite (tiny_zero x) by (apply (Et (k, x)); left; reflexivity). ring.
Qed.

Lemma eval_ssi_same ss e : eval_ssi R rI radd rmul rsub ropp rdiv ss ss e = eval_ss ss e.
Proof. induction e; cbn [SimpleBlk.eval_ssi SimpleBlk.eval_ss]; rewrite ?IHe, ?IHe1, ?IHe2; reflexivity. Qed.

(** zero shock: on the steady-state path (same initial steady state) every output path is its steady-state value *)
Theorem ss_td_agree T ss env e t : (forall x u, env x u = ss x) -> eval_td T ss ss env e t = eval_ss ss e.
Proof.
  intros Henv. revert t. induction e as [x|c|k e IH|e IH|e IH|a IHa b IHb|a IHa b IHb|a IHa b IHb|a IHa b IHb|a IHa n|g dg e IHg]; intros t;
    cbn [SimpleBlk.eval_td SimpleBlk.eval_ss].
  - apply Henv.
  - reflexivity.
  - destruct (t + k <? 0); [apply eval_ssi_same|]. destruct T as [T'|]; [destruct (T' <=? t + k); [reflexivity | apply IH] | apply IH].
  - reflexivity.
  - rewrite IH; reflexivity.
  - rewrite IHa, IHb; reflexivity.
  - rewrite IHa, IHb; reflexivity.
  - rewrite IHa, IHb; reflexivity.
  - rewrite IHa, IHb; reflexivity.
  - rewrite IHa; reflexivity.
  - rewrite IHg; reflexivity.
Qed.
End SimpleBlkProofs.

(** finite horizon = infinite semantics inside the exactness window: the truncated evaluation (paths padded with the
    steady state from date T on, as Displace does) agrees with the evaluation on one-sided infinite sequences at every date t
    whose largest forward reach t + maxlead e stays below T. *)
Section Window.
Variable R : Type.
Variables (rO rI : R) (radd rmul rsub : R -> R -> R) (ropp : R -> R) (rdiv : R -> R -> R).
Fixpoint maxlead (e : expr R) : Z :=
  match e with
  | EVar _ | ENum _ | ESs _ => 0
  | EShift k e => Z.max 0 (k + maxlead e)
  | ENeg e | EPow e _ | EApp _ _ e => maxlead e
  | EAdd a b | ESub a b | EMul a b | EDiv a b => Z.max (maxlead a) (maxlead b)
  end.
Lemma maxlead_nonneg e : 0 <= maxlead e.
Proof. induction e; cbn [maxlead]; lia. Qed.

Theorem finite_horizon_window_lemma T ss ssi env e : forall t, t + maxlead e < T ->
  eval_td R rI radd rmul rsub ropp rdiv (Some T) ss ssi env e t = eval_td R rI radd rmul rsub ropp rdiv None ss ssi env e t.
Proof.
  induction e as [x|c|k e IH|e IH|e IH|a IHa b IHb|a IHa b IHb|a IHa b IHb|a IHa b IHb|a IHa n|g dg e IHg]; intros t Ht; cbn [SimpleBlk.eval_td maxlead] in *;
    try reflexivity.
  - pose proof (maxlead_nonneg e). destruct (t + k <? 0); [reflexivity|].
    replace (T <=? t + k) with false by lia. apply IH. lia.
  - rewrite IH by assumption. reflexivity.
  - rewrite IHa, IHb by lia. reflexivity.
  - rewrite IHa, IHb by lia. reflexivity.
  - rewrite IHa, IHb by lia. reflexivity.
  - rewrite IHa, IHb by lia. reflexivity.
  - rewrite IHa by assumption. reflexivity.
  - rewrite IHg by assumption. reflexivity.
Qed.
End Window.
