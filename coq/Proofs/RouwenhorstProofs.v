(** C17: for EVERY number of states, the Rouwenhorst matrix has unit row sums and conditional mean exactly
    (2p - 1) * state on the equally spaced symmetric grid -- the requested persistence -- in any commutative ring with a half. *)
From Coq Require Import ZArith Bool Lia ZifyBool List Ring Ring_theory InitialRing Setoid.
From SSJ Require Import Lib.Sums Model.Rouwenhorst.
Import ListNotations.
Open Scope Z_scope.

Section RwProofs.
Variable R : Type.
Variables (rO rI : R) (radd rmul rsub : R -> R -> R) (ropp : R -> R).
Variable Rth : ring_theory rO rI radd rmul rsub ropp eq.
Add Ring Rring2 : Rth.
Variables (p h : R).
Hypothesis half : radd h h = rI.
Infix "+r" := radd (at level 50, left associativity).
Infix "*r" := rmul (at level 40, left associativity).
Infix "-r" := rsub (at level 50, left associativity).
Notation q := (rsub rI p).
Notation rw := (rw R rO rI radd rmul rsub p h).
Notation zsum := (zsum_range rO radd).

Let zr : Z -> R := gen_phiZ rO rI radd rmul ropp.
Let zr_morph := gen_phiZ_morph (@Eqsth R) (@Eq_ext R radd rmul ropp) Rth.

Lemma zr_add a b : zr (a + b) = zr a +r zr b.  Proof. exact (morph_add zr_morph a b). Qed.
Lemma zr_sub a b : zr (a - b) = zr a -r zr b.  Proof. exact (morph_sub zr_morph a b). Qed.
Lemma zr_1 : zr 1 = rI.  Proof. exact (morph1 zr_morph). Qed.

Lemma rw_support m : forall i j, ~ (0 <= i < Z.of_nat m + 2 /\ 0 <= j < Z.of_nat m + 2) -> rw m i j = rO.
Proof.
  destruct m as [|m]; intros i j H; cbn [Rouwenhorst.rw]; unfold inr.
  - destruct ((0 <=? i) && (i <? 2) && ((0 <=? j) && (j <? 2))) eqn:E; [lia | reflexivity].
  - destruct ((0 <=? i) && (i <? Z.of_nat m + 2 + 1) && ((0 <=? j) && (j <? Z.of_nat m + 2 + 1))) eqn:E; [lia | reflexivity].
Qed.

Definition rowsum (m : nat) (i : Z) (w : Z -> R) : R := zsum 0 (Z.of_nat m + 2) (fun j => rw m i j *r w j).

Lemma rowsum_out m i w : ~ (0 <= i < Z.of_nat m + 2) -> rowsum m i w = rO.
Proof.
  intros H. unfold rowsum. apply (zsum_range_zero R rO rI radd rmul rsub ropp Rth). intros k Hk.
  rewrite rw_support by lia. ring.
Qed.

(** shifting a sum *)
Lemma zsum_from_shift d n : forall lo (f : Z -> R),
  zsum_from rO radd lo n (fun j => f (j + d)) = zsum_from rO radd (lo + d) n f.
Proof.
  induction n as [|n IH]; intros lo f; cbn [zsum_from]; [reflexivity|].
  rewrite IH. replace (lo + 1 + d) with (lo + d + 1) by lia. reflexivity.
Qed.

Lemma zsum_one a (f : Z -> R) : zsum a (a + 1) f = f a.
Proof. unfold zsum_range. replace (Z.to_nat (a + 1 - a)) with 1%nat by lia. cbn [zsum_from]. ring. Qed.

(** sum over 0..n of A(j) w(j) with A(n) = 0, and of A(j-1) w(j) with A(-1) = 0 *)
Lemma sum_drop_last n (A w : Z -> R) : 0 <= n -> A n = rO ->
  zsum 0 (n + 1) (fun j => A j *r w j) = zsum 0 n (fun j => A j *r w j).
Proof.
  intros Hn HA. rewrite (zsum_range_split R rO rI radd rmul rsub ropp Rth 0 n (n + 1)) by lia.
  rewrite zsum_one, HA. ring.
Qed.

Lemma sum_shift_in n (A w : Z -> R) : 0 <= n -> A (-1) = rO ->
  zsum 0 (n + 1) (fun j => A (j - 1) *r w j) = zsum 0 n (fun j => A j *r w (j + 1)).
Proof.
  intros Hn HA.
  transitivity (zsum (-1) n (fun j => A j *r w (j + 1))).
  - unfold zsum_range. replace (Z.to_nat (n + 1 - 0)) with (Z.to_nat (n - -1)) by lia.
    rewrite <- (zsum_from_shift (-1) _ 0 (fun j => A j *r w (j + 1))).
    apply (zsum_from_ext R rO radd). intros k Hk. replace (k + -1) with (k - 1) by lia. replace (k - 1 + 1) with k by lia. reflexivity.
  - rewrite (zsum_range_split R rO rI radd rmul rsub ropp Rth (-1) 0 n) by lia.
    change 0 with (-1 + 1) at 1. rewrite zsum_one, HA. ring.
Qed.

Definition cfac (m : nat) (i : Z) : R := if (0 <? i) && (i <? Z.of_nat m + 2) then h else rI.

(** one step of the recursion seen through weighted row sums *)
Lemma rowsum_step m i w : 0 <= i < Z.of_nat (S m) + 2 ->
  rowsum (S m) i w = cfac m i *r (p *r rowsum m i w +r q *r rowsum m i (fun j => w (j + 1))
                                 +r q *r rowsum m (i - 1) w +r p *r rowsum m (i - 1) (fun j => w (j + 1))).
Proof.
  intros Hi. unfold rowsum at 1. set (n := Z.of_nat m + 2). replace (Z.of_nat (S m) + 2) with (n + 1) in * by lia.
  transitivity (zsum 0 (n + 1) (fun j => cfac m i *r (p *r (rw m i j *r w j) +r q *r (rw m i (j - 1) *r w j)
                                                     +r q *r (rw m (i - 1) j *r w j) +r p *r (rw m (i - 1) (j - 1) *r w j)))).
  - apply (zsum_range_ext R rO radd). intros k Hk. cbn [Rouwenhorst.rw]. fold n. unfold inr, cfac. fold n.
    replace ((0 <=? i) && (i <? n + 1) && ((0 <=? k) && (k <? n + 1))) with true by lia.
    destruct ((0 <? i) && (i <? n)); ring.
  - rewrite (zsum_range_scale R rO rI radd rmul rsub ropp Rth). f_equal.
    rewrite !(zsum_range_add R rO rI radd rmul rsub ropp Rth), !(zsum_range_scale R rO rI radd rmul rsub ropp Rth).
    assert (Hn : 0 <= n) by lia.
    rewrite (sum_drop_last n (rw m i) w Hn) by (apply rw_support; lia).
    rewrite (sum_drop_last n (rw m (i - 1)) w Hn) by (apply rw_support; lia).
    rewrite (sum_shift_in n (rw m i) w Hn) by (apply rw_support; lia).
    rewrite (sum_shift_in n (rw m (i - 1)) w Hn) by (apply rw_support; lia).
    reflexivity.
Qed.

(** rows sum to one *)
Theorem rw_row_sum_lemma m : forall i, 0 <= i < Z.of_nat m + 2 -> rowsum m i (fun _ => rI) = rI.
Proof.
  induction m as [|m IH]; intros i Hi.
  - unfold rowsum. change (Z.of_nat 0 + 2) with 2.
    unfold zsum_range. change (Z.to_nat (2 - 0)) with 2%nat. cbn [zsum_from Rouwenhorst.rw]. unfold inr.
    assert (i = 0 \/ i = 1) as [-> | ->] by lia; cbn; ring.
  - rewrite rowsum_step by assumption. unfold cfac.
    destruct (Z.eq_dec i 0) as [->|Hi0].
    + replace ((0 <? 0) && (0 <? Z.of_nat m + 2)) with false by lia.
      rewrite !IH by lia. rewrite !rowsum_out by lia. ring.
    + destruct (Z.eq_dec i (Z.of_nat m + 2)) as [->|Hin].
      * replace ((0 <? Z.of_nat m + 2) && (Z.of_nat m + 2 <? Z.of_nat m + 2)) with false by lia.
        rewrite !(rowsum_out m (Z.of_nat m + 2)) by lia. rewrite !IH by lia. ring.
      * replace ((0 <? i) && (i <? Z.of_nat m + 2)) with true by lia.
        rewrite !IH by lia. transitivity ((h +r h) *r rI); [ring | rewrite half; ring].
Qed.

(** conditional mean on the grid s_n(j) = 2j - (n-1)  (linspace(-1,1,n) times n-1): E[s' | i] = (2p-1) s_n(i) *)
Definition score (m : nat) (j : Z) : R := zr (2 * j - (Z.of_nat m + 1)).

Lemma score_succ m j : score (S m) j = score m j -r rI.
Proof. unfold score. replace (2 * j - (Z.of_nat (S m) + 1)) with (2 * j - (Z.of_nat m + 1) - 1) by lia. rewrite zr_sub, zr_1. reflexivity. Qed.
Lemma score_succ' m j : score (S m) (j + 1) = score m j +r rI.
Proof. unfold score. replace (2 * (j + 1) - (Z.of_nat (S m) + 1)) with (2 * j - (Z.of_nat m + 1) + 1) by lia. rewrite zr_add, zr_1. reflexivity. Qed.

Lemma rowsum_ext m i w1 w2 : (forall j, w1 j = w2 j) -> rowsum m i w1 = rowsum m i w2.
Proof. intros H. unfold rowsum. apply (zsum_range_ext R rO radd). intros k _. rewrite H. reflexivity. Qed.

Lemma rowsum_plus m i w1 w2 : rowsum m i (fun j => w1 j +r w2 j) = rowsum m i w1 +r rowsum m i w2.
Proof.
  unfold rowsum. rewrite <- (zsum_range_add R rO rI radd rmul rsub ropp Rth). apply (zsum_range_ext R rO radd). intros k _. ring.
Qed.
Lemma rowsum_minus m i w1 w2 : rowsum m i (fun j => w1 j -r w2 j) = rowsum m i w1 -r rowsum m i w2.
Proof.
  assert (E : rowsum m i w1 = rowsum m i (fun j => (w1 j -r w2 j) +r w2 j)) by (apply rowsum_ext; intros; ring).
  rewrite E, rowsum_plus. ring.
Qed.

Theorem rw_cond_mean_lemma m : forall i, 0 <= i < Z.of_nat m + 2 -> rowsum m i (score m) = (p -r q) *r score m i.
Proof.
  induction m as [|m IH]; intros i Hi.
  - unfold rowsum. change (Z.of_nat 0 + 2) with 2.
    unfold zsum_range. change (Z.to_nat (2 - 0)) with 2%nat. cbn [zsum_from Rouwenhorst.rw]. unfold inr, score.
    change (2 * 0 - (Z.of_nat 0 + 1)) with (0 - 1). change (2 * (0 + 1) - (Z.of_nat 0 + 1)) with (0 + 1).
    assert (i = 0 \/ i = 1) as [-> | ->] by lia.
    + change (2 * 0 - (Z.of_nat 0 + 1)) with (0 - 1). rewrite zr_sub, zr_add, zr_1. cbn. change (zr 0) with rO. ring.
    + change (2 * 1 - (Z.of_nat 0 + 1)) with (0 + 1). rewrite zr_sub, zr_add, zr_1. cbn. change (zr 0) with rO. ring.
  - rewrite rowsum_step by assumption.
    (* weights of the new grid in terms of the old one *)
    assert (E1 : forall k, rowsum m k (score (S m)) = rowsum m k (score m) -r rowsum m k (fun _ => rI)).
    { intros k. rewrite <- rowsum_minus. apply rowsum_ext. intros j. apply score_succ. }
    assert (E2 : forall k, rowsum m k (fun j => score (S m) (j + 1)) = rowsum m k (score m) +r rowsum m k (fun _ => rI)).
    { intros k. rewrite <- rowsum_plus. apply rowsum_ext. intros j. apply score_succ'. }
    rewrite !E1, !E2. unfold cfac.
    destruct (Z.eq_dec i 0) as [->|Hi0].
    + replace ((0 <? 0) && (0 <? Z.of_nat m + 2)) with false by lia.
      rewrite !IH by lia. rewrite !rw_row_sum_lemma by lia. rewrite !rowsum_out by lia. rewrite score_succ. ring.
    + destruct (Z.eq_dec i (Z.of_nat m + 2)) as [->|Hin].
      * replace ((0 <? Z.of_nat m + 2) && (Z.of_nat m + 2 <? Z.of_nat m + 2)) with false by lia.
        rewrite !(rowsum_out m (Z.of_nat m + 2)) by lia. rewrite !IH by lia. rewrite !rw_row_sum_lemma by lia.
        replace (Z.of_nat m + 2) with ((Z.of_nat m + 2 - 1) + 1) at 3 by lia. rewrite score_succ'. ring.
      * replace ((0 <? i) && (i <? Z.of_nat m + 2)) with true by lia.
        rewrite !IH by lia. rewrite !rw_row_sum_lemma by lia.
        assert (Es : score m (i - 1) = score m i -r rI -r rI).
        { unfold score. replace (2 * (i - 1) - (Z.of_nat m + 1)) with (2 * i - (Z.of_nat m + 1) - 1 - 1) by lia. rewrite !zr_sub, zr_1. reflexivity. }
        rewrite Es, score_succ.
        transitivity ((h +r h) *r ((p -r q) *r (score m i -r rI))); [ring | rewrite half; ring].
Qed.
End RwProofs.
