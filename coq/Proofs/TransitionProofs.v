(** C08: mass conservation, adjointness, exact linearisation of the transitions. *)
From Coq Require Import ZArith Bool Lia ZifyBool List Ring.
From SSJ Require Import Lib.Sums Gen.Kernels Model.Transitions.
Import ListNotations.
Open Scope Z_scope.

(** ---------- weight level (translated kernel expressions; polynomial identities) ---------- *)
Ltac wsimp := unfold fwd1d_w, shock1d_w, exp1d, fwd2d_w, shock2d_w, exp2d;
  change (0 =? 0) with true; change (1 =? 0) with false; change (0 =? 1) with false; change (1 =? 1) with true; cbv [andb].
Lemma w1d_mass d p : fwd1d_w 0 0 d p + fwd1d_w 1 0 d p = d.
Proof. wsimp. ring. Qed.
Lemma w1d_adjoint d p X0 X1 : d * exp1d p X0 X1 = fwd1d_w 0 0 d p * X0 + fwd1d_w 1 0 d p * X1.
Proof. wsimp. ring. Qed.
Lemma w1d_shock_is_derivative d p dp h :
  fwd1d_w 0 0 d (p + h * dp) = fwd1d_w 0 0 d p + h * shock1d_w 0 0 d dp /\
  fwd1d_w 1 0 d (p + h * dp) = fwd1d_w 1 0 d p + h * shock1d_w 1 0 d dp.
Proof. wsimp. split; ring. Qed.
Lemma w1d_shock_mass d dp : shock1d_w 0 0 d dp + shock1d_w 1 0 d dp = 0.
Proof. wsimp. ring. Qed.

Lemma w2d_mass d x y : fwd2d_w 0 0 d x y + fwd2d_w 1 0 d x y + fwd2d_w 0 1 d x y + fwd2d_w 1 1 d x y = d.
Proof. wsimp. ring. Qed.
Lemma w2d_adjoint d x y X00 X10 X01 X11 :
  d * exp2d x y X00 X10 X01 X11 = fwd2d_w 0 0 d x y * X00 + fwd2d_w 1 0 d x y * X10 + fwd2d_w 0 1 d x y * X01 + fwd2d_w 1 1 d x y * X11.
Proof. wsimp. ring. Qed.
Lemma w2d_shock_is_derivative d x y dx dy h :
  fwd2d_w 0 0 d (x + h * dx) (y + h * dy) = fwd2d_w 0 0 d x y + h * shock2d_w 0 0 d x y dx dy + h * h * (d * dx * dy) /\
  fwd2d_w 1 0 d (x + h * dx) (y + h * dy) = fwd2d_w 1 0 d x y + h * shock2d_w 1 0 d x y dx dy - h * h * (d * dx * dy) /\
  fwd2d_w 0 1 d (x + h * dx) (y + h * dy) = fwd2d_w 0 1 d x y + h * shock2d_w 0 1 d x y dx dy - h * h * (d * dx * dy) /\
  fwd2d_w 1 1 d (x + h * dx) (y + h * dy) = fwd2d_w 1 1 d x y + h * shock2d_w 1 1 d x y dx dy + h * h * (d * dx * dy).
Proof. wsimp. repeat split; ring. Qed.
Lemma w2d_shock_mass d x y dx dy :
  shock2d_w 0 0 d x y dx dy + shock2d_w 1 0 d x y dx dy + shock2d_w 0 1 d x y dx dy + shock2d_w 1 1 d x y dx dy = 0.
Proof. wsimp. ring. Qed.
(** the policy mean is preserved: with grid spacing s between the bracketing points g0 and g0+s and pi = (g0+s-a)/s, i.e.
    pi*s = g0+s-a, the lottery puts mean a on the grid;  and the shock moves the mean by exactly -dpi*s*d = da*d *)
Lemma w1d_mean d p g0 s a : p * s = g0 + s - a -> fwd1d_w 0 0 d p * g0 + fwd1d_w 1 0 d p * (g0 + s) = d * a.
Proof. intros H. wsimp. replace (d * p * g0 + d * (1 - p) * (g0 + s)) with (d * (g0 + s) - d * (p * s)) by ring. rewrite H. ring. Qed.
Lemma w1d_shock_mean d dp g0 s : shock1d_w 0 0 d dp * g0 + shock1d_w 1 0 d dp * (g0 + s) = - (dp * s) * d.
Proof. wsimp. ring. Qed.

(** ---------- sum level: one row of the 1-D lottery ---------- *)
Local Notation zr_ext := (zsum_range_ext Z 0 Z.add).
Local Notation zr_add := (zsum_range_add Z 0 1 Z.add Z.mul Z.sub Z.opp Zth).
Local Notation zr_single := (zsum_range_single Z 0 1 Z.add Z.mul Z.sub Z.opp Zth).
Local Notation zr_swap := (zsum_range_swap Z 0 1 Z.add Z.mul Z.sub Z.opp Zth).
Local Notation zr_scale := (zsum_range_scale Z 0 1 Z.add Z.mul Z.sub Z.opp Zth).
Local Notation zr_zero := (zsum_range_zero Z 0 1 Z.add Z.mul Z.sub Z.opp Zth).

Lemma gather_term n idx (w0 w1 : Z -> Z) X ix : 0 <= idx ix -> idx ix + 1 < n ->
  zs 0 n (fun j => ((if idx ix =? j then w0 ix else 0) + (if idx ix + 1 =? j then w1 ix else 0)) * X j)
  = w0 ix * X (idx ix) + w1 ix * X (idx ix + 1).
Proof.
  intros H0 H1.
  rewrite (zr_ext 0 n _ (fun j => (if idx ix =? j then w0 ix * X j else 0) + (if idx ix + 1 =? j then w1 ix * X j else 0)))
    by (intros j Hj; destruct (idx ix =? j), (idx ix + 1 =? j); ring).
  rewrite zr_add.
  rewrite (zr_single 0 n _ (idx ix)) by (intros k Hk Hne; replace (idx ix =? k) with false by lia; reflexivity).
  rewrite (zr_single 0 n _ (idx ix + 1)) by (intros k Hk Hne; replace (idx ix + 1 =? k) with false by lia; reflexivity).
  replace ((0 <=? idx ix) && (idx ix <? n)) with true by lia. replace ((0 <=? idx ix + 1) && (idx ix + 1 <? n)) with true by lia.
  rewrite !Z.eqb_refl. reflexivity.
Qed.

Lemma scatter_gather n idx (w0 w1 : Z -> Z) X :
  (forall ix, 0 <= ix < n -> 0 <= idx ix /\ idx ix + 1 < n) ->
  zs 0 n (fun j => zs 0 n (fun ix => (if idx ix =? j then w0 ix else 0) + (if idx ix + 1 =? j then w1 ix else 0)) * X j)
  = zs 0 n (fun ix => w0 ix * X (idx ix) + w1 ix * X (idx ix + 1)).
Proof.
  intros Hidx.
  rewrite (zr_ext 0 n _ (fun j => zs 0 n (fun ix => ((if idx ix =? j then w0 ix else 0) + (if idx ix + 1 =? j then w1 ix else 0)) * X j))).
  2:{ intros j Hj. rewrite Z.mul_comm. rewrite <- zr_scale. apply zr_ext. intros; ring. }
  rewrite zr_swap. apply zr_ext. intros ix Hix. destruct (Hidx ix Hix). apply gather_term; assumption.
Qed.

(** <forward D, X> = <D, expectation X> for every D, X, pi (no sign or range restriction on the weights) *)
Theorem adjoint_1d_lemma n idx D pi X : (forall ix, 0 <= ix < n -> 0 <= idx ix /\ idx ix + 1 < n) ->
  zs 0 n (fun j => fwd_row n idx D pi j * X j) = zs 0 n (fun ix => D ix * exp_row idx pi X ix).
Proof.
  intros Hidx. unfold fwd_row. rewrite (scatter_gather n idx (fun ix => fwd1d_w 0 0 (D ix) (pi ix)) (fun ix => fwd1d_w 1 0 (D ix) (pi ix)) X Hidx).
  apply zr_ext. intros ix Hix. unfold exp_row. rewrite w1d_adjoint. reflexivity.
Qed.

Theorem forward_mass_1d_lemma n idx D pi : (forall ix, 0 <= ix < n -> 0 <= idx ix /\ idx ix + 1 < n) ->
  zs 0 n (fun j => fwd_row n idx D pi j) = zs 0 n D.
Proof.
  intros Hidx. pose proof (adjoint_1d_lemma n idx D pi (fun _ => 1) Hidx) as H.
  rewrite (zr_ext 0 n _ (fun j => fwd_row n idx D pi j * 1)) by (intros; ring). rewrite H.
  apply zr_ext. intros ix Hix. unfold exp_row, exp1d. ring.
Qed.

Theorem forward_shock_is_derivative_1d_lemma n idx D pi dpi h j :
  fwd_row n idx D (fun ix => pi ix + h * dpi ix) j = fwd_row n idx D pi j + h * shock_row n idx D dpi j.
Proof.
  unfold fwd_row, shock_row. rewrite <- zr_scale, <- zr_add. apply zr_ext. intros ix Hix.
  destruct (w1d_shock_is_derivative (D ix) (pi ix) (dpi ix) h) as [H0 H1]. rewrite H0, H1.
  destruct (idx ix =? j), (idx ix + 1 =? j); ring.
Qed.

Theorem forward_shock_mass_1d_lemma n idx D dpi : (forall ix, 0 <= ix < n -> 0 <= idx ix /\ idx ix + 1 < n) ->
  zs 0 n (fun j => shock_row n idx D dpi j) = 0.
Proof.
  intros Hidx. unfold shock_row.
  pose proof (scatter_gather n idx (fun ix => shock1d_w 0 0 (D ix) (dpi ix)) (fun ix => shock1d_w 1 0 (D ix) (dpi ix)) (fun _ => 1) Hidx) as H.
  rewrite (zr_ext 0 n _ (fun j => zs 0 n (fun ix => (if idx ix =? j then shock1d_w 0 0 (D ix) (dpi ix) else 0) + (if idx ix + 1 =? j then shock1d_w 1 0 (D ix) (dpi ix) else 0)) * 1))
    by (intros; ring).
  rewrite H. apply zr_zero. intros ix Hix. pose proof (w1d_shock_mass (D ix) (dpi ix)). lia.
Qed.

(** ---------- Markov step ---------- *)
Theorem markov_adjoint_lemma n Pi D X : zs 0 n (fun z' => mk_fwd n Pi D z' * X z') = zs 0 n (fun z => D z * mk_exp n Pi X z).
Proof.
  unfold mk_fwd, mk_exp.
  rewrite (zr_ext 0 n _ (fun z' => zs 0 n (fun z => Pi z z' * D z * X z'))) by (intros; rewrite Z.mul_comm, <- zr_scale; apply zr_ext; intros; ring).
  rewrite zr_swap. apply zr_ext. intros z Hz. rewrite <- zr_scale. apply zr_ext. intros; ring.
Qed.

Theorem markov_mass_lemma n Pi D : (forall z, 0 <= z < n -> zs 0 n (fun z' => Pi z z') = 1) ->
  zs 0 n (fun z' => mk_fwd n Pi D z') = zs 0 n D.
Proof.
  intros Hrow. pose proof (markov_adjoint_lemma n Pi D (fun _ => 1)) as H.
  rewrite (zr_ext 0 n _ (fun z' => mk_fwd n Pi D z' * 1)) by (intros; ring). rewrite H.
  apply zr_ext. intros z Hz. unfold mk_exp. rewrite (zr_ext 0 n _ (fun z' => Pi z z')) by (intros; ring). rewrite Hrow by assumption. ring.
Qed.

Theorem markov_shock_is_derivative_lemma n Pi dPi D X h z :
  mk_fwd n (fun a b => Pi a b + h * dPi a b) D z = mk_fwd n Pi D z + h * mk_fwd n dPi D z /\
  mk_exp n (fun a b => Pi a b + h * dPi a b) X z = mk_exp n Pi X z + h * mk_exp n dPi X z.
Proof. unfold mk_fwd, mk_exp. split; rewrite <- zr_scale, <- zr_add; apply zr_ext; intros; ring. Qed.

Theorem markov_shock_mass_lemma n dPi D : (forall z, 0 <= z < n -> zs 0 n (fun z' => dPi z z') = 0) ->
  zs 0 n (fun z' => mk_fwd n dPi D z') = 0.
Proof.
  intros Hrow. pose proof (markov_adjoint_lemma n dPi D (fun _ => 1)) as H.
  rewrite (zr_ext 0 n _ (fun z' => mk_fwd n dPi D z' * 1)) by (intros; ring). rewrite H.
  apply zr_zero. intros z Hz. unfold mk_exp. rewrite (zr_ext 0 n _ (fun z' => dPi z z')) by (intros; ring). rewrite Hrow by assumption. ring.
Qed.

(** ---------- combined transition: product rule with unshocked (None) stages skipped ---------- *)
Section CombinedProofs.
Variable V : Type.
Variables (v0 : V) (vadd : V -> V -> V).
Hypothesis vadd_0_l : forall x, vadd v0 x = x.
Hypothesis vadd_0_r : forall x, vadd x v0 = x.

Definition vden (x : option V) : V := match x with Some v => v | None => v0 end.
(** the reference: dD_k = A_k(dD_{k-1}) + s_k with absent shocks read as zero *)
Definition ref_step (acc : V) (st : (V -> V) * option V) : V := vadd (fst st acc) (vden (snd st)).

Theorem combined_shock_is_product_rule_lemma stages :
  (forall st, In st stages -> fst st v0 = v0) ->
  vden (combined_shock V vadd stages) = fold_left ref_step stages v0.
Proof.
  intros Hlin. unfold combined_shock.
  assert (G : forall acc, vden (fold_left (comb_step V vadd) stages acc) = fold_left ref_step stages (vden acc)).
  { induction stages as [|st l IH]; intros acc; cbn [fold_left]; [reflexivity|].
    rewrite IH by (intros s Hs; apply Hlin; right; assumption). f_equal.
    unfold comb_step, ref_step. destruct acc as [d|], (snd st) as [s|]; cbn [vden].
    - reflexivity.
    - rewrite vadd_0_r. reflexivity.
    - rewrite (Hlin st) by (left; reflexivity). rewrite vadd_0_l. reflexivity.
    - rewrite (Hlin st) by (left; reflexivity). rewrite vadd_0_l. reflexivity. }
  apply G.
Qed.
End CombinedProofs.
