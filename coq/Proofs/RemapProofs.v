From Coq Require Import List.
From SSJ Require Import Model.Remap.
Section RemapProofs.
Variables N V : Type.
(** the doubly remapped block behaves as the once-remapped block remapped again, and as the original with the
    composed renaming: renaming twice = renaming by the composition (new after old) *)
Theorem remap_compose_lemma (run : env N V -> env N V) m1 minv1 m2 minv2 e k :
  ext N V m2 minv2 (ext N V m1 minv1 run) e k
  = ext N V (fst (remap N m2 minv2 m1 minv1)) (snd (remap N m2 minv2 m1 minv1)) run e k.
Proof. reflexivity. Qed.

(** results are the original results with names substituted; inputs are read under the substituted names *)
Theorem remap_behaviour_lemma (run : env N V -> env N V) m minv e o :
  (forall x, minv (m x) = x) -> ext N V m minv run e (m o) = run (fun j => e (m j)) o.
Proof. intros H. unfold ext. rewrite H. reflexivity. Qed.

(** a renaming that is the identity on the names a block uses does not change it *)
Theorem remap_identity_lemma (run : env N V -> env N V) e k : ext N V (fun x => x) (fun x => x) run e k = run e k.
Proof. reflexivity. Qed.

(** interface: the renamed input/output lists are the images of the original lists *)
Theorem remap_interface_lemma (inputs : list N) (m1 m2 : N -> N) : map (fun j => m2 (m1 j)) inputs = map m2 (map m1 inputs).
Proof. rewrite map_map. reflexivity. Qed.
End RemapProofs.
