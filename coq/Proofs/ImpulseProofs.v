(** C04: the linear impulse of a model, accumulated block after block (CombinedBlock._impulse_linear), equals the model Jacobian (the forward accumulation of
    CombinedBlock._jacobian, the object of chain_rule_equations) applied to the shock -- in any operator algebra acting on any space of paths. *)
From Coq Require Import List Arith Bool.
From SSJ Require Import Model.Chain Proofs.ChainProofs.
Import ListNotations.

Section LinearImpulse.
Variables E V : Type.
Variables (e0 : E) (eadd emul : E -> E -> E).
Variables (v0 : V) (vadd : V -> V -> V) (act : E -> V -> V).
Hypothesis act_add : forall a b v, act (eadd a b) v = vadd (act a v) (act b v).
Hypothesis act_mul : forall a b v, act (emul a b) v = act a (act b v).
Hypothesis act_0 : forall v, act e0 v = v0.

(** impulses.update(block.impulse_linear(ss, impulses restricted to the block's inputs)): each output of the block gets the sum over the block's inputs of
    its Jacobian applied to that input's impulse (an unperturbed name carries the zero path) *)
Definition vsumf (f : nat -> V) (l : list nat) : V := fold_left (fun s m => vadd s (f m)) l v0.
Definition imp_step (dv : nat -> V) (b : cblock E) : nat -> V :=
  fun o => if inb o (c_outs E b) then vsumf (fun m => act (c_J E b o m) (dv m)) (c_ins E b) else dv o.
Definition impulse_acc (blocks : list (cblock E)) (init : nat -> V) : nat -> V := fold_left imp_step blocks init.

Lemma vsumf_is_act (J tot : nat -> E) (dv : nat -> V) shock l : (forall m, dv m = act (tot m) shock) ->
  vsumf (fun m => act (J m) (dv m)) l = act (esum E e0 eadd (fun m => emul (J m) (tot m)) l) shock.
Proof.
  intros H. unfold vsumf, esum.
  assert (G : forall l accv acce, accv = act acce shock ->
            fold_left (fun s m => vadd s (act (J m) (dv m))) l accv = act (fold_left (fun s m => eadd s (emul (J m) (tot m))) l acce) shock).
  { induction l0 as [|m l0 IH]; intros accv acce Hacc; cbn [fold_left]; [exact Hacc|].
    apply IH. rewrite act_add, act_mul, <- H, Hacc. reflexivity. }
  apply G. symmetry. apply act_0.
Qed.

Theorem linear_impulse_is_jacobian_applied_lemma shock : forall blocks (tot0 : nat -> E) (dv0 : nat -> V),
  (forall x, dv0 x = act (tot0 x) shock) ->
  forall x, impulse_acc blocks dv0 x = act (accumulate E e0 eadd emul blocks tot0 x) shock.
Proof.
  induction blocks as [|b bs IH]; intros tot0 dv0 H x; cbn [impulse_acc accumulate fold_left]; [apply H|].
  apply (IH (acc_step E e0 eadd emul tot0 b) (imp_step dv0 b)). intros y. unfold imp_step, acc_step.
  destruct (inb y (c_outs E b)); [apply vsumf_is_act; exact H | apply H].
Qed.

(** several shocked inputs: the accumulation is additive in the initial impulses *)
Hypothesis vadd_comm : forall a b, vadd a b = vadd b a.
Hypothesis vadd_assoc : forall a b c, vadd a (vadd b c) = vadd (vadd a b) c.
Hypothesis vadd_0_l : forall a, vadd v0 a = a.
Hypothesis act_vadd : forall a u w, act a (vadd u w) = vadd (act a u) (act a w).

Lemma vsumf_add (f g : nat -> V) l : vsumf (fun m => vadd (f m) (g m)) l = vadd (vsumf f l) (vsumf g l).
Proof.
  unfold vsumf.
  assert (G : forall l a b, fold_left (fun s m => vadd s (vadd (f m) (g m))) l (vadd a b) = vadd (fold_left (fun s m => vadd s (f m)) l a) (fold_left (fun s m => vadd s (g m)) l b)).
  { induction l0 as [|m l0 IH]; intros a b; cbn [fold_left]; [reflexivity|]. rewrite <- IH. f_equal.
    rewrite !vadd_assoc. f_equal. rewrite <- !vadd_assoc. f_equal. apply vadd_comm. }
  rewrite <- (vadd_0_l v0) at 1. apply G.
Qed.

Lemma vsumf_ext (f g : nat -> V) l : (forall m, In m l -> f m = g m) -> vsumf f l = vsumf g l.
Proof.
  unfold vsumf. generalize v0 as acc. induction l as [|m l IH]; intros acc H; cbn [fold_left]; [reflexivity|].
  rewrite (H m (or_introl eq_refl)). apply IH. intros k Hk. apply H. right; exact Hk.
Qed.
Lemma imp_step_ext d d' b : (forall x, d x = d' x) -> forall x, imp_step d b x = imp_step d' b x.
Proof. intros H x. unfold imp_step. destruct (inb x (c_outs E b)); [apply vsumf_ext; intros m _; rewrite H; reflexivity | apply H]. Qed.
Lemma impulse_acc_ext : forall blocks d d', (forall x, d x = d' x) -> forall x, impulse_acc blocks d x = impulse_acc blocks d' x.
Proof.
  induction blocks as [|b bs IH]; intros d d' H x; cbn [impulse_acc fold_left]; [apply H|].
  apply (IH (imp_step d b) (imp_step d' b)). apply imp_step_ext. exact H.
Qed.

Theorem impulse_additive_lemma : forall blocks (d1 d2 : nat -> V) x,
  impulse_acc blocks (fun y => vadd (d1 y) (d2 y)) x = vadd (impulse_acc blocks d1 x) (impulse_acc blocks d2 x).
Proof.
  induction blocks as [|b bs IH]; intros d1 d2 x; cbn [impulse_acc fold_left]; [reflexivity|].
  fold (impulse_acc bs (imp_step (fun y => vadd (d1 y) (d2 y)) b)). fold (impulse_acc bs (imp_step d1 b)). fold (impulse_acc bs (imp_step d2 b)).
  rewrite <- IH. apply impulse_acc_ext. intros y. unfold imp_step. destruct (inb y (c_outs E b)); [|reflexivity].
  rewrite <- vsumf_add. apply vsumf_ext. intros m _. apply act_vadd.
Qed.
End LinearImpulse.
