(** C05: the packed equation H_U X = -H_Z read block by block: every target's total response to every shock vanishes at every pair of dates. *)
From Coq Require Import ZArith QArith Qcanon Bool List Arith Lia Ring.
From SSJ Require Import Lib.Sums Model.Sparse Model.Chain Model.GET Proofs.GETProofs.
Import ListNotations.

Local Notation "x +q y" := (Qcplus x y) (at level 50, left associativity).
Local Notation "x *q y" := (Qcmult x y) (at level 40, left associativity).

Definition ment (M : dmat) (i j : nat) : Qc := nth j (nth i M []) g0.
Definition wshape (n : nat) (M : dmat) : Prop := length M = n /\ forall r, In r M -> length r = n.

Fixpoint nsum (n : nat) (f : nat -> Qc) : Qc := match n with O => g0 | S n' => f 0%nat +q nsum n' (fun k => f (S k)) end.

Lemma nsum_ext n : forall f g, (forall k, (k < n)%nat -> f k = g k) -> nsum n f = nsum n g.
Proof. induction n as [|n IH]; intros f g H; cbn; [reflexivity|]. rewrite H by lia. f_equal. apply IH. intros; apply H; lia. Qed.
Lemma nsum_split n : forall m f, nsum (n + m) f = nsum n f +q nsum m (fun k => f (n + k)%nat).
Proof.
  induction n as [|n IH]; intros m f; cbn [Nat.add nsum]; [unfold g0; ring_simplify; apply nsum_ext; reflexivity|].
  rewrite IH. unfold g0. ring_simplify. reflexivity.
Qed.
Lemma nsum_flatten a b f : nsum (a * b) f = nsum a (fun i => nsum b (fun j => f (i * b + j)%nat)).
Proof.
  revert f. induction a as [|a IH]; intros f; [reflexivity|].
  change (S a * b)%nat with (b + a * b)%nat. rewrite nsum_split. cbn [nsum]. f_equal.
  rewrite IH. apply nsum_ext. intros i _. apply nsum_ext. intros j _. f_equal. lia.
Qed.
Lemma nsum_all_zero m : forall f, (forall k, f k = g0) -> nsum m f = g0.
Proof. induction m as [|m IH]; intros f H; cbn; [reflexivity|]. rewrite H. rewrite IH by (intros; apply H). unfold g0; ring. Qed.
Lemma nsum_zero_tail n m f : (forall k, (n <= k)%nat -> f k = g0) -> nsum (n + m) f = nsum n f.
Proof. intros H. rewrite nsum_split. rewrite (nsum_all_zero m) by (intros; apply H; lia). unfold g0; ring. Qed.

(** dot products as index sums (out-of-range entries read as zero, as everywhere in the model) *)
Lemma fold_plus_acc l : forall a, fold_left Qcplus l a = a +q fold_left Qcplus l g0.
Proof. induction l as [|x l IH]; intros a; cbn; [unfold g0; ring|]. rewrite IH. rewrite (IH (g0 +q x)). unfold g0; ring. Qed.
Lemma dot_nsum r : forall c, dot r c = nsum (length r) (fun k => nth k r g0 *q nth k c g0).
Proof.
  unfold dot. induction r as [|x r IH]; intros c; [reflexivity|].
  destruct c as [|y c].
  - cbn [combine map fold_left]. symmetry. apply nsum_all_zero. intros k. destruct k; cbn; unfold g0; ring.
  - cbn [combine map fold_left fst snd length nsum nth]. rewrite fold_plus_acc. rewrite IH. unfold g0; ring.
Qed.

Lemma nth_col j X k : nth k (col j X) g0 = ment X k j.
Proof.
  unfold col, ment. destruct (Nat.lt_ge_cases k (length X)) as [H|H].
  - rewrite (nth_indep _ g0 (nth j [] g0)) by (rewrite map_length; exact H). rewrite (map_nth (fun r => nth j r g0)). reflexivity.
  - rewrite nth_overflow by (rewrite map_length; exact H). rewrite (nth_overflow X) by exact H. destruct j; reflexivity.
Qed.

Lemma ment_mmul A X i j : (i < length A)%nat -> (j < ncols X)%nat ->
  ment (mmul A X) i j = nsum (length (nth i A [])) (fun k => ment A i k *q ment X k j).
Proof.
  intros Hi Hj. unfold ment at 1, mmul.
  rewrite (nth_indep _ [] ((fun r => map (fun j0 => dot r (col j0 X)) (seq 0 (ncols X))) [])) by (rewrite map_length; exact Hi).
  rewrite (map_nth (fun r => map (fun j0 => dot r (col j0 X)) (seq 0 (ncols X)))).
  rewrite nth_map_seq by exact Hj. rewrite dot_nsum. apply nsum_ext. intros k _. rewrite nth_col. reflexivity.
Qed.

(** lists cut into chunks of equal length *)
Lemma nth_flat_map_chunks {A B} (g : A -> list B) n (l : list A) (d : B) (d0 : A) : (forall a, In a l -> length (g a) = n) ->
  forall i t, (i < length l)%nat -> (t < n)%nat -> nth (i * n + t) (flat_map g l) d = nth t (g (nth i l d0)) d.
Proof.
  intros Hn. induction l as [|a l IH]; intros i t Hi Ht; [cbn in Hi; lia|]. cbn [flat_map].
  destruct i as [|i].
  - cbn [Nat.mul Nat.add nth]. rewrite app_nth1 by (rewrite Hn by (left; reflexivity); exact Ht). reflexivity.
  - rewrite app_nth2 by (rewrite Hn by (left; reflexivity); cbn; lia). rewrite Hn by (left; reflexivity).
    replace (S i * n + t - n)%nat with (i * n + t)%nat by (cbn; lia). cbn [nth]. apply IH; [intros; apply Hn; right; assumption | cbn in Hi; lia | exact Ht].
Qed.
Lemma length_flat_map_chunks {A B} (g : A -> list B) n (l : list A) : (forall a, In a l -> length (g a) = n) -> length (flat_map g l) = (length l * n)%nat.
Proof. intros Hn. induction l as [|a l IH]; cbn; [reflexivity|]. rewrite app_length, Hn by (left; reflexivity). rewrite IH by (intros; apply Hn; right; assumption). lia. Qed.

Lemma nth_firstn_lt {A} n (l : list A) k d : (k < n)%nat -> nth k (firstn n l) d = nth k l d.
Proof. revert l k. induction n as [|n IH]; intros l k H; [lia|]. destruct l as [|x l]; [destruct k; reflexivity|]. destruct k as [|k]; cbn; [reflexivity | apply IH; lia]. Qed.
Lemma nth_skipn_add {A} m (l : list A) k d : nth k (skipn m l) d = nth (m + k) l d.
Proof. revert l. induction m as [|m IH]; intros l; [reflexivity|]. destruct l as [|x l]; [cbn; destruct k; reflexivity | cbn; apply IH]. Qed.

Lemma ment_block_of T X ui zi k s : (k < Z.to_nat T)%nat -> (s < Z.to_nat T)%nat ->
  ment (block_of T X ui zi) k s = ment X (ui * Z.to_nat T + k) (zi * Z.to_nat T + s).
Proof.
  intros Hk Hs. unfold ment, block_of. set (n := Z.to_nat T) in *.
  assert (Hnil : (fun r : list Qc => firstn n (skipn (zi * n) r)) [] = []) by (cbn; rewrite skipn_nil; apply firstn_nil).
  rewrite <- Hnil at 1. rewrite (map_nth (fun r : list Qc => firstn n (skipn (zi * n) r))).
  rewrite nth_firstn_lt by exact Hs. rewrite nth_skipn_add. rewrite nth_firstn_lt by exact Hk. rewrite nth_skipn_add. reflexivity.
Qed.

Lemma ment_pack T rows cols (f : nat -> nat -> dmat) ri ci t s : (forall r c, wshape (Z.to_nat T) (f r c)) ->
  (ri < length rows)%nat -> (ci < length cols)%nat -> (t < Z.to_nat T)%nat -> (s < Z.to_nat T)%nat ->
  ment (pack T rows cols f) (ri * Z.to_nat T + t) (ci * Z.to_nat T + s) = ment (f (nth ri rows 0%nat) (nth ci cols 0%nat)) t s.
Proof.
  intros Hw Hri Hci Ht Hs. unfold ment, pack. set (n := Z.to_nat T) in *.
  rewrite (nth_flat_map_chunks _ n rows [] 0%nat) by (try (intros; rewrite map_length, seq_length; reflexivity); assumption).
  rewrite nth_map_seq by exact Ht.
  rewrite (nth_flat_map_chunks (fun Bk : dmat => nth t Bk []) n (map (f (nth ri rows 0%nat)) cols) g0 []); try assumption.
  - rewrite (nth_indep _ [] (f (nth ri rows 0%nat) 0%nat)) by (rewrite map_length; exact Hci). rewrite map_nth. reflexivity.
  - intros Bk HB. apply in_map_iff in HB. destruct HB as [c [<- _]]. destruct (Hw (nth ri rows 0%nat) c) as [L R]. apply R. apply nth_In. rewrite L. exact Ht.
  - rewrite map_length. exact Hci.
Qed.
Lemma pack_row_length T rows cols (f : nat -> nat -> dmat) ri t : (forall r c, wshape (Z.to_nat T) (f r c)) ->
  (ri < length rows)%nat -> (t < Z.to_nat T)%nat -> length (nth (ri * Z.to_nat T + t) (pack T rows cols f) []) = (length cols * Z.to_nat T)%nat.
Proof.
  intros Hw Hri Ht. unfold pack. set (n := Z.to_nat T) in *.
  rewrite (nth_flat_map_chunks _ n rows [] 0%nat) by (try (intros; rewrite map_length, seq_length; reflexivity); assumption).
  rewrite nth_map_seq by exact Ht. rewrite (length_flat_map_chunks _ n); [rewrite map_length; reflexivity|].
  intros Bk HB. apply in_map_iff in HB. destruct HB as [c [<- _]]. destruct (Hw (nth ri rows 0%nat) c) as [L R]. apply R. apply nth_In. rewrite L. exact Ht.
Qed.
Lemma pack_length T rows cols (f : nat -> nat -> dmat) : length (pack T rows cols f) = (length rows * Z.to_nat T)%nat.
Proof. unfold pack. apply length_flat_map_chunks. intros; rewrite map_length, seq_length; reflexivity. Qed.

Lemma ment_mopp M i j : ment (mopp M) i j = Qcopp (ment M i j).
Proof.
  unfold ment, mopp.
  assert (E : forall (r : list Qc) k, nth k (map Qcopp r) g0 = Qcopp (nth k r g0)).
  { intros r k. destruct (Nat.lt_ge_cases k (length r)) as [H|H].
    - rewrite (nth_indep _ g0 (Qcopp g0)) by (rewrite map_length; exact H). apply map_nth.
    - rewrite (nth_overflow (map Qcopp r)) by (rewrite map_length; exact H). rewrite (nth_overflow r) by exact H. unfold g0; ring. }
  destruct (Nat.lt_ge_cases i (length M)) as [H|H].
  - rewrite (nth_indep _ [] (map Qcopp [])) by (rewrite map_length; exact H). rewrite (map_nth (map Qcopp)). apply E.
  - rewrite (nth_overflow (map (map Qcopp) M)) by (rewrite map_length; exact H). rewrite (nth_overflow M) by exact H. destruct j; cbn; unfold g0; ring.
Qed.

Definition HUblk (T : Z) (N : nat) blocks (U Tg : list nat) (a u : nat) : dmat :=
  to_dense T (nth u (map (totE T N blocks) U) (fun _ => ezero) (nth a Tg 0%nat)).

Theorem ge_blockwise_lemma T N blocks U Tg Zs X :
  mmul (ge_HU T N blocks U Tg) X = mopp (ge_HZ T N blocks Zs Tg) ->
  (forall a u, wshape (Z.to_nat T) (HUblk T N blocks U Tg a u)) -> (forall a z, wshape (Z.to_nat T) (HUblk T N blocks Zs Tg a z)) ->
  forall a z t s, (a < length Tg)%nat -> (z < length Zs)%nat -> (t < Z.to_nat T)%nat -> (s < Z.to_nat T)%nat ->
  nsum (length U) (fun u => nsum (Z.to_nat T) (fun k => ment (HUblk T N blocks U Tg a u) t k *q ment (block_of T X u z) k s))
  = Qcopp (ment (HUblk T N blocks Zs Tg a z) t s).
Proof.
  intros Heq HwU HwZ a z t s Ha Hz Ht Hs.
  assert (Hrow : ment (mmul (ge_HU T N blocks U Tg) X) (a * Z.to_nat T + t) (z * Z.to_nat T + s) = ment (mopp (ge_HZ T N blocks Zs Tg)) (a * Z.to_nat T + t) (z * Z.to_nat T + s)) by (rewrite Heq; reflexivity).
  assert (HiU : (a * Z.to_nat T + t < length (ge_HU T N blocks U Tg))%nat).
  { unfold ge_HU. rewrite pack_length, seq_length. nia. }
  (* number of columns of X from the equation *)
  assert (Hnc : ncols X = (length Zs * Z.to_nat T)%nat).
  { assert (L : length (nth (a * Z.to_nat T + t) (mmul (ge_HU T N blocks U Tg) X) []) = length (nth (a * Z.to_nat T + t) (mopp (ge_HZ T N blocks Zs Tg)) [])) by (rewrite Heq; reflexivity).
    unfold mmul in L at 1. rewrite (nth_indep _ [] ((fun r => map (fun j0 => dot r (col j0 X)) (seq 0 (ncols X))) [])) in L by (rewrite map_length; exact HiU).
    rewrite (map_nth (fun r => map (fun j0 => dot r (col j0 X)) (seq 0 (ncols X)))) in L. rewrite map_length, seq_length in L. rewrite L.
    unfold mopp. assert (HiZ : (a * Z.to_nat T + t < length (ge_HZ T N blocks Zs Tg))%nat) by (unfold ge_HZ; rewrite pack_length, seq_length; nia).
    rewrite (nth_indep _ [] (map Qcopp [])) by (rewrite map_length; exact HiZ). rewrite (map_nth (map Qcopp)). rewrite map_length.
    unfold ge_HZ. rewrite pack_row_length; [rewrite seq_length; reflexivity | exact HwZ | rewrite seq_length; exact Ha | exact Ht]. }
  rewrite ment_mmul in Hrow by (try exact HiU; rewrite Hnc; nia).
  rewrite ment_mopp in Hrow.
  unfold ge_HU in Hrow at 1. rewrite pack_row_length in Hrow; [|exact HwU | rewrite seq_length; exact Ha | exact Ht]. rewrite seq_length in Hrow.
  rewrite nsum_flatten in Hrow.
  unfold ge_HZ in Hrow. rewrite ment_pack in Hrow; [|exact HwZ | rewrite seq_length; exact Ha | rewrite seq_length; exact Hz | exact Ht | exact Hs].
  rewrite !seq_nth in Hrow by assumption. cbn [Nat.add] in Hrow.
  unfold HUblk. rewrite <- Hrow. apply nsum_ext. intros u Hu. apply nsum_ext. intros k Hk. f_equal.
  - unfold ge_HU. rewrite ment_pack; [|exact HwU | rewrite seq_length; exact Ha | rewrite seq_length; exact Hu | exact Ht | exact Hk].
    rewrite !seq_nth by assumption. reflexivity.
  - apply ment_block_of; assumption.
Qed.

Lemma wshape_tab T f : (0 <= T)%Z -> wshape (Z.to_nat T) (tab T f).
Proof.
  intros HT. unfold tab, tabulate. split; [rewrite map_length, seq_length; reflexivity|].
  intros r Hr. apply in_map_iff in Hr. destruct Hr as [t [<- _]]. rewrite map_length, seq_length. reflexivity.
Qed.
