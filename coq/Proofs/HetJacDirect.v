(** The executable fake-news instance of the fixture household (Model/HetJac.v) satisfies EVERY hypothesis of the abstract theorem
    fake_news_is_direct_recursion, hence equals the direct sequence-space computation (backward pass from the shock date, forward pass of the
    distribution) of the same linearised system, for every shock date and response date. *)
From Coq Require Import ZArith QArith Qcanon Bool List Arith Lia.
From SSJ Require Import Lib.Sums Model.HetLoop Model.HetPath Model.FakeNews Model.HetJac Proofs.HetPathProofs Proofs.HetJacProofs Proofs.FakeNewsProofs.
Import ListNotations.

Local Notation "x +q y" := (Qcplus x y) (at level 50, left associativity).
Local Notation "x *q y" := (Qcmult x y) (at level 40, left associativity).

(** arrays of the right shape *)
Definition shaped (nz na : nat) (X : arr) : Prop := length X = nz /\ forall r, In r X -> length r = na.
(** the sum of two distribution perturbations, entry by entry on the nz x na state space *)
Definition vsum (nz na : nat) (A B : arr) : arr := tabulate2 nz na (fun z a => ent A z a +q ent B z a).

Lemma nth_map_lt {A B} (g : A -> B) l d d' k : (k < length l)%nat -> nth k (map g l) d = g (nth k l d').
Proof. intros H. rewrite (nth_indep _ d (g d')) by (rewrite map_length; exact H). apply map_nth. Qed.

Lemma shaped_tabulate2 nz na f : shaped nz na (tabulate2 nz na f).
Proof.
  unfold shaped, tabulate2. split; [rewrite map_length, seq_length; reflexivity|].
  intros r Hr. apply in_map_iff in Hr. destruct Hr as [z [<- _]]. rewrite map_length, seq_length. reflexivity.
Qed.
Lemma shaped_row nz na X z : shaped nz na X -> (z < nz)%nat -> length (row X z) = na.
Proof. intros [HL HR] Hz. unfold row. apply HR. apply nth_In. rewrite HL. exact Hz. Qed.
Lemma shaped_amap nz na f X : shaped nz na X -> shaped nz na (amap f X).
Proof.
  intros [HL HR]. unfold shaped, amap. split; [rewrite map_length; exact HL|].
  intros r Hr. apply in_map_iff in Hr. destruct Hr as [r0 [<- Hr0]]. rewrite map_length. apply HR. exact Hr0.
Qed.
Lemma ent_amap nz na f X z a : shaped nz na X -> (z < nz)%nat -> (a < na)%nat -> ent (amap f X) z a = f (ent X z a).
Proof.
  intros HS Hz Ha. pose proof (shaped_row nz na X z HS Hz) as HRl. destruct HS as [HL HR]. unfold ent, row, amap in *.
  rewrite (nth_map_lt (map f) X [] [] z) by (rewrite HL; exact Hz).
  apply nth_map_lt. rewrite HRl. exact Ha.
Qed.
Lemma ent_amap2 nz na f A B z a : shaped nz na A -> shaped nz na B -> (z < nz)%nat -> (a < na)%nat ->
  ent (amap2 f A B) z a = f (ent A z a) (ent B z a).
Proof.
  intros HA HB Hz Ha. pose proof (shaped_row nz na A z HA Hz) as HAr. pose proof (shaped_row nz na B z HB Hz) as HBr.
  destruct HA as [HAl _]. destruct HB as [HBl _]. unfold ent, row, amap2 in *.
  rewrite (nth_map_lt _ (combine A B) [] ([], []) z) by (rewrite combine_length, HAl, HBl; lia).
  rewrite combine_nth by lia. cbn [fst snd].
  rewrite (nth_map_lt _ (combine (nth z A []) (nth z B [])) h0 (h0, h0) a) by (rewrite combine_length, HAr, HBr; lia).
  rewrite combine_nth by lia. reflexivity.
Qed.
Lemma shaped_lottery_forward nz na g pol D : shaped nz na (lottery_forward nz na g pol D).
Proof.
  unfold shaped, lottery_forward. split; [rewrite map_length, seq_length; reflexivity|].
  intros r Hr. apply in_map_iff in Hr. destruct Hr as [z [<- _]]. unfold lottery_row. rewrite map_length, seq_length. reflexivity.
Qed.

Lemma mass_amap2_add nz na A B : shaped nz na A -> shaped nz na B -> mass nz na (aadd A B) = mass nz na A +q mass nz na B.
Proof.
  intros HA HB. unfold mass, aadd. rewrite <- hsum_add. apply hsum_ext. intros z Hz. rewrite <- hsum_add. apply hsum_ext. intros a Ha.
  apply (ent_amap2 nz na); assumption.
Qed.

Section Instance.
Variables (nz na : nat) (agrid egrid : list Qc) (Pi_ss : arr) (kappa : Qc) (ssin : toy_in) (ssV ssa ssc ssPi Dbeg : arr) (h : Qc) (twosided : bool)
  (which : nat) (out_c : bool).
Hypothesis Hg : length agrid = na.
Hypothesis Hna : (2 <= na)%nat.
Hypothesis Hnz : (1 <= nz)%nat.
Hypothesis HPi : stochastic nz ssPi.

Definition Lfwd (v : arr) : arr := lottery_forward nz na agrid ssa (mk_forward nz na ssPi v).
Definition ZMass (v : arr) : Prop := mass nz na v = h0.

Lemma pair_vsum w a b : jpair nz na w (vsum nz na a b) = jpair nz na w a +q jpair nz na w b.
Proof.
  unfold jpair, aggregate, vsum. rewrite <- hsum_add. apply hsum_ext. intros z Hz. rewrite <- hsum_add. apply hsum_ext. intros x Hx.
  rewrite ent_tabulate2 by assumption. ring.
Qed.
Lemma pair_zero w : jpair nz na w (azero nz na) = h0.
Proof.
  unfold jpair, aggregate, azero. apply hsum_zero. intros z Hz. apply hsum_zero. intros x Hx. rewrite ent_tabulate2 by assumption. unfold h0; ring.
Qed.
Lemma L_keeps_zero_mass v : ZMass v -> ZMass (Lfwd v).
Proof. unfold ZMass, Lfwd. intros H. rewrite mass_lottery by assumption. rewrite mass_mk_forward by exact HPi. exact H. Qed.

Lemma demean_invisible w v : shaped nz na w -> ZMass v -> jpair nz na (ademean nz na w) v = jpair nz na w v.
Proof.
  intros HS HZ. unfold jpair, aggregate, ademean. set (m := Qcdiv _ _).
  rewrite (hsum_ext nz _ (fun z => hsum na (fun a => ent v z a *q ent w z a) +q (Qcopp m) *q hsum na (fun a => ent v z a))).
  2:{ intros z Hz. rewrite <- hsum_scale, <- hsum_add. apply hsum_ext. intros a Ha. rewrite (ent_amap nz na _ w z a HS Hz Ha). ring. }
  rewrite hsum_add, hsum_scale. unfold ZMass, mass in HZ. rewrite HZ. unfold h0; ring.
Qed.

Lemma jd0_zero_mass : ZMass (jd0 nz na agrid egrid Pi_ss kappa ssin ssV ssa ssPi Dbeg h twosided which).
Proof.
  unfold ZMass, jd0. destruct (shifted which).
  - rewrite mass_amap2_add; [| apply shaped_lottery_forward | apply shaped_tabulate2].
    rewrite mass_lottery by assumption.
    rewrite markov_shock_zero_mass_lemma by (intros z Hz; apply dPi_rows_zero; assumption).
    rewrite lottery_shock_zero_mass_lemma by assumption. unfold h0; ring.
  - apply lottery_shock_zero_mass_lemma; assumption.
Qed.
Lemma jgD_zero_mass cv : ZMass (jgD nz na agrid egrid Pi_ss kappa ssin ssV ssa ssPi Dbeg h twosided cv).
Proof. unfold ZMass, jgD. apply lottery_shock_zero_mass_lemma; assumption. Qed.

Theorem toy_fake_news_is_direct_lemma t s :
  fake_news_J Qc arr arr arr Qcplus (jpair nz na) (jEx nz na agrid ssa ssPi) (ademean nz na)
    (jw0 nz na ssa ssc ssPi out_c)
    (jV0 nz na agrid egrid Pi_ss kappa ssin ssV ssPi h twosided which)
    (jd0 nz na agrid egrid Pi_ss kappa ssin ssV ssa ssPi Dbeg h twosided which)
    (jy0 nz na agrid egrid Pi_ss kappa ssin ssV ssa ssc ssPi Dbeg h twosided which out_c)
    (jbV nz na agrid egrid Pi_ss kappa ssin ssV ssPi h twosided)
    (jgD nz na agrid egrid Pi_ss kappa ssin ssV ssa ssPi Dbeg h twosided)
    (jgY nz na agrid egrid Pi_ss kappa ssin ssV ssPi Dbeg h twosided out_c) t s
  = direct_J Qc arr arr arr Qcplus (azero nz na) (vsum nz na) (jpair nz na) Lfwd
    (jw0 nz na ssa ssc ssPi out_c)
    (jV0 nz na agrid egrid Pi_ss kappa ssin ssV ssPi h twosided which)
    (jd0 nz na agrid egrid Pi_ss kappa ssin ssV ssa ssPi Dbeg h twosided which)
    (jy0 nz na agrid egrid Pi_ss kappa ssin ssV ssa ssc ssPi Dbeg h twosided which out_c)
    (jbV nz na agrid egrid Pi_ss kappa ssin ssV ssPi h twosided)
    (jgD nz na agrid egrid Pi_ss kappa ssin ssV ssa ssPi Dbeg h twosided)
    (jgY nz na agrid egrid Pi_ss kappa ssin ssV ssPi Dbeg h twosided out_c) t s.
Proof.
  apply (fake_news_is_direct_recursion_lemma Qc arr arr arr h0 Qcplus) with (ZM := ZMass) (WF := shaped nz na).
  - intros; ring.
  - intros; ring.
  - intros; unfold h0; ring.
  - exact pair_vsum.
  - exact pair_zero.
  - intros w v. unfold Lfwd. symmetry. apply forward_expectation_adjoint_lemma; assumption.
  - exact L_keeps_zero_mass.
  - intros w _. unfold jEx, mk_expect. apply shaped_tabulate2.
  - intros w Hw. unfold ademean. apply shaped_amap. exact Hw.
  - exact demean_invisible.
  - unfold jw0, mk_expect. apply shaped_tabulate2.
  - exact jd0_zero_mass.
  - exact jgD_zero_mass.
Qed.
End Instance.
