(** C03.3-6: the dict algorithms of SimpleSparse denote operator sum/negation/scaling/transpose/product,
    and the dense routines compute window products and sums.  Everything is proved for an arbitrary
    commutative ring of coefficients. *)
From Coq Require Import ZArith Bool Lia ZifyBool List Ring.
From SSJ Require Import Lib.PySlice Lib.Sums Model.Shift Model.Sparse Gen.MultiplyBasis Gen.SparseIndex Proofs.ShiftProofs.
Import ListNotations.
Open Scope Z_scope.

Lemma small_multiple c z w : 0 < c -> c * z = w -> - c < w < c -> z = 0.
Proof. intros Hc Hz Hw. destruct (Z_lt_le_dec z 0); [nia|]. destruct (Z_lt_le_dec 0 z); [nia|lia]. Qed.

Lemma mul_nonneg_cancel q c : 0 < c -> 0 <= q * c -> 0 <= q.
Proof. intros. nia. Qed.

Lemma mul_lt_cancel x y c : 0 <= c -> x * c < y * c -> x < y.
Proof. intros. nia. Qed.

Set Default Timeout 20.
Section SparseProofs.
Variable R : Type.
Variables (rO rI : R) (radd rmul rsub : R -> R -> R) (ropp : R -> R).
Variable Rth : ring_theory rO rI radd rmul rsub ropp eq.
Add Ring RringSP : Rth.
Variable tiny : R -> bool.
Hypothesis tiny_zero : forall x, tiny x = true -> x = rO.

Infix "+r" := radd (at level 50, left associativity).
Infix "*r" := rmul (at level 40, left associativity).
Notation sp := (sp R).
Notation sden := (sden R rO rI radd rmul).
Notation bden := (bden R rO rI).
Notation acc := (acc R radd tiny).
Notation sp_add := (sp_add R radd tiny).
Notation sp_neg := (sp_neg R ropp).
Notation sp_scale := (sp_scale R rmul).
Notation sp_sub := (sp_sub R radd ropp tiny).
Notation sp_rsub := (sp_rsub R radd ropp tiny).
Notation sp_T := (sp_T R).
Notation sp_mul := (sp_mul R radd rmul tiny).
Notation sp_matmul_dense := (sp_matmul_dense R rO radd rmul).
Notation dense_matmul_sp := (dense_matmul_sp R rO radd rmul).
Notation sp_add_dense := (sp_add_dense R rO radd).
Notation sp_matrix := (sp_matrix R rO radd).
Notation wf := (wf R).
Notation lsum := (lsum rO radd).
Notation zsum_range := (zsum_range rO radd).
Let zr_zero := zsum_range_zero R rO rI radd rmul rsub ropp Rth.
Let zr_ext := zsum_range_ext R rO radd.
Let zr_add := zsum_range_add R rO rI radd rmul rsub ropp Rth.
Let zr_single := zsum_range_single R rO rI radd rmul rsub ropp Rth.

Lemma sden_nil t s : sden [] t s = rO.
Proof. reflexivity. Qed.

Lemma sden_cons k y S t s : sden ((k, y) :: S) t s = y *r bden k t s +r sden S t s.
Proof. reflexivity. Qed.

Lemma sden_acc del k x S t s : sden (acc del k x S) t s = sden S t s +r x *r bden k t s.
Proof.
  induction S as [|[k' y] S IH]; cbn [Sparse.acc].
  - rewrite sden_cons, sden_nil. ring.
  - destruct (keyeqb k k') eqn:Ek.
    + apply keyeqb_eq in Ek; subst k'.
      destruct (del && tiny (y +r x)) eqn:Ed.
      * apply andb_true_iff in Ed; destruct Ed as [_ Ed]. apply tiny_zero in Ed.
        rewrite sden_cons.
        replace (y *r bden k t s +r sden S t s +r x *r bden k t s)
          with ((y +r x) *r bden k t s +r sden S t s) by ring.
        rewrite Ed. ring.
      * rewrite !sden_cons. ring.
    + rewrite !sden_cons, IH. ring.
Qed.

Lemma wf_acc del k x S : 0 <= snd k -> wf S -> wf (acc del k x S).
Proof.
  intros Hk. induction S as [|[k' y] S IH]; intros HS; cbn [Sparse.acc].
  - intros k0 x0 [H|[]]; inversion H; subst; assumption.
  - assert (HS' : wf S) by (intros k0 x0 Hin; apply (HS k0 x0); right; assumption).
    destruct (keyeqb k k') eqn:Ek.
    + destruct (del && tiny (y +r x)); [assumption|].
      intros k0 x0 [H|H]; [inversion H; subst; apply (HS k0 y); left; reflexivity | apply (HS' k0 x0 H)].
    + intros k0 x0 [H|H]; [inversion H; subst; apply (HS k0 x0); left; reflexivity | apply (IH HS' k0 x0 H)].
Qed.

(** sum *)
Lemma sden_add A B t s : sden (sp_add A B) t s = sden A t s +r sden B t s.
Proof.
  unfold Sparse.sp_add. revert A. induction B as [|[k x] B IH]; intros A; cbn [fold_left fst snd].
  - rewrite sden_nil; ring.
  - rewrite IH, sden_acc, sden_cons. ring.
Qed.

Lemma sden_neg A t s : sden (sp_neg A) t s = ropp (sden A t s).
Proof.
  induction A as [|[k x] A IH]; cbn [Sparse.sp_neg map fst snd].
  - rewrite sden_nil; ring.
  - rewrite !sden_cons. fold (sp_neg A). rewrite IH. ring.
Qed.

Lemma sden_scale a A t s : sden (sp_scale a A) t s = a *r sden A t s.
Proof.
  induction A as [|[k x] A IH]; cbn [Sparse.sp_scale map fst snd].
  - rewrite sden_nil; ring.
  - rewrite !sden_cons. fold (sp_scale a A). rewrite IH. ring.
Qed.

Lemma sden_sub A B t s : sden (sp_sub A B) t s = rsub (sden A t s) (sden B t s).
Proof. unfold Sparse.sp_sub. rewrite sden_add, sden_neg. ring. Qed.

Lemma sden_rsub A B t s : sden (sp_rsub A B) t s = rsub (sden B t s) (sden A t s).
Proof. unfold Sparse.sp_rsub. rewrite sden_add, sden_neg. ring. Qed.

Lemma bden_transpose k t s : bden (transpose_key k) t s = bden k s t.
Proof. unfold Sparse.bden. rewrite transpose_den. reflexivity. Qed.

Lemma sden_T A t s : sden (sp_T A) t s = sden A s t.
Proof.
  induction A as [|[k x] A IH]; cbn [Sparse.sp_T map fst snd].
  - reflexivity.
  - rewrite !sden_cons. fold (sp_T A). rewrite IH, bden_transpose. reflexivity.
Qed.

Lemma wf_T A : wf A -> wf (sp_T A).
Proof.
  intros H k x Hin. unfold Sparse.sp_T in Hin. apply in_map_iff in Hin. destruct Hin as [[k' x'] [Heq Hin]].
  cbn [fst snd] in Heq. inversion Heq; subst. rewrite transpose_wf. apply (H k' x Hin).
Qed.

(** product of a sparse operator with an arbitrary operator: row t of A has entries only at columns t+i *)
Definition sp_apply (A : sp) (B : Z -> Z -> R) (t u : Z) : R :=
  lsum (fun kx => snd kx *r (if den (fst kx) t (t + fst (fst kx)) then B (t + fst (fst kx)) u else rO)) A.

Lemma bden_product i m j n t u : 0 <= m -> 0 <= n ->
  bden (multiply_basis (i, m) (j, n)) t u = if den (i, m) t (t + i) then bden (j, n) (t + i) u else rO.
Proof.
  intros Hm Hn. unfold Sparse.bden. rewrite basis_product_lemma by assumption.
  destruct (den (i, m) t (t + i)); reflexivity.
Qed.

Lemma sden_mul_inner im x B E t u : 0 <= snd im -> wf B ->
  sden (fold_left (fun E jny => acc false (multiply_basis im (fst jny)) (x *r snd jny) E) B E) t u
  = sden E t u +r x *r (if den im t (t + fst im) then sden B (t + fst im) u else rO).
Proof.
  intros Him. revert E. induction B as [|[jn y] B IH]; intros E HB; cbn [fold_left fst snd].
  - rewrite sden_nil. destruct (den im t (t + fst im)); ring.
  - assert (HB' : wf B) by (intros k0 x0 Hin; apply (HB k0 x0); right; assumption).
    assert (Hn : 0 <= snd jn) by (apply (HB jn y); left; reflexivity).
    rewrite IH by assumption. rewrite sden_acc.
    destruct im as [i m], jn as [j n]. cbn [fst snd] in *.
    rewrite bden_product by assumption. rewrite sden_cons.
    destruct (den (i, m) t (t + i)); ring.
Qed.

Lemma sden_mul_outer A B E t u : wf A -> wf B ->
  sden (fold_left (fun E imx =>
          fold_left (fun E jny => acc false (multiply_basis (fst imx) (fst jny)) (snd imx *r snd jny) E) B E) A E) t u
  = sden E t u +r sp_apply A (sden B) t u.
Proof.
  revert E. induction A as [|[im x] A IH]; intros E HA HB; cbn [fold_left fst snd].
  - unfold sp_apply; cbn. ring.
  - assert (HA' : wf A) by (intros k0 x0 Hin; apply (HA k0 x0); right; assumption).
    rewrite IH by assumption. rewrite sden_mul_inner by (try assumption; apply (HA im x); left; reflexivity).
    unfold sp_apply, Sums.lsum; cbn [fold_right fst snd]. ring.
Qed.

(** product of two sparse operators *)
Lemma sden_mul A B t u : wf A -> wf B -> sden (sp_mul A B) t u = sp_apply A (sden B) t u.
Proof. intros HA HB. unfold Sparse.sp_mul. rewrite sden_mul_outer by assumption. rewrite sden_nil. ring. Qed.

Lemma wf_mul_inner im x B E : 0 <= snd im -> wf B -> wf E ->
  wf (fold_left (fun E jny => acc false (multiply_basis im (fst jny)) (x *r snd jny) E) B E).
Proof.
  intros Him. revert E. induction B as [|[jn y] B IH]; intros E HB HE; cbn [fold_left fst snd]; [assumption|].
  apply IH.
  - intros k0 x0 Hin; apply (HB k0 x0); right; assumption.
  - apply wf_acc; [|assumption]. destruct im as [i m], jn as [j n].
    apply multiply_basis_wf; [assumption | apply (HB (j, n) y); left; reflexivity].
Qed.

Lemma wf_mul A B : wf A -> wf B -> wf (sp_mul A B).
Proof.
  intros HA HB. unfold Sparse.sp_mul. assert (HE : wf []) by (intros ? ? []).
  revert HE. generalize (@nil ((Z * Z) * R)). induction A as [|[im x] A IH]; intros E HE; cbn [fold_left fst snd]; [assumption|].
  apply IH.
  - intros k0 x0 Hin; apply (HA k0 x0); right; assumption.
  - apply wf_mul_inner; try assumption. apply (HA im x); left; reflexivity.
Qed.

(** [sp_apply] *is* the ordinary matrix product: any window that contains the non-zero columns of row t gives it *)
Lemma sp_apply_is_matrix_product A B t u N : wf A ->
  (forall k x, In (k, x) A -> t + fst k < N) ->
  zsum_range 0 N (fun s => sden A t s *r B s u) = sp_apply A B t u.
Proof.
  intros HA HN. unfold sp_apply.
  induction A as [|[[i m] x] A IH].
  - cbn [Sums.lsum fold_right]. apply zr_zero. intros; rewrite sden_nil; ring.
  - assert (HA' : wf A) by (intros k0 x0 Hin; apply (HA k0 x0); right; assumption).
    assert (Hm : 0 <= m) by (apply (HA (i, m) x); left; reflexivity).
    assert (Hi : t + i < N) by (apply (HN (i, m) x); left; reflexivity).
    rewrite (zr_ext 0 N _ (fun s => (x *r bden (i, m) t s *r B s u) +r (sden A t s *r B s u)))
      by (intros; rewrite sden_cons; ring).
    rewrite zr_add. rewrite IH by (try assumption; intros k0 x0 Hin; apply (HN k0 x0); right; assumption).
    unfold Sums.lsum at 2; cbn [fold_right fst snd]. fold (lsum (fun kx => snd kx *r (if den (fst kx) t (t + fst (fst kx)) then B (t + fst (fst kx)) u else rO)) A).
    f_equal.
    rewrite (zr_single 0 N _ (t + i)).
    + unfold Sparse.bden. destruct (den (i, m) t (t + i)) eqn:Ed.
      * apply den_nonneg in Ed; [|assumption]. replace ((0 <=? t + i) && (t + i <? N)) with true by lia. ring.
      * destruct ((0 <=? t + i) && (t + i <? N)); ring.
    + intros k Hk Hne. unfold Sparse.bden. destruct (den (i, m) t k) eqn:Ed; [|ring].
      apply den_single_column in Ed. cbn [fst] in Ed. lia.
Qed.

(** ------------------------------------------------------------------------------------------ *)
(** multiply_rs_matrix (translated loop bounds) *)

Lemma rs_dst_id i t : rs_dst i t = t.
Proof. unfold rs_dst. split_ifs; reflexivity. Qed.

Lemma rs_src_shift i t : rs_src i t = t + i.
Proof. unfold rs_src. split_ifs; lia. Qed.

Lemma rs_range_spec T i m t : 0 <= m -> 0 <= t < T ->
  (rs_lo T i m <=? t) && (t <? rs_hi T i m) = den (i, m) t (t + i) && (0 <=? t + i) && (t + i <? T).
Proof. intros Hm Ht. unfold rs_lo, rs_hi. split_ifs; cbv [den]; lia. Qed.

Lemma rs_reads_safe T i m t' : 0 <= m -> rs_lo T i m <= t' < rs_hi T i m ->
  0 <= rs_src i t' < T /\ 0 <= rs_dst i t' < T.
Proof. intros Hm. unfold rs_lo, rs_hi, rs_src, rs_dst. split_ifs; lia. Qed.

Lemma sp_matmul_dense_den T A M t s : wf A -> 0 <= t < T ->
  sp_matmul_dense T A M t s = zsum_range 0 T (fun k => sden A t k *r M k s).
Proof.
  intros HA Ht. unfold Sparse.sp_matmul_dense.
  induction A as [|[[i m] x] A IH].
  - cbn [Sums.lsum fold_right]. symmetry. apply zr_zero. intros; rewrite sden_nil; ring.
  - assert (HA' : wf A) by (intros k0 x0 Hin; apply (HA k0 x0); right; assumption).
    assert (Hm : 0 <= m) by (apply (HA (i, m) x); left; reflexivity).
    rewrite (zr_ext 0 T _ (fun k => (x *r bden (i, m) t k *r M k s) +r (sden A t k *r M k s)))
      by (intros; rewrite sden_cons; ring).
    rewrite zr_add. rewrite <- IH by assumption.
    unfold Sums.lsum at 1; cbn [fold_right fst snd]. f_equal.
    rewrite (zr_single _ _ _ t).
    2:{ intros k Hk Hne. rewrite rs_dst_id. replace (k =? t) with false by lia. reflexivity. }
    rewrite (zr_single 0 T _ (t + i)).
    2:{ intros k Hk Hne. unfold Sparse.bden. destruct (den (i, m) t k) eqn:Ed; [|ring].
        apply den_single_column in Ed. cbn [fst] in Ed. lia. }
    rewrite rs_range_spec by assumption. rewrite rs_dst_id, rs_src_shift, Z.eqb_refl.
    unfold Sparse.bden. destruct (den (i, m) t (t + i)), (0 <=? t + i), (t + i <? T); cbn [andb]; ring.
Qed.

Lemma dense_matmul_sp_den T M A t s : wf A -> 0 <= s < T ->
  dense_matmul_sp T M A t s = zsum_range 0 T (fun k => M t k *r sden A k s).
Proof.
  intros HA Hs. unfold Sparse.dense_matmul_sp. rewrite sp_matmul_dense_den by (try assumption; apply wf_T; assumption).
  apply zr_ext. intros k Hk. rewrite sden_T. ring.
Qed.

(** ------------------------------------------------------------------------------------------ *)
(** dense addition by flat slicing (translated slice triples, Python slice semantics) *)

Lemma dense_add_slice_spec T i m t s : 0 <= m -> 0 <= t < T -> 0 <= s < T ->
  in_slice (T * T) (dense_add_start T i m) (dense_add_stop T i m) (dense_add_step T i m) (t * T + s)
  = den (i, m) t s.
Proof.
  intros Hm Ht Hs.
  unfold dense_add_start, dense_add_stop, dense_add_step, in_slice, slice_lo, slice_hi, adj_index.
  destruct (i <? 0) eqn:Ei.
  - (* below the diagonal *)
    set (a := T * - i + (T + 1) * m).
    assert (Ha0 : a <? 0 = false) by (unfold a; nia). rewrite Ha0.
    cbv [den].
    destruct ((s =? t + i) && (m <=? Z.min t s)) eqn:Ed.
    + assert (Hs' : s = t + i) by lia. assert (Hms : m <= s) by lia.
      assert (Hpa : t * T + s - a = (s - m) * (T + 1)) by (unfold a; subst s; ring).
      assert (Hale : a <= t * T + s) by nia.
      assert (Hplt : t * T + s < T * T) by nia.
      replace (Z.min a (T * T)) with a by lia.
      rewrite Hpa, Z.mod_mul by lia. lia.
    + destruct ((Z.min a (T * T) <=? t * T + s) && (t * T + s <? T * T) && ((t * T + s - Z.min a (T * T)) mod (T + 1) =? 0)) eqn:El; [|reflexivity].
      exfalso.
      assert (Hale : Z.min a (T * T) <= t * T + s) by lia.
      assert (Hplt : t * T + s < T * T) by lia.
      assert (Hmin : Z.min a (T * T) = a) by lia. rewrite Hmin in *.
      assert (Hmod : (t * T + s - a) mod (T + 1) = 0) by lia.
      apply Z.mod_divide in Hmod; [|lia]. destruct Hmod as [q Hq].
      assert (Hq0 : 0 <= q) by (apply (mul_nonneg_cancel q (T + 1)); lia).
      unfold a in *. clear El Hmin.
      (* (T+1) (t + i - m - q) = t + i - s, and |t + i - s| < T + 1 *)
      assert (Hti : 0 <= t + i).
      { assert (- i * T < (t + 1) * T) by nia. apply mul_lt_cancel in H; lia. }
      assert (Hkey : (T + 1) * (t + i - m - q) = t + i - s) by lia.
      assert (Hz : t + i - m - q = 0) by (apply (small_multiple (T + 1) _ (t + i - s)); lia).
      lia.
  - (* on or above the diagonal *)
    set (a := i + (T + 1) * m).
    set (b := Z.max (T - i) 0 * T).
    assert (Ha0 : a <? 0 = false) by (unfold a; nia). rewrite Ha0.
    assert (Hb0 : b <? 0 = false) by (unfold b; nia). rewrite Hb0.
    cbv [den].
    destruct ((s =? t + i) && (m <=? Z.min t s)) eqn:Ed.
    + assert (Hs' : s = t + i) by lia. assert (Hmt : m <= t) by lia.
      assert (Hpa : t * T + s - a = (t - m) * (T + 1)) by (unfold a; subst s; ring).
      assert (HiT : i < T) by lia.
      assert (Hb : b = (T - i) * T) by (unfold b; rewrite Z.max_l by lia; reflexivity).
      assert (Hale : a <= t * T + s) by nia.
      assert (Hplt : t * T + s < b) by nia.
      assert (Hplt2 : t * T + s < T * T) by nia.
      replace (Z.min a (T * T)) with a by lia.
      rewrite Hpa, Z.mod_mul by lia. lia.
    + destruct ((Z.min a (T * T) <=? t * T + s) && (t * T + s <? Z.min b (T * T)) && ((t * T + s - Z.min a (T * T)) mod (T + 1) =? 0)) eqn:El; [|reflexivity].
      exfalso.
      assert (Hale : Z.min a (T * T) <= t * T + s) by lia.
      assert (Hplt : t * T + s < b) by lia.
      assert (Hplt2 : t * T + s < T * T) by nia.
      assert (HiT : i < T) by (unfold b in Hplt; nia).
      assert (Hb : b = (T - i) * T) by (unfold b; rewrite Z.max_l by lia; reflexivity).
      assert (Hmin : Z.min a (T * T) = a) by lia. rewrite Hmin in *.
      assert (Hmod : (t * T + s - a) mod (T + 1) = 0) by lia.
      apply Z.mod_divide in Hmod; [|lia]. destruct Hmod as [q Hq].
      assert (Hq0 : 0 <= q) by (apply (mul_nonneg_cancel q (T + 1)); lia).
      unfold a in *. clear El Hmin.
      assert (Hti : t + i < T).
      { assert (t * T < (T - i) * T) by lia. apply mul_lt_cancel in H; lia. }
      assert (Hkey : (T + 1) * (t - m - q) = t + i - s) by lia.
      assert (Hz : t - m - q = 0) by (apply (small_multiple (T + 1) _ (t + i - s)); lia).
      lia.
Qed.

Lemma sp_add_dense_den T A M t s : wf A -> 0 <= t < T -> 0 <= s < T ->
  sp_add_dense T A M t s = M t s +r sden A t s.
Proof.
  intros HA Ht Hs. unfold Sparse.sp_add_dense. f_equal.
  induction A as [|[[i m] x] A IH]; [reflexivity|].
  assert (HA' : wf A) by (intros k0 x0 Hin; apply (HA k0 x0); right; assumption).
  assert (Hm : 0 <= m) by (apply (HA (i, m) x); left; reflexivity).
  rewrite sden_cons, <- IH by assumption.
  unfold Sums.lsum at 1; cbn [fold_right fst snd]. f_equal.
  rewrite dense_add_slice_spec by assumption. unfold Sparse.bden. destruct (den (i, m) t s); ring.
Qed.

Lemma sp_matrix_den T A t s : wf A -> 0 <= t < T -> 0 <= s < T -> sp_matrix T A t s = sden A t s.
Proof. intros. unfold Sparse.sp_matrix. rewrite sp_add_dense_den by assumption. ring. Qed.

Lemma identity_den t s :
  sden (identity_sp R rI) t s = if (s =? t) && (0 <=? t) then rI else rO.
Proof.
  unfold Sparse.identity_sp. rewrite sden_cons, sden_nil. unfold Sparse.bden. cbv [den].
  replace ((s =? t + 0) && (0 <=? Z.min t s)) with ((s =? t) && (0 <=? t)) by lia.
  destruct ((s =? t) && (0 <=? t)); ring.
Qed.

End SparseProofs.
