(** C20: exit contracts of the Newton/Broyden loops; censoring keeps evaluation points inside the bounds. *)
From Coq Require Import ZArith Bool Lia ZifyBool List.
From SSJ Require Import Gen.Solvers Model.RootFind.
Open Scope Z_scope.

Section SolverProofs.
Variables X Y J : Type.
Variable f : X -> option Y.
Variable small : Y -> bool.
Variable obtainJ : X -> Y -> J.
Variable direction : J -> Y -> X.
Variable xadd : X -> X -> X.
Variable shrink : X -> X.
Variable accept : J -> X -> Y -> Y -> nat -> bool.
Variable updJ : bool -> J -> X -> Y -> Y -> J.
Notation backtrack := (backtrack X Y J f xadd shrink accept).
Notation solve_loop := (solve_loop X Y J f small obtainJ direction xadd shrink accept updJ).

(** an accepted step is a point at which the residual was really evaluated; rejected/raising trials change nothing *)
Lemma backtrack_sound b : forall bc x y Jm dx x' y' dx', backtrack b bc x y Jm dx = Some (x', y', dx') -> f x' = Some y' /\ x' = xadd x dx'.
Proof.
  induction b as [|b IH]; intros bc x y Jm dx x' y' dx' H; cbn in H; [discriminate|].
  destruct (f (xadd x dx)) as [ynew|] eqn:E.
  - destruct (accept Jm dx y ynew bc); [inversion H; subst; split; [assumption|reflexivity] | eapply IH; eassumption].
  - eapply IH; eassumption.
Qed.

(** exit contract: whatever is returned is a point together with ITS residual, and the residual passed the
    tolerance test; otherwise the outcome is one of the two error values *)
Theorem solver_exit_contract_lemma broyden B fuel : forall first x y Jm x' y',
  f x = Some y -> solve_loop broyden B fuel first x y Jm = Returned X Y x' y' -> f x' = Some y' /\ small y' = true.
Proof.
  induction fuel as [|k IH]; intros first x y Jm x' y' Hinv H; cbn [RootFind.solve_loop] in H; [discriminate|].
  destruct (small y) eqn:Es.
  - inversion H; subst. split; assumption.
  - destruct (backtrack B 0 x y _ _) as [[[x1 y1] dx1]|] eqn:Eb; [|discriminate].
    apply backtrack_sound in Eb. destruct Eb as [Hf _]. eapply IH; [exact Hf | exact H].
Qed.
End SolverProofs.

(** censoring (translated np.where rules): the wrapped residual is evaluated only at censored points *)
Theorem censor_within_bounds_lemma x lb ub eps : lb <= ub ->
  lb <= censor_closed x lb ub eps <= ub /\
  (0 <= eps <= ub - lb -> lb <= censor_open x lb ub eps <= ub) /\
  (lb <= x <= ub -> censor_closed x lb ub eps = x /\ censor_open x lb ub eps = x).
Proof. intros H. unfold censor_closed, censor_open. destruct (x >? ub) eqn:E1, (x <? lb) eqn:E2; repeat split; intros; lia. Qed.

(** the hypothesis eps <= ub - lb is necessary: a bracket narrower than the boundary epsilon is left (finding D12) *)
Theorem censor_open_refuted : exists x lb ub eps, lb < ub /\ 0 < eps /\ ~ (lb <= censor_open x lb ub eps <= ub).
Proof. exists (-1), 0, 5, 10. unfold censor_open. change (-1 >? 5) with false. change (-1 <? 0) with true. cbv iota. lia. Qed.
