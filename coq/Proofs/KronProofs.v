(** C10: dimension-by-dimension Markov transitions equal the Kronecker-product transition on the flattened state. *)
From Coq Require Import ZArith Bool List Lia Ring.
From SSJ Require Import Lib.Sums Model.Transitions Model.Kron.
Import ListNotations.
Open Scope Z_scope.

Local Notation zr_ext := (zsum_range_ext Z 0 Z.add).
Local Notation zr_add := (zsum_range_add Z 0 1 Z.add Z.mul Z.sub Z.opp Zth).
Local Notation zr_swap := (zsum_range_swap Z 0 1 Z.add Z.mul Z.sub Z.opp Zth).
Local Notation zr_scale := (zsum_range_scale Z 0 1 Z.add Z.mul Z.sub Z.opp Zth).
Local Notation zr_split := (zsum_range_split Z 0 1 Z.add Z.mul Z.sub Z.opp Zth).
Local Notation zr_zero := (zsum_range_zero Z 0 1 Z.add Z.mul Z.sub Z.opp Zth).

Lemma zs_shift lo hi d f : zs (lo + d) (hi + d) f = zs lo hi (fun k => f (k + d)).
Proof.
  unfold zsum_range. replace (hi + d - (lo + d)) with (hi - lo) by lia. generalize (Z.to_nat (hi - lo)) as n. intros n. revert lo.
  induction n as [|n IH]; intros lo; cbn [zsum_from]; [reflexivity|]. f_equal. replace (lo + d + 1) with (lo + 1 + d) by lia. apply IH.
Qed.

Lemma zs_one lo f : zs lo (lo + 1) f = f lo.
Proof. unfold zsum_range. replace (lo + 1 - lo) with 1 by lia. change (Z.to_nat 1) with 1%nat. cbn [zsum_from]. ring. Qed.

(** sum over a flattened index = double sum *)
Lemma zs_flatten n1 n2 f : 0 <= n1 -> 0 <= n2 -> zs 0 (n1 * n2) f = zs 0 n1 (fun a => zs 0 n2 (fun b => f (a * n2 + b))).
Proof.
  intros H1 H2. rewrite <- (Z2Nat.id n1 H1). generalize (Z.to_nat n1) as k. clear H1 n1.
  induction k as [|k IH].
  - cbn. reflexivity.
  - rewrite Nat2Z.inj_succ. unfold Z.succ.
    rewrite (zr_split 0 (Z.of_nat k * n2) ((Z.of_nat k + 1) * n2)) by nia.
    rewrite (zr_split 0 (Z.of_nat k) (Z.of_nat k + 1)) by lia.
    rewrite IH. f_equal.
    replace (zs (Z.of_nat k) (Z.of_nat k + 1) (fun a => zs 0 n2 (fun b => f (a * n2 + b)))) with (zs 0 n2 (fun b => f (Z.of_nat k * n2 + b))).
    2:{ rewrite zs_one. reflexivity. }
    replace ((Z.of_nat k + 1) * n2) with (0 + n2 + Z.of_nat k * n2) by ring.
    replace (Z.of_nat k * n2) with (0 + Z.of_nat k * n2) at 1 by ring.
    rewrite zs_shift. apply zr_ext. intros b _. f_equal. ring.
Qed.

Lemma flat_div a b n2 : 0 <= b < n2 -> (a * n2 + b) / n2 = a.
Proof. intros H. rewrite Z.add_comm, Z.div_add by lia. rewrite Z.div_small by lia. lia. Qed.
Lemma flat_mod a b n2 : 0 <= b < n2 -> (a * n2 + b) mod n2 = b.
Proof. intros H. rewrite Z.add_comm, Z.mod_add by lia. apply Z.mod_small; lia. Qed.

Theorem kron_forward_lemma n1 n2 Pi1 Pi2 D z1' z2' : 0 <= n1 -> 0 <= z2' < n2 ->
  fwd_kron n1 n2 Pi1 Pi2 D (z1' * n2 + z2') = fwd_seq n1 n2 Pi1 Pi2 D z1' z2'.
Proof.
  intros H1 H2. unfold fwd_kron, mk_fwd, fwd_seq, fwd_dim1, fwd_dim0.
  rewrite zs_flatten by lia.
  rewrite (zr_ext 0 n1 _ (fun a => zs 0 n2 (fun b => Pi2 b z2' * (Pi1 a z1' * D a b)))).
  2:{ intros a _. apply zr_ext. intros b Hb. unfold kron, flat. rewrite !flat_div, !flat_mod by lia. ring. }
  rewrite zr_swap. apply zr_ext. intros b _. rewrite <- zr_scale. reflexivity.
Qed.

Theorem kron_expectation_lemma n1 n2 Pi1 Pi2 X z1 z2 : 0 <= n1 -> 0 <= z2 < n2 ->
  exp_kron n1 n2 Pi1 Pi2 X (z1 * n2 + z2) = exp_seq n1 n2 Pi1 Pi2 X z1 z2.
Proof.
  intros H1 H2. unfold exp_kron, mk_exp, exp_seq, exp_dim0, exp_dim1.
  rewrite zs_flatten by lia. apply zr_ext. intros a _. rewrite <- zr_scale. apply zr_ext. intros b Hb.
  unfold kron, flat. rewrite !flat_div, !flat_mod by lia. ring.
Qed.

(** the order in which independent dimensions are applied does not matter *)
Theorem dims_commute_lemma n1 n2 Pi1 Pi2 D z1 z2 :
  fwd_dim1 n2 Pi2 (fwd_dim0 n1 Pi1 D) z1 z2 = fwd_dim0 n1 Pi1 (fwd_dim1 n2 Pi2 D) z1 z2 /\
  exp_dim0 n1 Pi1 (exp_dim1 n2 Pi2 D) z1 z2 = exp_dim1 n2 Pi2 (exp_dim0 n1 Pi1 D) z1 z2.
Proof.
  unfold fwd_dim0, fwd_dim1, exp_dim0, exp_dim1. split.
  - rewrite (zr_ext 0 n2 _ (fun b => zs 0 n1 (fun a => Pi2 b z2 * (Pi1 a z1 * D a b)))) by (intros; rewrite <- zr_scale; reflexivity).
    rewrite zr_swap. apply zr_ext. intros a _. rewrite <- zr_scale. apply zr_ext. intros; ring.
  - rewrite (zr_ext 0 n1 _ (fun a => zs 0 n2 (fun b => Pi1 z1 a * (Pi2 z2 b * D a b)))) by (intros; rewrite <- zr_scale; reflexivity).
    rewrite zr_swap. apply zr_ext. intros b _. rewrite <- zr_scale. apply zr_ext. intros; ring.
Qed.

(** the Kronecker product of row-stochastic matrices is row-stochastic *)
Theorem kron_stochastic_lemma n1 n2 Pi1 Pi2 : 0 <= n1 -> 0 <= n2 ->
  (forall a, 0 <= a < n1 -> zs 0 n1 (Pi1 a) = 1) -> (forall b, 0 <= b < n2 -> zs 0 n2 (Pi2 b) = 1) ->
  forall a b, 0 <= a < n1 -> 0 <= b < n2 -> zs 0 (n1 * n2) (kron n2 Pi1 Pi2 (a * n2 + b)) = 1.
Proof.
  intros H1 H2 Hs1 Hs2 a b Ha Hb. rewrite zs_flatten by lia.
  rewrite (zr_ext 0 n1 _ (fun a' => Pi1 a a' * zs 0 n2 (Pi2 b))).
  2:{ intros a' _. rewrite <- zr_scale. apply zr_ext. intros b' Hb'. unfold kron. rewrite !flat_div, !flat_mod by lia. reflexivity. }
  rewrite Hs2 by lia. rewrite (zr_ext 0 n1 _ (Pi1 a)) by (intros; ring). apply Hs1; lia.
Qed.

(** the product of stationary distributions is stationary for the dimension-by-dimension transition (hence, by kron_forward_lemma, for the Kronecker
    product on the flattened state): both formulations have the same steady-state exogenous distribution *)
Theorem product_stationary_lemma n1 n2 Pi1 Pi2 (p1 p2 : Z -> Z) :
  (forall z1', zs 0 n1 (fun z1 => Pi1 z1 z1' * p1 z1) = p1 z1') -> (forall z2', zs 0 n2 (fun z2 => Pi2 z2 z2' * p2 z2) = p2 z2') ->
  forall z1' z2', fwd_seq n1 n2 Pi1 Pi2 (fun a b => p1 a * p2 b) z1' z2' = p1 z1' * p2 z2'.
Proof.
  intros H1 H2 z1' z2'. unfold fwd_seq, fwd_dim1, fwd_dim0.
  rewrite (zr_ext 0 n2 _ (fun b => p1 z1' * (Pi2 b z2' * p2 b))).
  2:{ intros b _. rewrite (zr_ext 0 n1 _ (fun a => p2 b * (Pi1 a z1' * p1 a))) by (intros; ring). rewrite zr_scale, H1. ring. }
  rewrite zr_scale, H2. reflexivity.
Qed.
