(** C03.1-2: the translated composition rules are the true product of basis operators. *)
From Coq Require Import ZArith Bool Lia ZifyBool.
From SSJ Require Import Model.Shift Gen.MultiplyBasis Gen.ComputeL Gen.SparseIndex.
Open Scope Z_scope.

Ltac split_ifs :=
  repeat match goal with
         | |- context [if ?b then _ else _] => let E := fresh "E" in destruct b eqn:E
         end.

(** Row t of E(i,m) has its only non-zero entry in column t+i, so the (t,u) entry of the product
    E(i,m) E(j,n) is  den(i,m) t (t+i) * den(j,n) (t+i) u. *)
Lemma basis_product_lemma i m j n t u : 0 <= m -> 0 <= n ->
  den (multiply_basis (i, m) (j, n)) t u = den (i, m) t (t + i) && den (j, n) (t + i) u.
Proof.
  intros Hm Hn. unfold multiply_basis. split_ifs; cbv [den]; lia.
Qed.

Lemma den_single_column k t s : den k t s = true -> s = t + fst k.
Proof. destruct k as [i m]; cbv [den fst]; lia. Qed.

Lemma den_nonneg k t s : 0 <= snd k -> den k t s = true -> 0 <= t /\ 0 <= s.
Proof. destruct k as [i m]; cbv [den snd]; lia. Qed.

Lemma multiply_basis_wf i m j n : 0 <= m -> 0 <= n -> 0 <= snd (multiply_basis (i, m) (j, n)).
Proof. intros Hm Hn. unfold multiply_basis. split_ifs; cbv [snd]; lia. Qed.

Lemma multiply_basis_fst i m j n : fst (multiply_basis (i, m) (j, n)) = i + j.
Proof. unfold multiply_basis. split_ifs; reflexivity. Qed.

(** the second coding (simple_displacement.compute_l, written for the paper's Q_{-i,m} convention) *)
Lemma two_codings_agree_lemma i m j n :
  compute_l i m j n = snd (multiply_basis (- i, m) (- j, n)).
Proof. unfold compute_l, multiply_basis. split_ifs; cbv [snd]; lia. Qed.

(** the key map used by AccumulatedDerivative.__call__(i) is left multiplication by E(i,0) *)
Lemma acc_call_key_is_product i j n : acc_call_key i (j, n) = multiply_basis (i, 0) (j, n).
Proof.
  unfold acc_call_key. rewrite two_codings_agree_lemma. rewrite !Z.opp_involutive.
  rewrite (surjective_pairing (multiply_basis (i, 0) (j, n))), multiply_basis_fst. reflexivity.
Qed.

Lemma transpose_den k t s : den (transpose_key k) t s = den k s t.
Proof. destruct k as [i m]; cbv [transpose_key den]; lia. Qed.

Lemma transpose_wf k : snd (transpose_key k) = snd k.
Proof. destruct k; reflexivity. Qed.

Lemma diag_key_den i t s : den (diag_key i) t s = (s =? t + i) && (0 <=? Z.min t s).
Proof. reflexivity. Qed.
