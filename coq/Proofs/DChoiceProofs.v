(** Laws of the discrete-choice law of motion (Model/DChoice.v) for state arrays with any number of dimensions. *)
From Coq Require Import ZArith QArith Qcanon List Arith Lia.
From SSJ Require Import Model.Multidim Proofs.MultidimProofs Model.DChoice.
Import ListNotations.

Lemma dsum_S n f : dsum (S n) f = Qcplus (dsum n f) (f n).
Proof. reflexivity. Qed.
Lemma dsum_ext n f g : (forall k, (k < n)%nat -> f k = g k) -> dsum n f = dsum n g.
Proof. apply rsum_ext. Qed.
Lemma dsum_add n f g : dsum n (fun k => Qcplus (f k) (g k)) = Qcplus (dsum n f) (dsum n g).
Proof. induction n as [|n IH]; [unfold dsum; cbn; unfold d0; ring|]. rewrite !dsum_S, IH. ring. Qed.
Lemma dsum_scale n c f : dsum n (fun k => Qcmult c (f k)) = Qcmult c (dsum n f).
Proof. induction n as [|n IH]; [unfold dsum; cbn; unfold d0; ring|]. rewrite !dsum_S, IH. ring. Qed.
Lemma dsum_scale_r n c f : dsum n (fun k => Qcmult (f k) c) = Qcmult (dsum n f) c.
Proof. induction n as [|n IH]; [unfold dsum; cbn; unfold d0; ring|]. rewrite !dsum_S, IH. ring. Qed.
Lemma dsum_zero n : dsum n (fun _ => d0) = d0.
Proof. induction n as [|n IH]; [reflexivity|]. rewrite dsum_S, IH. unfold d0; ring. Qed.
Lemma dsum_swap n m (f : nat -> nat -> Qc) : dsum n (fun a => dsum m (fun b => f a b)) = dsum m (fun b => dsum n (fun a => f a b)).
Proof.
  induction n as [|n IH].
  - cbn. symmetry. apply (dsum_zero m).
  - rewrite dsum_S, IH. rewrite <- dsum_add. apply dsum_ext. intros b _. rewrite dsum_S. reflexivity.
Qed.

Section Laws.
Variables (sh : list nat) (nch i : nat) (P : nat -> qarr).
Hypothesis Hi : (i < length sh)%nat.

(** indices of a fibre along dimension i stay in range *)
Lemma fibre_in_state ix n' k : rng (setn i n' sh) ix -> (k < nth i sh 0%nat)%nat -> rng sh (setn i k ix).
Proof.
  intros Hr Hk. pose proof (rng_setn _ _ i k (nth i sh 0%nat) Hr Hk) as H. rewrite setn_setn, setn_nth_id in H by exact Hi. exact H.
Qed.
Lemma fibre_in_choice ix n' d m : rng (setn i n' sh) ix -> (d < m)%nat -> rng (setn i m sh) (setn i d ix).
Proof. intros Hr Hd. pose proof (rng_setn _ _ i d m Hr Hd) as H. rewrite setn_setn in H. exact H. Qed.
Lemma fibre_len ix n' : rng (setn i n' sh) ix -> (i < length ix)%nat.
Proof. intros Hr. pose proof (rng_length _ _ Hr) as Hl. rewrite setn_length in Hl. lia. Qed.

(** lom @ D:  out[.., d, ..] = sum_k P[d][.., k, ..] D[.., k, ..] *)
Lemma forward_formula D ix n' d : rng (setn i n' sh) ix ->
  dc_forward sh P i D (setn i d ix) = dsum (nth i sh 0%nat) (fun k => Qcmult (P d (setn i k ix)) (D (setn i k ix))).
Proof.
  intros Hr. pose proof (fibre_len _ _ Hr) as Hl. unfold dc_forward.
  rewrite (batch_multiply_ith_lemma Qc d0 Qcplus Qcmult sh P i D (setn i d ix) (S d) Hi) by (eapply fibre_in_choice; [eassumption | lia]).
  apply dsum_ext. intros k _. rewrite nth_setn_same by exact Hl. rewrite setn_setn. reflexivity.
Qed.

(** lom.T @ X:  out[.., k, ..] = sum_d P[d][.., k, ..] X[.., d, ..] *)
Lemma expect_formula X ix : rng sh ix ->
  dc_expect sh nch P i X ix = dsum nch (fun d => Qcmult (P d ix) (X (setn i d ix))).
Proof.
  intros Hr. pose proof (rng_length _ _ Hr) as Hl. unfold dc_expect.
  assert (Hi' : (i < length (setn i nch sh))%nat) by (rewrite setn_length; exact Hi).
  rewrite (batch_multiply_ith_lemma Qc d0 Qcplus Qcmult (setn i nch sh) (dc_PT i P) i X ix (nth i sh 0%nat) Hi')
    by (rewrite setn_setn, setn_nth_id by exact Hi; exact Hr).
  rewrite nth_setn_same by exact Hi. apply dsum_ext. intros d _. unfold dc_PT.
  rewrite nth_setn_same by lia. rewrite setn_setn, setn_nth_id by lia. reflexivity.
Qed.

(** adjointness on every fibre: sum_d (lom @ D)[..d..] X[..d..] = sum_k D[..k..] (lom.T @ X)[..k..] *)
Lemma fibre_adjoint D X ix n' : rng (setn i n' sh) ix ->
  dsum nch (fun d => Qcmult (dc_forward sh P i D (setn i d ix)) (X (setn i d ix)))
  = dsum (nth i sh 0%nat) (fun k => Qcmult (D (setn i k ix)) (dc_expect sh nch P i X (setn i k ix))).
Proof.
  intros Hr. pose proof (fibre_len _ _ Hr) as Hl.
  rewrite (dsum_ext nch _ (fun d => dsum (nth i sh 0%nat) (fun k => Qcmult (Qcmult (P d (setn i k ix)) (D (setn i k ix))) (X (setn i d ix))))).
  2:{ intros d _. rewrite (forward_formula D ix n' d Hr). rewrite <- dsum_scale_r. reflexivity. }
  rewrite dsum_swap. apply dsum_ext. intros k Hk.
  rewrite (expect_formula X (setn i k ix)) by (eapply fibre_in_state; eassumption).
  rewrite <- dsum_scale. apply dsum_ext. intros d _. rewrite setn_setn. ring.
Qed.

(** mass on every fibre, when the choice probabilities sum to one at every state of the fibre *)
Lemma fibre_mass D ix n' : rng (setn i n' sh) ix ->
  (forall k, (k < nth i sh 0%nat)%nat -> dsum nch (fun d => P d (setn i k ix)) = d1) ->
  dsum nch (fun d => dc_forward sh P i D (setn i d ix)) = dsum (nth i sh 0%nat) (fun k => D (setn i k ix)).
Proof.
  intros Hr H1.
  rewrite (dsum_ext nch _ (fun d => dsum (nth i sh 0%nat) (fun k => Qcmult (P d (setn i k ix)) (D (setn i k ix)))))
    by (intros d _; apply (forward_formula D ix n' d Hr)).
  rewrite dsum_swap. apply dsum_ext. intros k Hk. rewrite dsum_scale_r, (H1 k Hk). unfold d1; ring.
Qed.
End Laws.

(** ---- whole-array sums ---- *)
Lemma asum_ext sh X Y : (forall ix, rng sh ix -> X ix = Y ix) -> asum sh X = asum sh Y.
Proof.
  revert X Y. induction sh as [|s sh IH]; intros X Y H; cbn [asum].
  - apply H. constructor.
  - apply dsum_ext. intros k Hk. apply IH. intros ix Hr. apply H. constructor; assumption.
Qed.
Lemma asum_dsum sh n (F : nat -> qarr) : asum sh (fun ix => dsum n (fun d => F d ix)) = dsum n (fun d => asum sh (F d)).
Proof.
  revert F. induction sh as [|s sh IH]; intros F; cbn [asum]; [reflexivity|].
  rewrite dsum_swap. apply dsum_ext. intros k _. apply (IH (fun d ix => F d (k :: ix))).
Qed.

(** two arrays that differ in the size of dimension i only and have the same sum on every fibre along i have the same total *)
Lemma asum_by_fibres i : forall sh m (F G : qarr), (i < length sh)%nat ->
  (forall ix, rng (setn i 1%nat sh) ix -> dsum m (fun d => F (setn i d ix)) = dsum (nth i sh 0%nat) (fun k => G (setn i k ix))) ->
  asum (setn i m sh) F = asum sh G.
Proof.
  induction i as [|j IH]; intros sh m F G Hi H; destruct sh as [|s sh]; cbn [length] in Hi; try lia.
  - cbn [setn asum]. rewrite <- (asum_dsum sh m (fun d ix => F (d :: ix))). rewrite <- (asum_dsum sh s (fun k ix => G (k :: ix))).
    apply asum_ext. intros ix Hr. apply (H (0%nat :: ix)). cbn [setn]. constructor; [lia | exact Hr].
  - cbn [setn asum]. apply dsum_ext. intros k0 Hk0. apply (IH sh m (fun ix => F (k0 :: ix)) (fun ix => G (k0 :: ix))); [lia|].
    intros ix Hr. apply (H (k0 :: ix)). cbn [setn]. constructor; assumption.
Qed.

Theorem total_mass_lemma sh nch i P D : (i < length sh)%nat ->
  (forall ix, rng sh ix -> dsum nch (fun d => P d ix) = d1) ->
  asum (setn i nch sh) (dc_forward sh P i D) = asum sh D.
Proof.
  intros Hi H1. apply asum_by_fibres; [exact Hi|]. intros ix Hr.
  apply (fibre_mass sh nch i P Hi D ix 1%nat Hr). intros k Hk. apply H1. eapply fibre_in_state; eassumption.
Qed.

(** whole-array adjointness: <lom @ D, X> = <D, lom.T @ X> *)
Theorem total_adjoint_lemma sh nch i P D X : (i < length sh)%nat ->
  asum (setn i nch sh) (fun ix => Qcmult (dc_forward sh P i D ix) (X ix)) = asum sh (fun ix => Qcmult (D ix) (dc_expect sh nch P i X ix)).
Proof.
  intros Hi. apply (asum_by_fibres i sh nch (fun ix => Qcmult (dc_forward sh P i D ix) (X ix)) (fun ix => Qcmult (D ix) (dc_expect sh nch P i X ix)) Hi).
  intros ix Hr. apply (fibre_adjoint sh nch i P Hi D X ix 1%nat Hr).
Qed.

(** logit probabilities sum to one wherever the weights do not sum to zero *)
Lemma logit_sums_to_one nch e ix : dsum nch (fun d => e d ix) <> d0 -> dsum nch (fun d => logit_P nch e d ix) = d1.
Proof.
  intros Hne. unfold logit_P, Qcdiv. rewrite dsum_scale_r. unfold d1. field. exact Hne.
Qed.

(** the shock to the choice probabilities moves no mass, and the shock to the expected value is the expectation of the value shock *)
Lemma shock_zero_mass nch P dV scale ix : dsum nch (fun d => P d ix) = d1 -> dsum nch (fun d => lc_dP nch P dV scale d ix) = d0.
Proof.
  intros H1. unfold lc_dP, Qcdiv. rewrite dsum_scale_r.
  rewrite (dsum_ext nch _ (fun d => Qcplus (Qcmult (P d ix) (dV d ix)) (Qcmult (Qcopp (lc_dEV nch P dV ix)) (P d ix)))) by (intros; ring).
  rewrite dsum_add, dsum_scale, H1. unfold lc_dEV, d1, d0. ring.
Qed.
Lemma envelope sh nch i P dVn ix : (i < length sh)%nat -> rng sh ix -> lc_dEV nch P (lc_dV i dVn) ix = dc_expect sh nch P i dVn ix.
Proof. intros Hi Hr. rewrite (expect_formula sh nch i P Hi dVn ix Hr). reflexivity. Qed.

(** expectations are bilinear in (probabilities, values): the exact expansion behind the product rule of backward_step_shock *)
Lemma expect_expansion sh nch i P dP X dX h ix : (i < length sh)%nat -> rng sh ix ->
  dc_expect sh nch (fun d jx => Qcplus (P d jx) (Qcmult h (dP d jx))) i (fun jx => Qcplus (X jx) (Qcmult h (dX jx))) ix
  = Qcplus (Qcplus (dc_expect sh nch P i X ix) (Qcmult h (Qcplus (dc_expect sh nch dP i X ix) (dc_expect sh nch P i dX ix))))
           (Qcmult (Qcmult h h) (dc_expect sh nch dP i dX ix)).
Proof.
  intros Hi Hr. rewrite !(expect_formula sh nch i _ Hi _ ix Hr).
  rewrite <- !dsum_scale, <- !dsum_add. rewrite <- dsum_scale, <- !dsum_add. apply dsum_ext. intros d _. ring.
Qed.
Lemma shock_is_first_order sh nch i P dV scale Xss dX ix : (i < length sh)%nat -> rng sh ix ->
  lc_dout sh nch P dV scale i Xss dX ix = Qcplus (dc_expect sh nch (lc_dP nch P dV scale) i Xss ix) (dc_expect sh nch P i dX ix).
Proof. reflexivity. Qed.

(** non-negativity *)
Lemma dsum_nonneg n f : (forall k, (k < n)%nat -> Qcle d0 (f k)) -> Qcle d0 (dsum n f).
Proof.
  induction n as [|n IH]; intros H; [apply Qcle_refl|]. rewrite dsum_S.
  replace d0 with (Qcplus d0 d0) by (unfold d0; ring). apply Qcplus_le_compat; [apply IH; intros; apply H; lia | apply H; lia].
Qed.
Lemma qmul_nonneg a b : Qcle d0 a -> Qcle d0 b -> Qcle d0 (Qcmult a b).
Proof. intros Ha Hb. replace d0 with (Qcmult d0 b) by (unfold d0; ring). apply Qcmult_le_compat_r; assumption. Qed.
Lemma forward_nonneg sh i P D ix n' d : (i < length sh)%nat -> rng (setn i n' sh) ix ->
  (forall jx e, rng sh jx -> Qcle d0 (P e jx) /\ Qcle d0 (D jx)) -> Qcle d0 (dc_forward sh P i D (setn i d ix)).
Proof.
  intros Hi Hr Hpos. rewrite (forward_formula sh i P Hi D ix n' d Hr). apply dsum_nonneg. intros k Hk.
  destruct (Hpos (setn i k ix) d (fibre_in_state sh i Hi ix n' k Hr Hk)) as [H1 H2]. apply qmul_nonneg; assumption.
Qed.
