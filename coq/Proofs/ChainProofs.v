(** C04 / C05 / C11 / C06: chain-rule equations of the forward accumulation, general-equilibrium solve identities,
    nested = flat elimination, Newton-loop exit contract. *)
From Coq Require Import List Arith Bool Lia Setoid Ncring Ncring_tac.
From SSJ Require Import Model.Chain.
Import ListNotations.

Section ChainProofs.
Variable E : Type.
Variables (e0 : E) (eadd emul : E -> E -> E).
Notation cblock := (cblock E).
Notation acc_step := (acc_step E e0 eadd emul).
Notation accumulate := (accumulate E e0 eadd emul).
Notation esum := (esum E e0 eadd).

Lemma inb_In x l : inb x l = true <-> In x l.
Proof.
  unfold inb. rewrite existsb_exists. split; [intros [y [H1 H2]]; apply Nat.eqb_eq in H2; subst; assumption | intros H; exists x; split; [assumption | apply Nat.eqb_refl]].
Qed.

Lemma esum_ext f g l : (forall m, In m l -> f m = g m) -> esum f l = esum g l.
Proof.
  unfold Chain.esum. generalize e0 as acc. induction l as [|a l IH]; intros acc H; cbn [fold_left]; [reflexivity|].
  rewrite (H a) by (left; reflexivity). apply IH. intros m Hm; apply H; right; assumption.
Qed.

(** a name that no later block outputs keeps its accumulated value *)
Lemma accumulate_untouched blocks : forall init x, (forall b, In b blocks -> ~ In x (c_outs E b)) -> accumulate blocks init x = init x.
Proof.
  induction blocks as [|b bs IH]; intros init x H; cbn [Chain.accumulate fold_left]; [reflexivity|].
  fold (accumulate bs (acc_step init b)). rewrite IH by (intros b' Hb'; apply H; right; assumption).
  unfold Chain.acc_step. destruct (inb x (c_outs E b)) eqn:Ex; [|reflexivity].
  apply inb_In in Ex. exfalso. apply (H b); [left; reflexivity | assumption].
Qed.

(** Well-formed evaluation order: no name is output twice, and a block only reads names that no later
    (or the same) block outputs -- what the topological sort of C15 provides. *)
Inductive ordered : list cblock -> Prop :=
| ord_nil : ordered []
| ord_cons b bs : ordered bs ->
    (forall b', In b' (b :: bs) -> forall m, In m (c_ins E b) -> ~ In m (c_outs E b')) ->
    (forall b', In b' bs -> forall o, In o (c_outs E b) -> ~ In o (c_outs E b')) ->
    ordered (b :: bs).

(** The accumulated Jacobians satisfy the chain-rule equation of EVERY block: for each output o of block b,
    total[o] = sum over b's inputs m of J_b[o, m] * total[m]  -- with the FINAL totals on the right-hand side. *)
Theorem chain_rule_equations_lemma blocks : ordered blocks -> forall init b o, In b blocks -> In o (c_outs E b) ->
  accumulate blocks init o = esum (fun m => emul (c_J E b o m) (accumulate blocks init m)) (c_ins E b).
Proof.
  induction 1 as [|b0 bs Hord IH Hread Hdisj]; intros init b o Hb Ho; [contradiction|].
  cbn [Chain.accumulate fold_left]. fold (accumulate bs (acc_step init b0)).
  destruct Hb as [<-|Hb].
  - (* the first block: its rows are computed now and never overwritten; its inputs are never overwritten *)
    rewrite accumulate_untouched by (intros b' Hb'; apply Hdisj; assumption).
    unfold Chain.acc_step at 1. replace (inb o (c_outs E b0)) with true by (symmetry; apply inb_In; assumption).
    apply esum_ext. intros m Hm. f_equal.
    rewrite accumulate_untouched by (intros b' Hb'; apply Hread; [right; assumption | assumption]).
    unfold Chain.acc_step. destruct (inb m (c_outs E b0)) eqn:Em; [|reflexivity].
    apply inb_In in Em. exfalso. apply (Hread b0 (or_introl eq_refl) m Hm Em).
  - apply IH; assumption.
Qed.

(** model inputs (never output by any block) keep their initial (identity) rows *)
Theorem inputs_keep_identity_lemma blocks init x : (forall b, In b blocks -> ~ In x (c_outs E b)) -> accumulate blocks init x = init x.
Proof. apply accumulate_untouched. Qed.

(** REQUESTED SUBSETS.  CombinedBlock._jacobian asks each block only for the rows of the names in [want] -- the requested outputs together with the
    intermediate names (outputs of some block that some block reads) -- and skips a block none of whose outputs is wanted.  On every wanted name,
    and on every model input, the result is the full accumulation: requesting a subset of the outputs changes nothing in what is returned. *)
Definition acc_step_sel (want : nat -> bool) (total : nat -> E) (b : cblock) : nat -> E :=
  fun o => if inb o (c_outs E b) && want o then esum (fun m => emul (c_J E b o m) (total m)) (c_ins E b) else total o.
Definition accumulate_sel (want : nat -> bool) (blocks : list cblock) (init : nat -> E) : nat -> E := fold_left (acc_step_sel want) blocks init.

Theorem requested_subset_lemma (want : nat -> bool) (all : list cblock) :
  (forall b m, In b all -> In m (c_ins E b) -> (exists b', In b' all /\ In m (c_outs E b')) -> want m = true) ->
  forall blocks, (forall b, In b blocks -> In b all) -> forall t1 t2,
  (forall x, want x = true \/ (forall b, In b all -> ~ In x (c_outs E b)) -> t1 x = t2 x) ->
  forall x, want x = true \/ (forall b, In b all -> ~ In x (c_outs E b)) -> accumulate_sel want blocks t1 x = accumulate blocks t2 x.
Proof.
  intros Hreq. induction blocks as [|b bs IH]; intros Hsub t1 t2 Hag x Hx; cbn [accumulate_sel Chain.accumulate fold_left]; [apply Hag; exact Hx|].
  fold (accumulate_sel want bs (acc_step_sel want t1 b)). fold (accumulate bs (acc_step t2 b)).
  apply IH; [intros b' Hb'; apply Hsub; right; exact Hb' | | exact Hx].
  intros y Hy. unfold acc_step_sel, Chain.acc_step. destruct (inb y (c_outs E b)) eqn:Ey; cbn [andb]; [|apply Hag; exact Hy].
  assert (Hw : want y = true).
  { destruct Hy as [Hy|Hy]; [exact Hy|]. exfalso. apply inb_In in Ey. apply (Hy b); [apply Hsub; left; reflexivity | exact Ey]. }
  rewrite Hw. apply esum_ext. intros m Hm. f_equal. apply Hag.
  destruct (in_dec Nat.eq_dec m (flat_map (c_outs E) all)) as [Hin|Hnin].
  - left. apply in_flat_map in Hin. destruct Hin as [b' [Hb' Hmo]]. apply (Hreq b m); [apply Hsub; left; reflexivity | exact Hm | exists b'; split; assumption].
  - right. intros b' Hb' Hmo. apply Hnin. apply in_flat_map. exists b'. split; assumption.
Qed.

(** UNIQUENESS: along a well-formed order the chain-rule equations plus the identity rows of the model inputs determine the
    totals; hence the accumulation does not depend on which admissible order the sort produced. *)
Lemma solutions_agree blocks : ordered blocks -> forall tot1 tot2 : nat -> E,
  (forall b o, In b blocks -> In o (c_outs E b) -> tot1 o = esum (fun m => emul (c_J E b o m) (tot1 m)) (c_ins E b)) ->
  (forall b o, In b blocks -> In o (c_outs E b) -> tot2 o = esum (fun m => emul (c_J E b o m) (tot2 m)) (c_ins E b)) ->
  (forall x, (forall b, In b blocks -> ~ In x (c_outs E b)) -> tot1 x = tot2 x) ->
  forall x, tot1 x = tot2 x.
Proof.
  induction 1 as [|b0 bs Hord IH Hread Hdisj]; intros tot1 tot2 H1 H2 Hout x.
  - apply Hout. intros b [].
  - apply IH.
    + intros b o Hb Ho. apply H1; [right; assumption | assumption].
    + intros b o Hb Ho. apply H2; [right; assumption | assumption].
    + intros y Hy.
      destruct (inb y (c_outs E b0)) eqn:Ey.
      * apply inb_In in Ey. rewrite (H1 b0 y (or_introl eq_refl) Ey), (H2 b0 y (or_introl eq_refl) Ey).
        apply esum_ext. intros m Hm. f_equal. apply Hout. intros b' Hb'. apply (Hread b' Hb' m Hm).
      * apply Hout. intros b' [<-|Hb'] Hin; [apply inb_In in Hin; congruence | exact (Hy b' Hb' Hin)].
Qed.

Theorem order_independence_lemma bs1 bs2 : ordered bs1 -> ordered bs2 -> (forall b, In b bs1 <-> In b bs2) ->
  forall init x, accumulate bs1 init x = accumulate bs2 init x.
Proof.
  intros O1 O2 Hperm init. apply (solutions_agree bs1 O1).
  - intros b o Hb Ho. apply chain_rule_equations_lemma; assumption.
  - intros b o Hb Ho. apply chain_rule_equations_lemma; [assumption | apply Hperm; assumption | assumption].
  - intros x Hx. rewrite !inputs_keep_identity_lemma; [reflexivity | | assumption].
    intros b Hb. apply Hx. apply Hperm; assumption.
Qed.
End ChainProofs.

(** ---------- general equilibrium: identities in a NON-commutative ring with the inverse as a hypothesis ---------- *)
Section GE.
Variable E : Type.
Variables (e0 e1 : E) (eadd emul esub : E -> E -> E) (eopp : E -> E).
Hypothesis add_comm : forall x y, eadd x y = eadd y x.
Hypothesis add_assoc : forall x y z, eadd (eadd x y) z = eadd x (eadd y z).
Hypothesis add_0_l : forall x, eadd e0 x = x.
Hypothesis add_opp : forall x, eadd x (eopp x) = e0.
Hypothesis mul_assoc : forall x y z, emul (emul x y) z = emul x (emul y z).
Hypothesis mul_1_l : forall x, emul e1 x = x.
Hypothesis mul_1_r : forall x, emul x e1 = x.
Hypothesis distr_l : forall x y z, emul x (eadd y z) = eadd (emul x y) (emul x z).
Hypothesis distr_r : forall x y z, emul (eadd x y) z = eadd (emul x z) (emul y z).
Hypothesis sub_def : forall x y, esub x y = eadd x (eopp y).

Instance Eops : @Ring_ops E e0 e1 eadd emul esub eopp (@eq E) := {}.
Instance Ering : Ring (Ro := Eops).
Proof.
  apply Build_Ring.
  - exact eq_equivalence.
  - intros x y H u v H2; compute in H, H2; subst; reflexivity.
  - intros x y H u v H2; compute in H, H2; subst; reflexivity.
  - intros x y H u v H2; compute in H, H2; subst; reflexivity.
  - intros x y H; compute in H; subst; reflexivity.
  - exact add_0_l.
  - exact add_comm.
  - intros x y z; symmetry; apply add_assoc.
  - exact mul_1_l.
  - exact mul_1_r.
  - intros x y z; symmetry; apply mul_assoc.
  - exact distr_r.
  - intros x y z; apply distr_l.
  - exact sub_def.
  - exact add_opp.
Qed.

(** solve_jacobian: with H_U Hinv = 1, G_U = -Hinv H_Z makes every target's total response vanish *)
Theorem solve_jacobian_spec_lemma HU Hinv HZ : emul HU Hinv = e1 ->
  eadd (emul HU (eopp (emul Hinv HZ))) HZ = e0.
Proof.
  intros H. assert (H1 : emul HU (eopp (emul Hinv HZ)) = eopp (emul (emul HU Hinv) HZ)) by non_commutative_ring.
  rewrite H1, H. non_commutative_ring.
Qed.

(** the Newton update of solve_impulse_nonlinear, U <- U - Hinv * residual(U): when the targets are AFFINE in the unknowns with the
    Jacobian H_U that is inverted (a linear model), one update from ANY starting path lands on the exact solution: the nonlinear
    solver then returns the linear impulse response *)
Theorem newton_affine_one_step_lemma HU Hinv b U0 : emul HU Hinv = e1 ->
  let F := fun U => eadd (emul HU U) b in
  F (esub U0 (emul Hinv (F U0))) = e0.
Proof.
  intros H F. unfold F.
  assert (H1 : eadd (emul HU (esub U0 (emul Hinv (eadd (emul HU U0) b)))) b
               = eadd (esub (emul HU U0) (emul (emul HU Hinv) (eadd (emul HU U0) b))) b) by non_commutative_ring.
  rewrite H1, H. non_commutative_ring.
Qed.

(** solve_impulse_linear: dU = -Hinv dH solves H_U dU + dH = 0, is additive in the shock, and equals G_U applied to it *)
Theorem solve_impulse_linear_spec_lemma HU Hinv HZ dZ1 dZ2 : emul HU Hinv = e1 ->
  eadd (emul HU (eopp (emul Hinv (emul HZ dZ1)))) (emul HZ dZ1) = e0 /\
  eopp (emul Hinv (emul HZ (eadd dZ1 dZ2))) = eadd (eopp (emul Hinv (emul HZ dZ1))) (eopp (emul Hinv (emul HZ dZ2))) /\
  eopp (emul Hinv (emul HZ dZ1)) = emul (eopp (emul Hinv HZ)) dZ1.
Proof.
  intros H. split; [|split].
  - assert (H1 : emul HU (eopp (emul Hinv (emul HZ dZ1))) = eopp (emul (emul HU Hinv) (emul HZ dZ1))) by non_commutative_ring.
    rewrite H1, H. non_commutative_ring.
  - non_commutative_ring.
  - non_commutative_ring.
Qed.

(** nested = flat: eliminate the inner unknown u from  A u + B v + a = 0 (inner target), then solve the outer
    target C u + D v + b = 0 through the Schur complement S = D - C Ainv B.  The nested solution satisfies BOTH
    flat equations (matrices need not commute). *)
Theorem nested_is_flat_lemma A Ainv B Cc D a b S Sinv :
  emul A Ainv = e1 -> S = eadd D (eopp (emul Cc (emul Ainv B))) -> emul S Sinv = e1 ->
  let v := eopp (emul Sinv (eadd b (eopp (emul Cc (emul Ainv a))))) in
  let u := eopp (emul Ainv (eadd a (emul B v))) in
  eadd (eadd (emul A u) (emul B v)) a = e0 /\ eadd (eadd (emul Cc u) (emul D v)) b = e0.
Proof.
  intros HA HS HSinv v u. split.
  - unfold u. assert (H1 : emul A (eopp (emul Ainv (eadd a (emul B v)))) = eopp (emul (emul A Ainv) (eadd a (emul B v)))) by non_commutative_ring.
    rewrite H1, HA. non_commutative_ring.
  - set (w := eadd b (eopp (emul Cc (emul Ainv a)))).
    assert (HSv : emul S v = eopp w).
    { unfold v. fold w. assert (H1 : emul S (eopp (emul Sinv w)) = eopp (emul (emul S Sinv) w)) by non_commutative_ring. rewrite H1, HSinv. non_commutative_ring. }
    assert (HD : D = eadd S (emul Cc (emul Ainv B))) by (rewrite HS; non_commutative_ring).
    assert (H2 : eadd (eadd (emul Cc u) (emul D v)) b = eadd (emul S v) w).
    { rewrite HD. unfold u, w. non_commutative_ring. }
    rewrite H2, HSv. non_commutative_ring.
Qed.
End GE.

(** ---------- Newton loop exit contract (solve_impulse_nonlinear) ---------- *)
Section NewtonProofs.
Variables U R : Type.
Variable F : U -> R.
Variable ok : R -> bool.
Variable upd : U -> R -> U.
Theorem newton_exit_contract_lemma fuel : forall u0 u r, newton_loop U R F ok upd fuel u0 = Some (u, r) -> r = F u /\ ok r = true.
Proof.
  induction fuel as [|k IH]; intros u0 u r H; cbn in H; [discriminate|].
  destruct (ok (F u0)) eqn:E; [inversion H; subst; split; [reflexivity|assumption] | eapply IH; eassumption].
Qed.
Theorem newton_zero_shock_lemma fuel u0 : ok (F u0) = true -> newton_loop U R F ok upd (S fuel) u0 = Some (u0, F u0).
Proof. intros H. cbn. rewrite H. reflexivity. Qed.
End NewtonProofs.
