(** Steady state of a model that contains solved blocks (Model/NLNested.v, Section NestedSS): whatever values the root finders report, the table the nested
    evaluation arrives at IS the flattened model evaluated block after block from the calibration with those values copied in. *)
From Coq Require Import ZArith QArith Qcanon Bool List Arith Lia.
From SSJ Require Import Lib.Sums Model.Sparse Model.SimpleBlk Model.SimpleBlkQ Model.Chain Model.GET Model.NLSolve Model.NLNested Proofs.NLSolveProofs Proofs.NLNestedProofs.
Import ListNotations.

Lemma set_vals_spec N : forall (uvs : list (nat * Qc)) (t : tbl), length t = N -> (forall uv, In uv uvs -> (fst uv < N)%nat) ->
  let r := fold_left (fun t uv => upd_nth (fst uv) (snd uv) t) uvs t in
  length r = N /\ forall x, ~ In x (map fst uvs) -> qlookup r x = qlookup t x.
Proof.
  induction uvs as [|uv uvs IH]; intros t Hl Hn; cbn [fold_left map]; [split; [exact Hl | reflexivity]|].
  assert (Hu : (fst uv < length t)%nat) by (rewrite Hl; apply Hn; left; reflexivity).
  destruct (IH (upd_nth (fst uv) (snd uv) t)) as (L & Hun); [rewrite upd_nth_length by exact Hu; exact Hl | intros; apply Hn; right; assumption |].
  split; [exact L|]. intros x Hx. rewrite Hun by (intros H'; apply Hx; right; exact H').
  rewrite qlookup_upd_nth by exact Hu. destruct (Nat.eqb_spec x (fst uv)) as [->|]; [exfalso; apply Hx; left; reflexivity | reflexivity].
Qed.

Lemma copy_vals_spec N (t : tbl) us : forall t0, length t0 = N -> (forall u, In u us -> (u < N)%nat) ->
  length (copy_vals us t t0) = N /\ forall x, qlookup (copy_vals us t t0) x = if memb x us then qlookup t x else qlookup t0 x.
Proof.
  unfold copy_vals. induction us as [|u us IH]; intros t0 Hl Hn; cbn [fold_left]; [split; [exact Hl | reflexivity]|].
  assert (Hu : (u < length t0)%nat) by (rewrite Hl; apply Hn; left; reflexivity).
  destruct (IH (upd_nth u (qlookup t u) t0)) as (L & Hs); [rewrite upd_nth_length by exact Hu; exact Hl | intros; apply Hn; right; assumption |].
  split; [exact L|]. intros x. rewrite Hs. unfold memb. cbn [existsb]. rewrite qlookup_upd_nth by exact Hu.
  destruct (Nat.eqb_spec x u) as [->|Hne]; cbn [orb]; [destruct (existsb (Nat.eqb u) us); reflexivity | reflexivity].
Qed.

Section SS.
Variable solver : solved -> tbl -> option (list Qc).
Variable N : nat.

Lemma ss_block_is_eval t b : ss_block t b = ss_eval [b] t.
Proof. reflexivity. Qed.

(** one step: the table it starts from with the unknowns set, and the group of blocks it evaluates *)
Lemma ss_nblock_shape t nb t' : ss_nblock solver t nb = Some t' ->
  exists start, t' = ss_eval (blocks_of nb) start /\
    (length t = N -> (forall u, In u (unknowns_of nb) -> (u < N)%nat) -> length start = N /\ forall x, ~ In x (unknowns_of nb) -> qlookup start x = qlookup t x).
Proof.
  destruct nb as [b|s]; cbn [ss_nblock blocks_of unknowns_of].
  - intros H. inversion H; subst. exists t. split; [apply ss_block_is_eval|]. intros Hl _. split; [exact Hl | reflexivity].
  - destruct (solver s t) as [vs|]; [|discriminate]. intros H. inversion H; subst. exists (set_vals (sv_U s) vs t). split; [reflexivity|].
    intros Hl HU. unfold set_vals. destruct (set_vals_spec N (combine (sv_U s) vs) t Hl) as (L & Hun).
    { intros uv Huv. apply HU. destruct uv as [u v]. exact (in_combine_l _ _ _ _ Huv). }
    split; [exact L|]. intros x Hx. apply Hun. intros H'. apply Hx. eapply map_fst_combine_subset; exact H'.
Qed.

Lemma ss_neval_none prog : fold_left (fun ot nb => match ot with None => None | Some t => ss_nblock solver t nb end) prog None = None.
Proof. induction prog as [|nb rest IH]; cbn [fold_left]; [reflexivity | exact IH]. Qed.

Lemma ss_neval_untouched : forall prog t t', length t = N -> wf_prog N (flatten prog) -> wf_nprog N prog -> ss_neval solver prog t = Some t' ->
  length t' = N /\ forall x, (forall b, In b (flatten prog) -> ~ In x (outs_of b)) -> (forall nb, In nb prog -> ~ In x (unknowns_of nb)) -> qlookup t' x = qlookup t x.
Proof.
  induction prog as [|nb rest IH]; intros t t' Hl Hwf Hn H; unfold ss_neval in H; cbn [fold_left] in H; [injection H as <-; split; [exact Hl | reflexivity]|].
  destruct (ss_nblock solver t nb) as [t1|] eqn:E1; [|rewrite ss_neval_none in H; discriminate].
  rewrite flatten_cons in Hwf. destruct (wf_prog_app N _ _ Hwf) as (Ha & Hb & _).
  cbn [wf_nprog] in Hn. destruct Hn as (HU & _ & _ & _ & _ & Hnr).
  destruct (ss_nblock_shape t nb t1 E1) as (start & -> & Hst). destruct (Hst Hl HU) as (Ls & Hs).
  destruct (ss_eval_untouched N (blocks_of nb) start Ls (wf_prog_outs_lt N _ Ha)) as (L1 & Hun1).
  destruct (IH _ t' L1 Hb Hnr H) as (L & Hun). split; [exact L|]. intros x Hx HxU.
  rewrite Hun; [rewrite Hun1; [apply Hs; apply HxU; left; reflexivity|] | |].
  - intros b Hb'. apply Hx. rewrite flatten_cons. apply in_or_app. left; exact Hb'.
  - intros b Hb'. apply Hx. rewrite flatten_cons. apply in_or_app. right; exact Hb'.
  - intros nb' Hnb'. apply HxU. right; exact Hnb'.
Qed.

Lemma ss_consistent_transfer (s s' : tbl) blocks : ss_consistent s blocks ->
  (forall b x, In b blocks -> In x (sb_ins b) \/ In x (outs_of b) -> qlookup s' x = qlookup s x) ->
  (forall b oe x, In b blocks -> In oe (sb_outs b) -> In x (evars (snd oe)) -> In x (sb_ins b)) ->
  ss_consistent s' blocks.
Proof.
  intros Hc Heq Hvars b oe Hb Hoe.
  rewrite (Heq b (fst oe) Hb (or_intror (in_map fst _ _ Hoe))). rewrite <- (Hc b oe Hb Hoe).
  apply eval_ss_ext. intros x Hx. apply (Heq b x Hb). left. eapply Hvars; eassumption.
Qed.

Theorem nested_ss_consistent : forall prog t0 t, length t0 = N -> wf_prog N (flatten prog) -> wf_nprog N prog ->
  ss_neval solver prog t0 = Some t -> ss_consistent t (flatten prog).
Proof.
  induction prog as [|nb rest IH]; intros t0 t Hl Hwf Hn H; [intros b oe []|].
  unfold ss_neval in H. cbn [fold_left] in H.
  destruct (ss_nblock solver t0 nb) as [t1|] eqn:E1; [|rewrite ss_neval_none in H; discriminate].
  pose proof Hwf as Hwf0. rewrite flatten_cons in Hwf. destruct (wf_prog_app N _ _ Hwf) as (Ha & Hb & Hcross).
  pose proof Hn as Hn0. cbn [wf_nprog] in Hn. destruct Hn as (HU & HUearly & _ & _ & _ & Hnr).
  destruct (ss_nblock_shape t0 nb t1 E1) as (start & -> & Hst). destruct (Hst Hl HU) as (Ls & _).
  destruct (ss_eval_untouched N (blocks_of nb) start Ls (wf_prog_outs_lt N _ Ha)) as (L1 & _).
  destruct (ss_neval_untouched rest _ t L1 Hb Hnr H) as (_ & Hun).
  assert (Hthis : ss_consistent t (blocks_of nb)).
  { apply (ss_consistent_transfer (ss_eval (blocks_of nb) start) t); [apply (ss_eval_consistent_lemma N); assumption | | apply (wf_prog_vars N _ Ha)].
    intros b x Hb' Hx. apply Hun.
    - intros y Hy Ho. destruct (Hcross b y x Hb' Hy Ho) as [C1 C2]. destruct Hx; contradiction.
    - intros nb' Hnb' Hu. destruct (HUearly nb' x b Hnb' Hu Hb') as [C1 C2]. destruct Hx; contradiction. }
  assert (Hrest : ss_consistent t (flatten rest)) by (apply (IH _ t L1 Hb Hnr H)).
  intros b oe Hb'. rewrite flatten_cons in Hb'. apply in_app_or in Hb'. destruct Hb' as [Hb'|Hb']; [apply Hthis | apply Hrest]; exact Hb'.
Qed.

Theorem nested_ss_equals_flat_lemma prog t0 t : length t0 = N -> wf_prog N (flatten prog) -> wf_nprog N prog ->
  ss_neval solver prog t0 = Some t ->
  length t = N /\ forall x, qlookup t x = qlookup (ss_eval (flatten prog) (copy_vals (all_unknowns prog) t t0)) x.
Proof.
  intros Hl Hwf Hn H.
  pose proof (nested_ss_consistent prog t0 t Hl Hwf Hn H) as Hc.
  destruct (ss_neval_untouched prog t0 t Hl Hwf Hn H) as (Lt & Hunt).
  destruct (copy_vals_spec N t (all_unknowns prog) t0 Hl (wf_nprog_unknowns_lt N prog Hn)) as (L0 & Hcp).
  set (c0 := copy_vals (all_unknowns prog) t t0) in *.
  pose proof (ss_eval_consistent_lemma N (flatten prog) c0 L0 Hwf) as HcQ.
  destruct (ss_eval_untouched N (flatten prog) c0 L0 (wf_prog_outs_lt N _ Hwf)) as (LQ & HunQ).
  split; [exact Lt|].
  assert (Hext : forall y, (forall b, In b (flatten prog) -> ~ In y (outs_of b)) -> qlookup t y = qlookup (ss_eval (flatten prog) c0) y).
  { intros y Hy. rewrite (HunQ y Hy). rewrite Hcp. destruct (memb y (all_unknowns prog)) eqn:E; [reflexivity|].
    apply Hunt; [exact Hy|]. intros nb Hnb Hu. apply memb_false in E. apply E. unfold all_unknowns. apply in_flat_map. exists nb. split; assumption. }
  intros x. destruct (in_dec Nat.eq_dec x (flat_map outs_of (flatten prog))) as [Hin|Hnin].
  - apply in_flat_map in Hin. destruct Hin as [b [Hb Ho]]. exact (consistent_unique N (flatten prog) _ _ Hwf Hc HcQ Hext b x Hb Ho).
  - apply Hext. intros b Hb Ho. apply Hnin. apply in_flat_map. exists b. split; assumption.
Qed.
End SS.
