(** C19: frame and history-independence lifted from single operations to arbitrary call histories. *)
From Coq Require Import List.
Section Effects.
Variables State Op Obs Res : Type.
Variable exec : State -> Op -> State.           (* effect of a public call on the hidden state (caches, defaults) and on the arguments *)
Variable obs : State -> Obs.                    (* the observable part: arguments, block objects, option dictionaries *)
Variable result : State -> Op -> Res.
(** if no single operation changes the observable part, no history does *)
Theorem history_preserves_arguments_lemma : (forall s o, obs (exec s o) = obs s) -> forall ops s, obs (fold_left exec ops s) = obs s.
Proof. intros H ops. induction ops as [|o ops IH]; intros s; cbn; [reflexivity | rewrite IH; apply H]. Qed.
(** if results depend on the state only through the observable part, a call returns after ANY history what it returns initially *)
Theorem history_independence_lemma (res : Obs -> Op -> Res) :
  (forall s o, result s o = res (obs s) o) -> (forall s o, obs (exec s o) = obs s) ->
  forall ops s o, result (fold_left exec ops s) o = result s o.
Proof. intros Hr Hf ops s o. rewrite !Hr. rewrite (history_preserves_arguments_lemma Hf). reflexivity. Qed.
End Effects.
