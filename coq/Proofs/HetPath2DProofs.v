(** The 2-D policy lottery of Model/HetPath2D.v conserves mass and preserves the mean of BOTH policies (extrapolation outside the grids included). *)
From Coq Require Import ZArith QArith Qcanon Bool List Arith Lia Ring Field.
From SSJ Require Import Lib.Sums Model.HetLoop Model.HetPath Model.HetPath2D Proofs.HetPathProofs.
Import ListNotations.

Local Notation "x +q y" := (Qcplus x y) (at level 50, left associativity).
Local Notation "x *q y" := (Qcmult x y) (at level 40, left associativity).

Lemma hsum_single_mul n i x (f : nat -> Qc) : (i < n)%nat -> hsum n (fun t => (if Nat.eqb i t then x else h0) *q f t) = x *q f i.
Proof.
  intros H. rewrite (hsum_ext n _ (fun t => if Nat.eqb i t then x *q f i else h0)).
  - apply hsum_single. exact H.
  - intros t _. destruct (Nat.eqb_spec i t) as [->|]; [reflexivity | unfold h0; ring].
Qed.

Lemma lottery2_row_nth nx ny gx gy polx poly Drow t : (t < nx * ny)%nat ->
  nth t (lottery2_row nx ny gx gy polx poly Drow) h0 = hsum (nx * ny) (fun s => corner_term ny (corner2 ny gx gy polx poly Drow s) t).
Proof.
  intros Ht. unfold lottery2_row. cbv zeta. rewrite nth_map_seq0 by exact Ht. apply hsum_ext. intros s Hs. rewrite nth_map_seq0 by exact Hs. reflexivity.
Qed.

Section Row.
Variables (nx ny : nat) (gx gy : list Qc).
Hypothesis Hgx : length gx = nx.
Hypothesis Hgy : length gy = ny.
Hypothesis Hnx : (2 <= nx)%nat.
Hypothesis Hny : (2 <= ny)%nat.

Lemma corner_bounds polx poly Drow s : let '(i, j, _) := corner2 ny gx gy polx poly Drow s in (S i < nx)%nat /\ (S j < ny)%nat.
Proof.
  unfold corner2. cbv zeta. split.
  - pose proof (bracket_bound gx (nth s polx h0)) as H. rewrite Hgx in H. apply H. exact Hnx.
  - pose proof (bracket_bound gy (nth s poly h0)) as H. rewrite Hgy in H. apply H. exact Hny.
Qed.

(** sum over all targets of one source's contributions, weighted by any function of the target *)
Lemma corner_sum (f : nat -> Qc) i j w00 w10 w01 w11 : (S i < nx)%nat -> (S j < ny)%nat ->
  hsum (nx * ny) (fun t => corner_term ny (i, j, (w00, w10, w01, w11)) t *q f t)
  = w00 *q f (i * ny + j)%nat +q w10 *q f (S i * ny + j)%nat +q w01 *q f (i * ny + S j)%nat +q w11 *q f (S i * ny + S j)%nat.
Proof.
  intros Hi Hj. unfold corner_term.
  rewrite (hsum_ext (nx * ny) _ (fun t => ((if Nat.eqb (i * ny + j) t then w00 else h0) *q f t +q (if Nat.eqb (S i * ny + j) t then w10 else h0) *q f t)
                                          +q ((if Nat.eqb (i * ny + S j) t then w01 else h0) *q f t +q (if Nat.eqb (S i * ny + S j) t then w11 else h0) *q f t))) by (intros; ring).
  rewrite !hsum_add. rewrite !hsum_single_mul by nia. ring.
Qed.

Lemma lottery2_row_weighted polx poly Drow (f : nat -> Qc) :
  hsum (nx * ny) (fun t => nth t (lottery2_row nx ny gx gy polx poly Drow) h0 *q f t)
  = hsum (nx * ny) (fun s => let '(i, j, (w00, w10, w01, w11)) := corner2 ny gx gy polx poly Drow s in
                             w00 *q f (i * ny + j)%nat +q w10 *q f (S i * ny + j)%nat +q w01 *q f (i * ny + S j)%nat +q w11 *q f (S i * ny + S j)%nat).
Proof.
  rewrite (hsum_ext (nx * ny) _ (fun t => hsum (nx * ny) (fun s => corner_term ny (corner2 ny gx gy polx poly Drow s) t *q f t))).
  2:{ intros t Ht. rewrite lottery2_row_nth by exact Ht. rewrite Qcmult_comm. rewrite <- hsum_scale. apply hsum_ext. intros; ring. }
  rewrite hsum_swap. apply hsum_ext. intros s Hs.
  pose proof (corner_bounds polx poly Drow s) as Hb. destruct (corner2 ny gx gy polx poly Drow s) as [[i j] [[[w00 w10] w01] w11]].
  destruct Hb as [Hi Hj]. apply corner_sum; assumption.
Qed.

Lemma lottery2_row_mass polx poly Drow :
  hsum (nx * ny) (fun t => nth t (lottery2_row nx ny gx gy polx poly Drow) h0) = hsum (nx * ny) (fun s => nth s Drow h0).
Proof.
  rewrite (hsum_ext (nx * ny) _ (fun t => nth t (lottery2_row nx ny gx gy polx poly Drow) h0 *q h1)) by (intros; unfold h1; ring).
  rewrite lottery2_row_weighted. apply hsum_ext. intros s _. unfold corner2. cbv zeta. unfold h1. ring.
Qed.

Lemma div_flat i j : (j < ny)%nat -> ((i * ny + j) / ny = i)%nat.
Proof. intros H. rewrite Nat.div_add_l by lia. rewrite Nat.div_small by exact H. lia. Qed.
Lemma mod_flat i j : (j < ny)%nat -> ((i * ny + j) mod ny = j)%nat.
Proof. intros H. rewrite Nat.add_comm. rewrite Nat.mod_add by lia. apply Nat.mod_small. exact H. Qed.

Lemma lottery2_row_mean_x polx poly Drow : distinct_neighbours gx ->
  hsum (nx * ny) (fun t => nth t (lottery2_row nx ny gx gy polx poly Drow) h0 *q nth (t / ny) gx h0) = hsum (nx * ny) (fun s => nth s Drow h0 *q nth s polx h0).
Proof.
  intros Hd. rewrite lottery2_row_weighted. apply hsum_ext. intros s _.
  pose proof (corner_bounds polx poly Drow s) as Hb. unfold corner2 in *. cbv zeta in *. destruct Hb as [Hi Hj].
  rewrite !div_flat by lia.
  pose proof (weight_mean gx (nth s polx h0) (bracket gx (nth s polx h0)) (Hd _ ltac:(rewrite Hgx; exact Hi))) as Hw.
  set (p := weight gx (nth s polx h0) (bracket gx (nth s polx h0))) in *. set (q := weight gy (nth s poly h0) (bracket gy (nth s poly h0))).
  set (g0' := nth (bracket gx (nth s polx h0)) gx h0) in *. set (g1' := nth (S (bracket gx (nth s polx h0))) gx h0) in *.
  transitivity (nth s Drow h0 *q (p *q g0' +q Qcminus h1 p *q g1')); [unfold h1; ring | rewrite Hw; reflexivity].
Qed.

Lemma lottery2_row_mean_y polx poly Drow : distinct_neighbours gy ->
  hsum (nx * ny) (fun t => nth t (lottery2_row nx ny gx gy polx poly Drow) h0 *q nth (t mod ny) gy h0) = hsum (nx * ny) (fun s => nth s Drow h0 *q nth s poly h0).
Proof.
  intros Hd. rewrite lottery2_row_weighted. apply hsum_ext. intros s _.
  pose proof (corner_bounds polx poly Drow s) as Hb. unfold corner2 in *. cbv zeta in *. destruct Hb as [Hi Hj].
  rewrite !mod_flat by lia.
  pose proof (weight_mean gy (nth s poly h0) (bracket gy (nth s poly h0)) (Hd _ ltac:(rewrite Hgy; exact Hj))) as Hw.
  set (q := weight gy (nth s poly h0) (bracket gy (nth s poly h0))) in *. set (p := weight gx (nth s polx h0) (bracket gx (nth s polx h0))).
  set (g0' := nth (bracket gy (nth s poly h0)) gy h0) in *. set (g1' := nth (S (bracket gy (nth s poly h0))) gy h0) in *.
  transitivity (nth s Drow h0 *q (q *q g0' +q Qcminus h1 q *q g1')); [unfold h1; ring | rewrite Hw; reflexivity].
Qed.
End Row.

Theorem lottery2_laws_lemma nz nx ny gx gy polx poly D : length gx = nx -> length gy = ny -> (2 <= nx)%nat -> (2 <= ny)%nat ->
  mass nz (nx * ny) (lottery2_forward nz nx ny gx gy polx poly D) = mass nz (nx * ny) D /\
  (distinct_neighbours gx -> carried_x nz nx ny gx (lottery2_forward nz nx ny gx gy polx poly D) = aggregate nz (nx * ny) D polx) /\
  (distinct_neighbours gy -> carried_y nz nx ny gy (lottery2_forward nz nx ny gx gy polx poly D) = aggregate nz (nx * ny) D poly).
Proof.
  intros Hgx Hgy Hnx Hny.
  assert (Hrow : forall z, (z < nz)%nat -> row (lottery2_forward nz nx ny gx gy polx poly D) z = lottery2_row nx ny gx gy (row polx z) (row poly z) (row D z)).
  { intros z Hz. unfold row at 1, lottery2_forward. rewrite nth_map_seq0 by exact Hz. reflexivity. }
  split; [|split].
  - unfold mass. apply hsum_ext. intros z Hz. unfold ent. rewrite Hrow by exact Hz. apply lottery2_row_mass; assumption.
  - intros Hd. unfold carried_x, aggregate. apply hsum_ext. intros z Hz. unfold ent. rewrite Hrow by exact Hz. apply lottery2_row_mean_x; assumption.
  - intros Hd. unfold carried_y, aggregate. apply hsum_ext. intros z Hz. unfold ent. rewrite Hrow by exact Hz. apply lottery2_row_mean_y; assumption.
Qed.
