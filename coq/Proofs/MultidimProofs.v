(** multiply_ith_dimension / batch_multiply_ith_dimension act on the i-th dimension only, for arrays of any number of dimensions. *)
From Coq Require Import List Arith Lia.
From SSJ Require Import Model.Multidim.
Import ListNotations.

Definition rng (sh : list nat) (ix : idx) : Prop := Forall2 (fun k s => k < s) ix sh.

Lemma prod_pos sh ix : rng sh ix -> 0 < prod sh.
Proof. intros H. unfold prod. induction H as [|k s ix sh Hk _ IH]; cbn [fold_right]; [lia|]. nia. Qed.

Lemma flat_lt sh ix : rng sh ix -> flat sh ix < prod sh.
Proof.
  intros H. induction H as [|k s ix sh Hk Hr IH]; [cbn; lia|].
  cbn [flat]. change (prod (s :: sh)) with (s * prod sh). nia.
Qed.

Lemma unflat_flat sh ix : rng sh ix -> unflat sh (flat sh ix) = ix.
Proof.
  intros H. induction H as [|k s ix sh Hk Hr IH]; cbn [flat unflat]; [reflexivity|].
  pose proof (flat_lt sh ix Hr) as Hf. pose proof (prod_pos sh ix Hr) as Hp.
  rewrite Nat.div_add_l by lia. rewrite (Nat.div_small _ _ Hf). rewrite Nat.add_0_r.
  rewrite Nat.add_comm, Nat.mod_add by lia. rewrite (Nat.mod_small _ _ Hf). rewrite IH. reflexivity.
Qed.

(** setn / nth *)
Lemma setn_length {A} j (x : A) l : length (setn j x l) = length l.
Proof. revert j; induction l as [|y l IH]; intros [|j]; cbn; auto. Qed.
Lemma nth_setn_same {A} j (x d : A) l : j < length l -> nth j (setn j x l) d = x.
Proof. revert j; induction l as [|y l IH]; intros [|j] H; cbn in *; try lia; auto. apply IH; lia. Qed.
Lemma setn_setn {A} j (x y : A) l : setn j x (setn j y l) = setn j x l.
Proof. revert j; induction l as [|z l IH]; intros [|j]; cbn; auto. rewrite IH; reflexivity. Qed.
Lemma setn_nth_id {A} j (d : A) l : j < length l -> setn j (nth j l d) l = l.
Proof. revert j; induction l as [|z l IH]; intros [|j] H; cbn in *; try lia; auto. rewrite IH by lia; reflexivity. Qed.

Lemma hd_swap0 {A} (d : A) i l : i < length l -> hd d (swap0 d i l) = nth i l d.
Proof. destruct i as [|j]; destruct l as [|x0 r]; cbn; intros H; try lia; reflexivity. Qed.

Lemma swap0_set_back {A} (d : A) i k l : i < length l -> swap0 d i (k :: tl (swap0 d i l)) = setn i k l.
Proof.
  destruct i as [|j]; destruct l as [|x0 r]; cbn [length]; intros H; try lia; [reflexivity|].
  cbn [swap0 tl]. rewrite nth_setn_same by lia. rewrite setn_setn. reflexivity.
Qed.

Lemma rng_setn sh ix j k s : rng sh ix -> k < s -> rng (setn j s sh) (setn j k ix).
Proof.
  intros H. revert j. induction H as [|k0 s0 ix sh Hk Hr IH]; intros [|j] Hks; cbn; constructor; auto. apply IH; exact Hks.
Qed.
Lemma rng_nth sh ix j : rng sh ix -> j < length ix -> nth j ix 0 < nth j sh 0.
Proof.
  intros H. revert j. induction H as [|k0 s0 ix sh Hk Hr IH]; intros [|j] Hj; cbn in *; try lia; auto. apply IH; lia.
Qed.
Lemma rng_length sh ix : rng sh ix -> length ix = length sh.
Proof. intros H; induction H; cbn; auto. Qed.

(** the trailing indices after swapaxes(0, i) are in range of the trailing shape after swapaxes(0, i), whatever the size of dimension i *)
Lemma rng_tl_swap0 sh ix i n' : i < length sh -> rng (setn i n' sh) ix -> rng (tl (swap0 0 i sh)) (tl (swap0 0 i ix)).
Proof.
  intros Hi H. destruct i as [|j].
  - destruct sh as [|s0 sh]; cbn in *; [lia|]. inversion H; subst. cbn. assumption.
  - destruct sh as [|s0 sh]; cbn [length] in Hi; [lia|]. cbn [setn] in H. inversion H as [|k0 ? ix' ? Hk0 Hr]; subst. cbn [swap0 tl].
    (* Hr : rng (setn j n' sh) ix' ; goal: rng (setn j s0 sh) (setn j k0 ix') *)
    pose proof (rng_setn _ _ j k0 s0 Hr Hk0) as H2. rewrite setn_setn in H2. exact H2.
Qed.

Section Theorems.
Variable R : Type.
Variables (r0 : R) (radd rmul : R -> R -> R).

Lemma rsum_ext n f g : (forall k, k < n -> f k = g k) -> rsum R r0 radd n f = rsum R r0 radd n g.
Proof. induction n as [|n IH]; intros H; cbn; [reflexivity|]. rewrite IH by (intros; apply H; lia). rewrite H by lia. reflexivity. Qed.

Theorem multiply_ith_lemma sh Pi i X ix n' : i < length sh -> rng (setn i n' sh) ix ->
  multiply_ith R r0 radd rmul sh Pi i X ix = rsum R r0 radd (nth i sh 0) (fun k => rmul (Pi (nth i ix 0) k) (X (setn i k ix))).
Proof.
  intros Hi Hr. pose proof (rng_length _ _ Hr) as Hl. rewrite setn_length in Hl.
  unfold multiply_ith, swapaxes0 at 1, from2d.
  assert (Hne : swap0 0 i ix = nth i ix 0 :: tl (swap0 0 i ix)).
  { destruct (swap0 0 i ix) as [|z rest] eqn:E.
    - exfalso. destruct i as [|j]; destruct ix as [|x0 r]; cbn in *; try lia; discriminate.
    - cbn [tl]. f_equal. rewrite <- (hd_swap0 0 i ix) by lia. rewrite E. reflexivity. }
  rewrite Hne. rewrite hd_swap0 by exact Hi. apply rsum_ext. intros k _. f_equal.
  unfold to2d, swapaxes0. rewrite unflat_flat by (eapply rng_tl_swap0; eassumption).
  rewrite swap0_set_back by lia. reflexivity.
Qed.

Theorem batch_multiply_ith_lemma sh (P : nat -> arr R) i X ix n' : i < length sh -> rng (setn i n' sh) ix ->
  batch_multiply_ith R r0 radd rmul sh P i X ix
  = rsum R r0 radd (nth i sh 0) (fun k => rmul (P (nth i ix 0) (setn i k ix)) (X (setn i k ix))).
Proof.
  intros Hi Hr. pose proof (rng_length _ _ Hr) as Hl. rewrite setn_length in Hl.
  unfold batch_multiply_ith, swapaxes0 at 1, from2d.
  assert (Hne : swap0 0 i ix = nth i ix 0 :: tl (swap0 0 i ix)).
  { destruct (swap0 0 i ix) as [|z rest] eqn:E.
    - exfalso. destruct i as [|j]; destruct ix as [|x0 r]; cbn in *; try lia; discriminate.
    - cbn [tl]. f_equal. rewrite <- (hd_swap0 0 i ix) by lia. rewrite E. reflexivity. }
  rewrite Hne. rewrite hd_swap0 by exact Hi. apply rsum_ext. intros k _.
  unfold to2d, swapaxes0. rewrite unflat_flat by (eapply rng_tl_swap0; eassumption).
  rewrite swap0_set_back by lia. reflexivity.
Qed.
End Theorems.
