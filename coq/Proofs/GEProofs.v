(** C05: the executable two-unknown general-equilibrium solve makes both targets' total responses vanish, and reports the
    unknowns' own responses, for every model and every shock column (rationals). *)
From Coq Require Import ZArith QArith Qcanon Bool List Arith Field.
From SSJ Require Import Model.Chain Model.GE.
Import ListNotations.
Open Scope Qc_scope.

Lemma cramer2 (a b c d h1 h2 : Qc) : a * d - b * c <> 0 ->
  let det := a * d - b * c in
  let g1 := - ((d * h1 - b * h2) / det) in let g2 := - ((a * h2 - c * h1) / det) in
  a * g1 + b * g2 + h1 = 0 /\ c * g1 + d * g2 + h2 = 0.
Proof. intros H det g1 g2. unfold g1, g2, det. split; field; assumption. Qed.

Theorem ge_solve2_targets_vanish_lemma blocks u1 u2 t1 t2 zs outs G :
  ge_solve2 blocks u1 u2 t1 t2 zs outs = Some G ->
  forall k z, nth_error zs k = Some z ->
  exists g1 g2,
    nth_error G k = Some (map (fun o => tot blocks u1 o * g1 + tot blocks u2 o * g2 + tot blocks z o) outs) /\
    tot blocks u1 t1 * g1 + tot blocks u2 t1 * g2 + tot blocks z t1 = 0 /\
    tot blocks u1 t2 * g1 + tot blocks u2 t2 * g2 + tot blocks z t2 = 0.
Proof.
  unfold ge_solve2. set (a := tot blocks u1 t1). set (b := tot blocks u2 t1). set (c := tot blocks u1 t2). set (d := tot blocks u2 t2).
  destruct (Qc_eq_bool (a * d - b * c) q0) eqn:E; [discriminate|]. intros H; inversion H; subst G; clear H.
  assert (Hdet : a * d - b * c <> 0).
  { intros Hc. rewrite Hc in E. unfold q0, Qc_eq_bool in E. destruct (Qc_eq_dec 0 (Q2Qc 0)) as [_|Hn]; [discriminate|]. apply Hn. apply Qc_is_canon. reflexivity. }
  intros k z Hz. rewrite nth_error_map, Hz. cbn [option_map].
  eexists; eexists. split; [reflexivity|].
  exact (cramer2 a b c d (tot blocks z t1) (tot blocks z t2) Hdet).
Qed.
