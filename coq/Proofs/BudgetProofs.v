(** C13: an identity that holds pointwise on the grid aggregates to the same identity between distribution-weighted sums,
    for any distribution (no sign or mass assumption) -- in steady state, at every date of a path, and for difference
    quotients (which are linear). *)
From Coq Require Import ZArith Lia Ring.
From SSJ Require Import Lib.Sums.
Open Scope Z_scope.
Local Notation zs := (zsum_range 0 Z.add).
Local Notation zr_ext := (zsum_range_ext Z 0 Z.add).
Local Notation zr_add := (zsum_range_add Z 0 1 Z.add Z.mul Z.sub Z.opp Zth).
Local Notation zr_scale := (zsum_range_scale Z 0 1 Z.add Z.mul Z.sub Z.opp Zth).

Theorem aggregate_budget_lemma n (D c a x y g : Z -> Z) R :
  (forall i, 0 <= i < n -> c i + a i + x i = y i + R * g i) ->
  zs 0 n (fun i => D i * c i) + zs 0 n (fun i => D i * a i) + zs 0 n (fun i => D i * x i)
  = zs 0 n (fun i => D i * y i) + R * zs 0 n (fun i => D i * g i).
Proof.
  intros H. rewrite <- zr_scale, <- !zr_add. apply zr_ext. intros i Hi. specialize (H i Hi).
  replace (D i * c i + D i * a i + D i * x i) with (D i * (c i + a i + x i)) by ring. rewrite H. ring.
Qed.

(** difference quotients of quantities satisfying a linear identity satisfy it too (h times the quotient, no division) *)
Theorem numdiff_preserves_linear_identities_lemma (c1 c0 a1 a0 y1 y0 : Z) :
  c1 + a1 = y1 -> c0 + a0 = y0 -> (c1 - c0) + (a1 - a0) = (y1 - y0).
Proof. lia. Qed.
