(** C16: circular correlation = linear autocovariance + wrap-around term; padding 2T-1 suffices, 2T-2 aliases
    lag T-1; MA second moments; stacked covariance matrix. *)
From Coq Require Import ZArith Bool Lia ZifyBool List Ring.
From SSJ Require Import Lib.Sums Lib.EstTypes Gen.Estimation Model.Estimation.
Import ListNotations.
Open Scope Z_scope.

Section EstProofs.
Variable R : Type.
Variables (rO rI : R) (radd rmul rsub : R -> R -> R) (ropp : R -> R).
Variable Rth : ring_theory rO rI radd rmul rsub ropp eq.
Add Ring RringEst : Rth.
Infix "+r" := radd (at level 50, left associativity).
Infix "*r" := rmul (at level 40, left associativity).
Notation zsum := (zsum_range rO radd).
Let zr_zero := zsum_range_zero R rO rI radd rmul rsub ropp Rth.
Let zr_ext := zsum_range_ext R rO radd.
Let zr_add := zsum_range_add R rO rI radd rmul rsub ropp Rth.
Let zr_single := zsum_range_single R rO rI radd rmul rsub ropp Rth.
Let zr_split := zsum_range_split R rO rI radd rmul rsub ropp Rth.
Let zr_scale := zsum_range_scale R rO rI radd rmul rsub ropp Rth.
Notation circ := (circ R rO radd rmul).
Notation lin := (lin R rO radd rmul).
Notation alias := (alias R rO radd rmul).
Notation ext := (ext R rO).

Lemma zsum_empty lo hi f : hi <= lo -> zsum lo hi f = rO.
Proof. intros H. apply zr_zero. intros k Hk. lia. Qed.

(** the circular correlation is the linear one plus what wraps around *)
Lemma circ_decompose N T a b l : 0 < T <= N -> 0 <= l <= T - 1 ->
  circ N T a b l = lin T a b l +r alias N T a b l.
Proof.
  intros HT Hl. unfold Estimation.circ, Estimation.lin, Estimation.alias.
  rewrite (zr_split 0 T N) by lia.
  rewrite (zr_zero T N) by (intros k Hk; unfold Estimation.ext; replace ((0 <=? k) && (k <? T)) with false by lia; ring).
  set (f1 := fun t => if t <? T - l then a t *r b (t + l) else rO).
  set (f2 := fun t => if N - l <=? t then a t *r b (t + l - N) else rO).
  rewrite (zr_ext 0 T _ (fun t => f1 t +r f2 t)).
  2:{ intros t Ht. unfold Estimation.ext, f1, f2. replace ((0 <=? t) && (t <? T)) with true by lia.
      destruct (t <? T - l) eqn:E1.
      - replace (N - l <=? t) with false by lia. rewrite Z.mod_small by lia.
        replace ((0 <=? t + l) && (t + l <? T)) with true by lia. ring.
      - destruct (N - l <=? t) eqn:E2.
        + replace ((t + l) mod N) with (t + l - N).
          2:{ apply Z.mod_unique with (q := 1); lia. }
          replace ((0 <=? t + l - N) && (t + l - N <? T)) with true by lia. ring.
        + rewrite Z.mod_small by lia. replace ((0 <=? t + l) && (t + l <? T)) with false by lia. ring. }
  rewrite zr_add.
  assert (H1 : zsum 0 T f1 = zsum 0 (T - l) (fun t => a t *r b (t + l))).
  { rewrite (zr_split 0 (T - l) T) by lia.
    rewrite (zr_zero (T - l) T) by (intros k Hk; unfold f1; replace (k <? T - l) with false by lia; reflexivity).
    rewrite (zr_ext 0 (T - l) f1 (fun t => a t *r b (t + l))) by (intros k Hk; unfold f1; replace (k <? T - l) with true by lia; reflexivity).
    ring. }
  assert (H2 : zsum 0 T f2 = zsum (N - l) T (fun t => a t *r b (t + l - N))).
  { destruct (Z_le_gt_dec T (N - l)) as [Hge|Hlt].
    - rewrite (zsum_empty (N - l) T) by lia. apply zr_zero. intros k Hk. unfold f2. replace (N - l <=? k) with false by lia. reflexivity.
    - rewrite (zr_split 0 (N - l) T) by lia.
      rewrite (zr_zero 0 (N - l)) by (intros k Hk; unfold f2; replace (N - l <=? k) with false by lia; reflexivity).
      rewrite (zr_ext (N - l) T f2 (fun t => a t *r b (t + l - N))) by (intros k Hk; unfold f2; replace (N - l <=? k) with true by lia; reflexivity).
      ring. }
  rewrite H1, H2. rewrite Rth.(Radd_0_r) || ring_simplify. ring.
Qed.

Lemma alias_zero_if_padded N T a b l : 2 * T - 1 <= N -> 0 <= l <= T - 1 -> alias N T a b l = rO.
Proof. intros HN Hl. unfold Estimation.alias. apply zsum_empty. lia. Qed.

Lemma alias_one_term T a b : 2 <= T -> alias (2 * T - 2) T a b (T - 1) = a (T - 1) *r b 0.
Proof.
  intros HT. unfold Estimation.alias. replace (2 * T - 2 - (T - 1)) with (T - 1) by lia.
  rewrite (zr_single (T - 1) T _ (T - 1)) by (intros k Hk Hne; lia).
  replace ((T - 1 <=? T - 1) && (T - 1 <? T)) with true by lia.
  replace (T - 1 + (T - 1) - (2 * T - 2)) with 0 by lia. reflexivity.
Qed.

Lemma alias_none_below T a b l : 2 <= T -> 0 <= l < T - 1 -> alias (2 * T - 2) T a b l = rO.
Proof. intros HT Hl. unfold Estimation.alias. apply zsum_empty. lia. Qed.

Notation all_cov := (all_cov R rO radd rmul).
Notation autocov := (autocov R rO radd rmul).
Notation alias_cov := (alias_cov R rO radd rmul).

Lemma all_cov_decompose N T nZ M sig2 l o1 o2 : 0 < T <= N -> 0 <= l <= T - 1 ->
  all_cov N T nZ M sig2 l o1 o2 = autocov T nZ M sig2 l o1 o2 +r alias_cov N T nZ M sig2 l o1 o2.
Proof.
  intros HT Hl. unfold Estimation.all_cov, Estimation.autocov, Estimation.alias_cov. rewrite <- zr_add.
  apply zr_ext. intros z Hz. rewrite circ_decompose by assumption. ring.
Qed.

Lemma padded_is_exact N T nZ M sig2 l o1 o2 : 0 < T -> 2 * T - 1 <= N -> 0 <= l <= T - 1 ->
  all_cov N T nZ M sig2 l o1 o2 = autocov T nZ M sig2 l o1 o2.
Proof.
  intros HT HN Hl. rewrite all_cov_decompose by lia. unfold Estimation.alias_cov.
  rewrite zr_zero; [ring|]. intros z Hz. rewrite alias_zero_if_padded by assumption. ring.
Qed.

Lemma short_padding_exact_below T nZ M sig2 l o1 o2 : 2 <= T -> 0 <= l < T - 1 ->
  all_cov (2 * T - 2) T nZ M sig2 l o1 o2 = autocov T nZ M sig2 l o1 o2.
Proof.
  intros HT Hl. rewrite all_cov_decompose by lia. unfold Estimation.alias_cov.
  rewrite zr_zero; [ring|]. intros z Hz. rewrite alias_none_below by assumption. ring.
Qed.

Lemma short_padding_aliases T nZ M sig2 o1 o2 : 2 <= T ->
  all_cov (2 * T - 2) T nZ M sig2 (T - 1) o1 o2
  = autocov T nZ M sig2 (T - 1) o1 o2 +r zsum 0 nZ (fun z => sig2 z *r (M (T - 1) o1 z *r M 0 o2 z)).
Proof.
  intros HT. rewrite all_cov_decompose by lia. f_equal. unfold Estimation.alias_cov.
  apply zr_ext. intros z Hz. rewrite alias_one_term by assumption. reflexivity.
Qed.

(** the linear sum is the covariance of the MA process driven by formal white noise *)
Lemma ma_cov_is_autocov T nZ M sig2 l o1 o2 : 0 <= l ->
  ma_cov R rO radd rmul T nZ M sig2 l o1 o2 = autocov T nZ M sig2 l o1 o2.
Proof.
  intros Hl. unfold Estimation.ma_cov, Estimation.autocov, Estimation.lin.
  apply zr_ext. intros z Hz. rewrite <- zr_scale.
  destruct (Z_le_gt_dec (T - l) 0) as [Hs|Hs].
  - rewrite (zsum_empty 0 (T - l)) by lia. apply zr_zero. intros s Hsr. apply zr_zero. intros z' Hz'. apply zr_zero. intros s' Hs'.
    replace ((s' =? s + l) && (z' =? z)) with false by lia. ring.
  - rewrite (zr_split 0 (T - l) T) by lia.
    rewrite (zr_zero (T - l) T).
    2:{ intros s Hsr. apply zr_zero. intros z' Hz'. apply zr_zero. intros s' Hs'. replace ((s' =? s + l) && (z' =? z)) with false by lia. ring. }
    rewrite Rth.(Radd_comm), Rth.(Radd_0_l). apply zr_ext. intros s Hsr.
    rewrite (zr_single 0 nZ _ z).
    2:{ intros z' Hz' Hne. apply zr_zero. intros s' Hs'. replace ((s' =? s + l) && (z' =? z)) with false by lia. ring. }
    replace ((0 <=? z) && (z <? nZ)) with true by lia.
    rewrite (zr_single 0 T _ (s + l)).
    2:{ intros s' Hs' Hne. replace ((s' =? s + l) && (z =? z)) with false by lia. ring. }
    replace ((0 <=? s + l) && (s + l <? T)) with true by lia.
    replace ((s + l =? s + l) && (z =? z)) with true by lia. ring.
Qed.

(** stacked covariance matrix *)
Variable half : R -> R.
Hypothesis half_double : forall x, half (x +r x) = x.
Notation v_entry := (v_entry R rO radd half).

(** gamma l = Cov(y_t, y_{t+l}) for any integer l, zero beyond T-1 lags *)
Definition gamma (T : Z) (Sigma : Z -> Z -> Z -> R) (l o1 o2 : Z) : R :=
  if Z.abs l >=? T then rO else if 0 <=? l then Sigma l o1 o2 else Sigma (- l) o2 o1.

Lemma v_entry_is_toeplitz T Sigma sm2 t1 o1 t2 o2 :
  (forall a b, Sigma 0 a b = Sigma 0 b a) ->
  v_entry T Sigma sm2 t1 o1 t2 o2
  = gamma T Sigma (t2 - t1) o1 o2 +r (if (t1 =? t2) && (o1 =? o2) && (0 <? T) then sm2 o1 else rO).
Proof.
  intros Hsym. unfold Estimation.v_entry, v_block, gamma.
  destruct (Z.abs (t1 - t2) >=? T) eqn:E1.
  - replace (Z.abs (t2 - t1) >=? T) with true by lia. replace ((t1 =? t2) && (o1 =? o2) && (0 <? T)) with false by lia. ring.
  - replace (Z.abs (t2 - t1) >=? T) with false by lia.
    destruct (t1 <? t2) eqn:E2.
    + replace (0 <=? t2 - t1) with true by lia. replace ((t1 =? t2) && (o1 =? o2) && (0 <? T)) with false by lia. ring.
    + destruct (t1 >? t2) eqn:E3.
      * replace (0 <=? t2 - t1) with false by lia. replace (- (t2 - t1)) with (t1 - t2) by lia.
        replace ((t1 =? t2) && (o1 =? o2) && (0 <? T)) with false by lia. ring.
      * assert (t1 = t2) by lia. subst t2. replace (t1 - t1) with 0 by lia. change (0 <=? 0) with true. cbv iota.
        rewrite (Hsym o2 o1), half_double. replace (0 <? T) with true by lia. rewrite Z.eqb_refl. cbn [andb].
        rewrite andb_true_r. destruct (o1 =? o2); ring.
Qed.

Lemma v_entry_symmetric T Sigma sm2 t1 o1 t2 o2 :
  v_entry T Sigma sm2 t1 o1 t2 o2 = v_entry T Sigma sm2 t2 o2 t1 o1.
Proof.
  unfold Estimation.v_entry, v_block.
  replace (Z.abs (t2 - t1) >=? T) with (Z.abs (t1 - t2) >=? T) by lia.
  destruct (Z.abs (t1 - t2) >=? T); [reflexivity|].
  destruct (t1 <? t2) eqn:E2.
  - replace (t2 <? t1) with false by lia. replace (t2 >? t1) with true by lia. reflexivity.
  - destruct (t1 >? t2) eqn:E3.
    + replace (t2 <? t1) with true by lia. reflexivity.
    + assert (t1 = t2) by lia. subst. replace (t2 <? t2) with false by lia. replace (t2 >? t2) with false by lia.
      rewrite (Z.eqb_sym o2 o1). destruct (o1 =? o2) eqn:Eo.
      * apply Z.eqb_eq in Eo. subst. reflexivity.
      * rewrite (Rth.(Radd_comm) (Sigma 0 o1 o2)). reflexivity.
Qed.
End EstProofs.
