(** What the nested nonlinear solver (Model/NLNested.v) returns: soundness of the outer loop, of every inner solve, and consistency of the
    returned paths with the SAME EQUATIONS LEFT IN THE OUTER MODEL (the flattened program). *)
From Coq Require Import ZArith QArith Qcanon Bool List Arith Lia.
From SSJ Require Import Lib.Sums Model.Sparse Model.SimpleBlk Model.SimpleBlkQ Model.Chain Model.GET Model.NLSolve Model.NLNested Proofs.NLSolveProofs.
Import ListNotations.

Lemma nloop_sound fuel F ok upd : forall U0 Up r, nloop fuel F ok upd U0 = Converged Up r -> F Up = Some r /\ ok r = true.
Proof.
  induction fuel as [|k IH]; intros U0 Up r H; cbn [nloop] in H; [discriminate|].
  destruct (F U0) as [r0|] eqn:EF; [|discriminate].
  destruct (ok r0) eqn:Eok.
  - inversion H; subst. split; assumption.
  - destruct (upd U0 r0) as [U1|]; [|discriminate]. eapply IH; eassumption.
Qed.

Section Sound.
Variables (force : bool) (imaxit : nat) (itol : Qc) (T : Z) (N : nat) (ss ssi : tbl).

(** one step of the outer evaluation *)
Definition nstep (nb : nblock) (P P' : paths) : Prop :=
  match nb with
  | NSimple b => P' = eval_block force T ss ssi P b
  | NSolved s =>
      (force || existsb (perturbed P) (sv_ins s) = false /\ P' = P) \/
      (force || existsb (perturbed P) (sv_ins s) = true /\
       exists Up, P' = inner_results force T ss ssi s P Up /\ nl_ok ss (sv_Tg s) itol P' = true)
  end.
Fixpoint nsteps (prog : list nblock) (P P' : paths) : Prop :=
  match prog with
  | [] => P' = P
  | nb :: rest => exists P1, nstep nb P P1 /\ nsteps rest P1 P'
  end.

Lemma eval_solved_sound P s P' : eval_solved force imaxit itol T N ss ssi P s = Some P' -> nstep (NSolved s) P P'.
Proof.
  unfold eval_solved, nstep. destruct (force || existsb (perturbed P) (sv_ins s)) eqn:E.
  - unfold inner_solve. destruct (nl_loop _ _ _ _ _) as [Up res| |] eqn:EL; try discriminate.
    intros H; inversion H; subst. right. split; [reflexivity|]. apply nl_loop_sound in EL. destruct EL as [Hr Hok].
    exists Up. split; [exact Hr | exact Hok].
  - intros H; inversion H; subst. left. split; reflexivity.
Qed.

Lemma neval_none prog : fold_left (fun oP nb => match oP with None => None | Some P => eval_nblock force imaxit itol T N ss ssi P nb end) prog None = None.
Proof. induction prog as [|nb rest IH]; cbn [fold_left]; [reflexivity | exact IH]. Qed.

Lemma neval_steps : forall prog P0 P, neval force imaxit itol T N ss ssi prog P0 = Some P -> nsteps prog P0 P.
Proof.
  induction prog as [|nb rest IH]; intros P0 P H; unfold neval in H; cbn [fold_left] in H.
  - inversion H; reflexivity.
  - destruct (eval_nblock force imaxit itol T N ss ssi P0 nb) as [P1|] eqn:E1; [|rewrite neval_none in H; discriminate].
    cbn [nsteps]. exists P1. split; [|apply IH; exact H].
    destruct nb as [b|s]; cbn [eval_nblock] in E1; [inversion E1; reflexivity | apply eval_solved_sound; exact E1].
Qed.

Theorem nn_solve_sound_lemma maxit prog U Tg shocks tol Up res :
  nn_solve force imaxit itol T N ss ssi maxit prog U Tg shocks tol = Converged Up res ->
  nsteps prog (init_paths N ss (shocks ++ combine U Up)) res /\
  forall tg v, In tg Tg -> In v (dev_of ss res tg) -> (- tol < v)%Qc /\ (v < tol)%Qc.
Proof.
  unfold nn_solve. destruct (nn_HU T N ss prog U Tg) as [HU|]; [|discriminate].
  intros H. apply nloop_sound in H. destruct H as [Hr Hok]. split; [apply neval_steps; exact Hr|].
  intros tg v Htg Hv. apply qabs_bound. eapply nl_ok_spec; eassumption.
Qed.

Theorem nn_solve_no_return_lemma prog U Tg shocks tol Up res :
  nn_solve force imaxit itol T N ss ssi 0 prog U Tg shocks tol <> Converged Up res.
Proof. unfold nn_solve. destruct (nn_HU T N ss prog U Tg); cbn [nloop]; discriminate. Qed.

(** ---- consistency with the flattened program ---- *)
Definition blocks_of (nb : nblock) : list sblock := match nb with NSimple b => [b] | NSolved s => sv_inner s end.
Definition unknowns_of (nb : nblock) : list nat := match nb with NSimple _ => [] | NSolved s => sv_U s end.

(** names: the unknowns of a solved block are below N, are produced by no block, are read by no EARLIER block, and every name an inner block
    reads is an input of the solved block, one of its unknowns, or produced inside it *)
Fixpoint wf_nprog (prog : list nblock) : Prop :=
  match prog with
  | [] => True
  | nb :: rest =>
      (forall u, In u (unknowns_of nb) -> (u < N)%nat) /\
      (forall nb' u b, In nb' rest -> In u (unknowns_of nb') -> In b (blocks_of nb) -> ~ In u (sb_ins b) /\ ~ In u (outs_of b)) /\
      (forall u b, In u (unknowns_of nb) -> In b (flatten (nb :: rest)) -> ~ In u (outs_of b)) /\
      (forall nb' u, In nb' rest -> In u (unknowns_of nb') -> ~ In u (unknowns_of nb)) /\
      match nb with
      | NSimple _ => True
      | NSolved s => forall b x, In b (sv_inner s) -> In x (sb_ins b) -> In x (sv_ins s) \/ In x (sv_U s) \/ exists b', In b' (sv_inner s) /\ In x (outs_of b')
      end /\
      wf_nprog rest
  end.

(** what the same equations left in the outer model require of a set of paths *)
Definition flat_consistent (P : paths) (prog : list sblock) : Prop :=
  forall b oe, In b prog -> In oe (sb_outs b) ->
    path_of P (fst oe) = if force || existsb (perturbed P) (sb_ins b) then out_path T ss ssi P (snd oe) else [].

Lemma wf_prog_app : forall a b, wf_prog N (a ++ b) ->
  wf_prog N a /\ wf_prog N b /\ (forall x y o, In x a -> In y b -> In o (outs_of y) -> ~ In o (sb_ins x) /\ ~ In o (outs_of x)).
Proof.
  induction a as [|x a IH]; intros b H; cbn [app] in *.
  - split; [exact I|]. split; [exact H|]. intros ? ? ? [].
  - cbn [wf_prog] in H. destruct H as (Hv & Hnd & Hlt & Hlater & Hrest). destruct (IH b Hrest) as (Ha & Hb & Hc).
    split; [|split; [exact Hb|]].
    + cbn [wf_prog]. split; [exact Hv|]. split; [exact Hnd|]. split; [exact Hlt|]. split; [|exact Ha].
      intros b' o Hb' Ho. apply (Hlater b' o (in_or_app _ _ _ (or_introl Hb')) Ho).
    + intros x0 y o [<-|Hx] Hy Ho; [apply (Hlater y o (in_or_app _ _ _ (or_intror Hy)) Ho) | eapply Hc; eassumption].
Qed.

Lemma add_paths_spec devs : forall P, length P = N -> (forall d, In d devs -> (fst d < N)%nat) ->
  length (add_paths ss devs P) = N /\ forall x, ~ In x (map fst devs) -> path_of (add_paths ss devs P) x = path_of P x.
Proof.
  unfold add_paths. induction devs as [|d devs IH]; intros P Hl Hn; cbn [fold_left map]; [split; [exact Hl | reflexivity]|].
  assert (Hd : (fst d < length P)%nat) by (rewrite Hl; apply Hn; left; reflexivity).
  destruct (IH (upd_nth (fst d) (map (fun v => Qcplus (qlookup ss (fst d)) v) (snd d)) P)) as (L & Hun).
  { rewrite upd_nth_length by exact Hd. exact Hl. } { intros; apply Hn; right; assumption. }
  split; [exact L|]. intros x Hx. rewrite Hun by (intros H'; apply Hx; right; exact H').
  rewrite path_upd_nth by exact Hd. destruct (Nat.eqb_spec x (fst d)) as [->|]; [exfalso; apply Hx; left; reflexivity | reflexivity].
Qed.

Lemma map_fst_combine_subset {A B} (l : list A) (l' : list B) x : In x (map fst (combine l l')) -> In x l.
Proof.
  revert l'. induction l as [|a l IH]; intros [|b l'] H; cbn in *; try contradiction.
  destruct H as [<-|H]; [left; reflexivity | right; eapply IH; exact H].
Qed.

(** a step changes only the outputs of its blocks and its own unknowns *)
Lemma nstep_untouched nb P P' : length P = N -> (forall b o, In b (blocks_of nb) -> In o (outs_of b) -> (o < N)%nat) ->
  (forall u, In u (unknowns_of nb) -> (u < N)%nat) -> nstep nb P P' ->
  length P' = N /\ forall x, (forall b, In b (blocks_of nb) -> ~ In x (outs_of b)) -> ~ In x (unknowns_of nb) -> path_of P' x = path_of P x.
Proof.
  intros Hl Hout HU Hs. destruct nb as [b|s]; cbn [nstep blocks_of unknowns_of] in *.
  - subst P'. destruct (nl_eval_untouched force T ss ssi N [b] P Hl) as (L & Hun).
    { intros b' o [E|[]] Ho. subst b'. apply (Hout b o); [left; reflexivity | exact Ho]. }
    cbn [nl_eval fold_left] in L, Hun. split; [exact L|]. intros x Hx _. apply Hun. intros b' [<-|[]]. apply Hx. left; reflexivity.
  - destruct Hs as [[_ ->]|[_ [Up [-> _]]]]; [split; [exact Hl | reflexivity]|].
    unfold inner_results.
    destruct (add_paths_spec (combine (sv_U s) Up) P Hl) as (L0 & Hun0).
    { intros d Hd. apply HU. apply (map_fst_combine_subset (sv_U s) Up). apply in_map. exact Hd. }
    destruct (nl_eval_untouched force T ss ssi N (sv_inner s) _ L0 Hout) as (L & Hun).
    split; [exact L|]. intros x Hx HxU. rewrite Hun by exact Hx. apply Hun0. intros H'. apply HxU. eapply map_fst_combine_subset; exact H'.
Qed.

Lemma flatten_cons nb rest : flatten (nb :: rest) = blocks_of nb ++ flatten rest.
Proof. unfold flatten. cbn [flat_map]. destruct nb; reflexivity. Qed.
Lemma in_flatten prog b : In b (flatten prog) <-> exists nb, In nb prog /\ In b (blocks_of nb).
Proof.
  unfold flatten. rewrite in_flat_map. split; intros [nb [H1 H2]]; exists nb; (split; [exact H1|]); destruct nb; exact H2.
Qed.

Lemma nsteps_untouched : forall prog P P', length P = N -> wf_prog N (flatten prog) -> wf_nprog prog -> nsteps prog P P' ->
  length P' = N /\ forall x, (forall b, In b (flatten prog) -> ~ In x (outs_of b)) -> (forall nb, In nb prog -> ~ In x (unknowns_of nb)) -> path_of P' x = path_of P x.
Proof.
  induction prog as [|nb rest IH]; intros P P' Hl Hwf Hn Hs; cbn [nsteps] in Hs; [subst; split; [exact Hl | reflexivity]|].
  destruct Hs as [P1 [H1 Hr]]. rewrite flatten_cons in Hwf. destruct (wf_prog_app _ _ Hwf) as (Ha & Hb & _).
  cbn [wf_nprog] in Hn. destruct Hn as (HU & _ & _ & _ & _ & Hnr).
  destruct (nstep_untouched nb P P1 Hl (wf_prog_outs_lt N _ Ha) HU H1) as (L1 & Hun1).
  destruct (IH P1 P' L1 Hb Hnr Hr) as (L & Hun). split; [exact L|]. intros x Hx HxU.
  rewrite Hun; [apply Hun1 | |].
  - intros b Hb'. apply Hx. rewrite flatten_cons. apply in_or_app. left; exact Hb'.
  - apply HxU. left; reflexivity.
  - intros b Hb'. apply Hx. rewrite flatten_cons. apply in_or_app. right; exact Hb'.
  - intros nb' Hnb'. apply HxU. right; exact Hnb'.
Qed.

(** the paths a group of blocks leaves behind are consistent with the group, and stay so *)
Lemma group_consistent blocks (P0' P1 : paths) : length P0' = N -> wf_prog N blocks -> P1 = nl_eval force T ss ssi blocks P0' ->
  (forall b o, In b blocks -> In o (outs_of b) -> path_of P0' o = []) ->
  flat_consistent P1 blocks.
Proof.
  intros Hl Hwf -> Hempty b oe Hb Hoe.
  rewrite (nl_eval_consistent force T ss ssi N blocks P0' Hl Hwf b oe Hb Hoe).
  destruct (force || existsb (perturbed (nl_eval force T ss ssi blocks P0')) (sb_ins b)); [reflexivity|].
  apply (Hempty b (fst oe) Hb). apply in_map. exact Hoe.
Qed.

Lemma consistent_transfer (P1 P : paths) blocks : flat_consistent P1 blocks ->
  (forall b x, In b blocks -> In x (sb_ins b) \/ In x (outs_of b) -> path_of P x = path_of P1 x) ->
  (forall b oe x, In b blocks -> In oe (sb_outs b) -> In x (evars (snd oe)) -> In x (sb_ins b)) ->
  flat_consistent P blocks.
Proof.
  intros Hc Heq Hvars b oe Hb Hoe.
  rewrite (Heq b (fst oe) Hb (or_intror (in_map fst _ _ Hoe))). rewrite (Hc b oe Hb Hoe).
  rewrite (perturbed_ext P P1 (sb_ins b)) by (intros x Hx; apply (Heq b x Hb); left; exact Hx).
  destruct (force || existsb (perturbed P1) (sb_ins b)); [|reflexivity].
  apply out_path_ext. intros x Hx. symmetry. apply (Heq b x Hb). left. eapply Hvars; eassumption.
Qed.

Lemma wf_prog_vars : forall prog, wf_prog N prog -> forall b oe x, In b prog -> In oe (sb_outs b) -> In x (evars (snd oe)) -> In x (sb_ins b).
Proof.
  induction prog as [|b0 rest IH]; intros Hwf b oe x Hb Hoe Hx; [destruct Hb|].
  cbn [wf_prog] in Hwf. destruct Hwf as (Hv & _ & _ & _ & Hr). destruct Hb as [<-|Hb]; [eapply Hv; eassumption | eapply IH; eassumption].
Qed.

Theorem nested_consistent_with_flat : forall prog P0 P, length P0 = N -> wf_prog N (flatten prog) -> wf_nprog prog ->
  (forall b o, In b (flatten prog) -> In o (outs_of b) -> path_of P0 o = []) ->
  (forall nb u, In nb prog -> In u (unknowns_of nb) -> path_of P0 u = []) ->
  nsteps prog P0 P -> flat_consistent P (flatten prog).
Proof.
  induction prog as [|nb rest IH]; intros P0 P Hl Hwf Hn Hout0 HU0 Hs; [intros b oe []|].
  cbn [nsteps] in Hs. destruct Hs as [P1 [H1 Hr]].
  pose proof Hwf as Hwf0. rewrite flatten_cons in Hwf. destruct (wf_prog_app _ _ Hwf) as (Ha & Hb & Hcross).
  pose proof Hn as Hn0. cbn [wf_nprog] in Hn. destruct Hn as (HUlt & HUearly & HUout & HUdist & Hins & Hnr).
  destruct (nstep_untouched nb P0 P1 Hl (wf_prog_outs_lt N _ Ha) HUlt H1) as (L1 & Hun1).
  destruct (nsteps_untouched rest P1 P L1 Hb Hnr Hr) as (L & Hun).
  (* names read or produced by this step's blocks survive the remaining steps *)
  assert (Hkeep : forall b x, In b (blocks_of nb) -> In x (sb_ins b) \/ In x (outs_of b) -> path_of P x = path_of P1 x).
  { intros b x Hb' Hx. apply Hun.
    - intros y Hy Ho. destruct (Hcross b y x Hb' Hy Ho) as [C1 C2]. destruct Hx; contradiction.
    - intros nb' Hnb' Hu. destruct (HUearly nb' x b Hnb' Hu Hb') as [C1 C2]. destruct Hx; contradiction. }
  assert (Hrest : flat_consistent P (flatten rest)).
  { apply (IH P1 P L1 Hb Hnr); [| |exact Hr].
    - intros b o Hb' Ho. rewrite Hun1; [apply (Hout0 b o); [rewrite flatten_cons; apply in_or_app; right; exact Hb' | exact Ho] | |].
      + intros y Hy Ho'. apply (proj2 (Hcross y b o Hy Hb' Ho)). exact Ho'.
      + intros Hu. apply (HUout o b Hu); [rewrite flatten_cons; apply in_or_app; right; exact Hb' | exact Ho].
    - intros nb' u Hnb' Hu. rewrite Hun1; [apply (HU0 nb' u (or_intror Hnb') Hu) | |].
      + intros y Hy Ho. apply (proj2 (HUearly nb' u y Hnb' Hu Hy)). exact Ho.
      + apply (HUdist nb' u Hnb' Hu). }
  assert (Hthis : flat_consistent P (blocks_of nb)).
  { apply (consistent_transfer P1 P (blocks_of nb)); [|exact Hkeep | apply (wf_prog_vars _ Ha)].
    destruct nb as [b|s]; cbn [nstep blocks_of unknowns_of] in *.
    - apply (group_consistent [b] P0 P1 Hl Ha); [subst P1; reflexivity|].
      intros b' o Hb' Ho. apply (Hout0 b' o); [rewrite flatten_cons; apply in_or_app; left; exact Hb' | exact Ho].
    - destruct H1 as [[Hskip ->]|[_ [Up [-> _]]]].
      + (* the solved block was skipped: none of its inner blocks has a perturbed input *)
        apply orb_false_elim in Hskip. destruct Hskip as [Hf Hnone].
        assert (Hquiet : forall x, In x (sv_ins s) \/ In x (sv_U s) \/ (exists b', In b' (sv_inner s) /\ In x (outs_of b')) -> perturbed P0 x = false).
        { intros x [Hx|[Hx|[b' [Hb' Hx]]]].
          - destruct (perturbed P0 x) eqn:E; [|reflexivity]. exfalso.
            assert (Ht : existsb (perturbed P0) (sv_ins s) = true) by (apply existsb_exists; exists x; split; assumption). congruence.
          - unfold perturbed. unfold path_of in HU0. rewrite (HU0 (NSolved s) x (or_introl eq_refl) Hx). reflexivity.
          - unfold perturbed. unfold path_of in Hout0. rewrite (Hout0 b' x); [reflexivity | rewrite flatten_cons; apply in_or_app; left; exact Hb' | exact Hx]. }
        intros b oe Hb' Hoe. rewrite Hf. cbn [orb].
        assert (Hex : existsb (perturbed P0) (sb_ins b) = false).
        { apply not_true_is_false. intros Hex. apply existsb_exists in Hex. destruct Hex as [x [Hx Hp]]. rewrite (Hquiet x (Hins b x Hb' Hx)) in Hp. discriminate. }
        rewrite Hex. apply (Hout0 b (fst oe)); [rewrite flatten_cons; apply in_or_app; left; exact Hb' | apply in_map; exact Hoe].
      + unfold inner_results.
        destruct (add_paths_spec (combine (sv_U s) Up) P0 Hl) as (L0 & Hun0).
        { intros d Hd. apply HUlt. apply (map_fst_combine_subset (sv_U s) Up). apply in_map. exact Hd. }
        apply (group_consistent (sv_inner s) _ _ L0 Ha eq_refl).
        intros b' o Hb' Ho. rewrite Hun0.
        * apply (Hout0 b' o); [rewrite flatten_cons; apply in_or_app; left; exact Hb' | exact Ho].
        * intros H'. apply map_fst_combine_subset in H'. apply (HUout o b' H'); [rewrite flatten_cons; apply in_or_app; left; exact Hb' | exact Ho]. }
  intros b oe Hb'. rewrite flatten_cons in Hb'. apply in_app_or in Hb'. destruct Hb' as [Hb'|Hb']; [apply Hthis | apply Hrest]; exact Hb'.
Qed.
End Sound.

(** ---- decidable well-formedness (evaluated by the correspondence check on every generated case) ---- *)
Fixpoint wf_nprogb (N : nat) (prog : list nblock) : bool :=
  match prog with
  | [] => true
  | nb :: rest =>
      forallb (fun u => Nat.ltb u N) (unknowns_of nb)
      && forallb (fun nb' => forallb (fun u => forallb (fun b => negb (memb u (sb_ins b)) && negb (memb u (outs_of b))) (blocks_of nb)) (unknowns_of nb')) rest
      && forallb (fun u => forallb (fun b => negb (memb u (outs_of b))) (flatten (nb :: rest))) (unknowns_of nb)
      && forallb (fun nb' => forallb (fun u => negb (memb u (unknowns_of nb))) (unknowns_of nb')) rest
      && match nb with
         | NSimple _ => true
         | NSolved s => forallb (fun b => forallb (fun x => memb x (sv_ins s) || memb x (sv_U s) || existsb (fun b' => memb x (outs_of b')) (sv_inner s)) (sb_ins b)) (sv_inner s)
         end
      && wf_nprogb N rest
  end.

Lemma negb_memb x l : negb (memb x l) = true -> ~ In x l.
Proof. intros H. apply memb_false. apply negb_true_iff. exact H. Qed.

Theorem wf_nprogb_sound N : forall prog, wf_nprogb N prog = true -> wf_nprog N prog.
Proof.
  induction prog as [|nb rest IH]; intros H; cbn [wf_nprogb wf_nprog] in *; [exact I|].
  repeat (apply andb_true_iff in H; destruct H as [H ?]).
  match goal with
  | H1 : forallb _ (unknowns_of nb) = true, H2 : forallb _ rest = true, H3 : forallb _ (unknowns_of nb) = true, H4 : forallb _ rest = true, H5 : _ = true, H6 : wf_nprogb N rest = true |- _ =>
      rename H1 into A1; rename H2 into A2; rename H3 into A3; rename H4 into A4; rename H5 into A5; rename H6 into A6
  end.
  rewrite forallb_forall in A1, A2, A3, A4.
  split; [intros u Hu; apply Nat.ltb_lt; apply A1; exact Hu|].
  split.
  { intros nb' u b Hnb' Hu Hb. specialize (A2 nb' Hnb'). rewrite forallb_forall in A2. specialize (A2 u Hu). rewrite forallb_forall in A2. specialize (A2 b Hb).
    apply andb_true_iff in A2. destruct A2 as [B1 B2]. split; apply negb_memb; assumption. }
  split.
  { intros u b Hu Hb. specialize (A3 u Hu). rewrite forallb_forall in A3. apply negb_memb. apply A3. exact Hb. }
  split.
  { intros nb' u Hnb' Hu. specialize (A4 nb' Hnb'). rewrite forallb_forall in A4. apply negb_memb. apply A4. exact Hu. }
  split; [|apply IH; exact A6].
  destruct nb as [b0|s]; [exact I|].
  intros b x Hb Hx. rewrite forallb_forall in A5. specialize (A5 b Hb). rewrite forallb_forall in A5. specialize (A5 x Hx).
  apply orb_true_iff in A5. destruct A5 as [A5|A5]; [apply orb_true_iff in A5; destruct A5 as [A5|A5]|].
  - left. apply memb_In. exact A5.
  - right; left. apply memb_In. exact A5.
  - right; right. apply existsb_exists in A5. destruct A5 as [b' [Hb' Hm]]. exists b'. split; [exact Hb' | apply memb_In; exact Hm].
Qed.

(** ---- nested = flat evaluation: the paths the nested evaluation leaves ARE the flattened model evaluated at the same shocks with the inner
     unknowns set to the paths the solved blocks report ---- *)
Definition copy_paths (us : list nat) (P P0 : paths) : paths := fold_left (fun Q u => upd_nth u (path_of P u) Q) us P0.
Definition all_unknowns (prog : list nblock) : list nat := flat_map unknowns_of prog.

Lemma copy_paths_spec N (P : paths) us : forall P0, length P0 = N -> (forall u, In u us -> (u < N)%nat) ->
  length (copy_paths us P P0) = N /\ forall x, path_of (copy_paths us P P0) x = if memb x us then path_of P x else path_of P0 x.
Proof.
  unfold copy_paths. induction us as [|u us IH]; intros P0 Hl Hn; cbn [fold_left]; [split; [exact Hl | reflexivity]|].
  assert (Hu : (u < length P0)%nat) by (rewrite Hl; apply Hn; left; reflexivity).
  destruct (IH (upd_nth u (path_of P u) P0)) as (L & Hs); [rewrite upd_nth_length by exact Hu; exact Hl | intros; apply Hn; right; assumption |].
  split; [exact L|]. intros x. rewrite Hs. unfold memb. cbn [existsb]. rewrite path_upd_nth by exact Hu.
  destruct (Nat.eqb_spec x u) as [->|Hne].
  - cbn [orb]. destruct (existsb (Nat.eqb u) us); reflexivity.
  - cbn [orb]. reflexivity.
Qed.

Lemma wf_nprog_unknowns_lt N : forall prog, wf_nprog N prog -> forall u, In u (all_unknowns prog) -> (u < N)%nat.
Proof.
  induction prog as [|nb rest IH]; intros Hn u Hu; [destruct Hu|]. cbn [wf_nprog] in Hn. destruct Hn as (HU & _ & _ & _ & _ & Hr).
  unfold all_unknowns in Hu. cbn [flat_map] in Hu. apply in_app_or in Hu. destruct Hu as [Hu|Hu]; [apply HU; exact Hu | apply IH; assumption].
Qed.
Lemma wf_nprog_unknowns_not_outputs N : forall prog, wf_nprog N prog -> forall u b, In u (all_unknowns prog) -> In b (flatten prog) -> ~ In u (outs_of b).
Proof.
  induction prog as [|nb rest IH]; intros Hn u b Hu Hb; [destruct Hu|]. cbn [wf_nprog] in Hn. destruct Hn as (_ & HUearly & HUout & _ & _ & Hr).
  unfold all_unknowns in Hu. cbn [flat_map] in Hu. apply in_app_or in Hu. destruct Hu as [Hu|Hu]; [apply HUout; assumption|].
  rewrite flatten_cons in Hb. apply in_app_or in Hb. destruct Hb as [Hb|Hb]; [|apply IH; assumption].
  unfold all_unknowns in Hu. apply in_flat_map in Hu. destruct Hu as [nb' [Hnb' Hu]]. apply (proj2 (HUearly nb' u b Hnb' Hu Hb)).
Qed.

Theorem nested_equals_flat_evaluation (force : bool) (itol : Qc) (T : Z) (N : nat) (ss ssi : tbl) : forall prog P0 P, length P0 = N ->
  wf_prog N (flatten prog) -> wf_nprog N prog ->
  (forall b o, In b (flatten prog) -> In o (outs_of b) -> path_of P0 o = []) ->
  (forall nb u, In nb prog -> In u (unknowns_of nb) -> path_of P0 u = []) ->
  nsteps force itol T ss ssi prog P0 P ->
  forall x, path_of P x = path_of (nl_eval force T ss ssi (flatten prog) (copy_paths (all_unknowns prog) P P0)) x.
Proof.
  intros prog P0 P Hl Hwf Hn Hout0 HU0 Hs x.
  pose proof (nested_consistent_with_flat force itol T N ss ssi prog P0 P Hl Hwf Hn Hout0 HU0 Hs) as Hfc.
  destruct (nsteps_untouched force itol T N ss ssi prog P0 P Hl Hwf Hn Hs) as (LP & HunP).
  destruct (copy_paths_spec N P (all_unknowns prog) P0 Hl (wf_nprog_unknowns_lt N prog Hn)) as (L0 & Hcp).
  set (P0' := copy_paths (all_unknowns prog) P P0) in *.
  set (Q := nl_eval force T ss ssi (flatten prog) P0').
  pose proof (nl_eval_consistent force T ss ssi N (flatten prog) P0' L0 Hwf) as HcQ. fold Q in HcQ.
  destruct (nl_eval_untouched force T ss ssi N (flatten prog) P0' L0 (wf_prog_outs_lt N _ Hwf)) as (LQ & HunQ). fold Q in LQ, HunQ.
  (* outputs are not unknowns, so they are empty in P0' too *)
  assert (Hout0' : forall b o, In b (flatten prog) -> In o (outs_of b) -> path_of P0' o = []).
  { intros b o Hb Ho. rewrite Hcp. destruct (memb o (all_unknowns prog)) eqn:E; [|apply (Hout0 b o Hb Ho)].
    exfalso. apply memb_In in E. apply (wf_nprog_unknowns_not_outputs N prog Hn o b E Hb Ho). }
  assert (HcP : nl_consistent force T ss ssi P0' P (flatten prog)).
  { intros b oe Hb Hoe. rewrite (Hfc b oe Hb Hoe). destruct (force || existsb (perturbed P) (sb_ins b)); [reflexivity|].
    symmetry. apply (Hout0' b (fst oe) Hb). apply in_map. exact Hoe. }
  (* names that no block produces agree *)
  assert (Hext : forall y, (forall b, In b (flatten prog) -> ~ In y (outs_of b)) -> path_of P y = path_of Q y).
  { intros y Hy. rewrite (HunQ y Hy). rewrite Hcp. destruct (memb y (all_unknowns prog)) eqn:E; [reflexivity|].
    apply HunP; [exact Hy|]. intros nb Hnb Hu. apply memb_false in E. apply E. unfold all_unknowns. apply in_flat_map. exists nb. split; assumption. }
  destruct (in_dec Nat.eq_dec x (flat_map outs_of (flatten prog))) as [Hin|Hnin].
  - apply in_flat_map in Hin. destruct Hin as [b [Hb Ho]].
    apply (nl_consistent_unique force T ss ssi N (flatten prog) P0' P Q Hwf HcP HcQ Hext b x Hb Ho).
  - apply Hext. intros b Hb Ho. apply Hnin. apply in_flat_map. exists b. split; assumption.
Qed.

(** ---- a zero shock through a model that contains solved blocks: every inner solve returns at once with zero deviations, and so does the outer solve ---- *)
Lemma add_paths_at_ss N ss devs : forall P, at_ss ss P -> length P = N ->
  (forall d v, In d devs -> In v (snd d) -> v = g0) -> (forall d, In d devs -> (fst d < N)%nat) ->
  at_ss ss (add_paths ss devs P) /\ length (add_paths ss devs P) = N.
Proof.
  unfold add_paths. induction devs as [|d devs IH]; intros P Hat Hl Hz Hn; cbn [fold_left]; [split; assumption|].
  assert (Hd : (fst d < length P)%nat) by (rewrite Hl; apply Hn; left; reflexivity).
  apply IH.
  - intros x v Hv. rewrite nth_upd_nth in Hv by exact Hd.
    destruct (Nat.eqb_spec x (fst d)) as [->|Hne]; [|apply Hat; exact Hv].
    apply in_map_iff in Hv. destruct Hv as [w [Hv Hw]]. subst v.
    rewrite (Hz d w (or_introl eq_refl) Hw). change g0 with (Q2Qc 0). ring.
  - rewrite upd_nth_length by exact Hd. exact Hl.
  - intros d' v Hd' Hv. apply (Hz d' v (or_intror Hd') Hv).
  - intros d' Hd'. apply Hn. right; exact Hd'.
Qed.

Lemma nl_ok_at_ss ss Tg tol res : at_ss ss res -> (g0 < tol)%Qc -> nl_ok ss Tg tol res = true.
Proof.
  intros Hat Htol. unfold nl_ok. apply forallb_forall; intros tg _. apply forallb_forall; intros v Hv.
  rewrite (dev_of_at_ss ss res tg v Hat Hv). apply qabs_zero_lt; exact Htol.
Qed.

Lemma zero_paths_zero (U : list nat) (T : Z) d v : In d (combine U (map (fun _ => repeat g0 (Z.to_nat T)) U)) -> In v (snd d) -> v = g0.
Proof.
  intros Hd Hv. destruct d as [u p]. pose proof (in_combine_r _ _ _ _ Hd) as Hp. apply in_map_iff in Hp. destruct Hp as [_ [Hp _]]. subst p.
  cbn [snd] in Hv. apply repeat_spec in Hv. exact Hv.
Qed.

Section ZeroShock.
Variables (force : bool) (im : nat) (itol : Qc) (T : Z) (N : nat) (ss : tbl).
Hypothesis Hitol : (g0 < itol)%Qc.

Definition block_ok (nb : nblock) : Prop :=
  ss_consistent ss (blocks_of nb) /\ (forall b oe, In b (blocks_of nb) -> In oe (sb_outs b) -> (fst oe < N)%nat) /\ (forall u, In u (unknowns_of nb) -> (u < N)%nat).

Lemma eval_nblock_at_ss nb P : block_ok nb -> at_ss ss P -> length P = N ->
  exists P', eval_nblock force (S im) itol T N ss ss P nb = Some P' /\ at_ss ss P' /\ length P' = N.
Proof.
  intros (Hc & Hout & HU) Hat Hl. destruct nb as [b|s]; cbn [eval_nblock blocks_of unknowns_of] in *.
  - destruct (eval_block_at_ss force T ss [b] b P Hc (or_introl eq_refl)) as [Hat' Hl']; [intros oe Hoe; rewrite Hl; apply (Hout b oe (or_introl eq_refl) Hoe) | exact Hat |].
    eexists. split; [reflexivity|]. split; [exact Hat' | rewrite Hl'; exact Hl].
  - unfold eval_solved. destruct (force || existsb (perturbed P) (sv_ins s)); [|exists P; split; [reflexivity | split; assumption]].
    set (U0 := map (fun _ => repeat g0 (Z.to_nat T)) (sv_U s)).
    destruct (add_paths_at_ss N ss (combine (sv_U s) U0) P Hat Hl) as [Hat0 Hl0].
    { intros d v Hd Hv. eapply zero_paths_zero; eassumption. }
    { intros d Hd. apply HU. destruct d as [u p]. exact (in_combine_l _ _ _ _ Hd). }
    assert (Hres : at_ss ss (inner_results force T ss ss s P U0)).
    { unfold inner_results. apply nl_eval_at_ss; [exact Hc | rewrite Hl0; exact Hout | exact Hat0]. }
    destruct (nl_eval_untouched force T ss ss N (sv_inner s) _ Hl0 (fun b o Hb Ho => match in_map_iff fst (sb_outs b) o with conj f _ => match f Ho with ex_intro _ oe (conj E Hoe) => eq_ind _ (fun x => (x < N)%nat) (Hout b oe Hb Hoe) _ E end end)) as [Lr _].
    unfold inner_solve. fold U0. rewrite nl_loop_first by (apply nl_ok_at_ss; [exact Hres | exact Hitol]).
    eexists. split; [reflexivity|]. split; [exact Hres | exact Lr].
Qed.

Lemma neval_at_ss : forall prog P, (forall nb, In nb prog -> block_ok nb) -> at_ss ss P -> length P = N ->
  exists P', neval force (S im) itol T N ss ss prog P = Some P' /\ at_ss ss P' /\ length P' = N.
Proof.
  unfold neval. induction prog as [|nb rest IH]; intros P Hok Hat Hl; cbn [fold_left]; [exists P; split; [reflexivity | split; assumption]|].
  destruct (eval_nblock_at_ss nb P (Hok nb (or_introl eq_refl)) Hat Hl) as (P1 & E1 & Hat1 & Hl1). rewrite E1.
  apply IH; [intros nb' H'; apply Hok; right; exact H' | exact Hat1 | exact Hl1].
Qed.

Theorem nested_zero_shock_lemma maxit prog U Tg shocks tol HU :
  (forall nb, In nb prog -> block_ok nb) -> (forall d, In d shocks -> (fst d < N)%nat) -> (forall u, In u U -> (u < N)%nat) ->
  (forall d v, In d shocks -> In v (snd d) -> v = g0) -> (g0 < tol)%Qc ->
  nn_HU T N ss prog U Tg = Some HU ->
  let U0 := map (fun _ => repeat g0 (Z.to_nat T)) U in
  exists res, nn_solve force (S im) itol T N ss ss (S maxit) prog U Tg shocks tol = Converged U0 res /\ forall o v, In v (dev_of ss res o) -> v = g0.
Proof.
  intros Hok Hsh HUlt Hz Htol EH U0.
  destruct (init_paths_at_ss N ss (shocks ++ combine U U0)) as [Hat Hl].
  { intros d v Hd Hv. apply in_app_or in Hd. destruct Hd as [Hd|Hd]; [apply (Hz d v Hd Hv) | eapply zero_paths_zero; eassumption]. }
  { intros d Hd. apply in_app_or in Hd. destruct Hd as [Hd|Hd]; [apply Hsh; exact Hd|]. apply HUlt. destruct d as [u p]. exact (in_combine_l _ _ _ _ Hd). }
  destruct (neval_at_ss prog _ Hok Hat Hl) as (res & Er & Hatr & _).
  exists res. split; [|intros o v Hv; eapply dev_of_at_ss; eassumption].
  unfold nn_solve. rewrite EH. cbn [nloop]. fold U0. unfold nn_results. rewrite Er. rewrite (nl_ok_at_ss ss Tg tol res Hatr Htol). reflexivity.
Qed.
End ZeroShock.
