(** C15: soundness of the topological sort (Kahn with the code's stack and KeyError discipline),
    duplicate-output rejection, model inputs/outputs, reachability sweeps, cycle reports are real cycles. *)
From Coq Require Import Arith Bool List Lia Permutation.
From SSJ Require Import Model.Graph.
Import ListNotations.

Lemma memn_In x l : memn x l = true <-> In x l.
Proof.
  unfold memn. rewrite existsb_exists. split.
  - intros [y [Hy He]]. apply Nat.eqb_eq in He. subst; assumption.
  - intros H. exists x. split; [assumption | apply Nat.eqb_refl].
Qed.

Lemma memn_false x l : memn x l = false <-> ~ In x l.
Proof. rewrite <- memn_In. destruct (memn x l); split; congruence. Qed.

Lemma In_addn x k s : In x (addn k s) <-> In x s \/ x = k.
Proof.
  unfold addn. destruct (memn k s) eqn:E.
  - apply memn_In in E. split; [auto | intros [H| ->]; assumption].
  - rewrite in_app_iff. cbn. intuition.
Qed.

Lemma In_dedup_acc x l acc : In x (fold_left (fun acc x => addn x acc) l acc) <-> In x acc \/ In x l.
Proof.
  revert acc. induction l as [|k l IH]; intros acc; cbn [fold_left]; [cbn; intuition|].
  rewrite IH, In_addn. cbn. intuition.
Qed.

Lemma In_dedup x l : In x (dedup l) <-> In x l.
Proof. unfold dedup. rewrite In_dedup_acc. cbn. intuition. Qed.

Lemma In_removen x y l : In x (removen y l) <-> In x l /\ x <> y.
Proof. unfold removen. rewrite filter_In, negb_true_iff, Nat.eqb_neq. reflexivity. Qed.

(** [upd] *)
Lemma length_upd {A} n (x : A) l : length (upd n x l) = length l.
Proof.
  unfold upd. destruct (skipn n l) as [|y r] eqn:E.
  - rewrite app_nil_r. rewrite firstn_length. assert (length (skipn n l) = 0) by (rewrite E; reflexivity).
    rewrite skipn_length in H. lia.
  - rewrite app_length, firstn_length. cbn. assert (length (skipn n l) = S (length r)) by (rewrite E; reflexivity).
    rewrite skipn_length in H. lia.
Qed.

Lemma nth_upd_same {A} n (x d : A) l : n < length l -> nth n (upd n x l) d = x.
Proof.
  intros H. unfold upd. destruct (skipn n l) as [|y r] eqn:E.
  - assert (length (skipn n l) = 0) by (rewrite E; reflexivity). rewrite skipn_length in H0. lia.
  - rewrite app_nth2; rewrite firstn_length; [|lia]. replace (n - Nat.min n (length l)) with 0 by lia. reflexivity.
Qed.

Lemma nth_upd_other {A} n m (x d : A) l : m <> n -> nth m (upd n x l) d = nth m l d.
Proof.
  intros Hne. unfold upd. rewrite <- (firstn_skipn n l) at 3.
  destruct (Nat.lt_ge_cases m n) as [Hlt|Hge].
  - destruct (Nat.lt_ge_cases m (length (firstn n l))) as [H1|H1].
    + rewrite !app_nth1 by assumption. reflexivity.
    + rewrite firstn_length in H1. assert (Hl : length l <= m) by lia.
      rewrite !nth_overflow; try reflexivity.
      * rewrite app_length, firstn_length, skipn_length. lia.
      * rewrite app_length, firstn_length. destruct (skipn n l) eqn:E; cbn; [lia|].
        assert (length (skipn n l) = S (length l0)) by (rewrite E; reflexivity). rewrite skipn_length in H. lia.
  - destruct (skipn n l) as [|y r] eqn:E.
    + reflexivity.
    + assert (Hn : length (firstn n l) = n).
      { rewrite firstn_length. assert (length (skipn n l) = S (length r)) by (rewrite E; reflexivity). rewrite skipn_length in H. lia. }
      rewrite !app_nth2 by lia. rewrite Hn. destruct (m - n) as [|k] eqn:Ek; [lia|]. reflexivity.
Qed.

Lemma nth_nonempty_lt {A} n (l : list (list A)) : nth n l [] <> [] -> n < length l.
Proof. intros H. destruct (Nat.lt_ge_cases n (length l)); [assumption|]. rewrite nth_overflow in H by assumption. congruence. Qed.

Lemma relax_fold_length n l : forall st d1 s1,
  fold_left (kahn_relax n) l st = Some (d1, s1) -> exists d0 s0, st = Some (d0, s0) /\ length d1 = length d0.
Proof.
  induction l as [|n2 l IHl]; intros st d1 s1 H; cbn [fold_left] in H.
  - subst. eexists; eexists; split; reflexivity.
  - apply IHl in H. destruct H as (d0 & s0 & H0 & Hl). destruct st as [[dd ss]|]; [|discriminate].
    unfold kahn_relax in H0. destruct (memn n (nth n2 dd [])); [|discriminate]. inversion H0; subst.
    eexists; eexists; split; [reflexivity|]. rewrite Hl, length_upd. reflexivity.
Qed.

Lemma relax_fold_length' n l dep stack d1 s1 :
  fold_left (kahn_relax n) l (Some (dep, stack)) = Some (d1, s1) -> length d1 = length dep.
Proof. intros H. apply relax_fold_length in H. destruct H as (d0 & s0 & H0 & Hl). inversion H0; subst. assumption. Qed.

(** -------------------------------------------------------------------------------------------- *)
Section Kahn.
Variable orig : nat -> list nat.       (* revadj: the nodes each node depends on *)
Variable adj : nat -> list nat.

(** every dependency of a node occurs strictly before it *)
Definition sound_acc (acc : list nat) : Prop :=
  forall l1 n l2, acc = l1 ++ n :: l2 -> forall d, In d (orig n) -> In d l1.

Record Inv (dep : list (list nat)) (stack acc : list nat) : Prop := {
  inv_a : forall n d, In d (orig n) -> In d (nth n dep []) \/ In d acc;
  inv_b : forall n, In n stack \/ In n acc -> nth n dep [] = [];
  inv_c : sound_acc acc;
  inv_d : NoDup (stack ++ acc);
  inv_e : forall n, In n stack \/ In n acc -> n < length dep }.

Lemma sound_acc_snoc acc n : sound_acc acc -> (forall d, In d (orig n) -> In d acc) -> ~ In n acc -> sound_acc (acc ++ [n]).
Proof.
  intros Hs Hn Hnot l1 m l2 E d Hd.
  destruct l2 as [|y l2'] using rev_ind.
  - change (l1 ++ [m]) with (l1 ++ [m]) in E. apply app_inj_tail in E. destruct E as [-> ->]. apply Hn; assumption.
  - clear IHl2'. rewrite app_comm_cons, app_assoc in E. apply app_inj_tail in E. destruct E as [E ->].
    eapply Hs; eassumption.
Qed.

Lemma relax_inv n n2 dep stack acc dep' stack' :
  In n acc ->
  Inv dep stack acc -> kahn_relax n (Some (dep, stack)) n2 = Some (dep', stack') -> Inv dep' stack' acc.
Proof.
  intros Hn [Ha Hb Hc Hd He]. unfold kahn_relax. destruct (memn n (nth n2 dep [])) eqn:Em; [|discriminate].
  apply memn_In in Em. intros H; inversion H; subst dep' stack'; clear H.
  assert (Hlt : n2 < length dep) by (apply nth_nonempty_lt; intros E; rewrite E in Em; contradiction).
  assert (Hfresh : ~ (In n2 stack \/ In n2 acc)) by (intros Hin; apply Hb in Hin; rewrite Hin in Em; contradiction).
  constructor.
  - intros m d Hdm. destruct (Nat.eq_dec m n2) as [->|Hne].
    + rewrite nth_upd_same by assumption. destruct (Ha n2 d Hdm) as [H|H]; [|right; assumption].
      destruct (Nat.eq_dec d n) as [->|Hdn]; [right; assumption | left; apply In_removen; split; assumption].
    + rewrite nth_upd_other by assumption. apply Ha; assumption.
  - intros m Hm. destruct (Nat.eq_dec m n2) as [->|Hne].
    + rewrite nth_upd_same by assumption. destruct (removen n (nth n2 dep [])) eqn:E; [reflexivity|].
      exfalso. apply Hfresh. destruct Hm as [Hm|Hm]; [left; assumption | right; assumption].
    + rewrite nth_upd_other by assumption. apply Hb. destruct (removen n (nth n2 dep [])) eqn:E; [|assumption].
      destruct Hm as [[Hm|Hm]|Hm]; [congruence | left; assumption | right; assumption].
  - assumption.
  - destruct (removen n (nth n2 dep [])) eqn:E; [|assumption]. cbn. constructor; [|assumption].
    rewrite in_app_iff. exact Hfresh.
  - intros m Hm. rewrite length_upd. destruct (removen n (nth n2 dep [])) eqn:E; [|apply He; assumption].
    destruct Hm as [[Hm|Hm]|Hm]; [subst; assumption | apply He; left; assumption | apply He; right; assumption].
Qed.

Lemma relax_fold_inv n l : forall dep stack acc dep' stack',
  In n acc -> Inv dep stack acc ->
  fold_left (kahn_relax n) l (Some (dep, stack)) = Some (dep', stack') -> Inv dep' stack' acc.
Proof.
  induction l as [|n2 l IH]; intros dep stack acc dep' stack' Hn HI H; cbn [fold_left] in H.
  - inversion H; subst; assumption.
  - destruct (kahn_relax n (Some (dep, stack)) n2) as [[d1 s1]|] eqn:E.
    + eapply IH; [eassumption | eapply relax_inv; eassumption | eassumption].
    + exfalso. clear -H. induction l; cbn in H; [discriminate | auto].
Qed.

Lemma kahn_loop_sound fuel : forall dep stack acc dep' acc',
  Inv dep stack acc -> kahn_loop fuel adj dep stack acc = Some (dep', acc') ->
  sound_acc acc' /\ NoDup acc' /\ (forall n, In n acc' -> n < length dep') /\ length dep' = length dep.
Proof.
  induction fuel as [|f IH]; intros dep stack acc dep' acc' HI H.
  - destruct stack; cbn in H; [|discriminate]. inversion H; subst. destruct HI as [Ha Hb Hc Hd He].
    repeat split; try assumption. intros n Hn; apply He; right; assumption.
  - destruct stack as [|n stack']; cbn [kahn_loop] in H.
    + inversion H; subst. destruct HI as [Ha Hb Hc Hd He]. repeat split; try assumption. intros n Hn; apply He; right; assumption.
    + destruct (fold_left (kahn_relax n) (adj n) (Some (dep, stack'))) as [[d1 s1]|] eqn:E; [|discriminate].
      assert (HI1 : Inv dep stack' (acc ++ [n])).
      { destruct HI as [Ha Hb Hc Hd He]. 
        assert (Hnd : ~ In n (stack' ++ acc)) by (inversion Hd; assumption).
        constructor.
        - intros m d Hdm. destruct (Ha m d Hdm) as [H1|H1]; [left; assumption | right; apply in_or_app; left; assumption].
        - intros m Hm. apply Hb. destruct Hm as [Hm|Hm]; [left; right; assumption|].
          apply in_app_or in Hm. destruct Hm as [Hm|[->|[]]]; [right; assumption | left; left; reflexivity].
        - apply sound_acc_snoc; [assumption | | intros Hin; apply Hnd; apply in_or_app; right; assumption].
          intros d Hdn. destruct (Ha n d Hdn) as [H1|H1]; [|assumption].
          rewrite (Hb n (or_introl (or_introl eq_refl))) in H1. contradiction.
        - rewrite app_assoc. apply (Permutation_NoDup (Permutation_cons_append (stack' ++ acc) n)). exact Hd.
        - intros m Hm. apply He. destruct Hm as [Hm|Hm]; [left; right; assumption|].
          apply in_app_or in Hm. destruct Hm as [Hm|[->|[]]]; [right; assumption | left; left; reflexivity]. }
      assert (HI2 : Inv d1 s1 (acc ++ [n])).
      { eapply relax_fold_inv; [| exact HI1 | exact E]. apply in_or_app; right; left; reflexivity. }
      specialize (IH _ _ _ _ _ HI2 H). destruct IH as (I1 & I2 & I3 & I4). repeat split; try assumption.
      rewrite I4. eapply relax_fold_length'; eassumption.
Qed.
End Kahn.

(** -------------------------------------------------------------------------------------------- *)
(** top level: topological_sort *)

Lemma nth_map_seq {A} (f : nat -> A) N n d : n < N -> nth n (map f (seq 0 N)) d = f n.
Proof. intros H. rewrite (nth_indep _ d (f 0)) by (rewrite map_length, seq_length; assumption). rewrite map_nth, seq_nth by assumption. reflexivity. Qed.

Lemma blkn_overflow bs n : length bs <= n -> blkn bs n = {| b_in := []; b_out := [] |}.
Proof. intros H. unfold blkn. apply nth_overflow; assumption. Qed.

Lemma In_revadj bs n p : In p (revadj_of bs n) <-> exists i, In i (b_in (blkn bs n)) /\ In p (producers bs i).
Proof. unfold revadj_of. rewrite In_dedup, in_flat_map. reflexivity. Qed.

Theorem toposort_sound_lemma bs order : topological_sort bs = Sorted order ->
  Permutation order (seq 0 (length bs)) /\
  (forall l1 n l2, order = l1 ++ n :: l2 ->
     forall i p, In i (b_in (blkn bs n)) -> In p (producers bs i) -> In p l1).
Proof.
  unfold topological_sort, indices. set (N := length bs). set (dep := map (revadj_of bs) (seq 0 N)).
  set (nodeps := filter _ (seq 0 N)).
  destruct (kahn_loop (S N) (adj_of bs) dep (rev nodeps) []) as [[dep' acc]|] eqn:E; [|discriminate].
  destruct (Nat.eqb (length acc) N) eqn:El; [|discriminate]. intros H; inversion H; subst acc; clear H.
  apply Nat.eqb_eq in El.
  assert (Hdeplen : length dep = N) by (unfold dep; rewrite map_length, seq_length; reflexivity).
  assert (HI : Inv (revadj_of bs) dep (rev nodeps) []).
  { constructor.
    - intros n d Hd. left. destruct (Nat.lt_ge_cases n N) as [Hlt|Hge].
      + unfold dep. rewrite nth_map_seq by assumption. assumption.
      + exfalso. unfold revadj_of in Hd. rewrite blkn_overflow in Hd by assumption. cbn in Hd. exact Hd.
    - intros n [Hn|[]]. apply in_rev in Hn. unfold nodeps in Hn. apply filter_In in Hn. destruct Hn as [_ Hn].
      destruct (nth n dep []); [reflexivity | discriminate].
    - intros l1 n l2 E0. destruct l1; discriminate.
    - rewrite app_nil_r. apply NoDup_rev. apply NoDup_filter. apply seq_NoDup.
    - intros n [Hn|[]]. apply in_rev in Hn. unfold nodeps in Hn. apply filter_In in Hn. destruct Hn as [Hn _].
      apply in_seq in Hn. lia. }
  pose proof (kahn_loop_sound (revadj_of bs) (adj_of bs) _ _ _ _ _ _ HI E) as (S1 & S2 & S3 & S4).
  split.
  - apply NoDup_Permutation_bis; [assumption | rewrite seq_length; lia|].
    intros n Hn. apply in_seq. specialize (S3 n Hn). lia.
  - intros l1 n l2 Eo i p Hi Hp. eapply S1; [exact Eo|]. apply In_revadj. exists i. split; assumption.
Qed.

Lemma has_dup_spec l : has_dup l = false <-> NoDup l.
Proof.
  induction l as [|x l IH]; cbn; [split; [constructor | reflexivity]|].
  rewrite orb_false_iff, IH, memn_false. split; [intros [H1 H2]; constructor; assumption | intros H; inversion H; auto].
Qed.

Theorem dup_output_rejected_lemma bs : output_map_ok bs = false <-> ~ NoDup (all_outputs bs).
Proof.
  unfold output_map_ok. rewrite negb_false_iff. rewrite <- has_dup_spec. destruct (has_dup (all_outputs bs)); split; congruence.
Qed.

Theorem dag_io_lemma bs x :
  (In x (dag_inputs bs) <-> (exists b, In b bs /\ In x (b_in b)) /\ ~ (exists b, In b bs /\ In x (b_out b))) /\
  (In x (dag_outputs bs) <-> exists b, In b bs /\ In x (b_out b)).
Proof.
  unfold dag_inputs, dag_outputs, all_inputs, all_outputs. rewrite filter_In, negb_true_iff, memn_false, !In_dedup, !in_flat_map. tauto.
Qed.

(** -------------------------------------------------------------------------------------------- *)
(** reachability sweep *)
Section Reach.
Variable sbs : list blk.
Variable revadj : nat -> list nat.
Variable inputs : list nat.

Definition direct (n : nat) : bool := existsb (fun i => memn i (b_in (blkn sbs n))) inputs.

Inductive Reach : nat -> Prop :=
| R_direct n : direct n = true -> Reach n
| R_parent n p : In p (revadj n) -> Reach p -> Reach n.

Definition vstep (visited : list nat) (n : nat) : list nat :=
  if direct n then visited ++ [n]
  else if existsb (fun p => memn p visited) (revadj n) then visited ++ [n] else visited.

Hypothesis topo : forall n p, In p (revadj n) -> p < n.

Lemma sweep_spec k : forall n, In n (fold_left vstep (seq 0 k) []) <-> n < k /\ Reach n.
Proof.
  induction k as [|k IH]; intros n.
  - cbn. split; [intros [] | intros [H _]; lia].
  - rewrite seq_S, fold_left_app. cbn [fold_left plus]. unfold vstep at 1.
    destruct (direct k) eqn:Ed.
    + rewrite in_app_iff, IH. cbn. split.
      * intros [[H1 H2]|[<-|[]]]; [split; [lia|assumption] | split; [lia | apply R_direct; assumption]].
      * intros [H1 H2]. destruct (Nat.eq_dec n k) as [->|Hne]; [right; left; reflexivity | left; split; [lia|assumption]].
    + destruct (existsb (fun p => memn p (fold_left vstep (seq 0 k) [])) (revadj k)) eqn:Ep.
      * apply existsb_exists in Ep. destruct Ep as [p [Hp1 Hp2]]. apply memn_In in Hp2. apply IH in Hp2.
        rewrite in_app_iff, IH. cbn. split.
        -- intros [[H1 H2]|[<-|[]]]; [split; [lia|assumption] | split; [lia | eapply R_parent; [exact Hp1 | tauto]]].
        -- intros [H1 H2]. destruct (Nat.eq_dec n k) as [->|Hne]; [right; left; reflexivity | left; split; [lia|assumption]].
      * rewrite IH. split; [intros [H1 H2]; split; [lia|assumption]|].
        intros [H1 H2]. split; [|assumption]. destruct (Nat.eq_dec n k) as [->|Hne]; [|lia]. exfalso.
        inversion H2 as [n0 Hd|n0 p Hp Hr]; subst; [congruence|].
        assert (Hin : In p (fold_left vstep (seq 0 k) [])) by (apply IH; split; [apply topo; assumption | assumption]).
        apply memn_In in Hin. assert (existsb (fun p => memn p (fold_left vstep (seq 0 k) [])) (revadj k) = true)
          by (apply existsb_exists; exists p; split; assumption). congruence.
Qed.

Theorem visit_from_inputs_is_closure_lemma n :
  In n (visit_from_inputs sbs revadj inputs) <-> n < length sbs /\ Reach n.
Proof. unfold visit_from_inputs, indices. apply sweep_spec. Qed.
End Reach.

(** -------------------------------------------------------------------------------------------- *)
(** find_cycle: whatever set.pop() picks, a reported cycle is a closed path of dependency edges *)
Section CycleProofs.
Variable pick : list nat -> nat.
Variable dep0 : list (list nat).

Definition is_path (c : list nat) : Prop := forall l1 a b l2, c = l1 ++ a :: b :: l2 -> In b (nth a dep0 []).
Definition sub_dep (dep : list (list nat)) : Prop := forall n x, In x (nth n dep []) -> In x (nth n dep0 []).

Lemma is_path_suffix l1 l2 : is_path (l1 ++ l2) -> is_path l2.
Proof. intros H k1 a b k2 E. apply (H (l1 ++ k1) a b k2). rewrite E, app_assoc. reflexivity. Qed.

Lemma is_path_snoc l n x : is_path (l ++ [n]) -> In x (nth n dep0 []) -> is_path (l ++ [n] ++ [x]).
Proof.
  intros H Hx k1 a b k2 E.
  destruct k2 as [|y k2'] using rev_ind.
  - replace (l ++ [n] ++ [x]) with ((l ++ [n]) ++ [x]) in E by (rewrite <- app_assoc; reflexivity).
    replace (k1 ++ [a; b]) with ((k1 ++ [a]) ++ [b]) in E by (rewrite <- app_assoc; reflexivity).
    apply app_inj_tail in E. destruct E as [E ->]. apply app_inj_tail in E. destruct E as [_ ->]. assumption.
  - clear IHk2'. apply (H k1 a b k2').
    replace (l ++ [n] ++ [x]) with ((l ++ [n]) ++ [x]) in E by (rewrite <- app_assoc; reflexivity).
    replace (k1 ++ a :: b :: k2' ++ [y]) with ((k1 ++ a :: b :: k2') ++ [y]) in E by (rewrite <- app_assoc; reflexivity).
    apply app_inj_tail in E. tauto.
Qed.

Lemma is_path_removelast l : is_path l -> is_path (removelast l).
Proof.
  intros H. destruct l as [|x l'] using rev_ind; [exact H|]. rewrite removelast_last.
  intros k1 a b k2 E. apply (H k1 a b (k2 ++ [x])). rewrite E, <- app_assoc. reflexivity.
Qed.

Lemma from_suffix n2 stack : In n2 stack ->
  exists l1 l2, stack = l1 ++ n2 :: l2 /\
    (fix from l := match l with [] => [] | x :: r => if Nat.eqb x n2 then x :: r else from r end) stack = n2 :: l2.
Proof.
  induction stack as [|x r IH]; intros H; [contradiction|].
  destruct (Nat.eqb x n2) eqn:E.
  - apply Nat.eqb_eq in E; subst. exists [], r. split; reflexivity.
  - destruct H as [->|H]; [rewrite Nat.eqb_refl in E; discriminate|].
    destruct (IH H) as (l1 & l2 & E1 & E2). exists (x :: l1), l2. split; [rewrite E1; reflexivity | exact E2].
Qed.

Lemma rev_cons_last {A} (l : list A) x r : rev l = x :: r -> l = rev r ++ [x].
Proof. intros H. rewrite <- (rev_involutive l), H. reflexivity. Qed.

Lemma dfs_sound fuel : forall dep tovisit stack c,
  sub_dep dep -> is_path stack -> dfs pick fuel dep tovisit stack = Some c ->
  c <> [] /\ hd_error c = Some (last c 0) /\ is_path c /\ 2 <= length c.
Proof.
  induction fuel as [|f IH]; intros dep tovisit stack c Hsub Hpath H; cbn [dfs] in H; [discriminate|].
  destruct (rev stack) as [|n rs] eqn:Es.
  - destruct tovisit as [|t0 tv]; [discriminate|]. eapply IH; [exact Hsub | | exact H].
    intros k1 a b k2 E. destruct k1 as [|? [|? ?]]; discriminate.
  - apply rev_cons_last in Es.
    destruct (rev (nth n dep [])) as [|n2 rest] eqn:Ed.
    + eapply IH; [exact Hsub | apply is_path_removelast; exact Hpath | exact H].
    + apply rev_cons_last in Ed.
      assert (Hedge : In n2 (nth n dep0 [])) by (apply Hsub; rewrite Ed; apply in_or_app; right; left; reflexivity).
      assert (Hsub' : sub_dep (upd n (rev rest) dep)).
      { intros m x Hx. destruct (Nat.eq_dec m n) as [->|Hne].
        - destruct (Nat.lt_ge_cases n (length dep)) as [Hlt|Hge].
          + rewrite nth_upd_same in Hx by assumption. apply Hsub. rewrite Ed. apply in_or_app; left; assumption.
          + rewrite nth_overflow in Hx by (rewrite length_upd; assumption). contradiction.
        - rewrite nth_upd_other in Hx by assumption. apply Hsub; assumption. }
      destruct (memn n2 stack) eqn:Em.
      * apply memn_In in Em. destruct (from_suffix n2 stack Em) as (l1 & l2 & E1 & E2).
        inversion H; subst c; clear H. rewrite E2.
        assert (Hp : is_path ((n2 :: l2) ++ [n2])).
        { apply (is_path_suffix l1). rewrite app_assoc, <- E1, Es, <- app_assoc. apply is_path_snoc; [rewrite <- Es; exact Hpath | exact Hedge]. }
        repeat split.
        -- discriminate.
        -- cbn [app hd_error]. rewrite app_comm_cons, last_last. reflexivity.
        -- exact Hp.
        -- cbn. rewrite app_length. cbn. lia.
      * destruct (memn n2 tovisit).
        -- eapply IH; [exact Hsub' | | exact H]. rewrite Es, <- app_assoc. apply is_path_snoc; [rewrite <- Es; exact Hpath | exact Hedge].
        -- eapply IH; [exact Hsub' | exact Hpath | exact H].
Qed.
End CycleProofs.

Theorem cycle_is_real_lemma pick dep only c : find_cycle pick dep only = Some c ->
  2 <= length c /\ hd_error c = Some (last c 0) /\
  forall l1 a b l2, c = l1 ++ a :: b :: l2 -> In b (nth a dep []) /\ In a only /\ In b only.
Proof.
  unfold find_cycle. set (dep0 := map _ (seq 0 (length dep))). intros H.
  apply (dfs_sound pick dep0) in H.
  - destruct H as (H1 & H2 & H3 & H4). split; [assumption|]. split; [assumption|].
    intros l1 a b l2 E. specialize (H3 l1 a b l2 E). unfold dep0 in H3.
    destruct (Nat.lt_ge_cases a (length dep)) as [Hlt|Hge].
    + rewrite nth_map_seq in H3 by assumption. destruct (memn a only) eqn:Ea; [|contradiction].
      apply filter_In in H3. destruct H3 as [H3 H5]. apply memn_In in Ea, H5. tauto.
    + rewrite nth_overflow in H3 by (rewrite map_length, seq_length; assumption). contradiction.
  - intros n x Hx; exact Hx.
  - intros k1 a b k2 E. destruct k1; discriminate.
Qed.
