(** Proofs about the executable horizon-T general-equilibrium model (Model.GET): the mixed sparse/dense operator algebra denotes
    what the C03 theorems say (sums are sums; a product with a dense factor is the product of the T-windows; a product of two
    sparse factors is the product of the untruncated operators), the memoised accumulation is Chain.accumulate, and whatever
    [msolve] / [ge_solveT] return satisfies the packed linear system. *)
From Coq Require Import ZArith QArith Qcanon Bool List Arith Lia Ring.
From SSJ Require Import Lib.PySlice Lib.Sums Model.Shift Model.Sparse Model.Chain Model.GET Proofs.SparseProofs.
Import ListNotations.
Open Scope Z_scope.

Lemma gtiny_zero x : gtiny x = true -> x = g0.
Proof. unfold gtiny. apply Qc_eq_bool_correct. Qed.

(** ---- tabulated arrays ---- *)
Lemma nth_map_seq {A} (f : nat -> A) n k d : (k < n)%nat -> nth k (map f (seq 0 n)) d = f k.
Proof.
  intros H. rewrite (nth_indep _ d (f 0%nat)) by (rewrite map_length, seq_length; exact H).
  rewrite map_nth. rewrite seq_nth by exact H. reflexivity.
Qed.

Lemma fn_tab T f t s : 0 <= t < T -> 0 <= s < T -> fn (tab T f) t s = f t s.
Proof.
  intros Ht Hs. unfold fn, tab, tabulate.
  rewrite (nth_map_seq _ _ _ []) by lia.
  rewrite nth_map_seq by lia.
  rewrite !Z2Nat.id by lia. reflexivity.
Qed.

(** ---- denotation of the mixed algebra ---- *)
Definition wfo (a : opr) : Prop := match a with Sp A => wf Qc A | _ => True end.
Definition sdenq (A : sp Qc) : Z -> Z -> Qc := sden Qc g0 g1 Qcplus Qcmult A.
Definition eden (a : opr) (t s : Z) : Qc := match a with Ze => g0 | Sp A => sdenq A t s | Dn M => fn M t s end.

Lemma wf_add A B : wf Qc A -> wf Qc B -> wf Qc (sp_add Qc Qcplus gtiny A B).
Proof.
  unfold sp_add. revert A. induction B as [|[k x] B IH]; intros A HA HB; cbn [fold_left fst snd]; [exact HA|].
  apply IH.
  - apply wf_acc; [|exact HA]. apply (HB k x). left; reflexivity.
  - intros k0 x0 Hin. apply (HB k0 x0). right; exact Hin.
Qed.

Lemma wfo_add T a b : wfo a -> wfo b -> wfo (eadd T a b).
Proof. destruct a, b; cbn; intros; try exact I; try assumption. apply wf_add; assumption. Qed.
Lemma wfo_mul T a b : wfo a -> wfo b -> wfo (emul T a b).
Proof. destruct a, b; cbn; intros; try exact I. apply wf_mul; assumption. Qed.
Lemma wfo_zero : wfo ezero.
Proof. exact I. Qed.

Lemma window_zero_l T (g : Z -> Z -> Qc) (t s : Z) : zsum_range g0 Qcplus 0 T (fun k => Qcmult g0 (g k s)) = g0.
Proof. apply (zsum_range_zero Qc g0 g1 Qcplus Qcmult Qcminus Qcopp Qcrt). intros; unfold g0; ring. Qed.
Lemma window_zero_r T (f : Z -> Z -> Qc) (t s : Z) : zsum_range g0 Qcplus 0 T (fun k => Qcmult (f t k) g0) = g0.
Proof. apply (zsum_range_zero Qc g0 g1 Qcplus Qcmult Qcminus Qcopp Qcrt). intros; unfold g0; ring. Qed.

Lemma eden_add T a b t s : wfo a -> wfo b -> 0 <= t < T -> 0 <= s < T ->
  eden (eadd T a b) t s = Qcplus (eden a t s) (eden b t s).
Proof.
  intros Ha Hb Ht Hs. destruct a as [|A|M], b as [|B|N]; cbn [eadd eden]; try (unfold g0; ring).
  - unfold sdenq. apply (sden_add Qc g0 g1 Qcplus Qcmult Qcminus Qcopp Qcrt gtiny gtiny_zero).
  - rewrite fn_tab by assumption.
    rewrite (sp_add_dense_den Qc g0 g1 Qcplus Qcmult Qcminus Qcopp Qcrt) by assumption. unfold sdenq. ring.
  - rewrite fn_tab by assumption.
    rewrite (sp_add_dense_den Qc g0 g1 Qcplus Qcmult Qcminus Qcopp Qcrt) by assumption. reflexivity.
  - unfold dadd. rewrite fn_tab by assumption. reflexivity.
Qed.

(** a product in which at least one factor is dense is the product of the T-windows *)
Definition window_product (T : Z) (f g : Z -> Z -> Qc) (t s : Z) : Qc :=
  zsum_range g0 Qcplus 0 T (fun k => Qcmult (f t k) (g k s)).

Lemma eden_mul_dense_right T a M t s : wfo a -> 0 <= t < T -> 0 <= s < T ->
  eden (emul T a (Dn M)) t s = window_product T (eden a) (fn M) t s.
Proof.
  intros Ha Ht Hs. destruct a as [|A|N]; cbn [emul eden]; unfold window_product.
  - symmetry; apply window_zero_l; exact t.
  - rewrite fn_tab by assumption.
    apply (sp_matmul_dense_den Qc g0 g1 Qcplus Qcmult Qcminus Qcopp Qcrt); assumption.
  - unfold dmul. rewrite fn_tab by assumption. reflexivity.
Qed.

Lemma eden_mul_dense_left T M b t s : wfo b -> 0 <= t < T -> 0 <= s < T ->
  eden (emul T (Dn M) b) t s = window_product T (fn M) (eden b) t s.
Proof.
  intros Hb Ht Hs. destruct b as [|B|N]; cbn [emul eden]; unfold window_product.
  - symmetry; apply window_zero_r; exact s.
  - rewrite fn_tab by assumption.
    apply (dense_matmul_sp_den Qc g0 g1 Qcplus Qcmult Qcminus Qcopp Qcrt); assumption.
  - unfold dmul. rewrite fn_tab by assumption. reflexivity.
Qed.

(** two sparse factors multiply symbolically: the product of the untruncated operators *)
Lemma eden_mul_sparse T A B t s : wf Qc A -> wf Qc B ->
  eden (emul T (Sp A) (Sp B)) t s = sp_apply Qc g0 Qcplus Qcmult A (sdenq B) t s.
Proof.
  intros HA HB. cbn [emul eden]. unfold sdenq.
  apply (sden_mul Qc g0 g1 Qcplus Qcmult Qcminus Qcopp Qcrt gtiny gtiny_zero); assumption.
Qed.

(** converting to a dense array reads off the window *)
Lemma to_dense_den T a t s : wfo a -> 0 <= t < T -> 0 <= s < T -> fn (to_dense T a) t s = eden a t s.
Proof.
  intros Ha Ht Hs. destruct a as [|A|M]; cbn [to_dense eden]; [rewrite fn_tab by assumption; reflexivity| |reflexivity].
  unfold sp_dense. rewrite fn_tab by assumption.
  apply (sp_matrix_den Qc g0 g1 Qcplus Qcmult Qcminus Qcopp Qcrt); assumption.
Qed.

(** ---- the memoised accumulation is Chain.accumulate on the names below N ---- *)
Lemma freeze_lt N f x : (x < N)%nat -> freeze N f x = f x.
Proof. intros H. unfold freeze. apply nth_map_seq. exact H. Qed.

Lemma esum_ext T (f g : nat -> opr) l : (forall m, In m l -> f m = g m) ->
  esum opr ezero (eadd T) f l = esum opr ezero (eadd T) g l.
Proof.
  unfold esum. generalize ezero. induction l as [|m l IH]; intros e H; cbn [fold_left]; [reflexivity|].
  rewrite (H m) by (left; reflexivity). apply IH. intros m' Hin; apply H; right; exact Hin.
Qed.

Lemma acc_step_ext T N (f g : nat -> opr) b x :
  (forall m, In m (c_ins opr b) -> (m < N)%nat) -> (forall m, (m < N)%nat -> f m = g m) -> (x < N)%nat ->
  acc_step opr ezero (eadd T) (emul T) f b x = acc_step opr ezero (eadd T) (emul T) g b x.
Proof.
  intros Hins Hfg Hx. unfold acc_step. destruct (inb x (c_outs opr b)).
  - apply esum_ext. intros m Hin. rewrite (Hfg m) by (apply Hins; exact Hin). reflexivity.
  - apply Hfg; exact Hx.
Qed.

Lemma accumulateF_gen T N blocks (f g : nat -> opr) :
  (forall b, In b blocks -> forall m, In m (c_ins opr b) -> (m < N)%nat) ->
  (forall m, (m < N)%nat -> f m = g m) ->
  forall x, (x < N)%nat ->
  fold_left (fun tot b => freeze N (acc_step opr ezero (eadd T) (emul T) tot b)) blocks f x
  = accumulate opr ezero (eadd T) (emul T) blocks g x.
Proof.
  revert f g. unfold accumulate. induction blocks as [|b bs IH]; intros f g Hins Hfg x Hx; cbn [fold_left].
  - apply Hfg; exact Hx.
  - apply IH; [intros b' Hb'; apply Hins; right; exact Hb' | | exact Hx].
    intros m Hm. rewrite freeze_lt by exact Hm.
    apply (acc_step_ext T N); [apply Hins; left; reflexivity | exact Hfg | exact Hm].
Qed.

Lemma accumulateF_is_accumulate T N blocks init x :
  (forall b, In b blocks -> forall m, In m (c_ins opr b) -> (m < N)%nat) -> (x < N)%nat ->
  accumulateF T N blocks init x = accumulate opr ezero (eadd T) (emul T) blocks init x.
Proof.
  intros Hins Hx. unfold accumulateF. apply (accumulateF_gen T N); [exact Hins | | exact Hx].
  intros m Hm. apply freeze_lt; exact Hm.
Qed.

(** ---- the checked linear solve ---- *)
Lemma list_eqb_eq a b : list_eqb a b = true -> a = b.
Proof.
  revert b. induction a as [|x a IH]; intros [|y b] H; cbn [list_eqb] in H; try discriminate; [reflexivity|].
  apply andb_true_iff in H. destruct H as [Hx Hab]. apply Qc_eq_bool_correct in Hx. rewrite Hx, (IH b Hab). reflexivity.
Qed.
Lemma mat_eqb_eq A B : mat_eqb A B = true -> A = B.
Proof.
  revert B. induction A as [|r A IH]; intros [|s B] H; cbn [mat_eqb] in H; try discriminate; [reflexivity|].
  apply andb_true_iff in H. destruct H as [Hr HAB]. apply list_eqb_eq in Hr. rewrite Hr, (IH B HAB). reflexivity.
Qed.

Lemma msolve_sound_lemma A B X : msolve A B = Some X -> mmul A X = B /\ length A = length B.
Proof.
  unfold msolve. destruct (gauss_jordan _ _ _ _) as [R|]; [|discriminate].
  destruct (Nat.eqb (length A) (length B) && mat_eqb (mmul A (map (skipn (length A)) R)) B) eqn:E; [|discriminate].
  intros H; inversion H; subst X. apply andb_true_iff in E. destruct E as [E1 E2].
  split; [apply mat_eqb_eq; exact E2 | apply Nat.eqb_eq; exact E1].
Qed.

(** ---- well-formedness and denotation of the accumulated totals and of the reported entries ---- *)
Lemma freeze_cases N f x : freeze N f x = f x \/ freeze N f x = ezero.
Proof.
  destruct (Nat.lt_ge_cases x N) as [H|H]; [left; apply freeze_lt; exact H|].
  right. unfold freeze. apply nth_overflow. rewrite map_length, seq_length. exact H.
Qed.

Lemma wfo_esum T (f : nat -> opr) l : (forall m, wfo (f m)) -> wfo (esum opr ezero (eadd T) f l).
Proof.
  intros Hf. unfold esum. assert (H0 : wfo ezero) by exact wfo_zero. revert H0. generalize ezero.
  induction l as [|m l IH]; intros e He; cbn [fold_left]; [exact He|].
  apply IH. apply wfo_add; [exact He | apply Hf].
Qed.

Lemma wfo_acc_step T tot b : (forall o m, wfo (c_J opr b o m)) -> (forall x, wfo (tot x)) ->
  forall x, wfo (acc_step opr ezero (eadd T) (emul T) tot b x).
Proof.
  intros HJ Ht x. unfold acc_step. destruct (inb x (c_outs opr b)); [|apply Ht].
  apply wfo_esum. intros m. apply wfo_mul; [apply HJ | apply Ht].
Qed.

Lemma wfo_freeze N f : (forall x, wfo (f x)) -> forall x, wfo (freeze N f x).
Proof. intros Hf x. destruct (freeze_cases N f x) as [-> | ->]; [apply Hf | exact wfo_zero]. Qed.

Lemma wfo_accumulateF T N blocks init :
  (forall b, In b blocks -> forall o m, wfo (c_J opr b o m)) -> (forall x, wfo (init x)) ->
  forall x, wfo (accumulateF T N blocks init x).
Proof.
  intros HJ Hi. unfold accumulateF.
  assert (H0 : forall x, wfo (freeze N init x)) by (apply wfo_freeze; exact Hi).
  revert H0. generalize (freeze N init).
  induction blocks as [|b bs IH]; intros f Hf x; cbn [fold_left]; [apply Hf|].
  apply IH; [intros b' Hb'; apply HJ; right; exact Hb'|].
  apply wfo_freeze. apply wfo_acc_step; [apply HJ; left; reflexivity | exact Hf].
Qed.

Lemma wfo_unit_init i x : wfo (unit_init i x).
Proof.
  unfold unit_init. destruct (Nat.eqb x i); [|exact wfo_zero].
  intros k y [H|[]]. inversion H; subst. cbn. lia.
Qed.

Lemma wfo_totE T N blocks i : (forall b, In b blocks -> forall o m, wfo (c_J opr b o m)) -> forall x, wfo (totE T N blocks i x).
Proof. intros HJ. apply wfo_accumulateF; [exact HJ | apply wfo_unit_init]. Qed.

(** G[o][z] = sum_u (window of J[o][u]) x G_U[u][z] + (window of J[o][z]) *)
Definition qsum {A} (f : A -> Qc) (l : list A) : Qc := fold_left (fun acc x => Qcplus acc (f x)) l g0.

Lemma ge_entry_den T tus gus tz o t s :
  (forall p, In p (combine tus gus) -> wfo (fst p o)) -> wfo (tz o) -> 0 <= t < T -> 0 <= s < T ->
  eden (ge_entry T tus gus tz o) t s
  = Qcplus (qsum (fun p => window_product T (eden (fst p o)) (fn (snd p)) t s) (combine tus gus)) (eden (tz o) t s).
Proof.
  intros Hw Hz Ht Hs. unfold ge_entry, qsum.
  assert (Hgen : forall l e q, (forall p, In p l -> wfo (fst p o)) -> wfo e -> eden e t s = q ->
     wfo (fold_left (fun acc p => eadd T acc (emul T (fst p o) (Dn (snd p)))) l e) /\
     eden (fold_left (fun acc p => eadd T acc (emul T (fst p o) (Dn (snd p)))) l e) t s
     = fold_left (fun acc x => Qcplus acc (window_product T (eden (fst x o)) (fn (snd x)) t s)) l q).
  { induction l as [|p l IH]; intros e q Hl He Hq; cbn [fold_left]; [split; assumption|].
    apply IH; [intros p' Hp'; apply Hl; right; exact Hp' | |].
    - apply wfo_add; [exact He | apply wfo_mul; [apply Hl; left; reflexivity | exact I]].
    - rewrite eden_add; [| exact He | apply wfo_mul; [apply Hl; left; reflexivity | exact I] | exact Ht | exact Hs].
      rewrite eden_mul_dense_right; [| apply Hl; left; reflexivity | exact Ht | exact Hs].
      rewrite Hq. reflexivity. }
  destruct (Hgen (combine tus gus) ezero g0 Hw wfo_zero) as [Hwf Hden].
  { reflexivity. }
  rewrite eden_add; [| exact Hwf | exact Hz | exact Ht | exact Hs].
  rewrite Hden. reflexivity.
Qed.

(** whatever ge_solveT returns: some X solves the packed system H_U X = -H_Z and the reported G_U are its blocks *)
Lemma ge_solveT_sound_lemma T N blocks U Tg Zs outs r :
  ge_solveT T N blocks U Tg Zs outs = Some r ->
  exists X, mmul (ge_HU T N blocks U Tg) X = mopp (ge_HZ T N blocks Zs Tg)
    /\ ge_GU r = map (fun ui => map (fun zi => block_of T X ui zi) (seq 0 (length Zs))) (seq 0 (length U))
    /\ ge_out r = map (fun zi => map (fun o => to_dense T (ge_entry T (map (totE T N blocks) U) (map (fun row => nth zi row []) (ge_GU r))
                                                                   (totE T N blocks (nth zi Zs 0%nat)) o)) outs) (seq 0 (length Zs)).
Proof.
  unfold ge_solveT. destruct (msolve _ _) as [X|] eqn:E; [|discriminate].
  intros H; inversion H; subst r; clear H. cbn [ge_GU ge_out].
  exists X. split; [apply msolve_sound_lemma in E; exact (proj1 E)|]. split; reflexivity.
Qed.

(** every reported entry, read inside the window, is the chain rule with windowed products *)
Lemma ge_out_entry_lemma T N blocks U zi gus o t s :
  (forall b, In b blocks -> forall o m, wfo (c_J opr b o m)) -> 0 <= t < T -> 0 <= s < T ->
  fn (to_dense T (ge_entry T (map (totE T N blocks) U) gus (totE T N blocks zi) o)) t s
  = Qcplus (qsum (fun p => window_product T (eden (fst p o)) (fn (snd p)) t s) (combine (map (totE T N blocks) U) gus))
           (eden (totE T N blocks zi o) t s).
Proof.
  intros HJ Ht Hs.
  assert (Hw : forall p, In p (combine (map (totE T N blocks) U) gus) -> wfo (fst p o)).
  { intros [f g] Hin. apply in_combine_l in Hin. apply in_map_iff in Hin. destruct Hin as [u [<- _]]. apply wfo_totE; exact HJ. }
  assert (Hz : wfo (totE T N blocks zi o)) by (apply wfo_totE; exact HJ).
  rewrite to_dense_den; [| | exact Ht | exact Hs].
  - apply ge_entry_den; assumption.
  - unfold ge_entry. apply wfo_add; [|exact Hz].
    assert (Hgen : forall l e, (forall p, In p l -> wfo (fst p o)) -> wfo e ->
              wfo (fold_left (fun acc p => eadd T acc (emul T (fst p o) (Dn (snd p)))) l e)).
    { induction l as [|p l IH]; intros e Hl He; cbn [fold_left]; [exact He|].
      apply IH; [intros p' Hp'; apply Hl; right; exact Hp'|].
      apply wfo_add; [exact He | apply wfo_mul; [apply Hl; left; reflexivity | exact I]]. }
    apply Hgen; [exact Hw | exact wfo_zero].
Qed.

(** ---- nested models ---- *)
Lemma nested_jacobian_sound_lemma T N pre post inner iU iTg iIns iOuts U Tg Zs outs G :
  nested_jacobian T N pre post inner iU iTg iIns iOuts U Tg Zs outs = Some G ->
  exists sb ri Xi,
    ge_solveT T N inner iU iTg iIns iOuts = Some ri
    /\ mmul (ge_HU T N inner iU iTg) Xi = mopp (ge_HZ T N inner iIns iTg)
    /\ c_outs opr sb = iOuts /\ c_ins opr sb = iIns
    /\ (forall o m, c_J opr sb o m = ge_entry T (map (totE T N inner) iU) (map (fun row => nth (index_of m iIns) row []) (ge_GU ri)) (totE T N inner m) o)
    /\ (U = [] -> G = map (fun z => map (fun o => to_dense T (totE T N (pre ++ sb :: post) z o)) outs) Zs)
    /\ (U <> [] -> exists r X, ge_solveT T N (pre ++ sb :: post) U Tg Zs outs = Some r /\ G = ge_out r
                     /\ mmul (ge_HU T N (pre ++ sb :: post) U Tg) X = mopp (ge_HZ T N (pre ++ sb :: post) Zs Tg)).
Proof.
  unfold nested_jacobian, solved_block. destruct (ge_solveT T N inner iU iTg iIns iOuts) as [ri|] eqn:Ei; [|discriminate].
  intros H.
  destruct (ge_solveT_sound_lemma _ _ _ _ _ _ _ _ Ei) as [Xi [HXi _]].
  exists {| c_outs := iOuts; c_ins := iIns; c_J := fun o m => ge_entry T (map (totE T N inner) iU) (map (fun row => nth (index_of m iIns) row []) (ge_GU ri)) (totE T N inner m) o |}.
  exists ri, Xi. split; [reflexivity|]. split; [exact HXi|].
  split; [reflexivity|]. split; [reflexivity|]. split; [intros; reflexivity|].
  destruct U as [|u U'].
  - split; [intros _; inversion H; reflexivity | intros Hne; contradiction Hne; reflexivity].
  - split; [discriminate|]. intros _.
    match type of H with option_map _ ?e = _ => destruct e as [r|] eqn:Er; [|discriminate] end.
    cbn [option_map] in H. inversion H; subst G.
    destruct (ge_solveT_sound_lemma _ _ _ _ _ _ _ _ Er) as [X [HX _]].
    exists r, X. split; [reflexivity|]. split; [reflexivity | exact HX].
Qed.
