(** C10: a household written as two stages -- an exogenous stage (expectation over the Markov state) followed by a continuous-choice stage --
    goes through the SAME values as the backward-function household whose step is the continuous stage applied to the expected continuation:
    the stage loop composes (expectation after step) where the HetBlock loop composes (step after expectation); the two bracketings of the
    same chain agree at every date, for reports (policies), laws of motion, the distribution at the beginning of the continuous stage and the
    beginning-of-period distribution. *)
From Coq Require Import List Arith Lia.
From SSJ Require Import Model.HetLoop Model.StageLoop Proofs.HetLoopProofs.
Import ListNotations.

Section TwoStages.
Variables I Bh B Rp L Dist : Type.
(* backward-function household *)
Variable bstep : I -> Bh -> Bh.
Variable expect : Bh -> Bh.
Variable exog endog : Bh -> Dist -> Dist.
(* the same household as stages *)
Variables s_ex s_ct : stage I B Rp L.
Variable lom_apply : L -> Dist -> Dist.
(* what a record of the backward-function household contains *)
Variable V_of : Bh -> B.          (* its backward variables *)
Variable in_of : Bh -> I.         (* the inputs of its date *)
Variable rep_of : Bh -> Rp.       (* its reported individual outcomes *)

Hypothesis in_of_step : forall i x, in_of (bstep i x) = i.
(** the exogenous stage, fed a date's inputs and that date's backward variables, returns the expectation the HetBlock loop takes of that date's record *)
Hypothesis ex_is_expect : forall bh, fst (fst (s_ex (in_of bh) (V_of bh))) = V_of (expect bh).
Hypothesis ex_lom : forall bh D, lom_apply (snd (s_ex (in_of bh) (V_of bh))) D = exog bh D.
(** the continuous stage, fed the expected continuation, is the backward function *)
Hypothesis ct_is_step : forall i e, fst (fst (s_ct i (V_of e))) = V_of (bstep i e).
Hypothesis ct_report : forall i e, snd (fst (s_ct i (V_of e))) = rep_of (bstep i e).
Hypothesis ct_lom : forall i e D, lom_apply (snd (s_ct i (V_of e))) D = endog (bstep i e) D.

Let stages := [s_ex; s_ct].

(** what the stage loop records at one date, given the record bh of the backward-function household at that date *)
Definition stage_record (bh : Bh) : list Rp * list L :=
  ([snd (fst (s_ex (in_of bh) (V_of bh))); rep_of bh], [snd (s_ex (in_of bh) (V_of bh)); snd (s_ct (in_of bh) (V_of bh))]).

Lemma stage_step_two i e : stage_step I B Rp L stages i (V_of e) =
  let bh := bstep i e in
  ([snd (fst (s_ex i (V_of bh))); rep_of bh], [snd (s_ex i (V_of bh)); snd (s_ct i (V_of e))], fst (fst (s_ex i (V_of bh)))).
Proof.
  unfold stage_step, stages. cbn [fold_right].
  destruct (s_ct i (V_of e)) as [[b1 r1] l1] eqn:E1.
  pose proof (ct_is_step i e) as H1. pose proof (ct_report i e) as H2. rewrite E1 in H1, H2. cbn [fst snd] in H1, H2. subst b1 r1.
  destruct (s_ex i (V_of (bstep i e))) as [[b0 r0] l0] eqn:E0. cbn [fst snd]. reflexivity.
Qed.

(** the stage loop over dates t0 .. t0+n-1: its state is the expectation of the current first record, its recordings follow the records *)
Lemma stage_fold inputs ss ssb : ssb = V_of (expect ss) -> forall n t0,
  let recs := spec_list I Bh bstep expect inputs t0 n ss in
  fst (fold_right (sback_step I B Rp L stages inputs) (ssb, []) (seq t0 n)) = V_of (expect (hd ss recs)) /\
  map fst (snd (fold_right (sback_step I B Rp L stages inputs) (ssb, []) (seq t0 n)))
    = map (fun bh => [snd (fst (s_ex (in_of bh) (V_of bh))); rep_of bh]) recs /\
  length (snd (fold_right (sback_step I B Rp L stages inputs) (ssb, []) (seq t0 n))) = n.
Proof.
  intros Hss. induction n as [|n IH]; intros t0; cbn [seq fold_right spec_list hd map length]; [split; [exact Hss | split; reflexivity]|].
  destruct (IH (S t0)) as (H1 & H2 & H3). cbv zeta in H1, H2.
  set (st := fold_right (sback_step I B Rp L stages inputs) (ssb, []) (seq (S t0) n)) in *.
  set (bh := bstep (inputs t0) (expect (hd ss (spec_list I Bh bstep expect inputs (S t0) n ss)))).
  assert (Hin : in_of bh = inputs t0) by apply in_of_step.
  assert (Est : sback_step I B Rp L stages inputs t0 st
                = (fst (fst (s_ex (inputs t0) (V_of bh))),
                   ([snd (fst (s_ex (inputs t0) (V_of bh))); rep_of bh], [snd (s_ex (inputs t0) (V_of bh)); snd (s_ct (inputs t0) (fst st))]) :: snd st)).
  { unfold sback_step. rewrite H1. rewrite stage_step_two. reflexivity. }
  rewrite Est. cbn [fst snd map length].
  split; [rewrite <- Hin; apply ex_is_expect|]. split.
  - rewrite H2. rewrite Hin. reflexivity.
  - rewrite H3. reflexivity.
Qed.

Theorem stage_reports_equal_het_lemma T inputs ss ssb : ssb = V_of (expect ss) ->
  map fst (stage_backward I B Rp L stages T inputs ssb)
  = map (fun bh => [snd (fst (s_ex (in_of bh) (V_of bh))); rep_of bh]) (backward_nonlinear I Bh bstep expect T inputs ss).
Proof.
  intros Hss. unfold stage_backward. rewrite backward_loop_is_recursion_lemma. exact (proj1 (proj2 (stage_fold inputs ss ssb Hss T 0))).
Qed.

(** the laws of motion the stage loop records act like the transitions of the backward-function household's record of the same date *)
Definition loms_like (rec : list Rp * list L) (bh : Bh) : Prop :=
  exists lx lc, snd rec = [lx; lc] /\ (forall D, lom_apply lx D = exog bh D) /\ (forall D, lom_apply lc D = endog bh D).

Lemma stage_fold_loms inputs ss ssb : ssb = V_of (expect ss) -> forall n t0,
  Forall2 loms_like (snd (fold_right (sback_step I B Rp L stages inputs) (ssb, []) (seq t0 n))) (spec_list I Bh bstep expect inputs t0 n ss).
Proof.
  intros Hss. induction n as [|n IH]; intros t0; cbn [seq fold_right spec_list]; [constructor|].
  destruct (stage_fold inputs ss ssb Hss n (S t0)) as (H1 & _ & _). cbv zeta in H1. specialize (IH (S t0)).
  set (st := fold_right (sback_step I B Rp L stages inputs) (ssb, []) (seq (S t0) n)) in *.
  set (e := expect (hd ss (spec_list I Bh bstep expect inputs (S t0) n ss))) in *.
  set (bh := bstep (inputs t0) e).
  assert (Hin : in_of bh = inputs t0) by apply in_of_step.
  assert (Est : snd (sback_step I B Rp L stages inputs t0 st)
                = ([snd (fst (s_ex (inputs t0) (V_of bh))); rep_of bh], [snd (s_ex (inputs t0) (V_of bh)); snd (s_ct (inputs t0) (V_of e))]) :: snd st).
  { unfold sback_step. rewrite H1. rewrite stage_step_two. reflexivity. }
  rewrite Est. constructor; [|exact IH].
  exists (snd (s_ex (inputs t0) (V_of bh))), (snd (s_ct (inputs t0) (V_of e))). split; [reflexivity|]. split.
  - intros D. rewrite <- Hin. apply ex_lom.
  - intros D. apply ct_lom.
Qed.

Lemma stage_forward_like : forall (recs : list Bh) (srecs : list (list Rp * list L)) (Dbeg : Dist), Forall2 loms_like srecs recs ->
  stage_forward L Dist lom_apply (map snd srecs) Dbeg = map (fun dd => [fst dd; snd dd]) (forward_nonlinear Bh Dist exog endog recs Dbeg).
Proof.
  intros recs srecs Dbeg H. revert Dbeg. induction H as [|rec bh srecs recs (lx & lc & E & Hx & Hc) _ IH]; intros Dbeg; [reflexivity|].
  cbn [map stage_forward forward_nonlinear]. rewrite E. cbn [stage_forward_date fst snd]. rewrite Hx, Hc. f_equal. apply IH.
Qed.

(** the whole nonlinear pass: distributions at the beginning of both stages at every date = (Dbeg_t, D_t) of the backward-function household *)
Theorem stage_distributions_equal_het_lemma T inputs ss ssb Dbeg : ssb = V_of (expect ss) ->
  stage_forward L Dist lom_apply (map snd (stage_backward I B Rp L stages T inputs ssb)) Dbeg
  = map (fun dd => [fst dd; snd dd]) (forward_nonlinear Bh Dist exog endog (backward_nonlinear I Bh bstep expect T inputs ss) Dbeg).
Proof.
  intros Hss. apply stage_forward_like. unfold stage_backward. rewrite backward_loop_is_recursion_lemma. apply stage_fold_loms. exact Hss.
Qed.
End TwoStages.
