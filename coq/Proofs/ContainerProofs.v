(** C14: compose / apply are block-matrix product / matrix-vector product with absent entries as zero;
    pack/unpack index arithmetic; operand ladder. *)
From Coq Require Import ZArith Bool List Lia ZifyBool.
From SSJ Require Import Lib.PySlice Lib.OperandKinds Gen.Containers Model.Containers.
Import ListNotations.
Open Scope Z_scope.

Section ContainerProofs.
Variable E : Type.
Variable V : Type.
Variables (e0 : E) (eadd emul : E -> E -> E).
Variables (v0 : V) (vadd : V -> V -> V) (eact : E -> V -> V).
Hypothesis eadd_0_l : forall x, eadd e0 x = x.
Hypothesis eadd_0_r : forall x, eadd x e0 = x.
Hypothesis emul_0_l : forall x, emul e0 x = e0.
Hypothesis emul_0_r : forall x, emul x e0 = e0.
Hypothesis vadd_0_r : forall x, vadd x v0 = x.
Hypothesis eact_0 : forall x, eact e0 x = v0.

Notation jget := (jget E).
Notation oden := (oden E e0).
Notation compose_entry := (compose_entry E eadd emul).

Definition esum (l : list E) : E := fold_left eadd l e0.

(** left fold of products, absent entries as zero *)
Lemma compose_entry_fold A B ml o i : forall acc,
  oden (fold_left (fun acc m =>
      match jget A o m, jget B m i with
      | Some a, Some b => Some (match acc with None => emul a b | Some s => eadd s (emul a b) end)
      | _, _ => acc
      end) ml acc)
  = fold_left (fun s m => eadd s (emul (oden (jget A o m)) (oden (jget B m i)))) ml (oden acc).
Proof.
  induction ml as [|m ml IH]; intros acc; cbn [fold_left]; [reflexivity|].
  rewrite IH. f_equal.
  destruct (jget A o m) as [a|], (jget B m i) as [b|]; cbn [Containers.oden];
    rewrite ?emul_0_l, ?emul_0_r, ?eadd_0_r; try reflexivity.
  destruct acc; cbn [Containers.oden]; [reflexivity | rewrite eadd_0_l; reflexivity].
Qed.

Lemma compose_entry_den A B ml o i :
  oden (compose_entry A B ml o i)
  = fold_left (fun s m => eadd s (emul (oden (jget A o m)) (oden (jget B m i)))) ml e0.
Proof. unfold Containers.compose_entry. rewrite compose_entry_fold. reflexivity. Qed.

(** an entry is absent iff no middle name has both factors present *)
Lemma compose_entry_absent A B ml o i :
  compose_entry A B ml o i = None <-> forall m, In m ml -> jget A o m = None \/ jget B m i = None.
Proof.
  unfold Containers.compose_entry.
  assert (G : forall acc, fold_left (fun acc m =>
      match jget A o m, jget B m i with
      | Some a, Some b => Some (match acc with None => emul a b | Some s => eadd s (emul a b) end)
      | _, _ => acc
      end) ml acc = None <-> acc = None /\ forall m, In m ml -> jget A o m = None \/ jget B m i = None).
  { induction ml as [|m ml IH]; intros acc; cbn [fold_left].
    - split; [intros ->; split; [reflexivity | intros m []] | intros [-> _]; reflexivity].
    - rewrite IH. destruct (jget A o m) as [a|] eqn:Ea, (jget B m i) as [b|] eqn:Eb.
      + split; [intros [H _]; discriminate|]. intros [_ H]. destruct (H m (or_introl eq_refl)); congruence.
      + split; intros [H1 H2]; (split; [assumption|]); [intros m' [<-|Hm]; auto | intros m' Hm; apply H2; right; assumption].
      + split; intros [H1 H2]; (split; [assumption|]); [intros m' [<-|Hm]; auto | intros m' Hm; apply H2; right; assumption].
      + split; intros [H1 H2]; (split; [assumption|]); [intros m' [<-|Hm]; auto | intros m' Hm; apply H2; right; assumption]. }
  rewrite G. split; [intros [_ H]; exact H | intros H; split; [reflexivity | exact H]].
Qed.

(** reading back an entry of the composed dict *)
Lemma lookup_flat_map_notin (f : Z -> option E) ins i : ~ In i ins ->
  Containers.lookup i (flat_map (fun i => match f i with Some e => [(i, e)] | None => [] end) ins) = None.
Proof.
  induction ins as [|k ins IH]; intros Hn; [reflexivity|]. cbn [flat_map].
  assert (i <> k) by (intros ->; apply Hn; left; reflexivity).
  assert (Hn' : ~ In i ins) by (intros Hx; apply Hn; right; assumption).
  destruct (f k); cbn; [replace (i =? k) with false by lia|]; apply IH; assumption.
Qed.

Lemma lookup_flat_map_single (f : Z -> option E) ins i : NoDup ins -> In i ins ->
  Containers.lookup i (flat_map (fun i => match f i with Some e => [(i, e)] | None => [] end) ins) = f i.
Proof.
  induction ins as [|j ins IH]; intros Hnd Hin; [contradiction|]. cbn [flat_map]. inversion Hnd; subst.
  destruct (Z.eq_dec i j) as [->|Hne].
  - destruct (f j) eqn:Ef; cbn; [rewrite Z.eqb_refl; reflexivity|]. apply lookup_flat_map_notin; assumption.
  - destruct Hin as [->|Hin]; [contradiction|]. destruct (f j); cbn; [replace (i =? j) with false by lia|]; apply IH; assumption.
Qed.

Lemma lookup_map_key {A} (g : Z -> A) outs o : In o outs -> Containers.lookup o (map (fun o => (o, g o)) outs) = Some (g o).
Proof.
  induction outs as [|p outs IH]; intros H; [contradiction|]. cbn. destruct (o =? p) eqn:Eo.
  - apply Z.eqb_eq in Eo; subst; reflexivity.
  - destruct H as [->|H]; [rewrite Z.eqb_refl in Eo; discriminate | apply IH; assumption].
Qed.

Lemma compose_get A B o i : NoDup (jins E B) -> In o (jouts E A) -> In i (jins E B) ->
  jget (compose E eadd emul A B) o i = compose_entry A B (m_list E A B) o i.
Proof.
  intros Hnd Ho Hi. unfold Containers.jget at 1, Containers.compose; cbn [nd].
  rewrite (lookup_map_key _ _ _ Ho). apply (lookup_flat_map_single (fun i => compose_entry A B (m_list E A B) o i)); assumption.
Qed.

Theorem compose_is_block_product_lemma A B o i : NoDup (jins E B) -> In o (jouts E A) -> In i (jins E B) ->
  oden (jget (compose E eadd emul A B) o i)
  = fold_left (fun s m => eadd s (emul (oden (jget A o m)) (oden (jget B m i)))) (m_list E A B) e0
  /\ (jget (compose E eadd emul A B) o i = None <->
      forall m, In m (m_list E A B) -> jget A o m = None \/ jget B m i = None).
Proof.
  intros Hnd Ho Hi. rewrite compose_get by assumption. split; [apply compose_entry_den | apply compose_entry_absent].
Qed.

(** apply: one output path *)
Lemma apply_entry_fold J x il o : forall acc,
  fold_left (fun acc i => match jget J o i, Containers.lookup i x with Some e, Some xi => vadd acc (eact e xi) | _, _ => acc end) il acc
  = fold_left (fun acc i => vadd acc (match Containers.lookup i x with Some xi => eact (oden (jget J o i)) xi | None => v0 end)) il acc.
Proof.
  induction il as [|i il IH]; intros acc; cbn [fold_left]; [reflexivity|].
  rewrite IH. f_equal. destruct (jget J o i) as [e|], (Containers.lookup i x) as [xi|]; cbn [Containers.oden];
    rewrite ?eact_0, ?vadd_0_r; reflexivity.
Qed.

Lemma apply_entry_den J x il o :
  apply_entry E V v0 vadd eact J x il o
  = fold_left (fun acc i => vadd acc (match Containers.lookup i x with Some xi => eact (oden (jget J o i)) xi | None => v0 end)) il v0.
Proof. unfold Containers.apply_entry. apply apply_entry_fold. Qed.

Lemma lookup_dset_same {A} k (v : A) d : Containers.lookup k (Containers.dset k v d) = Some v.
Proof. induction d as [|[k' v'] d IH]; cbn; [rewrite Z.eqb_refl; reflexivity|]. destruct (k =? k') eqn:Ek; cbn; rewrite Ek; [reflexivity | assumption]. Qed.

Lemma lookup_dset_other {A} k k' (v : A) d : k' <> k -> Containers.lookup k' (Containers.dset k v d) = Containers.lookup k' d.
Proof.
  intros Hne. induction d as [|[k0 v0'] d IH]; cbn.
  - replace (k' =? k) with false by lia. reflexivity.
  - destruct (k =? k0) eqn:Ek; cbn; [assert (k = k0) by lia; subst; replace (k' =? k0) with false by lia; reflexivity|].
    destruct (k' =? k0); [reflexivity | assumption].
Qed.

Lemma lookup_fold_dset {A} (f : Z -> A) outs : forall d k, NoDup outs ->
  Containers.lookup k (fold_left (fun d o => Containers.dset o (f o) d) outs d)
  = if zmem k outs then Some (f k) else Containers.lookup k d.
Proof.
  induction outs as [|o outs IH]; intros d k Hnd; cbn [fold_left zmem existsb]; [reflexivity|].
  inversion Hnd; subst. rewrite IH by assumption. fold (zmem k outs).
  destruct (k =? o) eqn:Eko.
  - assert (k = o) by lia; subst k. cbn [orb].
    replace (zmem o outs) with false.
    2:{ symmetry. apply not_true_is_false. intros Hm. apply H1. unfold zmem in Hm. apply existsb_exists in Hm.
        destruct Hm as [y [Hy1 Hy2]]. assert (o = y) by lia; subst; assumption. }
    apply lookup_dset_same.
  - cbn [orb]. destruct (zmem k outs); [reflexivity|]. apply lookup_dset_other. lia.
Qed.

(** the result holds the computed path for every output of J (overriding a path of the same name in x) and
    passes every other key of x through *)
Theorem apply_is_block_matvec_lemma J x k : NoDup (jouts E J) ->
  Containers.lookup k (apply E V v0 vadd eact J x)
  = if zmem k (jouts E J) then Some (apply_entry E V v0 vadd eact J x (i_list E V J x) k) else Containers.lookup k x.
Proof. intros Hnd. unfold Containers.apply. apply (lookup_fold_dset (apply_entry E V v0 vadd eact J x (i_list E V J x))). assumption. Qed.
End ContainerProofs.

(** pack / unpack index arithmetic (translated slice bounds): cell r of the stacked matrix lies in the slice of
    block k iff k = r / T (so every cell is written exactly once and np.empty is fully initialised), and its
    offset inside that block is r mod T; pack and unpack use the same slices. *)
Lemma block_of_cell T k r : 0 < T -> 0 <= r ->
  in_range (T * k) (T * (k + 1)) r = (k =? r / T) /\ r - T * (r / T) = r mod T /\ 0 <= r mod T < T.
Proof.
  intros HT Hr. unfold in_range.
  pose proof (Z.div_mod r T ltac:(lia)). pose proof (Z.mod_pos_bound r T HT).
  split; [|split; lia].
  destruct (k =? r / T) eqn:Ek.
  - assert (k = r / T) by lia. subst k. nia.
  - assert (k <> r / T) by lia. destruct (Z_lt_le_dec k (r / T)); nia.
Qed.

Lemma pack_slices_spec T k r : 0 < T -> 0 <= r ->
  in_range (jpack_row_lo T k) (jpack_row_hi T k) r = (k =? r / T) /\
  in_range (jpack_col_lo T k) (jpack_col_hi T k) r = (k =? r / T) /\
  in_range (junpack_row_lo T k) (junpack_row_hi T k) r = (k =? r / T) /\
  in_range (junpack_col_lo T k) (junpack_col_hi T k) r = (k =? r / T) /\
  in_range (ipack_lo T k) (ipack_hi T k) r = (k =? r / T) /\
  in_range (iunpack_lo T k) (iunpack_hi T k) r = (k =? r / T) /\
  r - jpack_row_lo T (r / T) = r mod T /\ r - jpack_col_lo T (r / T) = r mod T /\
  r - junpack_row_lo T (r / T) = r mod T /\ r - junpack_col_lo T (r / T) = r mod T /\
  r - ipack_lo T (r / T) = r mod T /\ r - iunpack_lo T (r / T) = r mod T.
Proof.
  intros HT Hr. destruct (block_of_cell T k r HT Hr) as (H1 & H2 & H3).
  unfold jpack_row_lo, jpack_row_hi, jpack_col_lo, jpack_col_hi, junpack_row_lo, junpack_row_hi, junpack_col_lo, junpack_col_hi,
    ipack_lo, ipack_hi, iunpack_lo, iunpack_hi.
  replace (k * T) with (T * k) by lia. replace ((k + 1) * T) with (T * (k + 1)) by lia. replace (r / T * T) with (T * (r / T)) by lia.
  repeat split; assumption.
Qed.

(** operand ladder of ImpulseDict arithmetic (translated): real scalars of any type and Impulse/SteadyState
    collections are handled elementwise; everything else is refused (never returned as a value) *)
Lemma operand_ladder_spec k :
  impulse_operand_ladder k =
  match k with
  | KImpulse | KSteady => LElementwiseDict
  | KPyInt | KPyFloat | KBool | KNpFloat64 | KNpFloat32 | KNpInt64 => LElementwiseScalar
  | _ => LRefused
  end.
Proof. destruct k; reflexivity. Qed.
