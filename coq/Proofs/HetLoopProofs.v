(** C09 / C07 / C01: the loop models satisfy their recursive specifications. *)
From Coq Require Import List Arith ZArith Bool Lia.
From SSJ Require Import Model.HetLoop.
Import ListNotations.

Section LoopProofs.
Variables I B Dist : Type.
Variable bstep : I -> B -> B.
Variable expect : B -> B.
Variable exog : B -> Dist -> Dist.
Variable endog : B -> Dist -> Dist.

(** specification: the list of b_t = bstep(inputs_t, E(b_{t+1})) for dates t0 .. t0+n-1, with [last] after the final date *)
Fixpoint spec_list (inputs : nat -> I) (t0 n : nat) (last : B) : list B :=
  match n with
  | O => []
  | S n' => let rest := spec_list inputs (S t0) n' last in bstep (inputs t0) (expect (hd last rest)) :: rest
  end.

Lemma backward_fold inputs ss : forall n t0,
  fold_right (backward_step I B bstep expect inputs) (ss, []) (seq t0 n)
  = (hd ss (spec_list inputs t0 n ss), spec_list inputs t0 n ss).
Proof.
  induction n as [|n IH]; intros t0; cbn [seq fold_right spec_list]; [reflexivity|].
  rewrite IH. unfold backward_step. cbn [fst snd hd]. reflexivity.
Qed.

(** the reverse loop records, at every date, one backward step from date t+1's values under date t's inputs, the
    steady state being the terminal condition *)
Theorem backward_loop_is_recursion_lemma T inputs ss : backward_nonlinear I B bstep expect T inputs ss = spec_list inputs 0 T ss.
Proof. unfold backward_nonlinear. rewrite backward_fold. reflexivity. Qed.

Lemma spec_list_nth inputs last : forall n t0 k, k < n ->
  nth k (spec_list inputs t0 n last) last = bstep (inputs (t0 + k)) (expect (nth (S k) (spec_list inputs t0 n last) last)).
Proof.
  induction n as [|n IH]; intros t0 k Hk; [lia|]. cbn [spec_list].
  destruct k as [|k].
  - cbn [nth]. rewrite Nat.add_0_r. f_equal. f_equal. destruct (spec_list inputs (S t0) n last); reflexivity.
  - cbn [nth]. rewrite (IH (S t0) k) by lia. replace (S t0 + k) with (t0 + S k) by lia. reflexivity.
Qed.

Lemma spec_list_length inputs last : forall n t0, length (spec_list inputs t0 n last) = n.
Proof. induction n; intros; cbn; auto. Qed.

(** forward loop: D_t = exog_t(Dbeg_t), Dbeg_{t+1} = endog_t(D_t), Dbeg_0 as supplied *)
Theorem forward_loop_is_recursion_lemma : forall paths Dbeg k b d,
  nth_error paths k = Some b -> nth_error (forward_nonlinear B Dist exog endog paths Dbeg) k = Some d ->
  snd d = exog b (fst d) /\
  (k = 0 -> fst d = Dbeg) /\
  (forall d', nth_error (forward_nonlinear B Dist exog endog paths Dbeg) (S k) = Some d' -> fst d' = endog b (snd d)).
Proof.
  induction paths as [|b0 rest IH]; intros Dbeg k b d Hb Hd; [destruct k; discriminate|].
  cbn [forward_nonlinear] in *. destruct k as [|k]; cbn [nth_error] in *.
  - inversion Hb; inversion Hd; subst. cbn [fst snd]. split; [reflexivity|]. split; [reflexivity|].
    intros d' Hd'. destruct rest as [|b1 r]; cbn in Hd'; [discriminate|]. inversion Hd'; reflexivity.
  - destruct (IH (endog b0 (exog b0 Dbeg)) k b d Hb Hd) as (H1 & H2 & H3). split; [assumption|]. split; [lia|]. exact H3.
Qed.

(** any property of distributions preserved by every exogenous and endogenous step (total mass -- C08 -- or non-negativity
    inside the grid) holds of the beginning-of-period and end-of-period distribution at EVERY date of the forward pass *)
Theorem forward_invariant_lemma (P : Dist -> Prop) :
  (forall b d, P d -> P (exog b d)) -> (forall b d, P d -> P (endog b d)) ->
  forall paths Dbeg, P Dbeg -> forall d, In d (forward_nonlinear B Dist exog endog paths Dbeg) -> P (fst d) /\ P (snd d).
Proof.
  intros Hx He. induction paths as [|b rest IH]; intros Dbeg H0 d Hin; cbn [forward_nonlinear] in Hin; [contradiction|].
  destruct Hin as [<-|Hin]; cbn [fst snd].
  - split; [assumption | apply Hx; assumption].
  - apply (IH (endog b (exog b Dbeg))); [apply He; apply Hx; assumption | assumption].
Qed.

(** a quantity conserved by both steps (total mass) is the same at every date *)
Theorem forward_conserved_lemma (R : Type) (mass : Dist -> R) :
  (forall b d, mass (exog b d) = mass d) -> (forall b d, mass (endog b d) = mass d) ->
  forall paths Dbeg d, In d (forward_nonlinear B Dist exog endog paths Dbeg) -> mass (fst d) = mass Dbeg /\ mass (snd d) = mass Dbeg.
Proof.
  intros Hx He paths Dbeg d Hin.
  apply (forward_invariant_lemma (fun x => mass x = mass Dbeg) (fun b x Hxm => eq_trans (Hx b x) Hxm) (fun b x Hxm => eq_trans (He b x) Hxm) paths Dbeg eq_refl d Hin).
Qed.
End LoopProofs.

Section SsProofs.
Variable S : Type.
Variable step : S -> S.
Variable close : S -> S -> bool.
(** exit contract of the steady-state iterations: the returned value is one step from the previous iterate and passed the
    closeness test against the value it was compared with; exhausted limit = no return *)
Theorem ss_iter_contract_lemma r fuel : forall it old cur o p n,
  ss_iter S step close r fuel it old cur = Some (o, p, n) -> n = step p /\ close n o = true.
Proof.
  induction fuel as [|f IH]; intros it old cur o p n H; cbn [ss_iter] in H; [discriminate|].
  destruct (Nat.eqb (it mod 10) r && close (step cur) old) eqn:E.
  - inversion H; subst. apply andb_true_iff in E. split; [reflexivity | tauto].
  - eapply IH; eassumption.
Qed.
End SsProofs.

(** J_from_F closed form: J[t, s] = sum_{k <= min t s} F[t-k, s-k] *)
Lemma ksum_ext n : forall f g, (forall k, k < n -> f k = g k) -> ksum n f = ksum n g.
Proof.
  induction n as [|n IH]; intros f g H; cbn [ksum]; [reflexivity|].
  rewrite (H 0) by lia. f_equal. apply IH. intros k Hk. apply H. lia.
Qed.

Lemma ksum_S n f : ksum (S n) f = (f O + ksum n (fun k => f (S k)))%Z.
Proof. reflexivity. Qed.

Theorem J_from_F_closed_form_lemma F : forall s t, J_from_F F t s = ksum (S (Nat.min t s)) (fun k => F (t - k) (s - k)).
Proof.
  induction s as [|s IH]; intros t.
  - cbn [J_from_F]. rewrite Nat.min_0_r, ksum_S. cbn [ksum]. rewrite !Nat.sub_0_r. lia.
  - destruct t as [|t]; cbn [J_from_F].
    + cbn [Nat.min]. rewrite ksum_S. cbn [ksum Nat.sub]. lia.
    + rewrite IH. replace (Nat.min (S t) (S s)) with (S (Nat.min t s)) by lia.
      rewrite (ksum_S (S (Nat.min t s))). rewrite !Nat.sub_0_r. f_equal.
Qed.
