(** C17 (interpolation): the robust binary search terminates within n steps and returns the bracketing index;
    the coordinate reproduces the query; linear interpolation identity. *)
From Coq Require Import ZArith Bool Lia ZifyBool List.
From SSJ Require Import Gen.Interp Model.Interp.
Open Scope Z_scope.
Ltac Zify.zify_post_hook ::= Z.to_euclidean_division_equations.

Definition increasing (n : Z) (x : Z -> Z) : Prop := forall a b, 0 <= a < b -> b < n -> x a < x b.

Lemma bsearch_spec fuel : forall x q lo hi n, increasing n x -> 0 <= lo < hi -> hi < n ->
  (x lo < q \/ lo = 0) -> q <= x hi -> (hi - lo <= Z.of_nat fuel) ->
  exists i, bsearch fuel x q lo hi = Some i /\ lo <= i < hi /\ (x i < q \/ i = 0) /\ q <= x (i + 1).
Proof.
  induction fuel as [|f IH]; intros x q lo hi n Hinc Hlo Hhi Hl Hh Hf; cbn [bsearch]; unfold rb_continue.
  - destruct (hi - lo >? 1) eqn:E; [lia|]. exists lo. replace (lo + 1) with hi by lia. repeat split; try lia; assumption.
  - destruct (hi - lo >? 1) eqn:E.
    + unfold rb_mid, rb_go_right. set (mid := (hi + lo) / 2). assert (Hm : lo < mid < hi) by (unfold mid; lia).
      destruct (q >? x mid) eqn:Eg.
      * destruct (IH x q mid hi n Hinc ltac:(lia) Hhi ltac:(left; lia) Hh ltac:(unfold mid in *; lia)) as (i & H1 & H2 & H3 & H4).
        exists i. repeat split; try assumption; lia.
      * destruct (IH x q lo mid n Hinc ltac:(lia) ltac:(lia) Hl ltac:(lia) ltac:(unfold mid in *; lia)) as (i & H1 & H2 & H3 & H4).
        exists i. repeat split; try assumption; lia.
    + exists lo. replace (lo + 1) with hi by lia. repeat split; try lia; assumption.
Qed.

(** bracket: i in [0, n-2]; below the grid i = 0, above x[n-2] i = n-2, otherwise x[i] < q <= x[i+1] (or q = x[0], i = 0) *)
Theorem robust_bracket_lemma n x q : 2 <= n -> increasing n x ->
  exists i, robust_index n x q = Some i /\ 0 <= i <= n - 2 /\
    (q < x 0 -> i = 0) /\ (q > x (n - 2) -> i = n - 2) /\
    (x 0 <= q <= x (n - 2) -> (x i < q \/ (i = 0 /\ q = x 0)) /\ q <= x (i + 1)).
Proof.
  intros Hn Hinc.
  assert (H0n : x 0 <= x (n - 2)) by (destruct (Z.eq_dec (n - 2) 0) as [->|]; [lia | specialize (Hinc 0 (n - 2)); lia]).
  unfold robust_index, rb_low_guard, rb_high_guard, rb_low_value, rb_high_value, rb_init_low, rb_init_high.
  destruct (q <? x 0) eqn:E1.
  - exists 0. repeat split; try reflexivity; try lia.
  - destruct (q >? x (n - 2)) eqn:E2.
    + exists (n - 2). repeat split; try reflexivity; try lia.
    + assert (Hlast : x (n - 2) < x (n - 1)) by (apply Hinc; lia).
      destruct (bsearch_spec (Z.to_nat n) x q 0 (n - 1) n Hinc ltac:(lia) ltac:(lia) ltac:(right; reflexivity) ltac:(lia) ltac:(lia))
        as (i & H1 & H2 & H3 & H4).
      exists i. split; [assumption|]. repeat split; try lia.
      destruct H3 as [H3| ->]; [left; assumption|]. destruct (Z.eq_dec q (x 0)); [right; split; [reflexivity|assumption] | left; lia].
Qed.

(** xq = xqpi * x[xqi] + (1 - xqpi) * x[xqi+1], stated without division: s = x[i+1] - x[i], pi * s = x[i+1] - q *)
Theorem coord_reproduces_query_lemma lo hi q pi s : s = hi - lo -> pi * s = hi - q -> s * (pi * lo + (1 - pi) * hi) = s * q.
Proof. intros -> H. replace ((hi - lo) * (pi * lo + (1 - pi) * hi)) with ((hi - lo) * hi - (pi * (hi - lo)) * (hi - lo)) by ring. rewrite H. ring. Qed.

(** apply_coord is linear interpolation: with y affine on the bracket, y = y_lo + slope (x - x_lo) *)
Theorem apply_coord_is_linear_interpolation_lemma lo hi q pi s ylo yhi :
  s = hi - lo -> pi * s = hi - q -> s * (pi * ylo + (1 - pi) * yhi) = s * ylo + (q - lo) * (yhi - ylo).
Proof. intros -> H. replace ((hi - lo) * (pi * ylo + (1 - pi) * yhi)) with ((hi - lo) * yhi - (pi * (hi - lo)) * (yhi - ylo)) by ring. rewrite H. ring. Qed.
