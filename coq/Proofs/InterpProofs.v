(** C17 (interpolation): the robust binary search terminates within n steps and returns the bracketing index;
    the coordinate reproduces the query; linear interpolation identity. *)
From Coq Require Import ZArith Bool Lia ZifyBool List.
From SSJ Require Import Gen.Interp Model.Interp.
Open Scope Z_scope.
Ltac Zify.zify_post_hook ::= Z.to_euclidean_division_equations.

Definition increasing (n : Z) (x : Z -> Z) : Prop := forall a b, 0 <= a < b -> b < n -> x a < x b.

Lemma bsearch_spec fuel : forall x q lo hi n, increasing n x -> 0 <= lo < hi -> hi < n ->
  (x lo < q \/ lo = 0) -> q <= x hi -> (hi - lo <= Z.of_nat fuel) ->
  exists i, bsearch fuel x q lo hi = Some i /\ lo <= i < hi /\ (x i < q \/ i = 0) /\ q <= x (i + 1).
Proof.
  induction fuel as [|f IH]; intros x q lo hi n Hinc Hlo Hhi Hl Hh Hf; cbn [bsearch]; unfold rb_continue.
  - destruct (hi - lo >? 1) eqn:E; [lia|]. exists lo. replace (lo + 1) with hi by lia. repeat split; try lia; assumption.
  - destruct (hi - lo >? 1) eqn:E.
    + unfold rb_mid, rb_go_right. set (mid := (hi + lo) / 2). assert (Hm : lo < mid < hi) by (unfold mid; lia).
      destruct (q >? x mid) eqn:Eg.
      * destruct (IH x q mid hi n Hinc ltac:(lia) Hhi ltac:(left; lia) Hh ltac:(unfold mid in *; lia)) as (i & H1 & H2 & H3 & H4).
        exists i. repeat split; try assumption; lia.
      * destruct (IH x q lo mid n Hinc ltac:(lia) ltac:(lia) Hl ltac:(lia) ltac:(unfold mid in *; lia)) as (i & H1 & H2 & H3 & H4).
        exists i. repeat split; try assumption; lia.
    + exists lo. replace (lo + 1) with hi by lia. repeat split; try lia; assumption.
Qed.

(** bracket: i in [0, n-2]; below the grid i = 0, above x[n-2] i = n-2, otherwise x[i] < q <= x[i+1] (or q = x[0], i = 0) *)
Theorem robust_bracket_lemma n x q : 2 <= n -> increasing n x ->
  exists i, robust_index n x q = Some i /\ 0 <= i <= n - 2 /\
    (q < x 0 -> i = 0) /\ (q > x (n - 2) -> i = n - 2) /\
    (x 0 <= q <= x (n - 2) -> (x i < q \/ (i = 0 /\ q = x 0)) /\ q <= x (i + 1)).
Proof.
  intros Hn Hinc.
  assert (H0n : x 0 <= x (n - 2)) by (destruct (Z.eq_dec (n - 2) 0) as [->|]; [lia | specialize (Hinc 0 (n - 2)); lia]).
  unfold robust_index, rb_low_guard, rb_high_guard, rb_low_value, rb_high_value, rb_init_low, rb_init_high.
  destruct (q <? x 0) eqn:E1.
  - exists 0. repeat split; try reflexivity; try lia.
  - destruct (q >? x (n - 2)) eqn:E2.
    + exists (n - 2). repeat split; try reflexivity; try lia.
    + assert (Hlast : x (n - 2) < x (n - 1)) by (apply Hinc; lia).
      destruct (bsearch_spec (Z.to_nat n) x q 0 (n - 1) n Hinc ltac:(lia) ltac:(lia) ltac:(right; reflexivity) ltac:(lia) ltac:(lia))
        as (i & H1 & H2 & H3 & H4).
      exists i. split; [assumption|]. repeat split; try lia.
      destruct H3 as [H3| ->]; [left; assumption|]. destruct (Z.eq_dec q (x 0)); [right; split; [reflexivity|assumption] | left; lia].
Qed.

(** xq = xqpi * x[xqi] + (1 - xqpi) * x[xqi+1], stated without division: s = x[i+1] - x[i], pi * s = x[i+1] - q *)
Theorem coord_reproduces_query_lemma lo hi q pi s : s = hi - lo -> pi * s = hi - q -> s * (pi * lo + (1 - pi) * hi) = s * q.
Proof. intros -> H. replace ((hi - lo) * (pi * lo + (1 - pi) * hi)) with ((hi - lo) * hi - (pi * (hi - lo)) * (hi - lo)) by ring. rewrite H. ring. Qed.

(** apply_coord is linear interpolation: with y affine on the bracket, y = y_lo + slope (x - x_lo) *)
Theorem apply_coord_is_linear_interpolation_lemma lo hi q pi s ylo yhi :
  s = hi - lo -> pi * s = hi - q -> s * (pi * ylo + (1 - pi) * yhi) = s * ylo + (q - lo) * (yhi - ylo).
Proof. intros -> H. replace ((hi - lo) * (pi * ylo + (1 - pi) * yhi)) with ((hi - lo) * yhi - (pi * (hi - lo)) * (yhi - ylo)) by ring. rewrite H. ring. Qed.

(** ---------------------------------------------------------------------------------------------------------------- *)
(** monotone sweep = robust search on ascending queries *)
From Coq Require Import Sorted.
Import ListNotations.

(** the bracketing index is characterised by: least i with q <= x[i+1], capped at n-2 *)
Definition idx_spec (n : Z) (x : Z -> Z) (q i : Z) : Prop :=
  0 <= i <= n - 2 /\ (i = n - 2 \/ q <= x (i + 1)) /\ (i = 0 \/ x i < q).

Lemma idx_spec_unique n x q i j : increasing n x -> idx_spec n x q i -> idx_spec n x q j -> i = j.
Proof.
  intros Hinc (Hi1 & Hi2 & Hi3) (Hj1 & Hj2 & Hj3).
  destruct (Z.lt_trichotomy i j) as [Hlt|[Heq|Hgt]]; [exfalso | assumption | exfalso].
  - (* i < j: q <= x(i+1) <= x j < q *)
    assert (Hq : q <= x (i + 1)) by lia. assert (Hx : x j < q) by lia.
    destruct (Z.eq_dec (i + 1) j) as [E|E]; [rewrite E in Hq; lia|]. specialize (Hinc (i + 1) j). lia.
  - assert (Hq : q <= x (j + 1)) by lia. assert (Hx : x i < q) by lia.
    destruct (Z.eq_dec (j + 1) i) as [E|E]; [rewrite E in Hq; lia|]. specialize (Hinc (j + 1) i). lia.
Qed.

Lemma robust_meets_spec n x q : 2 <= n -> increasing n x -> exists i, robust_index n x q = Some i /\ idx_spec n x q i.
Proof.
  intros Hn Hinc. destruct (robust_bracket_lemma n x q Hn Hinc) as (i & Hr & Hrange & Hlow & Hhigh & Hmid).
  exists i. split; [assumption|]. unfold idx_spec. split; [assumption|].
  assert (H0n : x 0 <= x (n - 2)) by (destruct (Z.eq_dec (n - 2) 0) as [->|]; [lia | specialize (Hinc 0 (n - 2)); lia]).
  destruct (Z_lt_le_dec q (x 0)) as [Hq0|Hq0].
  - specialize (Hlow Hq0). subst i. split; [|left; reflexivity].
    destruct (Z.eq_dec (n - 2) 0); [left; lia|]. right. replace (0 + 1) with 1 by reflexivity. specialize (Hinc 0 1). lia.
  - destruct (Z_lt_le_dec (x (n - 2)) q) as [Hqn|Hqn].
    + specialize (Hhigh ltac:(lia)). subst i. split; [left; reflexivity|]. destruct (Z.eq_dec (n - 2) 0); [left; lia | right; lia].
    + destruct (Hmid ltac:(lia)) as [H1 H2]. split; [right; assumption|]. destruct H1 as [H1|[H1 _]]; [right; assumption | left; assumption].
Qed.

Lemma sweep_advance_spec fuel : forall n x q xi, 0 <= xi <= n - 2 -> n - 2 - xi <= Z.of_nat fuel ->
  let r := sweep_advance fuel n x q xi in
  xi <= r <= n - 2 /\ (r = n - 2 \/ q <= x (r + 1)) /\ (r = xi \/ x r < q).
Proof.
  induction fuel as [|f IH]; intros n x q xi Hxi Hf; cbn [sweep_advance].
  - cbv zeta. split; [lia|]. split; [left; lia | left; reflexivity].
  - destruct ((xi <? n - 2) && negb (x (xi + 1) >=? q)) eqn:E.
    + assert (Hlt : xi < n - 2) by lia. assert (Hx : x (xi + 1) < q) by lia.
      specialize (IH n x q (xi + 1) ltac:(lia) ltac:(lia)). cbv zeta in *. destruct IH as (H1 & H2 & H3).
      split; [lia|]. split; [assumption|]. right. destruct H3 as [->|H3]; assumption.
    + cbv zeta. split; [lia|]. split; [|left; reflexivity]. destruct (Z.eq_dec xi (n - 2)); [left; assumption | right; lia].
Qed.

Lemma sweep_fold n x : 2 <= n -> increasing n x -> forall qs xi acc, 0 <= xi <= n - 2 ->
  StronglySorted Z.le qs -> (forall q, In q qs -> xi = 0 \/ x xi < q) ->
  map Some (snd (fold_left (fun st q => let xi := sweep_advance (Z.to_nat n) n x q (fst st) in (xi, snd st ++ [xi])) qs (xi, acc)))
  = map Some acc ++ map (robust_index n x) qs.
Proof.
  intros Hn Hinc. induction qs as [|q qs IH]; intros xi acc Hxi Hs Hprev; cbn [fold_left map].
  - rewrite app_nil_r. reflexivity.
  - cbn [fst snd]. inversion Hs as [|? ? Hs' Hall]; subst.
    destruct (sweep_advance_spec (Z.to_nat n) n x q xi Hxi ltac:(lia)) as (H1 & H2 & H3).
    set (r := sweep_advance (Z.to_nat n) n x q xi) in *.
    assert (Hspec : idx_spec n x q r).
    { split; [lia|]. split; [assumption|]. destruct H3 as [->|H3]; [apply Hprev; left; reflexivity | right; assumption]. }
    destruct (robust_meets_spec n x q Hn Hinc) as (i & Hi1 & Hi2).
    assert (r = i) by (eapply idx_spec_unique; eassumption). subst i.
    rewrite IH; [| lia | assumption |].
    + rewrite map_app. cbn [map]. rewrite <- app_assoc. cbn [app]. rewrite Hi1. reflexivity.
    + intros q' Hq'. rewrite Forall_forall in Hall. specialize (Hall q' Hq'). destruct Hspec as (_ & _ & [->|Hx]); [left; reflexivity | right; lia].
Qed.

Theorem monotone_equals_robust_lemma n x qs : 2 <= n -> increasing n x -> StronglySorted Z.le qs ->
  map Some (sweep n x qs) = map (robust_index n x) qs.
Proof.
  intros Hn Hinc Hs. unfold sweep. apply (sweep_fold n x Hn Hinc qs 0 []); [lia | assumption | intros; left; reflexivity].
Qed.
