(** C15: COMPLETENESS of the topological sort.  With the code's stack discipline and KeyError-raising removal, Kahn's loop
    never raises, never runs out of the iteration budget of the model, and when the dependency relation admits a rank
    (i.e. an admissible evaluation order exists) it returns all blocks: topological_sort = Sorted _. *)
From Coq Require Import Arith Bool List Lia Permutation.
From SSJ Require Import Model.Graph Proofs.GraphProofs.
Import ListNotations.

Lemma NoDup_snoc (x : nat) l : NoDup l -> ~ In x l -> NoDup (l ++ [x]).
Proof.
  intros H Hx. apply (Permutation_NoDup (Permutation_cons_append l x)). constructor; assumption.
Qed.

Lemma NoDup_addn k s : NoDup s -> NoDup (addn k s).
Proof.
  intros H. unfold addn. destruct (memn k s) eqn:E; [assumption|]. apply memn_false in E. apply NoDup_snoc; assumption.
Qed.

Lemma NoDup_dedup l : NoDup (dedup l).
Proof.
  unfold dedup. assert (G : forall acc, NoDup acc -> NoDup (fold_left (fun acc x => addn x acc) l acc)).
  { induction l as [|x l IH]; intros acc H; cbn [fold_left]; [assumption|]. apply IH. apply NoDup_addn. assumption. }
  apply G. constructor.
Qed.

(** a duplicate-free list of numbers below N has at most N elements; if it misses none it has exactly N *)
Lemma NoDup_bound (l : list nat) N : NoDup l -> (forall x, In x l -> x < N) -> length l <= N.
Proof.
  intros H Hb. rewrite <- (seq_length N 0). apply NoDup_incl_length; [assumption|].
  intros x Hx. apply in_seq. specialize (Hb x Hx). lia.
Qed.

Lemma NoDup_full (l : list nat) N : NoDup l -> (forall x, In x l -> x < N) -> (forall x, x < N -> In x l) -> length l = N.
Proof.
  intros H Hb Hf. apply Nat.le_antisymm; [apply NoDup_bound; assumption|].
  rewrite <- (seq_length N 0). apply NoDup_incl_length; [apply seq_NoDup|].
  intros x Hx. apply in_seq in Hx. apply Hf. lia.
Qed.

Section KahnComplete.
Variable N : nat.
Variable orig : nat -> list nat.       (* revadj *)
Variable adj : nat -> list nat.
Hypothesis sym : forall n m, n < N -> m < N -> (In m (adj n) <-> In n (orig m)).
Hypothesis adj_range : forall n m, In m (adj n) -> m < N.
Hypothesis orig_range : forall n d, In d (orig n) -> d < N.
Hypothesis adj_nodup : forall n, NoDup (adj n).

(** invariant inside the relaxation of node n (already appended to acc); [l] = edges of n still to relax *)
Record IInv (n : nat) (l : list nat) (dep : list (list nat)) (stack acc : list nat) : Prop := {
  ii_len : length dep = N;
  ii_nd : NoDup (stack ++ acc);
  ii_rng : forall x, In x (stack ++ acc) -> x < N;
  ii_dep : forall m d, m < N -> (In d (nth m dep []) <-> In d (orig m) /\ (~ In d acc \/ (d = n /\ In m l)));
  ii_emp : forall m, m < N -> (nth m dep [] = [] <-> In m (stack ++ acc)) }.

Lemma relax_ok n m l dep stack acc : n < N -> In n acc -> In m (adj n) -> ~ In m l ->
  IInv n (m :: l) dep stack acc ->
  exists dep' stack', kahn_relax n (Some (dep, stack)) m = Some (dep', stack') /\ IInv n l dep' stack' acc.
Proof.
  intros HnN Hnacc Hm Hml [Hlen Hnd Hrng Hdep Hemp].
  assert (HmN : m < N) by (eapply adj_range; eassumption).
  assert (Hin : In n (nth m dep [])).
  { apply Hdep; [assumption|]. split; [apply sym; assumption | right; split; [reflexivity | left; reflexivity]]. }
  unfold kahn_relax. replace (memn n (nth m dep [])) with true by (symmetry; apply memn_In; assumption).
  assert (Hfresh : ~ In m (stack ++ acc)).
  { intros Hc. apply Hemp in Hc; [|assumption]. rewrite Hc in Hin. contradiction. }
  assert (Hnew : forall d, In d (removen n (nth m dep [])) <-> In d (orig m) /\ (~ In d acc \/ (d = n /\ In m l))).
  { intros d. rewrite In_removen, (Hdep m d HmN). split.
    - intros [[H1 [H2|[H2 _]]] H3]; [split; [assumption | left; assumption] | contradiction].
    - intros [H1 [H2|[_ H2]]]; [|contradiction]. split; [split; [assumption | left; assumption]|].
      intros ->. contradiction. }
  eexists; eexists; split; [reflexivity|].
  destruct (removen n (nth m dep [])) as [|y r] eqn:Er.
  - (* dependency list exhausted: m is pushed *)
    constructor.
    + rewrite length_upd; assumption.
    + cbn. constructor; assumption.
    + intros x [<-|Hx]; [assumption | apply Hrng; assumption].
    + intros m' d Hm'. destruct (Nat.eq_dec m' m) as [->|Hne].
      * rewrite nth_upd_same by lia. rewrite <- Hnew. reflexivity.
      * rewrite nth_upd_other by assumption. rewrite (Hdep m' d Hm'). cbn [In]. intuition congruence.
    + intros m' Hm'. destruct (Nat.eq_dec m' m) as [->|Hne].
      * rewrite nth_upd_same by lia. split; [intros _; left; reflexivity | reflexivity].
      * rewrite nth_upd_other by assumption. rewrite (Hemp m' Hm'). cbn [app In]. intuition congruence.
  - constructor.
    + rewrite length_upd; assumption.
    + assumption.
    + assumption.
    + intros m' d Hm'. destruct (Nat.eq_dec m' m) as [->|Hne].
      * rewrite nth_upd_same by lia. apply Hnew.
      * rewrite nth_upd_other by assumption. rewrite (Hdep m' d Hm'). cbn [In]. intuition congruence.
    + intros m' Hm'. destruct (Nat.eq_dec m' m) as [->|Hne].
      * rewrite nth_upd_same by lia. split; [discriminate | intros Hc; contradiction].
      * rewrite nth_upd_other by assumption. apply Hemp; assumption.
Qed.

Lemma relax_fold_ok n : n < N -> forall l dep stack acc, In n acc -> (forall m, In m l -> In m (adj n)) -> NoDup l ->
  IInv n l dep stack acc ->
  exists dep' stack', fold_left (kahn_relax n) l (Some (dep, stack)) = Some (dep', stack') /\ IInv n [] dep' stack' acc.
Proof.
  intros HnN. induction l as [|m l IH]; intros dep stack acc Hnacc Hsub Hnd HI; cbn [fold_left].
  - eexists; eexists; split; [reflexivity | assumption].
  - inversion Hnd as [|? ? Hml Hnd']; subst.
    destruct (relax_ok n m l dep stack acc HnN Hnacc (Hsub m (or_introl eq_refl)) Hml HI) as (d1 & s1 & E1 & HI1).
    rewrite E1. apply IH; [assumption | intros m' Hm'; apply Hsub; right; assumption | assumption | assumption].
Qed.

(** invariant between iterations of the while loop *)
Definition OInv (dep : list (list nat)) (stack acc : list nat) : Prop :=
  length dep = N /\ NoDup (stack ++ acc) /\ (forall x, In x (stack ++ acc) -> x < N) /\
  (forall m d, m < N -> (In d (nth m dep []) <-> In d (orig m) /\ ~ In d acc)) /\
  (forall m, m < N -> (nth m dep [] = [] <-> In m (stack ++ acc))).

Lemma OInv_pop n stack acc dep : OInv dep (n :: stack) acc -> IInv n (adj n) dep stack (acc ++ [n]).
Proof.
  intros (Hlen & Hnd & Hrng & Hdep & Hemp).
  assert (HnN : n < N) by (apply Hrng; left; reflexivity).
  assert (Hperm : Permutation (stack ++ acc ++ [n]) ((n :: stack) ++ acc)).
  { cbn. rewrite app_assoc. symmetry. apply Permutation_cons_append. }
  constructor.
  - assumption.
  - apply (Permutation_NoDup (Permutation_sym Hperm)). assumption.
  - intros x Hx. apply Hrng. apply (Permutation_in _ Hperm). assumption.
  - intros m d Hm. rewrite (Hdep m d Hm). rewrite in_app_iff. cbn [In]. split.
    + intros [H1 H2]. split; [assumption|]. destruct (Nat.eq_dec d n) as [->|Hne].
      * right. split; [reflexivity|]. apply sym; assumption.
      * left. intros [H|[H|[]]]; [contradiction | congruence].
    + intros [H1 [H2|[-> H2]]]; split; try assumption.
      * intros H; apply H2; left; assumption.
      * intros H. inversion Hnd as [|? ? Hnot _]; subst. apply Hnot. apply in_or_app; right; assumption.
  - intros m Hm. rewrite (Hemp m Hm). split; intros H; [apply (Permutation_in _ (Permutation_sym Hperm)) | apply (Permutation_in _ Hperm)]; assumption.
Qed.

Lemma IInv_done n dep stack acc : IInv n [] dep stack acc -> OInv dep stack acc.
Proof.
  intros [Hlen Hnd Hrng Hdep Hemp]. split; [assumption|]. split; [assumption|]. split; [assumption|]. split.
  - intros m d Hm. rewrite (Hdep m d Hm). cbn [In]. tauto.
  - assumption.
Qed.

(** the loop never raises, never exhausts its budget, and ends with the invariant and an empty stack *)
Lemma kahn_loop_total fuel : forall dep stack acc, OInv dep stack acc -> N < fuel + length acc ->
  exists dep' acc', kahn_loop fuel adj dep stack acc = Some (dep', acc') /\ OInv dep' [] acc'.
Proof.
  induction fuel as [|f IH]; intros dep stack acc HO Hfuel.
  - destruct stack as [|n stack']; [cbn; eexists; eexists; split; [reflexivity | assumption]|].
    exfalso. destruct HO as (_ & Hnd & Hrng & _).
    pose proof (NoDup_bound _ N Hnd Hrng) as Hb. rewrite app_length in Hb. cbn in Hb, Hfuel. lia.
  - destruct stack as [|n stack']; [cbn; eexists; eexists; split; [reflexivity | assumption]|].
    cbn [kahn_loop].
    assert (HnN : n < N) by (destruct HO as (_ & _ & Hrng & _); apply Hrng; left; reflexivity).
    pose proof (OInv_pop n stack' acc dep HO) as HI.
    destruct (relax_fold_ok n HnN (adj n) dep stack' (acc ++ [n])) as (d1 & s1 & E1 & HI1);
      [apply in_or_app; right; left; reflexivity | auto | apply adj_nodup | assumption |].
    rewrite E1. apply IH; [eapply IInv_done; eassumption|]. rewrite app_length. cbn. lia.
Qed.

(** if the dependency relation admits a rank, nothing is left over *)
Lemma nothing_left (rank : nat -> nat) dep acc : (forall n d, n < N -> In d (orig n) -> rank d < rank n) ->
  OInv dep [] acc -> length acc = N.
Proof.
  intros Hrank (Hlen & Hnd & Hrng & Hdep & Hemp). cbn [app] in *.
  apply NoDup_full; [assumption | assumption|].
  assert (G : forall k m, rank m < k -> m < N -> In m acc).
  { induction k as [|k IHk]; intros m Hk Hm; [lia|].
    destruct (in_dec Nat.eq_dec m acc) as [Hin|Hnot]; [assumption|]. exfalso.
    destruct (nth m dep []) as [|d r] eqn:Ed.
    - apply Hnot. apply Hemp; assumption.
    - assert (Hd : In d (nth m dep [])) by (rewrite Ed; left; reflexivity).
      apply Hdep in Hd; [|assumption]. destruct Hd as [Hd1 Hd2]. apply Hd2. apply IHk.
      + specialize (Hrank m d Hm Hd1). lia.
      + eapply orig_range; eassumption. }
  intros x Hx. apply (G (S (rank x))); [lia | assumption].
Qed.
End KahnComplete.

(** instantiate with the adjacency built from the blocks *)
Lemma In_consumers bs o m : In m (consumers bs o) <-> m < length bs /\ In o (b_in (blkn bs m)).
Proof. unfold consumers, indices. rewrite filter_In, in_seq, memn_In. intuition lia. Qed.
Lemma In_producers bs i n : In n (producers bs i) <-> n < length bs /\ In i (b_out (blkn bs n)).
Proof. unfold producers, indices. rewrite filter_In, in_seq, memn_In. intuition lia. Qed.
Lemma In_adj bs n m : In m (adj_of bs n) <-> exists o, In o (b_out (blkn bs n)) /\ In m (consumers bs o).
Proof. unfold adj_of. rewrite In_dedup, in_flat_map. reflexivity. Qed.

Theorem toposort_complete_lemma bs (rank : nat -> nat) :
  (forall n i p, n < length bs -> In i (b_in (blkn bs n)) -> In p (producers bs i) -> rank p < rank n) ->
  exists order, topological_sort bs = Sorted order.
Proof.
  intros Hrank. unfold topological_sort, indices. set (N := length bs). set (dep := map (revadj_of bs) (seq 0 N)).
  set (nodeps := filter _ (seq 0 N)).
  assert (Hsym : forall n m, n < N -> m < N -> (In m (adj_of bs n) <-> In n (revadj_of bs m))).
  { intros n m Hn Hm. rewrite In_adj, In_revadj. split.
    - intros (o & Ho & Hc). apply In_consumers in Hc. exists o. split; [tauto|]. apply In_producers. split; assumption.
    - intros (i & Hi & Hp). apply In_producers in Hp. exists i. split; [tauto|]. apply In_consumers. split; assumption. }
  assert (Hadjr : forall n m, In m (adj_of bs n) -> m < N).
  { intros n m H. apply In_adj in H. destruct H as (o & _ & Hc). apply In_consumers in Hc. tauto. }
  assert (Horigr : forall n d, In d (revadj_of bs n) -> d < N).
  { intros n d H. apply In_revadj in H. destruct H as (i & _ & Hp). apply In_producers in Hp. tauto. }
  assert (HO : OInv N (revadj_of bs) dep (rev nodeps) []).
  { unfold OInv. rewrite app_nil_r. split; [|split; [|split; [|split]]].
    - unfold dep. rewrite map_length, seq_length. reflexivity.
    - apply NoDup_rev. apply NoDup_filter. apply seq_NoDup.
    - intros x Hx. apply in_rev in Hx. apply filter_In in Hx. destruct Hx as [Hx _]. apply in_seq in Hx. lia.
    - intros m d Hm. unfold dep. rewrite nth_map_seq by assumption. cbn [In]. tauto.
    - intros m Hm. split.
      + intros Hm0. rewrite <- in_rev. apply filter_In. split; [apply in_seq; lia|]. rewrite Hm0. reflexivity.
      + intros Hm0. apply in_rev in Hm0. apply filter_In in Hm0. destruct Hm0 as [_ Hm0]. destruct (nth m dep []); [reflexivity | discriminate]. }
  destruct (kahn_loop_total N (revadj_of bs) (adj_of bs) Hsym Hadjr Horigr (fun n => NoDup_dedup _) (S N) dep (rev nodeps) [] HO) as (dep' & acc' & E & HO');
    [cbn; lia|].
  rewrite E.
  assert (Hlen : length acc' = N).
  { eapply (nothing_left N (revadj_of bs) Horigr rank); [|exact HO'].
    intros n d Hn Hd. apply In_revadj in Hd. destruct Hd as (i & Hi & Hp). eapply Hrank; eassumption. }
  rewrite Hlen, Nat.eqb_refl. eexists; reflexivity.
Qed.

(** conversely a returned order provides a rank: position in the order *)
Lemma index_of_app_notin x l1 l2 : ~ In x l1 ->
  (fix go l k := match l with [] => k | y :: r => if Nat.eqb y x then k else go r (S k) end) (l1 ++ x :: l2) 0 = length l1.
Proof.
  intros H. assert (G : forall k, (fix go l k := match l with [] => k | y :: r => if Nat.eqb y x then k else go r (S k) end) (l1 ++ x :: l2) k = k + length l1).
  { induction l1 as [|y l1 IH]; intros k; cbn.
    - rewrite Nat.eqb_refl. lia.
    - destruct (Nat.eqb y x) eqn:E; [apply Nat.eqb_eq in E; subst; exfalso; apply H; left; reflexivity|].
      rewrite IH by (intros Hc; apply H; right; assumption). lia. }
  rewrite G. reflexivity.
Qed.

Theorem toposort_sorted_iff_rank_lemma bs :
  (exists order, topological_sort bs = Sorted order) <->
  (exists rank : nat -> nat, forall n i p, n < length bs -> In i (b_in (blkn bs n)) -> In p (producers bs i) -> rank p < rank n).
Proof.
  split; [|intros [rank H]; eapply toposort_complete_lemma; eassumption].
  intros [order H]. apply toposort_sound_lemma in H. destruct H as [Hperm Hbefore].
  exists (fun x => index_of x order). intros n i p Hn Hi Hp.
  assert (Hin : In n order) by (apply (Permutation_in _ (Permutation_sym Hperm)); apply in_seq; lia).
  assert (Hnd : NoDup order) by (apply (Permutation_NoDup (Permutation_sym Hperm)); apply seq_NoDup).
  apply in_split in Hin. destruct Hin as (l1 & l2 & ->).
  pose proof (Hbefore l1 n l2 eq_refl i p Hi Hp) as Hp1.
  apply NoDup_remove_2 in Hnd as Hn1.
  assert (Hn1' : ~ In n l1) by (intros Hc; apply Hn1; apply in_or_app; left; assumption).
  unfold index_of. rewrite (index_of_app_notin n l1 l2 Hn1').
  apply in_split in Hp1. destruct Hp1 as (a & b & ->).
  assert (Hpa : ~ In p a).
  { rewrite <- !app_assoc in Hnd. cbn in Hnd. apply NoDup_remove_2 in Hnd. intros Hc; apply Hnd; apply in_or_app; left; assumption. }
  rewrite <- app_assoc. cbn [app]. rewrite (index_of_app_notin p a (b ++ n :: l2) Hpa). rewrite app_length. cbn. lia.
Qed.

(** a closed chain of dependency edges (a block that directly or indirectly consumes its own output) is always refused *)
Definition dep_edge (bs : list blk) (a b : nat) : Prop := b < length bs /\ exists i, In i (b_in (blkn bs b)) /\ In a (producers bs i).
Inductive chain (bs : list blk) : nat -> nat -> Prop :=
| chain1 a b : dep_edge bs a b -> chain bs a b
| chainS a b c : dep_edge bs a b -> chain bs b c -> chain bs a c.

Theorem cyclic_refused_lemma bs n : chain bs n n -> forall order, topological_sort bs <> Sorted order.
Proof.
  intros Hc order Hs.
  assert (Hex : exists order, topological_sort bs = Sorted order) by (exists order; assumption).
  apply toposort_sorted_iff_rank_lemma in Hex. destruct Hex as [rank Hrank].
  assert (G : forall a b, chain bs a b -> rank a < rank b).
  { induction 1 as [a b (Hb & i & Hi & Hp)|a b c (Hb & i & Hi & Hp) _ IH].
    - eapply Hrank; eassumption.
    - specialize (Hrank b i a Hb Hi Hp). lia. }
  specialize (G n n Hc). lia.
Qed.

(** -------------------------------------------------------------------------------------------- *)
(** COMPLETENESS of find_cycle: if every node of [only] has a remaining dependency inside [only] (which is what Kahn's loop
    leaves behind), the search returns a cycle -- whatever element set.pop() picks -- and never reaches the code's
    "THIS SHOULD NEVER EVER HAPPEN" assertion. *)
Lemma length_removen_le x l : length (removen x l) <= length l.
Proof. induction l as [|y l IH]; [cbn; lia|]. unfold removen in *. cbn [filter]. destruct (negb (Nat.eqb y x)); cbn [length]; lia. Qed.

Lemma length_removen_lt x l : In x l -> length (removen x l) < length l.
Proof.
  induction l as [|y l IH]; intros H; [contradiction|]. unfold removen in *. cbn [filter].
  destruct (Nat.eqb y x) eqn:E; cbn [negb length].
  - pose proof (length_removen_le x l) as Hle. unfold removen in Hle. lia.
  - destruct H as [->|H]; [rewrite Nat.eqb_refl in E; discriminate|]. specialize (IH H). lia.
Qed.

Section DfsComplete.
Variable pick : list nat -> nat.
Hypothesis pick_in : forall l, l <> [] -> In (pick l) l.
Variable dep0 : list (list nat).
Variable only : list nat.
Hypothesis live : forall n, In n only -> nth n dep0 [] <> [] /\ forall x, In x (nth n dep0 []) -> In x only.

Record DInv (dep : list (list nat)) (tovisit stack : list nat) : Prop := {
  d_sub : forall x, In x stack \/ In x tovisit -> In x only;
  d_cov : forall x, In x only -> In x stack \/ In x tovisit;
  d_dis : forall x, In x stack -> ~ In x tovisit;
  d_fresh : forall n, In n tovisit \/ (exists l, stack = l ++ [n]) -> nth n dep [] = nth n dep0 [] }.

Lemma dfs_finds fuel : forall dep tovisit stack, DInv dep tovisit stack -> stack <> [] \/ tovisit <> [] ->
  length tovisit + 2 <= fuel -> exists c, dfs pick fuel dep tovisit stack = Some c.
Proof.
  induction fuel as [|f IH]; intros dep tovisit stack [Hsub Hcov Hdis Hfresh] Hne Hfuel; [lia|].
  cbn [dfs]. destruct (rev stack) as [|n rs] eqn:Es.
  - assert (stack = []) by (rewrite <- (rev_involutive stack), Es; reflexivity). subst stack.
    destruct Hne as [Hne|Hne]; [congruence|].
    destruct tovisit as [|t0 tv] eqn:Et; [congruence|]. rewrite <- Et in *. clear Et.
    pose proof (pick_in tovisit Hne) as Hp. set (n := pick tovisit) in *.
    apply IH.
    + constructor.
      * intros x [[->|[]]|Hx]; [apply Hsub; right; assumption | apply In_removen in Hx; apply Hsub; right; tauto].
      * intros x Hx. destruct (Hcov x Hx) as [[]|Hx']. destruct (Nat.eq_dec x n) as [->|Hxn]; [left; left; reflexivity | right; apply In_removen; split; assumption].
      * intros x [->|[]] Hx. apply In_removen in Hx. destruct Hx as [_ Hx]. congruence.
      * intros m [Hm|[l Hl]].
        -- apply In_removen in Hm. apply Hfresh. left; tauto.
        -- assert (m = n). { destruct l as [|? [|? ?]]; cbn in Hl; inversion Hl; reflexivity. } subst m. apply Hfresh. left; assumption.
    + left; discriminate.
    + pose proof (length_removen_lt n tovisit Hp). lia.
  - apply rev_cons_last in Es.
    assert (Hn_stack : In n stack) by (rewrite Es; apply in_or_app; right; left; reflexivity).
    assert (Hn_only : In n only) by (apply Hsub; left; assumption).
    assert (Hdn : nth n dep [] = nth n dep0 []) by (apply Hfresh; right; exists (rev rs); assumption).
    destruct (live n Hn_only) as [Hnonempty Hinside].
    rewrite Hdn. destruct (rev (nth n dep0 [])) as [|n2 rest] eqn:Ed.
    { exfalso. apply Hnonempty. rewrite <- (rev_involutive (nth n dep0 [])), Ed. reflexivity. }
    apply rev_cons_last in Ed.
    assert (Hn2 : In n2 only) by (apply Hinside; rewrite Ed; apply in_or_app; right; left; reflexivity).
    destruct (memn n2 stack) eqn:Em; [eexists; reflexivity|].
    apply memn_false in Em.
    assert (Hn2t : In n2 tovisit) by (destruct (Hcov n2 Hn2); [contradiction | assumption]).
    replace (memn n2 tovisit) with true by (symmetry; apply memn_In; assumption).
    apply IH.
    + constructor.
      * intros x [Hx|Hx]; [apply in_app_or in Hx; destruct Hx as [Hx|[->|[]]]; [apply Hsub; left; assumption | assumption] | apply In_removen in Hx; apply Hsub; right; tauto].
      * intros x Hx. destruct (Hcov x Hx) as [Hx'|Hx']; [left; apply in_or_app; left; assumption|].
        destruct (Nat.eq_dec x n2) as [->|Hxn]; [left; apply in_or_app; right; left; reflexivity | right; apply In_removen; split; assumption].
      * intros x Hx Hx'. apply In_removen in Hx'. destruct Hx' as [Hx1 Hx2]. apply in_app_or in Hx. destruct Hx as [Hx|[->|[]]]; [exact (Hdis x Hx Hx1) | congruence].
      * intros m Hm.
        assert (Hmt : In m tovisit).
        { destruct Hm as [Hm|[l Hl]]; [apply In_removen in Hm; tauto|]. apply app_inj_tail in Hl. destruct Hl as [_ <-]. assumption. }
        assert (Hmn : m <> n) by (intros ->; exact (Hdis n Hn_stack Hmt)).
        rewrite nth_upd_other by assumption. apply Hfresh. left; assumption.
    + left. intros Hc. destruct stack; discriminate.
    + pose proof (length_removen_lt n2 tovisit Hn2t). lia.
Qed.
End DfsComplete.

Theorem find_cycle_complete_lemma pick dep only : (forall l, l <> [] -> In (pick l) l) -> only <> [] -> NoDup only ->
  (forall n, In n only -> n < length dep /\ exists x, In x (nth n dep []) /\ In x only) ->
  exists c, find_cycle pick dep only = Some c.
Proof.
  intros Hpick Hne Hnd Hlive. unfold find_cycle. set (dep0 := map _ (seq 0 (length dep))).
  apply (dfs_finds pick Hpick dep0 only).
  - intros n Hn. destruct (Hlive n Hn) as (Hlt & x & Hx1 & Hx2). unfold dep0. rewrite nth_map_seq by assumption.
    replace (memn n only) with true by (symmetry; apply memn_In; assumption). split.
    + intros Hc. assert (Hin : In x (filter (fun x0 => memn x0 only) (nth n dep []))) by (apply filter_In; split; [assumption | apply memn_In; assumption]).
      rewrite Hc in Hin. contradiction.
    + intros y Hy. apply filter_In in Hy. apply memn_In. tauto.
  - constructor.
    + intros x [[]|Hx]; assumption.
    + intros x Hx; right; assumption.
    + intros x [].
    + intros n [Hn|[l Hl]]; [reflexivity | destruct l; discriminate].
  - right; assumption.
  - assert (Hb : length only <= length dep).
    { apply NoDup_bound; [assumption|]. intros x Hx. apply Hlive; assumption. }
    nia.
Qed.

(** what Kahn's loop leaves behind when it stops early always contains a cycle that find_cycle reports *)
Theorem cyclic_always_reported_lemma bs dep acc pick : (forall l, l <> [] -> In (pick l) l) ->
  topological_sort bs = Cyclic dep acc ->
  exists c, find_cycle pick dep (filter (fun n => negb (memn n acc)) (indices bs)) = Some c.
Proof.
  intros Hpick. unfold topological_sort, indices. set (N := length bs). set (dep1 := map (revadj_of bs) (seq 0 N)).
  set (nodeps := filter _ (seq 0 N)).
  assert (Hsym : forall n m, n < N -> m < N -> (In m (adj_of bs n) <-> In n (revadj_of bs m))).
  { intros n m Hn Hm. rewrite In_adj, In_revadj. split.
    - intros (o & Ho & Hc). apply In_consumers in Hc. exists o. split; [tauto|]. apply In_producers. split; assumption.
    - intros (i & Hi & Hp). apply In_producers in Hp. exists i. split; [tauto|]. apply In_consumers. split; assumption. }
  assert (Hadjr : forall n m, In m (adj_of bs n) -> m < N).
  { intros n m H. apply In_adj in H. destruct H as (o & _ & Hc). apply In_consumers in Hc. tauto. }
  assert (Horigr : forall n d, In d (revadj_of bs n) -> d < N).
  { intros n d H. apply In_revadj in H. destruct H as (i & _ & Hp). apply In_producers in Hp. tauto. }
  assert (HO : OInv N (revadj_of bs) dep1 (rev nodeps) []).
  { unfold OInv. rewrite app_nil_r. split; [|split; [|split; [|split]]].
    - unfold dep1. rewrite map_length, seq_length. reflexivity.
    - apply NoDup_rev. apply NoDup_filter. apply seq_NoDup.
    - intros x Hx. apply in_rev in Hx. apply filter_In in Hx. destruct Hx as [Hx _]. apply in_seq in Hx. lia.
    - intros m d Hm. unfold dep1. rewrite nth_map_seq by assumption. cbn [In]. tauto.
    - intros m Hm. split.
      + intros Hm0. rewrite <- in_rev. apply filter_In. split; [apply in_seq; lia|]. rewrite Hm0. reflexivity.
      + intros Hm0. apply in_rev in Hm0. apply filter_In in Hm0. destruct Hm0 as [_ Hm0]. destruct (nth m dep1 []); [reflexivity | discriminate]. }
  destruct (kahn_loop_total N (revadj_of bs) (adj_of bs) Hsym Hadjr Horigr (fun n => NoDup_dedup _) (S N) dep1 (rev nodeps) [] HO) as (dep' & acc' & E & HO');
    [cbn; lia|].
  rewrite E. destruct (Nat.eqb (length acc') N) eqn:El; [discriminate|]. intros H; inversion H; subst dep' acc'; clear H.
  apply Nat.eqb_neq in El. destruct HO' as (Hlen & Hnd & Hrng & Hdep & Hemp). cbn [app] in *.
  apply find_cycle_complete_lemma.
  - assumption.
  - intros Hc. apply El. apply NoDup_full; [assumption | assumption|]. intros x Hx.
    destruct (in_dec Nat.eq_dec x acc) as [Hin|Hnot]; [assumption|]. exfalso.
    assert (Hf : In x (filter (fun n => negb (memn n acc)) (seq 0 N))).
    { apply filter_In. split; [apply in_seq; lia|]. apply negb_true_iff. apply memn_false. assumption. }
    rewrite Hc in Hf. contradiction.
  - apply NoDup_filter. apply seq_NoDup.
  - intros n Hn. apply filter_In in Hn. destruct Hn as [Hn1 Hn2]. apply in_seq in Hn1. apply negb_true_iff in Hn2. apply memn_false in Hn2.
    split; [lia|]. assert (HnN : n < N) by lia.
    destruct (nth n dep []) as [|x r] eqn:Ed.
    + exfalso. apply Hn2. apply Hemp; assumption.
    + exists x. assert (Hx : In x (nth n dep [])) by (rewrite Ed; left; reflexivity). split; [rewrite <- Ed; assumption|].
      apply Hdep in Hx; [|assumption]. destruct Hx as [Hx1 Hx2].
      apply filter_In. split; [apply in_seq; specialize (Horigr n x Hx1); lia|]. apply negb_true_iff. apply memn_false. assumption.
Qed.

(** -------------------------------------------------------------------------------------------- *)
(** backward reachability sweep (DAG.visit_from_outputs) *)
Section ReachOut.
Variable sbs : list blk.
Variable adj : nat -> list nat.
Variable outputs : list nat.

Definition directo (n : nat) : bool := existsb (fun o => memn o (b_out (blkn sbs n))) outputs.

Inductive ReachO : nat -> Prop :=
| RO_direct n : directo n = true -> ReachO n
| RO_child n c : In c (adj n) -> ReachO c -> ReachO n.

Definition vstepo (visited : list nat) (n : nat) : list nat :=
  if directo n then visited ++ [n]
  else if existsb (fun c => memn c visited) (adj n) then visited ++ [n] else visited.

Hypothesis topo : forall n c, In c (adj n) -> n < c < length sbs.

Lemma sweepo_spec m : forall j, j + m = length sbs ->
  forall n, In n (fold_left vstepo (rev (seq j m)) []) <-> (j <= n < length sbs /\ ReachO n).
Proof.
  induction m as [|m IH]; intros j Hj n.
  - cbn. split; [intros [] | intros [H _]; lia].
  - cbn [seq rev]. rewrite fold_left_app. cbn [fold_left]. unfold vstepo at 1.
    assert (IH' := IH (S j) ltac:(lia)).
    destruct (directo j) eqn:Ed.
    + rewrite in_app_iff, IH'. cbn [In]. split.
      * intros [[H1 H2]|[<-|[]]]; [split; [lia | assumption] | split; [lia | apply RO_direct; assumption]].
      * intros [H1 H2]. destruct (Nat.eq_dec n j) as [->|Hne]; [right; left; reflexivity | left; split; [lia | assumption]].
    + destruct (existsb (fun c => memn c (fold_left vstepo (rev (seq (S j) m)) [])) (adj j)) eqn:Ec.
      * apply existsb_exists in Ec. destruct Ec as [c [Hc1 Hc2]]. apply memn_In in Hc2. apply IH' in Hc2.
        rewrite in_app_iff, IH'. cbn [In]. split.
        -- intros [[H1 H2]|[<-|[]]]; [split; [lia | assumption] | split; [lia | eapply RO_child; [exact Hc1 | tauto]]].
        -- intros [H1 H2]. destruct (Nat.eq_dec n j) as [->|Hne]; [right; left; reflexivity | left; split; [lia | assumption]].
      * rewrite IH'. split; [intros [H1 H2]; split; [lia | assumption]|].
        intros [H1 H2]. split; [|assumption]. destruct (Nat.eq_dec n j) as [->|Hne]; [|lia]. exfalso.
        inversion H2 as [n0 Hd|n0 c Hc Hr]; subst; [congruence|].
        assert (Hin : In c (fold_left vstepo (rev (seq (S j) m)) [])) by (apply IH'; split; [specialize (topo j c Hc); lia | assumption]).
        apply memn_In in Hin.
        assert (existsb (fun c => memn c (fold_left vstepo (rev (seq (S j) m)) [])) (adj j) = true) by (apply existsb_exists; exists c; split; assumption).
        congruence.
Qed.

Theorem visit_from_outputs_is_closure_lemma n :
  In n (visit_from_outputs sbs adj outputs) <-> n < length sbs /\ ReachO n.
Proof.
  unfold visit_from_outputs, indices. rewrite <- in_rev.
  change (fun visited n0 => if existsb (fun o => memn o (b_out (blkn sbs n0))) outputs then visited ++ [n0]
          else if existsb (fun c => memn c visited) (adj n0) then visited ++ [n0] else visited) with vstepo.
  rewrite (sweepo_spec (length sbs) 0 eq_refl). intuition lia.
Qed.
End ReachOut.
