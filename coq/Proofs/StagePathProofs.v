(** C10: the two executable instances of the fixture household -- Model/StagePath.v (exogenous stage, continuous-choice stage, through the StageBlock
    loops) and Model/HetPath.v (backward function, through the HetBlock loops) -- give the same reported policies and the same distributions at every
    date, for EVERY horizon, input path, terminal value and initial distribution. *)
From Coq Require Import ZArith QArith Qcanon Bool List Arith Lia.
From SSJ Require Import Lib.Sums Model.HetLoop Model.HetPath Model.StageLoop Model.StagePath Proofs.HetLoopProofs Proofs.StageLoopProofs.
Import ListNotations.

Section Toy.
Variables (nz na : nat) (agrid egrid : list Qc) (Pi_ss : arr) (kappa : Qc).

(** the backward-function household with every record paired with the inputs of its date; the expectation uses the Markov matrix of those inputs *)
Definition Bh := (toy_in * hback)%type.
Definition tstep := toy_step nz na agrid egrid Pi_ss kappa.
Definition bstep' (i : toy_in) (e : Bh) : Bh := (i, tstep i (b_V (snd e))).
Definition PiOf (i : toy_in) : arr := toy_Pi nz Pi_ss (i_shift i).
Definition expect' (bh : Bh) : Bh :=
  (fst bh, {| b_V := mk_expect nz na (PiOf (fst bh)) (b_V (snd bh)); b_a := b_a (snd bh); b_c := b_c (snd bh); b_Pi := b_Pi (snd bh) |}).
Definition exog' (bh : Bh) (D : arr) : arr := mk_forward nz na (PiOf (fst bh)) D.
Definition endog' (bh : Bh) (D : arr) : arr := lottery_forward nz na agrid (b_a (snd bh)) D.

(** the stage instance against the paired household: every hypothesis of stage_equals_het holds by computation *)
Lemma toy_stage_vs_paired T inputs (ss : Bh) Dbeg :
  map fst (stage_backward toy_in arr trep tlom (toy_stages nz na agrid egrid Pi_ss kappa) T inputs (b_V (snd (expect' ss))))
  = map (fun bh => [([], []); (b_a (snd bh), b_c (snd bh))]) (backward_nonlinear toy_in Bh bstep' expect' T inputs ss) /\
  stage_forward tlom arr (tlom_apply nz na agrid) (map snd (stage_backward toy_in arr trep tlom (toy_stages nz na agrid egrid Pi_ss kappa) T inputs (b_V (snd (expect' ss))))) Dbeg
  = map (fun dd => [fst dd; snd dd]) (forward_nonlinear Bh arr exog' endog' (backward_nonlinear toy_in Bh bstep' expect' T inputs ss) Dbeg).
Proof.
  unfold toy_stages. split.
  - apply (stage_reports_equal_het_lemma toy_in Bh arr trep tlom bstep' expect' (s_exog nz na Pi_ss) (s_cont nz na agrid egrid Pi_ss kappa)
             (fun bh => b_V (snd bh)) fst (fun bh => (b_a (snd bh), b_c (snd bh)))); try (intros; reflexivity).
  - apply (stage_distributions_equal_het_lemma toy_in Bh arr trep tlom arr bstep' expect' exog' endog' (s_exog nz na Pi_ss) (s_cont nz na agrid egrid Pi_ss kappa)
             (tlom_apply nz na agrid) (fun bh => b_V (snd bh)) fst (fun bh => (b_a (snd bh), b_c (snd bh)))); try (intros; reflexivity).
Qed.

(** the paired household IS the household of Model/HetPath.v whenever the terminal record carries the Markov matrix of its own inputs
    (every record made by the backward step does) *)
Definition consistent (bh : Bh) : Prop := b_Pi (snd bh) = PiOf (fst bh).

Lemma spec_pairs inputs (ssin : toy_in) (ss : hback) : consistent (ssin, ss) -> forall n t0,
  spec_list toy_in Bh bstep' expect' inputs t0 n (ssin, ss)
  = map (fun tb => (inputs (fst tb), snd tb)) (combine (seq t0 n) (spec_list toy_in hback (bstepB toy_in tstep) (expectB nz na) inputs t0 n ss)) /\
  consistent (hd (ssin, ss) (spec_list toy_in Bh bstep' expect' inputs t0 n (ssin, ss))) /\
  snd (hd (ssin, ss) (spec_list toy_in Bh bstep' expect' inputs t0 n (ssin, ss))) = hd ss (spec_list toy_in hback (bstepB toy_in tstep) (expectB nz na) inputs t0 n ss).
Proof.
  intros Hc. induction n as [|n IH]; intros t0; [cbn [spec_list seq combine map hd]; split; [reflexivity | split; [exact Hc | reflexivity]]|].
  destruct (IH (S t0)) as (E & Hcons & Hhd).
  change (spec_list toy_in Bh bstep' expect' inputs t0 (S n) (ssin, ss))
    with (bstep' (inputs t0) (expect' (hd (ssin, ss) (spec_list toy_in Bh bstep' expect' inputs (S t0) n (ssin, ss)))) :: spec_list toy_in Bh bstep' expect' inputs (S t0) n (ssin, ss)).
  change (spec_list toy_in hback (bstepB toy_in tstep) (expectB nz na) inputs t0 (S n) ss)
    with (bstepB toy_in tstep (inputs t0) (expectB nz na (hd ss (spec_list toy_in hback (bstepB toy_in tstep) (expectB nz na) inputs (S t0) n ss))) :: spec_list toy_in hback (bstepB toy_in tstep) (expectB nz na) inputs (S t0) n ss).
  set (rest' := spec_list toy_in Bh bstep' expect' inputs (S t0) n (ssin, ss)) in *.
  set (rest := spec_list toy_in hback (bstepB toy_in tstep) (expectB nz na) inputs (S t0) n ss) in *.
  assert (Hstep : bstep' (inputs t0) (expect' (hd (ssin, ss) rest')) = (inputs t0, bstepB toy_in tstep (inputs t0) (expectB nz na (hd ss rest)))).
  { unfold bstep', bstepB, expect', expectB. cbn [fst snd b_V]. rewrite <- Hhd. unfold consistent in Hcons. rewrite Hcons. reflexivity. }
  rewrite Hstep. cbn [seq combine map hd fst snd]. split; [rewrite E; reflexivity|]. split; [|reflexivity].
  unfold consistent. cbn [fst snd]. unfold bstepB, tstep, toy_step, PiOf. reflexivity.
Qed.

Lemma forward_pairs : forall (recs : list hback) (ts : list nat) inputs (Dbeg : arr), length ts = length recs ->
  (forall k t b, nth_error ts k = Some t -> nth_error recs k = Some b -> b_Pi b = PiOf (inputs t)) ->
  forward_nonlinear Bh arr exog' endog' (map (fun tb => (inputs (fst tb), snd tb)) (combine ts recs)) Dbeg
  = forward_nonlinear hback arr (exogB nz na) (endogB nz na agrid) recs Dbeg.
Proof.
  induction recs as [|b recs IH]; intros ts inputs Dbeg Hl H; destruct ts as [|t ts]; cbn [length] in Hl; try discriminate; [reflexivity|].
  pose proof (H 0%nat t b eq_refl eq_refl) as Hb.
  cbn [combine map forward_nonlinear fst snd].
  assert (Hx : exog' (inputs t, b) Dbeg = exogB nz na b Dbeg) by (unfold exog', exogB; cbn [fst snd]; rewrite Hb; reflexivity).
  assert (He : forall D, endog' (inputs t, b) D = endogB nz na agrid b D) by reflexivity.
  rewrite Hx, He. f_equal. apply IH; [lia|]. intros k t' b' Ht Hb'. exact (H (S k) t' b' Ht Hb').
Qed.

Lemma map_pairs_snd {A C : Type} (f : hback -> C) (g : nat -> A) : forall (recs : list hback) (ts : list nat), length ts = length recs ->
  map (fun bh : A * hback => f (snd bh)) (map (fun tb => (g (fst tb), snd tb)) (combine ts recs)) = map f recs.
Proof.
  induction recs as [|b recs IH]; intros ts Hl; destruct ts as [|t ts]; cbn [length] in Hl; try discriminate; [reflexivity|].
  cbn [combine map fst snd]. f_equal. apply IH. lia.
Qed.

Lemma spec_records_carry_their_matrix inputs ss : forall n t0 k b,
  nth_error (spec_list toy_in hback (bstepB toy_in tstep) (expectB nz na) inputs t0 n ss) k = Some b -> b_Pi b = PiOf (inputs (t0 + k)%nat).
Proof.
  induction n as [|n IH]; intros t0 k b H; [destruct k; discriminate|]. cbn [spec_list] in H. destruct k as [|k]; cbn [nth_error] in H.
  - inversion H. rewrite Nat.add_0_r. reflexivity.
  - replace (t0 + S k)%nat with (S t0 + k)%nat by lia. exact (IH (S t0) k b H).
Qed.

(** the stage instance and the HetBlock-form instance of the fixture household: same reported policies, same distributions, at every date *)
Theorem toy_stage_equals_toy_het_lemma T inputs (ssin : toy_in) (ss : hback) Dbeg : b_Pi ss = PiOf ssin ->
  let recs := backward_nonlinear toy_in hback (bstepB toy_in tstep) (expectB nz na) T inputs ss in
  let sb := stage_backward toy_in arr trep tlom (toy_stages nz na agrid egrid Pi_ss kappa) T inputs (mk_expect nz na (PiOf ssin) (b_V ss)) in
  map fst sb = map (fun b => [([], []); (b_a b, b_c b)]) recs /\
  stage_forward tlom arr (tlom_apply nz na agrid) (map snd sb) Dbeg
  = map (fun dd => [fst dd; snd dd]) (forward_nonlinear hback arr (exogB nz na) (endogB nz na agrid) recs Dbeg).
Proof.
  intros Hc recs sb. destruct (toy_stage_vs_paired T inputs (ssin, ss) Dbeg) as [H1 H2].
  change (b_V (snd (expect' (ssin, ss)))) with (mk_expect nz na (PiOf ssin) (b_V ss)) in H1, H2. fold sb in H1, H2.
  rewrite (backward_loop_is_recursion_lemma toy_in Bh bstep' expect' T inputs (ssin, ss)) in H1, H2.
  destruct (spec_pairs inputs ssin ss Hc T 0) as (E & _ & _). rewrite E in H1, H2.
  unfold recs. rewrite (backward_loop_is_recursion_lemma toy_in hback (bstepB toy_in tstep) (expectB nz na) T inputs ss).
  assert (Hl : length (seq 0 T) = length (spec_list toy_in hback (bstepB toy_in tstep) (expectB nz na) inputs 0 T ss)) by (rewrite seq_length, (spec_list_length toy_in hback (bstepB toy_in tstep) (expectB nz na) inputs ss T 0); reflexivity).
  split.
  - rewrite H1. apply (map_pairs_snd (fun b => [([], []); (b_a b, b_c b)]) inputs _ _ Hl).
  - rewrite H2. f_equal. apply forward_pairs; [exact Hl|].
    intros k t b Ht Hb.
    assert (Hk : (k < T)%nat).
    { rewrite <- (spec_list_length toy_in hback (bstepB toy_in tstep) (expectB nz na) inputs ss T 0). apply nth_error_Some. rewrite Hb. discriminate. }
    apply nth_error_nth with (d := 0%nat) in Ht. rewrite seq_nth in Ht by exact Hk. cbn [Nat.add] in Ht.
    subst t. exact (spec_records_carry_their_matrix inputs ss T 0 k b Hb).
Qed.
End Toy.
