(** C18 (ordered sets): membership laws, comparison laws, order laws. *)
From Coq Require Import ZArith Bool List Lia.
From SSJ Require Import Model.OSet.
Import ListNotations.
Open Scope Z_scope.

Lemma mem_In x l : mem x l = true <-> In x l.
Proof.
  unfold mem. rewrite existsb_exists. split.
  - intros [y [Hy He]]. apply Z.eqb_eq in He. subst; assumption.
  - intros H. exists x. split; [assumption | apply Z.eqb_refl].
Qed.

Lemma mem_false x l : mem x l = false <-> ~ In x l.
Proof. rewrite <- mem_In. destruct (mem x l); split; congruence. Qed.

Lemma mem_app x l1 l2 : mem x (l1 ++ l2) = mem x l1 || mem x l2.
Proof. unfold mem. apply existsb_app. Qed.

Lemma In_add x k s : In x (add k s) <-> In x s \/ x = k.
Proof.
  unfold add. destruct (mem k s) eqn:E.
  - apply mem_In in E. split; [auto | intros [H| ->]; assumption].
  - rewrite in_app_iff. cbn. intuition.
Qed.

Lemma NoDup_add k s : NoDup s -> NoDup (add k s).
Proof.
  intros H. unfold add. destruct (mem k s) eqn:E; [assumption|].
  apply mem_false in E.
  induction s as [|a s IH]; cbn.
  - constructor; [intros []|constructor].
  - inversion H; subst. constructor.
    + rewrite in_app_iff. cbn. intros [Hin|[Heq|[]]]; [contradiction|]. apply E. left. auto.
    + apply IH; [assumption|]. intros Hin. apply E. right. assumption.
Qed.

Lemma In_update x s t : In x (update s t) <-> In x s \/ In x t.
Proof.
  unfold update. revert s. induction t as [|k t IH]; intros s; cbn [fold_left].
  - cbn. intuition.
  - rewrite IH, In_add. cbn. intuition.
Qed.

Lemma NoDup_update s t : NoDup s -> NoDup (update s t).
Proof.
  unfold update. revert s. induction t as [|k t IH]; intros s H; cbn [fold_left]; [assumption|].
  apply IH. apply NoDup_add. assumption.
Qed.

Lemma In_of_list x l : In x (of_list l) <-> In x l.
Proof. unfold of_list. rewrite In_update. cbn. intuition. Qed.

Lemma NoDup_of_list l : NoDup (of_list l).
Proof. apply NoDup_update. constructor. Qed.

Lemma In_union x s t : In x (union s t) <-> In x s \/ In x t.
Proof. apply In_update. Qed.

Lemma In_intersection x s t : In x (intersection s t) <-> In x s /\ In x t.
Proof. unfold intersection. rewrite filter_In, mem_In. reflexivity. Qed.

Lemma In_difference x s t : In x (difference s t) <-> In x s /\ ~ In x t.
Proof. unfold difference. rewrite filter_In, negb_true_iff, mem_false. reflexivity. Qed.

Lemma In_symdiff_fold x s t d :
  In x (fold_left (fun d k => if mem k s then d else add k d) t d) <-> In x d \/ (In x t /\ ~ In x s).
Proof.
  revert d. induction t as [|k t IH]; intros d; cbn [fold_left].
  - cbn. intuition.
  - rewrite IH. destruct (mem k s) eqn:E.
    + apply mem_In in E. cbn. split; [intuition | intros [H|[[-> |H] Hn]]; intuition].
    + apply mem_false in E. rewrite In_add. cbn. split; [intros [[H| ->]|H]; intuition | intros [H|[[-> |H] Hn]]; intuition].
Qed.

Lemma In_symmetric_difference x s t :
  In x (symmetric_difference s t) <-> (In x s /\ ~ In x t) \/ (In x t /\ ~ In x s).
Proof. unfold symmetric_difference. rewrite In_symdiff_fold, In_difference. reflexivity. Qed.

Lemma NoDup_filter {A} (f : A -> bool) l : NoDup l -> NoDup (filter f l).
Proof.
  induction 1 as [|a l Hn Hd IH]; cbn; [constructor|].
  destruct (f a); [constructor; [rewrite filter_In; intuition | assumption] | assumption].
Qed.

Lemma NoDup_symdiff_fold s t d : NoDup d -> NoDup (fold_left (fun d k => if mem k s then d else add k d) t d).
Proof.
  revert d. induction t as [|k t IH]; intros d H; cbn [fold_left]; [assumption|].
  apply IH. destruct (mem k s); [assumption | apply NoDup_add; assumption].
Qed.

Lemma length_zero_iff {A} (l : list A) : (length l =? 0)%nat = true <-> l = [].
Proof. destruct l; cbn; split; congruence. Qed.

Lemma filter_nil_iff {A} (f : A -> bool) l : filter f l = [] <-> forall x, In x l -> f x = false.
Proof.
  induction l as [|a l IH]; cbn.
  - split; [intros _ x [] | reflexivity].
  - destruct (f a) eqn:E.
    + split; [discriminate | intros H; specialize (H a (or_introl eq_refl)); congruence].
    + rewrite IH. split; [intros H x [<-|Hx]; auto | intros H x Hx; apply H; auto].
Qed.

Lemma issubset_spec s t : issubset s t = true <-> (forall x, In x s -> In x t).
Proof.
  unfold issubset, difference. rewrite length_zero_iff, filter_nil_iff.
  split; intros H x Hx; specialize (H x Hx).
  - apply negb_false_iff in H. apply mem_In; assumption.
  - apply negb_false_iff. apply mem_In; assumption.
Qed.

Lemma issuperset_spec s t : issuperset s t = true <-> (forall x, In x t -> In x s).
Proof.
  unfold issuperset. rewrite forallb_forall. split; intros H x Hx; specialize (H x Hx); apply mem_In; assumption.
Qed.

Lemma isdisjoint_spec s t : isdisjoint s t = true <-> (forall x, In x s -> ~ In x t).
Proof.
  unfold isdisjoint, intersection. rewrite length_zero_iff, filter_nil_iff.
  split; intros H x Hx; specialize (H x Hx); apply mem_false; assumption.
Qed.

Lemma lt_spec s t : lt s t = true <-> (forall x, In x s -> In x t) /\ ~ (forall x, In x t -> In x s).
Proof.
  unfold lt. rewrite andb_true_iff, negb_true_iff, issubset_spec. split.
  - intros [H1 H2]. split; [exact H1|]. intros H3. apply issuperset_spec in H3. congruence.
  - intros [H1 H2]. split; [exact H1|]. destruct (issuperset s t) eqn:E; [|reflexivity].
    exfalso. apply H2. apply issuperset_spec. exact E.
Qed.

Lemma gt_spec s t : gt s t = true <-> (forall x, In x t -> In x s) /\ ~ (forall x, In x s -> In x t).
Proof.
  unfold gt. rewrite andb_true_iff, negb_true_iff, issuperset_spec. split.
  - intros [H1 H2]. split; [exact H1|]. intros H3. apply issubset_spec in H3. congruence.
  - intros [H1 H2]. split; [exact H1|]. destruct (issubset s t) eqn:E; [|reflexivity].
    exfalso. apply H2. apply issubset_spec. exact E.
Qed.

(** order: the receiver's elements first, then the operand's new elements by first appearance *)
Lemma filter_filter {A} (f g : A -> bool) l : filter f (filter g l) = filter (fun x => g x && f x) l.
Proof. induction l as [|a l IH]; cbn; [reflexivity|]. destruct (g a); cbn; [destruct (f a)|]; rewrite IH; reflexivity. Qed.

Lemma filter_ext' {A} (f g : A -> bool) l : (forall x, f x = g x) -> filter f l = filter g l.
Proof. intros H; induction l as [|a l IH]; cbn; [reflexivity|]. rewrite H, IH; reflexivity. Qed.

Lemma update_prefix t : forall s' s, update (s' ++ s) t = s' ++ update s (filter (fun k => negb (mem k s')) t).
Proof.
  unfold update. induction t as [|x t IH]; intros s' s; cbn [fold_left filter]; [reflexivity|].
  destruct (mem x s') eqn:E; cbn [negb].
  - unfold add at 2. rewrite mem_app, E. cbn [orb]. apply IH.
  - cbn [fold_left]. rewrite <- IH. f_equal. unfold add. rewrite mem_app, E. cbn [orb].
    destruct (mem x s); [reflexivity | rewrite app_assoc; reflexivity].
Qed.

Lemma update_order s t : update s t = s ++ of_list (filter (fun k => negb (mem k s)) t).
Proof. unfold of_list. rewrite <- update_prefix, app_nil_r. reflexivity. Qed.

Lemma of_list_cons x l : of_list (x :: l) = x :: of_list (filter (fun k => negb (k =? x)) l).
Proof.
  unfold of_list at 1. unfold update. cbn [fold_left]. unfold add at 2. cbn [mem existsb app].
  change (fold_left (fun acc k => add k acc) l [x]) with (update [x] l). rewrite update_order. cbn [app].
  do 2 f_equal. apply filter_ext'. intros k. cbn [mem existsb]. rewrite orb_false_r. reflexivity.
Qed.

Lemma of_list_NoDup_id s : NoDup s -> of_list s = s.
Proof.
  induction 1 as [|a s Hn Hd IH]; [reflexivity|].
  rewrite of_list_cons. f_equal.
  replace (filter (fun k => negb (k =? a)) s) with s; [assumption|].
  symmetry. clear IH Hd. induction s as [|b s IH]; cbn; [reflexivity|].
  destruct (b =? a) eqn:E; cbn.
  - apply Z.eqb_eq in E. subst. exfalso. apply Hn. left; reflexivity.
  - f_equal. apply IH. intros H; apply Hn; right; assumption.
Qed.

Lemma update_app s t u : update s (t ++ u) = update (update s t) u.
Proof. unfold update. apply fold_left_app. Qed.

Lemma union_is_dedup_concat s t : NoDup s -> union s t = of_list (s ++ t).
Proof.
  intros H. unfold union, of_list. rewrite update_app. f_equal. fold (of_list s). symmetry. apply of_list_NoDup_id; assumption.
Qed.

Lemma ror_is_dedup_concat t s : ror t s = of_list (t ++ s).
Proof. unfold ror, union, of_list. rewrite update_app. reflexivity. Qed.

(** history invariant: every receiver state and every returned set is duplicate-free *)
Definition res_ok (r : ores) : Prop := match r with RSet s => NoDup s | _ => True end.

Lemma NoDup_rev_tail (s r : list Z) k : NoDup s -> rev s = k :: r -> NoDup (rev r).
Proof.
  intros H E. assert (Hs : s = rev r ++ [k]) by (rewrite <- (rev_involutive s), E; reflexivity).
  subst s. apply NoDup_remove_1 in H. rewrite app_nil_r in H. exact H.
Qed.

Lemma NoDup_rev (s : list Z) : NoDup s -> NoDup (rev s).
Proof.
  induction 1 as [|a s Hn Hd IH]; cbn [rev]; [constructor|].
  assert (Hx : ~ In a (rev s)) by (rewrite <- in_rev; assumption).
  clear Hn Hd. induction (rev s) as [|b l IHl]; cbn.
  - constructor; [intros []|constructor].
  - inversion IH; subst. constructor.
    + rewrite in_app_iff. cbn. intros [Hin|[Heq|[]]]; [contradiction|]. apply Hx. left. auto.
    + apply IHl; [assumption|]. intros Hin. apply Hx. right. assumption.
Qed.

Ltac nd := repeat first [assumption | exact I | apply NoDup_nil | apply NoDup_of_list | apply NoDup_update | apply NoDup_filter
                         | apply NoDup_symdiff_fold | progress unfold difference
                         | apply NoDup_add | (eapply NoDup_rev_tail; eassumption) | apply NoDup_rev].

Lemma ostep_NoDup s o : NoDup s -> NoDup (fst (ostep s o)) /\ res_ok (snd (ostep s o)).
Proof.
  intros H.
  destruct o as [t|t|t|t|t|t|t|t|t|t|t|t|t|t|t|t|t|k|k|k| |t|k| | |k| ]; cbn [ostep];
    try (destruct (mem k s)); cbn [fst snd res_ok];
    try (unfold ror, rand, rsub, rxor, discard); try (unfold union, intersection, difference, symmetric_difference);
    try (split; nd; fail).
  destruct (rev s) as [|k0 r] eqn:E; cbn [fst snd res_ok]; split; nd.
Qed.

Lemma orun_NoDup ops : forall s, NoDup s -> NoDup (fst (orun s ops)) /\ Forall res_ok (snd (orun s ops)).
Proof.
  induction ops as [|o ops IH]; intros s H; cbn [orun]; [split; [assumption|constructor]|].
  destruct (ostep s o) as [s' x] eqn:E. destruct (orun s' ops) as [s'' xs] eqn:E2. cbn [fst snd].
  pose proof (ostep_NoDup s o H) as [H1 H2]. rewrite E in H1, H2. cbn [fst snd] in H1, H2.
  specialize (IH s' H1). rewrite E2 in IH. cbn [fst snd] in IH. destruct IH as [I1 I2].
  split; [assumption | constructor; assumption].
Qed.

(** only the in-place operators and add/discard/remove/pop/update change the receiver *)
Definition pure_op (o : oop) : bool :=
  match o with
  | OIor _ | OIand _ | OIsub _ | OIxor _ | OAdd _ | ODiscard _ | ORemove _ | OPop | OUpdate _ => false
  | _ => true
  end.

Lemma pure_ops_frame s o : pure_op o = true -> fst (ostep s o) = s.
Proof. destruct o; cbn; try discriminate; try reflexivity. intros _. destruct (mem k s); reflexivity. Qed.

Lemma inplace_ops_return_receiver s o : 
  match o with OIor _ | OIand _ | OIsub _ | OIxor _ | OUpdate _ => snd (ostep s o) = RSet (fst (ostep s o)) | _ => True end.
Proof. destruct o; cbn; auto. Qed.
