(** C08: sum-level laws of ANY scatter/gather lottery (adjointness, mass), and of the 2-D policy lottery with the
    translated corner weights: adjointness, mass conservation, exact second-order expansion with the shock kernel as the
    first-order term, zero-mass shocks, non-negativity. *)
From Coq Require Import ZArith Bool Lia ZifyBool List Ring.
From SSJ Require Import Lib.Sums Gen.Kernels Model.Scatter Proofs.TransitionProofs.
Import ListNotations.
Open Scope Z_scope.

Local Notation zr_ext := (zsum_range_ext Z 0 Z.add).
Local Notation zr_add := (zsum_range_add Z 0 1 Z.add Z.mul Z.sub Z.opp Zth).
Local Notation zr_single := (zsum_range_single Z 0 1 Z.add Z.mul Z.sub Z.opp Zth).
Local Notation zr_swap := (zsum_range_swap Z 0 1 Z.add Z.mul Z.sub Z.opp Zth).
Local Notation zr_scale := (zsum_range_scale Z 0 1 Z.add Z.mul Z.sub Z.opp Zth).
Local Notation zr_zero := (zsum_range_zero Z 0 1 Z.add Z.mul Z.sub Z.opp Zth).
Local Notation ls_ext := (lsum_ext Z 0 Z.add).
Local Notation ls_scale := (lsum_scale Z 0 1 Z.add Z.mul Z.sub Z.opp Zth).
Local Notation ls_add := (lsum_add Z 0 1 Z.add Z.mul Z.sub Z.opp Zth).
Local Notation ls_swap := (lsum_zsum_swap Z 0 1 Z.add Z.mul Z.sub Z.opp Zth).

Lemma corner_term M (c : Z * Z) X : 0 <= fst c < M ->
  zs 0 M (fun t => (if fst c =? t then snd c else 0) * X t) = snd c * X (fst c).
Proof.
  intros H.
  rewrite (zr_single 0 M _ (fst c)) by (intros k Hk Hne; replace (fst c =? k) with false by lia; ring).
  replace ((0 <=? fst c) && (fst c <? M)) with true by lia. rewrite Z.eqb_refl. reflexivity.
Qed.

(** <forward, X> = sum over sources of the gathered value, for ANY corner lists whose targets are in range *)
Theorem scatter_gather_gen_lemma n M corners X :
  (forall s c, 0 <= s < n -> In c (corners s) -> 0 <= fst c < M) ->
  zs 0 M (fun t => gfwd n corners t * X t) = zs 0 n (fun s => gexp corners X s).
Proof.
  intros Hrng. unfold gfwd, gexp.
  rewrite (zr_ext 0 M _ (fun t => zs 0 n (fun s => ls (fun c => (if fst c =? t then snd c else 0) * X t) (corners s)))).
  2:{ intros t Ht. rewrite Z.mul_comm, <- zr_scale. apply zr_ext. intros s Hs. rewrite <- ls_scale. apply ls_ext. intros; ring. }
  rewrite zr_swap. apply zr_ext. intros s Hs.
  unfold zsum_range. rewrite <- ls_swap. apply ls_ext. intros c Hc.
  apply (corner_term M c X). apply (Hrng s c Hs Hc).
Qed.

Theorem scatter_mass_gen_lemma n M corners :
  (forall s c, 0 <= s < n -> In c (corners s) -> 0 <= fst c < M) ->
  zs 0 M (fun t => gfwd n corners t) = zs 0 n (fun s => ls snd (corners s)).
Proof.
  intros Hrng. rewrite (zr_ext 0 M _ (fun t => gfwd n corners t * 1)) by (intros; ring).
  rewrite (scatter_gather_gen_lemma n M corners (fun _ => 1) Hrng). apply zr_ext. intros s Hs. unfold gexp. apply ls_ext. intros; ring.
Qed.

Lemma flat_range nx ny a b : 0 <= a < nx -> 0 <= b < ny -> 0 <= a * ny + b < nx * ny.
Proof. intros Ha Hb. split; [nia|]. assert (a * ny + b < a * ny + ny) by lia. assert (a * ny + ny <= nx * ny) by nia. lia. Qed.

Section TwoD.
Variables nx ny : Z.
Variables xi yi : Z -> Z.
Hypothesis in_range : forall s, 0 <= s < nx * ny -> 0 <= xi s /\ xi s + 1 < nx /\ 0 <= yi s /\ yi s + 1 < ny.

Lemma corners2d_range w s c : 0 <= s < nx * ny -> In c (corners2d ny xi yi w s) -> 0 <= fst c < nx * ny.
Proof.
  intros Hs Hc. destruct (in_range s Hs) as (H1 & H2 & H3 & H4). unfold corners2d in Hc. cbn [In] in Hc.
  destruct Hc as [<-|[<-|[<-|[<-|[]]]]]; cbn [fst]; apply flat_range; lia.
Qed.

Theorem adjoint_2d_lemma D x y X :
  zs 0 (nx * ny) (fun t => fwd2d nx ny xi yi D x y t * X t) = zs 0 (nx * ny) (fun s => D s * exp2d_row ny xi yi x y X s).
Proof.
  unfold fwd2d. rewrite (scatter_gather_gen_lemma (nx * ny) (nx * ny) _ X) by (intros s c; apply corners2d_range).
  apply zr_ext. intros s Hs. cbv beta iota delta [gexp corners2d lsum exp2d_row fold_right fst snd]. rewrite w2d_adjoint. lia.
Qed.

Theorem mass_2d_lemma D x y : zs 0 (nx * ny) (fun t => fwd2d nx ny xi yi D x y t) = zs 0 (nx * ny) D.
Proof.
  unfold fwd2d. rewrite (scatter_mass_gen_lemma (nx * ny) (nx * ny)) by (intros s c; apply corners2d_range).
  apply zr_ext. intros s Hs. cbv beta iota delta [corners2d lsum fold_right fst snd]. pose proof (w2d_mass (D s) (x s) (y s)). lia.
Qed.

Theorem shock_mass_2d_lemma D x y dx dy : zs 0 (nx * ny) (fun t => shock2d nx ny xi yi D x y dx dy t) = 0.
Proof.
  unfold shock2d. rewrite (scatter_mass_gen_lemma (nx * ny) (nx * ny)) by (intros s c; apply corners2d_range).
  apply zr_zero. intros s Hs. cbv beta iota delta [corners2d lsum fold_right fst snd]. pose proof (w2d_shock_mass (D s) (x s) (y s) (dx s) (dy s)). lia.
Qed.
End TwoD.

(** exact expansion of the 2-D forward map in the policy weights: first-order term = the shock kernel; the remainder is
    h^2 times a scatter of +/- d dx dy (no higher terms) -- no range hypothesis needed *)
Theorem forward_2d_expansion_lemma nx ny xi yi D x y dx dy h t :
  fwd2d nx ny xi yi D (fun s => x s + h * dx s) (fun s => y s + h * dy s) t
  = fwd2d nx ny xi yi D x y t + h * shock2d nx ny xi yi D x y dx dy t
    + h * h * gfwd (nx * ny) (corners2d ny xi yi (fun ox oy s => (if (ox + oy =? 1) then -1 else 1) * (D s * dx s * dy s))) t.
Proof.
  unfold fwd2d, shock2d, gfwd. rewrite <- !zr_scale, <- !zr_add. apply zr_ext. intros s Hs.
  cbv beta iota delta [corners2d lsum fold_right fst snd].
  destruct (w2d_shock_is_derivative (D s) (x s) (y s) (dx s) (dy s) h) as (C1 & C2 & C3 & C4). rewrite C1, C2, C3, C4.
  cbn [Z.add Z.eqb Pos.eqb Pos.add].
  destruct (xi s * ny + yi s =? t), ((xi s + 1) * ny + yi s =? t), (xi s * ny + (yi s + 1) =? t), ((xi s + 1) * ny + (yi s + 1) =? t); lia.
Qed.

(** non-negativity: weights in [0,1] (policy inside its grid) and a non-negative distribution give a non-negative image *)
Lemma ls_nonneg {A} (f : A -> Z) l : (forall a, In a l -> 0 <= f a) -> 0 <= ls f l.
Proof. unfold lsum. induction l as [|a l IH]; intros H; cbn [fold_right]; [lia|]. specialize (H a (or_introl eq_refl)) as Ha. assert (0 <= fold_right (fun a0 acc => f a0 + acc) 0 l) by (apply IH; intros; apply H; right; assumption). lia. Qed.

Lemma zsum_from_nonneg n : forall lo f, (forall k, lo <= k < lo + Z.of_nat n -> 0 <= f k) -> 0 <= zsum_from 0 Z.add lo n f.
Proof.
  induction n as [|n IH]; intros lo f H; cbn [zsum_from]; [lia|].
  assert (0 <= f lo) by (apply H; lia). assert (0 <= zsum_from 0 Z.add (lo + 1) n f) by (apply IH; intros; apply H; lia). lia.
Qed.

Lemma zs_nonneg lo hi f : (forall k, lo <= k < hi -> 0 <= f k) -> 0 <= zs lo hi f.
Proof. intros H. unfold zsum_range. apply zsum_from_nonneg. intros k Hk. apply H. lia. Qed.

Theorem forward_2d_nonneg_lemma nx ny xi yi D x y t :
  (forall s, 0 <= s < nx * ny -> 0 <= D s /\ 0 <= x s <= 1 /\ 0 <= y s <= 1) -> 0 <= fwd2d nx ny xi yi D x y t.
Proof.
  intros H. unfold fwd2d, gfwd. apply zs_nonneg. intros s Hs. destruct (H s Hs) as (HD & Hx & Hy).
  apply ls_nonneg. intros c Hc. unfold corners2d in Hc. cbn [In] in Hc.
  assert (W : 0 <= fwd2d_w 0 0 (D s) (x s) (y s) /\ 0 <= fwd2d_w 1 0 (D s) (x s) (y s) /\ 0 <= fwd2d_w 0 1 (D s) (x s) (y s) /\ 0 <= fwd2d_w 1 1 (D s) (x s) (y s)).
  { unfold fwd2d_w. cbn [Z.eqb Pos.eqb andb]. repeat split; repeat apply Z.mul_nonneg_nonneg; lia. }
  destruct W as (W1 & W2 & W3 & W4).
  destruct Hc as [<-|[<-|[<-|[<-|[]]]]]; cbn [fst snd]; destruct (_ =? t); lia.
Qed.

(** same for any scatter with non-negative corner weights (covers the 1-D lottery and Markov steps) *)
Theorem scatter_nonneg_gen_lemma n corners t : (forall s c, 0 <= s < n -> In c (corners s) -> 0 <= snd c) -> 0 <= gfwd n corners t.
Proof.
  intros H. unfold gfwd. apply zs_nonneg. intros s Hs. apply ls_nonneg. intros c Hc. specialize (H s c Hs Hc). destruct (fst c =? t); lia.
Qed.
