(** C18 (name bijections): constructor rejects exactly the non-injective maps; apply-then-inverse is the
    identity on non-colliding names (unbounded proofs); composition law and associativity for
    collision-free renamings (exhaustive over a stated finite alphabet, by vm_compute). *)
From Coq Require Import ZArith Bool List Lia.
From SSJ Require Import Model.OSet Model.Bij Proofs.OSetProofs.
Import ListNotations.
Open Scope Z_scope.

Lemma dget_dset_same k v d : dget k (dset k v d) = Some v.
Proof. induction d as [|[k' v'] d IH]; cbn; [rewrite Z.eqb_refl; reflexivity|]. destruct (k =? k') eqn:E; cbn; rewrite E; [reflexivity|assumption]. Qed.

Lemma dget_dset_other k k' v d : k' <> k -> dget k' (dset k v d) = dget k' d.
Proof.
  intros Hne. induction d as [|[k0 v0] d IH]; cbn.
  - destruct (k' =? k) eqn:E; [apply Z.eqb_eq in E; contradiction | reflexivity].
  - destruct (k =? k0) eqn:E; cbn.
    + apply Z.eqb_eq in E; subst. destruct (k' =? k0) eqn:E2; [apply Z.eqb_eq in E2; contradiction | reflexivity].
    + destruct (k' =? k0); [reflexivity | assumption].
Qed.

Lemma dhas_dset k k' v d : dhas k' (dset k v d) = (k' =? k) || dhas k' d.
Proof.
  unfold dhas. destruct (Z.eq_dec k' k) as [->|Hne].
  - rewrite dget_dset_same, Z.eqb_refl. reflexivity.
  - rewrite dget_dset_other by assumption. replace (k' =? k) with false by (symmetry; apply Z.eqb_neq; assumption). reflexivity.
Qed.

Lemma dget_In k v d : dget k d = Some v -> In (k, v) d.
Proof.
  induction d as [|[k' v'] d IH]; cbn; [discriminate|].
  destruct (k =? k') eqn:E; [apply Z.eqb_eq in E; subst; intros H; inversion H; left; reflexivity | intros H; right; auto].
Qed.

Lemma In_dget k v d : NoDup (map fst d) -> In (k, v) d -> dget k d = Some v.
Proof.
  induction d as [|[k' v'] d IH]; cbn; [intros _ []|]. intros Hnd [H|H].
  - inversion H; subst. rewrite Z.eqb_refl. reflexivity.
  - inversion Hnd; subst. destruct (k =? k') eqn:E.
    + apply Z.eqb_eq in E; subst. exfalso. apply H2. apply in_map_iff. exists (k', v). auto.
    + auto.
Qed.

(** the invmap loop *)
Lemma inv_fold_none m : fold_left inv_step m None = None.
Proof. induction m; cbn; auto. Qed.

Lemma inv_fold_spec m : forall inv0 inv,
  fold_left inv_step m (Some inv0) = Some inv ->
  (forall k v, In (k, v) m -> dget v inv = Some k)
  /\ (forall v k, dget v inv0 = Some k -> dget v inv = Some k)
  /\ (forall v, dhas v inv = true -> dhas v inv0 = true \/ In v (map snd m))
  /\ NoDup (map snd m) /\ (forall v, In v (map snd m) -> dhas v inv0 = false).
Proof.
  induction m as [|[k0 v0] m IH]; intros inv0 inv H; cbn [fold_left] in H.
  - inversion H; subst. repeat split; try (intros; cbn in *; tauto); try constructor; try (intros v Hv; left; assumption).
  - cbn [inv_step snd fst] in H. destruct (dhas v0 inv0) eqn:E; [rewrite inv_fold_none in H; discriminate|].
    apply IH in H. destruct H as (H1 & H2 & H3 & H4 & H5).
    assert (Hv0 : ~ In v0 (map snd m)).
    { intros Hin. specialize (H5 v0 Hin). rewrite dhas_dset, Z.eqb_refl in H5. discriminate. }
    repeat split.
    + intros k v [Hin|Hin]; [inversion Hin; subst; apply H2; apply dget_dset_same | apply H1; assumption].
    + intros v k Hg. apply H2. rewrite dget_dset_other; [assumption|]. intros ->. unfold dhas in E. rewrite Hg in E. discriminate.
    + intros v Hv. apply H3 in Hv. destruct Hv as [Hv|Hv]; [|right; right; assumption].
      rewrite dhas_dset in Hv. apply orb_true_iff in Hv. destruct Hv as [Hv|Hv]; [apply Z.eqb_eq in Hv; subst; right; left; reflexivity | left; assumption].
    + cbn [map snd]. constructor; assumption.
    + cbn [map snd]. intros v [<-|Hin]; [assumption|]. specialize (H5 v Hin). rewrite dhas_dset in H5. apply orb_false_iff in H5. tauto.
Qed.

Lemma inv_fold_complete m : forall inv0, NoDup (map snd m) -> (forall v, In v (map snd m) -> dhas v inv0 = false) ->
  exists inv, fold_left inv_step m (Some inv0) = Some inv.
Proof.
  induction m as [|[k0 v0] m IH]; intros inv0 Hnd Hfresh; cbn [fold_left]; [eexists; reflexivity|].
  cbn [inv_step snd fst]. rewrite (Hfresh v0) by (left; reflexivity). apply IH.
  - inversion Hnd; assumption.
  - intros v Hin. rewrite dhas_dset. apply orb_false_iff. split.
    + apply Z.eqb_neq. intros ->. inversion Hnd; contradiction.
    + apply Hfresh. right; assumption.
Qed.

(** the constructor raises ValueError exactly on non-injective maps *)
Lemma bij_new_rejects_iff m : bij_new m = None <-> ~ NoDup (map snd m).
Proof.
  unfold bij_new. split.
  - intros H Hnd. destruct (inv_fold_complete m [] Hnd (fun _ _ => eq_refl)) as [inv Hinv].
    assert (Hx : bij_invmap m = Some inv) by exact Hinv. rewrite Hx in H. discriminate.
  - intros Hn. destruct (bij_invmap m) eqn:E; [|reflexivity].
    apply inv_fold_spec in E. exfalso. apply Hn. tauto.
Qed.

Lemma dget_filter_In k v (f : Z * Z -> bool) d : dget k (filter f d) = Some v -> In (k, v) d.
Proof. intros H. apply dget_In in H. apply filter_In in H. tauto. Qed.

(** apply b, then b.inv: identity on every name that is renamed, or that is not the target of a renaming *)
Lemma inverse_roundtrip_name m b k : bij_new m = Some b ->
  dhas k (bmap b) || negb (dhas k (binv b)) = true -> bget (bij_inv b) (bget b k) = k.
Proof.
  unfold bij_new. destruct (bij_invmap m) as [inv|] eqn:E; [|discriminate].
  intros Hb; inversion Hb; subst b; clear Hb. cbn [bmap binv]. apply inv_fold_spec in E. destruct E as (H1 & _).
  unfold bget, bij_inv, dhas. cbn [bmap binv].
  destruct (dget k (filter (fun kv => negb (fst kv =? snd kv)) m)) as [v|] eqn:Eg.
  - intros _. apply dget_filter_In in Eg. rewrite (H1 k v Eg). reflexivity.
  - cbn [orb]. destruct (dget k inv); [discriminate | reflexivity].
Qed.

Lemma inverse_roundtrip_list m b l : bij_new m = Some b -> no_collision b l = true ->
  bij_apply_list (bij_inv b) (bij_apply_list b l) = l.
Proof.
  intros Hb Hc. unfold bij_apply_list. rewrite map_map. unfold no_collision in Hc. rewrite forallb_forall in Hc.
  induction l as [|k l IH]; cbn; [reflexivity|]. f_equal.
  - eapply inverse_roundtrip_name; [eassumption | apply Hc; left; reflexivity].
  - apply IH. intros x Hx. apply Hc. right; assumption.
Qed.

(** ------------------------------------------------------------------------------------------ *)
(** composition: exhaustive over all partial injective maps on a 4-name alphabet and every universe
    U of existing names; "collision-free" = every renamed name exists and every target is fresh
    (outside U) or is itself renamed away (swap / cycle). *)
Definition renaming (x : bij) (U : list Z) : bool :=
  forallb (fun kv => mem (fst kv) U && (negb (mem (snd kv) U) || dhas (snd kv) (bmap x))) (bmap x).
Definition image (x : bij) (U : list Z) : list Z := map (bget x) U.
Fixpoint subsets (l : list Z) : list (list Z) :=
  match l with [] => [[]] | x :: r => subsets r ++ map (cons x) (subsets r) end.
Definition compose_law (f x : bij) (U : list Z) : bool :=
  match bij_compose f x with
  | None => false
  | Some c => forallb (fun k => bget c k =? bget f (bget x k)) U
  end.
Definition compose_ok (alphabet : list Z) : bool :=
  forallb (fun f => forallb (fun x => forallb (fun U =>
     negb (renaming x U && renaming f (image x U)) || compose_law f x U) (subsets alphabet))
     (all_bijs alphabet)) (all_bijs alphabet).

Lemma compose_ok_4 : compose_ok [0; 1; 2; 3] = true.
Proof. vm_compute. reflexivity. Qed.

Definition assoc_law (f g h : bij) (U : list Z) : bool :=
  match bij_compose g h, bij_compose f g with
  | Some gh, Some fg =>
      match bij_compose f gh, bij_compose fg h with
      | Some a, Some b => forallb (fun k => bget a k =? bget b k) U
      | _, _ => false
      end
  | _, _ => false
  end.
Definition assoc_ok (alphabet : list Z) : bool :=
  forallb (fun f => forallb (fun g => forallb (fun h => forallb (fun U =>
     negb (renaming h U && renaming g (image h U) && renaming f (image g (image h U))) || assoc_law f g h U)
     (subsets alphabet)) (all_bijs alphabet)) (all_bijs alphabet)) (all_bijs alphabet).

Lemma assoc_ok_3 : assoc_ok [0; 1; 2] = true.
Proof. vm_compute. reflexivity. Qed.

(** lifting of the exhaustive checks to quantified statements (bounds explicit) *)
Lemma compose_apply_bounded4 f x U :
  In f (all_bijs [0; 1; 2; 3]) -> In x (all_bijs [0; 1; 2; 3]) -> In U (subsets [0; 1; 2; 3]) ->
  renaming x U = true -> renaming f (image x U) = true ->
  exists c, bij_compose f x = Some c /\ forall k, In k U -> bget c k = bget f (bget x k).
Proof.
  intros Hf Hx HU H1 H2. pose proof compose_ok_4 as H. unfold compose_ok in H.
  rewrite forallb_forall in H. specialize (H f Hf). rewrite forallb_forall in H. specialize (H x Hx).
  rewrite forallb_forall in H. specialize (H U HU). rewrite H1, H2 in H. cbn [andb negb orb] in H.
  unfold compose_law in H. destruct (bij_compose f x) as [c|]; [|discriminate]. exists c. split; [reflexivity|].
  rewrite forallb_forall in H. intros k Hk. apply Z.eqb_eq. apply H. assumption.
Qed.

Lemma compose_assoc_bounded3 f g h U :
  In f (all_bijs [0; 1; 2]) -> In g (all_bijs [0; 1; 2]) -> In h (all_bijs [0; 1; 2]) -> In U (subsets [0; 1; 2]) ->
  renaming h U = true -> renaming g (image h U) = true -> renaming f (image g (image h U)) = true ->
  assoc_law f g h U = true.
Proof.
  intros Hf Hg Hh HU H1 H2 H3. pose proof assoc_ok_3 as H. unfold assoc_ok in H.
  rewrite forallb_forall in H. specialize (H f Hf). rewrite forallb_forall in H. specialize (H g Hg).
  rewrite forallb_forall in H. specialize (H h Hh). rewrite forallb_forall in H. specialize (H U HU).
  rewrite H1, H2, H3 in H. exact H.
Qed.
