(** Finite sums over integer ranges in an arbitrary commutative ring (Leibniz equality). *)
From Coq Require Import ZArith Bool Lia ZifyBool List Ring.
Import ListNotations.
Open Scope Z_scope.

Section Sums.
Variable R : Type.
Variables (rO rI : R) (radd rmul rsub : R -> R -> R) (ropp : R -> R).
Variable Rth : ring_theory rO rI radd rmul rsub ropp eq.
Add Ring Rring : Rth.
Infix "+r" := radd (at level 50, left associativity).
Infix "*r" := rmul (at level 40, left associativity).

(** sum_{k = lo}^{lo+n-1} f k *)
Fixpoint zsum_from (lo : Z) (n : nat) (f : Z -> R) : R :=
  match n with
  | O => rO
  | S n' => f lo +r zsum_from (lo + 1) n' f
  end.

Definition zsum_range (lo hi : Z) (f : Z -> R) : R := zsum_from lo (Z.to_nat (hi - lo)) f.

Definition lsum {A} (f : A -> R) (l : list A) : R := fold_right (fun a acc => f a +r acc) rO l.

Lemma zsum_from_ext lo n f g :
  (forall k, lo <= k < lo + Z.of_nat n -> f k = g k) -> zsum_from lo n f = zsum_from lo n g.
Proof.
  revert lo; induction n as [|n IH]; intros lo H; cbn [zsum_from]; [reflexivity|].
  rewrite H by lia. rewrite IH; [reflexivity|]. intros k Hk; apply H; lia.
Qed.

Lemma zsum_from_zero lo n f : (forall k, lo <= k < lo + Z.of_nat n -> f k = rO) -> zsum_from lo n f = rO.
Proof.
  revert lo; induction n as [|n IH]; intros lo H; cbn [zsum_from]; [reflexivity|].
  rewrite H by lia. rewrite IH; [ring|]. intros k Hk; apply H; lia.
Qed.

(** a sum with a single possibly non-zero term *)
Lemma zsum_from_single lo n f t :
  (forall k, lo <= k < lo + Z.of_nat n -> k <> t -> f k = rO) ->
  zsum_from lo n f = if (lo <=? t) && (t <? lo + Z.of_nat n) then f t else rO.
Proof.
  revert lo; induction n as [|n IH]; intros lo H; cbn [zsum_from].
  - destruct (lo <=? t) eqn:E1, (t <? lo + Z.of_nat 0) eqn:E2; cbn; try reflexivity; lia.
  - rewrite IH by (intros k Hk Hne; apply H; lia).
    destruct (Z.eq_dec lo t) as [->|Hne].
    + replace ((t + 1 <=? t) && (t <? t + 1 + Z.of_nat n)) with false by lia.
      replace ((t <=? t) && (t <? t + Z.of_nat (S n))) with true by lia. ring.
    + rewrite (H lo) by lia.
      replace ((lo <=? t) && (t <? lo + Z.of_nat (S n))) with ((lo + 1 <=? t) && (t <? lo + 1 + Z.of_nat n)) by lia.
      ring.
Qed.

Lemma zsum_range_single lo hi f t :
  (forall k, lo <= k < hi -> k <> t -> f k = rO) ->
  zsum_range lo hi f = if (lo <=? t) && (t <? hi) then f t else rO.
Proof.
  intros H. unfold zsum_range. rewrite (zsum_from_single _ _ _ t).
  - destruct (Z_lt_le_dec lo hi).
    + replace (lo + Z.of_nat (Z.to_nat (hi - lo))) with hi by lia. reflexivity.
    + replace (Z.to_nat (hi - lo)) with O by lia.
      replace ((lo <=? t) && (t <? lo + Z.of_nat 0)) with false by lia.
      replace ((lo <=? t) && (t <? hi)) with false by lia. reflexivity.
  - intros k Hk; apply H; lia.
Qed.

Lemma zsum_range_ext lo hi f g : (forall k, lo <= k < hi -> f k = g k) -> zsum_range lo hi f = zsum_range lo hi g.
Proof. intros H; unfold zsum_range; apply zsum_from_ext; intros k Hk; apply H; lia. Qed.

Lemma zsum_from_add lo n f g : zsum_from lo n (fun k => f k +r g k) = zsum_from lo n f +r zsum_from lo n g.
Proof. revert lo; induction n as [|n IH]; intros lo; cbn [zsum_from]; [ring|]. rewrite IH; ring. Qed.

Lemma zsum_from_scale lo n c f : zsum_from lo n (fun k => c *r f k) = c *r zsum_from lo n f.
Proof. revert lo; induction n as [|n IH]; intros lo; cbn [zsum_from]; [ring|]. rewrite IH; ring. Qed.

Lemma zsum_range_add lo hi f g : zsum_range lo hi (fun k => f k +r g k) = zsum_range lo hi f +r zsum_range lo hi g.
Proof. apply zsum_from_add. Qed.

Lemma zsum_range_scale lo hi c f : zsum_range lo hi (fun k => c *r f k) = c *r zsum_range lo hi f.
Proof. apply zsum_from_scale. Qed.

Lemma zsum_range_zero lo hi f : (forall k, lo <= k < hi -> f k = rO) -> zsum_range lo hi f = rO.
Proof. intros H; apply zsum_from_zero; intros k Hk; apply H; lia. Qed.

Lemma zsum_from_split lo n1 n2 f :
  zsum_from lo (n1 + n2) f = zsum_from lo n1 f +r zsum_from (lo + Z.of_nat n1) n2 f.
Proof.
  revert lo; induction n1 as [|n1 IH]; intros lo.
  - cbn. replace (lo + 0) with lo by lia. ring.
  - cbn [Nat.add zsum_from]. rewrite IH. replace (lo + 1 + Z.of_nat n1) with (lo + Z.of_nat (S n1)) by lia. ring.
Qed.

Lemma zsum_range_split lo mid hi f : lo <= mid <= hi ->
  zsum_range lo hi f = zsum_range lo mid f +r zsum_range mid hi f.
Proof.
  intros H. unfold zsum_range.
  replace (Z.to_nat (hi - lo)) with (Z.to_nat (mid - lo) + Z.to_nat (hi - mid))%nat by lia.
  rewrite zsum_from_split. replace (lo + Z.of_nat (Z.to_nat (mid - lo))) with mid by lia. reflexivity.
Qed.

Lemma lsum_app {A} (f : A -> R) l1 l2 : lsum f (l1 ++ l2) = lsum f l1 +r lsum f l2.
Proof. unfold lsum; induction l1 as [|a l1 IH]; cbn [app fold_right]; [ring|]. rewrite IH; ring. Qed.

Lemma lsum_ext {A} (f g : A -> R) l : (forall a, In a l -> f a = g a) -> lsum f l = lsum g l.
Proof. unfold lsum; induction l as [|a l IH]; intros H; cbn [fold_right]; [reflexivity|]. rewrite H by (left; reflexivity). rewrite IH; [reflexivity|]. intros; apply H; right; assumption. Qed.

Lemma lsum_add {A} (f g : A -> R) l : lsum (fun a => f a +r g a) l = lsum f l +r lsum g l.
Proof. unfold lsum; induction l as [|a l IH]; cbn [fold_right]; [ring|]. rewrite IH; ring. Qed.

Lemma lsum_scale {A} c (f : A -> R) l : lsum (fun a => c *r f a) l = c *r lsum f l.
Proof. unfold lsum; induction l as [|a l IH]; cbn [fold_right]; [ring|]. rewrite IH; ring. Qed.

Lemma lsum_zero {A} (f : A -> R) l : (forall a, In a l -> f a = rO) -> lsum f l = rO.
Proof. unfold lsum; induction l as [|a l IH]; intros H; cbn [fold_right]; [reflexivity|]. rewrite H by (left; reflexivity). rewrite IH; [ring|]. intros; apply H; right; assumption. Qed.

(** exchange of a list sum and a range sum *)
Lemma lsum_zsum_swap {A} (f : A -> Z -> R) l lo n :
  lsum (fun a => zsum_from lo n (f a)) l = zsum_from lo n (fun k => lsum (fun a => f a k) l).
Proof.
  unfold lsum; induction l as [|a l IH]; cbn [fold_right].
  - symmetry; apply zsum_from_zero; reflexivity.
  - rewrite IH. rewrite <- zsum_from_add. reflexivity.
Qed.

End Sums.

Arguments lsum {R} rO radd {A} f l.
Arguments zsum_from {R} rO radd lo n f.
Arguments zsum_range {R} rO radd lo hi f.

Section SumsSwap.
Variable R : Type.
Variables (rO rI : R) (radd rmul rsub : R -> R -> R) (ropp : R -> R).
Variable Rth : ring_theory rO rI radd rmul rsub ropp eq.
Add Ring Rring3 : Rth.

Lemma zsum_from_swap lo1 n1 lo2 n2 (f : Z -> Z -> R) :
  zsum_from rO radd lo1 n1 (fun i => zsum_from rO radd lo2 n2 (fun j => f i j))
  = zsum_from rO radd lo2 n2 (fun j => zsum_from rO radd lo1 n1 (fun i => f i j)).
Proof.
  revert lo1. induction n1 as [|n1 IH]; intros lo1; cbn [zsum_from].
  - symmetry. apply (zsum_from_zero R rO rI radd rmul rsub ropp Rth). reflexivity.
  - rewrite IH. rewrite <- (zsum_from_add R rO rI radd rmul rsub ropp Rth). reflexivity.
Qed.

Lemma zsum_range_swap lo1 hi1 lo2 hi2 (f : Z -> Z -> R) :
  zsum_range rO radd lo1 hi1 (fun i => zsum_range rO radd lo2 hi2 (fun j => f i j))
  = zsum_range rO radd lo2 hi2 (fun j => zsum_range rO radd lo1 hi1 (fun i => f i j)).
Proof. unfold zsum_range. apply zsum_from_swap. Qed.
End SumsSwap.
