(** Python slice semantics for a positive step (PySlice_AdjustIndices) and floor division.
    Coq's [Z.div]/[Z.modulo] are already floor division / sign-of-divisor remainder, like Python's. *)
From Coq Require Import ZArith Bool Lia.
Open Scope Z_scope.

(** clip a start/stop bound against a sequence of length [len] (step > 0) *)
Definition adj_index (len x : Z) : Z :=
  if x <? 0 then Z.max (x + len) 0 else Z.min x len.

Definition slice_lo (len : Z) (start : option Z) : Z :=
  match start with None => 0 | Some s => adj_index len s end.
Definition slice_hi (len : Z) (stop : option Z) : Z :=
  match stop with None => len | Some s => adj_index len s end.

(** does flat position [p] belong to [a[start:stop:step]] for an array of length [len]?  ([None] step = 1) *)
Definition in_slice (len : Z) (start stop step : option Z) (p : Z) : bool :=
  let a := slice_lo len start in
  let b := slice_hi len stop in
  let st := match step with None => 1 | Some s => s end in
  (a <=? p) && (p <? b) && ((p - a) mod st =? 0).

(** Python [range(lo, hi)] membership *)
Definition in_range (lo hi t : Z) : bool := (lo <=? t) && (t <? hi).
