(** Python operand kinds that reach ImpulseDict arithmetic, and the isinstance relation between them and
    the classes named in the source (trusted table: CPython/numpy class hierarchy; numpy registers its scalar
    types with the numbers ABCs; numpy.float64 subclasses float; bool subclasses int). *)
From Coq Require Import Bool.
Inductive okind := KImpulse | KSteady | KPyInt | KPyFloat | KBool | KNpFloat64 | KNpFloat32 | KNpInt64
                 | KStr | KNone | KList | KNdarray | KDict.
Inductive pyclass := ClsImpulseDict | ClsSteadyStateDict | ClsResultDict | ClsFloat | ClsInt | ClsReal | ClsNumber
                   | ClsStr | ClsDict | ClsNdarray | ClsOther.
Definition all_kinds := (KImpulse :: KSteady :: KPyInt :: KPyFloat :: KBool :: KNpFloat64 :: KNpFloat32 :: KNpInt64
                         :: KStr :: KNone :: KList :: KNdarray :: KDict :: nil)%list.
Definition is_instance (k : okind) (c : pyclass) : bool :=
  match c, k with
  | ClsImpulseDict, KImpulse => true
  | ClsSteadyStateDict, KSteady => true
  | ClsResultDict, (KImpulse | KSteady) => true
  | ClsFloat, (KPyFloat | KNpFloat64) => true
  | ClsInt, (KPyInt | KBool) => true
  | (ClsReal | ClsNumber), (KPyInt | KPyFloat | KBool | KNpFloat64 | KNpFloat32 | KNpInt64) => true
  | ClsStr, KStr => true
  | ClsDict, KDict => true
  | ClsNdarray, KNdarray => true
  | _, _ => false
  end.
Definition is_real_scalar (k : okind) : bool :=
  match k with KPyInt | KPyFloat | KBool | KNpFloat64 | KNpFloat32 | KNpInt64 => true | _ => false end.
(** outcome of the operand ladder *)
Inductive ladder := LElementwiseDict | LElementwiseScalar | LRefused | LReturnsExceptionObject.
