(** "iterate until the test passes, else raise": the shape of stationary(), the backward/forward steady-state
    iterations and the Newton loops.   for it in range(maxit): new = step(cur); if ok(cur, new): break; cur = new
    else: raise;  return new *)
From Coq Require Import List Arith Lia.
Section Loop.
Variable S : Type.
Variable step : S -> S.
Variable ok : S -> S -> bool.
Fixpoint iter_until (fuel : nat) (s : S) : option S :=
  match fuel with
  | O => None
  | Datatypes.S f => let s' := step s in if ok s s' then Some s' else iter_until f s'
  end.

(** exit contract: a returned value is one step from an iterate on which the test held *)
Lemma iter_until_contract fuel : forall s r, iter_until fuel s = Some r -> exists prev, r = step prev /\ ok prev r = true.
Proof.
  induction fuel as [|f IH]; intros s r H; cbn in H; [discriminate|].
  destruct (ok s (step s)) eqn:E; [inversion H; subst; exists s; split; [reflexivity|assumption] | apply IH in H; exact H].
Qed.

(** invariants of the step are inherited by the result *)
Lemma iter_until_invariant (P : S -> Prop) fuel : (forall x, P x -> P (step x)) -> forall s r, P s -> iter_until fuel s = Some r -> P r.
Proof.
  intros Hstep. induction fuel as [|f IH]; intros s r Hs H; cbn in H; [discriminate|].
  destruct (ok s (step s)); [inversion H; subst; apply Hstep; assumption | eapply IH; [apply Hstep; exact Hs | exact H]].
Qed.

End Loop.
