(** descriptor of one O x O block of the stacked covariance matrix (target of the translator) *)
From Coq Require Import ZArith.
Inductive vblock := VZero | VLag (lag : Z) (transposed : bool) | VDiag.
