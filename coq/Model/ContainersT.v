(** JacobianDict.compose / JacobianDict.apply at an arbitrary horizon T with the entry kinds the implementation stores: absent, SimpleSparse,
    IdentityMatrix (the sparse identity) and dense T x T arrays.  This is Model/Containers.v (dict semantics: absent iff no middle name has both
    factors) instantiated with the mixed sparse/dense operator algebra of Model/GET.v (the Python operators' dispatch), over the rationals.  No proofs here. *)
From Coq Require Import ZArith QArith Qcanon Bool List.
From SSJ Require Import Lib.PySlice Lib.Sums Model.Sparse Model.Chain Model.GET Model.Containers.
Import ListNotations.
Open Scope Z_scope.

Definition pathT := list Qc.
Definition pzero (T : Z) : pathT := repeat g0 (Z.to_nat T).
Definition padd (a b : pathT) : pathT := map (fun p => Qcplus (fst p) (snd p)) (combine a b).
Definition pfn (x : pathT) : mat Qc := fun t _ => nth (Z.to_nat t) x g0.
(** J[o][i] @ x[i]: a SimpleSparse acts on the path as on a T x 1 array (multiply_rs_matrix), a dense array by the matrix-vector product *)
Definition vact (T : Z) (a : opr) (x : pathT) : pathT :=
  match a with
  | Ze => pzero T
  | Sp A => map (fun t => sp_matmul_dense Qc g0 Qcplus Qcmult T A (pfn x) (Z.of_nat t) 0) (seq 0 (Z.to_nat T))
  | Dn M => map (fun t => zsum_range g0 Qcplus 0 T (fun k => Qcmult (fn M (Z.of_nat t) k) (nth (Z.to_nat k) x g0))) (seq 0 (Z.to_nat T))
  end.

Definition composeT (T : Z) (A B : jdict opr) : jdict opr := compose opr (eadd T) (emul T) A B.
Definition applyT (T : Z) (J : jdict opr) (x : list (Z * pathT)) : list (Z * pathT) := apply opr pathT (pzero T) padd (vact T) J x.

(** interface: entries as (kind, data): 0 = sparse elements, 1 = dense rows, 2 = identity *)
Inductive entryspec := ESp (els : list ((Z * Z) * Z)) | EDn (rows : list (list Z)) | EId.
Definition mk_entry (e : entryspec) : opr :=
  match e with
  | ESp els => Sp (map (fun kx => (fst kx, gz (snd kx))) els)
  | EDn rows => Dn (map (map gz) rows)
  | EId => Sp (identity_sp Qc g1)
  end.
Definition mkT (n : list (Z * list (Z * entryspec))) (o i : list Z) : jdict opr :=
  {| nd := map (fun r => (fst r, map (fun e => (fst e, mk_entry (snd e))) (snd r))) n; jouts := o; jins := i |}.
Definition run_composeT (T : Z) (A B : jdict opr) :=
  let Cc := composeT T A B in
  (map (fun r => (fst r, map (fun e => (fst e, map (map gout) (to_dense T (snd e)))) (snd r))) (nd opr Cc), jouts opr Cc, jins opr Cc).
Definition run_applyT (T : Z) (J : jdict opr) (x : list (Z * list Z)) :=
  map (fun kv => (fst kv, map gout (snd kv))) (applyT T J (map (fun kv => (fst kv, map gz (snd kv))) x)).
