(** Model of utilities/solvers.py (newton_solver, broyden_solver) over an abstract residual oracle
    f : X -> option Y  (None = the evaluation raised ValueError) and abstract linear algebra, plus the
    censoring rules of residual_with_linear_continuation (TRANSLATED, Gen/Solvers.v). *)
From Coq Require Import ZArith Bool List.
From SSJ Require Import Gen.Solvers.
Import ListNotations.

Section Solver.
Variables X Y J : Type.
Variable f : X -> option Y.
Variable small : Y -> bool.                          (* np.max(np.abs(y)) < tol *)
Variable obtainJ : X -> Y -> J.
Variable direction : J -> Y -> X.                    (* np.linalg.solve(J, -y) *)
Variable xadd : X -> X -> X.
Variable shrink : X -> X.                            (* dx *= backtrack_c *)
Variable accept : J -> X -> Y -> Y -> nat -> bool.   (* Newton: sufficient-improvement test; Broyden: always true *)
Variable updJ : bool -> J -> X -> Y -> Y -> J.       (* Broyden update (flag true) or recompute-next-iteration (Newton) *)

Inductive outcome := Returned (x : X) (y : Y) | TooManyBacktracks | NoConvergence.

(** for bcount in range(B): try ynew = f(x + dx) except ValueError: dx *= c  else: accept or dx *= c;  else: raise *)
Fixpoint backtrack (b : nat) (bcount : nat) (x : X) (y : Y) (Jm : J) (dx : X) : option (X * Y * X) :=
  match b with
  | O => None
  | S b' =>
      match f (xadd x dx) with
      | None => backtrack b' (S bcount) x y Jm (shrink dx)
      | Some ynew => if accept Jm dx y ynew bcount then Some (xadd x dx, ynew, dx)
                     else backtrack b' (S bcount) x y Jm (shrink dx)
      end
  end.

Fixpoint solve_loop (broyden : bool) (B : nat) (fuel : nat) (first : bool) (x : X) (y : Y) (Jm : J) : outcome :=
  match fuel with
  | O => NoConvergence
  | S k =>
      if small y then Returned x y
      else let J1 := if broyden && negb first then Jm else obtainJ x y in
           match backtrack B 0 x y J1 (direction J1 y) with
           | None => TooManyBacktracks
           | Some (x', y', dx) => solve_loop broyden B k false x' y' (updJ broyden J1 dx y y')
           end
  end.
End Solver.

(** control-flow replay for the correspondence: per outer iteration the observed [small] flag and the observed
    outcomes of the trial evaluations (raise / rejected / accepted) *)
Inductive trial := TRaise | TReject | TAccept.
Inductive flow := FReturn (iterations : nat) | FBacktracks (iterations : nat) | FNoConv | FTraceExhausted.
Fixpoint take_trials (b : nat) (ts : list trial) : option bool :=   (* Some true = accepted, Some false = B trials used, None = trace ended *)
  match b with
  | O => Some false
  | S b' => match ts with [] => None | TAccept :: _ => Some true | _ :: r => take_trials b' r end
  end.
Fixpoint flow_of (B : nat) (fuel : nat) (it : nat) (trace : list (bool * list trial)) : flow :=
  match fuel with
  | O => FNoConv
  | S k => match trace with
           | [] => FTraceExhausted
           | (small, ts) :: rest =>
               if small then FReturn it
               else match take_trials B ts with
                    | Some true => flow_of B k (S it) rest
                    | Some false => FBacktracks it
                    | None => FTraceExhausted
                    end
           end
  end.
Definition run_flow (maxcount : Z) (trace : list (bool * list trial)) : flow :=
  flow_of (Z.to_nat newton_solver_max_backtracks) (Z.to_nat maxcount) 0 trace.
