(** The executable instance of Model/Sparse.v at the ring Z (tiny x <-> x = 0), and the case runner
    used by the correspondence check of C03. *)
From Coq Require Import ZArith Bool List.
From SSJ Require Import Lib.PySlice Lib.Sums Model.Shift Model.Sparse.
Import ListNotations.
Open Scope Z_scope.

Definition spz := sp Z.
Definition ztiny (x : Z) : bool := x =? 0.

Definition zadd := sp_add Z Z.add ztiny.
Definition zneg := sp_neg Z Z.opp.
Definition zscale := sp_scale Z Z.mul.
Definition zsub := sp_sub Z Z.add Z.opp ztiny.
Definition zrsub := sp_rsub Z Z.add Z.opp ztiny.
Definition zT := sp_T Z.
Definition zmul := sp_mul Z Z.add Z.mul ztiny.
Definition znonzero := sp_nonzero Z ztiny.
Definition zsden := sden Z 0 1 Z.add Z.mul.

Definition mat_of_list (L : list (list Z)) : mat Z :=
  fun t s => if (t <? 0) || (s <? 0) then 0 else nth (Z.to_nat s) (nth (Z.to_nat t) L []) 0.
Definition mat_neg (M : mat Z) : mat Z := fun t s => - M t s.

Definition zmatmul_dense T S A L := tabulate Z T S (sp_matmul_dense Z 0 Z.add Z.mul T A (mat_of_list L)).
Definition zdense_matmul T A L := tabulate Z T T (dense_matmul_sp Z 0 Z.add Z.mul T (mat_of_list L) A).
Definition zadd_dense T A L := tabulate Z T T (sp_add_dense Z 0 Z.add T A (mat_of_list L)).
Definition zmatrix T A := tabulate Z T T (sp_matrix Z 0 Z.add T A).
Definition zident := identity_sp Z 1.

Inductive case :=
| CAdd (A B : spz) | CSub (A B : spz) | CNeg (A : spz) | CScale (a : Z) (A : spz) | CTr (A : spz)
| CMul (A B : spz) | CNonzero (A : spz)
| CSpMat (T S0 : Z) (A : spz) (M : list (list Z))      (* A @ M   (vectors: S = 1) *)
| CMatSp (T : Z) (M : list (list Z)) (A : spz)        (* M @ A *)
| CAddDense (T : Z) (A : spz) (M : list (list Z))     (* A + M, M + A *)
| CSubDense (T : Z) (A : spz) (M : list (list Z))     (* A - M  = A + (-M) *)
| CRsubDense (T : Z) (A : spz) (M : list (list Z))    (* M - A  = -A + M *)
| CMatrix (T : Z) (A : spz)
| CDiag (d : list (Z * Z)).

Inductive result := RSp (A : spz) | RMat (M : list (list Z)).

Definition mneg (L : list (list Z)) := map (map Z.opp) L.

Definition run (c : case) : result :=
  match c with
  | CAdd A B => RSp (zadd A B)
  | CSub A B => RSp (zsub A B)
  | CNeg A => RSp (zneg A)
  | CScale a A => RSp (zscale a A)
  | CTr A => RSp (zT A)
  | CMul A B => RSp (zmul A B)
  | CNonzero A => RSp (znonzero A)
  | CSpMat T S0 A M => RMat (zmatmul_dense T S0 A M)
  | CMatSp T M A => RMat (zdense_matmul T A M)
  | CAddDense T A M => RMat (zadd_dense T A M)
  | CSubDense T A M => RMat (zadd_dense T A (mneg M))
  | CRsubDense T A M => RMat (zadd_dense T (zneg A) M)
  | CMatrix T A => RMat (zmatrix T A)
  | CDiag d => RSp (sp_from_diagonals Z d)
  end.
