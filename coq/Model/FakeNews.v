(** Model of the four parts of the fake-news algorithm (HetBlock._jacobian: backward_fakenews, expectation_vectors, build_F,
    J_from_F) next to the DIRECT linear recursion it is meant to reproduce (for a shock at date s known from date 0: one
    backward pass from date s to date 0, then one forward pass of the distribution).

    Abstract part (Section FakeNews): values in any commutative monoid R, distributions V, functions-on-the-state-space W,
    backward variables Wb; the pairing <w, d>, the steady-state forward operator L and its expectation operator Ex are
    abstract.  Executable part (lists over Z) is used by the correspondence check against HetBlock.build_F / J_from_F /
    expectation_vectors. *)
From Coq Require Import List Arith ZArith Bool.
Import ListNotations.

Section FakeNews.
Variables R V W Wb : Type.
Variable r0 : R.
Variable radd : R -> R -> R.
Variable v0 : V.
Variable vadd : V -> V -> V.
Variable pair : W -> V -> R.            (* np.vdot / the matrix product of build_F *)
Variable L : V -> V.                    (* law_of_motion.forward at the steady state (exogenous then endogenous step) *)
Variable Ex : W -> W.                   (* law_of_motion.expectation at the steady state *)
Variable dm : W -> W.                   (* utils.misc.demean *)
Variable w0 : W.                        (* law_of_motion[0].expectation(o_ss): beginning-of-period expectation of the outcome *)
(* one linearised backward step around the steady state *)
Variable V0 : Wb.                       (* response of the backward variables to the contemporaneous unit shock *)
Variable d0 : V.                        (* ... of next period's distribution *)
Variable y0 : R.                        (* ... of today's aggregate outcome *)
Variable bV : Wb -> Wb.                 (* response to next period's backward-variable perturbation (the `_p' inputs) *)
Variable gD : Wb -> V.
Variable gY : Wb -> R.

Fixpoint iterW (n : nat) (w : W) : W := match n with O => w | S n' => Ex (iterW n' w) end.

(** Part 1 (backward_fakenews): curlyV, curlyD[0], curlyY[0] from the unit shock, then for t in 1..T-1 one step from curlyV *)
Fixpoint cV (k : nat) : Wb := match k with O => V0 | S k' => bV (cV k') end.
Definition cD (k : nat) : V := match k with O => d0 | S k' => gD (cV k') end.
Definition cY (k : nat) : R := match k with O => y0 | S k' => gY (cV k') end.

(** Part 2 (expectation_vectors): E[0] = demean(w0); E[t] = demean(Ex(E[t-1])) *)
Fixpoint cE (t : nat) : W := match t with O => dm w0 | S t' => dm (Ex (cE t')) end.

(** Part 3 (build_F): F[0, s] = curlyY[s]; F[t, s] = <E[t-1], curlyD[s]> *)
Definition build_F (t s : nat) : R := match t with O => cY s | S t' => pair (cE t') (cD s) end.

(** Part 4 (J_from_F): J = F.copy(); for s in 1..: J[1:, s] += J[:-1, s-1] *)
Fixpoint J_from_F_g (F : nat -> nat -> R) (t s : nat) {struct s} : R :=
  match s with
  | O => F t 0
  | S s' => match t with O => F 0 s | S t' => radd (F t s) (J_from_F_g F t' s') end
  end.
Definition fake_news_J (t s : nat) : R := J_from_F_g build_F t s.

(** The direct computation for a unit shock at date s.
    Backward pass: at date s the contemporaneous responses; at every earlier date one step from the following date's
    backward-variable perturbation; after date s nothing moves. [bpass n] lists dates 0..n of a date-n shock. *)
Fixpoint bpass (n : nat) : list (Wb * V * R) :=
  match n with
  | O => [(V0, d0, y0)]
  | S n' => let rest := bpass n' in
            let nxt := fst (fst (hd (V0, d0, y0) rest)) in (bV nxt, gD nxt, gY nxt) :: rest
  end.
Definition dD_at (s t : nat) : option V := option_map (fun x => snd (fst x)) (nth_error (bpass s) t).
Definition dY_at (s t : nat) : option R := option_map snd (nth_error (bpass s) t).

(** Forward pass: dDbeg_0 = 0; dDbeg_{t+1} = L dDbeg_t + (date-t perturbation of the transition applied to the steady-state
    distribution); outcome: dY_t = <w0, dDbeg_t> + (date-t perturbation of the outcome under the steady-state distribution) *)
Fixpoint dDbeg (s t : nat) : V :=
  match t with
  | O => v0
  | S t' => match dD_at s t' with Some d => vadd (L (dDbeg s t')) d | None => L (dDbeg s t') end
  end.
Definition direct_J (t s : nat) : R :=
  match dY_at s t with Some y => radd (pair w0 (dDbeg s t)) y | None => pair w0 (dDbeg s t) end.
End FakeNews.

(** executable instance over Z: vectors = lists, L = a matrix (list of rows), Ex = its transpose *)
Open Scope Z_scope.
Fixpoint dotZ (a b : list Z) : Z := match a, b with x :: a', y :: b' => x * y + dotZ a' b' | _, _ => 0 end.
Definition matvec (M : list (list Z)) (v : list Z) : list Z := map (fun row => dotZ row v) M.
Fixpoint vaddZ (a b : list Z) : list Z := match a, b with x :: a', y :: b' => (x + y) :: vaddZ a' b' | _, _ => [] end.
Fixpoint transposeZ (n : nat) (M : list (list Z)) : list (list Z) :=
  match n with O => [] | S n' => map (fun r => hd 0 r) M :: transposeZ n' (map (@tl Z) M) end.

(** HetBlock.build_F on arrays: curlyYs (length T), curlyDs (T rows), curlyEs (T-1 rows) *)
Definition build_F_arr (Ys : list Z) (Ds Es : list (list Z)) : list (list Z) :=
  Ys :: map (fun e => map (fun d => dotZ e d) Ds) Es.
(** HetBlock.J_from_F on arrays, via the recursion of Model.HetLoop restated on lists *)
Definition lmatZ (Lm : list (list Z)) (t s : nat) : Z := nth s (nth t Lm []) 0.
Definition J_arr (Tn : nat) (F : list (list Z)) : list (list Z) :=
  map (fun t => map (fun s => J_from_F_g Z Z.add (lmatZ F) t s) (seq 0 Tn)) (seq 0 Tn).
Definition fn_J_arr (Tn : nat) (Ys : list Z) (Ds Es : list (list Z)) : list (list Z) := J_arr Tn (build_F_arr Ys Ds Es).

(** the direct recursion over Z given the steady-state forward matrix, w0, and the perturbation sequences (curlyD_k, curlyY_k)
    (the backward pass is represented by its result: at date t <= s the perturbations are those of horizon s - t) *)
Fixpoint dDbegZ (Lam : list (list Z)) (zero : list Z) (Ds : list (list Z)) (s t : nat) : list Z :=
  match t with
  | O => zero
  | S t' => let prev := matvec Lam (dDbegZ Lam zero Ds s t') in
            if Nat.leb t' s then vaddZ prev (nth (s - t') Ds zero) else prev
  end.
Definition direct_J_arr (Tn : nat) (Lam : list (list Z)) (w0 : list Z) (Ys : list Z) (Ds : list (list Z)) : list (list Z) :=
  let zero := map (fun _ => 0) w0 in
  map (fun t => map (fun s => dotZ w0 (dDbegZ Lam zero Ds s t) + (if Nat.leb t s then nth (s - t) Ys 0 else 0)) (seq 0 Tn)) (seq 0 Tn).
(** expectation vectors without demeaning: E[t] = (Lam^T)^t w0 *)
Fixpoint expvecZ (LamT : list (list Z)) (w0 : list Z) (n : nat) : list (list Z) :=
  match n with O => [] | S n' => w0 :: expvecZ LamT (matvec LamT w0) n' end.
