(** Executable model of utilities/bijection.py.  Python dicts are insertion-ordered association lists
    with unique keys; names are integers.  No proofs here. *)
From Coq Require Import ZArith Bool List.
From SSJ Require Import Model.OSet.
Import ListNotations.
Open Scope Z_scope.

Definition dict := list (Z * Z).

Fixpoint dget (k : Z) (d : dict) : option Z :=
  match d with [] => None | (k', v) :: r => if k =? k' then Some v else dget k r end.
Fixpoint dset (k v : Z) (d : dict) : dict :=
  match d with [] => [(k, v)] | (k', v') :: r => if k =? k' then (k', v) :: r else (k', v') :: dset k v r end.
Definition dhas (k : Z) (d : dict) : bool := match dget k d with Some _ => true | None => false end.
Definition dict_of (l : list (Z * Z)) : dict := fold_left (fun d kv => dset (fst kv) (snd kv) d) l [].

Record bij := { bmap : dict; binv : dict }.

(** Bijection.__init__: the loop that builds invmap and raises ValueError on a duplicate value *)
Definition inv_step (acc : option dict) (kv : Z * Z) : option dict :=
  match acc with
  | None => None
  | Some inv => if dhas (snd kv) inv then None else Some (dset (snd kv) (fst kv) inv)
  end.
Definition bij_invmap (m : dict) : option dict := fold_left inv_step m (Some []).
Definition bij_new (m : dict) : option bij :=
  match bij_invmap m with
  | None => None
  | Some inv => Some {| bmap := filter (fun kv => negb (fst kv =? snd kv)) m; binv := inv |}
  end.
Definition bij_inv (b : bij) : bij := {| bmap := binv b; binv := bmap b |}.
Definition bget (b : bij) (k : Z) : Z := match dget k (bmap b) with Some v => v | None => k end.

(** self @ x for a Bijection x *)
Definition bij_compose (f x : bij) : option bij :=
  let M1 := fold_left (fun M vu => dset (match dget (fst vu) (binv x) with Some w => w | None => fst vu end) (snd vu) M) (bmap f) [] in
  let M2 := fold_left (fun M wv => if dhas (snd wv) (bmap f) then M else dset (fst wv) (snd wv) M) (bmap x) M1 in
  bij_new M2.

Definition bij_apply_list (b : bij) (l : list Z) : list Z := map (bget b) l.
Definition bij_apply_oset (b : bij) (l : list Z) : list Z := of_list (map (bget b) l).
Definition bij_apply_dict (b : bij) (x : dict) : dict :=
  fold_left (fun d kv => match dget (fst kv) (bmap b) with
                         | Some k' => dset k' (snd kv) d
                         | None => if dhas (fst kv) d then d else dset (fst kv) (snd kv) d
                         end) x [].

(** "names do not collide": a name of [l] that is not renamed must not be the target of a renaming *)
Definition no_collision (b : bij) (l : list Z) : bool :=
  forallb (fun k => dhas k (bmap b) || negb (dhas k (binv b))) l.

(** enumeration of all partial injective maps on the alphabet [0..n-1] (for the bounded theorems) *)
Fixpoint all_maps (keys vals : list Z) : list dict :=
  match keys with
  | [] => [[]]
  | k :: ks => let rest := all_maps ks vals in
               rest ++ flat_map (fun v => map (fun d => (k, v) :: d) rest) vals
  end.
Definition injective_values (d : dict) : bool := (length (of_list (map snd d)) =? length d)%nat.
Definition all_bijs (alphabet : list Z) : list bij :=
  flat_map (fun d => match bij_new d with Some b => [b] | None => [] end)
           (filter injective_values (all_maps alphabet alphabet)).
