(** Two endogenous assets: the 2-D policy lottery (het_compiled.forward_policy_2d with the coordinates of interpolate_coord_robust in each dimension) on the
    state (z, x, y), with the two endogenous dimensions flattened as s = ix * ny + iy (C order, as numpy reshapes them), so that the Markov step, aggregation and
    sums of Model/HetPath.v apply unchanged to arrays [z][s].  Used to replay the forward pass of the shipped two-asset household from its observed policies.
    No proofs here. *)
From Coq Require Import ZArith QArith Qcanon Bool List Arith.
From SSJ Require Import Lib.Sums Model.HetLoop Model.HetPath.
Import ListNotations.

(** forward_policy_2d for one exogenous state: source s = (ix, iy) with mass d sends
      py px d to (i, j),  py (1 - px) d to (i + 1, j),  (1 - py) px d to (i, j + 1),  (1 - py) (1 - px) d to (i + 1, j + 1),
    where (i, px) / (j, py) are the bracket and weight of the x- / y-policy in its own grid *)
(** coordinates of one source point: flat indices of its four corners' base (i, j) and the four masses *)
Definition corner2 (ny : nat) (gx gy polx poly Drow : list Qc) (s : nat) : nat * nat * (Qc * Qc * Qc * Qc) :=
  let qx := nth s polx h0 in let i := bracket gx qx in let px := weight gx qx i in
  let qy := nth s poly h0 in let j := bracket gy qy in let py := weight gy qy j in
  let d := nth s Drow h0 in
  (i, j, (Qcmult (Qcmult py px) d, Qcmult (Qcmult py (Qcminus h1 px)) d, Qcmult (Qcmult (Qcminus h1 py) px) d, Qcmult (Qcmult (Qcminus h1 py) (Qcminus h1 px)) d)).
Definition corner_term (ny : nat) (c : nat * nat * (Qc * Qc * Qc * Qc)) (t : nat) : Qc :=
  let '(i, j, (w00, w10, w01, w11)) := c in
  Qcplus (Qcplus (if Nat.eqb (i * ny + j) t then w00 else h0) (if Nat.eqb (S i * ny + j) t then w10 else h0))
         (Qcplus (if Nat.eqb (i * ny + S j) t then w01 else h0) (if Nat.eqb (S i * ny + S j) t then w11 else h0)).
Definition lottery2_row (nx ny : nat) (gx gy polx poly Drow : list Qc) : list Qc :=
  let tab := map (corner2 ny gx gy polx poly Drow) (seq 0 (nx * ny)) in       (* computed once per row *)
  map (fun t => hsum (nx * ny) (fun s => corner_term ny (nth s tab (0%nat, 0%nat, (h0, h0, h0, h0))) t)) (seq 0 (nx * ny)).
Definition lottery2_forward (nz nx ny : nat) (gx gy : list Qc) (polx poly D : arr) : arr :=
  map (fun z => lottery2_row nx ny gx gy (row polx z) (row poly z) (row D z)) (seq 0 nz).

(** assets carried in: sum over the state of mass times the grid value of the x- (resp. y-) coordinate *)
Definition carried_x (nz nx ny : nat) (gx : list Qc) (D : arr) : Qc := hsum nz (fun z => hsum (nx * ny) (fun t => Qcmult (ent D z t) (nth (t / ny) gx h0))).
Definition carried_y (nz nx ny : nat) (gy : list Qc) (D : arr) : Qc := hsum nz (fun z => hsum (nx * ny) (fun t => Qcmult (ent D z t) (nth (t mod ny) gy h0))).

(** one date at a time from the observed arrays (flattened to [z][s]): Markov step applied to Dbeg_t, 2-D lottery applied to D_t, aggregates, assets carried in / out *)
Definition run_forward2_steps (nz nx ny : nat) (gx gy : list Qc) (Pis polxs polys cs chis Dbegs Ds : list arr) :=
  let n := (nx * ny)%nat in
  map (fun p => let '(Pi, px, py, c, chi, Dbeg, D) := p in
                let Dn := lottery2_forward nz nx ny gx gy px py D in
                (map (map ho) (mk_forward nz n Pi Dbeg), map (map ho) Dn,
                 [ho (aggregate nz n D px); ho (aggregate nz n D py); ho (aggregate nz n D c); ho (aggregate nz n D chi)],
                 [ho (carried_x nz nx ny gx Dbeg); ho (carried_y nz nx ny gy Dbeg); ho (carried_x nz nx ny gx Dn); ho (carried_y nz nx ny gy Dn)]))
      (combine (combine (combine (combine (combine (combine Pis polxs) polys) cs) chis) Dbegs) Ds).
