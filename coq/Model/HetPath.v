(** Executable instance of the HetBlock nonlinear-impulse loops (Model/HetLoop.v: backward_nonlinear, forward_nonlinear) over the
    rationals: one exogenous Markov dimension whose matrix may move over time (a heterogeneous-input function of a scalar shifter),
    one endogenous asset dimension with the 1-D policy lottery (bracketing index as characterised by the C17 theorems, weight
    (x[i+1] - q) / (x[i+1] - x[i]) as in interpolate_coord_robust_vector), aggregation by the distribution-weighted sum.
    The household's backward step is a parameter of the loops; [toy_step] is the harness fixture household (polynomial, clipped to the
    grid) written in Gallina exactly as the harness writes it in Python.  No proofs here. *)
From Coq Require Import ZArith QArith Qcanon Bool List Arith.
From SSJ Require Import Lib.Sums Model.HetLoop.
Import ListNotations.

Definition h0 := Q2Qc 0.
Definition h1 := Q2Qc 1.
Definition arr := list (list Qc).                (* [z][a] *)
Definition hsum (n : nat) (f : nat -> Qc) : Qc := lsum h0 Qcplus f (seq 0 n).      (* sum_{k < n} f k *)
Definition qleb (x y : Qc) : bool := match Qccompare x y with Gt => false | _ => true end.
Definition row (M : arr) (z : nat) : list Qc := nth z M [].
Definition ent (M : arr) (z a : nat) : Qc := nth a (row M z) h0.
Definition tabulate2 (nz na : nat) (f : nat -> nat -> Qc) : arr := map (fun z => map (f z) (seq 0 na)) (seq 0 nz).

(** Markov(Pi).expectation: X'[z] = sum_z' Pi[z][z'] X[z'];  Markov(Pi).forward: D'[z'] = sum_z Pi[z][z'] D[z] *)
Definition mk_expect (nz na : nat) (Pi X : arr) : arr :=
  tabulate2 nz na (fun z a => hsum nz (fun z' => Qcmult (ent Pi z z') (ent X z' a))).
Definition mk_forward (nz na : nat) (Pi D : arr) : arr :=
  tabulate2 nz na (fun z' a => hsum nz (fun z => Qcmult (ent Pi z z') (ent D z a))).

(** lower bracketing index: the least i with q <= x[i+1], capped at n-2 (C17: robust binary search = monotone sweep = this index) *)
Fixpoint bracket_from (g : list Qc) (q : Qc) (i : nat) : nat :=
  match g with
  | _ :: ((x1 :: (_ :: _)) as g') => if qleb q x1 then i else bracket_from g' q (S i)
  | _ => i
  end.
Definition bracket (g : list Qc) (q : Qc) : nat := bracket_from g q 0.
Definition weight (g : list Qc) (q : Qc) (i : nat) : Qc :=
  Qcdiv (Qcminus (nth (S i) g h0) q) (Qcminus (nth (S i) g h0) (nth i g h0)).

(** forward_policy_1d: Dnew[z, i] += pi * D[z, ia];  Dnew[z, i+1] += (1 - pi) * D[z, ia] *)
Definition lottery_row (na : nat) (g pol Drow : list Qc) : list Qc :=
  map (fun j => hsum na (fun ia => let q := nth ia pol h0 in let i := bracket g q in let p := weight g q i in
                                   let d := nth ia Drow h0 in
                                   Qcplus (if Nat.eqb i j then Qcmult p d else h0) (if Nat.eqb (S i) j then Qcmult (Qcminus h1 p) d else h0)))
      (seq 0 na).
Definition lottery_forward (nz na : nat) (g : list Qc) (pol D : arr) : arr :=
  map (fun z => lottery_row na g (row pol z) (row D z)) (seq 0 nz).

(** fast_aggregate: vdot(D_t, x_t) *)
Definition aggregate (nz na : nat) (D X : arr) : Qc := hsum nz (fun z => hsum na (fun a => Qcmult (ent D z a) (ent X z a))).

(** what one backward pass leaves in backdict *)
Record hback := { b_V : arr; b_a : arr; b_c : arr; b_Pi : arr }.

Section Path.
Variables (nz na : nat) (agrid : list Qc).
Variable I : Type.
Variable step : I -> arr -> hback.       (* date-t inputs, V_p = expectation of date t+1's V  ->  date-t backdict *)

Definition expectB (b : hback) : hback :=            (* exog.expectation(backdict[k]) with exog made from the SAME backdict *)
  {| b_V := mk_expect nz na (b_Pi b) (b_V b); b_a := b_a b; b_c := b_c b; b_Pi := b_Pi b |}.
Definition bstepB (i : I) (e : hback) : hback := step i (b_V e).
Definition exogB (b : hback) (D : arr) : arr := mk_forward nz na (b_Pi b) D.
Definition endogB (b : hback) (D : arr) : arr := lottery_forward nz na agrid (b_a b) D.

(** HetBlock._impulse_nonlinear: backward pass from the steady state, forward pass from Dbeg0, aggregates *)
Definition het_paths (T : nat) (inputs : nat -> I) (ss : hback) (Dbeg0 : arr) :=
  let back := backward_nonlinear I hback bstepB expectB T inputs ss in
  let fwd := forward_nonlinear hback arr exogB endogB back Dbeg0 in
  (back, fwd, map (fun bd => (aggregate nz na (snd (snd bd)) (b_a (fst bd)), aggregate nz na (snd (snd bd)) (b_c (fst bd)))) (combine back fwd)).
End Path.

(** ---- the harness fixture household ---- *)
Record toy_in := { i_r : Qc; i_w : Qc; i_shift : Qc }.
Definition qmax (x y : Qc) : Qc := if qleb x y then y else x.
Definition qmin (x y : Qc) : Qc := if qleb x y then x else y.
Definition half := Q2Qc (1 # 2).
(** Pi = Pi_ss with the first column lowered and the last column raised by the shifter (hetinput) *)
Definition toy_Pi (nz : nat) (Pi_ss : arr) (shift : Qc) : arr :=
  tabulate2 nz nz (fun z z' => Qcplus (ent Pi_ss z z') (Qcplus (if Nat.eqb z' 0 then Qcopp shift else h0) (if Nat.eqb z' (nz - 1) then shift else h0))).
(** coh = (1+r) a_grid + w e;  a = clip(coh/2 + kappa V_p, grid);  c = coh - a;  V = V_p/2 + c *)
Definition toy_step (nz na : nat) (agrid egrid : list Qc) (Pi_ss : arr) (kappa : Qc) (i : toy_in) (Vp : arr) : hback :=
  let coh := fun z a => Qcplus (Qcmult (Qcplus h1 (i_r i)) (nth a agrid h0)) (Qcmult (i_w i) (nth z egrid h0)) in
  let pol := fun z a => qmin (qmax (Qcplus (Qcmult half (coh z a)) (Qcmult kappa (ent Vp z a))) (nth 0 agrid h0)) (nth (na - 1) agrid h0) in
  {| b_V := tabulate2 nz na (fun z a => Qcplus (Qcmult half (ent Vp z a)) (Qcminus (coh z a) (pol z a)));
     b_a := tabulate2 nz na pol;
     b_c := tabulate2 nz na (fun z a => Qcminus (coh z a) (pol z a));
     b_Pi := toy_Pi nz Pi_ss (i_shift i) |}.

(** ---- interface for the correspondence check ---- *)
Definition ho (x : Qc) : Z * Z := (Qnum (this x), Zpos (Qden (this x))).
Definition hq (a : Z) (b : positive) : Qc := Q2Qc (a # b).
Definition run_toy (nz na T : nat) (agrid egrid : list Qc) (Pi_ss : arr) (kappa : Qc) (inputs : list toy_in) (ssV ssPi Dbeg0 : arr) :=
  let ss := {| b_V := ssV; b_a := []; b_c := []; b_Pi := ssPi |} in
  let '(back, fwd, agg) := het_paths nz na agrid toy_in (toy_step nz na agrid egrid Pi_ss kappa) T
                              (fun t => nth t inputs {| i_r := h0; i_w := h0; i_shift := h0 |}) ss Dbeg0 in
  (map (fun b => (map (map ho) (b_V b), map (map ho) (b_a b), map (map ho) (b_c b))) back,
   map (fun dd => (map (map ho) (fst dd), map (map ho) (snd dd))) fwd,
   map (fun ac => (ho (fst ac), ho (snd ac))) agg).

(** ---- forward pass and aggregation from OBSERVED individual paths: the Markov matrices, asset policies and outcomes of ANY household
     (e.g. a shipped block whose backward step is not modelled) at every date, and the initial distribution ---- *)
Definition observed_back (Pis pols cs : list arr) : list hback :=
  map (fun p => {| b_V := []; b_a := snd (fst p); b_c := snd p; b_Pi := fst (fst p) |}) (combine (combine Pis pols) cs).
Definition carried_in (nz na : nat) (agrid : list Qc) (Dbeg : arr) : Qc := hsum nz (fun z => hsum na (fun j => Qcmult (ent Dbeg z j) (nth j agrid h0))).
Definition run_forward (nz na : nat) (agrid : list Qc) (Pis pols cs : list arr) (Dbeg0 : arr) :=
  let back := observed_back Pis pols cs in
  let fwd := forward_nonlinear hback arr (exogB nz na) (endogB nz na agrid) back Dbeg0 in
  (map (fun dd => (map (map ho) (fst dd), map (map ho) (snd dd))) fwd,
   map (fun bd => (ho (aggregate nz na (snd (snd bd)) (b_a (fst bd))), ho (aggregate nz na (snd (snd bd)) (b_c (fst bd))))) (combine back fwd),
   map (fun dd => ho (carried_in nz na agrid (fst dd))) fwd).

(** the same, one date at a time from the OBSERVED distributions (keeps the rationals small): for every date, the exogenous step applied to
    the observed Dbeg_t, the policy lottery applied to the observed D_t, the aggregates under the observed D_t, the assets carried in by Dbeg_t *)
Definition run_forward_steps (nz na : nat) (agrid : list Qc) (Pis pols cs Dbegs Ds : list arr) :=
  map (fun p => let '(Pi, a, c, Dbeg, D) := p in
                (map (map ho) (mk_forward nz na Pi Dbeg), map (map ho) (lottery_forward nz na agrid a D),
                 ho (aggregate nz na D a), ho (aggregate nz na D c), ho (carried_in nz na agrid Dbeg), ho (carried_in nz na agrid (lottery_forward nz na agrid a D))))
      (combine (combine (combine (combine Pis pols) cs) Dbegs) Ds).
