(** Executable instance of the StageBlock loops (Model/StageLoop.v) for the harness fixture household written as two stages:
    an exogenous stage (ExogenousMaker: expectation of the backward variable over the Markov state, law of motion = the Markov matrix of the date,
    itself a heterogeneous input moved by the shifter) followed by a continuous-choice stage (Continuous1D: the polynomial backward step of
    Model/HetPath.v fed the expected continuation, law of motion = the policy lottery).  No proofs here. *)
From Coq Require Import ZArith QArith Qcanon Bool List Arith.
From SSJ Require Import Lib.Sums Model.HetLoop Model.HetPath Model.StageLoop.
Import ListNotations.

Inductive tlom := LMarkov (Pi : arr) | LLottery (pol : arr).
Definition trep := (arr * arr)%type.        (* reported individual outcomes (a, c); the exogenous stage reports nothing *)

Section ToyStages.
Variables (nz na : nat) (agrid egrid : list Qc) (Pi_ss : arr) (kappa : Qc).

Definition tlom_apply (l : tlom) (D : arr) : arr :=
  match l with LMarkov Pi => mk_forward nz na Pi D | LLottery pol => lottery_forward nz na agrid pol D end.
Definition s_exog : stage toy_in arr trep tlom :=
  fun i V => let Pi := toy_Pi nz Pi_ss (i_shift i) in (mk_expect nz na Pi V, ([], []), LMarkov Pi).
Definition s_cont : stage toy_in arr trep tlom :=
  fun i Vp => let hb := toy_step nz na agrid egrid Pi_ss kappa i Vp in (b_V hb, (b_a hb, b_c hb), LLottery (b_a hb)).
Definition toy_stages : list (stage toy_in arr trep tlom) := [s_exog; s_cont].

(** StageBlock._impulse_nonlinear: backward pass, forward pass, aggregates of the continuous stage's reports under the distribution at the beginning of that stage *)
Definition toy_stage_paths (T : nat) (inputs : nat -> toy_in) (ssb Dbeg0 : arr) :=
  let back := stage_backward toy_in arr trep tlom toy_stages T inputs ssb in
  let fwd := stage_forward tlom arr tlom_apply (map snd back) Dbeg0 in
  (back, fwd,
   map (fun bf => let rep := nth 1 (fst (fst bf)) ([], []) in let D := nth 1 (snd bf) [] in
                  (aggregate nz na D (fst rep), aggregate nz na D (snd rep))) (combine back fwd)).
End ToyStages.

Definition run_toy_stage (nz na T : nat) (agrid egrid : list Qc) (Pi_ss : arr) (kappa : Qc) (inputs : list toy_in) (ssb Dbeg0 : arr) :=
  let '(back, fwd, agg) := toy_stage_paths nz na agrid egrid Pi_ss kappa T (fun t => nth t inputs {| i_r := h0; i_w := h0; i_shift := h0 |}) ssb Dbeg0 in
  (map (fun ds => map (map (map ho)) ds) fwd, map (fun ac => (ho (fst ac), ho (snd ac))) agg).
