(** Executable model of classes/sparse_jacobians.py (SimpleSparse, IdentityMatrix) over an arbitrary
    ring of coefficients.  A SimpleSparse is its [elements] dict, modelled as an insertion-ordered
    association list with unique keys.  The integer/index logic comes from the *translated* source
    ([SSJ.Gen.MultiplyBasis], [SSJ.Gen.SparseIndex]); only the dict/loop skeleton is written by hand.
    No proofs here. *)
From Coq Require Import ZArith Bool List.
From SSJ Require Import Lib.PySlice Lib.Sums Model.Shift Gen.MultiplyBasis Gen.SparseIndex.
Import ListNotations.
Open Scope Z_scope.

Section Sparse.
Variable R : Type.
Variables (rO rI : R) (radd rmul : R -> R -> R) (ropp : R -> R).
Variable tiny : R -> bool.      (* abs(x) < 1e-14 *)

Definition sp := list ((Z * Z) * R).

(** elements[k] += x   (with optional deletion when the result is tiny);  elements[k] = x when absent *)
Fixpoint acc (del : bool) (k : Z * Z) (x : R) (S : sp) : sp :=
  match S with
  | [] => [(k, x)]
  | (k', y) :: S' =>
      if keyeqb k k' then
        let z := radd y x in
        if del && tiny z then S' else (k', z) :: S'
      else (k', y) :: acc del k x S'
  end.

(** SimpleSparse.__add__ (sparse operand) *)
Definition sp_add (A B : sp) : sp := fold_left (fun E kx => acc true (fst kx) (snd kx) E) B A.
Definition sp_neg (A : sp) : sp := map (fun kx => (fst kx, ropp (snd kx))) A.
Definition sp_scale (a : R) (A : sp) : sp := map (fun kx => (fst kx, rmul a (snd kx))) A.
Definition sp_sub (A B : sp) : sp := sp_add A (sp_neg B).
Definition sp_rsub (A B : sp) : sp := sp_add (sp_neg A) B.           (* B - A computed as -A + B *)
Definition sp_T (A : sp) : sp := map (fun kx => (transpose_key (fst kx), snd kx)) A.
Definition sp_from_diagonals (d : list (Z * R)) : sp := map (fun ix => (diag_key (fst ix), snd ix)) d.

(** multiply_rs_rs *)
Definition sp_mul (A B : sp) : sp :=
  fold_left (fun E imx =>
    fold_left (fun E jny => acc false (multiply_basis (fst imx) (fst jny)) (rmul (snd imx) (snd jny)) E) B E) A [].

(** nonzero() / iszero *)
Definition sp_nonzero (A : sp) : sp := filter (fun kx => negb (tiny (snd kx))) A.

(** denotation *)
Definition bden (k : Z * Z) (t s : Z) : R := if den k t s then rI else rO.
Definition sden (A : sp) (t s : Z) : R := lsum rO radd (fun kx => rmul (snd kx) (bden (fst kx) t s)) A.

(** dense operands: a T x S array is a function on indices (only the window is ever read) *)
Definition mat := Z -> Z -> R.

(** multiply_rs_matrix: Aout[rs_dst, s] += x * A[rs_src, s] for t' in range(rs_lo, rs_hi) *)
Definition sp_matmul_dense (T : Z) (A : sp) (M : mat) : mat := fun t s =>
  lsum rO radd (fun kx =>
    let '(i, m) := fst kx in
    zsum_range rO radd (rs_lo T i m) (rs_hi T i m)
      (fun t' => if rs_dst i t' =? t then rmul (snd kx) (M (rs_src i t') s) else rO)) A.

(** every row index read by multiply_rs_matrix lies inside the array (numba does not bounds-check) *)
Definition rs_reads_in_bounds (T : Z) (A : sp) : bool :=
  forallb (fun kx => let '(i, m) := fst kx in
     forallb (fun t' => (0 <=? rs_src i t') && (rs_src i t' <? T) && (0 <=? rs_dst i t') && (rs_dst i t' <? T))
             (map (fun n => rs_lo T i m + Z.of_nat n) (seq 0 (Z.to_nat (rs_hi T i m - rs_lo T i m))))) A.

(** __rmatmul__: (self.T @ A.T).T *)
Definition dense_matmul_sp (T : Z) (M : mat) (A : sp) : mat := fun t s =>
  sp_matmul_dense T (sp_T A) (fun a b => M b a) s t.

(** __add__ with a T x T array: flat slices *)
Definition sp_add_dense (T : Z) (A : sp) (M : mat) : mat := fun t s =>
  radd (M t s)
    (lsum rO radd (fun kx =>
       let '(i, m) := fst kx in
       if in_slice (T * T) (dense_add_start T i m) (dense_add_stop T i m) (dense_add_step T i m) (t * T + s)
       then snd kx else rO) A).

Definition sp_matrix (T : Z) (A : sp) : mat := sp_add_dense T A (fun _ _ => rO).

(** IdentityMatrix.sparse() *)
Definition identity_sp : sp := [((0, 0), rI)].

Definition tabulate (T S : Z) (M : mat) : list (list R) :=
  map (fun t => map (fun s => M (Z.of_nat t) (Z.of_nat s)) (seq 0 (Z.to_nat S))) (seq 0 (Z.to_nat T)).

Definition wf (A : sp) : Prop := forall k x, In (k, x) A -> 0 <= snd k.
Definition wfb (A : sp) : bool := forallb (fun kx => 0 <=? snd (fst kx)) A.

End Sparse.
