(** Model of the state-space transitions (het_compiled.py kernels, het_support.py / law_of_motion.py classes).
    Corner weights of the lottery kernels are the TRANSLATED expressions (Gen/Kernels.v, polynomials over Z);
    the scatter/gather loop skeleton, the Markov step and the combined-transition product rule are hand-modelled. *)
From Coq Require Import ZArith Bool List.
From SSJ Require Import Lib.Sums Gen.Kernels.
Import ListNotations.
Open Scope Z_scope.

Notation zs := (zsum_range 0 Z.add).

(** one row (fixed exogenous state) of forward_policy_1d / expectation_policy_1d / forward_policy_shock_1d *)
Definition fwd_row (n : Z) (idx D pi : Z -> Z) (j : Z) : Z :=
  zs 0 n (fun ix => (if idx ix =? j then fwd1d_w 0 0 (D ix) (pi ix) else 0) + (if idx ix + 1 =? j then fwd1d_w 1 0 (D ix) (pi ix) else 0)).
Definition exp_row (idx pi X : Z -> Z) (ix : Z) : Z := exp1d (pi ix) (X (idx ix)) (X (idx ix + 1)).
Definition shock_row (n : Z) (idx D dpi : Z -> Z) (j : Z) : Z :=
  zs 0 n (fun ix => (if idx ix =? j then shock1d_w 0 0 (D ix) (dpi ix) else 0) + (if idx ix + 1 =? j then shock1d_w 1 0 (D ix) (dpi ix) else 0)).

(** Markov transition on one dimension: forward uses Pi^T, expectation uses Pi *)
Definition mk_fwd (n : Z) (Pi : Z -> Z -> Z) (D : Z -> Z) (z' : Z) : Z := zs 0 n (fun z => Pi z z' * D z).
Definition mk_exp (n : Z) (Pi : Z -> Z -> Z) (X : Z -> Z) (z : Z) : Z := zs 0 n (fun z' => Pi z z' * X z').

(** CombinedTransition.forward_shock over abstract stages: [fwd k] is stage k's forward map, [shk k] the
    already evaluated stage shock (None when the stage is not shocked).  dD = None until the first shock. *)
Section Combined.
Variable V : Type.
Variable vadd : V -> V -> V.
Definition comb_step (acc : option V) (st : (V -> V) * option V) : option V :=
  match acc, snd st with
  | None, s => s
  | Some d, None => Some (fst st d)
  | Some d, Some s => Some (vadd (fst st d) s)
  end.
Definition combined_shock (stages : list ((V -> V) * option V)) : option V := fold_left comb_step stages None.
End Combined.

(** executable instance for the correspondence: stages are integer matrices acting on vectors *)
Definition matvec (M : list (list Z)) (v : list Z) : list Z := map (fun row => fold_left Z.add (map (fun p => fst p * snd p) (combine row v)) 0) M.
Definition vadd_l (a b : list Z) : list Z := map (fun p => fst p + snd p) (combine a b).
Definition run_combined (stages : list (list (list Z) * option (list Z))) : option (list Z) :=
  combined_shock (list Z) vadd_l (map (fun st => (matvec (fst st), snd st)) stages).
Definition tab (n : Z) (f : Z -> Z) : list Z := map (fun k => f (Z.of_nat k)) (seq 0 (Z.to_nat n)).
Definition lst (l : list Z) (k : Z) : Z := if k <? 0 then 0 else nth (Z.to_nat k) l 0.
Definition run_row (n : Z) (idx D pi X dpi : list Z) :=
  (tab n (fwd_row n (lst idx) (lst D) (lst pi)), tab n (exp_row (lst idx) (lst pi) (lst X)), tab n (shock_row n (lst idx) (lst D) (lst dpi))).
