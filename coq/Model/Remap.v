(** Model of Block.remap (blocks/block.py): a block is a function from an input environment to an output
    environment over INTERNAL names; M maps internal to external names.  Every public method sandwiches the
    internal method between M.inv (on arguments) and M (on results). *)
From Coq Require Import List.
Section Remap.
Variables N V : Type.
Definition env := N -> V.
(** run the block through a renaming m (internal -> external) with inverse minv *)
Definition ext (m minv : N -> N) (run : env -> env) : env -> env :=
  fun e k => run (fun j => e (m j)) (minv k).
(** remap(new) of a block that already carries M = m1: the translated code sets M := new @ M *)
Definition remap (new newinv : N -> N) (m minv : N -> N) : (N -> N) * (N -> N) :=
  (fun j => new (m j), fun k => minv (newinv k)).
End Remap.
