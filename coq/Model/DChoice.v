(** Discrete-choice law of motion (blocks/support/law_of_motion.py DiscreteChoice; blocks/support/stages.py LogitChoice) over the rationals,
    for state arrays with ANY number of dimensions: the choice made at a state replaces the i-th coordinate of the state.

      DiscreteChoice(P, i) @ D      = batch_multiply_ith_dimension(P,   i, D)        P   has shape (nchoice, state shape)
      DiscreteChoice(P, i).T @ X    = batch_multiply_ith_dimension(P_T, i, X)        P_T = P.swapaxes(0, 1 + i)
      logit_choice:                   P = Vexp / Vexp.sum(axis=0)                    (Vexp: the exponentiated normalised values, abstract here)
      LogitChoice.backward_step_shock: dEV = sum(P * dV, axis=0);  dP = P * (dV - dEV) / scale;
                                       doutputs[k] = DiscreteChoice(dP, i).T @ ss[k] + DiscreteChoice(P, i).T @ shocks[k]

    The array operations are those of Model/Multidim.v (the object of the C08 index-algebra theorem).  No proofs here. *)
From Coq Require Import ZArith QArith Qcanon List Arith.
From SSJ Require Import Model.Multidim.
Import ListNotations.

Definition d0 := Q2Qc 0.
Definition d1 := Q2Qc 1.
Definition qarr := arr Qc.
Definition dsum (n : nat) (f : nat -> Qc) : Qc := rsum Qc d0 Qcplus n f.

(** P.swapaxes(0, 1 + i): P_T[k][.., d, ..] = P[d][.., k, ..] *)
Definition dc_PT (i : nat) (P : nat -> qarr) : nat -> qarr := fun k ix => P (nth i ix 0%nat) (setn i k ix).

(** lom @ D for D of shape sh; the result has shape sh with the i-th size replaced by the number of choices *)
Definition dc_forward (sh : list nat) (P : nat -> qarr) (i : nat) (D : qarr) : qarr :=
  batch_multiply_ith Qc d0 Qcplus Qcmult sh P i D.
(** lom.T @ X for X of shape sh[i := nch]; the result has shape sh *)
Definition dc_expect (sh : list nat) (nch : nat) (P : nat -> qarr) (i : nat) (X : qarr) : qarr :=
  batch_multiply_ith Qc d0 Qcplus Qcmult (setn i nch sh) (dc_PT i P) i X.

(** logit_choice: probabilities from positive weights (the weights are exp((V - max V) / scale) in the code) *)
Definition logit_P (nch : nat) (e : nat -> qarr) : nat -> qarr := fun d ix => Qcdiv (e d ix) (dsum nch (fun d' => e d' ix)).

(** LogitChoice.backward_step_shock with no flow utility: dV[d][ix] = dV_next[ix with i := d] *)
Definition lc_dV (i : nat) (dVn : qarr) : nat -> qarr := fun d ix => dVn (setn i d ix).
Definition lc_dEV (nch : nat) (P dV : nat -> qarr) : qarr := fun ix => dsum nch (fun d => Qcmult (P d ix) (dV d ix)).
Definition lc_dP (nch : nat) (P dV : nat -> qarr) (scale : Qc) : nat -> qarr :=
  fun d ix => Qcdiv (Qcmult (P d ix) (Qcminus (dV d ix) (lc_dEV nch P dV ix))) scale.
Definition lc_dout (sh : list nat) (nch : nat) (P dV : nat -> qarr) (scale : Qc) (i : nat) (Xss dX : qarr) : qarr :=
  fun ix => Qcplus (dc_expect sh nch (lc_dP nch P dV scale) i Xss ix) (dc_expect sh nch P i dX ix).

(** sum over a whole array of shape sh *)
Fixpoint asum (sh : list nat) (X : qarr) : Qc :=
  match sh with
  | [] => X []
  | s :: sh' => dsum s (fun k => asum sh' (fun ix => X (k :: ix)))
  end.

(** ---- interface for the correspondence check: arrays as flat row-major lists ---- *)
Definition of_flat (sh : list nat) (l : list Qc) : qarr := fun ix => nth (flat sh ix) l d0.
Definition all_idx (sh : list nat) : list idx := map (unflat sh) (seq 0 (prod sh)).
Definition to_flat (sh : list nat) (X : qarr) : list Qc := map X (all_idx sh).
Definition dq (x : Qc) : Z * Z := (Qnum (this x), Zpos (Qden (this x))).
Definition dz (z : Z) : Qc := Q2Qc (z # 1).
Definition run_dchoice (sh : list nat) (nch i : nat) (Pl : list (list Z)) (Dl Xl : list Z) :=
  let P := fun d => of_flat sh (map dz (nth d Pl [])) in
  let sh' := setn i nch sh in
  (map dq (to_flat sh' (dc_forward sh P i (of_flat sh (map dz Dl)))), map dq (to_flat sh (dc_expect sh nch P i (of_flat sh' (map dz Xl))))).
Definition run_logit_shock (sh : list nat) (nch i : nat) (Pl : list (list Z)) (scn : Z) (scd : positive) (dVnl Xssl dXl : list Z) :=
  let P := fun d => of_flat sh (map dz (nth d Pl [])) in
  let sh' := setn i nch sh in
  let scale := Q2Qc (scn # scd) in
  let dV := lc_dV i (of_flat sh' (map dz dVnl)) in
  (map dq (to_flat sh (lc_dEV nch P dV)),
   map (fun d => map dq (to_flat sh (lc_dP nch P dV scale d))) (seq 0 nch),
   map dq (to_flat sh (lc_dout sh nch P dV scale i (of_flat sh' (map dz Xssl)) (of_flat sh' (map dz dXl))))).
