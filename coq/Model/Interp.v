(** Model of interpolate_coord_robust_vector (binary search with the TRANSLATED guards, midpoint and update
    rule) over an integer-valued strictly increasing grid x (dyadic grids scaled to integers), and of the
    monotone sweep used by interpolate_coord / interpolate_y / interpolate_coord_njit. *)
From Coq Require Import ZArith Bool List.
From SSJ Require Import Gen.Interp.
Import ListNotations.
Open Scope Z_scope.

Fixpoint bsearch (fuel : nat) (x : Z -> Z) (q ilow ihigh : Z) : option Z :=
  if rb_continue ilow ihigh then
    match fuel with
    | O => None
    | S f => let imid := rb_mid ilow ihigh in
             if rb_go_right q (x imid) then bsearch f x q imid ihigh else bsearch f x q ilow imid
    end
  else Some ilow.

Definition robust_index (n : Z) (x : Z -> Z) (q : Z) : option Z :=
  if rb_low_guard q (x 0) then Some (rb_low_value n)
  else if rb_high_guard q (x (n - 2)) then Some (rb_high_value n)
  else bsearch (Z.to_nat n) x q (rb_init_low n) (rb_init_high n).

(** monotone sweep: state xi carried across ascending queries *)
Fixpoint sweep_advance (fuel : nat) (n : Z) (x : Z -> Z) (q xi : Z) : Z :=
  match fuel with
  | O => xi
  | S f => if (xi <? n - 2) && negb (x (xi + 1) >=? q) then sweep_advance f n x q (xi + 1) else xi
  end.
Definition sweep (n : Z) (x : Z -> Z) (qs : list Z) : list Z :=
  snd (fold_left (fun st q => let xi := sweep_advance (Z.to_nat n) n x q (fst st) in (xi, snd st ++ [xi])) qs (0, [])).

Definition lstz (l : list Z) (k : Z) : Z := if k <? 0 then 0 else nth (Z.to_nat k) l 0.
Definition run_interp (xs qs : list Z) :=
  let n := Z.of_nat (length xs) in (map (robust_index n (lstz xs)) qs, sweep n (lstz xs) qs).
