(** Executable model of nonlinear transition paths of a model that CONTAINS solved blocks (blocks/solved_block.py inside
    blocks/combined_block.py inside Block.solve_impulse_nonlinear), over the rationals.

      CombinedBlock._impulse_nonlinear:  for block in blocks:  input_args = perturbed inputs of the block
                                            if input_args or ss_initial is not None:  impulses.update(block.impulse_nonlinear(...))
      SolvedBlock._impulse_nonlinear:     self.block.solve_impulse_nonlinear(ss, unknowns, targets, inputs, ...)   -- a whole inner Newton solve,
                                          whose returned paths (inner unknowns and inner outputs) join the outer impulses; raises when it does not converge
      SolvedBlock Jacobian (outer H_U):   the inner general-equilibrium Jacobian (Model/GET.v solved_block)

    The inner solve is Model/NLSolve.v's loop started from the OUTER paths with the inner unknowns at zero deviation; the outer solve is the same
    loop over an evaluation that may fail.  One level of nesting (the oracle of C11 covers depth 2).  No proofs here. *)
From Coq Require Import ZArith QArith Qcanon Bool List Arith.
From SSJ Require Import Lib.Sums Model.Sparse Model.SimpleBlk Model.SimpleBlkQ Model.Chain Model.GET Model.NLSolve.
Import ListNotations.

Record solved := { sv_inner : list sblock; sv_U : list nat; sv_Tg : list nat;
                   sv_ins : list nat;      (* block.inputs - unknowns *)
                   sv_outs : list nat }.   (* block.outputs | unknowns *)
Inductive nblock := NSimple (b : sblock) | NSolved (s : solved).

(** inputs | U on top of paths that already exist *)
Definition add_paths (ss : tbl) (devs : list (nat * list Qc)) (P : paths) : paths :=
  fold_left (fun P d => upd_nth (fst d) (map (fun v => Qcplus (qlookup ss (fst d)) v) (snd d)) P) devs P.

Section Nested.
Variables (force : bool) (imaxit : nat) (itol : Qc) (T : Z) (N : nat) (ss ssi : tbl).

Definition inner_results (s : solved) (P : paths) (Up : list (list Qc)) : paths :=
  nl_eval force T ss ssi (sv_inner s) (add_paths ss (combine (sv_U s) Up) P).
Definition inner_solve (s : solved) (P : paths) : nl_outcome :=
  nl_loop imaxit (inner_results s P) (nl_ok ss (sv_Tg s) itol)
          (nl_update T ss (nl_HU T N ss (sv_inner s) (sv_U s) (sv_Tg s)) (sv_Tg s))
          (map (fun _ => repeat g0 (Z.to_nat T)) (sv_U s)).
Definition eval_solved (P : paths) (s : solved) : option paths :=
  if force || existsb (perturbed P) (sv_ins s)
  then match inner_solve s P with Converged _ res => Some res | _ => None end
  else Some P.
Definition eval_nblock (P : paths) (nb : nblock) : option paths :=
  match nb with NSimple b => Some (eval_block force T ss ssi P b) | NSolved s => eval_solved P s end.
Definition neval (prog : list nblock) (P0 : paths) : option paths :=
  fold_left (fun oP nb => match oP with None => None | Some P => eval_nblock P nb end) prog (Some P0).

(** Jacobians of the blocks of the outer DAG *)
Definition ncblock (nb : nblock) : option (cblock opr) :=
  match nb with
  | NSimple b => Some (jac_block ss b)
  | NSolved s => solved_block T N (map (jac_block ss) (sv_inner s)) (sv_U s) (sv_Tg s) (sv_ins s) (sv_outs s)
  end.
Fixpoint ncblocks (prog : list nblock) : option (list (cblock opr)) :=
  match prog with
  | [] => Some []
  | nb :: rest => match ncblock nb, ncblocks rest with Some c, Some cs => Some (c :: cs) | _, _ => None end
  end.
Definition nn_HU (prog : list nblock) (U Tg : list nat) : option dmat := option_map (fun bl => ge_HU T N bl U Tg) (ncblocks prog).

Definition nn_results (prog : list nblock) (U : list nat) (shocks : list (nat * list Qc)) (Up : list (list Qc)) : option paths :=
  neval prog (init_paths N ss (shocks ++ combine U Up)).

(** the outer loop: an evaluation that raises (an inner solve that does not converge) ends the solve without a result *)
Fixpoint nloop (fuel : nat) (F : list (list Qc) -> option paths) (ok : paths -> bool) (upd : list (list Qc) -> paths -> option (list (list Qc)))
  (Up : list (list Qc)) : nl_outcome :=
  match fuel with
  | O => NoConvergence
  | S k => match F Up with
           | None => NoConvergence
           | Some r => if ok r then Converged Up r
                       else match upd Up r with None => Singular | Some Up' => nloop k F ok upd Up' end
           end
  end.
Definition nn_solve (maxit : nat) (prog : list nblock) (U Tg : list nat) (shocks : list (nat * list Qc)) (tol : Qc) : nl_outcome :=
  match nn_HU prog U Tg with
  | None => Singular
  | Some HU => nloop maxit (nn_results prog U shocks) (nl_ok ss Tg tol) (nl_update T ss HU Tg) (map (fun _ => repeat g0 (Z.to_nat T)) U)
  end.
End Nested.

(** ---- steady state of a model that contains solved blocks: CombinedBlock._steady_state evaluates the blocks one after another; SolvedBlock._steady_state hands
     its inner model to a root finder (brentq, broyden, ...: abstract here) for the values of its unknowns and reports the inner model evaluated at them ---- *)
Section NestedSS.
Variable solver : solved -> tbl -> option (list Qc).       (* the root finder on the table as it stands: values of the unknowns, or failure *)
Definition set_vals (us : list nat) (vs : list Qc) (t : tbl) : tbl := fold_left (fun t uv => upd_nth (fst uv) (snd uv) t) (combine us vs) t.
Definition ss_nblock (t : tbl) (nb : nblock) : option tbl :=
  match nb with
  | NSimple b => Some (ss_block t b)
  | NSolved s => match solver s t with Some vs => Some (ss_eval (sv_inner s) (set_vals (sv_U s) vs t)) | None => None end
  end.
Definition ss_neval (prog : list nblock) (t0 : tbl) : option tbl :=
  fold_left (fun ot nb => match ot with None => None | Some t => ss_nblock t nb end) prog (Some t0).
End NestedSS.
(** the calibration with the values a table reports for the given names copied in *)
Definition copy_vals (us : list nat) (t t0 : tbl) : tbl := fold_left (fun q u => upd_nth u (qlookup t u) q) us t0.

(** the same equations left in the outer model *)
Definition flatten (prog : list nblock) : list sblock :=
  flat_map (fun nb => match nb with NSimple b => [b] | NSolved s => sv_inner s end) prog.

(** ---- interface for the correspondence check: one OUTER iteration replayed from an iterate of the implementation ---- *)
Definition run_nn_step (force : bool) (imaxit : nat) (itol : Qc) (N : nat) (T : Z) (ss ssi : tbl) (prog : list nblock) (U Tg : list nat)
  (shocks : list (nat * list Qc)) (tol : Qc) (Up : list (list Qc)) (outs : list nat) :=
  match nn_results force imaxit itol T N ss ssi prog U shocks Up, nn_HU T N ss prog U Tg with
  | Some res, Some HU => Some (map (fun o => map qo (dev_of ss res o)) outs, nl_ok ss Tg tol res, option_map (map (map qo)) (nl_update T ss HU Tg Up res))
  | _, _ => None
  end.
(** the nonlinear impulse of the nested model (no outer unknowns) *)
Definition run_nn_eval (force : bool) (imaxit : nat) (itol : Qc) (N : nat) (T : Z) (ss ssi : tbl) (prog : list nblock) (devs : list (nat * list Qc)) (outs : list nat) :=
  option_map (fun res => map (fun o => map qo (dev_of ss res o)) outs) (neval force imaxit itol T N ss ssi prog (init_paths N ss devs)).
