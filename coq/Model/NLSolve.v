(** Executable model of Block.solve_impulse_nonlinear for a model assembled from simple blocks (blocks/block.py,
    blocks/combined_block.py, blocks/simple_block.py), over the rationals, for any horizon T, any number of blocks,
    unknowns, targets and shocked inputs.

      Js  = partial Jacobians; H_U = jacobian(unknowns -> targets) packed and factored        (once, before the loop)
      U   = 0
      for it in range(maxit):
          results = impulse_nonlinear(ss, inputs | U)          -- block after block along the DAG, deviations from ss
          if all(max |results[target]| < tol): break
          U += -H_U^{-1} results[targets]
      else: raise
      return U, results

    The nonlinear evaluation is the time-path interpreter of the simple-block DSL (Model/SimpleBlk.v, the object of the
    C02 theorems); the Jacobians are the DSL's derivative accumulator chained along the DAG with the mixed sparse/dense
    operator algebra of Model/GET.v (the object of the C03/C04/C05 theorems); the linear solve is GET's checked
    Gauss-Jordan elimination.  No proofs here. *)
From Coq Require Import ZArith QArith Qcanon Bool List Arith.
From SSJ Require Import Lib.Sums Model.Sparse Model.SimpleBlk Model.SimpleBlkQ Model.Chain Model.GET.
Import ListNotations.

(** a simple block: the names its function takes, and one expression per output (variables are global names) *)
Record sblock := { sb_ins : list nat; sb_outs : list (nat * @expr Qc) }.

Definition tbl := list Qc.            (* value by name *)
Definition paths := list (list Qc).   (* LEVEL path by name; [] = the name is not perturbed (ImpulseDict has no such key) *)

Definition upd_nth {A} (n : nat) (x : A) (l : list A) : list A := firstn n l ++ x :: skipn (S n) l.

(** Displace(v + ss[k], ss[k], ss_initial[k]) for a perturbed name, ignore(ss[k]) otherwise *)
Definition penv (P : paths) (ss : tbl) (x : nat) (t : Z) : Qc :=
  if (t <? 0)%Z then qlookup ss x else nth (Z.to_nat t) (nth x P []) (qlookup ss x).

Definition perturbed (P : paths) (x : nat) : bool := match nth x P [] with [] => false | _ => true end.

(** SimpleBlock._impulse_nonlinear inside CombinedBlock._impulse_nonlinear: a block none of whose inputs is perturbed is skipped,
    unless an initial steady state was supplied ([force]: "if input_args or ss_initial is not None") *)
Definition eval_block (force : bool) (T : Z) (ss ssi : tbl) (P : paths) (b : sblock) : paths :=
  if force || existsb (perturbed P) (sb_ins b)
  then fold_left (fun P' oe =>
         upd_nth (fst oe) (map (fun t => qeval_td (Some T) (qlookup ss) (qlookup ssi) (penv P ss) (snd oe) (Z.of_nat t))
                               (seq 0 (Z.to_nat T))) P') (sb_outs b) P
  else P.
Definition nl_eval (force : bool) (T : Z) (ss ssi : tbl) (prog : list sblock) (P0 : paths) : paths := fold_left (eval_block force T ss ssi) prog P0.

(** inputs | U as level paths: [devs] lists (name, deviation path) *)
Definition init_paths (N : nat) (ss : tbl) (devs : list (nat * list Qc)) : paths :=
  fold_left (fun P d => upd_nth (fst d) (map (fun v => Qcplus (qlookup ss (fst d)) v) (snd d)) P) devs (repeat [] N).
(** deviation path of a name *)
Definition dev_of (ss : tbl) (P : paths) (o : nat) : list Qc := map (fun v => Qcminus v (qlookup ss o)) (nth o P []).

(** the Jacobian of one simple block: the derivative accumulator of every (output, input) pair *)
Definition jac_block (ss : tbl) (b : sblock) : cblock opr :=
  {| c_outs := map fst (sb_outs b); c_ins := sb_ins b;
     c_J := fun o m => match find (fun oe => Nat.eqb (fst oe) o) (sb_outs b) with
                       | Some oe => match qjac_entry (qlookup ss) m (snd oe) with Some A => Sp A | None => Ze end
                       | None => Ze
                       end |}.
Definition nl_HU (T : Z) (N : nat) (ss : tbl) (prog : list sblock) (U Tg : list nat) : dmat :=
  ge_HU T N (map (jac_block ss) prog) U Tg.

Definition qabs (x : Qc) : Qc := match Qccompare x g0 with Lt => Qcopp x | _ => x end.
Definition qltb (x y : Qc) : bool := match Qccompare x y with Lt => true | _ => false end.

(** all(max |results[k]| < tol for k in targets) *)
Definition nl_ok (ss : tbl) (Tg : list nat) (tol : Qc) (res : paths) : bool :=
  forallb (fun tg => forallb (fun v => qltb (qabs v) tol) (dev_of ss res tg)) Tg.

(** U += H_U_factored.apply(results):  U - H_U^{-1} pack(results[targets]) *)
Definition nl_update (T : Z) (ss : tbl) (HU : dmat) (Tg : list nat) (Up : list (list Qc)) (res : paths) : option (list (list Qc)) :=
  let n := Z.to_nat T in
  match msolve HU (map (fun x => [x]) (flat_map (dev_of ss res) Tg)) with
  | None => None
  | Some X => let x := map (fun row => hd g0 row) X in
              Some (map (fun ui => map (fun p => Qcminus (fst p) (snd p)) (combine (nth ui Up []) (firstn n (skipn (ui * n) x))))
                        (seq 0 (length Up)))
  end.

Definition nl_results (force : bool) (N : nat) (T : Z) (ss ssi : tbl) (prog : list sblock) (U : list nat) (shocks : list (nat * list Qc))
  (Up : list (list Qc)) : paths :=
  nl_eval force T ss ssi prog (init_paths N ss (shocks ++ combine U Up)).

Inductive nl_outcome := Converged (Up : list (list Qc)) (res : paths) | NoConvergence | Singular.

Fixpoint nl_loop (fuel : nat) (F : list (list Qc) -> paths) (ok : paths -> bool) (upd : list (list Qc) -> paths -> option (list (list Qc)))
  (Up : list (list Qc)) : nl_outcome :=
  match fuel with
  | O => NoConvergence
  | S k => let r := F Up in
           if ok r then Converged Up r
           else match upd Up r with None => Singular | Some Up' => nl_loop k F ok upd Up' end
  end.

Definition nl_solve (force : bool) (maxit : nat) (N : nat) (T : Z) (ss ssi : tbl) (prog : list sblock) (U Tg : list nat)
  (shocks : list (nat * list Qc)) (tol : Qc) : nl_outcome :=
  let HU := nl_HU T N ss prog U Tg in
  nl_loop maxit (nl_results force N T ss ssi prog U shocks) (nl_ok ss Tg tol) (nl_update T ss HU Tg)
          (map (fun _ => repeat g0 (Z.to_nat T)) U).

(** ---- steady state of the DAG: CombinedBlock._steady_state evaluates the blocks one after another, each block's outputs from the
     table as it stands before the block (SimpleBlock._steady_state: every input wrapped by ignore()) ---- *)
Definition ss_block (ss : tbl) (b : sblock) : tbl :=
  fold_left (fun s oe => upd_nth (fst oe) (qeval_ss (qlookup ss) (snd oe)) s) (sb_outs b) ss.
Definition ss_eval (prog : list sblock) (ss0 : tbl) : tbl := fold_left ss_block prog ss0.

(** names an expression reads *)
Fixpoint evars (e : @expr Qc) : list nat :=
  match e with
  | EVar x => [x] | ENum _ => [] | EShift _ e => evars e | ESs e => evars e | ENeg e => evars e
  | EAdd a b => evars a ++ evars b | ESub a b => evars a ++ evars b | EMul a b => evars a ++ evars b | EDiv a b => evars a ++ evars b
  | EPow a _ => evars a
  | EApp _ _ e => evars e
  end.
Definition outs_of (b : sblock) : list nat := map fst (sb_outs b).
(** a well-formed evaluation order over names < N: expressions read declared inputs only, a block does not read its own outputs,
    every name is produced at most once, and no later block produces a name an earlier block reads or produces *)
Fixpoint wf_prog (N : nat) (prog : list sblock) : Prop :=
  match prog with
  | [] => True
  | b :: rest =>
      (forall oe x, In oe (sb_outs b) -> In x (evars (snd oe)) -> In x (sb_ins b)) /\
      NoDup (outs_of b) /\ (forall o, In o (outs_of b) -> (o < N)%nat /\ ~ In o (sb_ins b)) /\
      (forall b' o, In b' rest -> In o (outs_of b') -> ~ In o (sb_ins b) /\ ~ In o (outs_of b)) /\
      wf_prog N rest
  end.

(** decidable version (the correspondence check evaluates it on every generated case) *)
Definition memb (x : nat) (l : list nat) : bool := existsb (Nat.eqb x) l.
Fixpoint nodupb (l : list nat) : bool := match l with [] => true | x :: l' => negb (memb x l') && nodupb l' end.
Fixpoint wf_progb (N : nat) (prog : list sblock) : bool :=
  match prog with
  | [] => true
  | b :: rest =>
      forallb (fun oe => forallb (fun x => memb x (sb_ins b)) (evars (snd oe))) (sb_outs b)
      && nodupb (outs_of b)
      && forallb (fun o => Nat.ltb o N && negb (memb o (sb_ins b))) (outs_of b)
      && forallb (fun b' => forallb (fun o => negb (memb o (sb_ins b)) && negb (memb o (outs_of b))) (outs_of b')) rest
      && wf_progb N rest
  end.

(** ---- interface for the correspondence check: one iteration replayed from an iterate of the implementation ---- *)
Definition qo (x : Qc) : Z * Z := (Qnum (this x), Zpos (Qden (this x))).
(** deviations of the requested names, the stopping decision, and the next iterate *)
Definition run_nl_step (force : bool) (N : nat) (T : Z) (ss ssi : tbl) (prog : list sblock) (U Tg : list nat) (shocks : list (nat * list Qc))
  (tol : Qc) (Up : list (list Qc)) (outs : list nat) :=
  let res := nl_results force N T ss ssi prog U shocks Up in
  (map (fun o => map qo (dev_of ss res o)) outs, nl_ok ss Tg tol res,
   option_map (map (map qo)) (nl_update T ss (nl_HU T N ss prog U Tg) Tg Up res)).
(** steady state of a DAG from a calibration table, and the nonlinear impulse (deviations of the requested names) *)
Definition run_dag (N : nat) (T : Z) (calib : tbl) (prog : list sblock) (devs : list (nat * list Qc)) (outs : list nat) :=
  let ss := ss_eval prog calib in
  (wf_progb N prog && Nat.eqb (length calib) N, map qo ss, map (fun o => map qo (dev_of ss (nl_eval false T ss ss prog (init_paths N ss devs)) o)) outs).
Definition run_nl_solve (force : bool) (maxit N : nat) (T : Z) (ss ssi : tbl) (prog : list sblock) (U Tg : list nat) (shocks : list (nat * list Qc))
  (tol : Qc) (outs : list nat) :=
  match nl_solve force maxit N T ss ssi prog U Tg shocks tol with
  | Converged Up res => (0%Z, map (map qo) Up, map (fun o => map qo (dev_of ss res o)) outs)
  | NoConvergence => (1%Z, [], [])
  | Singular => (2%Z, [], [])
  end.
