(** Executable general-equilibrium solve at an arbitrary horizon T with any number of unknowns, over the rationals.
    Operators are what the implementation carries along the DAG: either a SimpleSparse (symbolic sum of shift operators,
    Model.Sparse) or a dense T x T array; products and sums dispatch exactly as the Python operators do
    (sparse @ sparse: multiply_rs_rs, symbolic; sparse @ dense: multiply_rs_matrix; dense @ sparse: its transpose trick;
    sparse + dense: flat slices).  Block.solve_jacobian: forward accumulation for H_U and H_Z, pack, solve, unpack,
    prepend the block U_Z and accumulate again.  The linear solve is Gauss-Jordan elimination over Qc whose answer is
    *checked* (H_U X = -H_Z) before it is returned, so soundness does not rest on the elimination.  No proofs here. *)
From Coq Require Import ZArith QArith Qcanon Bool List Arith.
From SSJ Require Import Lib.PySlice Lib.Sums Model.Shift Gen.MultiplyBasis Gen.SparseIndex Model.Sparse Model.Chain.
Import ListNotations.

Definition g0 := Q2Qc 0.
Definition g1 := Q2Qc 1.
Definition gz (z : Z) : Qc := Q2Qc (inject_Z z).
Definition gtiny (x : Qc) : bool := Qc_eq_bool x g0.

Definition dmat := list (list Qc).
(** [Ze] is an ABSENT entry: the implementation skips absent entries instead of multiplying by a zero, which matters at a
    finite horizon because a dense zero would turn later symbolic products into windowed ones *)
Inductive opr := Ze | Sp (A : sp Qc) | Dn (M : dmat).

Definition fn (M : dmat) : mat Qc := fun t s => nth (Z.to_nat s) (nth (Z.to_nat t) M []) g0.
Definition tab (T : Z) (f : mat Qc) : dmat := tabulate Qc T T f.

Definition sp_dense (T : Z) (A : sp Qc) : dmat := tab T (sp_matrix Qc g0 Qcplus T A).
Definition to_dense (T : Z) (a : opr) : dmat := match a with Ze => tab T (fun _ _ => g0) | Sp A => sp_dense T A | Dn M => M end.

Definition dmul (T : Z) (M N : dmat) : dmat :=
  tab T (fun t s => zsum_range g0 Qcplus 0%Z T (fun k => Qcmult (fn M t k) (fn N k s))).
Definition dadd (T : Z) (M N : dmat) : dmat := tab T (fun t s => Qcplus (fn M t s) (fn N t s)).

Definition emul (T : Z) (a b : opr) : opr :=
  match a, b with
  | Ze, _ => Ze
  | _, Ze => Ze
  | Sp A, Sp B => Sp (sp_mul Qc Qcplus Qcmult gtiny A B)
  | Sp A, Dn M => Dn (tab T (sp_matmul_dense Qc g0 Qcplus Qcmult T A (fn M)))
  | Dn M, Sp B => Dn (tab T (dense_matmul_sp Qc g0 Qcplus Qcmult T (fn M) B))
  | Dn M, Dn N => Dn (dmul T M N)
  end.
Definition eadd (T : Z) (a b : opr) : opr :=
  match a, b with
  | Ze, _ => b
  | _, Ze => a
  | Sp A, Sp B => Sp (sp_add Qc Qcplus gtiny A B)
  | Sp A, Dn M => Dn (tab T (sp_add_dense Qc g0 Qcplus T A (fn M)))
  | Dn M, Sp B => Dn (tab T (sp_add_dense Qc g0 Qcplus T B (fn M)))
  | Dn M, Dn N => Dn (dadd T M N)
  end.
Definition ezero : opr := Ze.

(** forward accumulation with the table of totals materialised after every block (names are < N) *)
Definition freeze (N : nat) (f : nat -> opr) : nat -> opr :=
  let l := map f (seq 0 N) in fun x => nth x l ezero.
Definition accumulateF (T : Z) (N : nat) (blocks : list (cblock opr)) (init : nat -> opr) : nat -> opr :=
  fold_left (fun tot b => freeze N (acc_step opr ezero (eadd T) (emul T) tot b)) blocks (freeze N init).
Definition unit_init (i : nat) : nat -> opr := fun x => if Nat.eqb x i then Sp (identity_sp Qc g1) else ezero.
Definition totE (T : Z) (N : nat) (blocks : list (cblock opr)) (i : nat) : nat -> opr := accumulateF T N blocks (unit_init i).

(** ---- dense linear algebra on lists ---- *)
Definition dot (r c : list Qc) : Qc := fold_left Qcplus (map (fun xy => Qcmult (fst xy) (snd xy)) (combine r c)) g0.
Definition col (j : nat) (M : dmat) : list Qc := map (fun r => nth j r g0) M.
Definition ncols (M : dmat) : nat := length (hd [] M).
Definition mmul (A B : dmat) : dmat := map (fun r => map (fun j => dot r (col j B)) (seq 0 (ncols B))) A.
Definition mopp (A : dmat) : dmat := map (map Qcopp) A.
Fixpoint list_eqb (a b : list Qc) : bool :=
  match a, b with
  | [], [] => true
  | x :: a', y :: b' => Qc_eq_bool x y && list_eqb a' b'
  | _, _ => false
  end.
Fixpoint mat_eqb (A B : dmat) : bool :=
  match A, B with
  | [], [] => true
  | r :: A', s :: B' => list_eqb r s && mat_eqb A' B'
  | _, _ => false
  end.

Fixpoint find_pivot (c : nat) (rows : dmat) : option (list Qc * dmat) :=
  match rows with
  | [] => None
  | r :: rs => if Qc_eq_bool (nth c r g0) g0
               then match find_pivot c rs with Some (p, rest) => Some (p, r :: rest) | None => None end
               else Some (r, rs)
  end.
Definition sub_row (c : nat) (p r : list Qc) : list Qc :=
  let k := nth c r g0 in map (fun xy => Qcminus (fst xy) (Qcmult k (snd xy))) (combine r p).
Fixpoint gauss_jordan (n c : nat) (done todo : dmat) : option dmat :=
  match n with
  | O => Some done
  | S n' => match find_pivot c todo with
            | None => None
            | Some (p, rest) =>
                let p' := map (Qcmult (Qcinv (nth c p g0))) p in
                gauss_jordan n' (S c) (map (sub_row c p') done ++ [p']) (map (sub_row c p') rest)
            end
  end.
(** solve A X = B for a square A (n x n); the answer is returned only if it satisfies the equation *)
Definition msolve (A B : dmat) : option dmat :=
  let n := length A in
  match gauss_jordan n 0 [] (map (fun rs => fst rs ++ snd rs) (combine A B)) with
  | None => None
  | Some R => let X := map (skipn n) R in
              if (Nat.eqb (length A) (length B)) && mat_eqb (mmul A X) B then Some X else None
  end.

(** pack: block rows over [rows] (time inside), block columns over [cols] *)
Definition pack (T : Z) (rows cols : list nat) (f : nat -> nat -> dmat) : dmat :=
  flat_map (fun r => let blocks := map (f r) cols in
                     map (fun t => flat_map (fun Bk => nth t Bk []) blocks) (seq 0 (Z.to_nat T))) rows.
(** unpack the (u, z) block of a packed matrix whose block rows follow [rows] and block columns [cols] *)
Definition block_of (T : Z) (X : dmat) (ri ci : nat) : dmat :=
  let n := Z.to_nat T in map (fun r => firstn n (skipn (ci * n) r)) (firstn n (skipn (ri * n) X)).

Fixpoint index_of (x : nat) (l : list nat) : nat :=
  match l with [] => 0%nat | y :: l' => if Nat.eqb x y then 0%nat else S (index_of x l') end.

Record ge_result := { ge_GU : list (list dmat);      (* [u][z] *)
                      ge_out : list (list dmat) }.   (* [z][o] *)

Definition ge_HU (T : Z) (N : nat) (blocks : list (cblock opr)) (U Tg : list nat) : dmat :=
  let tu := map (totE T N blocks) U in
  pack T (seq 0 (length Tg)) (seq 0 (length U)) (fun a b => to_dense T (nth b tu (fun _ => ezero) (nth a Tg 0%nat))).
Definition ge_HZ (T : Z) (N : nat) (blocks : list (cblock opr)) (Zs Tg : list nat) : dmat :=
  let tz := map (totE T N blocks) Zs in
  pack T (seq 0 (length Tg)) (seq 0 (length Zs)) (fun a b => to_dense T (nth b tz (fun _ => ezero) (nth a Tg 0%nat))).

(** Block.solve_jacobian.  The last step is combine([U_Z, self]).jacobian: the model itself is ONE block of that outer DAG, so its
    Jacobians with respect to unknowns and exogenous inputs are accumulated symbolically (as for H_U, H_Z) and only then
    multiplied with the dense U_Z:  G[o][z] = sum_u J[o][u] @ G_U[u][z] + J[o][z]. *)
Definition ge_entry (T : Z) (tus : list (nat -> opr)) (gus : list dmat) (tz : nat -> opr) (o : nat) : opr :=
  eadd T (fold_left (fun acc p => eadd T acc (emul T (fst p o) (Dn (snd p)))) (combine tus gus) ezero) (tz o).

Definition ge_solveT (T : Z) (N : nat) (blocks : list (cblock opr)) (U Tg Zs outs : list nat) : option ge_result :=
  let HU := ge_HU T N blocks U Tg in
  let HZ := ge_HZ T N blocks Zs Tg in
  match msolve HU (mopp HZ) with
  | None => None
  | Some X =>
      let GU := map (fun ui => map (fun zi => block_of T X ui zi) (seq 0 (length Zs))) (seq 0 (length U)) in
      let tu := map (totE T N blocks) U in
      let res := map (fun zi =>
                   let tz := totE T N blocks (nth zi Zs 0%nat) in
                   let gus := map (fun row => nth zi row []) GU in
                   map (fun o => to_dense T (ge_entry T tu gus tz o)) outs) (seq 0 (length Zs)) in
      Some {| ge_GU := GU; ge_out := res |}
  end.

(** ---- interface for the correspondence check ---- *)
Definition sblk (outs ins : list nat) (J : list ((nat * nat) * list ((Z * Z) * Z))) : cblock opr :=
  {| c_outs := outs; c_ins := ins;
     c_J := fun o m => fold_left (fun acc e => if Nat.eqb (fst (fst e)) o && Nat.eqb (snd (fst e)) m
                                               then Sp (map (fun kx => (fst kx, gz (snd kx))) (snd e)) else acc) J ezero |}.
Definition gout (x : Qc) : Z * Z := (Qnum (this x), Zpos (Qden (this x))).
Definition run_geT (T : Z) (N : nat) blocks U Tg Zs outs : option (list (list (list (list (Z * Z))))) :=
  option_map (fun r => map (map (map (map gout))) (ge_out r)) (ge_solveT T N blocks U Tg Zs outs).

(** plain (partial-equilibrium) Jacobian of the DAG: CombinedBlock._jacobian's forward accumulation *)
Definition run_jacT (T : Z) (N : nat) blocks (Zs outs : list nat) : list (list (list (list (Z * Z)))) :=
  map (fun z => let tot := totE T N blocks z in map (fun o => map (map gout) (to_dense T (tot o))) outs) Zs.

(** ---- a SolvedBlock inside a model: its Jacobian is the inner general-equilibrium Jacobian with respect to its inputs.
     SolvedBlock._jacobian returns what combine([U_Z, self.block]).jacobian returns: G[o][z] = sum_u J[o][u] @ G_U[u][z] + J[o][z] in OPERATOR form --
     an inner output that no inner unknown affects keeps its sparse Jacobian (and is then composed exactly, without truncation, with sparse
     Jacobians of the outer model); only entries that involve the dense G_U are dense ---- *)
Definition solved_block (T : Z) (N : nat) (inner : list (cblock opr)) (U Tg ins outs : list nat) : option (cblock opr) :=
  match ge_solveT T N inner U Tg ins outs with
  | None => None
  | Some r => Some {| c_outs := outs; c_ins := ins;
                      c_J := fun o m => ge_entry T (map (totE T N inner) U) (map (fun row => nth (index_of m ins) row []) (ge_GU r)) (totE T N inner m) o |}
  end.
(** the nested model: blocks before the solved block, the solved block, blocks after it; with outer unknowns (general-equilibrium
    Jacobian) or without (plain Jacobian of the model) *)
Definition nested_jacobian (T : Z) (N : nat) (pre post inner : list (cblock opr)) (iU iTg iIns iOuts U Tg Zs outs : list nat)
  : option (list (list dmat)) :=
  match solved_block T N inner iU iTg iIns iOuts with
  | None => None
  | Some sb =>
      let blocks := pre ++ sb :: post in
      match U with
      | [] => Some (map (fun z => let tot := totE T N blocks z in map (fun o => to_dense T (tot o)) outs) Zs)
      | _ => option_map ge_out (ge_solveT T N blocks U Tg Zs outs)
      end
  end.
Definition run_nested T N pre post inner iU iTg iIns iOuts U Tg Zs outs : option (list (list (list (list (Z * Z))))) :=
  option_map (map (map (map (map gout)))) (nested_jacobian T N pre post inner iU iTg iIns iOuts U Tg Zs outs).
