(** Renaming the variables of a model assembled from simple blocks (Block.remap on the executable DAG model of Model/NLSolve.v):
    every name x is replaced by [pi x] in the blocks' argument lists, output names and expressions.  No proofs here. *)
From Coq Require Import ZArith QArith Qcanon Bool List Arith.
From SSJ Require Import Model.Sparse Model.SimpleBlk Model.SimpleBlkQ Model.Chain Model.GET Model.NLSolve.
Import ListNotations.

Fixpoint rename_expr (pi : nat -> nat) (e : @expr Qc) : @expr Qc :=
  match e with
  | EVar x => EVar (pi x) | ENum c => ENum c | EShift k e => EShift k (rename_expr pi e) | ESs e => ESs (rename_expr pi e)
  | ENeg e => ENeg (rename_expr pi e) | EAdd a b => EAdd (rename_expr pi a) (rename_expr pi b)
  | ESub a b => ESub (rename_expr pi a) (rename_expr pi b) | EMul a b => EMul (rename_expr pi a) (rename_expr pi b)
  | EDiv a b => EDiv (rename_expr pi a) (rename_expr pi b) | EPow a n => EPow (rename_expr pi a) n
  | EApp f df e => EApp f df (rename_expr pi e)
  end.
Definition rename_block (pi : nat -> nat) (b : sblock) : sblock :=
  {| sb_ins := map pi (sb_ins b); sb_outs := map (fun oe => (pi (fst oe), rename_expr pi (snd oe))) (sb_outs b) |}.
Definition rename_prog (pi : nat -> nat) (prog : list sblock) : list sblock := map (rename_block pi) prog.
(** a table / a family of paths over the new names agrees with one over the old names through [pi] *)
Definition tbl_renamed (pi : nat -> nat) (N : nat) (s s' : tbl) : Prop := forall x, (x < N)%nat -> qlookup s' (pi x) = qlookup s x.
Definition paths_renamed (pi : nat -> nat) (N : nat) (P P' : paths) : Prop := forall x, (x < N)%nat -> nth (pi x) P' [] = nth x P [].
(** [pi] is injective on the old names and maps them below N' *)
Definition renaming (pi : nat -> nat) (N N' : nat) : Prop :=
  (forall x, (x < N)%nat -> (pi x < N')%nat) /\ (forall x y, (x < N)%nat -> (y < N)%nat -> pi x = pi y -> x = y).
(** every name a program mentions is below N *)
Definition names_below (N : nat) (prog : list sblock) : Prop :=
  forall b, In b prog -> (forall x, In x (sb_ins b) -> (x < N)%nat) /\
                          (forall oe, In oe (sb_outs b) -> (fst oe < N)%nat /\ forall x, In x (evars (snd oe)) -> (x < N)%nat).
