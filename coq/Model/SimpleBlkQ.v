(** Rational (Qc) instance of the simple-block model, used by the correspondence check for programs with division and
    powers; results are printed as (numerator, denominator) pairs. *)
From Coq Require Import ZArith QArith Qcanon Bool List.
From SSJ Require Import Model.Sparse Model.SimpleBlk.
Import ListNotations.
Open Scope Z_scope.

Definition q0 := Q2Qc 0.
Definition q1 := Q2Qc 1.
Definition qn (a : Z) (b : positive) : Qc := Q2Qc (a # b).
Definition qeval_ss := eval_ss Qc q1 Qcplus Qcmult Qcminus Qcopp Qcdiv.
Definition qeval_td := eval_td Qc q1 Qcplus Qcmult Qcminus Qcopp Qcdiv.
Definition qjac_entry := jac_entry Qc q0 q1 Qcplus Qcmult Qcminus Qcopp Qcdiv (fun x => Qc_eq_bool x q0).
Definition qout (x : Qc) : Z * Z := (Qnum (this x), Zpos (Qden (this x))).
Definition qlookup (l : list Qc) (x : nat) : Qc := nth x l q0.
Definition qpath_env (paths : list (list Qc)) (ss : list Qc) (x : nat) (t : Z) : Qc :=
  if t <? 0 then q0 else nth (Z.to_nat t) (nth x paths []) (qlookup ss x).
Definition run_block_q (nin : nat) (ss ssi : list Qc) (paths : list (list Qc)) (T : Z) (outs : list (@expr Qc)) :=
  (map (fun e => qout (qeval_ss (qlookup ss) e)) outs,
   map (fun e => map (fun x => option_map (map (fun kx => (fst kx, qout (snd kx)))) (qjac_entry (qlookup ss) x e)) (seq 0 nin)) outs,
   map (fun e => map (fun t => qout (qeval_td (Some T) (qlookup ss) (qlookup ssi) (qpath_env paths ss) e (Z.of_nat t))) (seq 0 (Z.to_nat T))) outs).

(** the derivative AccumulatedDerivative.apply uses for a generic function: the symmetric difference quotient with step h (1e-5 by default) *)
Definition symq (h : Qc) (f : Qc -> Qc) : Qc -> Qc := fun x => Qcdiv (Qcminus (f (Qcplus x h)) (f (Qcminus x h))) (Qcmult (Qcplus q1 q1) h).
