(** Model of the simple-block DSL (blocks/simple_block.py, support/simple_displacement.py) for the ring
    fragment: inputs x, numbers (python int/float literals and "ignored" scalars have the same semantics),
    time shifts e(k) incl. nested shifts, steady-state references e.ss, unary minus, plus, minus, times.
    Three interpreters: steady state (Ignore classes), finite time path (Displace with both paddings), and the
    derivative accumulator (AccumulatedDerivative with its dict semantics and sparsity threshold).
    Also: division (every scalar / accumulator combination of __truediv__ / __rtruediv__) and powers with a positive
    integer exponent (__pow__ with a scalar), and applied scalar functions e.apply(f) with the derivative the accumulator uses supplied next
    to f.  Real exponents, scalar ** expr and expr ** expr are outside this model (oracle only). *)
From Coq Require Import ZArith Bool List.
From SSJ Require Import Lib.Sums Model.Shift Model.Sparse Gen.MultiplyBasis Gen.ComputeL.
Import ListNotations.
Open Scope Z_scope.

Section SimpleBlk.
Variable R : Type.
Variables (rO rI : R) (radd rmul rsub : R -> R -> R) (ropp : R -> R) (rdiv : R -> R -> R).
Variable tiny : R -> bool.

Inductive expr :=
| EVar (x : nat) | ENum (c : R) | EShift (k : Z) (e : expr) | ESs (e : expr)
| ENeg (e : expr) | EAdd (a b : expr) | ESub (a b : expr) | EMul (a b : expr)
| EDiv (a b : expr) | EPow (a : expr) (n : nat)      (* EPow a n  is  a ** (n+1) *)
| EApp (f df : R -> R) (e : expr).                     (* e.apply(f): f applied pointwise; df is the derivative the accumulator uses (1/x for np.log, otherwise the symmetric difference quotient of f) *)

Fixpoint rpow (x : R) (n : nat) : R := match n with O => rI | S n' => rmul x (rpow x n') end.
Fixpoint nat_r (n : nat) : R := match n with O => rO | S n' => radd rI (nat_r n') end.

(** steady-state evaluation (every input wrapped by ignore(): shifts and .ss are no-ops) *)
Fixpoint eval_ss (ss : nat -> R) (e : expr) : R :=
  match e with
  | EVar x => ss x | ENum c => c | EShift _ e => eval_ss ss e | ESs e => eval_ss ss e
  | ENeg e => ropp (eval_ss ss e) | EAdd a b => radd (eval_ss ss a) (eval_ss ss b)
  | ESub a b => rsub (eval_ss ss a) (eval_ss ss b) | EMul a b => rmul (eval_ss ss a) (eval_ss ss b)
  | EDiv a b => rdiv (eval_ss ss a) (eval_ss ss b) | EPow a n => rpow (eval_ss ss a) (S n)
  | EApp f _ e => f (eval_ss ss e)
  end.

(** value of an expression at the INITIAL steady state, as carried by Displace.ss_initial: inputs at their initial
    values, but .ss sub-terms are plain numbers taken from the (terminal) steady state *)
Fixpoint eval_ssi (ss ssi : nat -> R) (e : expr) : R :=
  match e with
  | EVar x => ssi x | ENum c => c | EShift _ e => eval_ssi ss ssi e | ESs e => eval_ss ss e
  | ENeg e => ropp (eval_ssi ss ssi e) | EAdd a b => radd (eval_ssi ss ssi a) (eval_ssi ss ssi b)
  | ESub a b => rsub (eval_ssi ss ssi a) (eval_ssi ss ssi b) | EMul a b => rmul (eval_ssi ss ssi a) (eval_ssi ss ssi b)
  | EDiv a b => rdiv (eval_ssi ss ssi a) (eval_ssi ss ssi b) | EPow a n => rpow (eval_ssi ss ssi a) (S n)
  | EApp f _ e => f (eval_ssi ss ssi e)
  end.

(** time-path evaluation: Displace.__call__(k) pads with the expression's initial steady-state value before
    date 0 and with its steady-state value from date T on ([T = None]: one-sided infinite sequences, S1) *)
Fixpoint eval_td (T : option Z) (ss ssi : nat -> R) (env : nat -> Z -> R) (e : expr) (t : Z) : R :=
  match e with
  | EVar x => env x t
  | ENum c => c
  | EShift k e =>
      if t + k <? 0 then eval_ssi ss ssi e
      else match T with
           | Some T' => if T' <=? t + k then eval_ss ss e else eval_td T ss ssi env e (t + k)
           | None => eval_td T ss ssi env e (t + k)
           end
  | ESs e => eval_ss ss e
  | ENeg e => ropp (eval_td T ss ssi env e t)
  | EAdd a b => radd (eval_td T ss ssi env a t) (eval_td T ss ssi env b t)
  | ESub a b => rsub (eval_td T ss ssi env a t) (eval_td T ss ssi env b t)
  | EMul a b => rmul (eval_td T ss ssi env a t) (eval_td T ss ssi env b t)
  | EDiv a b => rdiv (eval_td T ss ssi env a t) (eval_td T ss ssi env b t)
  | EPow a n => rpow (eval_td T ss ssi env a t) (S n)
  | EApp f _ e => f (eval_td T ss ssi env e t)
  end.

(** the formal (dual-number) derivative of the infinite time-path map at the steady state with respect to
    input x0 at date s: textbook rules, shifts commute with differentiation, padding is constant *)
Fixpoint deriv (ss : nat -> R) (x0 : nat) (s : Z) (e : expr) (t : Z) : R :=
  match e with
  | EVar x => if Nat.eqb x x0 && (t =? s) then rI else rO
  | ENum _ => rO
  | EShift k e => if t + k <? 0 then rO else deriv ss x0 s e (t + k)
  | ESs _ => rO
  | ENeg e => ropp (deriv ss x0 s e t)
  | EAdd a b => radd (deriv ss x0 s a t) (deriv ss x0 s b t)
  | ESub a b => rsub (deriv ss x0 s a t) (deriv ss x0 s b t)
  | EMul a b => radd (rmul (deriv ss x0 s a t) (eval_ss ss b)) (rmul (eval_ss ss a) (deriv ss x0 s b t))
  | EDiv a b => rdiv (rsub (rmul (deriv ss x0 s a t) (eval_ss ss b)) (rmul (eval_ss ss a) (deriv ss x0 s b t)))
                     (rmul (eval_ss ss b) (eval_ss ss b))                                   (* quotient rule *)
  | EPow a n => rmul (rmul (nat_r (S n)) (rpow (eval_ss ss a) n)) (deriv ss x0 s a t)   (* power rule *)
  | EApp _ df e => rmul (df (eval_ss ss e)) (deriv ss x0 s e t)                          (* chain rule with the supplied derivative *)
  end.

(** the accumulator: values are Ignore constants or AccumulatedDerivative(elements, f_value) *)
Inductive aval := AConst (c : R) | AAcc (el : sp R) (f : R).

Definition el_map (g : R -> R) (Sp : sp R) : sp R := map (fun kx => (fst kx, g (snd kx))) Sp.
(** elements[im] -= x (delete when tiny); elements[im] = -x when absent *)
Definition sp_sub_acc (A B : sp R) : sp R :=
  fold_left (fun E kx => acc R radd tiny true (fst kx) (ropp (snd kx)) E) B A.
(** AccumulatedDerivative.__call__(i): shifted keys; equal keys overwrite (dict(zip())) or accumulate *)
Definition shift_keys (i : Z) (Sp : sp R) : sp R :=
  if acc_call_overwrites
  then fold_left (fun E kx => let k := acc_call_key i (fst kx) in
                              if existsb (fun ky => keyeqb k (fst ky)) E
                              then map (fun ky => if keyeqb k (fst ky) then (fst ky, snd kx) else ky) E
                              else E ++ [(k, snd kx)]) Sp []
  else fold_left (fun E kx => acc R radd tiny false (acc_call_key i (fst kx)) (snd kx) E) Sp [].

Definition a_value (a : aval) : R := match a with AConst c => c | AAcc _ f => f end.

Fixpoint accum (ss : nat -> R) (x0 : nat) (e : expr) : aval :=
  match e with
  | EVar x => if Nat.eqb x x0 then AAcc [((0, 0), rI)] (ss x) else AConst (ss x)
  | ENum c => AConst c
  | EShift k e => match accum ss x0 e with AConst c => AConst c | AAcc Sp f => AAcc (shift_keys k Sp) f end
  | ESs e => AConst (a_value (accum ss x0 e))
  | ENeg e => match accum ss x0 e with AConst c => AConst (ropp c) | AAcc Sp f => AAcc (el_map ropp Sp) (ropp f) end
  | EAdd a b =>
      match accum ss x0 a, accum ss x0 b with
      | AConst c, AConst d => AConst (radd c d)
      | AAcc Sp f, AConst d => AAcc Sp (radd f d)
      | AConst c, AAcc Sp f => AAcc Sp (radd c f)
      | AAcc Sp f, AAcc Sp' f' => AAcc (sp_add R radd tiny Sp Sp') (radd f f')
      end
  | ESub a b =>
      match accum ss x0 a, accum ss x0 b with
      | AConst c, AConst d => AConst (rsub c d)
      | AAcc Sp f, AConst d => AAcc Sp (rsub f d)
      | AConst c, AAcc Sp f => AAcc (el_map ropp Sp) (rsub c f)
      | AAcc Sp f, AAcc Sp' f' => AAcc (sp_sub_acc Sp Sp') (rsub f f')
      end
  | EMul a b =>
      match accum ss x0 a, accum ss x0 b with
      | AConst c, AConst d => AConst (rmul c d)
      | AAcc Sp f, AConst d => AAcc (el_map (fun x => rmul x d) Sp) (rmul f d)
      | AConst c, AAcc Sp f => AAcc (el_map (fun x => rmul c x) Sp) (rmul c f)
      | AAcc Sp f, AAcc Sp' f' =>
          AAcc (sp_add R radd tiny (el_map (fun x => rmul x f') Sp) (el_map (fun x => rmul x f) Sp')) (rmul f f')
      end
  | EDiv a b =>
      match accum ss x0 a, accum ss x0 b with
      | AConst c, AConst d => AConst (rdiv c d)
      | AAcc Sp f, AConst d => AAcc (el_map (fun x => rdiv x d) Sp) (rdiv f d)                 (* __truediv__, scalar *)
      | AConst c, AAcc Sp f => AAcc (el_map (fun x => rmul (rdiv (ropp c) (rmul f f)) x) Sp) (rdiv c f)     (* __rtruediv__, scalar *)
      | AAcc Sp f, AAcc Sp' f' =>                                  (* ((g * self - f * other) / g ** 2).elements *)
          AAcc (el_map (fun x => rdiv x (rmul f' f')) (sp_sub_acc (el_map (fun x => rmul f' x) Sp) (el_map (fun x => rmul f x) Sp'))) (rdiv f f')
      end
  | EPow a n =>
      match accum ss x0 a with
      | AConst c => AConst (rpow c (S n))
      | AAcc Sp f => AAcc (el_map (fun x => rmul (rmul (nat_r (S n)) (rpow f n)) x) Sp) (rpow f (S n))
      end
  | EApp g dg e =>                                       (* Ignore.apply: f(value); AccumulatedDerivative.apply: elements scaled by the derivative at f_value *)
      match accum ss x0 e with
      | AConst c => AConst (g c)
      | AAcc Sp f => AAcc (el_map (fun x => rmul (dg f) x) Sp) (g f)
      end
  end.

(** SimpleBlock._jacobian keeps the (o, i) entry iff the accumulator is an AccumulatedDerivative with a
    non-tiny coefficient *)
Definition jac_entry (ss : nat -> R) (x0 : nat) (e : expr) : option (sp R) :=
  match accum ss x0 e with
  | AConst _ => None
  | AAcc Sp _ => if forallb (fun kx => tiny (snd kx)) Sp then None else Some Sp
  end.
End SimpleBlk.

Arguments EVar {R}. Arguments ENum {R}. Arguments EShift {R}. Arguments ESs {R}. Arguments ENeg {R}.
Arguments EAdd {R}. Arguments ESub {R}. Arguments EMul {R}. Arguments EDiv {R}. Arguments EPow {R}. Arguments EApp {R}.
Arguments AConst {R}. Arguments AAcc {R}.

(** Z instance for the correspondence check *)
Definition zeval_ss := eval_ss Z 1 Z.add Z.mul Z.sub Z.opp Z.div.
Definition zeval_td := eval_td Z 1 Z.add Z.mul Z.sub Z.opp Z.div.
Definition zjac := jac_entry Z 0 1 Z.add Z.mul Z.sub Z.opp Z.div (fun x => x =? 0).
Definition lookup_nat (l : list Z) (x : nat) : Z := nth x l 0.
Definition path_env (paths : list (list Z)) (ss : list Z) (x : nat) (t : Z) : Z :=
  if t <? 0 then 0 else nth (Z.to_nat t) (nth x paths []) (lookup_nat ss x).
(** one block: outputs = list of expressions; returns (steady state values, jacobian entries per (output, input), paths) *)
Definition run_block (nin : nat) (ss ssi : list Z) (paths : list (list Z)) (T : Z) (outs : list (@expr Z)) :=
  (map (zeval_ss (lookup_nat ss)) outs,
   map (fun e => map (fun x => zjac (lookup_nat ss) x e) (seq 0 nin)) outs,
   map (fun e => map (fun t => zeval_td (Some T) (lookup_nat ss) (lookup_nat ssi) (path_env paths ss) e (Z.of_nat t)) (seq 0 (Z.to_nat T))) outs).
