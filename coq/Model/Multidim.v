(** Index arithmetic of utilities/multidim.py: multiply_ith_dimension(Pi, i, X) and batch_multiply_ith_dimension(P, i, X) for arrays of ANY
    number of dimensions.  An n-dimensional array is a function of its logical multi-index (numpy's swapaxes returns a view and reshape of a
    non-contiguous view copies in logical C order, so only logical indices matter); reshape((s0, -1)) flattens the trailing indices in
    row-major order.  The sequence of operations modelled here is compared with the source by the translator (facts multidim_ops in Gen/HetFacts.v).  No proofs here. *)
From Coq Require Import List Arith.
Import ListNotations.

Definition idx := list nat.
Definition prod (sh : list nat) : nat := fold_right Nat.mul 1 sh.
(** row-major flattening of a multi-index with respect to a shape, and its inverse *)
Fixpoint flat (sh : list nat) (ix : idx) : nat :=
  match sh, ix with
  | _ :: sh', k :: ix' => k * prod sh' + flat sh' ix'
  | _, _ => 0
  end.
Fixpoint unflat (sh : list nat) (n : nat) : idx :=
  match sh with
  | [] => []
  | _ :: sh' => (n / prod sh') :: unflat sh' (n mod prod sh')
  end.
(** replace position j *)
Fixpoint setn {A} (j : nat) (x : A) (l : list A) : list A :=
  match l, j with
  | [], _ => []
  | _ :: r, O => x :: r
  | y :: r, S j' => y :: setn j' x r
  end.
(** swapaxes(0, i) on a multi-index (or a shape) *)
Definition swap0 {A} (d : A) (i : nat) (l : list A) : list A :=
  match i, l with
  | O, _ => l
  | S j, x0 :: r => nth j r d :: setn j x0 r
  | _, [] => []
  end.

Section Ops.
Variable R : Type.
Variables (r0 : R) (radd rmul : R -> R -> R).
Fixpoint rsum (n : nat) (f : nat -> R) : R := match n with O => r0 | S n' => radd (rsum n' f) (f n') end.

Definition arr := idx -> R.
(** X.swapaxes(0, i) *)
Definition swapaxes0 (i : nat) (X : arr) : arr := fun ix => X (swap0 0 i ix).
(** X.reshape((shape[0], -1)) as a matrix, for X of shape sh *)
Definition to2d (sh : list nat) (X : arr) : nat -> nat -> R := fun r c => X (r :: unflat (tl sh) c).
(** M.reshape((rows, sh[1:]...)) back to an array *)
Definition from2d (sh : list nat) (M : nat -> nat -> R) : arr := fun ix => match ix with z :: rest => M z (flat (tl sh) rest) | [] => r0 end.

(** multiply_ith_dimension:  X = X.swapaxes(0, i); shape = X.shape; X = X.reshape((shape[0], -1)); X = Pi @ X;
                            X = X.reshape((Pi.shape[0], shape[1:]...)); return X.swapaxes(0, i) *)
Definition multiply_ith (sh : list nat) (Pi : nat -> nat -> R) (i : nat) (X : arr) : arr :=
  let sh1 := swap0 0 i sh in
  let X2 := to2d sh1 (swapaxes0 i X) in
  let X3 := fun z c => rsum (hd 0 sh1) (fun k => rmul (Pi z k) (X2 k c)) in
  swapaxes0 i (from2d sh1 X3).

(** batch_multiply_ith_dimension: P has shape (D, sh...);  P = P.swapaxes(1, 1 + i); X = X.swapaxes(0, i); P = P.reshape((D, sh1[0], -1));
    X = X.reshape((sh1[0], -1)); X = einsum('ijb,jb->ib', P, X); X = X.reshape(D, sh1[1:]...); return X.swapaxes(0, i) *)
Definition batch_multiply_ith (sh : list nat) (P : nat -> arr) (i : nat) (X : arr) : arr :=
  let sh1 := swap0 0 i sh in
  let P2 := fun d => to2d sh1 (swapaxes0 i (P d)) in
  let X2 := to2d sh1 (swapaxes0 i X) in
  let X3 := fun d b => rsum (hd 0 sh1) (fun j => rmul (P2 d j b) (X2 j b)) in
  swapaxes0 i (from2d sh1 X3).
End Ops.

Definition in_range (sh : list nat) (ix : idx) : Prop := length ix = length sh /\ forall k, k < length sh -> nth k ix 0 < nth k sh 0.
