(** Generic scatter/gather lottery on a flattened state space and its 2-D instance with the TRANSLATED corner weights of
    forward_policy_2d / expectation_policy_2d / forward_policy_shock_2d (het_compiled.py).  A source point s in [0, n)
    sends weight w to flat target t for every corner (t, w) of [corners s]; the state (ix, iy) is flattened as ix*ny + iy. *)
From Coq Require Import ZArith Bool List.
From SSJ Require Import Lib.Sums Gen.Kernels.
Import ListNotations.
Open Scope Z_scope.

Notation zs := (zsum_range 0 Z.add).
Notation ls := (lsum 0 Z.add).

Definition gfwd (n : Z) (corners : Z -> list (Z * Z)) (t : Z) : Z :=
  zs 0 n (fun s => ls (fun c => if fst c =? t then snd c else 0) (corners s)).
Definition gexp (corners : Z -> list (Z * Z)) (X : Z -> Z) (s : Z) : Z := ls (fun c => snd c * X (fst c)) (corners s).

(** one exogenous state of the 2-D lottery: the four corners of source s, weights already multiplied by the mass d *)
Definition corners2d (ny : Z) (xi yi : Z -> Z) (w : Z -> Z -> Z -> Z) (s : Z) : list (Z * Z) :=
  [ (xi s * ny + yi s, w 0 0 s); ((xi s + 1) * ny + yi s, w 1 0 s); (xi s * ny + (yi s + 1), w 0 1 s); ((xi s + 1) * ny + (yi s + 1), w 1 1 s) ].
Definition fwd2d (nx ny : Z) (xi yi D x y : Z -> Z) : Z -> Z :=
  gfwd (nx * ny) (corners2d ny xi yi (fun ox oy s => fwd2d_w ox oy (D s) (x s) (y s))).
Definition shock2d (nx ny : Z) (xi yi D x y dx dy : Z -> Z) : Z -> Z :=
  gfwd (nx * ny) (corners2d ny xi yi (fun ox oy s => shock2d_w ox oy (D s) (x s) (y s) (dx s) (dy s))).
Definition exp2d_row (ny : Z) (xi yi x y X : Z -> Z) (s : Z) : Z :=
  exp2d (x s) (y s) (X (xi s * ny + yi s)) (X ((xi s + 1) * ny + yi s)) (X (xi s * ny + (yi s + 1))) (X ((xi s + 1) * ny + (yi s + 1))).

(** executable: tables over flat indices *)
Definition tabz (n : Z) (f : Z -> Z) : list Z := map (fun k => f (Z.of_nat k)) (seq 0 (Z.to_nat n)).
Definition lstz (l : list Z) (k : Z) : Z := if k <? 0 then 0 else nth (Z.to_nat k) l 0.
Definition run_2d (nx ny : Z) (xi yi D x y X dx dy : list Z) :=
  (tabz (nx * ny) (fwd2d nx ny (lstz xi) (lstz yi) (lstz D) (lstz x) (lstz y)),
   tabz (nx * ny) (exp2d_row ny (lstz xi) (lstz yi) (lstz x) (lstz y) (lstz X)),
   tabz (nx * ny) (shock2d nx ny (lstz xi) (lstz yi) (lstz D) (lstz x) (lstz y) (lstz dx) (lstz dy))).
