(** Model of the Rouwenhorst recursion of utilities/discretize.py (markov_rouwenhorst) over any commutative ring that has a
    half (an element h with h + h = 1): Pi_2 = [[p, 1-p], [1-p, p]]; for n = 3..N
      Pi_n = p [Pi 0; 0 0] + (1-p) [0 Pi; 0 0] + (1-p) [0 0; Pi 0] + p [0 0; 0 Pi],  rows 1..n-2 halved.
    [rw m] is the (m+2) x (m+2) matrix as a function on Z x Z that is zero outside the index range. *)
From Coq Require Import ZArith Bool List.
Import ListNotations.
Open Scope Z_scope.

Definition inr (n i : Z) : bool := (0 <=? i) && (i <? n).

Section Rouwenhorst.
Variable R : Type.
Variables (rO rI : R) (radd rmul rsub : R -> R -> R).
Variables (p h : R).
Infix "+r" := radd (at level 50, left associativity).
Infix "*r" := rmul (at level 40, left associativity).

Fixpoint rw (m : nat) (i j : Z) : R :=
  match m with
  | O => if inr 2 i && inr 2 j then (if i =? j then p else rsub rI p) else rO
  | S m' =>
      let n := Z.of_nat m' + 2 in
      if inr (n + 1) i && inr (n + 1) j then
        let raw := p *r rw m' i j +r rsub rI p *r rw m' i (j - 1) +r rsub rI p *r rw m' (i - 1) j +r p *r rw m' (i - 1) (j - 1) in
        if (0 <? i) && (i <? n) then h *r raw else raw
      else rO
  end.

Definition rw_matrix (N : nat) : list (list R) :=   (* N >= 2 states *)
  map (fun i => map (fun j => rw (N - 2) (Z.of_nat i) (Z.of_nat j)) (seq 0 N)) (seq 0 N).
End Rouwenhorst.
