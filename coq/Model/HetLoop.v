(** Models of the HetBlock loops (blocks/het_block.py): backward_nonlinear, forward_nonlinear, the steady-state
    iterations with their "check every 10th iteration" tests, and J_from_F.  The household's backward step,
    the transitions and the closeness tests are abstract. *)
From Coq Require Import List Arith ZArith Bool.
Import ListNotations.

Section Loops.
Variables I B Dist : Type.
Variable bstep : I -> B -> B.               (* one backward step: date-t inputs and the expectation of date t+1's backward variables *)
Variable expect : B -> B.                   (* expectation through the exogenous transition built from the SAME (date t+1) pass *)
Variable exog : B -> Dist -> Dist.          (* date-t exogenous transition (built from the date-t backward pass) *)
Variable endog : B -> Dist -> Dist.         (* date-t policy lottery *)

(** for t in reversed(range(T)): backdict = step(inputs[t], E(backdict)); record   (fold_right visits the last date first) *)
Definition backward_step (inputs : nat -> I) (t : nat) (st : B * list B) : B * list B :=
  let b := bstep (inputs t) (expect (fst st)) in (b, b :: snd st).
Definition backward_nonlinear (T : nat) (inputs : nat -> I) (ss : B) : list B :=
  snd (fold_right (backward_step inputs) (ss, []) (seq 0 T)).

(** Dbeg_path[0] = Dbeg; for t: D_path[t] = exog_t(Dbeg); Dbeg = endog_t(D_path[t]); Dbeg_path[t+1] = Dbeg *)
Fixpoint forward_nonlinear (paths : list B) (Dbeg : Dist) : list (Dist * Dist) :=
  match paths with
  | [] => []
  | b :: rest => let D := exog b Dbeg in (Dbeg, D) :: forward_nonlinear rest (endog b D)
  end.
End Loops.

(** steady-state iterations: the convergence test is only evaluated when it mod 10 = r (r = 1 backward, 0 forward) *)
Section SsLoop.
Variable S : Type.
Variable step : S -> S.
Variable close : S -> S -> bool.
Fixpoint ss_iter (r : nat) (fuel it : nat) (old cur : S) : option (S * S * S) :=   (* (compared-with, previous iterate, returned) *)
  match fuel with
  | O => None
  | Datatypes.S f => let new := step cur in
             if Nat.eqb (it mod 10) r && close new old then Some (old, cur, new) else ss_iter r f (Datatypes.S it) new new
  end.
End SsLoop.

(** J_from_F: J = F.copy(); for t in 1..T-1: J[1:, t] += J[:-1, t-1] *)
Fixpoint J_from_F (F : nat -> nat -> Z) (t s : nat) {struct s} : Z :=
  match s with
  | O => F t 0
  | S s' => match t with O => F 0 s | S t' => (F t s + J_from_F F t' s')%Z end
  end.
Fixpoint ksum (n : nat) (f : nat -> Z) : Z := match n with O => 0%Z | S n' => (f O + ksum n' (fun k => f (S k)))%Z end.
Definition lmat (L : list (list Z)) (t s : nat) : Z := nth s (nth t L []) 0%Z.
Definition run_J (T : nat) (L : list (list Z)) : list (list Z) := map (fun t => map (fun s => J_from_F (lmat L) t s) (seq 0 T)) (seq 0 T).
