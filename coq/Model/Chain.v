(** Abstract models for the DAG chain rule (CombinedBlock._jacobian), the general-equilibrium solve
    (Block.solve_jacobian / solve_impulse_linear), nested solved blocks and the Newton loop of
    Block.solve_impulse_nonlinear.  Operators form a (non-commutative) ring [E]; names are nat. *)
From Coq Require Import List Arith Bool.
Import ListNotations.

Section Chain.
Variable E : Type.
Variables (e0 : E) (eadd emul : E -> E -> E).

(** a block in evaluation order: its outputs, the middle names its Jacobian refers to, and J o m *)
Record cblock := { c_outs : list nat; c_ins : list nat; c_J : nat -> nat -> E }.

Definition esum (f : nat -> E) (l : list nat) : E := fold_left (fun s m => eadd s (f m)) l e0.
Definition inb (x : nat) (l : list nat) : bool := existsb (Nat.eqb x) l.

(** total_Js.update(J @ total_Js): new rows for the block's outputs, every other row untouched *)
Definition acc_step (total : nat -> E) (b : cblock) : nat -> E :=
  fun o => if inb o (c_outs b) then esum (fun m => emul (c_J b o m) (total m)) (c_ins b) else total o.
Definition accumulate (blocks : list cblock) (init : nat -> E) : nat -> E := fold_left acc_step blocks init.
End Chain.

(** Newton loop of solve_impulse_nonlinear: results = F(U); if ok(results): break; else U = upd U results; else raise *)
Section Newton.
Variables U R : Type.
Variable F : U -> R.
Variable ok : R -> bool.
Variable upd : U -> R -> U.
Fixpoint newton_loop (fuel : nat) (u : U) : option (U * R) :=
  match fuel with
  | O => None
  | S k => let r := F u in if ok r then Some (u, r) else newton_loop k (upd u r)
  end.
End Newton.
