(** Executable model of utilities/ordered_set.py.  An OrderedSet is its dict [d] (keys only): a
    duplicate-free list in insertion order.  Operands [t] are arbitrary iterables with len/contains:
    lists that may contain repeated elements.  Names are integers.  No proofs here. *)
From Coq Require Import ZArith Bool List.
Import ListNotations.
Open Scope Z_scope.

Definition mem (x : Z) (l : list Z) : bool := existsb (Z.eqb x) l.
Definition add (x : Z) (s : list Z) : list Z := if mem x s then s else s ++ [x].      (* self.d[x] = None *)
Definition update (s t : list Z) : list Z := fold_left (fun acc k => add k acc) t s.
Definition of_list (l : list Z) : list Z := update [] l.                                (* OrderedSet(members) *)
Definition difference (s t : list Z) : list Z := filter (fun k => negb (mem k t)) s.
Definition intersection (s t : list Z) : list Z := filter (fun k => mem k t) s.
Definition union (s t : list Z) : list Z := update s t.                                 (* self.copy().update(s) *)
Definition symmetric_difference (s t : list Z) : list Z :=
  fold_left (fun d k => if mem k s then d else add k d) t (difference s t).
Definition isdisjoint (s t : list Z) : bool := (length (intersection s t) =? 0)%nat.
Definition issubset (s t : list Z) : bool := (length (difference s t) =? 0)%nat.
Definition issuperset (s t : list Z) : bool := forallb (fun k => mem k s) t.
Definition le := issubset.
Definition ge := issuperset.
Definition lt (s t : list Z) : bool := issubset s t && negb (issuperset s t).
Definition gt (s t : list Z) : bool := issuperset s t && negb (issubset s t).
(** reflected operators: the left operand [t] is not an OrderedSet *)
Definition ror (t s : list Z) : list Z := union (of_list t) s.
Definition rand (t s : list Z) : list Z := intersection (of_list t) s.
Definition rsub (t s : list Z) : list Z := difference (of_list t) s.
Definition rxor (t s : list Z) : list Z := symmetric_difference (of_list t) s.
Definition discard (k : Z) (s : list Z) : list Z := filter (fun x => negb (x =? k)) s.
Definition oeq (s t : list Z) : bool := if list_eq_dec Z.eq_dec s t then true else false.

Fixpoint index_of (k : Z) (l : list Z) : Z :=
  match l with [] => 0 | x :: r => if x =? k then 0 else 1 + index_of k r end.

(** operations as a state machine on the receiver; [res] is what the call returns *)
Inductive oop :=
| OUnion (t : list Z) | OInter (t : list Z) | ODiff (t : list Z) | OXor (t : list Z)        (* | & - ^ *)
| ORor (t : list Z) | ORand (t : list Z) | ORsub (t : list Z) | ORxor (t : list Z)          (* reflected *)
| OIor (t : list Z) | OIand (t : list Z) | OIsub (t : list Z) | OIxor (t : list Z)          (* |= &= -= ^= *)
| OLe (t : list Z) | OLt (t : list Z) | OGe (t : list Z) | OGt (t : list Z)
| OIsdisjoint (t : list Z) | OAdd (k : Z) | ODiscard (k : Z) | ORemove (k : Z) | OPop | OUpdate (t : list Z)
| OContains (k : Z) | OLen | OCopy | OIndex (k : Z) | OReversed.

Inductive ores := RSet (s : list Z) | RBool (b : bool) | RInt (n : Z) | RErr | RNone.

Definition ostep (s : list Z) (o : oop) : list Z * ores :=
  match o with
  | OUnion t => (s, RSet (union s t)) | OInter t => (s, RSet (intersection s t))
  | ODiff t => (s, RSet (difference s t)) | OXor t => (s, RSet (symmetric_difference s t))
  | ORor t => (s, RSet (ror t s)) | ORand t => (s, RSet (rand t s))
  | ORsub t => (s, RSet (rsub t s)) | ORxor t => (s, RSet (rxor t s))
  | OIor t => let r := update s t in (r, RSet r)
  | OIand t => let r := intersection s t in (r, RSet r)
  | OIsub t => let r := difference s t in (r, RSet r)
  | OIxor t => let r := symmetric_difference s t in (r, RSet r)
  | OLe t => (s, RBool (le s t)) | OLt t => (s, RBool (lt s t))
  | OGe t => (s, RBool (ge s t)) | OGt t => (s, RBool (gt s t))
  | OIsdisjoint t => (s, RBool (isdisjoint s t))
  | OAdd k => (add k s, RNone)
  | ODiscard k => (discard k s, RNone)
  | ORemove k => if mem k s then (discard k s, RNone) else (s, RErr)
  | OPop => match rev s with [] => (s, RErr) | k :: r => (rev r, RInt k) end
  | OUpdate t => let r := update s t in (r, RSet r)
  | OContains k => (s, RBool (mem k s))
  | OLen => (s, RInt (Z.of_nat (length s)))
  | OCopy => (s, RSet s)
  | OIndex k => if mem k s then (s, RInt (index_of k s)) else (s, RErr)
  | OReversed => (s, RSet (rev s))
  end.

(** run a history; returns the final receiver and every result *)
Fixpoint orun (s : list Z) (ops : list oop) : list Z * list ores :=
  match ops with
  | [] => (s, [])
  | o :: r => let '(s', x) := ostep s o in let '(s'', xs) := orun s' r in (s'', x :: xs)
  end.
