(** Several independent exogenous Markov dimensions versus their Kronecker product (het_block.py make_exog_law_of_motion:
    CombinedTransition([Markov(Pi_k, k)]) applies the matrices dimension by dimension, utilities/multidim.py) on a state array
    D[z1, z2] (any further dimensions are carried pointwise), versus one Markov matrix np.kron(Pi1, Pi2) on the flattened index
    z1 * n2 + z2.  Integer entries (polynomial identities: valid in every commutative ring).  No proofs here. *)
From Coq Require Import ZArith Bool List.
From SSJ Require Import Lib.Sums Model.Transitions.
Import ListNotations.
Open Scope Z_scope.

(** np.kron(A, B)[i*n2 + k, j*n2 + l] = A[i, j] * B[k, l] *)
Definition kron (n2 : Z) (A B : Z -> Z -> Z) : Z -> Z -> Z := fun r c => A (r / n2) (c / n2) * B (r mod n2) (c mod n2).
Definition flat (n2 : Z) (D : Z -> Z -> Z) : Z -> Z := fun z => D (z / n2) (z mod n2).

(** Markov(Pi, i).forward on dimension i: multiply_ith_dimension(Pi.T, i, D);  .expectation: multiply_ith_dimension(Pi, i, X) *)
Definition fwd_dim0 (n1 : Z) (Pi1 : Z -> Z -> Z) (D : Z -> Z -> Z) : Z -> Z -> Z := fun z1' z2 => zs 0 n1 (fun z1 => Pi1 z1 z1' * D z1 z2).
Definition fwd_dim1 (n2 : Z) (Pi2 : Z -> Z -> Z) (D : Z -> Z -> Z) : Z -> Z -> Z := fun z1 z2' => zs 0 n2 (fun z2 => Pi2 z2 z2' * D z1 z2).
Definition exp_dim0 (n1 : Z) (Pi1 : Z -> Z -> Z) (X : Z -> Z -> Z) : Z -> Z -> Z := fun z1 z2 => zs 0 n1 (fun z1' => Pi1 z1 z1' * X z1' z2).
Definition exp_dim1 (n2 : Z) (Pi2 : Z -> Z -> Z) (X : Z -> Z -> Z) : Z -> Z -> Z := fun z1 z2 => zs 0 n2 (fun z2' => Pi2 z2 z2' * X z1 z2').

(** CombinedTransition.forward applies the stages in order, .expectation in reverse order *)
Definition fwd_seq n1 n2 Pi1 Pi2 D := fwd_dim1 n2 Pi2 (fwd_dim0 n1 Pi1 D).
Definition exp_seq n1 n2 Pi1 Pi2 X := exp_dim0 n1 Pi1 (exp_dim1 n2 Pi2 X).
Definition fwd_kron n1 n2 Pi1 Pi2 D : Z -> Z := mk_fwd (n1 * n2) (kron n2 Pi1 Pi2) (flat n2 D).
Definition exp_kron n1 n2 Pi1 Pi2 X : Z -> Z := mk_exp (n1 * n2) (kron n2 Pi1 Pi2) (flat n2 X).

(** executable: matrices as lists *)
Definition lm (M : list (list Z)) (a b : Z) : Z := if (a <? 0) || (b <? 0) then 0 else nth (Z.to_nat b) (nth (Z.to_nat a) M []) 0.
Definition tab2 (n1 n2 : Z) (f : Z -> Z -> Z) : list (list Z) :=
  map (fun a => map (fun b => f (Z.of_nat a) (Z.of_nat b)) (seq 0 (Z.to_nat n2))) (seq 0 (Z.to_nat n1)).
Definition run_kron (n1 n2 : Z) (P1 P2 D : list (list Z)) :=
  (tab2 n1 n2 (fwd_seq n1 n2 (lm P1) (lm P2) (lm D)), tab2 n1 n2 (exp_seq n1 n2 (lm P1) (lm P2) (lm D)),
   tab2 (n1 * n2) (n1 * n2) (kron n2 (lm P1) (lm P2)),
   map (fun z => fwd_kron n1 n2 (lm P1) (lm P2) (lm D) (Z.of_nat z)) (seq 0 (Z.to_nat (n1 * n2))),
   map (fun z => exp_kron n1 n2 (lm P1) (lm P2) (lm D) (Z.of_nat z)) (seq 0 (Z.to_nat (n1 * n2)))).
