(** Executable rational instance of the four parts of the fake-news algorithm (Model/FakeNews.v, the object of the C01 theorem) for the fixture household of
    Model/HetPath.v, INCLUDING the numerical differentiation HetBlock._jacobian performs: the backward function is differentiated by the one- or two-sided
    difference quotient with step h around (steady-state inputs, V_p = expectation of the steady-state value), the Markov-matrix hetinput always two-sidedly;
    policy perturbations move the lottery weights by -da / (grid spacing); a shifted Markov matrix acts on the beginning-of-period distribution and on the
    beginning-of-period expectations.  No proofs here. *)
From Coq Require Import ZArith QArith Qcanon Bool List Arith.
From SSJ Require Import Lib.Sums Model.HetLoop Model.HetPath Model.FakeNews.
Import ListNotations.

Definition amap2 (f : Qc -> Qc -> Qc) (A B : arr) : arr := map (fun rr => map (fun xy => f (fst xy) (snd xy)) (combine (fst rr) (snd rr))) (combine A B).
Definition amap (f : Qc -> Qc) (A : arr) : arr := map (map f) A.
Definition azero (nz na : nat) : arr := tabulate2 nz na (fun _ _ => h0).
Definition aadd := amap2 Qcplus.
Definition asub := amap2 Qcminus.
Definition ascale (c : Qc) := amap (Qcmult c).

(** expectation_policy_1d: X'[z, ia] = pi X[z, i] + (1 - pi) X[z, i + 1] at the steady-state lottery *)
Definition lottery_expect (nz na : nat) (g : list Qc) (pol X : arr) : arr :=
  tabulate2 nz na (fun z ia => let q := ent pol z ia in let i := bracket g q in let p := weight g q i in
                               Qcplus (Qcmult p (ent X z i)) (Qcmult (Qcminus h1 p) (ent X z (S i)))).
(** forward_policy_shock_1d with pi_shock = -da / space *)
Definition lottery_shock (nz na : nat) (g : list Qc) (pol D da : arr) : arr :=
  tabulate2 nz na (fun z j => hsum na (fun ia => let q := ent pol z ia in let i := bracket g q in
                                let dpi := Qcopp (Qcdiv (ent da z ia) (Qcminus (nth (S i) g h0) (nth i g h0))) in
                                let m := Qcmult dpi (ent D z ia) in
                                Qcplus (if Nat.eqb i j then m else h0) (if Nat.eqb (S i) j then Qcopp m else h0))).
(** utils.misc.demean *)
Definition ademean (nz na : nat) (X : arr) : arr :=
  let mean := Qcdiv (hsum nz (fun z => hsum na (fun a => ent X z a))) (Q2Qc (inject_Z (Z.of_nat (nz * na)))) in amap (fun x => Qcminus x mean) X.

Section ToyJac.
Variables (nz na : nat) (agrid egrid : list Qc) (Pi_ss : arr) (kappa : Qc).
Variable ssin : toy_in.                 (* steady-state r, w, shift *)
Variables (ssV ssa ssc ssPi Dbeg : arr). (* the implementation's steady state: value, policies, outcome, Markov matrix, beginning-of-period distribution *)
Variables (h : Qc) (twosided : bool).
Variable which : nat.                   (* shocked input: 0 = r, 1 = w, 2 = shift *)
Variable out_c : bool.                  (* outcome: false = a (aggregate A), true = c (aggregate C) *)

Definition Vp : arr := mk_expect nz na ssPi ssV.
Definition Dss : arr := mk_forward nz na ssPi Dbeg.
Definition step_at (dr dw : Qc) (dV : arr) (sgn : Qc) : hback :=
  toy_step nz na agrid egrid Pi_ss kappa
    {| i_r := Qcplus (i_r ssin) (Qcmult (Qcmult sgn h) dr); i_w := Qcplus (i_w ssin) (Qcmult (Qcmult sgn h) dw); i_shift := i_shift ssin |}
    (aadd Vp (ascale (Qcmult sgn h) dV)).
(** DifferentiableExtendedFunction.diff1 / diff2 of the backward function *)
Definition dq (dr dw : Qc) (dV : arr) : arr * arr * arr :=
  let up := step_at dr dw dV h1 in
  if twosided then let dn := step_at dr dw dV (Qcopp h1) in
                   let k := Qcdiv h1 (Qcmult (Qcplus h1 h1) h) in
                   (ascale k (asub (b_V up) (b_V dn)), ascale k (asub (b_a up) (b_a dn)), ascale k (asub (b_c up) (b_c dn)))
  else let base := step_at h0 h0 (azero nz na) h1 in
       let k := Qcdiv h1 h in
       (ascale k (asub (b_V up) (b_V base)), ascale k (asub (b_a up) (b_a base)), ascale k (asub (b_c up) (b_c base))).
Definition dout (d : arr * arr * arr) : arr := if out_c then snd d else snd (fst d).
Definition o_ss : arr := if out_c then ssc else ssa.

(** the derivative of the Markov-matrix hetinput with respect to the shifter: first column -1, last column +1 (the two-sided quotient of an affine map is exact) *)
Definition dPi : arr := tabulate2 nz nz (fun z z' => Qcplus (if Nat.eqb z' 0 then Qcopp h1 else h0) (if Nat.eqb z' (nz - 1) then h1 else h0)).
Definition shifted : bool := Nat.eqb which 2.

Definition d_in : arr * arr * arr := dq (if Nat.eqb which 0 then h1 else h0) (if Nat.eqb which 1 then h1 else h0) (azero nz na).
(** contemporaneous responses (backward_step_fakenews with maybe_exog_shock = True) *)
Definition jV0 : arr := let e := mk_expect nz na ssPi (fst (fst d_in)) in if shifted then aadd e (mk_expect nz na dPi ssV) else e.
Definition jd0 : arr :=
  let pol := lottery_shock nz na agrid ssa Dss (snd (fst d_in)) in
  if shifted then aadd (lottery_forward nz na agrid ssa (mk_forward nz na dPi Dbeg)) pol else pol.
Definition jy0 : Qc :=
  let y := aggregate nz na Dss (dout d_in) in if shifted then Qcplus y (aggregate nz na Dbeg (mk_expect nz na dPi o_ss)) else y.
(** anticipation steps: the perturbation of next period's value enters as V_p *)
Definition jbV (cv : arr) : arr := mk_expect nz na ssPi (fst (fst (dq h0 h0 cv))).
Definition jgD (cv : arr) : arr := lottery_shock nz na agrid ssa Dss (snd (fst (dq h0 h0 cv))).
Definition jgY (cv : arr) : Qc := aggregate nz na Dss (dout (dq h0 h0 cv)).
(** expectation vectors: beginning-of-period expectation of the outcome, then policy expectation followed by Markov expectation, demeaned *)
Definition jw0 : arr := mk_expect nz na ssPi o_ss.
Definition jEx (X : arr) : arr := mk_expect nz na ssPi (lottery_expect nz na agrid ssa X).
Definition jpair (w d : arr) : Qc := aggregate nz na d w.

Definition toy_jacobian (T : nat) : list (list Qc) :=
  map (fun t => map (fun s => fake_news_J Qc arr arr arr Qcplus jpair jEx (ademean nz na) jw0 jV0 jd0 jy0 jbV jgD jgY t s) (seq 0 T)) (seq 0 T).
End ToyJac.

Definition run_toy_jac (nz na T : nat) (agrid egrid : list Qc) (Pi_ss : arr) (kappa : Qc) (ssin : toy_in) (ssV ssa ssc ssPi Dbeg : arr) (h : Qc) (twosided : bool)
  (which : nat) (out_c : bool) : list (list (Z * Z)) :=
  map (map ho) (toy_jacobian nz na agrid egrid Pi_ss kappa ssin ssV ssa ssc ssPi Dbeg h twosided which out_c T).
