(** Model of the StageBlock loops (blocks/stage_block.py): backward_step_nonlinear, backward_nonlinear, forward_nonlinear.

      backward_step_nonlinear(backward, inputs):  for stage in reversed(self.stages):
                                                      (backward, report), lom = stage.backward_step_separate({**inputs, **backward}, ...)
                                                  -> reports and laws of motion of all stages in chronological order, backward output of the FIRST stage
      backward_nonlinear:   backward = steady-state backward INPUT of the final stage
                            for t in reversed(range(T)):  _, report, lom, backward = self.backward_step_nonlinear(backward, inputs_t);  record
      forward_nonlinear:    Dbeg = steady-state (or initial) distribution at the beginning of the first stage
                            for t:  D = Dbeg;  for j, stage:  D_path[stage][t] = D;  D = lom[t][j] @ D;   Dbeg = D

    A stage is abstract: date-t inputs and the backward variables handed over by the following stage (or by next period's first stage)
    -> its backward output, its report, its law of motion.  No proofs here. *)
From Coq Require Import List Arith.
Import ListNotations.

Section StageLoops.
Variables I B Rp L Dist : Type.
Definition stage := I -> B -> B * Rp * L.
Variable stages : list stage.                     (* chronological order *)
Variable lom_apply : L -> Dist -> Dist.

(** one period: the stages in REVERSE order, each fed the backward output of the one after it *)
Definition stage_step (i : I) (b : B) : list Rp * list L * B :=
  fold_right (fun st acc => let '(reps, loms, bk) := acc in let '(b', r, l) := st i bk in (r :: reps, l :: loms, b')) ([], [], b) stages.

Definition sback_step (inputs : nat -> I) (t : nat) (st : B * list (list Rp * list L)) : B * list (list Rp * list L) :=
  let '(reps, loms, b') := stage_step (inputs t) (fst st) in (b', (reps, loms) :: snd st).
Definition stage_backward (T : nat) (inputs : nat -> I) (ssb : B) : list (list Rp * list L) :=
  snd (fold_right (sback_step inputs) (ssb, []) (seq 0 T)).

(** one date of the forward pass: the distribution at the beginning of every stage, and the one handed to the next date *)
Fixpoint stage_forward_date (loms : list L) (D : Dist) : list Dist * Dist :=
  match loms with
  | [] => ([], D)
  | l :: rest => let (ds, Dend) := stage_forward_date rest (lom_apply l D) in (D :: ds, Dend)
  end.
Fixpoint stage_forward (path : list (list L)) (D : Dist) : list (list Dist) :=
  match path with
  | [] => []
  | loms :: rest => let (ds, Dn) := stage_forward_date loms D in ds :: stage_forward rest Dn
  end.
End StageLoops.
