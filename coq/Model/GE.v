(** Executable general-equilibrium solve at horizon T = 1 over the rationals: two unknowns, two targets.  The model Jacobians
    come from the forward accumulation of Model.Chain; G_U = - H_U^{-1} H_Z with the explicit 2x2 inverse;
    G_o = J[o,U] G_U + J[o,Z] for every requested output (Block.solve_jacobian: pack, solve, unpack, compose, prepend G_U). *)
From Coq Require Import ZArith QArith Qcanon Bool List Arith.
From SSJ Require Import Model.Chain.
Import ListNotations.

Definition q0 := Q2Qc 0.
Definition q1 := Q2Qc 1.
Definition qz (z : Z) : Qc := Q2Qc (inject_Z z).
Definition qblk (outs ins : list nat) (J : list (nat * nat * Z)) : cblock Qc :=
  {| c_outs := outs; c_ins := ins;
     c_J := fun o m => fold_left (fun acc e => if Nat.eqb (fst (fst e)) o && Nat.eqb (snd (fst e)) m then qz (snd e) else acc) J q0 |}.
(** total derivative of every name with respect to input i *)
Definition tot (blocks : list (cblock Qc)) (i : nat) : nat -> Qc :=
  accumulate Qc q0 Qcplus Qcmult blocks (fun x => if Nat.eqb x i then q1 else q0).

Definition ge_solve2 (blocks : list (cblock Qc)) (u1 u2 t1 t2 : nat) (zs outs : list nat) : option (list (list Qc)) :=
  let a := tot blocks u1 t1 in let b := tot blocks u2 t1 in
  let c := tot blocks u1 t2 in let d := tot blocks u2 t2 in
  let det := Qcminus (Qcmult a d) (Qcmult b c) in
  if Qc_eq_bool det q0 then None else
  Some (map (fun z =>
     let h1 := tot blocks z t1 in let h2 := tot blocks z t2 in
     (* G_U = - inv(H_U) h *)
     let g1 := Qcopp (Qcdiv (Qcminus (Qcmult d h1) (Qcmult b h2)) det) in
     let g2 := Qcopp (Qcdiv (Qcminus (Qcmult a h2) (Qcmult c h1)) det) in
     map (fun o => Qcplus (Qcplus (Qcmult (tot blocks u1 o) g1) (Qcmult (tot blocks u2 o) g2)) (tot blocks z o)) outs) zs).

Definition qout (x : Qc) : Z * Z := (Qnum (this x), Zpos (Qden (this x))).
Definition run_ge2 blocks u1 u2 t1 t2 zs outs : option (list (list (Z * Z))) :=
  option_map (map (map qout)) (ge_solve2 blocks u1 u2 t1 t2 zs outs).
