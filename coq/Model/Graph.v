(** Executable model of utilities/graph.py: input/output maps, adjacency, Kahn's algorithm with the
    code's stack discipline (pop from the end) and KeyError-raising removal, the DFS cycle finder,
    and the reachability sweeps of DAG.visit_from_inputs/outputs.  Names and block numbers are nat. *)
From Coq Require Import Arith Bool List.
Import ListNotations.

Record blk := { b_in : list nat; b_out : list nat }.

Definition memn (x : nat) (l : list nat) : bool := existsb (Nat.eqb x) l.
Definition addn (x : nat) (l : list nat) : list nat := if memn x l then l else l ++ [x].
Definition dedup (l : list nat) : list nat := fold_left (fun acc x => addn x acc) l [].
Definition removen (x : nat) (l : list nat) : list nat := filter (fun y => negb (Nat.eqb y x)) l.

Definition indices {A} (l : list A) : list nat := seq 0 (length l).
Definition blkn (bs : list blk) (n : nat) : blk := nth n bs {| b_in := []; b_out := [] |}.

(** get_output_map raises ValueError iff some name is output twice *)
Definition all_outputs (bs : list blk) : list nat := flat_map b_out bs.
Fixpoint has_dup (l : list nat) : bool := match l with [] => false | x :: r => memn x r || has_dup r end.
Definition output_map_ok (bs : list blk) : bool := negb (has_dup (all_outputs bs)).

Definition consumers (bs : list blk) (o : nat) : list nat := filter (fun n => memn o (b_in (blkn bs n))) (indices bs).
Definition producers (bs : list blk) (i : nat) : list nat := filter (fun n => memn i (b_out (blkn bs n))) (indices bs).
(** adj[n]: blocks that use an output of n;  revadj[n]: blocks that produce an input of n *)
Definition adj_of (bs : list blk) (n : nat) : list nat := dedup (flat_map (consumers bs) (b_out (blkn bs n))).
Definition revadj_of (bs : list blk) (n : nat) : list nat := dedup (flat_map (producers bs) (b_in (blkn bs n))).

(** DAG.inputs / DAG.outputs *)
Definition all_inputs (bs : list blk) : list nat := dedup (flat_map b_in bs).
Definition dag_inputs (bs : list blk) : list nat := filter (fun k => negb (memn k (all_outputs bs))) (all_inputs bs).
Definition dag_outputs (bs : list blk) : list nat := dedup (all_outputs bs).

(** Kahn's algorithm.  [dep]: remaining dependencies per node; [stack]: nodeps with the END of the Python
    list at the head; [acc]: topsorted.  dep[n2].remove(n) raises KeyError when n is absent: [None]. *)
Definition upd {A} (n : nat) (x : A) (l : list A) : list A :=
  firstn n l ++ match skipn n l with [] => [] | _ :: r => x :: r end.

Definition kahn_relax (n : nat) (st : option (list (list nat) * list nat)) (n2 : nat) : option (list (list nat) * list nat) :=
  match st with
  | None => None
  | Some (dep, stack) =>
      let d := nth n2 dep [] in
      if memn n d then
        let d' := removen n d in
        Some (upd n2 d' dep, match d' with [] => n2 :: stack | _ => stack end)
      else None
  end.

Fixpoint kahn_loop (fuel : nat) (adj : nat -> list nat) (dep : list (list nat)) (stack acc : list nat)
  : option (list (list nat) * list nat) :=
  match stack with
  | [] => Some (dep, acc)
  | n :: stack' =>
      match fuel with
      | O => None
      | S f =>
          match fold_left (kahn_relax n) (adj n) (Some (dep, stack')) with
          | None => None
          | Some (dep', stack'') => kahn_loop f adj dep' stack'' (acc ++ [n])
          end
      end
  end.

Inductive sort_result := Sorted (order : list nat) | Cyclic (remaining_dep : list (list nat)) (sorted : list nat) | SortError.

Definition topological_sort (bs : list blk) : sort_result :=
  let dep := map (revadj_of bs) (indices bs) in
  let nodeps := filter (fun n => match nth n dep [] with [] => true | _ => false end) (indices bs) in
  match kahn_loop (S (length bs)) (adj_of bs) dep (rev nodeps) [] with
  | None => SortError
  | Some (dep', acc) => if Nat.eqb (length acc) (length bs) then Sorted acc else Cyclic dep' acc
  end.

(** find_cycle on the remaining dependencies, restricted to [only]; [pick] abstracts set.pop() *)
Section Cycle.
Variable pick : list nat -> nat.         (* which element a Python set.pop() returns: unspecified *)

(** state: dep (per node, remaining edges to explore; the LAST element is popped first), tovisit, stack (top = last) *)
Fixpoint dfs (fuel : nat) (dep : list (list nat)) (tovisit stack : list nat) : option (list nat) :=
  match fuel with
  | O => None
  | S f =>
      match rev stack with
      | [] =>
          match tovisit with
          | [] => None
          | _ => let n := pick tovisit in dfs f dep (removen n tovisit) [n]
          end
      | n :: _ =>
          match rev (nth n dep []) with
          | [] => dfs f dep tovisit (removelast stack)
          | n2 :: rest =>
              let dep' := upd n (rev rest) dep in
              if memn n2 stack then
                Some ((fix from l := match l with [] => [] | x :: r => if Nat.eqb x n2 then x :: r else from r end) stack ++ [n2])
              else if memn n2 tovisit then dfs f dep' (removen n2 tovisit) (stack ++ [n2])
              else dfs f dep' tovisit stack
          end
      end
  end.

Definition find_cycle (dep : list (list nat)) (only : list nat) : option (list nat) :=
  let dep0 := map (fun k => if memn k only then filter (fun x => memn x only) (nth k dep []) else []) (seq 0 (length dep)) in
  dfs (S (length dep) * S (S (length (concat dep0)))) dep0 only [].
End Cycle.

(** the DAG object after sorting: blocks in order; revadj/adj relabelled *)
Definition index_of (x : nat) (l : list nat) : nat :=
  (fix go l k := match l with [] => k | y :: r => if Nat.eqb y x then k else go r (S k) end) l 0.
Definition sorted_blocks (bs : list blk) (order : list nat) : list blk := map (blkn bs) order.
Definition relabel (order : list nat) (l : list nat) : list nat := map (fun t => index_of t order) l.

(** visit_from_inputs: one forward sweep over the sorted blocks *)
Definition visit_from_inputs (sbs : list blk) (revadj : nat -> list nat) (inputs : list nat) : list nat :=
  fold_left (fun visited n =>
     if existsb (fun i => memn i (b_in (blkn sbs n))) inputs then visited ++ [n]
     else if existsb (fun p => memn p visited) (revadj n) then visited ++ [n] else visited) (indices sbs) [].

(** visit_from_outputs: one backward sweep; returns ascending order *)
Definition visit_from_outputs (sbs : list blk) (adj : nat -> list nat) (outputs : list nat) : list nat :=
  rev (fold_left (fun visited n =>
     if existsb (fun o => memn o (b_out (blkn sbs n))) outputs then visited ++ [n]
     else if existsb (fun c => memn c visited) (adj n) then visited ++ [n] else visited) (rev (indices sbs)) []).

(** everything DAG.__init__ exposes, for the correspondence check *)
Inductive dag_result :=
| DagOk (order inputs outputs : list nat) (adj revadj : list (list nat))
| DagDupOutput | DagCycle (cyc : option (list nat)) | DagError.

Definition build_dag (bs : list blk) : dag_result :=
  if negb (output_map_ok bs) then DagDupOutput else
  match topological_sort bs with
  | SortError => DagError
  | Cyclic dep acc => DagCycle (find_cycle (fun l => fold_left Nat.min l (hd 0 l)) dep (filter (fun n => negb (memn n acc)) (indices bs)))
  | Sorted order =>
      DagOk order (dag_inputs bs) (dag_outputs bs)
            (map (fun t => relabel order (adj_of bs t)) order) (map (fun t => relabel order (revadj_of bs t)) order)
  end.

Definition dag_queries (bs : list blk) (ins outs : list nat) : option (list nat * list nat) :=
  match topological_sort bs with
  | Sorted order =>
      let sbs := sorted_blocks bs order in
      let ra := fun n => relabel order (revadj_of bs (nth n order 0)) in
      let a := fun n => relabel order (adj_of bs (nth n order 0)) in
      Some (visit_from_inputs sbs ra (filter (fun i => memn i (dag_inputs bs)) ins),
            visit_from_outputs sbs a (filter (fun o => memn o (dag_outputs bs)) outs))
  | _ => None
  end.
