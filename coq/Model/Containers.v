(** Model of classes/jacobian_dict.py (NestedDict / JacobianDict compose, apply, getitem, update, pack) over an
    abstract type of block entries, and of ImpulseDict arithmetic.  Names are integers; dicts are
    insertion-ordered association lists.  Index arithmetic and the operand ladder come from Gen/Containers.v. *)
From Coq Require Import ZArith Bool List.
From SSJ Require Import Lib.PySlice Lib.OperandKinds Gen.Containers.
Import ListNotations.
Open Scope Z_scope.

Section Containers.
Variable E : Type.                 (* block entries: dense / sparse / identity operators *)
Variable V : Type.                 (* impulse paths *)
Variables (e0 : E) (eadd emul : E -> E -> E).
Variables (v0 : V) (vadd : V -> V -> V) (eact : E -> V -> V).

Fixpoint lookup {A} (k : Z) (d : list (Z * A)) : option A :=
  match d with [] => None | (k', v) :: r => if k =? k' then Some v else lookup k r end.
Definition zmem (k : Z) (l : list Z) : bool := existsb (Z.eqb k) l.

Record jdict := { nd : list (Z * list (Z * E)); jouts : list Z; jins : list Z }.

Definition jget (J : jdict) (o i : Z) : option E :=
  match lookup o (nd J) with Some row => lookup i row | None => None end.
Definition oden (x : option E) : E := match x with Some e => e | None => e0 end.

(** JacobianDict.compose: for o, for i: Jout = None; for m in m_list: if both present: Jout (+)= A[o][m] @ B[m][i] *)
Definition compose_entry (A B : jdict) (mlist : list Z) (o i : Z) : option E :=
  fold_left (fun acc m =>
      match jget A o m, jget B m i with
      | Some a, Some b => Some (match acc with None => emul a b | Some s => eadd s (emul a b) end)
      | _, _ => acc
      end) mlist None.
Definition m_list (A B : jdict) : list Z := filter (fun m => zmem m (jouts B)) (jins A).
Definition compose (A B : jdict) : jdict :=
  {| nd := map (fun o => (o, flat_map (fun i => match compose_entry A B (m_list A B) o i with Some e => [(i, e)] | None => [] end) (jins B))) (jouts A);
     jouts := jouts A; jins := jins B |}.

(** JacobianDict.apply: y[o] = zeros; for i in x.keys() & inputs: if i in J[o]: y[o] += J[o][i] @ x[i];  return x | y *)
Definition apply_entry (J : jdict) (x : list (Z * V)) (ilist : list Z) (o : Z) : V :=
  fold_left (fun acc i => match jget J o i, lookup i x with Some e, Some xi => vadd acc (eact e xi) | _, _ => acc end) ilist v0.
Definition i_list (J : jdict) (x : list (Z * V)) : list Z := filter (fun i => zmem i (jins J)) (map fst x).
Fixpoint dset {A} (k : Z) (v : A) (d : list (Z * A)) : list (Z * A) :=
  match d with [] => [(k, v)] | (k', v') :: r => if k =? k' then (k', v) :: r else (k', v') :: dset k v r end.
Definition apply (J : jdict) (x : list (Z * V)) : list (Z * V) :=
  fold_left (fun d o => dset o (apply_entry J x (i_list J x) o) d) (jouts J) x.

(** NestedDict.update / __or__: None = ValueError *)
Definition same_set (a b : list Z) : bool := forallb (fun k => zmem k b) a && forallb (fun k => zmem k a) b.
Definition disjoint (a b : list Z) : bool := forallb (fun k => negb (zmem k b)) a.
Definition jupdate (A B : jdict) : option jdict :=
  if match jouts B, jins B with [], _ | _, [] => true | _, _ => false end then Some A
  else if negb (same_set (jins A) (jins B)) then None
  else if negb (disjoint (jouts A) (jouts B)) then None
  else Some {| nd := fold_left (fun d kv => dset (fst kv) (snd kv) d) (nd B) (nd A);
               jouts := jouts A ++ filter (fun k => negb (zmem k (jouts A))) (jouts B); jins := jins A |}.
End Containers.

