(** S1: a basis element (i, m) denotes the operator on one-sided infinite sequences with
    entry 1 at (t, s) iff  s = t + i  and  m <= min t s   ("shift by i, zero the first m"). *)
From Coq Require Import ZArith Bool Lia.
Open Scope Z_scope.

Definition den (k : Z * Z) (t s : Z) : bool :=
  let '(i, m) := k in (s =? t + i) && (m <=? Z.min t s).

Definition keyeqb (a b : Z * Z) : bool := (fst a =? fst b) && (snd a =? snd b).

Lemma keyeqb_eq a b : keyeqb a b = true <-> a = b.
Proof.
  destruct a as [a1 a2], b as [b1 b2]; unfold keyeqb; cbn [fst snd].
  rewrite andb_true_iff, !Z.eqb_eq. split; [intros [-> ->]; reflexivity | intros H; inversion H; auto].
Qed.
