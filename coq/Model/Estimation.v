(** Model of estimation.py: all_covariances as a circular correlation of period N (numpy rfftn/irfftn with
    s=(N,), trusted), the linear autocovariance of the MA process, the stacked covariance matrix.
    Generic in the coefficient ring; the FFT length and the block ladder come from Gen/Estimation.v. *)
From Coq Require Import ZArith Bool List.
From SSJ Require Import Lib.Sums Lib.EstTypes Gen.Estimation.
Import ListNotations.
Open Scope Z_scope.

Section Est.
Variable R : Type.
Variables (rO : R) (radd rmul : R -> R -> R).
Notation zsum := (zsum_range rO radd).

(** zero padding of a length-T sequence *)
Definition ext (T : Z) (a : Z -> R) (t : Z) : R := if (0 <=? t) && (t <? T) then a t else rO.

(** circular cross-correlation with period N: sum_t a(t) b((t+l) mod N) *)
Definition circ (N T : Z) (a b : Z -> R) (l : Z) : R :=
  zsum 0 N (fun t => rmul (ext T a t) (ext T b ((t + l) mod N))).
(** linear cross-correlation at lag l >= 0 *)
Definition lin (T : Z) (a b : Z -> R) (l : Z) : R := zsum 0 (T - l) (fun t => rmul (a t) (b (t + l))).
(** what wraps around: pairs (t, t+l-N) *)
Definition alias (N T : Z) (a b : Z -> R) (l : Z) : R := zsum (N - l) T (fun t => rmul (a t) (b (t + l - N))).

(** all_covariances(M, sigmas)[l][o1][o2] with FFT length N; sig2 z = sigmas[z]**2 *)
Definition all_cov (N T nZ : Z) (M : Z -> Z -> Z -> R) (sig2 : Z -> R) (l o1 o2 : Z) : R :=
  zsum 0 nZ (fun z => rmul (sig2 z) (circ N T (fun t => M t o1 z) (fun t => M t o2 z) l)).
Definition all_covariances (T nZ : Z) M sig2 l o1 o2 : R := all_cov (pad_forward T) T nZ M sig2 l o1 o2.

(** exact autocovariance Cov(y_{t,o1}, y_{t+l,o2}) of y_t = sum_s M[s] eps_{t-s} (see ma_cov) *)
Definition autocov (T nZ : Z) (M : Z -> Z -> Z -> R) (sig2 : Z -> R) (l o1 o2 : Z) : R :=
  zsum 0 nZ (fun z => rmul (sig2 z) (lin T (fun t => M t o1 z) (fun t => M t o2 z) l)).
Definition alias_cov (N T nZ : Z) (M : Z -> Z -> Z -> R) (sig2 : Z -> R) (l o1 o2 : Z) : R :=
  zsum 0 nZ (fun z => rmul (sig2 z) (alias N T (fun t => M t o1 z) (fun t => M t o2 z) l)).

(** second moments of formal white noise: E[eps_{u,z} eps_{u',z'}] = sig2 z [u=u'][z=z'] *)
Definition ma_cov (T nZ : Z) (M : Z -> Z -> Z -> R) (sig2 : Z -> R) (l o1 o2 : Z) : R :=
  zsum 0 nZ (fun z => zsum 0 T (fun s => zsum 0 nZ (fun z' => zsum 0 T (fun s' =>
     rmul (rmul (M s o1 z) (M s' o2 z')) (if (s' =? s + l) && (z' =? z) then sig2 z else rO))))).

(** build_full_covariance_matrix entry ((t1,o1),(t2,o2)); [half] is division by 2 *)
Variable half : R -> R.
Definition v_entry (T : Z) (Sigma : Z -> Z -> Z -> R) (sm2 : Z -> R) (t1 o1 t2 o2 : Z) : R :=
  match v_block T t1 t2 with
  | VZero => rO
  | VLag l false => Sigma l o1 o2
  | VLag l true => Sigma l o2 o1
  | VDiag => radd (if o1 =? o2 then sm2 o1 else rO) (half (radd (Sigma 0 o1 o2) (Sigma 0 o2 o1)))
  end.
End Est.

(** Z instance for the correspondence check (data are integers; [half] is exact on even numbers) *)
Definition nth3 (M : list (list (list Z))) (t o z : Z) : Z :=
  if (t <? 0) || (o <? 0) || (z <? 0) then 0 else nth (Z.to_nat z) (nth (Z.to_nat o) (nth (Z.to_nat t) M []) []) 0.
Definition zall_cov (T nO nZ : Z) (M : list (list (list Z))) (sig2 : list Z) : list (list (list Z)) :=
  map (fun l => map (fun o1 => map (fun o2 =>
      all_covariances Z 0 Z.add Z.mul T nZ (nth3 M) (fun z => nth (Z.to_nat z) sig2 0) (Z.of_nat l) (Z.of_nat o1) (Z.of_nat o2))
      (seq 0 (Z.to_nat nO))) (seq 0 (Z.to_nat nO))) (seq 0 (Z.to_nat (cov_keep T))).
Definition zautocov (T nO nZ : Z) (M : list (list (list Z))) (sig2 : list Z) : list (list (list Z)) :=
  map (fun l => map (fun o1 => map (fun o2 =>
      autocov Z 0 Z.add Z.mul T nZ (nth3 M) (fun z => nth (Z.to_nat z) sig2 0) (Z.of_nat l) (Z.of_nat o1) (Z.of_nat o2))
      (seq 0 (Z.to_nat nO))) (seq 0 (Z.to_nat nO))) (seq 0 (Z.to_nat T)).
Definition zv (T nO Tobs : Z) (Sigma : list (list (list Z))) (sm2 : list Z) : list (list Z) :=
  map (fun r => map (fun c =>
      v_entry Z 0 Z.add (fun x => x / 2) T (nth3 Sigma) (fun o => nth (Z.to_nat o) sm2 0)
              (Z.of_nat r / nO) (Z.of_nat r mod nO) (Z.of_nat c / nO) (Z.of_nat c mod nO))
      (seq 0 (Z.to_nat (Tobs * nO)))) (seq 0 (Z.to_nat (Tobs * nO))).
