(** C15.1 -- the output map is refused iff some name is produced twice *)
From Coq Require Import Arith Bool List Permutation.
From SSJ Require Import Model.Graph Proofs.GraphProofs.
Import ListNotations.

Theorem dup_output_rejected : forall bs,
  (output_map_ok bs = false <-> ~ NoDup (all_outputs bs)) /\ (output_map_ok bs = false -> build_dag bs = DagDupOutput).
Proof. intros bs; split; [apply dup_output_rejected_lemma | intros H; unfold build_dag; rewrite H; reflexivity]. Qed.
Print Assumptions dup_output_rejected.
