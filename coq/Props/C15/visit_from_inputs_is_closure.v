(** C15.6 -- on a topologically ordered block list the single forward sweep returns exactly the transitive
    closure of "has a shocked input or has a visited parent". (The backward sweep: C15.9.) *)
From Coq Require Import Arith Bool List Permutation.
From SSJ Require Import Model.Graph Proofs.GraphProofs.
Import ListNotations.

Theorem visit_from_inputs_is_closure : forall sbs revadj inputs,
  (forall n p, In p (revadj n) -> p < n) ->
  forall n, In n (visit_from_inputs sbs revadj inputs) <-> n < length sbs /\ Reach sbs revadj inputs n.
Proof. exact visit_from_inputs_is_closure_lemma. Qed.
Print Assumptions visit_from_inputs_is_closure.
