(** C15.5 -- model inputs = consumed and not produced; outputs = produced *)
From Coq Require Import Arith Bool List Permutation.
From SSJ Require Import Model.Graph Proofs.GraphProofs.
Import ListNotations.

Theorem dag_io : forall bs x,
  (In x (dag_inputs bs) <-> (exists b, In b bs /\ In x (b_in b)) /\ ~ (exists b, In b bs /\ In x (b_out b))) /\
  (In x (dag_outputs bs) <-> exists b, In b bs /\ In x (b_out b)).
Proof. exact dag_io_lemma. Qed.
Print Assumptions dag_io.
