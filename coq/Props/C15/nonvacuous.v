(** C15 -- the model runs on a diamond listed out of order, a cyclic list and a duplicate-output list *)
From Coq Require Import Arith Bool List Permutation.
From SSJ Require Import Model.Graph Proofs.GraphProofs.
Import ListNotations.

Definition bs := [ {| b_in := [1;2]; b_out := [3] |}; {| b_in := [0]; b_out := [1] |}; {| b_in := [3;1]; b_out := [4;5] |} ].
Example sorted_example : topological_sort bs = Sorted [1; 0; 2].
Proof. vm_compute. reflexivity. Qed.
Example cyclic_example : build_dag (bs ++ [ {| b_in := [5;7]; b_out := [0] |}; {| b_in := [4]; b_out := [7] |} ]) = DagCycle (Some [1; 3; 4; 2; 1]).
Proof. vm_compute. reflexivity. Qed.
Example dup_example : build_dag (bs ++ [ {| b_in := []; b_out := [4] |} ]) = DagDupOutput.
Proof. vm_compute. reflexivity. Qed.
