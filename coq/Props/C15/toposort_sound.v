(** C15.2 -- if the sort returns, the order is a permutation of the block numbers in which every block
    comes after every block producing one of its inputs (Kahn with the code's stack/KeyError discipline). *)
From Coq Require Import Arith Bool List Permutation.
From SSJ Require Import Model.Graph Proofs.GraphProofs.
Import ListNotations.

Theorem toposort_sound : forall bs order, topological_sort bs = Sorted order ->
  Permutation order (seq 0 (length bs)) /\
  (forall l1 n l2, order = l1 ++ n :: l2 ->
     forall i p, In i (b_in (blkn bs n)) -> In p (producers bs i) -> In p l1).
Proof. exact toposort_sound_lemma. Qed.
Print Assumptions toposort_sound.
