(** C15.4 -- whatever element Python's set.pop() returns, a reported cycle has >= 2 entries, is closed
    (first = last) and every consecutive pair is a remaining dependency edge between unsorted blocks. *)
From Coq Require Import Arith Bool List Permutation.
From SSJ Require Import Model.Graph Proofs.GraphProofs.
Import ListNotations.

Theorem cycle_is_real : forall pick dep only c, find_cycle pick dep only = Some c ->
  2 <= length c /\ hd_error c = Some (last c 0) /\
  forall l1 a b l2, c = l1 ++ a :: b :: l2 -> In b (nth a dep []) /\ In a only /\ In b only.
Proof. exact cycle_is_real_lemma. Qed.
Print Assumptions cycle_is_real.
