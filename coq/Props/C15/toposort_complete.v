(** C15.7 -- COMPLETENESS of the assembly.  For every finite block list: Kahn's loop with the code's stack discipline and
    its KeyError-raising dep[n2].remove(n) never raises and never needs more iterations than there are blocks, and
    topological_sort returns an order  IF AND ONLY IF  the producer-before-consumer relation admits a rank, i.e. an
    admissible evaluation order exists (acyclic dependencies).  Hence every acyclic block list is accepted, and every
    block list with a closed chain of dependencies (incl. a block consuming its own output) is refused. *)
From Coq Require Import List Arith.
From SSJ Require Import Model.Graph Proofs.GraphProofs Proofs.GraphComplete.
Import ListNotations.

Theorem toposort_complete : forall bs (rank : nat -> nat),
  (forall n i p, n < length bs -> In i (b_in (blkn bs n)) -> In p (producers bs i) -> rank p < rank n) ->
  exists order, topological_sort bs = Sorted order.
Proof. exact toposort_complete_lemma. Qed.
Print Assumptions toposort_complete.

Theorem toposort_sorted_iff_rank : forall bs,
  (exists order, topological_sort bs = Sorted order) <->
  (exists rank : nat -> nat, forall n i p, n < length bs -> In i (b_in (blkn bs n)) -> In p (producers bs i) -> rank p < rank n).
Proof. exact toposort_sorted_iff_rank_lemma. Qed.
Print Assumptions toposort_sorted_iff_rank.

Theorem cyclic_refused : forall bs n, chain bs n n -> forall order, topological_sort bs <> Sorted order.
Proof. exact cyclic_refused_lemma. Qed.
Print Assumptions cyclic_refused.

(** non-vacuity: an acyclic three-block list listed consumer-first is accepted; adding a back edge gives a closed chain *)
Example accepted_and_refused :
  let b0 := {| b_in := [10; 11]; b_out := [12] |} in       (* consumes the outputs of the two blocks listed after it *)
  let b1 := {| b_in := [1]; b_out := [10] |} in
  let b2 := {| b_in := [10; 2]; b_out := [11] |} in
  let b2' := {| b_in := [10; 12]; b_out := [11] |} in
  topological_sort [b0; b1; b2] = Sorted [1; 2; 0] /\ chain [b0; b1; b2'] 0 0.
Proof.
  split; [vm_compute; reflexivity|].
  apply chainS with (b := 2).
  - split; [cbn; auto|]. exists 12. split; [cbn; auto|]. vm_compute. auto.
  - apply chain1. split; [cbn; auto|]. exists 11. split; [cbn; auto|]. vm_compute. auto.
Qed.
