(** C15.8 -- whenever Kahn's loop stops early (the Cyclic outcome of the model of topological_sort), the DFS of find_cycle,
    run on what the loop left behind and WHATEVER element each set.pop() returns, finds a cycle: the code's assertion
    'topological sort failed but no cycle, THIS SHOULD NEVER EVER HAPPEN' is unreachable, and by C15.4 (cycle_is_real) the
    reported path is a closed path of remaining dependency edges.  Also: find_cycle is complete on any graph in which
    every node of the searched set keeps a dependency inside the set. *)
From Coq Require Import List Arith.
From SSJ Require Import Model.Graph Proofs.GraphProofs Proofs.GraphComplete.
Import ListNotations.

Theorem cyclic_always_reported : forall bs dep acc pick, (forall l, l <> [] -> In (pick l) l) ->
  topological_sort bs = Cyclic dep acc ->
  exists c, find_cycle pick dep (filter (fun n => negb (memn n acc)) (indices bs)) = Some c /\
            2 <= length c /\ hd_error c = Some (last c 0) /\
            forall l1 a b l2, c = l1 ++ a :: b :: l2 -> In b (nth a dep []).
Proof.
  intros bs dep acc pick Hpick H. destruct (cyclic_always_reported_lemma bs dep acc pick Hpick H) as [c Hc].
  exists c. split; [assumption|]. destruct (cycle_is_real_lemma _ _ _ _ Hc) as (H1 & H2 & H3).
  split; [assumption|]. split; [assumption|]. intros l1 a b l2 E. apply (H3 l1 a b l2 E).
Qed.
Print Assumptions cyclic_always_reported.

Theorem find_cycle_complete : forall pick dep only, (forall l, l <> [] -> In (pick l) l) -> only <> [] -> NoDup only ->
  (forall n, In n only -> n < length dep /\ exists x, In x (nth n dep []) /\ In x only) ->
  exists c, find_cycle pick dep only = Some c.
Proof. exact find_cycle_complete_lemma. Qed.
Print Assumptions find_cycle_complete.

(** non-vacuity: a two-block loop plus an innocent block *)
Example cyclic_case_exists :
  exists dep acc, topological_sort [{| b_in := [2]; b_out := [1] |}; {| b_in := [1]; b_out := [2] |}; {| b_in := [5]; b_out := [6] |}] = Cyclic dep acc.
Proof. eexists; eexists. vm_compute. reflexivity. Qed.
