(** C15.9 -- the backward sweep of DAG.visit_from_outputs over blocks in sorted order (every child of a block has a larger
    number) returns EXACTLY the blocks the requested outputs depend on: the least set containing the blocks that produce
    a requested output and closed under "has a child in the set". *)
From Coq Require Import List Arith.
From SSJ Require Import Model.Graph Proofs.GraphProofs Proofs.GraphComplete.
Theorem visit_from_outputs_is_closure : forall sbs adj outputs,
  (forall n c, In c (adj n) -> n < c < length sbs) ->
  forall n, In n (visit_from_outputs sbs adj outputs) <-> n < length sbs /\ ReachO sbs adj outputs n.
Proof. exact visit_from_outputs_is_closure_lemma. Qed.
Print Assumptions visit_from_outputs_is_closure.
