(** C17.5 -- on ascending queries the monotone sweep (interpolate_coord / interpolate_y / the njit variants: carry the
    bracket index forward while x[xi+1] < q) returns exactly the index the robust binary search returns, for every strictly
    increasing grid with at least two points and every ascending (not necessarily strictly) query list of any length,
    inside, outside and on grid points.  Both return the least i with q <= x[i+1], capped at n-2; with the same index the
    weights are given by the same formula, so all routines agree. *)
From Coq Require Import ZArith List Sorted.
From SSJ Require Import Gen.Interp Model.Interp Proofs.InterpProofs.
Open Scope Z_scope.
Theorem monotone_equals_robust : forall n x qs, 2 <= n -> increasing n x -> StronglySorted Z.le qs ->
  map Some (sweep n x qs) = map (robust_index n x) qs.
Proof. exact monotone_equals_robust_lemma. Qed.
Print Assumptions monotone_equals_robust.

Theorem bracket_index_characterised : forall n x q, 2 <= n -> increasing n x ->
  exists i, robust_index n x q = Some i /\ idx_spec n x q i /\ forall j, idx_spec n x q j -> j = i.
Proof.
  intros n x q Hn Hinc. destruct (robust_meets_spec n x q Hn Hinc) as (i & H1 & H2). exists i. split; [assumption|]. split; [assumption|].
  intros j Hj. eapply idx_spec_unique; eassumption.
Qed.
Print Assumptions bracket_index_characterised.
