(** C17.4 -- ROUWENHORST, EVERY NUMBER OF STATES.  In any commutative ring with a half (h + h = 1; the reals, the rationals, the
    dyadic numbers the floating-point computation lives in when no rounding occurs) and for every p, the matrix built by the
    recursion of markov_rouwenhorst for N = m + 2 states has
      (1) every row summing to one, and
      (2) conditional mean  sum_j Pi[i,j] s_j = (2p - 1) s_i  on the equally spaced symmetric grid s_j = 2j - (N-1)
          (= linspace(-1,1,N) up to the factor N-1, hence for every rescaling of it): with rho = 2p - 1 the discretised
          process has EXACTLY the requested persistence, for every N.
    (Non-negativity for 0 <= p <= 1 needs an order and is left to the oracle.) *)
From Coq Require Import ZArith Ring_theory InitialRing List.
From SSJ Require Import Lib.Sums Model.Rouwenhorst Proofs.RouwenhorstProofs.
Open Scope Z_scope.

Theorem rouwenhorst_rows_sum_to_one : forall (R : Type) (rO rI : R) (radd rmul rsub : R -> R -> R) (ropp : R -> R),
  ring_theory rO rI radd rmul rsub ropp eq -> forall p h : R, radd h h = rI ->
  forall (m : nat) (i : Z), 0 <= i < Z.of_nat m + 2 ->
  zsum_range rO radd 0 (Z.of_nat m + 2) (fun j => rmul (rw R rO rI radd rmul rsub p h m i j) rI) = rI.
Proof. intros R rO rI radd rmul rsub ropp Rth p h Hh m i Hi. exact (rw_row_sum_lemma R rO rI radd rmul rsub ropp Rth p h Hh m i Hi). Qed.
Print Assumptions rouwenhorst_rows_sum_to_one.

Theorem rouwenhorst_exact_persistence : forall (R : Type) (rO rI : R) (radd rmul rsub : R -> R -> R) (ropp : R -> R),
  ring_theory rO rI radd rmul rsub ropp eq -> forall p h : R, radd h h = rI ->
  forall (m : nat) (i : Z), 0 <= i < Z.of_nat m + 2 ->
  let s := fun j => gen_phiZ rO rI radd rmul ropp (2 * j - (Z.of_nat m + 1)) in
  zsum_range rO radd 0 (Z.of_nat m + 2) (fun j => rmul (rw R rO rI radd rmul rsub p h m i j) (s j))
  = rmul (rsub p (rsub rI p)) (s i).
Proof. intros R rO rI radd rmul rsub ropp Rth p h Hh m i Hi. exact (rw_cond_mean_lemma R rO rI radd rmul rsub ropp Rth p h Hh m i Hi). Qed.
Print Assumptions rouwenhorst_exact_persistence.

(** non-vacuity: the rationals are such a ring; p = 3/4 (rho = 1/2), five states *)
From Coq Require Import QArith Qcanon.
Example rouwenhorst_over_Qc :
  Qcplus (Q2Qc (1 # 2)) (Q2Qc (1 # 2)) = Q2Qc 1 /\
  map (fun x => this x) (nth 1 (rw_matrix Qc (Q2Qc 0) (Q2Qc 1) Qcplus Qcmult Qcminus (Q2Qc (3 # 4)) (Q2Qc (1 # 2)) 5) nil)
  = (27 # 256 :: 27 # 64 :: 45 # 128 :: 7 # 64 :: 3 # 256 :: nil)%Q.
Proof. split; [apply Qc_is_canon; reflexivity | vm_compute; reflexivity]. Qed.
