(** C17.1 -- (TRANSLATED guards, midpoint and update rule of interpolate_coord_robust_vector) for every strictly
    increasing grid of length n >= 2 and EVERY query: the binary search terminates within n iterations and returns
    an index i in [0, n-2] with i = 0 below the grid, i = n-2 above x[n-2], and x[i] < q <= x[i+1] otherwise
    (q = x[0] gives i = 0). *)
From Coq Require Import ZArith Bool List.
From SSJ Require Import Lib.Loop Gen.Interp Model.Interp Proofs.InterpProofs.
Open Scope Z_scope.

Theorem robust_bracket : forall n x q, 2 <= n -> increasing n x ->
  exists i, robust_index n x q = Some i /\ 0 <= i <= n - 2 /\
    (q < x 0 -> i = 0) /\ (q > x (n - 2) -> i = n - 2) /\
    (x 0 <= q <= x (n - 2) -> (x i < q \/ (i = 0 /\ q = x 0)) /\ q <= x (i + 1)).
Proof. exact robust_bracket_lemma. Qed.
Print Assumptions robust_bracket.
