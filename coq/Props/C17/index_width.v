(** C17.6 -- the bracketing theorems return an index below the grid size n; the code stores indices in fixed-width unsigned integers
    (np.empty(..., dtype=np.uintNN) and the guvectorize signatures of utilities/interpolate.py, TRANSLATED).  Every such width is at
    least 32 bits, so every index of a grid with fewer than 2^32 points is stored without wrap-around (a 16-bit index would silently
    wrap on grids with more than 65536 points, which the oracle exhibits on a 70000-point grid). *)
From Coq Require Import ZArith Bool List Lia.
From SSJ Require Import Gen.Interp.
Open Scope Z_scope.
Theorem index_width_at_least_32 : forallb (fun b => 32 <=? b) index_dtype_bits = true /\ index_dtype_bits <> nil /\
  forall n i b, In b index_dtype_bits -> 0 <= i < n -> n <= 2 ^ 32 -> i mod 2 ^ b = i.
Proof.
  split; [reflexivity|]. split; [discriminate|]. intros n i b Hb Hi Hn. apply Z.mod_small.
  assert (H32 : 32 <= b).
  { assert (H : forallb (fun b => 32 <=? b) index_dtype_bits = true) by reflexivity. rewrite forallb_forall in H. apply Z.leb_le. apply H. exact Hb. }
  assert (2 ^ 32 <= 2 ^ b) by (apply Z.pow_le_mono_r; lia). lia.
Qed.
Print Assumptions index_width_at_least_32.
