(** C17.3 (shared with C07/C06/C20) -- "for it in range(maxit): new = step(cur); if close(cur, new): break; cur = new;
    else: raise; return new": a returned value is step(prev) for an iterate prev on which the test held, inherits
    every invariant of the step (mass one, non-negativity), and there is no return when the limit is exhausted. *)
From Coq Require Import ZArith Bool List.
From SSJ Require Import Lib.Loop Gen.Interp Model.Interp Proofs.InterpProofs.
Open Scope Z_scope.

Theorem iteration_exit_contract : forall (S : Type) (step : S -> S) (ok : S -> S -> bool) fuel s r,
  iter_until S step ok fuel s = Some r ->
  (exists prev, r = step prev /\ ok prev r = true) /\
  (forall P : S -> Prop, (forall x, P x -> P (step x)) -> P s -> P r) /\ iter_until S step ok 0 s = None.
Proof.
  intros S step ok fuel s r H. split; [eapply iter_until_contract; eassumption|]. split; [|reflexivity].
  intros P Hs Hp. eapply iter_until_invariant; eassumption.
Qed.
Print Assumptions iteration_exit_contract.
