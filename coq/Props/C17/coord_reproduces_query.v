(** C17.1 -- with s = x[i+1] - x[i] and the weight defined by pi * s = x[i+1] - q (the code divides by s), the
    coordinates reproduce the query, pi x[i] + (1-pi) x[i+1] = q, and applying them to data y is linear
    interpolation / extrapolation through (x[i], y[i]), (x[i+1], y[i+1]) -- inside, outside and on grid points.
    Stated multiplied by s (no division); valid in every commutative ring. *)
From Coq Require Import ZArith Bool List.
From SSJ Require Import Lib.Loop Gen.Interp Model.Interp Proofs.InterpProofs.
Open Scope Z_scope.

Theorem coord_reproduces_query : forall lo hi q pi s ylo yhi, s = hi - lo -> pi * s = hi - q ->
  s * (pi * lo + (1 - pi) * hi) = s * q /\ s * (pi * ylo + (1 - pi) * yhi) = s * ylo + (q - lo) * (yhi - ylo).
Proof. intros; split; [eapply coord_reproduces_query_lemma | eapply apply_coord_is_linear_interpolation_lemma]; eassumption. Qed.
Print Assumptions coord_reproduces_query.
