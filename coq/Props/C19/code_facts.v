(** C19 (tie A) -- source facts: Block.jacobian copies the caller's saved-Jacobian dict before writing into it; the
    heterogeneous-agent impulse works on an extracted copy of the steady state. *)
From Coq Require Import Bool.
From SSJ Require Import Gen.BlockFacts Gen.HetFacts.
Theorem code_facts_C19 : jacobian_copies_Js_before_writing = true /\ impulse_uses_initial_distribution_and_copies_ss = true.
Proof. repeat split; reflexivity. Qed.
Print Assumptions code_facts_C19.
