(** C19 (tie A) -- source facts: Block.jacobian copies the caller's saved-Jacobian dict before writing into it; the
    heterogeneous-agent impulse works on an extracted copy of the steady state; objects DERIVED from an argument are built afresh: the transpose and
    the scalar multiple of a sparse Jacobian are new SimpleSparse objects made from the elements (so nothing the operand cached on first use
    travels with them), translating a result container through a renaming works on a deep copy, and renaming a saved factorisation works on a copy. *)
From Coq Require Import Bool.
From SSJ Require Import Gen.BlockFacts Gen.HetFacts.
Theorem code_facts_C19 : jacobian_copies_Js_before_writing = true /\ impulse_uses_initial_distribution_and_copies_ss = true /\ derived_objects_are_fresh = true.
Proof. repeat split; reflexivity. Qed.
Print Assumptions code_facts_C19.
