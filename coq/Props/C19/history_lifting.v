(** C19 -- lifting: if every single public call leaves the observable part of the world (arguments, block objects, default
    arguments) unchanged, so does every call history; and if results depend on hidden state (caches) only through that
    observable part, any call returns after any history exactly what it returns in the initial state.  The per-call
    premises are what the runtime audit checks on the implementation (deep snapshots before/after every call,
    repeated-call bit equality, storage sharing). *)
From Coq Require Import List.
From SSJ Require Import Proofs.EffectProofs.
Theorem history_lifting : forall (State Op Obs Res : Type) (exec : State -> Op -> State) (obs : State -> Obs) (result : State -> Op -> Res) (res : Obs -> Op -> Res),
  (forall s o, obs (exec s o) = obs s) ->
  (forall ops s, obs (fold_left exec ops s) = obs s) /\
  ((forall s o, result s o = res (obs s) o) -> forall ops s o, result (fold_left exec ops s) o = result s o).
Proof. intros. split; [apply history_preserves_arguments_lemma; assumption | intros; eapply history_independence_lemma; eassumption]. Qed.
Print Assumptions history_lifting.
