(** C03.2 -- simple_displacement.compute_l and sparse_jacobians.multiply_basis code the same rule, and
    the key map of AccumulatedDerivative.__call__ is left multiplication by E(i,0). *)
From Coq Require Import ZArith Bool List Ring.
From SSJ Require Import Lib.PySlice Lib.Sums Model.Shift Model.Sparse Gen.MultiplyBasis Gen.ComputeL Gen.SparseIndex Proofs.ShiftProofs Proofs.SparseProofs.
Import ListNotations.
Open Scope Z_scope.

Theorem two_codings_agree : forall i m j n,
  compute_l i m j n = snd (multiply_basis (- i, m) (- j, n))
  /\ acc_call_key i (j, n) = multiply_basis (i, 0) (j, n).
Proof. intros; split; [apply two_codings_agree_lemma | apply acc_call_key_is_product]. Qed.
Print Assumptions two_codings_agree.
