(** C03.5 -- sparse + dense by flat slicing (translated slice triples, Python slice semantics),
    for ALL shifts i (including |i| >= T) and all m >= 0; conversion to a T x T matrix. *)
From Coq Require Import ZArith Bool List Ring.
From SSJ Require Import Lib.PySlice Lib.Sums Model.Shift Model.Sparse Gen.MultiplyBasis Gen.ComputeL Gen.SparseIndex Proofs.ShiftProofs Proofs.SparseProofs.
Import ListNotations.
Open Scope Z_scope.

Theorem dense_add_den : forall (R : Type) (rO rI : R) (radd rmul rsub : R -> R -> R) (ropp : R -> R),
  ring_theory rO rI radd rmul rsub ropp eq ->
  forall T A M t s, wf R A -> 0 <= t < T -> 0 <= s < T ->
    sp_add_dense R rO radd T A M t s = radd (M t s) (sden R rO rI radd rmul A t s)
    /\ sp_matrix R rO radd T A t s = sden R rO rI radd rmul A t s.
Proof. intros; split; [eapply sp_add_dense_den | eapply sp_matrix_den]; eassumption. Qed.
Print Assumptions dense_add_den.
