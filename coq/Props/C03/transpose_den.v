(** C03.3 -- transpose *)
From Coq Require Import ZArith Bool List Ring.
From SSJ Require Import Lib.PySlice Lib.Sums Model.Shift Model.Sparse Gen.MultiplyBasis Gen.ComputeL Gen.SparseIndex Proofs.ShiftProofs Proofs.SparseProofs.
Import ListNotations.
Open Scope Z_scope.

Theorem transpose_den : forall (R : Type) (rO rI : R) (radd rmul : R -> R -> R) A t s,
  sden R rO rI radd rmul (sp_T R A) t s = sden R rO rI radd rmul A s t.
Proof. intros; apply sden_T. Qed.
Print Assumptions transpose_den.
