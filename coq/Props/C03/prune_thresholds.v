(** C03.11 -- the models of the sparse-Jacobian and derivative-accumulator classes idealise the "retain sparsity" safeguards
    [if abs(elements[im]) < c: del elements[im]] as "delete iff the coefficient is zero" (hypothesis [tiny x = true -> x = 0] of the
    theorems).  That idealisation is only defensible when every such constant is at rounding-error level: every threshold 1E-k that
    the TRANSLATED source (classes/sparse_jacobians.py, blocks/support/simple_displacement.py) compares an absolute value with has
    k >= 14.  A larger threshold would delete genuine small coefficients (sums of several paths in small units), which the oracle
    exhibits with coefficients of order 1e-11. *)
From Coq Require Import ZArith Bool List.
From SSJ Require Import Gen.SparseIndex.
Open Scope Z_scope.
Theorem prune_thresholds_at_rounding_level : forallb (fun k => 14 <=? k) prune_threshold_exponents = true /\ prune_threshold_exponents <> nil.
Proof. split; [reflexivity | discriminate]. Qed.
Print Assumptions prune_thresholds_at_rounding_level.
