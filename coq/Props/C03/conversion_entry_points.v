(** C03.12 -- "conversion to a T x T matrix" has two entry points: the method SimpleSparse.matrix(T) (the object of C03.3, with the TRANSLATED
    index rules) and the module function make_matrix(A, T), through which JacobianDict.pack, FactoredJacobianDict and the dense fallbacks of
    composition convert their entries.  Obligation: in the TRANSLATED source make_matrix does nothing of its own: an ndarray is returned as it
    is and every other operand (SimpleSparse, IdentityMatrix) is handed to its own .matrix(T).  The oracle compares make_matrix and
    JacobianDict.pack with the dense reference on every single-element operand with T <= 5 (7), |i| <= T + 3, m <= T + 1. *)
From Coq Require Import Bool.
From SSJ Require Import Gen.SparseIndex.
Theorem conversion_entry_points : make_matrix_delegates_to_matrix = true.
Proof. reflexivity. Qed.
Print Assumptions conversion_entry_points.
