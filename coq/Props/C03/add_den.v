(** C03.3 -- sum, difference (both orders), negation, scalar multiple *)
From Coq Require Import ZArith Bool List Ring.
From SSJ Require Import Lib.PySlice Lib.Sums Model.Shift Model.Sparse Gen.MultiplyBasis Gen.ComputeL Gen.SparseIndex Proofs.ShiftProofs Proofs.SparseProofs.
Import ListNotations.
Open Scope Z_scope.

Theorem add_den : forall (R : Type) (rO rI : R) (radd rmul rsub : R -> R -> R) (ropp : R -> R),
  ring_theory rO rI radd rmul rsub ropp eq -> forall tiny : R -> bool, (forall x, tiny x = true -> x = rO) ->
  forall A B a t s,
    sden R rO rI radd rmul (sp_add R radd tiny A B) t s = radd (sden R rO rI radd rmul A t s) (sden R rO rI radd rmul B t s)
 /\ sden R rO rI radd rmul (sp_sub R radd ropp tiny A B) t s = rsub (sden R rO rI radd rmul A t s) (sden R rO rI radd rmul B t s)
 /\ sden R rO rI radd rmul (sp_rsub R radd ropp tiny A B) t s = rsub (sden R rO rI radd rmul B t s) (sden R rO rI radd rmul A t s)
 /\ sden R rO rI radd rmul (sp_neg R ropp A) t s = ropp (sden R rO rI radd rmul A t s)
 /\ sden R rO rI radd rmul (sp_scale R rmul a A) t s = rmul a (sden R rO rI radd rmul A t s).
Proof.
  intros R rO rI radd rmul rsub ropp Rth tiny Htiny A B a t s.
  repeat split; [eapply sden_add | eapply sden_sub | eapply sden_rsub | eapply sden_neg | eapply sden_scale]; eassumption.
Qed.
Print Assumptions add_den.
