(** C03.4 -- multiply_rs_matrix (translated loop bounds): window product, and every array read is in bounds *)
From Coq Require Import ZArith Bool List Ring.
From SSJ Require Import Lib.PySlice Lib.Sums Model.Shift Model.Sparse Gen.MultiplyBasis Gen.ComputeL Gen.SparseIndex Proofs.ShiftProofs Proofs.SparseProofs.
Import ListNotations.
Open Scope Z_scope.

Theorem rs_matrix_den : forall (R : Type) (rO rI : R) (radd rmul rsub : R -> R -> R) (ropp : R -> R),
  ring_theory rO rI radd rmul rsub ropp eq ->
  forall T A M t s, wf R A -> 0 <= t < T ->
    sp_matmul_dense R rO radd rmul T A M t s
    = zsum_range rO radd 0 T (fun k => rmul (sden R rO rI radd rmul A t k) (M k s)).
Proof. intros; eapply sp_matmul_dense_den; eassumption. Qed.
Print Assumptions rs_matrix_den.

Theorem rs_matrix_reads_in_bounds : forall T i m t', 0 <= m -> rs_lo T i m <= t' < rs_hi T i m ->
  0 <= rs_src i t' < T /\ 0 <= rs_dst i t' < T.
Proof. exact rs_reads_safe. Qed.
Print Assumptions rs_matrix_reads_in_bounds.
