(** C03.1 -- the (t,u) entry of E(i,m) E(j,n) equals the entry of the basis element returned by the
    translated multiply_basis, for ALL integers i j t u and all m n >= 0. *)
From Coq Require Import ZArith Bool List Ring.
From SSJ Require Import Lib.PySlice Lib.Sums Model.Shift Model.Sparse Gen.MultiplyBasis Gen.ComputeL Gen.SparseIndex Proofs.ShiftProofs Proofs.SparseProofs.
Import ListNotations.
Open Scope Z_scope.

Theorem basis_product : forall i m j n t u, 0 <= m -> 0 <= n ->
  den (multiply_basis (i, m) (j, n)) t u = den (i, m) t (t + i) && den (j, n) (t + i) u.
Proof. exact basis_product_lemma. Qed.
Print Assumptions basis_product.
