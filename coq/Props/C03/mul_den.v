(** C03.3 -- product of two sparse operators = ordinary (finite-window) matrix product of the denoted
    operators, for every window [0,N) that contains the non-zero columns of row t. *)
From Coq Require Import ZArith Bool List Ring.
From SSJ Require Import Lib.PySlice Lib.Sums Model.Shift Model.Sparse Gen.MultiplyBasis Gen.ComputeL Gen.SparseIndex Proofs.ShiftProofs Proofs.SparseProofs.
Import ListNotations.
Open Scope Z_scope.

Theorem mul_den : forall (R : Type) (rO rI : R) (radd rmul rsub : R -> R -> R) (ropp : R -> R),
  ring_theory rO rI radd rmul rsub ropp eq ->
  forall tiny : R -> bool, (forall x, tiny x = true -> x = rO) ->
  forall A B t u N, wf R A -> wf R B -> (forall k x, In (k, x) A -> t + fst k < N) ->
    sden R rO rI radd rmul (sp_mul R radd rmul tiny A B) t u
    = zsum_range rO radd 0 N (fun s => rmul (sden R rO rI radd rmul A t s) (sden R rO rI radd rmul B s u))
    /\ wf R (sp_mul R radd rmul tiny A B).
Proof.
  intros R rO rI radd rmul rsub ropp Rth tiny Htiny A B t u N HA HB HN. split.
  - rewrite (sden_mul R rO rI radd rmul rsub ropp Rth tiny Htiny A B t u HA HB). symmetry. eapply sp_apply_is_matrix_product; eassumption.
  - apply wf_mul; assumption.
Qed.
Print Assumptions mul_den.
