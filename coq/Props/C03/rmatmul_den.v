(** C03.4 -- dense @ sparse through the double transpose *)
From Coq Require Import ZArith Bool List Ring.
From SSJ Require Import Lib.PySlice Lib.Sums Model.Shift Model.Sparse Gen.MultiplyBasis Gen.ComputeL Gen.SparseIndex Proofs.ShiftProofs Proofs.SparseProofs.
Import ListNotations.
Open Scope Z_scope.

Theorem rmatmul_den : forall (R : Type) (rO rI : R) (radd rmul rsub : R -> R -> R) (ropp : R -> R),
  ring_theory rO rI radd rmul rsub ropp eq ->
  forall T M A t s, wf R A -> 0 <= s < T ->
    dense_matmul_sp R rO radd rmul T M A t s
    = zsum_range rO radd 0 T (fun k => rmul (M t k) (sden R rO rI radd rmul A k s)).
Proof. intros; eapply dense_matmul_sp_den; eassumption. Qed.
Print Assumptions rmatmul_den.
