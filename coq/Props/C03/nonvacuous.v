(** C03 -- the hypotheses of the theorems are satisfiable by non-trivial objects, and the Z instance runs. *)
From Coq Require Import ZArith Bool List Ring.
From SSJ Require Import Lib.PySlice Lib.Sums Model.Shift Model.Sparse Gen.MultiplyBasis Gen.ComputeL Gen.SparseIndex Proofs.ShiftProofs Proofs.SparseProofs.
Import ListNotations.
Open Scope Z_scope.

From SSJ Require Import Model.SparseZ.
Example wf_example : wf Z [((2, 1), 3); ((-1, 0), 5)] /\ wf Z [((-3, 2), 7)].
Proof. split; intros k x H; cbn in H; repeat (destruct H as [H|H]; [inversion H; subst; cbn; auto with zarith|]); try contradiction; cbn; auto with zarith. Qed.
Example product_runs : zmul [((2, 1), 3); ((-1, 0), 5)] [((-3, 2), 7)] = [((-1, 2), 21); ((-4, 2), 35)].
Proof. vm_compute. reflexivity. Qed.
Example beyond_horizon_is_zero : zmatrix 3 [((4, 0), 1)] = [[0;0;0];[0;0;0];[0;0;0]].
Proof. vm_compute. reflexivity. Qed.
