(** C03.6 -- the identity placeholder's sparse form denotes the identity operator *)
From Coq Require Import ZArith Bool List Ring.
From SSJ Require Import Lib.PySlice Lib.Sums Model.Shift Model.Sparse Gen.MultiplyBasis Gen.ComputeL Gen.SparseIndex Proofs.ShiftProofs Proofs.SparseProofs.
Import ListNotations.
Open Scope Z_scope.

Theorem identity_den : forall (R : Type) (rO rI : R) (radd rmul rsub : R -> R -> R) (ropp : R -> R),
  ring_theory rO rI radd rmul rsub ropp eq ->
  forall t s, sden R rO rI radd rmul (identity_sp R rI) t s = if (s =? t) && (0 <=? t) then rI else rO.
Proof. intros; eapply SparseProofs.identity_den; eassumption. Qed.
Print Assumptions identity_den.
