(** C20 (tie A) -- structural facts extracted from steady_state.py: when no solver is named, provide_solver_default accepts a
    single unknown only with a valid (lb <= ub) bracket and several unknowns only if EVERY specification is a real number
    (np.all over a LIST of isinstance tests -- over a generator it would accept anything), and raises ValueError otherwise. *)
From Coq Require Import Bool.
From SSJ Require Import Gen.Solvers.
Theorem code_facts_C20 : default_solver_validates_every_unknown = true /\ default_solver_decision_shape = true.
Proof. split; reflexivity. Qed.
Print Assumptions code_facts_C20.
