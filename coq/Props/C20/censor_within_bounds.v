(** C20.3 -- (TRANSLATED np.where rules of the bounded residual) the model is evaluated only at the censored point,
    which lies in [lb, ub]: always for the closed rule, and for the open rule PROVIDED 0 <= eps <= ub - lb; points
    inside the bounds are not moved.  The proviso is necessary (censor_open_refuted: known finding D12 for
    brackets narrower than boundary_epsilon). Order logic over Z, valid in every ordered ring. *)
From Coq Require Import ZArith Bool List.
From SSJ Require Import Gen.Solvers Model.RootFind Proofs.RootFindProofs.
Open Scope Z_scope.

Theorem censor_within_bounds : forall x lb ub eps, lb <= ub ->
  lb <= censor_closed x lb ub eps <= ub /\
  (0 <= eps <= ub - lb -> lb <= censor_open x lb ub eps <= ub) /\
  (lb <= x <= ub -> censor_closed x lb ub eps = x /\ censor_open x lb ub eps = x).
Proof. exact censor_within_bounds_lemma. Qed.
Print Assumptions censor_within_bounds.

Theorem censor_open_needs_wide_bracket : exists x lb ub eps, lb < ub /\ 0 < eps /\ ~ (lb <= censor_open x lb ub eps <= ub).
Proof. exact censor_open_refuted. Qed.
Print Assumptions censor_open_needs_wide_bracket.
