(** C20.1-2 -- Newton and Broyden loops over ANY residual oracle f : X -> option Y (None = ValueError), any linear
    algebra, any acceptance rule, any iteration and backtrack limits: if the loop returns (x, y) then y really is
    f(x) and passed the tolerance test; raising or rejected trial steps change neither x nor y; otherwise the
    outcome is "too many backtracks" or "no convergence" -- never a silent return. *)
From Coq Require Import ZArith Bool List.
From SSJ Require Import Gen.Solvers Model.RootFind Proofs.RootFindProofs.
Open Scope Z_scope.

Theorem solver_exit_contract : forall (X Y J : Type) (f : X -> option Y) small obtainJ direction xadd shrink accept updJ
  broyden B fuel first x y Jm x' y',
  f x = Some y ->
  solve_loop X Y J f small obtainJ direction xadd shrink accept updJ broyden B fuel first x y Jm = Returned X Y x' y' ->
  f x' = Some y' /\ small y' = true.
Proof. intros; eapply solver_exit_contract_lemma; eassumption. Qed.
Print Assumptions solver_exit_contract.

Theorem backtrack_on_invalid : forall (X Y J : Type) (f : X -> option Y) xadd shrink accept b bc x y Jm dx x' y' dx',
  backtrack X Y J f xadd shrink accept b bc x y Jm dx = Some (x', y', dx') -> f x' = Some y' /\ x' = xadd x dx'.
Proof. intros; eapply backtrack_sound; eassumption. Qed.
Print Assumptions backtrack_on_invalid.
