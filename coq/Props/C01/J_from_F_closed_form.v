(** C01.1 -- the in-place column recursion of HetBlock.J_from_F computes, for every horizon and every fake-news matrix,
    J[t, s] = sum_{k <= min(t, s)} F[t-k, s-k]: the Jacobian entry collects the fake-news terms along its diagonal,
    independently of the truncation horizon requested. *)
From Coq Require Import List Arith ZArith.
From SSJ Require Import Model.HetLoop Proofs.HetLoopProofs.
Theorem J_from_F_closed_form : forall F s t, J_from_F F t s = ksum (S (Nat.min t s)) (fun k => F (t - k) (s - k)).
Proof. exact J_from_F_closed_form_lemma. Qed.
Print Assumptions J_from_F_closed_form.
