(** C01.4 -- the EXECUTABLE rational instance of the fake-news algorithm used by the second correspondence stream (Model/HetJac.v; the correspondence
    check compares it with HetBlock.jacobian of the fixture household, difference quotients included).
    (a) It is, by definition, the abstract algorithm of Model/FakeNews.v (the object of the theorem fake_news_is_direct_recursion) instantiated with:
        pairing <w, d> = sum d w; forward operator = Markov step then policy lottery; expectation operator = lottery gather then Markov expectation;
        demeaning; contemporaneous and anticipation responses obtained from one- or two-sided difference quotients of the backward step.
    (b) Its operators satisfy the hypotheses of that theorem on every grid with two or more points: the expectation operator is the adjoint of the forward
        operator, and every perturbation of the distribution it produces -- from a perturbed policy or from a Markov-matrix shifter whose rows sum to zero
        (the fixture's shifter does) -- has zero total mass. *)
From Coq Require Import ZArith QArith Qcanon Bool List Arith.
From SSJ Require Import Lib.Sums Model.HetLoop Model.HetPath Model.FakeNews Model.HetJac Proofs.HetPathProofs Proofs.HetJacProofs.
Import ListNotations.

Theorem fake_news_executable : forall nz na agrid, length agrid = na -> (2 <= na)%nat ->
  (forall egrid Pi_ss kappa ssin ssV ssa ssc ssPi Dbeg h twosided which out_c T,
     toy_jacobian nz na agrid egrid Pi_ss kappa ssin ssV ssa ssc ssPi Dbeg h twosided which out_c T
     = map (fun t => map (fun s => fake_news_J Qc arr arr arr Qcplus (jpair nz na) (jEx nz na agrid ssa ssPi) (ademean nz na)
                                     (jw0 nz na ssa ssc ssPi out_c)
                                     (jV0 nz na agrid egrid Pi_ss kappa ssin ssV ssPi h twosided which)
                                     (jd0 nz na agrid egrid Pi_ss kappa ssin ssV ssa ssPi Dbeg h twosided which)
                                     (jy0 nz na agrid egrid Pi_ss kappa ssin ssV ssa ssc ssPi Dbeg h twosided which out_c)
                                     (jbV nz na agrid egrid Pi_ss kappa ssin ssV ssPi h twosided)
                                     (jgD nz na agrid egrid Pi_ss kappa ssin ssV ssa ssPi Dbeg h twosided)
                                     (jgY nz na agrid egrid Pi_ss kappa ssin ssV ssPi Dbeg h twosided out_c) t s) (seq 0 T)) (seq 0 T)) /\
  (forall pol Pi D X, jpair nz na X (lottery_forward nz na agrid pol (mk_forward nz na Pi D)) = jpair nz na (jEx nz na agrid pol Pi X) D) /\
  (forall pol D da, mass nz na (lottery_shock nz na agrid pol D da) = h0) /\
  (forall dP D, (forall z, (z < nz)%nat -> hsum nz (fun z' => ent dP z z') = h0) -> mass nz na (mk_forward nz na dP D) = h0) /\
  (forall z, (1 <= nz)%nat -> (z < nz)%nat -> hsum nz (fun z' => ent (dPi nz) z z') = h0).
Proof.
  intros nz na agrid Hg Hna. split; [reflexivity|].
  split; [intros; unfold jpair, jEx; apply forward_expectation_adjoint_lemma; assumption|].
  split; [intros; apply lottery_shock_zero_mass_lemma; assumption|].
  split; [intros; apply markov_shock_zero_mass_lemma; assumption | intros; apply dPi_rows_zero; assumption].
Qed.
Print Assumptions fake_news_executable.

(** non-vacuity: a two-state, three-point instance with a two-sided quotient; the anticipated column differs from the contemporaneous one *)
Example toy_jacobian_example :
  let J := toy_jacobian 2 3 [hq 0 1; hq 1 1; hq 2 1] [hq 1 2; hq 3 2] [[hq 3 4; hq 1 4]; [hq 1 4; hq 3 4]] (hq 1 8)
             {| i_r := hq 1 32; i_w := hq 1 1; i_shift := hq 0 1 |}
             [[hq 1 1; hq 2 1; hq 3 1]; [hq 2 1; hq 3 1; hq 4 1]] [[hq 1 2; hq 1 1; hq 3 2]; [hq 1 1; hq 3 2; hq 2 1]] [[hq 1 4; hq 1 2; hq 3 4]; [hq 1 2; hq 3 4; hq 1 1]]
             [[hq 3 4; hq 1 4]; [hq 1 4; hq 3 4]] [[hq 1 4; hq 1 8; hq 1 8]; [hq 1 8; hq 1 8; hq 1 4]] (hq 1 1024) true 1 false 3 in
  negb (Qc_eq_bool (nth 0 (nth 0 J []) h0) h0) && negb (Qc_eq_bool (nth 1 (nth 1 J []) h0) (nth 0 (nth 0 J []) h0)) = true.
Proof. vm_compute. reflexivity. Qed.
