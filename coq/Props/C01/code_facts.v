(** C01 (tie A) -- structural facts extracted from the current source (het_block.py, function.py, misc.py) by
    tools/translate.py on which the models of this property rely: the four parts of the fake-news algorithm have the shape
    of Model.FakeNews (Part 1: contemporaneous step then T-1 steps fed by curlyV; Part 2: demeaned expectation iterates
    started from the first stage's expectation; Part 3: F[0]=curlyY, F[1:]=curlyE.curlyD; Part 4: diagonal recursion), the
    pipeline of _jacobian wires them in that order with T-1 expectation vectors, and the differentiation dispatch. *)
From Coq Require Import Bool.
From SSJ Require Import Gen.HetFacts.
Theorem code_facts_C01 : J_from_F_shape = true /\ build_F_shape = true /\ backward_fakenews_shape = true /\ expectation_vectors_shape = true /\
  jacobian_pipeline_shape = true /\ backward_step_fakenews_shape = true /\ demean_subtracts_mean = true /\
  hetoutput_derivative_sees_direct_input = true /\ twosided_default_defers_to_constructor = true /\ twosided_request_reaches_backward_and_hetoutputs = true.
Proof. repeat split; reflexivity. Qed.
Print Assumptions code_facts_C01.
