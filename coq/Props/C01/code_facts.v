(** C01 (tie A) -- structural facts extracted from the current source (het_block.py, function.py) by tools/translate.py on
    which the loop models of this property rely. *)
From Coq Require Import Bool.
From SSJ Require Import Gen.HetFacts.
Theorem code_facts_C01 : J_from_F_shape = true /\ build_F_shape = true /\ hetoutput_derivative_sees_direct_input = true /\ twosided_default_defers_to_constructor = true /\ twosided_request_reaches_backward_and_hetoutputs = true.
Proof. repeat split; reflexivity. Qed.
Print Assumptions code_facts_C01.
