(** C01.3 -- THE FAKE-NEWS ALGORITHM IS THE DIRECT LINEAR RECURSION.
    Take any linearised heterogeneous-agent system: distributions V, functions W with a pairing <w,d> additive in d,
    a steady-state forward operator L whose expectation operator Ex is its adjoint (C08: proved for the code's kernels),
    perturbations of the distribution that have zero mass (C08) and a demeaning operation that such perturbations do
    not see, and any linearised backward step.  Then, for EVERY shock date s and response date t -- no horizon bound --
    the entry obtained by the four parts of HetBlock._jacobian (curlyY/curlyD from T backward steps, demeaned
    expectation vectors, the fake-news matrix, the diagonal recursion) equals the response at date t of the direct
    computation for a shock at date s: a backward pass from date s to date 0 followed by a forward pass of the
    distribution.  In particular entries do not depend on the horizon requested. *)
From Coq Require Import List Arith.
From SSJ Require Import Model.FakeNews Proofs.FakeNewsProofs.
Theorem fake_news_is_direct_recursion :
  forall (R V W Wb : Type) (r0 : R) (radd : R -> R -> R),
  (forall a b, radd a b = radd b a) -> (forall a b c, radd a (radd b c) = radd (radd a b) c) -> (forall a, radd r0 a = a) ->
  forall (v0 : V) (vadd : V -> V -> V) (pair : W -> V -> R),
  (forall w a b, pair w (vadd a b) = radd (pair w a) (pair w b)) -> (forall w, pair w v0 = r0) ->
  forall (L : V -> V) (Ex : W -> W), (forall w v, pair (Ex w) v = pair w (L v)) ->
  forall (ZM : V -> Prop), (forall v, ZM v -> ZM (L v)) ->
  forall (dm : W -> W) (WF : W -> Prop), (forall w, WF w -> WF (Ex w)) -> (forall w, WF w -> WF (dm w)) ->
  (forall w v, WF w -> ZM v -> pair (dm w) v = pair w v) ->
  forall (w0 : W), WF w0 -> forall (V0 : Wb) (d0 : V) (y0 : R) (bV : Wb -> Wb) (gD : Wb -> V) (gY : Wb -> R),
  ZM d0 -> (forall b, ZM (gD b)) ->
  forall s t, fake_news_J R V W Wb radd pair Ex dm w0 V0 d0 y0 bV gD gY t s
            = direct_J R V W Wb radd v0 vadd pair L w0 V0 d0 y0 bV gD gY t s.
Proof. exact fake_news_is_direct_recursion_lemma. Qed.
Print Assumptions fake_news_is_direct_recursion.

(** Part 1 is sound: in the direct backward pass the perturbations at date t <= s of a date-s shock are those of
    horizon s - t, so T backward steps serve every column. *)
Theorem backward_pass_depends_on_distance :
  forall (R V Wb : Type) (V0 : Wb) (d0 : V) (y0 : R) (bV : Wb -> Wb) (gD : Wb -> V) (gY : Wb -> R) s t, t <= s ->
  dD_at R V Wb V0 d0 y0 bV gD gY s t = Some (cD V Wb V0 d0 bV gD (s - t)) /\
  dY_at R V Wb V0 d0 y0 bV gD gY s t = Some (cY R Wb V0 y0 bV gY (s - t)).
Proof. intros. apply backward_pass_depends_on_distance_lemma; assumption. Qed.
Print Assumptions backward_pass_depends_on_distance.

(** non-vacuity: the hypotheses are met by a two-state integer system (dot product, a column-stochastic-like matrix and its
    transpose), and the two computations give the same non-trivial number there *)
From Coq Require Import ZArith.
Import ListNotations.
Example fake_news_nonvacuous :
  let Lam := [[1; 2]; [3; 2]]%Z in
  let Ds := [[1; -1]; [2; -2]; [-3; 3]; [1; -1]]%Z in
  let Ys := [5; 1; -2; 4]%Z in
  let w0 := [2; -1]%Z in
  let Es := expvecZ (transposeZ 2 Lam) w0 3 in
  fn_J_arr 4 Ys Ds Es = direct_J_arr 4 Lam w0 Ys Ds /\ nth 2 (nth 3 (fn_J_arr 4 Ys Ds Es) []) 0%Z <> 0%Z.
Proof. vm_compute. split; [reflexivity | discriminate]. Qed.
