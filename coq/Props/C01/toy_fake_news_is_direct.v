(** C01.5 -- the chain for the fixture household is closed: the executable rational instance of the fake-news algorithm (Model/HetJac.v), which
    the correspondence check compares with HetBlock.jacobian (difference quotients included, observed agreement 1e-12), satisfies EVERY hypothesis
    of the abstract theorem fake_news_is_direct_recursion on every grid with two or more points and every row-stochastic steady-state Markov
    matrix -- additive pairing, expectation adjoint to the forward step, zero-mass perturbations kept by the forward step and unseen by
    demeaning of well-shaped arrays, zero-mass contemporaneous and anticipated distribution perturbations (policy shocks and the Markov shifter).
    Hence, for EVERY shock date s and response date t, with no horizon bound, each entry of the instance's Jacobian equals the DIRECT sequence-space
    computation for the same linearised household: a backward pass from date s down to date 0 (contemporaneous response at s, one anticipation
    step per earlier date), then the distribution perturbation pushed forward date by date (Markov step, then policy lottery) and paired with the
    beginning-of-period expectation of the outcome.  Entries therefore do not depend on the horizon requested. *)
From Coq Require Import ZArith QArith Qcanon Bool List Arith.
From SSJ Require Import Lib.Sums Model.HetLoop Model.HetPath Model.FakeNews Model.HetJac Proofs.HetPathProofs Proofs.HetJacProofs Proofs.HetJacDirect.
Import ListNotations.

Theorem toy_fake_news_is_direct : forall nz na agrid egrid Pi_ss kappa ssin ssV ssa ssc ssPi Dbeg h twosided which out_c,
  length agrid = na -> (2 <= na)%nat -> (1 <= nz)%nat -> stochastic nz ssPi ->
  forall T t s, (t < T)%nat -> (s < T)%nat ->
  nth s (nth t (toy_jacobian nz na agrid egrid Pi_ss kappa ssin ssV ssa ssc ssPi Dbeg h twosided which out_c T) []) h0
  = direct_J Qc arr arr arr Qcplus (azero nz na) (vsum nz na) (jpair nz na) (Lfwd nz na agrid ssa ssPi)
      (jw0 nz na ssa ssc ssPi out_c)
      (jV0 nz na agrid egrid Pi_ss kappa ssin ssV ssPi h twosided which)
      (jd0 nz na agrid egrid Pi_ss kappa ssin ssV ssa ssPi Dbeg h twosided which)
      (jy0 nz na agrid egrid Pi_ss kappa ssin ssV ssa ssc ssPi Dbeg h twosided which out_c)
      (jbV nz na agrid egrid Pi_ss kappa ssin ssV ssPi h twosided)
      (jgD nz na agrid egrid Pi_ss kappa ssin ssV ssa ssPi Dbeg h twosided)
      (jgY nz na agrid egrid Pi_ss kappa ssin ssV ssPi Dbeg h twosided out_c) t s.
Proof.
  intros nz na agrid egrid Pi_ss kappa ssin ssV ssa ssc ssPi Dbeg h twosided which out_c Hg Hna Hnz HPi T t s Ht Hs.
  unfold toy_jacobian. rewrite (nth_map_seq0 _ T t []) by exact Ht. rewrite (nth_map_seq0 _ T s h0) by exact Hs.
  apply toy_fake_news_is_direct_lemma; assumption.
Qed.
Print Assumptions toy_fake_news_is_direct.

(** non-vacuity: the two-state, three-point instance of fake_news_executable has a row-stochastic Markov matrix, and an anticipated entry (shock at
    date 2, response at date 1) computed both ways is the same non-zero number *)
Example toy_direct_example :
  let agrid := [hq 0 1; hq 1 1; hq 2 1] in let egrid := [hq 1 2; hq 3 2] in let Pi := [[hq 3 4; hq 1 4]; [hq 1 4; hq 3 4]] in
  let ssin := {| i_r := hq 1 32; i_w := hq 1 1; i_shift := hq 0 1 |} in
  let ssV := [[hq 1 1; hq 2 1; hq 3 1]; [hq 2 1; hq 3 1; hq 4 1]] in let ssa := [[hq 1 2; hq 1 1; hq 3 2]; [hq 1 1; hq 3 2; hq 2 1]] in
  let ssc := [[hq 1 4; hq 1 2; hq 3 4]; [hq 1 2; hq 3 4; hq 1 1]] in let Dbeg := [[hq 1 4; hq 1 8; hq 1 8]; [hq 1 8; hq 1 8; hq 1 4]] in
  let J := toy_jacobian 2 3 agrid egrid Pi (hq 1 8) ssin ssV ssa ssc Pi Dbeg (hq 1 1024) true 1 false 3 in
  let d := direct_J Qc arr arr arr Qcplus (azero 2 3) (vsum 2 3) (jpair 2 3) (Lfwd 2 3 agrid ssa Pi) (jw0 2 3 ssa ssc Pi false)
             (jV0 2 3 agrid egrid Pi (hq 1 8) ssin ssV Pi (hq 1 1024) true 1) (jd0 2 3 agrid egrid Pi (hq 1 8) ssin ssV ssa Pi Dbeg (hq 1 1024) true 1)
             (jy0 2 3 agrid egrid Pi (hq 1 8) ssin ssV ssa ssc Pi Dbeg (hq 1 1024) true 1 false) (jbV 2 3 agrid egrid Pi (hq 1 8) ssin ssV Pi (hq 1 1024) true)
             (jgD 2 3 agrid egrid Pi (hq 1 8) ssin ssV ssa Pi Dbeg (hq 1 1024) true) (jgY 2 3 agrid egrid Pi (hq 1 8) ssin ssV Pi Dbeg (hq 1 1024) true false) 1 2 in
  Qc_eq_bool (nth 2 (nth 1 J []) h0) d && negb (Qc_eq_bool d h0)
  && Qc_eq_bool (hsum 2 (fun z' => ent Pi 0 z')) h1 && Qc_eq_bool (hsum 2 (fun z' => ent Pi 1 z')) h1 = true.
Proof. vm_compute. reflexivity. Qed.
