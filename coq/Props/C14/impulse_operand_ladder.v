(** C14.6 -- (translated isinstance ladder of ImpulseDict.binary_operation) over the operand kinds
    {ImpulseDict, SteadyStateDict, int, float, bool, numpy float64/float32/int64, str, None, list, ndarray, dict}:
    collections act per key, EVERY real scalar type acts elementwise, everything else is refused -- never
    returned as a value. *)
From Coq Require Import ZArith Bool List.
From SSJ Require Import Lib.PySlice Lib.OperandKinds Gen.Containers Model.Containers Proofs.ContainerProofs.
Import ListNotations.
Open Scope Z_scope.

Theorem impulse_operand_ladder_total : forall k,
  impulse_operand_ladder k =
  match k with
  | KImpulse | KSteady => LElementwiseDict
  | KPyInt | KPyFloat | KBool | KNpFloat64 | KNpFloat32 | KNpInt64 => LElementwiseScalar
  | _ => LRefused
  end.
Proof. exact operand_ladder_spec. Qed.
Print Assumptions impulse_operand_ladder_total.
