(** C14.2 -- (J @ x)[o] = sum_i J[o,i] x[i] over the supplied paths that are inputs of J (absent entries zero),
    computed into a fresh path for every output of J -- which overrides a supplied path of the same name --
    and every other key of x is passed through. *)
From Coq Require Import ZArith Bool List.
From SSJ Require Import Lib.PySlice Lib.OperandKinds Gen.Containers Model.Containers Proofs.ContainerProofs.
Import ListNotations.
Open Scope Z_scope.

Theorem apply_is_block_matvec : forall (E V : Type) (e0 : E) (v0 : V) (vadd : V -> V -> V) (eact : E -> V -> V),
  (forall x, vadd x v0 = x) -> (forall x, eact e0 x = v0) ->
  forall J x k, NoDup (jouts E J) ->
  lookup k (apply E V v0 vadd eact J x)
  = (if zmem k (jouts E J) then Some (apply_entry E V v0 vadd eact J x (i_list E V J x) k) else lookup k x)
  /\ apply_entry E V v0 vadd eact J x (i_list E V J x) k
     = fold_left (fun acc i => vadd acc (match lookup i x with Some xi => eact (oden E e0 (jget E J k i)) xi | None => v0 end)) (i_list E V J x) v0.
Proof.
  intros E V e0 v0 vadd eact H1 H2 J x k Hnd. split.
  - apply apply_is_block_matvec_lemma; assumption.
  - apply apply_entry_den; assumption.
Qed.
Print Assumptions apply_is_block_matvec.
