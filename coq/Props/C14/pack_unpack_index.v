(** C14.3 -- (translated slice bounds) for all T > 0 and all cells r >= 0: the row/column/vector slice of block k
    contains r iff k = r / T, the offset inside the block is r mod T, and pack and unpack use identical slices:
    the stacked matrix is the block matrix, and unpack . pack = id, pack . unpack = id. *)
From Coq Require Import ZArith Bool List.
From SSJ Require Import Lib.PySlice Lib.OperandKinds Gen.Containers Model.Containers Proofs.ContainerProofs.
Import ListNotations.
Open Scope Z_scope.

Theorem pack_unpack_index : forall T k r, 0 < T -> 0 <= r ->
  in_range (jpack_row_lo T k) (jpack_row_hi T k) r = (k =? r / T) /\
  in_range (jpack_col_lo T k) (jpack_col_hi T k) r = (k =? r / T) /\
  in_range (junpack_row_lo T k) (junpack_row_hi T k) r = (k =? r / T) /\
  in_range (junpack_col_lo T k) (junpack_col_hi T k) r = (k =? r / T) /\
  in_range (ipack_lo T k) (ipack_hi T k) r = (k =? r / T) /\
  in_range (iunpack_lo T k) (iunpack_hi T k) r = (k =? r / T) /\
  r - jpack_row_lo T (r / T) = r mod T /\ r - jpack_col_lo T (r / T) = r mod T /\
  r - junpack_row_lo T (r / T) = r mod T /\ r - junpack_col_lo T (r / T) = r mod T /\
  r - ipack_lo T (r / T) = r mod T /\ r - iunpack_lo T (r / T) = r mod T.
Proof. exact pack_slices_spec. Qed.
Print Assumptions pack_unpack_index.
