(** C14.5 -- the EXECUTABLE horizon-T model of JacobianDict.compose and JacobianDict.apply used by the second correspondence stream
    (entries absent, SimpleSparse, IdentityMatrix or dense T x T; any horizon; rationals) is Model/Containers.v instantiated with the
    mixed sparse/dense operator algebra of Model/GET.v, whose absent entry is a two-sided zero.  Hence, for every pair of collections:
    (A @ B)[o, i] is the sum over the shared middle names of A[o, m] * B[m, i] in that algebra (absent entries read as zero), the entry is
    absent exactly when no middle name has both factors, outputs/inputs are those of A and B.  That the algebra's sums denote operator
    sums and its products operator products (windowed when a dense factor is involved) are the theorems imported from C05/C03. *)
From Coq Require Import ZArith QArith Qcanon Bool List.
From SSJ Require Import Lib.PySlice Lib.OperandKinds Gen.Containers Model.Sparse Model.Chain Model.GET Model.Containers Model.ContainersT Proofs.ContainerProofs.
Import ListNotations.
Open Scope Z_scope.

Theorem compose_horizon_T : forall T (A B : jdict opr) o i, NoDup (jins opr B) -> In o (jouts opr A) -> In i (jins opr B) ->
  oden opr Ze (jget opr (composeT T A B) o i)
  = fold_left (fun s m => eadd T s (emul T (oden opr Ze (jget opr A o m)) (oden opr Ze (jget opr B m i)))) (m_list opr A B) Ze
  /\ (jget opr (composeT T A B) o i = None <-> forall m, In m (m_list opr A B) -> jget opr A o m = None \/ jget opr B m i = None)
  /\ jouts opr (composeT T A B) = jouts opr A /\ jins opr (composeT T A B) = jins opr B.
Proof.
  intros T A B o i Hnd Ho Hi. unfold composeT.
  assert (H1 : forall x, eadd T Ze x = x) by reflexivity.
  assert (H2 : forall x, eadd T x Ze = x) by (intros [| |]; reflexivity).
  assert (H3 : forall x, emul T Ze x = Ze) by reflexivity.
  assert (H4 : forall x, emul T x Ze = Ze) by (intros [| |]; reflexivity).
  destruct (compose_is_block_product_lemma opr Ze (eadd T) (emul T) H1 H2 H3 H4 A B o i Hnd Ho Hi) as [G1 G2].
  repeat split; try assumption; try reflexivity; apply G2.
Qed.
Print Assumptions compose_horizon_T.

(** non-vacuity: a sparse lead times a dense matrix plus an identity path, T = 3 *)
Example compose_example :
  let A := mkT [(10, [(1, ESp [((1, 0), 2)]); (2, EId)])] [10] [1; 2] in
  let B := mkT [(1, [(5, EDn [[1; 2; 3]; [4; 5; 6]; [7; 8; 9]])]); (2, [(5, ESp [((-1, 0), 1)])])] [1; 2] [5] in
  match run_composeT 3 A B with
  | ([(10, [(5, M)])], [10], [5]) => M = [[(8, 1); (10, 1); (12, 1)]; [(15, 1); (16, 1); (18, 1)]; [(0, 1); (1, 1); (0, 1)]]
  | _ => False
  end.
Proof. vm_compute. reflexivity. Qed.
