(** C14.1 -- for ANY block entries with a zero (dense, sparse or identity operators; no commutativity assumed):
    (A @ B)[o,i] = sum over the shared middle names of A[o,m] * B[m,i], absent entries read as zero blocks, and
    the entry is absent exactly when no middle name has both factors present. *)
From Coq Require Import ZArith Bool List.
From SSJ Require Import Lib.PySlice Lib.OperandKinds Gen.Containers Model.Containers Proofs.ContainerProofs.
Import ListNotations.
Open Scope Z_scope.

Theorem compose_is_block_product : forall (E : Type) (e0 : E) (eadd emul : E -> E -> E),
  (forall x, eadd e0 x = x) -> (forall x, eadd x e0 = x) -> (forall x, emul e0 x = e0) -> (forall x, emul x e0 = e0) ->
  forall A B o i, NoDup (jins E B) -> In o (jouts E A) -> In i (jins E B) ->
  oden E e0 (jget E (compose E eadd emul A B) o i)
  = fold_left (fun s m => eadd s (emul (oden E e0 (jget E A o m)) (oden E e0 (jget E B m i)))) (m_list E A B) e0
  /\ (jget E (compose E eadd emul A B) o i = None <->
      forall m, In m (m_list E A B) -> jget E A o m = None \/ jget E B m i = None)
  /\ jouts E (compose E eadd emul A B) = jouts E A /\ jins E (compose E eadd emul A B) = jins E B.
Proof.
  intros E e0 eadd emul H1 H2 H3 H4 A B o i Hnd Ho Hi.
  destruct (compose_is_block_product_lemma E e0 eadd emul H1 H2 H3 H4 A B o i Hnd Ho Hi) as [G1 G2].
  repeat split; try assumption; try reflexivity; apply G2.
Qed.
Print Assumptions compose_is_block_product.
