(** C18.4 -- apply b then b.inv: identity on names (and lists/tuples of names) that do not collide *)
From Coq Require Import ZArith Bool List.
From SSJ Require Import Model.OSet Model.Bij Proofs.OSetProofs Proofs.BijProofs.
Import ListNotations.
Open Scope Z_scope.

Theorem bij_inverse_roundtrip : forall m b,
  bij_new m = Some b ->
  (forall k, dhas k (bmap b) || negb (dhas k (binv b)) = true -> bget (bij_inv b) (bget b k) = k) /\
  (forall l, no_collision b l = true -> bij_apply_list (bij_inv b) (bij_apply_list b l) = l).
Proof. intros m b H; split; intros; [eapply inverse_roundtrip_name | eapply inverse_roundtrip_list]; eassumption. Qed.
Print Assumptions bij_inverse_roundtrip.
