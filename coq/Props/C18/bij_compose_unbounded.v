(** C18.5 -- UNBOUNDED composition law (any alphabet, any sizes): for constructed bijections f and x (Python dicts with
    unique keys, accepted by the constructor) and any universe U of existing names such that x is a collision-free renaming
    of U and f a collision-free renaming of the renamed universe (every renamed name exists; every target is fresh or is
    itself renamed away), the two-loop construction of Bijection.__matmul__ does not raise and
        (f @ x)[k] = f[x[k]]   for every k in U   (right-to-left composition).
    This supersedes the bounded statement bij_compose_apply_partial for the application law; associativity remains bounded. *)
From Coq Require Import ZArith Bool List.
From SSJ Require Import Model.OSet Model.Bij Proofs.OSetProofs Proofs.BijProofs Proofs.BijCompose.
Import ListNotations.
Open Scope Z_scope.

Theorem bij_compose_apply_unbounded : forall mf mx f x U,
  NoDup (map fst mf) -> NoDup (map fst mx) -> bij_new mf = Some f -> bij_new mx = Some x ->
  renaming x U = true -> renaming f (image x U) = true ->
  exists c, bij_compose f x = Some c /\ forall k, In k U -> bget c k = bget f (bget x k).
Proof. exact bij_compose_apply_unbounded_lemma. Qed.
Print Assumptions bij_compose_apply_unbounded.

(** non-vacuity: a swap composed with a renaming onto a fresh name, on a universe of five names *)
Example compose_nonvacuous :
  let mx := [(1, 2); (2, 1); (3, 30)] in let mf := [(30, 31); (1, 5)] in let U := [1; 2; 3; 4] in
  match bij_new mf, bij_new mx with
  | Some f, Some x => renaming x U = true /\ renaming f (image x U) = true /\
                      option_map (fun c => map (bget c) U) (bij_compose f x) = Some [2; 5; 31; 4]
  | _, _ => False
  end.
Proof. vm_compute. repeat split. Qed.
