(** C18.2 -- results are duplicate-free and ordered by first appearance, left operand first *)
From Coq Require Import ZArith Bool List.
From SSJ Require Import Model.OSet Model.Bij Proofs.OSetProofs Proofs.BijProofs.
Import ListNotations.
Open Scope Z_scope.

Theorem oset_order_laws : forall s t, NoDup s ->
  union s t = of_list (s ++ t) /\ ror t s = of_list (t ++ s) /\
  union s t = s ++ of_list (filter (fun k => negb (mem k s)) t) /\
  intersection s t = filter (fun k => mem k t) s /\ rand t s = filter (fun k => mem k s) (of_list t) /\
  difference s t = filter (fun k => negb (mem k t)) s /\ rsub t s = filter (fun k => negb (mem k s)) (of_list t) /\
  (forall x l, of_list (x :: l) = x :: of_list (filter (fun k => negb (k =? x)) l)) /\ of_list s = s /\
  NoDup (union s t) /\ NoDup (intersection s t) /\ NoDup (difference s t) /\ NoDup (symmetric_difference s t) /\
  NoDup (ror t s) /\ NoDup (rand t s) /\ NoDup (rsub t s) /\ NoDup (rxor t s) /\ NoDup (of_list t).
Proof.
  intros s t H. repeat split; try reflexivity.
  - apply union_is_dedup_concat; assumption.
  - apply ror_is_dedup_concat.
  - apply update_order.
  - intros; apply of_list_cons.
  - apply of_list_NoDup_id; assumption.
  - apply NoDup_update; assumption.
  - apply NoDup_filter; assumption.
  - apply NoDup_filter; assumption.
  - apply NoDup_symdiff_fold; apply NoDup_filter; assumption.
  - apply NoDup_update; apply NoDup_of_list.
  - apply NoDup_filter; apply NoDup_of_list.
  - apply NoDup_filter; apply NoDup_of_list.
  - apply NoDup_symdiff_fold; apply NoDup_filter; apply NoDup_of_list.
  - apply NoDup_of_list.
Qed.
Print Assumptions oset_order_laws.
