(** C18.1 -- union/intersection/difference/symmetric difference agree with mathematical sets for ANY
    operand list t (repeated elements allowed), including the reflected forms. *)
From Coq Require Import ZArith Bool List.
From SSJ Require Import Model.OSet Model.Bij Proofs.OSetProofs Proofs.BijProofs.
Import ListNotations.
Open Scope Z_scope.

Theorem oset_membership_laws : forall x s t,
  (In x (union s t) <-> In x s \/ In x t) /\
  (In x (intersection s t) <-> In x s /\ In x t) /\
  (In x (difference s t) <-> In x s /\ ~ In x t) /\
  (In x (symmetric_difference s t) <-> (In x s /\ ~ In x t) \/ (In x t /\ ~ In x s)) /\
  (In x (ror t s) <-> In x t \/ In x s) /\
  (In x (rand t s) <-> In x t /\ In x s) /\
  (In x (rsub t s) <-> In x t /\ ~ In x s) /\
  (In x (rxor t s) <-> (In x t /\ ~ In x s) \/ (In x s /\ ~ In x t)) /\
  (In x (of_list t) <-> In x t) /\ (In x (add x s)).
Proof.
  intros x s t. unfold ror, rand, rsub, rxor.
  rewrite !In_union, !In_intersection, !In_difference, !In_symmetric_difference, !In_of_list, In_add. tauto.
Qed.
Print Assumptions oset_membership_laws.
