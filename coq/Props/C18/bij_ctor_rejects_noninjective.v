(** C18.4 -- Bijection(map) raises ValueError exactly when two keys share a value (identity pairs included) *)
From Coq Require Import ZArith Bool List.
From SSJ Require Import Model.OSet Model.Bij Proofs.OSetProofs Proofs.BijProofs.
Import ListNotations.
Open Scope Z_scope.

Theorem bij_ctor_rejects_noninjective : forall m, bij_new m = None <-> ~ NoDup (map snd m).
Proof. exact bij_new_rejects_iff. Qed.
Print Assumptions bij_ctor_rejects_noninjective.
