(** C18.6 -- UNBOUNDED associativity of Bijection composition (any alphabet): for constructed bijections h, g, f that are
    collision-free renamings of a universe U, of its image under h, and of the image of that under g, all four compositions
    g@h, f@g, f@(g@h), (f@g)@h are constructed without error and the two bracketings agree on U, both being k |-> f[g[h[k]]].
    (The composition of collision-free renamings is again a constructed bijection and a collision-free renaming.) *)
From Coq Require Import ZArith Bool List.
From SSJ Require Import Model.OSet Model.Bij Proofs.OSetProofs Proofs.BijProofs Proofs.BijCompose.
Import ListNotations.
Open Scope Z_scope.

Theorem bij_compose_assoc_unbounded : forall mf mg mh f g h U,
  NoDup (map fst mf) -> NoDup (map fst mg) -> NoDup (map fst mh) -> bij_new mf = Some f -> bij_new mg = Some g -> bij_new mh = Some h ->
  renaming h U = true -> renaming g (image h U) = true -> renaming f (image g (image h U)) = true ->
  exists gh fg a b, bij_compose g h = Some gh /\ bij_compose f g = Some fg /\ bij_compose f gh = Some a /\ bij_compose fg h = Some b /\
    forall k, In k U -> bget a k = bget b k /\ bget a k = bget f (bget g (bget h k)).
Proof. exact bij_compose_assoc_unbounded_lemma. Qed.
Print Assumptions bij_compose_assoc_unbounded.
