(** C18 -- hypotheses are satisfiable; the model runs *)
From Coq Require Import ZArith Bool List.
From SSJ Require Import Model.OSet Model.Bij Proofs.OSetProofs Proofs.BijProofs.
Import ListNotations.
Open Scope Z_scope.

Example swap_is_renaming : exists b, bij_new [(0, 1); (1, 0)] = Some b /\ renaming b [0; 1; 2] = true /\ no_collision b [0; 1; 2] = true.
Proof. eexists; vm_compute; repeat split. Qed.
Example fresh_is_renaming : exists b, bij_new [(0, 3)] = Some b /\ renaming b [0; 1] = true /\ In b (all_bijs [0; 1; 2; 3]).
Proof. eexists; split; [vm_compute; reflexivity|]. split; [vm_compute; reflexivity|]. vm_compute. tauto. Qed.
Example dup_operand : issuperset [1; 2] [1; 1] = true /\ lt [1; 2] [1; 2; 2] = false /\ ror [3; 1] [1; 2] = [3; 1; 2].
Proof. vm_compute. repeat split. Qed.
