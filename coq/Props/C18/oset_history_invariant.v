(** C18.3 -- over ANY operation history: the receiver stays a duplicate-free list, every returned set is
    duplicate-free, only the in-place operators / add / discard / remove / pop / update change the receiver,
    and the in-place operators return the (mutated) receiver. *)
From Coq Require Import ZArith Bool List.
From SSJ Require Import Model.OSet Model.Bij Proofs.OSetProofs Proofs.BijProofs.
Import ListNotations.
Open Scope Z_scope.

Theorem oset_history_invariant : forall ops s, NoDup s ->
  NoDup (fst (orun s ops)) /\ Forall res_ok (snd (orun s ops)).
Proof. intros; apply orun_NoDup; assumption. Qed.
Print Assumptions oset_history_invariant.

Theorem oset_inplace_vs_pure : forall s o,
  (pure_op o = true -> fst (ostep s o) = s) /\
  match o with OIor _ | OIand _ | OIsub _ | OIxor _ | OUpdate _ => snd (ostep s o) = RSet (fst (ostep s o)) | _ => True end.
Proof. intros; split; [apply pure_ops_frame | apply inplace_ops_return_receiver]. Qed.
Print Assumptions oset_inplace_vs_pure.
