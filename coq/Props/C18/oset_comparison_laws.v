(** C18.1 -- subset/superset/disjointness and < <= > >= for any operand list (repeated elements allowed) *)
From Coq Require Import ZArith Bool List.
From SSJ Require Import Model.OSet Model.Bij Proofs.OSetProofs Proofs.BijProofs.
Import ListNotations.
Open Scope Z_scope.

Theorem oset_comparison_laws : forall s t,
  (issubset s t = true <-> (forall x, In x s -> In x t)) /\
  (issuperset s t = true <-> (forall x, In x t -> In x s)) /\
  (isdisjoint s t = true <-> (forall x, In x s -> ~ In x t)) /\
  (lt s t = true <-> (forall x, In x s -> In x t) /\ ~ (forall x, In x t -> In x s)) /\
  (gt s t = true <-> (forall x, In x t -> In x s) /\ ~ (forall x, In x s -> In x t)) /\
  le s t = issubset s t /\ ge s t = issuperset s t.
Proof.
  intros s t.
  split; [apply issubset_spec|]. split; [apply issuperset_spec|]. split; [apply isdisjoint_spec|].
  split; [apply lt_spec|]. split; [apply gt_spec|]. split; reflexivity.
Qed.
Print Assumptions oset_comparison_laws.
