(** C18.4 (bounded: exhaustive over all partial injective maps on 4 names, resp. 3 names for associativity,
    and every universe U of existing names; proved by vm_compute, bound explicit in the statement) --
    for collision-free renamings (every renamed name exists; every target is fresh or itself renamed away):
    (f @ x)[k] = f[x[k]] (right-to-left composition), and composition is associative.
    The unbounded statement (arbitrary alphabets) is NOT proved:  compose_apply_partial. *)
From Coq Require Import ZArith Bool List.
From SSJ Require Import Model.OSet Model.Bij Proofs.OSetProofs Proofs.BijProofs.
Import ListNotations.
Open Scope Z_scope.

Theorem bij_compose_apply_partial : forall f x U,
  In f (all_bijs [0; 1; 2; 3]) -> In x (all_bijs [0; 1; 2; 3]) -> In U (subsets [0; 1; 2; 3]) ->
  renaming x U = true -> renaming f (image x U) = true ->
  exists c, bij_compose f x = Some c /\ forall k, In k U -> bget c k = bget f (bget x k).
Proof. exact compose_apply_bounded4. Qed.
Print Assumptions bij_compose_apply_partial.

Theorem bij_compose_assoc_partial : forall f g h U,
  In f (all_bijs [0; 1; 2]) -> In g (all_bijs [0; 1; 2]) -> In h (all_bijs [0; 1; 2]) -> In U (subsets [0; 1; 2]) ->
  renaming h U = true -> renaming g (image h U) = true -> renaming f (image g (image h U)) = true ->
  assoc_law f g h U = true.
Proof. exact compose_assoc_bounded3. Qed.
Print Assumptions bij_compose_assoc_partial.
