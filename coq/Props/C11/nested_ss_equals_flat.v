(** C11.7 -- "gives the same steady state ... as listing those unknowns and targets in the enclosing problem instead".  In the executable model of the
    steady state of a model that contains solved blocks (Model/NLNested.v, Section NestedSS: the blocks are evaluated one after another; a solved block
    hands its inner model to a root finder -- ABSTRACT: any function of the block and the table as it stands -- for the values of its unknowns and
    reports the inner model evaluated at them), for every well-formed nesting, calibration table and root finder: whatever values the root finders
    report, the table the nested evaluation arrives at is consistent with EVERY block of the flattened model, and it IS the flattened model
    evaluated block after block from the calibration with exactly those values of the solved blocks' unknowns copied in.  So the nested steady
    state is the flat model's evaluation at the unknown values the inner solvers found; that those values put the inner targets within
    tolerance is the root finders' exit contract (C20) -- the correspondence check replays the implementation's nested steady state through the flat
    evaluation at the implementation's own unknown values. *)
From Coq Require Import ZArith QArith Qcanon Bool List Arith.
From SSJ Require Import Model.Sparse Model.SimpleBlk Model.SimpleBlkQ Model.Chain Model.GET Model.NLSolve Model.NLNested Proofs.NLSolveProofs Proofs.NLNestedProofs Proofs.NLNestedSSProofs.
Import ListNotations.

Theorem nested_ss_equals_flat : forall (solver : solved -> tbl -> option (list Qc)) N prog t0 t, length t0 = N ->
  wf_progb N (flatten prog) = true -> wf_nprogb N prog = true ->
  ss_neval solver prog t0 = Some t ->
  ss_consistent t (flatten prog) /\ length t = N /\
  forall x, qlookup t x = qlookup (ss_eval (flatten prog) (copy_vals (all_unknowns prog) t t0)) x.
Proof.
  intros solver N prog t0 t Hl H1 H2 H.
  pose proof (wf_progb_sound N _ H1) as W1. pose proof (wf_nprogb_sound N _ H2) as W2.
  split; [eapply nested_ss_consistent; eassumption | eapply nested_ss_equals_flat_lemma; eassumption].
Qed.
Print Assumptions nested_ss_equals_flat.

(** non-vacuity: x2 = x0 x1, inner target x3 = 8 x1 + x2^2 - 9 with unknown x1 inside a solved block, x4 = x1 + x0 outside; calibration x0 = 1; a root finder
    that reports x1 = 1: the nested table is [1; 1; 1; 0; 2] and coincides with the flat evaluation at x1 = 1 *)
Definition ss_inner : list sblock :=
  [ {| sb_ins := [0; 1]%nat; sb_outs := [(2%nat, EMul (EVar 0%nat) (EVar 1%nat))] |};
    {| sb_ins := [1; 2]%nat; sb_outs := [(3%nat, ESub (EAdd (EMul (EVar 1%nat) (ENum (qn 8 1))) (EPow (EVar 2%nat) 1%nat)) (ENum (qn 9 1)))] |} ].
Definition ss_nprog : list nblock :=
  [ NSolved {| sv_inner := ss_inner; sv_U := [1%nat]; sv_Tg := [3%nat]; sv_ins := [0%nat]; sv_outs := [1; 2; 3]%nat |};
    NSimple {| sb_ins := [0; 1]%nat; sb_outs := [(4%nat, EAdd (EVar 1%nat) (EVar 0%nat))] |} ].
Example nested_ss_example :
  let t0 := [qn 1 1; qn 0 1; qn 0 1; qn 0 1; qn 0 1] in
  wf_progb 5 (flatten ss_nprog) && wf_nprogb 5 ss_nprog = true /\
  match ss_neval (fun _ _ => Some [qn 1 1]) ss_nprog t0 with
  | Some t => forallb (fun p => Qc_eq_bool (fst p) (snd p)) (combine t [qn 1 1; qn 1 1; qn 1 1; qn 0 1; qn 2 1])
              && forallb (fun p => Qc_eq_bool (fst p) (snd p)) (combine t (ss_eval (flatten ss_nprog) (copy_vals (all_unknowns ss_nprog) t t0))) && Nat.eqb (length t) 5
  | None => false end = true.
Proof. split; vm_compute; reflexivity. Qed.
