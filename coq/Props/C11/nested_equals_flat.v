(** C11.5 -- NESTED = FLAT for nonlinear paths, as an equation.  In the executable model of a model that contains solved blocks (Model/NLNested.v), for
    every well-formed nesting (decidable tests, evaluated in Coq on every generated case), horizon, steady-state table and initial paths in which no
    block output and no solved-block unknown has a path yet (the shocks and the outer unknowns only): whenever the nested evaluation -- with its
    inner Newton solves -- arrives at paths P, those paths are EXACTLY the flattened model (every inner block listed in the outer model) evaluated
    block after block from the same initial paths with each solved block's unknowns set to the paths that solved block reports in P.
    Together with nested_nl_sound (every inner target is within the inner tolerance in P) this is the property's claim for nonlinear transition
    paths: the nested model returns a solution of the enclosing problem in which the inner unknowns and targets are listed as well, the inner
    targets being met to the inner solver's tolerance instead of the outer one. *)
From Coq Require Import ZArith QArith Qcanon Bool List Arith.
From SSJ Require Import Model.Sparse Model.SimpleBlk Model.SimpleBlkQ Model.Chain Model.GET Model.NLSolve Model.NLNested Proofs.NLSolveProofs Proofs.NLNestedProofs.
Import ListNotations.

Theorem nested_equals_flat : forall force imaxit itol T N ss ssi prog P0 P, length P0 = N ->
  wf_progb N (flatten prog) = true -> wf_nprogb N prog = true ->
  (forall b o, In b (flatten prog) -> In o (outs_of b) -> path_of P0 o = []) ->
  (forall nb u, In nb prog -> In u (unknowns_of nb) -> path_of P0 u = []) ->
  neval force imaxit itol T N ss ssi prog P0 = Some P ->
  forall x, path_of P x = path_of (nl_eval force T ss ssi (flatten prog) (copy_paths (all_unknowns prog) P P0)) x.
Proof.
  intros force imaxit itol T N ss ssi prog P0 P Hl H1 H2 Ho Hu He.
  apply (nested_equals_flat_evaluation force itol T N ss ssi prog P0 P Hl (wf_progb_sound N _ H1) (wf_nprogb_sound N _ H2) Ho Hu).
  eapply neval_steps; eassumption.
Qed.
Print Assumptions nested_equals_flat.

(** non-vacuity: on the example of nested_nl_sound the nested result and the flat evaluation coincide on every name *)
Definition ex_inner : list sblock :=
  [ {| sb_ins := [0; 1]%nat; sb_outs := [(2%nat, EMul (EVar 0%nat) (EShift (-1)%Z (EVar 1%nat)))] |};
    {| sb_ins := [1; 2]%nat; sb_outs := [(3%nat, EAdd (EMul (EVar 1%nat) (ENum (qn 8 1))) (EPow (EShift 1%Z (EVar 2%nat)) 1%nat))] |} ].
Definition ex_nprog : list nblock :=
  [ NSolved {| sv_inner := ex_inner; sv_U := [1%nat]; sv_Tg := [3%nat]; sv_ins := [0%nat]; sv_outs := [1; 2; 3]%nat |};
    NSimple {| sb_ins := [0; 1]%nat; sb_outs := [(4%nat, EAdd (EVar 1%nat) (EVar 0%nat))] |} ].
Definition ex_nss : tbl := [qn 1 1; qn 1 1; qn 1 1; qn 9 1; qn 2 1].
Definition list_eqb2 (a b : list Qc) : bool := Nat.eqb (length a) (length b) && forallb (fun p => Qc_eq_bool (fst p) (snd p)) (combine a b).
Example nested_equals_flat_example :
  let P0 := init_paths 5 ex_nss [(0%nat, [qn 1 8; qn 0 1; qn (-1) 16])] in
  match neval false 8 (qn 1 1000000) 3%Z 5 ex_nss ex_nss ex_nprog P0 with
  | Some P => forallb (fun x => list_eqb2 (path_of P x) (path_of (nl_eval false 3%Z ex_nss ex_nss (flatten ex_nprog) (copy_paths (all_unknowns ex_nprog) P P0)) x)) (seq 0 5)
              && negb (list_eqb2 (path_of P 1%nat) [])
  | None => false end = true.
Proof. vm_compute. reflexivity. Qed.
