(** C11 (tie A) -- structural facts extracted from the current source by tools/translate.py on which the abstract model
    of this property relies; a refactoring that changes one of them must be re-examined (the obligation breaks). *)
From Coq Require Import Bool.
From SSJ Require Import Gen.BlockFacts.
Theorem code_facts_C11 : solved_impulse_nonlinear_passes_initial_ss = true /\ solved_factorisation_from_current_ss = true /\ solved_keeps_target_values = true.
Proof. repeat split; reflexivity. Qed.
Print Assumptions code_facts_C11.
