(** C11.1-2 -- in ANY (non-commutative) ring: solving an inner target for an inner unknown first (a solved block) and
    then the outer target through the Schur complement yields a solution of BOTH equations of the flat problem; with
    a = H_Z-columns this is the equality of nested and flat general-equilibrium Jacobians / linear impulses, and by
    induction for any nesting depth. Hypotheses: right inverses of the inner block and of the Schur complement. *)
From Coq Require Import List.
From SSJ Require Import Model.Chain Proofs.ChainProofs.
Theorem nested_is_flat : forall (E : Type) (e0 e1 : E) (eadd emul esub : E -> E -> E) (eopp : E -> E),
  (forall x y, eadd x y = eadd y x) -> (forall x y z, eadd (eadd x y) z = eadd x (eadd y z)) -> (forall x, eadd e0 x = x) ->
  (forall x, eadd x (eopp x) = e0) -> (forall x y z, emul (emul x y) z = emul x (emul y z)) -> (forall x, emul e1 x = x) ->
  (forall x, emul x e1 = x) -> (forall x y z, emul x (eadd y z) = eadd (emul x y) (emul x z)) ->
  (forall x y z, emul (eadd x y) z = eadd (emul x z) (emul y z)) -> (forall x y, esub x y = eadd x (eopp y)) ->
  forall A Ainv B Cc D a b S Sinv,
  emul A Ainv = e1 -> S = eadd D (eopp (emul Cc (emul Ainv B))) -> emul S Sinv = e1 ->
  let v := eopp (emul Sinv (eadd b (eopp (emul Cc (emul Ainv a))))) in
  let u := eopp (emul Ainv (eadd a (emul B v))) in
  eadd (eadd (emul A u) (emul B v)) a = e0 /\ eadd (eadd (emul Cc u) (emul D v)) b = e0.
Proof.
  intros E e0 e1 eadd emul esub eopp H1 H2 H3 H4 H5 H6 H7 H8 H9 H10 A Ainv B Cc D a b S Sinv HA HS HSi.
  eapply (nested_is_flat_lemma E e0 e1 eadd emul esub eopp); eassumption.
Qed.
Print Assumptions nested_is_flat.
