(** C11.3 -- the EXECUTABLE horizon-T model of a model containing a SolvedBlock, used by the correspondence check: the solved
    block enters the outer DAG as a block whose Jacobian is the inner general-equilibrium solve in operator form (entries through the dense G_U are
    dense, an inner output that no inner unknown affects keeps its sparse Jacobian -- as combine([U_Z, block]).jacobian returns them).  Whatever the nested
    computation returns: the inner solve satisfied the inner packed system, the solved block carries exactly its outputs, and
    the outer result is the outer accumulation (no outer unknowns) or an outer solve satisfying the outer packed system.
    The abstract identity nested = flat (C11.1) is exact operator algebra; at a finite horizon the two evaluation orders
    truncate differently, which the example exhibits (and which is why the oracle compares nested and flat forms on a window). *)
From Coq Require Import ZArith QArith Qcanon Bool List Arith.
From SSJ Require Import Model.Chain Model.GET Proofs.GETProofs.
Import ListNotations.
Open Scope Z_scope.

Theorem nested_jacobian_sound : forall T N pre post inner iU iTg iIns iOuts U Tg Zs outs G,
  nested_jacobian T N pre post inner iU iTg iIns iOuts U Tg Zs outs = Some G ->
  exists sb ri Xi,
    ge_solveT T N inner iU iTg iIns iOuts = Some ri
    /\ mmul (ge_HU T N inner iU iTg) Xi = mopp (ge_HZ T N inner iIns iTg)
    /\ c_outs opr sb = iOuts /\ c_ins opr sb = iIns
    /\ (forall o m, c_J opr sb o m = ge_entry T (map (totE T N inner) iU) (map (fun row => nth (index_of m iIns) row []) (ge_GU ri)) (totE T N inner m) o)
    /\ (U = [] -> G = map (fun z => map (fun o => to_dense T (totE T N (pre ++ sb :: post) z o)) outs) Zs)
    /\ (U <> [] -> exists r X, ge_solveT T N (pre ++ sb :: post) U Tg Zs outs = Some r /\ G = ge_out r
                     /\ mmul (ge_HU T N (pre ++ sb :: post) U Tg) X = mopp (ge_HZ T N (pre ++ sb :: post) Zs Tg)).
Proof. exact nested_jacobian_sound_lemma. Qed.
Print Assumptions nested_jacobian_sound.

(** a generated model (found by the correspondence generator): v3 = -v2(+1) + v0 - 2 v1(-2); inner target v4 = 9 v1 + 2 v2(-2) - v0(-1)
    (unknown v1); outer target v5 = 9 v2 + v1 + v3(+1) (unknown v2); T = 4 *)
Definition ex_mid := sblk [3%nat] [2%nat; 0%nat; 1%nat] [((3%nat, 2%nat), [((1, 0), -1)]); ((3%nat, 0%nat), [((0, 0), 1)]); ((3%nat, 1%nat), [((-2, 0), -2)])].
Definition ex_tout := sblk [5%nat] [2%nat; 1%nat; 3%nat] [((5%nat, 2%nat), [((0, 0), 9)]); ((5%nat, 1%nat), [((0, 0), 1)]); ((5%nat, 3%nat), [((1, 0), 1)])].
Definition ex_tin := sblk [4%nat] [1%nat; 2%nat; 0%nat] [((4%nat, 1%nat), [((0, 0), 9)]); ((4%nat, 2%nat), [((-2, 0), 2)]); ((4%nat, 0%nat), [((-1, 0), -1)])].
Definition ex_flat (T : Z) := run_geT T 6 [ex_mid; ex_tin; ex_tout] [1%nat; 2%nat] [4%nat; 5%nat] [0%nat] [1%nat; 2%nat].
Definition ex_nested (T : Z) := run_nested T 6 [] [ex_mid; ex_tout] [ex_tin] [1%nat] [4%nat] [2%nat; 0%nat] [1%nat] [2%nat] [5%nat] [0%nat] [1%nat; 2%nat].

Example nested_returns : exists G, ex_nested 4 = Some G.
Proof. vm_compute. eexists; reflexivity. Qed.
Example nested_and_flat_truncate_differently : ex_flat 4 <> ex_nested 4.
Proof. vm_compute. discriminate. Qed.
