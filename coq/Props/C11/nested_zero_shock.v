(** C11.6 (also C06 / C07: "a zero shock returns zero deviations", "the nonlinear response to no shock is zero") for models that CONTAIN solved blocks,
    in the executable nested model (Model/NLNested.v): whenever the steady-state table is consistent with every block of the model -- the inner blocks
    of every solved block included --, for every horizon, every inner and outer tolerance above zero, every iteration limit of at least one, with or
    without a supplied initial steady state equal to the steady state, and every set of shocked inputs whose paths are all zero: every inner Newton
    solve returns at its first evaluation with zero unknown paths, the outer solve returns at its first evaluation with zero unknown paths, and every
    returned deviation of every variable is exactly zero.  (The solvability of the Jacobian systems is the only side condition: it is what the
    implementation needs to build its factorisations before the loop.) *)
From Coq Require Import ZArith QArith Qcanon Bool List Arith.
From SSJ Require Import Model.Sparse Model.SimpleBlk Model.SimpleBlkQ Model.Chain Model.GET Model.NLSolve Model.NLNested Proofs.NLSolveProofs Proofs.NLNestedProofs.
Import ListNotations.

Theorem nested_zero_shock : forall force im itol T N ss maxit prog U Tg shocks tol HU,
  (g0 < itol)%Qc -> (g0 < tol)%Qc ->
  (forall nb, In nb prog -> block_ok N ss nb) -> (forall d, In d shocks -> (fst d < N)%nat) -> (forall u, In u U -> (u < N)%nat) ->
  (forall d v, In d shocks -> In v (snd d) -> v = g0) ->
  nn_HU T N ss prog U Tg = Some HU ->
  exists res, nn_solve force (S im) itol T N ss ss (S maxit) prog U Tg shocks tol = Converged (map (fun _ => repeat g0 (Z.to_nat T)) U) res /\
              forall o v, In v (dev_of ss res o) -> v = g0.
Proof. intros. eapply nested_zero_shock_lemma; eassumption. Qed.
Print Assumptions nested_zero_shock.

(** non-vacuity: the nested example of nested_nl_sound (solved block with inner unknown x1; outer block x4 = x1 + x0), outer unknown x0 hit by a zero path,
    target x4: the hypotheses hold and the zero path comes back *)
Definition ex_inner : list sblock :=
  [ {| sb_ins := [0; 1]%nat; sb_outs := [(2%nat, EMul (EVar 0%nat) (EShift (-1)%Z (EVar 1%nat)))] |};
    {| sb_ins := [1; 2]%nat; sb_outs := [(3%nat, EAdd (EMul (EVar 1%nat) (ENum (qn 8 1))) (EPow (EShift 1%Z (EVar 2%nat)) 1%nat))] |} ].
Definition ex_nprog : list nblock :=
  [ NSolved {| sv_inner := ex_inner; sv_U := [1%nat]; sv_Tg := [3%nat]; sv_ins := [0%nat]; sv_outs := [1; 2; 3]%nat |};
    NSimple {| sb_ins := [0; 1]%nat; sb_outs := [(4%nat, EAdd (EVar 1%nat) (EVar 0%nat))] |} ].
Definition ex_nss : tbl := [qn 1 1; qn 1 1; qn 1 1; qn 9 1; qn 2 1].
Example nested_zero_shock_example :
  (forall nb, In nb ex_nprog -> block_ok 5 ex_nss nb) /\
  match nn_HU 3%Z 5 ex_nss ex_nprog [0%nat] [4%nat], nn_solve false 8 (qn 1 1000000) 3%Z 5 ex_nss ex_nss 6 ex_nprog [0%nat] [4%nat] [] (qn 1 1000) with
  | Some _, Converged Up res => forallb (fun v => Qc_eq_bool v g0) (concat Up ++ dev_of ex_nss res 1%nat ++ dev_of ex_nss res 4%nat) && Nat.eqb (length (dev_of ex_nss res 4%nat)) 3
  | _, _ => false end = true.
Proof.
  split; [|vm_compute; reflexivity].
  intros nb [<-|[<-|[]]]; (split; [|split]).
  - intros b oe [<-|[<-|[]]] [<-|[]]; vm_compute; reflexivity.
  - intros b oe [<-|[<-|[]]] [<-|[]]; cbn; auto with arith.
  - intros u [<-|[]]; cbn; auto with arith.
  - intros b oe [<-|[]] [<-|[]]; vm_compute; reflexivity.
  - intros b oe [<-|[]] [<-|[]]; cbn; auto with arith.
  - intros u [].
Qed.
