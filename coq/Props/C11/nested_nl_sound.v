(** C11.4 -- the executable model of nonlinear transition paths of a model that CONTAINS solved blocks (Model/NLNested.v: the outer DAG is
    evaluated block after block; a solved block whose inputs are perturbed (or any solved block when an initial steady state is supplied)
    runs a WHOLE inner Newton solve on the outer paths, its unknown and output paths join the outer paths, an inner solve that does not
    converge ends the evaluation without a result; the outer loop is the quasi-Newton loop of C06 with the solved block's Jacobian = the inner
    general-equilibrium Jacobian), for EVERY model with one level of nesting, horizon, steady-state table, shock, tolerances and iteration limits:

    (1) if the outer solve returns (U, results) then results was reached by the outer evaluation from the shocks and the RETURNED outer unknowns,
        every OUTER target is within the outer tolerance at every date, every solved block that ran ended with its INNER targets within the
        inner tolerance on its own result, and its result is the inner model evaluated at the outer paths and the inner unknowns it reports;
        with the iteration limit exhausted nothing is returned;
    (2) NESTED = FLAT: for a well-formed nesting (decidable test [wf_nprogb], evaluated in Coq on every generated case: the flattened listing is a
        well-formed evaluation order; unknowns of solved blocks are fresh names read by no earlier block; inner blocks read only the solved
        block's inputs, unknowns and inner outputs) the paths the nested evaluation leaves satisfy EVERY EQUATION OF THE FLATTENED MODEL -- each
        block of each solved block included -- i.e. they are consistent with the same equations left in the outer model, where a block none
        of whose inputs is perturbed has no path.
    The correspondence check replays outer iterations of the implementation through [run_nn_step] / [run_nn_eval]. *)
From Coq Require Import ZArith QArith Qcanon Bool List Arith.
From SSJ Require Import Model.Sparse Model.SimpleBlk Model.SimpleBlkQ Model.Chain Model.GET Model.NLSolve Model.NLNested Proofs.NLSolveProofs Proofs.NLNestedProofs.
Import ListNotations.

Theorem nested_nl_sound : forall force imaxit itol T N ss ssi,
  (forall maxit prog U Tg shocks tol Up res,
     nn_solve force imaxit itol T N ss ssi maxit prog U Tg shocks tol = Converged Up res ->
     nsteps force itol T ss ssi prog (init_paths N ss (shocks ++ combine U Up)) res /\
     forall tg v, In tg Tg -> In v (dev_of ss res tg) -> (- tol < v)%Qc /\ (v < tol)%Qc) /\
  (forall prog U Tg shocks tol Up res, nn_solve force imaxit itol T N ss ssi 0 prog U Tg shocks tol <> Converged Up res) /\
  (forall prog P0 P, neval force imaxit itol T N ss ssi prog P0 = Some P -> nsteps force itol T ss ssi prog P0 P) /\
  (forall prog P0 P, length P0 = N -> wf_progb N (flatten prog) = true -> wf_nprogb N prog = true ->
     (forall b o, In b (flatten prog) -> In o (outs_of b) -> path_of P0 o = []) ->
     (forall nb u, In nb prog -> In u (unknowns_of nb) -> path_of P0 u = []) ->
     nsteps force itol T ss ssi prog P0 P -> flat_consistent force T ss ssi P (flatten prog)).
Proof.
  intros. split; [intros; eapply nn_solve_sound_lemma; eassumption|].
  split; [intros; apply nn_solve_no_return_lemma|].
  split; [intros; eapply neval_steps; eassumption|].
  intros prog P0 P Hl H1 H2 Ho Hu Hs.
  eapply nested_consistent_with_flat; try eassumption; [apply wf_progb_sound; exact H1 | apply wf_nprogb_sound; exact H2].
Qed.
Print Assumptions nested_nl_sound.

(** non-vacuity: x1 is the unknown of a solved block (inner: x2 = x0 * x1(-1); inner target x3 = 8 x1 + x2(+1)^2), an outer block reads it
    (x4 = x1 + x0); a shock to x0 is absorbed by the inner solve; the nesting is well-formed and the result is consistent with the flat model *)
Definition ex_inner : list sblock :=
  [ {| sb_ins := [0; 1]%nat; sb_outs := [(2%nat, EMul (EVar 0%nat) (EShift (-1)%Z (EVar 1%nat)))] |};
    {| sb_ins := [1; 2]%nat; sb_outs := [(3%nat, EAdd (EMul (EVar 1%nat) (ENum (qn 8 1))) (EPow (EShift 1%Z (EVar 2%nat)) 1%nat))] |} ].
Definition ex_nprog : list nblock :=
  [ NSolved {| sv_inner := ex_inner; sv_U := [1%nat]; sv_Tg := [3%nat]; sv_ins := [0%nat]; sv_outs := [1; 2; 3]%nat |};
    NSimple {| sb_ins := [0; 1]%nat; sb_outs := [(4%nat, EAdd (EVar 1%nat) (EVar 0%nat))] |} ].
Definition ex_nss : tbl := [qn 1 1; qn 1 1; qn 1 1; qn 9 1; qn 2 1].
Example nested_example :
  wf_progb 5 (flatten ex_nprog) && wf_nprogb 5 ex_nprog = true /\
  match neval false 8 (qn 1 1000000) 3%Z 5 ex_nss ex_nss ex_nprog (init_paths 5 ex_nss [(0%nat, [qn 1 8; qn 0 1; qn (-1) 16])]) with
  | Some P => negb (forallb (fun v => Qc_eq_bool v g0) (dev_of ex_nss P 1%nat)) && negb (forallb (fun v => Qc_eq_bool v g0) (dev_of ex_nss P 4%nat)) && nl_ok ex_nss [3%nat] (qn 1 1000000) P
  | None => false end = true /\
  neval false 1 (qn 1 1000000) 3%Z 5 ex_nss ex_nss ex_nprog (init_paths 5 ex_nss [(0%nat, [qn 1 8; qn 0 1; qn (-1) 16])]) = None.
Proof. split; [vm_compute; reflexivity|]. split; vm_compute; reflexivity. Qed.
