(** C12.3 -- renaming variables never changes behaviour, for the executable model of models assembled from simple blocks (Model/NLSolve.v,
    Model/Rename.v): let [pi] rename the N names of a model injectively into a (possibly larger) name space.  For EVERY program whose names are
    below N, every calibration / steady-state / initial-steady-state tables and initial paths that agree through [pi]:
    (a) the steady-state table of the renamed model, read at [pi x], is the steady-state table of the original model at x;
    (b) the nonlinear path of [pi x] in the renamed model is the nonlinear path of x in the original model (any horizon, with or without a supplied
        initial steady state);
    (c) the Jacobian entry (sparse elements) of a renamed expression with respect to the renamed input is the same object, so every chained
        Jacobian, the target-unknown Jacobian and hence every general-equilibrium result is the original one with the names substituted. *)
From Coq Require Import ZArith QArith Qcanon Bool List Arith.
From SSJ Require Import Model.Sparse Model.SimpleBlk Model.SimpleBlkQ Model.Chain Model.GET Model.NLSolve Model.Rename Proofs.RenameProofs.
Import ListNotations.

Theorem dag_renaming : forall pi N N', renaming pi N N' ->
  (forall prog s s', names_below N prog -> length s = N -> length s' = N' -> tbl_renamed pi N s s' ->
     tbl_renamed pi N (ss_eval prog s) (ss_eval (rename_prog pi prog) s')) /\
  (forall force T s s' i0 i0' prog P P', tbl_renamed pi N s s' -> tbl_renamed pi N i0 i0' -> names_below N prog ->
     length P = N -> length P' = N' -> paths_renamed pi N P P' ->
     paths_renamed pi N (nl_eval force T s i0 prog P) (nl_eval force T s' i0' (rename_prog pi prog) P')) /\
  (forall s s' x0 e, tbl_renamed pi N s s' -> (x0 < N)%nat -> (forall x, In x (evars e) -> (x < N)%nat) ->
     qjac_entry (qlookup s') (pi x0) (rename_expr pi e) = qjac_entry (qlookup s) x0 e).
Proof.
  intros pi N N' Hren. split; [intros; apply (ss_eval_renamed_lemma pi N N'); assumption|].
  split; [intros; apply (nl_eval_renamed_lemma pi N N'); assumption|].
  intros; eapply jac_entry_renamed_lemma; eassumption.
Qed.
Print Assumptions dag_renaming.

(** non-vacuity: the example model with its names 0..3 moved to 5, 2, 7, 0 *)
Definition ex_prog : list sblock :=
  [ {| sb_ins := [0; 1]%nat; sb_outs := [(2%nat, EMul (EVar 0%nat) (EShift (-1)%Z (EVar 1%nat)))] |};
    {| sb_ins := [1; 2]%nat; sb_outs := [(3%nat, EAdd (EMul (EVar 1%nat) (ENum (qn 8 1))) (EPow (EShift 1%Z (EVar 2%nat)) 1%nat))] |} ].
Definition ex_pi (x : nat) : nat := nth x [5; 2; 7; 0]%nat 9%nat.
Example ex_renaming : renaming ex_pi 4 8.
Proof.
  split.
  - intros x Hx. do 4 (destruct x as [|x]; [vm_compute; repeat constructor|]). exfalso. apply (Nat.nlt_0_r x). do 4 apply Nat.succ_lt_mono in Hx. exact Hx.
  - intros x y Hx Hy. do 4 (destruct x as [|x]; [do 4 (destruct y as [|y]; [vm_compute; try reflexivity; try discriminate|]); intros _; exfalso; do 4 apply Nat.succ_lt_mono in Hy; exact (Nat.nlt_0_r y Hy)|]).
    exfalso. do 4 apply Nat.succ_lt_mono in Hx. exact (Nat.nlt_0_r x Hx).
Qed.
Example ex_renamed_ss :
  map (fun x => qo (qlookup (ss_eval (rename_prog ex_pi ex_prog) [q0; q0; qn 1 2; q0; q0; qn 3 2; q0; q0]) (ex_pi x))) [0; 1; 2; 3]%nat
  = map qo (ss_eval ex_prog [qn 3 2; qn 1 2; q0; q0]).
Proof. vm_compute. reflexivity. Qed.
