(** C12 (tie A) -- facts extracted from the current source of Block.remap and of the two het-function processors:
    M is composed as (new map) @ (old M), only the new map is applied to the already renamed interface sets, and
    attaching/removing heterogeneous functions re-applies M to the recomputed interface. *)
From Coq Require Import Bool.
From SSJ Require Import Gen.Remap.
Theorem remap_code_order :
  remap_new_after_old = true /\ remap_interface_uses_new_map_only = true /\
  process_hetinputs_hetoutputs_keeps_renaming = true /\ process_hetinputs_keeps_renaming = true.
Proof. repeat split; reflexivity. Qed.
Print Assumptions remap_code_order.
