(** C12 -- what "renaming never changes behaviour" means for the M.inv / M sandwich of blocks/block.py, for any
    name and value types and any block function: (1) a remapped block returns the original results under the
    substituted names and reads its inputs under the substituted names; (2) remapping twice is remapping by the
    composition (new after old) -- the order the code must compose M in (M := new @ M); (3) the identity renaming
    changes nothing; (4) the interface lists are the images of the original lists.  The dictionary-level
    correctness of Bijection (@, inv, application) is C18; the implementation is tied by the oracle. *)
From Coq Require Import List.
From SSJ Require Import Model.Remap Proofs.RemapProofs.
Theorem remap_laws : forall (N V : Type) (run : env N V -> env N V) m1 minv1 m2 minv2 e k (inputs : list N),
  ext N V m2 minv2 (ext N V m1 minv1 run) e k
    = ext N V (fst (remap N m2 minv2 m1 minv1)) (snd (remap N m2 minv2 m1 minv1)) run e k /\
  ((forall x, minv1 (m1 x) = x) -> ext N V m1 minv1 run e (m1 k) = run (fun j => e (m1 j)) k) /\
  ext N V (fun x => x) (fun x => x) run e k = run e k /\
  map (fun j => m2 (m1 j)) inputs = map m2 (map m1 inputs).
Proof.
  intros. split; [apply remap_compose_lemma|]. split; [apply remap_behaviour_lemma|]. split; [apply remap_identity_lemma | apply remap_interface_lemma].
Qed.
Print Assumptions remap_laws.
