(** C12.4 -- the translation of a dictionary through a renaming (Bijection @ dict, the step by which Block.steady_state / jacobian / impulse_* hand a
    remapped block the model's steady state in the block's INTERNAL names: `self.M.inv @ ss`).  For ANY renaming that is injective on its keys and
    ANY dictionary with distinct keys: under the image of every renamed key the result holds the value that key had -- EVEN IF the dictionary also
    holds an unrenamed key equal to that image.  A model with remapped copies of one block next to a block producing the template's plain names has
    exactly such a steady state ({'Y': .., 'Y_a': ..} translated by {Y_a -> Y}); were the plain name to win, the remapped block would be evaluated
    and linearised around the wrong values (the oracle's remap-next-to-plain probe of C04 / C06 exhibits it).
    The executable model [bij_apply_dict] is the one the C18 correspondence compares with the implementation on every dictionary over a finite alphabet. *)
From Coq Require Import ZArith Bool List.
From SSJ Require Import Model.OSet Model.Bij Proofs.BijProofs Proofs.BijDictProofs.
Import ListNotations.
Open Scope Z_scope.

Theorem remapped_names_win : forall (b : bij) (x : dict),
  NoDup (map fst x) ->
  (forall k1 k2 k', dget k1 (bmap b) = Some k' -> dget k2 (bmap b) = Some k' -> k1 = k2) ->
  forall k v k', dget k (bmap b) = Some k' -> In (k, v) x -> dget k' (bij_apply_dict b x) = Some v.
Proof. exact remapped_names_win_lemma. Qed.
Print Assumptions remapped_names_win.

(** non-vacuity: names 1 = 'Y', 2 = 'Y_a', 3 = 'Z'; the steady state {Y: 10, Y_a: 20, Z: 30} translated by {Y_a -> Y}: internal Y gets 20, in either key order *)
Example remapped_names_win_example :
  let b := {| bmap := [(2, 1)]; binv := [(1, 2)] |} in
  dget 1 (bij_apply_dict b [(1, 10); (2, 20); (3, 30)]) = Some 20 /\ dget 1 (bij_apply_dict b [(2, 20); (1, 10); (3, 30)]) = Some 20 /\
  dget 3 (bij_apply_dict b [(1, 10); (2, 20); (3, 30)]) = Some 30.
Proof. vm_compute. repeat split; reflexivity. Qed.
