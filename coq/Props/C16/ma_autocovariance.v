(** C16.2 -- the linear sum is Cov(y_{t,o1}, y_{t+l,o2}) of y_t = sum_s M[s] eps_{t-s} with independent
    shocks of variances sig2 (second moments of formal white noise) *)
From Coq Require Import ZArith Bool List Ring Lia.
From SSJ Require Import Lib.Sums Lib.EstTypes Gen.Estimation Model.Estimation Proofs.EstimationProofs.
Import ListNotations.
Open Scope Z_scope.

Theorem ma_autocovariance : forall (R : Type) (rO rI : R) (radd rmul rsub : R -> R -> R) (ropp : R -> R),
  ring_theory rO rI radd rmul rsub ropp eq ->
  forall T nZ M sig2 l o1 o2, 0 <= l ->
    ma_cov R rO radd rmul T nZ M sig2 l o1 o2 = autocov R rO radd rmul T nZ M sig2 l o1 o2.
Proof. intros; eapply ma_cov_is_autocov; eassumption. Qed.
Print Assumptions ma_autocovariance.
