(** C16.1 on the code's own FFT length (translated: Gen.pad_forward): exact at every lag BELOW T-1.
    The full statement (all lags 0..T-1) is false on this tree: see all_covariances_refuted. *)
From Coq Require Import ZArith Bool List Ring Lia.
From SSJ Require Import Lib.Sums Lib.EstTypes Gen.Estimation Model.Estimation Proofs.EstimationProofs.
Import ListNotations.
Open Scope Z_scope.

Theorem all_covariances_partial : forall (R : Type) (rO rI : R) (radd rmul rsub : R -> R -> R) (ropp : R -> R),
  ring_theory rO rI radd rmul rsub ropp eq ->
  forall T nZ M sig2 l o1 o2, 2 <= T -> 0 <= l < T - 1 ->
    all_covariances R rO radd rmul T nZ M sig2 l o1 o2 = autocov R rO radd rmul T nZ M sig2 l o1 o2.
Proof.
  intros R rO rI radd rmul rsub ropp Rth T nZ M sig2 l o1 o2 HT Hl. unfold all_covariances, pad_forward.
  eapply short_padding_exact_below; eassumption.
Qed.
Print Assumptions all_covariances_partial.

Theorem fft_lengths_consistent : forall T, 2 <= T -> pad_forward T = pad_inverse T /\ cov_keep T = T /\ T <= pad_forward T.
Proof. intros T HT. unfold pad_forward, pad_inverse, cov_keep. lia. Qed.
Print Assumptions fft_lengths_consistent.
