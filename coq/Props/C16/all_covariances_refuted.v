(** C16.1 REFUTED on this tree (known finding D3): with the code's FFT length 2T-2 the lag T-1 entry is the
    true autocovariance PLUS the term M[T-1] S M[0]^T that wraps around; witness T = 2. *)
From Coq Require Import ZArith Bool List Ring Lia.
From SSJ Require Import Lib.Sums Lib.EstTypes Gen.Estimation Model.Estimation Proofs.EstimationProofs.
Import ListNotations.
Open Scope Z_scope.

Theorem all_covariances_lag_T_minus_1_aliases : forall (R : Type) (rO rI : R) (radd rmul rsub : R -> R -> R) (ropp : R -> R),
  ring_theory rO rI radd rmul rsub ropp eq ->
  forall T nZ M sig2 o1 o2, 2 <= T ->
    all_covariances R rO radd rmul T nZ M sig2 (T - 1) o1 o2
    = radd (autocov R rO radd rmul T nZ M sig2 (T - 1) o1 o2)
           (zsum_range rO radd 0 nZ (fun z => rmul (sig2 z) (rmul (M (T - 1) o1 z) (M 0 o2 z)))).
Proof.
  intros R rO rI radd rmul rsub ropp Rth T nZ M sig2 o1 o2 HT. unfold all_covariances, pad_forward.
  eapply short_padding_aliases; eassumption.
Qed.
Print Assumptions all_covariances_lag_T_minus_1_aliases.

Theorem all_covariances_refuted : exists T nZ M sig2 l o1 o2, 2 <= T /\ 0 <= l <= T - 1 /\
  all_covariances Z 0 Z.add Z.mul T nZ M sig2 l o1 o2 <> autocov Z 0 Z.add Z.mul T nZ M sig2 l o1 o2.
Proof. exists 2, 1, (fun _ _ _ => 1), (fun _ => 1), 1, 0, 0. split; [lia|]. split; [lia|]. vm_compute. discriminate. Qed.
Print Assumptions all_covariances_refuted.
