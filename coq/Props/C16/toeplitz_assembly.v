(** C16.3 -- (translated branch ladder) for all Tobs, T, O: entry ((t1,o1),(t2,o2)) of the stacked matrix is
    Cov(y_{t1,o1}, y_{t2,o2}) = gamma(t2-t1)[o1,o2] (zero beyond T-1 lags) plus measurement variance on the
    diagonal, and the matrix is exactly symmetric. *)
From Coq Require Import ZArith Bool List Ring Lia.
From SSJ Require Import Lib.Sums Lib.EstTypes Gen.Estimation Model.Estimation Proofs.EstimationProofs.
Import ListNotations.
Open Scope Z_scope.

Theorem toeplitz_assembly : forall (R : Type) (rO rI : R) (radd rmul rsub : R -> R -> R) (ropp : R -> R),
  ring_theory rO rI radd rmul rsub ropp eq ->
  forall half : R -> R, (forall x, half (radd x x) = x) ->
  forall T Sigma sm2 t1 o1 t2 o2,
    (v_entry R rO radd half T Sigma sm2 t1 o1 t2 o2 = v_entry R rO radd half T Sigma sm2 t2 o2 t1 o1) /\
    ((forall a b, Sigma 0 a b = Sigma 0 b a) ->
     v_entry R rO radd half T Sigma sm2 t1 o1 t2 o2
     = radd (gamma R rO T Sigma (t2 - t1) o1 o2) (if (t1 =? t2) && (o1 =? o2) && (0 <? T) then sm2 o1 else rO)).
Proof.
  intros R rO rI radd rmul rsub ropp Rth half Hh T Sigma sm2 t1 o1 t2 o2. split.
  - eapply v_entry_symmetric; eassumption.
  - intros Hs. eapply v_entry_is_toeplitz; eassumption.
Qed.
Print Assumptions toeplitz_assembly.
