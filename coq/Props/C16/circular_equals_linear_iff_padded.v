(** C16.1 -- for ANY FFT length N >= T the circular correlation is the linear autocovariance plus the
    wrap-around term; with N >= 2T-1 the wrap-around term vanishes at every lag 0..T-1. *)
From Coq Require Import ZArith Bool List Ring Lia.
From SSJ Require Import Lib.Sums Lib.EstTypes Gen.Estimation Model.Estimation Proofs.EstimationProofs.
Import ListNotations.
Open Scope Z_scope.

Theorem circular_equals_linear_iff_padded : forall (R : Type) (rO rI : R) (radd rmul rsub : R -> R -> R) (ropp : R -> R),
  ring_theory rO rI radd rmul rsub ropp eq ->
  forall N T nZ M sig2 l o1 o2, 0 < T <= N -> 0 <= l <= T - 1 ->
    all_cov R rO radd rmul N T nZ M sig2 l o1 o2
      = radd (autocov R rO radd rmul T nZ M sig2 l o1 o2) (alias_cov R rO radd rmul N T nZ M sig2 l o1 o2)
    /\ (2 * T - 1 <= N -> all_cov R rO radd rmul N T nZ M sig2 l o1 o2 = autocov R rO radd rmul T nZ M sig2 l o1 o2).
Proof.
  intros R rO rI radd rmul rsub ropp Rth N T nZ M sig2 l o1 o2 HT Hl. split.
  - eapply all_cov_decompose; eassumption.
  - intros HN. eapply padded_is_exact; try eassumption; lia.
Qed.
Print Assumptions circular_equals_linear_iff_padded.
