(** C06.5 -- zero shock: at a steady-state table that is consistent with the blocks (every block output's steady-state expression
    evaluates to its tabulated value) and with the same initial steady state, for every model of simple blocks, every horizon and
    every positive tolerance, solve_impulse_nonlinear's model returns at the first iteration with U = 0 and every deviation of every
    variable at every date is exactly zero.  Uses the C02 theorem that the time-path interpreter on the steady-state path is constant. *)
From Coq Require Import ZArith QArith Qcanon Bool List Arith.
From SSJ Require Import Model.Sparse Model.SimpleBlk Model.SimpleBlkQ Model.Chain Model.GET Model.NLSolve Proofs.NLSolveProofs.
Import ListNotations.

Theorem nl_zero_shock : forall force maxit N T ss prog U Tg shocks tol,
  ss_consistent ss prog ->
  (forall b oe, In b prog -> In oe (sb_outs b) -> (fst oe < N)%nat) ->
  (forall d, In d shocks -> (fst d < N)%nat) -> (forall u, In u U -> (u < N)%nat) ->
  (forall d v, In d shocks -> In v (snd d) -> v = g0) ->
  (g0 < tol)%Qc ->
  let U0 := map (fun _ => repeat g0 (Z.to_nat T)) U in
  let res := nl_results force N T ss ss prog U shocks U0 in
  nl_solve force (S maxit) N T ss ss prog U Tg shocks tol = Converged U0 res /\
  forall o v, In v (dev_of ss res o) -> v = g0.
Proof. exact nl_zero_shock_lemma. Qed.
Print Assumptions nl_zero_shock.

(** non-vacuity: the steady-state table of the example model is consistent *)
Definition ex_prog : list sblock :=
  [ {| sb_ins := [0; 1]%nat; sb_outs := [(2%nat, EMul (EVar 0%nat) (EShift (-1)%Z (EVar 1%nat)))] |};
    {| sb_ins := [1; 2]%nat; sb_outs := [(3%nat, EAdd (EMul (EVar 1%nat) (ENum (qn 8 1))) (EPow (EShift 1%Z (EVar 2%nat)) 1%nat))] |} ].
Definition ex_ss : tbl := [qn 1 1; qn 1 1; qn 1 1; qn 9 1].
Example ex_consistent : ss_consistent ex_ss ex_prog.
Proof.
  intros b oe Hb Hoe. cbn in Hb. destruct Hb as [<-|[<-|[]]]; cbn in Hoe; destruct Hoe as [<-|[]]; vm_compute; apply Qc_is_canon; reflexivity.
Qed.
