(** C06.1-2 -- the Newton loop of solve_impulse_nonlinear over ANY model evaluation F, tolerance test and update:
    if it returns (U, results) then results = F(U) for the RETURNED unknown path (no stale iterate: U is not updated
    after the successful test) and every target passed the tolerance test; with the iteration limit exhausted there
    is no return; if the first evaluation passes (zero shock) it returns at iteration 0 with U unchanged. *)
From Coq Require Import List.
From SSJ Require Import Model.Chain Proofs.ChainProofs.
Theorem newton_exit_contract : forall (U R : Type) (F : U -> R) (ok : R -> bool) (upd : U -> R -> U) fuel u0,
  (forall u r, newton_loop U R F ok upd fuel u0 = Some (u, r) -> r = F u /\ ok r = true) /\
  newton_loop U R F ok upd 0 u0 = None /\
  (ok (F u0) = true -> newton_loop U R F ok upd (S fuel) u0 = Some (u0, F u0)).
Proof. intros. split; [intros; eapply newton_exit_contract_lemma; eassumption|]. split; [reflexivity | apply newton_zero_shock_lemma]. Qed.
Print Assumptions newton_exit_contract.
