(** C06 (tie A) -- structural facts extracted from the current source by tools/translate.py on which the abstract model
    of this property relies; a refactoring that changes one of them must be re-examined (the obligation breaks). *)
From Coq Require Import Bool.
From SSJ Require Import Gen.BlockFacts.
Theorem code_facts_C06 : newton_loop_shape = true /\ solved_impulse_nonlinear_passes_initial_ss = true /\ combined_impulse_nonlinear_forwards = true.
Proof. repeat split; reflexivity. Qed.
Print Assumptions code_facts_C06.
