(** C06.2 -- the update rule of solve_impulse_nonlinear (U <- U - H_U^{-1} residual(U), with the right inverse as the only
    hypothesis; matrices need not commute): if the targets are affine in the unknowns with Jacobian H_U -- a linear model --
    a single update from ANY starting path solves them exactly, so the nonlinear transition path of a linear model is its
    linear impulse response. *)
From SSJ Require Import Model.Chain Proofs.ChainProofs.
Theorem newton_affine_one_step : forall (E : Type) (e0 e1 : E) (eadd emul esub : E -> E -> E) (eopp : E -> E),
  (forall x y, eadd x y = eadd y x) -> (forall x y z, eadd (eadd x y) z = eadd x (eadd y z)) -> (forall x, eadd e0 x = x) ->
  (forall x, eadd x (eopp x) = e0) -> (forall x y z, emul (emul x y) z = emul x (emul y z)) -> (forall x, emul e1 x = x) -> (forall x, emul x e1 = x) ->
  (forall x y z, emul x (eadd y z) = eadd (emul x y) (emul x z)) -> (forall x y z, emul (eadd x y) z = eadd (emul x z) (emul y z)) ->
  (forall x y, esub x y = eadd x (eopp y)) ->
  forall HU Hinv b U0, emul HU Hinv = e1 ->
  eadd (emul HU (esub U0 (emul Hinv (eadd (emul HU U0) b)))) b = e0.
Proof. intros. eapply newton_affine_one_step_lemma; eassumption. Qed.
Print Assumptions newton_affine_one_step.
