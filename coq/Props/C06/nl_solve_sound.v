(** C06.4 -- the executable model of Block.solve_impulse_nonlinear (Model/NLSolve.v: nonlinear evaluation along the DAG of simple
    blocks, H_U from the derivative accumulators chained by the mixed sparse/dense algebra, checked linear solve, quasi-Newton loop),
    for EVERY model, horizon, with or without a supplied initial steady state ([force]: then no block is skipped), steady-state table, shock, tolerance and iteration limit:
    if it returns (U, results) then results is the model evaluated at the shocks and the RETURNED unknown paths (mutual consistency),
    and every target deviates from zero by less than the tolerance at every date; with the iteration limit exhausted nothing is
    returned; every update applied was U - X with H_U X = stacked target residuals.
    The correspondence check replays each Newton iteration of the implementation through [run_nl_step]. *)
From Coq Require Import ZArith QArith Qcanon Bool List Arith.
From SSJ Require Import Model.Sparse Model.SimpleBlk Model.SimpleBlkQ Model.Chain Model.GET Model.NLSolve Proofs.NLSolveProofs.
Import ListNotations.

Theorem nl_solve_sound : forall force maxit N T ss ssi prog U Tg shocks tol,
  (forall Up res, nl_solve force maxit N T ss ssi prog U Tg shocks tol = Converged Up res ->
     res = nl_eval force T ss ssi prog (init_paths N ss (shocks ++ combine U Up)) /\
     forall tg v, In tg Tg -> In v (dev_of ss res tg) -> (- tol < v)%Qc /\ (v < tol)%Qc) /\
  (forall Up res, nl_solve force 0 N T ss ssi prog U Tg shocks tol <> Converged Up res) /\
  (forall HU Up res Up', nl_update T ss HU Tg Up res = Some Up' ->
     exists X, mmul HU X = map (fun x => [x]) (flat_map (dev_of ss res) Tg) /\
               Up' = map (fun ui => map (fun p => Qcminus (fst p) (snd p))
                                        (combine (nth ui Up []) (firstn (Z.to_nat T) (skipn (ui * Z.to_nat T) (map (fun row => hd g0 row) X)))))
                         (seq 0 (length Up))).
Proof.
  intros. split; [intros Up res H; exact (nl_solve_sound_lemma _ _ _ _ _ _ _ _ _ _ _ _ _ H)|].
  split; [intros; apply nl_solve_no_return_lemma | intros; apply nl_update_sound; assumption].
Qed.
Print Assumptions nl_solve_sound.

(** non-vacuity: x2 = x0 * x1(-1), target x3 = 8 x1 + x2(+1)^2 at the steady state x0 = x1 = 1; a shock to x0 is absorbed in 4 iterations *)
Definition ex_prog : list sblock :=
  [ {| sb_ins := [0; 1]%nat; sb_outs := [(2%nat, EMul (EVar 0%nat) (EShift (-1)%Z (EVar 1%nat)))] |};
    {| sb_ins := [1; 2]%nat; sb_outs := [(3%nat, EAdd (EMul (EVar 1%nat) (ENum (qn 8 1))) (EPow (EShift 1%Z (EVar 2%nat)) 1%nat))] |} ].
Definition ex_ss : tbl := [qn 1 1; qn 1 1; qn 1 1; qn 9 1].
Example nl_solve_converges :
  match nl_solve false 8 4 3%Z ex_ss ex_ss ex_prog [1%nat] [3%nat] [(0%nat, [qn 1 8; qn 0 1; qn (-1) 16])] (qn 1 1000000) with
  | Converged Up res => negb (forallb (fun v => Qc_eq_bool v g0) (concat Up)) | _ => false end = true.
Proof. vm_compute. reflexivity. Qed.
Example nl_solve_gives_up :
  match nl_solve false 1 4 3%Z ex_ss ex_ss ex_prog [1%nat] [3%nat] [(0%nat, [qn 1 8; qn 0 1; qn (-1) 16])] (qn 1 1000000) with
  | NoConvergence => true | _ => false end = true.
Proof. vm_compute. reflexivity. Qed.
