(** C10 -- two formulations whose loops are instances of the SAME recursion give the same paths: the backward recursion
    specification (C09) is a function of the backward step, the expectation and the inputs only, so a backward-function
    block and a stage block (or several Markov dimensions vs their Kronecker product) that present the same step and
    the same expectation operator produce identical recorded values at every date.  That the two implementations do
    present the same operators is checked by paired runs on the implementation. *)
From Coq Require Import List Arith.
From SSJ Require Import Model.HetLoop Proofs.HetLoopProofs.
Theorem same_recursion_same_answers : forall (I B : Type) (bstep1 bstep2 : I -> B -> B) (expect1 expect2 : B -> B) T inputs ss,
  (forall i b, bstep1 i b = bstep2 i b) -> (forall b, expect1 b = expect2 b) ->
  backward_nonlinear I B bstep1 expect1 T inputs ss = backward_nonlinear I B bstep2 expect2 T inputs ss.
Proof.
  intros I B b1 b2 e1 e2 T inputs ss Hb He. rewrite !backward_loop_is_recursion_lemma.
  generalize 0 as t0. induction T as [|T IH]; intros t0; cbn [spec_list]; [reflexivity|].
  rewrite IH, Hb, He. reflexivity.
Qed.
Print Assumptions same_recursion_same_answers.
