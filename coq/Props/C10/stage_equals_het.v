(** C10.3 -- "the same household problem expressed as a backward-function block or as a sequence of stages".  Model/StageLoop.v models the StageBlock
    loops (one period = the stages in REVERSE order, each fed the backward output of the stage after it; the first stage's output is carried to the
    previous date; the forward pass hands the distribution from stage to stage and from date to date).  For ANY household written as an exogenous stage
    followed by a continuous-choice stage, and ANY backward-function household such that
      - the exogenous stage, fed a date's inputs and that date's backward variables, returns the expectation the HetBlock loop takes of that date's record,
      - the continuous stage, fed the expected continuation, returns what the backward function returns (backward variables and reported outcomes),
      - the two laws of motion act like the HetBlock's exogenous and endogenous transitions,
    and for every horizon, input path and terminal record with (stage terminal condition) = (expectation of the HetBlock terminal record):
      (a) at every date the reports of the continuous stage are the reported outcomes of the backward-function household's record of that date
          (the stage loop brackets the chain as expectation-after-step, the HetBlock loop as step-after-expectation);
      (b) at every date the distributions at the beginning of the exogenous and of the continuous stage are the HetBlock's Dbeg_t and D_t.
    Hence equal aggregates, policies and distributions along every nonlinear impulse.  That the implementation's two formulations of the fixture
    household satisfy the hypotheses is tied by the correspondence check: the executable instances of BOTH loop models (Model/HetPath.v,
    Model/StagePath.v) are compared with HetBlock / StageBlock.impulse_nonlinear. *)
From Coq Require Import ZArith QArith Qcanon List Arith.
From SSJ Require Import Model.HetLoop Model.HetPath Model.StageLoop Model.StagePath Proofs.HetLoopProofs Proofs.StageLoopProofs Proofs.StagePathProofs.
Import ListNotations.
Open Scope nat_scope.

Theorem stage_equals_het : forall (I Bh B Rp L Dist : Type) (bstep : I -> Bh -> Bh) (expect : Bh -> Bh) (exog endog : Bh -> Dist -> Dist)
  (s_ex s_ct : stage I B Rp L) (lom_apply : L -> Dist -> Dist) (V_of : Bh -> B) (in_of : Bh -> I) (rep_of : Bh -> Rp),
  (forall i x, in_of (bstep i x) = i) ->
  (forall bh, fst (fst (s_ex (in_of bh) (V_of bh))) = V_of (expect bh)) ->
  (forall bh D, lom_apply (snd (s_ex (in_of bh) (V_of bh))) D = exog bh D) ->
  (forall i e, fst (fst (s_ct i (V_of e))) = V_of (bstep i e)) ->
  (forall i e, snd (fst (s_ct i (V_of e))) = rep_of (bstep i e)) ->
  (forall i e D, lom_apply (snd (s_ct i (V_of e))) D = endog (bstep i e) D) ->
  forall T inputs ss ssb Dbeg, ssb = V_of (expect ss) ->
  map fst (stage_backward I B Rp L [s_ex; s_ct] T inputs ssb)
  = map (fun bh => [snd (fst (s_ex (in_of bh) (V_of bh))); rep_of bh]) (backward_nonlinear I Bh bstep expect T inputs ss) /\
  stage_forward L Dist lom_apply (map snd (stage_backward I B Rp L [s_ex; s_ct] T inputs ssb)) Dbeg
  = map (fun dd => [fst dd; snd dd]) (forward_nonlinear Bh Dist exog endog (backward_nonlinear I Bh bstep expect T inputs ss) Dbeg).
Proof.
  intros. split.
  - eapply stage_reports_equal_het_lemma; eassumption.
  - eapply stage_distributions_equal_het_lemma; eassumption.
Qed.
Print Assumptions stage_equals_het.

(** the fixture household: its executable stage instance (Model/StagePath.v) and its executable HetBlock-form instance (Model/HetPath.v) -- the two models
    the correspondence check compares with StageBlock / HetBlock.impulse_nonlinear -- give the same reported policies and the same distributions at EVERY
    date, for every horizon, input path, terminal record carrying the Markov matrix of its own inputs, and initial distribution: the hypotheses of
    stage_equals_het hold for them by computation *)
Theorem toy_stage_equals_toy_het : forall nz na agrid egrid Pi_ss kappa T inputs (ssin : toy_in) (ss : hback) Dbeg,
  b_Pi ss = toy_Pi nz Pi_ss (i_shift ssin) ->
  let recs := backward_nonlinear toy_in hback (bstepB toy_in (toy_step nz na agrid egrid Pi_ss kappa)) (expectB nz na) T inputs ss in
  let sb := stage_backward toy_in arr trep tlom (toy_stages nz na agrid egrid Pi_ss kappa) T inputs (mk_expect nz na (toy_Pi nz Pi_ss (i_shift ssin)) (b_V ss)) in
  map fst sb = map (fun b => [([], []); (b_a b, b_c b)]) recs /\
  stage_forward tlom arr (tlom_apply nz na agrid) (map snd sb) Dbeg
  = map (fun dd => [fst dd; snd dd]) (forward_nonlinear hback arr (exogB nz na) (endogB nz na agrid) recs Dbeg).
Proof. intros. apply toy_stage_equals_toy_het_lemma. assumption. Qed.
Print Assumptions toy_stage_equals_toy_het.

(** non-vacuity 1: an integer instance satisfying every hypothesis (records = (input, value)), three dates *)
Example stage_equals_het_instance :
  let bstep := fun (i : nat) (e : nat * nat) => (i, snd e + i) in
  let expect := fun (b : nat * nat) => (fst b, 2 * snd b + fst b) in
  let s_ex := fun (i v : nat) => (2 * v + i, 0, i) in
  let s_ct := fun (i v : nat) => (v + i, v * i, i + 100) in
  let rep_of := fun (b : nat * nat) => (snd b - fst b) * fst b in
  let inputs := fun t => t + 1 in
  map fst (stage_backward nat nat nat nat [s_ex; s_ct] 3 inputs (snd (expect (7, 5))))
  = map (fun bh => [0; rep_of bh]) (backward_nonlinear nat (nat * nat) bstep expect 3 inputs (7, 5))
  /\ nth 1 (fst (nth 0 (stage_backward nat nat nat nat [s_ex; s_ct] 3 inputs (snd (expect (7, 5)))) ([], []))) 0 <> 0.
Proof. vm_compute. split; [reflexivity | discriminate]. Qed.

(** non-vacuity 2: the two executable instances of the fixture household (two income states, three grid points, two dates, a shock to r and to the
    Markov shifter) give the same aggregates and the same distributions *)
Example toy_stage_equals_toy_het_example :
  let agrid := [hq 0 1; hq 1 1; hq 2 1] in let egrid := [hq 1 2; hq 3 2] in let Pi := [[hq 3 4; hq 1 4]; [hq 1 4; hq 3 4]] in
  let ins := [{| i_r := hq 1 16; i_w := hq 1 1; i_shift := hq 1 16 |}; {| i_r := hq 0 1; i_w := hq 1 1; i_shift := hq 0 1 |}] in
  let ssV := [[hq 1 1; hq 2 1; hq 3 1]; [hq 2 1; hq 3 1; hq 4 1]] in
  let Dbeg := [[hq 1 4; hq 1 8; hq 1 8]; [hq 1 8; hq 1 8; hq 1 4]] in
  let '(_, fwd_h, agg_h) := het_paths 2 3 agrid toy_in (toy_step 2 3 agrid egrid Pi (hq 1 8)) 2 (fun t => nth t ins {| i_r := h0; i_w := h0; i_shift := h0 |})
                              {| b_V := ssV; b_a := []; b_c := []; b_Pi := Pi |} Dbeg in
  let '(_, fwd_s, agg_s) := toy_stage_paths 2 3 agrid egrid Pi (hq 1 8) 2 (fun t => nth t ins {| i_r := h0; i_w := h0; i_shift := h0 |}) (mk_expect 2 3 Pi ssV) Dbeg in
  forallb (fun p => Qc_eq_bool (fst (fst p)) (fst (snd p)) && Qc_eq_bool (snd (fst p)) (snd (snd p))) (combine agg_h agg_s)
  && Nat.eqb (length agg_s) 2
  && forallb (fun p => forallb (fun q => forallb (fun xy => Qc_eq_bool (fst xy) (snd xy)) (combine (fst q) (snd q))) (combine (snd (fst p)) (nth 1 (snd p) []))) (combine fwd_h fwd_s) = true.
Proof. vm_compute. reflexivity. Qed.
