(** C10.2 -- the same exogenous process as two independent Markov dimensions or as their Kronecker product: for ALL sizes n1, n2,
    all matrices Pi1 (n1 x n1), Pi2 (n2 x n2) and all state arrays D[z1, z2] (further dimensions are carried pointwise), pushing a
    distribution forward dimension by dimension (CombinedTransition of Markov stages: Pi1 on dimension 0, then Pi2 on dimension 1)
    equals pushing the flattened array D[z1 * n2 + z2] through the single matrix np.kron(Pi1, Pi2); the same for the expectation
    (backward) operators; the two dimensions may be applied in either order; and the Kronecker product of row-stochastic matrices
    is row-stochastic; and the product of stationary distributions of the two matrices is stationary for the dimension-by-dimension transition,
    hence (first statement) for the Kronecker product: both formulations have the same steady-state exogenous distribution.
    Identities of integer polynomials: valid in every commutative ring. *)
From Coq Require Import ZArith Bool List.
From SSJ Require Import Lib.Sums Model.Transitions Model.Kron Proofs.KronProofs.
Import ListNotations.
Open Scope Z_scope.

Theorem kron_equals_sequential : forall n1 n2 (Pi1 Pi2 D : Z -> Z -> Z), 0 <= n1 -> 0 <= n2 ->
  (forall z1 z2, 0 <= z2 < n2 -> fwd_kron n1 n2 Pi1 Pi2 D (z1 * n2 + z2) = fwd_seq n1 n2 Pi1 Pi2 D z1 z2) /\
  (forall z1 z2, 0 <= z2 < n2 -> exp_kron n1 n2 Pi1 Pi2 D (z1 * n2 + z2) = exp_seq n1 n2 Pi1 Pi2 D z1 z2) /\
  (forall z1 z2, fwd_dim1 n2 Pi2 (fwd_dim0 n1 Pi1 D) z1 z2 = fwd_dim0 n1 Pi1 (fwd_dim1 n2 Pi2 D) z1 z2 /\
                 exp_dim0 n1 Pi1 (exp_dim1 n2 Pi2 D) z1 z2 = exp_dim1 n2 Pi2 (exp_dim0 n1 Pi1 D) z1 z2) /\
  ((forall a, 0 <= a < n1 -> zs 0 n1 (Pi1 a) = 1) -> (forall b, 0 <= b < n2 -> zs 0 n2 (Pi2 b) = 1) ->
   forall a b, 0 <= a < n1 -> 0 <= b < n2 -> zs 0 (n1 * n2) (kron n2 Pi1 Pi2 (a * n2 + b)) = 1) /\
  (forall p1 p2 : Z -> Z, (forall z1', zs 0 n1 (fun z1 => Pi1 z1 z1' * p1 z1) = p1 z1') -> (forall z2', zs 0 n2 (fun z2 => Pi2 z2 z2' * p2 z2) = p2 z2') ->
   forall z1' z2', 0 <= z2' < n2 -> fwd_seq n1 n2 Pi1 Pi2 (fun a b => p1 a * p2 b) z1' z2' = p1 z1' * p2 z2' /\
                   fwd_kron n1 n2 Pi1 Pi2 (fun a b => p1 a * p2 b) (z1' * n2 + z2') = p1 z1' * p2 z2').
Proof.
  intros n1 n2 Pi1 Pi2 D H1 H2. split; [intros; apply kron_forward_lemma; assumption|].
  split; [intros; apply kron_expectation_lemma; assumption|]. split; [intros; apply dims_commute_lemma|].
  split; [apply kron_stochastic_lemma; assumption|].
  intros p1 p2 Hp1 Hp2 z1' z2' Hz. split; [apply product_stationary_lemma; assumption|].
  rewrite kron_forward_lemma by assumption. apply product_stationary_lemma; assumption.
Qed.
Print Assumptions kron_equals_sequential.

(** non-vacuity: a 2 x 3 example evaluated *)
Example kron_example :
  let P1 := fun a b => nth (Z.to_nat b) (nth (Z.to_nat a) [[1; 2]; [3; 4]]%list nil) 0 in
  let P2 := fun a b => nth (Z.to_nat b) (nth (Z.to_nat a) [[1; 0; 2]; [0; 1; 1]; [5; 1; 0]]%list nil) 0 in
  let D := fun a b => a * 10 + b + 1 in
  fwd_kron 2 3 P1 P2 D (1 * 3 + 2) = fwd_seq 2 3 P1 P2 D 1 2 /\ fwd_seq 2 3 P1 P2 D 1 2 <> 0.
Proof. vm_compute. split; [reflexivity | discriminate]. Qed.
