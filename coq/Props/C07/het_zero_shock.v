(** C07.4 -- "the nonlinear response to no shock is zero" for the executable instance of the HetBlock loops (Model/HetPath.v), for ANY household:
    if the reported steady state is a fixed point of the backward step (one step under the steady-state inputs from the expectation of its own value
    function reproduces value function, policies, outcomes and Markov matrix) and the reported beginning-of-period distribution is invariant under the
    Markov matrix followed by the policy lottery, then along a path whose inputs stay at their steady-state values, for every horizon, EVERY date
    repeats the steady state: same individual policies, same distributions, same aggregates -- exactly.  (The implementation's steady state satisfies
    the two premises only up to the tolerances of its inner iterations, which is why its own response to a zero shock is of that order; the oracle
    bounds it.) *)
From Coq Require Import ZArith QArith Qcanon Bool List Arith.
From SSJ Require Import Lib.Sums Model.HetLoop Model.HetPath Proofs.HetPathProofs.
Import ListNotations.

Theorem het_zero_shock : forall nz na agrid (I : Type) (step : I -> arr -> hback) T (inputs : nat -> I) ss Dbeg,
  (forall t, step (inputs t) (mk_expect nz na (b_Pi ss) (b_V ss)) = ss) ->
  lottery_forward nz na agrid (b_a ss) (mk_forward nz na (b_Pi ss) Dbeg) = Dbeg ->
  let '(back, fwd, agg) := het_paths nz na agrid I step T inputs ss Dbeg in
  (forall b, In b back -> b = ss) /\ (forall d, In d fwd -> d = (Dbeg, mk_forward nz na (b_Pi ss) Dbeg)) /\
  (forall ac, In ac agg -> ac = (aggregate nz na (mk_forward nz na (b_Pi ss) Dbeg) (b_a ss), aggregate nz na (mk_forward nz na (b_Pi ss) Dbeg) (b_c ss))).
Proof. exact het_zero_shock_lemma. Qed.
Print Assumptions het_zero_shock.

(** non-vacuity: a household whose step is constant and whose policy maps every asset position to grid point 1 (the distribution concentrated there is invariant
    under the identity Markov matrix) *)
Definition ex_ss : hback := {| b_V := [[h0; h0; h0]]; b_a := [[hq 1 1; hq 1 1; hq 1 1]]; b_c := [[hq 2 1; hq 2 1; hq 2 1]]; b_Pi := [[h1]] |}.
Example ex_premises :
  lottery_forward 1 3 [hq 0 1; hq 1 1; hq 2 1] (b_a ex_ss) (mk_forward 1 3 (b_Pi ex_ss) [[h0; h1; h0]]) = [[h0; h1; h0]].
Proof. vm_compute. repeat f_equal; apply Qc_is_canon; reflexivity. Qed.
