(** C07.3 -- steady state of a model assembled from simple blocks (executable model Model/NLSolve.v [ss_eval]: CombinedBlock._steady_state
    evaluates the blocks one after another from the calibration): for EVERY well-formed evaluation order (expressions read declared
    inputs, every name produced once, no later block produces a name an earlier block reads or produces -- the decidable test [wf_progb],
    which the correspondence check evaluates on every generated case), every calibration table:
    (a) the resulting table is consistent with every block (each output equals its steady-state expression at the table);
    (b) it is a fixed point: re-evaluating the model at it reproduces it exactly;
    (c) the nonlinear response to a zero shock around it is exactly zero for every variable at every date, for any horizon, and the
        nonlinear general-equilibrium solver returns at once with zero unknown paths (any unknowns/targets, any positive tolerance). *)
From Coq Require Import ZArith QArith Qcanon Bool List Arith Lia.
From SSJ Require Import Model.Sparse Model.SimpleBlk Model.SimpleBlkQ Model.Chain Model.GET Model.NLSolve Proofs.NLSolveProofs.
Import ListNotations.

Theorem dag_steady_state_fixed_point : forall N prog calib, length calib = N -> wf_progb N prog = true ->
  let ss := ss_eval prog calib in
  ss_consistent ss prog /\
  ss_eval prog ss = ss /\
  forall force maxit T U Tg shocks tol,
    (forall d, In d shocks -> (fst d < N)%nat) -> (forall u, In u U -> (u < N)%nat) ->
    (forall d v, In d shocks -> In v (snd d) -> v = g0) -> (g0 < tol)%Qc ->
    let U0 := map (fun _ => repeat g0 (Z.to_nat T)) U in
    let res := nl_results force N T ss ss prog U shocks U0 in
    nl_solve force (S maxit) N T ss ss prog U Tg shocks tol = Converged U0 res /\ forall o v, In v (dev_of ss res o) -> v = g0.
Proof.
  intros N prog calib Hl Hwfb ss. pose proof (wf_progb_sound N prog Hwfb) as Hwf.
  assert (Hc : ss_consistent ss prog) by (apply (ss_eval_consistent_lemma N); assumption).
  assert (Hlt : forall b o, In b prog -> In o (outs_of b) -> (o < N)%nat) by (apply wf_prog_outs_lt; exact Hwf).
  assert (HlN : length ss = N).
  { unfold ss. destruct (ss_eval_untouched N prog calib Hl Hlt) as [L _]. exact L. }
  split; [exact Hc|]. split; [apply (ss_eval_idempotent_lemma N); assumption|].
  intros force maxit T U Tg shocks tol Hsh HU Hz Htol.
  apply nl_zero_shock_lemma; try assumption.
  intros b oe Hb Hoe. apply (Hlt b); [exact Hb | apply in_map; exact Hoe].
Qed.
Print Assumptions dag_steady_state_fixed_point.

(** non-vacuity: a well-formed two-block order *)
Definition ex_prog : list sblock :=
  [ {| sb_ins := [0; 1]%nat; sb_outs := [(2%nat, EMul (EVar 0%nat) (EShift (-1)%Z (EVar 1%nat)))] |};
    {| sb_ins := [1; 2]%nat; sb_outs := [(3%nat, EAdd (EMul (EVar 1%nat) (ENum (qn 8 1))) (EPow (EShift 1%Z (EVar 2%nat)) 1%nat))] |} ].
Example ex_wf : wf_prog 4 ex_prog.
Proof. apply wf_progb_sound. vm_compute. reflexivity. Qed.
Example ex_ss : map qo (ss_eval ex_prog [qn 3 2; qn 1 2; q0; q0]) = [(3, 2); (1, 2); (3, 4); (73, 16)]%Z.
Proof. vm_compute. reflexivity. Qed.
