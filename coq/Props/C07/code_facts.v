(** C07 (tie A) -- structural facts extracted from the current source (het_block.py, stage_block.py, function.py) by
    tools/translate.py on which the loop models of this property rely: backward/forward steady-state iterations test every
    10th iteration; every call of a bundled or scipy solver in solve_for_unknowns is handed the requested tolerance;, over ALL policy (HetBlock) resp. ALL backward (StageBlock) variables, and raise when the limit is reached. *)
From Coq Require Import Bool.
From SSJ Require Import Gen.HetFacts Gen.Solvers.
Theorem code_facts_C07 : backward_steady_state_shape = true /\ forward_steady_state_shape = true /\ aggregates_weight_by_D = true /\
  stage_backward_steady_state_shape = true /\ every_solver_call_receives_the_tolerance = true.
Proof. repeat split; reflexivity. Qed.
Print Assumptions code_facts_C07.
