(** C07 (tie A) -- structural facts extracted from the current source (het_block.py, function.py) by tools/translate.py on
    which the loop models of this property rely. *)
From Coq Require Import Bool.
From SSJ Require Import Gen.HetFacts.
Theorem code_facts_C07 : backward_steady_state_shape = true /\ forward_steady_state_shape = true /\ aggregates_weight_by_D = true.
Proof. repeat split; reflexivity. Qed.
Print Assumptions code_facts_C07.
