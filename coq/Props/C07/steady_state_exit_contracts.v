(** C07.1-2 -- the backward and forward steady-state iterations of HetBlock ("test only when it mod 10 = r", for/else
    raise) over ANY step and closeness test: what is returned is one step from the previous iterate and passed the
    closeness test against the iterate it was compared with; with the iteration limit exhausted nothing is returned.
    Together with iteration_exit_contract (C17) and the mass/non-negativity step lemmas of C08 this gives: the returned
    distribution has mass one and is within tolerance of being invariant. *)
From Coq Require Import List Arith Bool.
From SSJ Require Import Model.HetLoop Proofs.HetLoopProofs.
Theorem steady_state_exit_contracts : forall (S : Type) (step : S -> S) (close : S -> S -> bool) r fuel it old cur o p n,
  (ss_iter S step close r fuel it old cur = Some (o, p, n) -> n = step p /\ close n o = true) /\
  ss_iter S step close r 0 it old cur = None.
Proof. intros. split; [intros; eapply ss_iter_contract_lemma; eassumption | reflexivity]. Qed.
Print Assumptions steady_state_exit_contracts.
