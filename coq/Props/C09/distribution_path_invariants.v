(** C09.3 -- along the forward pass of a nonlinear impulse, for any number of dates and any transitions: a property of
    distributions that every exogenous and every endogenous step preserves (C08 proves mass conservation -- and non-negativity
    for lottery weights in [0,1] -- of the code's kernels) holds of the beginning-of-period AND the end-of-period distribution
    at EVERY date; in particular total mass at every date equals the mass of the initial distribution. *)
From Coq Require Import List.
From SSJ Require Import Model.HetLoop Proofs.HetLoopProofs.
Theorem distribution_path_invariants : forall (B Dist : Type) (exog endog : B -> Dist -> Dist),
  (forall P : Dist -> Prop, (forall b d, P d -> P (exog b d)) -> (forall b d, P d -> P (endog b d)) ->
     forall paths Dbeg, P Dbeg -> forall d, In d (forward_nonlinear B Dist exog endog paths Dbeg) -> P (fst d) /\ P (snd d)) /\
  (forall (R : Type) (mass : Dist -> R), (forall b d, mass (exog b d) = mass d) -> (forall b d, mass (endog b d) = mass d) ->
     forall paths Dbeg d, In d (forward_nonlinear B Dist exog endog paths Dbeg) -> mass (fst d) = mass Dbeg /\ mass (snd d) = mass Dbeg).
Proof.
  intros B Dist exog endog. split.
  - intros P. apply forward_invariant_lemma.
  - intros R mass. apply forward_conserved_lemma.
Qed.
Print Assumptions distribution_path_invariants.
