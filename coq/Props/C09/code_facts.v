(** C09 (tie A) -- structural facts extracted from the current source (het_block.py, function.py) by tools/translate.py on
    which the loop models of this property rely. *)
From Coq Require Import Bool.
From SSJ Require Import Gen.HetFacts.
Theorem code_facts_C09 : backward_nonlinear_shape = true /\ forward_nonlinear_shape = true /\ impulse_uses_initial_distribution_and_copies_ss = true.
Proof. repeat split; reflexivity. Qed.
Print Assumptions code_facts_C09.
