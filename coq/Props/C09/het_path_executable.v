(** C09.4 -- the executable rational instance of the HetBlock nonlinear-impulse loops (Model/HetPath.v; the correspondence check runs it
    against HetBlock.impulse_nonlinear), for EVERY backward step, grid, horizon, input path, terminal value and initial distribution:
    (a) it is the pair of loops of Model/HetLoop.v, so date t's backdict is one backward step under date t's inputs from the expectation
        (through date t+1's own Markov matrix) of date t+1's values, the steady state being the terminal condition; D_t is Dbeg_t pushed
        through date t's Markov matrix, Dbeg_{t+1} is D_t pushed through date t's policy lottery, Dbeg_0 is the supplied distribution;
    (b) whenever every date's Markov matrix is row-stochastic and the asset grid has at least two points, total mass of Dbeg_t and of D_t
        equals the initial mass at EVERY date (policies may leave the grid: the lottery extrapolates but still conserves mass);
    (c) on a grid whose neighbouring points differ, the assets carried into date t+1 by its beginning-of-period distribution,
        sum Dbeg_{t+1} * a_grid, equal date t's aggregate of the asset policy sum D_t * a_t (mean preservation, extrapolation included);
    (d) the fixture household of the correspondence check keeps its Markov matrix row-stochastic under any shifter, so (b) applies to it. *)
From Coq Require Import ZArith QArith Qcanon Bool List Arith.
From SSJ Require Import Lib.Sums Model.HetLoop Model.HetPath Proofs.HetLoopProofs Proofs.HetPathProofs.
Import ListNotations.

Theorem het_path_executable : forall (nz na : nat) (agrid : list Qc), length agrid = na -> (2 <= na)%nat ->
  (forall (I : Type) (step : I -> arr -> hback) T inputs ss,
     let back := backward_nonlinear I hback (bstepB I step) (expectB nz na) T inputs ss in
     length back = T /\
     forall k, (k < T)%nat -> nth k back ss = step (inputs k) (mk_expect nz na (b_Pi (nth (S k) back ss)) (b_V (nth (S k) back ss)))) /\
  (forall (back : list hback) (Dbeg : arr) k b d, nth_error back k = Some b ->
     nth_error (forward_nonlinear hback arr (exogB nz na) (endogB nz na agrid) back Dbeg) k = Some d ->
     snd d = mk_forward nz na (b_Pi b) (fst d) /\ (k = 0%nat -> fst d = Dbeg) /\
     forall d', nth_error (forward_nonlinear hback arr (exogB nz na) (endogB nz na agrid) back Dbeg) (S k) = Some d' ->
                fst d' = lottery_forward nz na agrid (b_a b) (snd d)) /\
  (forall (back : list hback) (Dbeg : arr), (forall b, In b back -> stochastic nz (b_Pi b)) ->
     forall d, In d (forward_nonlinear hback arr (exogB nz na) (endogB nz na agrid) back Dbeg) ->
     mass nz na (fst d) = mass nz na Dbeg /\ mass nz na (snd d) = mass nz na Dbeg) /\
  (distinct_neighbours agrid -> forall (back : list hback) (Dbeg : arr) k b d d', nth_error back k = Some b ->
     nth_error (forward_nonlinear hback arr (exogB nz na) (endogB nz na agrid) back Dbeg) k = Some d ->
     nth_error (forward_nonlinear hback arr (exogB nz na) (endogB nz na agrid) back Dbeg) (S k) = Some d' ->
     hsum nz (fun z => hsum na (fun j => Qcmult (ent (fst d') z j) (nth j agrid h0))) = aggregate nz na (snd d) (b_a b)) /\
  (forall egrid Pi_ss kappa T inputs ss Dbeg0, (1 <= nz)%nat -> stochastic nz Pi_ss ->
     let '(back, fwd, _) := het_paths nz na agrid toy_in (toy_step nz na agrid egrid Pi_ss kappa) T inputs ss Dbeg0 in
     forall d, In d fwd -> mass nz na (fst d) = mass nz na Dbeg0 /\ mass nz na (snd d) = mass nz na Dbeg0).
Proof.
  intros nz na agrid Hg Hna. split.
  { intros I step T inputs ss back. unfold back. rewrite backward_loop_is_recursion_lemma. split; [apply spec_list_length|].
    intros k Hk. rewrite spec_list_nth by exact Hk. reflexivity. }
  split.
  { intros back Dbeg k b d Hb Hd. exact (forward_loop_is_recursion_lemma hback arr (exogB nz na) (endogB nz na agrid) back Dbeg k b d Hb Hd). }
  split; [intros; eapply forward_mass; eassumption|].
  split; [intros; eapply forward_asset_accounting; eassumption|].
  intros. apply toy_path_mass_lemma; assumption.
Qed.
Print Assumptions het_path_executable.

(** non-vacuity: a two-state, three-point household over three dates; total mass stays 1 and the path is not constant *)
Definition ex_run :=
  het_paths 2 3 [hq 0 1; hq 1 1; hq 2 1] toy_in
    (toy_step 2 3 [hq 0 1; hq 1 1; hq 2 1] [hq 1 2; hq 3 2] [[hq 3 4; hq 1 4]; [hq 1 4; hq 3 4]] (hq 1 8)) 3
    (fun t => {| i_r := hq 1 32; i_w := if Nat.eqb t 1 then hq 9 8 else hq 1 1; i_shift := if Nat.eqb t 0 then hq 1 16 else hq 0 1 |})
    {| b_V := [[hq 1 1; hq 2 1; hq 3 1]; [hq 2 1; hq 3 1; hq 4 1]]; b_a := []; b_c := []; b_Pi := [[hq 3 4; hq 1 4]; [hq 1 4; hq 3 4]] |}
    [[hq 1 4; hq 1 8; hq 1 8]; [hq 1 8; hq 1 8; hq 1 4]].
Example ex_mass_and_movement :
  let '(back, fwd, agg) := ex_run in
  forallb (fun d => Qc_eq_bool (mass 2 3 (fst d)) h1 && Qc_eq_bool (mass 2 3 (snd d)) h1) fwd
  && negb (Qc_eq_bool (fst (nth 0 agg (h0, h0))) (fst (nth 1 agg (h0, h0)))) && Nat.eqb (length fwd) 3 = true.
Proof. vm_compute. reflexivity. Qed.
