(** C09.1-2 -- for ANY backward step, expectation and transitions, any horizon T and input path: the reverse loop of
    backward_nonlinear records at every date t exactly bstep(inputs_t, E(values of date t+1)), with the steady state as
    the terminal condition after the horizon; the forward loop records D_t = exog_t(Dbeg_t) and
    Dbeg_{t+1} = endog_t(D_t), starting from the supplied initial distribution. *)
From Coq Require Import List Arith.
From SSJ Require Import Model.HetLoop Proofs.HetLoopProofs.
Theorem loops_are_recursions : forall (I B Dist : Type) (bstep : I -> B -> B) (expect : B -> B) (exog endog : B -> Dist -> Dist) T inputs ss,
  backward_nonlinear I B bstep expect T inputs ss = spec_list I B bstep expect inputs 0 T ss /\
  length (spec_list I B bstep expect inputs 0 T ss) = T /\
  (forall k, k < T -> nth k (spec_list I B bstep expect inputs 0 T ss) ss
                      = bstep (inputs (0 + k)) (expect (nth (S k) (spec_list I B bstep expect inputs 0 T ss) ss))) /\
  (forall paths Dbeg k b d, nth_error paths k = Some b -> nth_error (forward_nonlinear B Dist exog endog paths Dbeg) k = Some d ->
     snd d = exog b (fst d) /\ (k = 0 -> fst d = Dbeg) /\
     (forall d', nth_error (forward_nonlinear B Dist exog endog paths Dbeg) (S k) = Some d' -> fst d' = endog b (snd d))).
Proof.
  intros. split; [apply backward_loop_is_recursion_lemma|]. split; [apply spec_list_length|]. split; [intros; apply spec_list_nth; assumption|].
  intros; eapply forward_loop_is_recursion_lemma; eassumption.
Qed.
Print Assumptions loops_are_recursions.
