(** C05.4 -- the literal statement of the property for the executable horizon-T model: whenever ge_solveT returns, for EVERY target a, every
    shocked input z and every pair of dates (t, s) inside the horizon,
        sum over unknowns u, sum over dates k of  H_U[a][u][t][k] * G_U[u][z][k][s]  =  - H_Z[a][z][t][s],
    i.e. every target's total response to every shock is zero at every date (the packed equation H_U X = -H_Z read block by block through the
    modelled pack / unpack index arithmetic), for any block list, any numbers of unknowns, targets and shocks, any horizon; the blocks of the
    packed matrices are required to be T x T (true of every sparse or absent total by construction, [wshape_tab]). *)
From Coq Require Import ZArith QArith Qcanon Bool List Arith.
From SSJ Require Import Lib.Sums Model.Sparse Model.Chain Model.GET Proofs.GETProofs Proofs.GEBlockProofs.
Import ListNotations.

Theorem ge_blockwise : forall T N blocks U Tg Zs outs r, ge_solveT T N blocks U Tg Zs outs = Some r ->
  (forall a u, wshape (Z.to_nat T) (HUblk T N blocks U Tg a u)) -> (forall a z, wshape (Z.to_nat T) (HUblk T N blocks Zs Tg a z)) ->
  forall a z t s, (a < length Tg)%nat -> (z < length Zs)%nat -> (t < Z.to_nat T)%nat -> (s < Z.to_nat T)%nat ->
  nsum (length U) (fun u => nsum (Z.to_nat T) (fun k => Qcmult (ment (HUblk T N blocks U Tg a u) t k) (ment (nth z (nth u (ge_GU r) []) []) k s)))
  = Qcopp (ment (HUblk T N blocks Zs Tg a z) t s).
Proof.
  intros T N blocks U Tg Zs outs r Hr HwU HwZ a z t s Ha Hz Ht Hs.
  destruct (ge_solveT_sound_lemma T N blocks U Tg Zs outs r Hr) as (X & Heq & HGU & _).
  rewrite <- (ge_blockwise_lemma T N blocks U Tg Zs X Heq HwU HwZ a z t s Ha Hz Ht Hs).
  apply nsum_ext. intros u Hu. apply nsum_ext. intros k _. f_equal. rewrite HGU.
  rewrite (nth_map_seq (fun ui => map (fun zi => block_of T X ui zi) (seq 0 (length Zs))) (length U) u [] Hu).
  rewrite (nth_map_seq (fun zi => block_of T X u zi) (length Zs) z [] Hz). reflexivity.
Qed.
Print Assumptions ge_blockwise.

Theorem sparse_totals_are_square : forall T f, (0 <= T)%Z -> wshape (Z.to_nat T) (tab T f).
Proof. exact wshape_tab. Qed.

(** non-vacuity: the example model of C05.3 (lead after a lag), T = 4: the solve returns and the target's total response vanishes at (t, s) = (1, 2) *)
Definition ex_blocks : list (cblock opr) :=
  [ sblk [2%nat] [0%nat; 1%nat] [((2%nat, 0%nat), [((-1, 1), 1)]%Z); ((2%nat, 1%nat), [((0, 0), 2)]%Z)];
    sblk [3%nat] [2%nat] [((3%nat, 2%nat), [((1, 0), 1)]%Z)];
    sblk [4%nat] [1%nat; 3%nat; 0%nat] [((4%nat, 1%nat), [((0, 0), 7)]%Z); ((4%nat, 3%nat), [((-1, 1), 1)]%Z); ((4%nat, 0%nat), [((0, 0), -1)]%Z)] ].
Example ex_blockwise :
  match ge_solveT 4 5 ex_blocks [1%nat] [4%nat] [0%nat] [1%nat] with
  | Some r => Qc_eq_bool (nsum 1 (fun u => nsum 4 (fun k => Qcmult (ment (HUblk 4 5 ex_blocks [1%nat] [4%nat] 0 u) 1 k) (ment (nth 0 (nth u (ge_GU r) []) []) k 2))))
                         (Qcopp (ment (HUblk 4 5 ex_blocks [0%nat] [4%nat] 0 0) 1 2))
              && negb (Qc_eq_bool (ment (HUblk 4 5 ex_blocks [1%nat] [4%nat] 0 0) 1 1) g0)
  | None => false
  end = true.
Proof. vm_compute. reflexivity. Qed.
