(** C05 (tie A) -- structural facts extracted from the current source by tools/translate.py on which the abstract model
    of this property relies; a refactoring that changes one of them must be re-examined (the obligation breaks). *)
From Coq Require Import Bool.
From SSJ Require Import Gen.BlockFacts.
Theorem code_facts_C05 : solve_jacobian_shape = true /\ solve_impulse_linear_shape = true.
Proof. repeat split; reflexivity. Qed.
Print Assumptions code_facts_C05.
