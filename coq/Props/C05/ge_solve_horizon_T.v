(** C05.3 -- the EXECUTABLE horizon-T model of Block.solve_jacobian used by the second correspondence stream (any acyclic block
    list with SimpleSparse or dense Jacobians, any number of unknowns/targets/shocks/outputs, any horizon T, rationals).
    Operators are SimpleSparse objects or dense T x T arrays and multiply/add exactly as the Python operators dispatch.
    (a) whatever it returns solves the packed linear system H_U X = -H_Z, and the reported G_U are the blocks of X;
    (b) every reported output entry, read inside the window, is  sum_u window(J[o][u]) x G_U[u][z] + window(J[o][z]),
        where J[.][.] are the model's symbolically accumulated Jacobians (the model is ONE block of combine([U_Z, self]));
    (c) the mixed algebra denotes sums as sums, products with a dense factor as products of the T-windows, and products of two
        sparse factors as products of the untruncated operators (this is where "windows of products" and "products of windows"
        differ for a lead after a lag);
    (d) the memoised accumulation used for execution is Chain.accumulate (the object of the C04 theorems). *)
From Coq Require Import ZArith QArith Qcanon Bool List Arith.
From SSJ Require Import Lib.Sums Model.Sparse Model.Chain Model.GET Proofs.SparseProofs Proofs.GETProofs.
Import ListNotations.
Open Scope Z_scope.

Theorem ge_solveT_sound : forall T N blocks U Tg Zs outs r,
  ge_solveT T N blocks U Tg Zs outs = Some r ->
  exists X, mmul (ge_HU T N blocks U Tg) X = mopp (ge_HZ T N blocks Zs Tg)
    /\ ge_GU r = map (fun ui => map (fun zi => block_of T X ui zi) (seq 0 (length Zs))) (seq 0 (length U))
    /\ ge_out r = map (fun zi => map (fun o => to_dense T (ge_entry T (map (totE T N blocks) U) (map (fun row => nth zi row []) (ge_GU r))
                                                                   (totE T N blocks (nth zi Zs 0%nat)) o)) outs) (seq 0 (length Zs)).
Proof. exact ge_solveT_sound_lemma. Qed.
Print Assumptions ge_solveT_sound.

Theorem ge_out_is_windowed_chain_rule : forall T N blocks U zi gus o t s,
  (forall b, In b blocks -> forall o m, wfo (c_J opr b o m)) -> 0 <= t < T -> 0 <= s < T ->
  fn (to_dense T (ge_entry T (map (totE T N blocks) U) gus (totE T N blocks zi) o)) t s
  = Qcplus (qsum (fun p => window_product T (eden (fst p o)) (fn (snd p)) t s) (combine (map (totE T N blocks) U) gus))
           (eden (totE T N blocks zi o) t s).
Proof. exact ge_out_entry_lemma. Qed.
Print Assumptions ge_out_is_windowed_chain_rule.

Theorem mixed_sum_denotes_sum : forall T a b t s, wfo a -> wfo b -> 0 <= t < T -> 0 <= s < T ->
  eden (eadd T a b) t s = Qcplus (eden a t s) (eden b t s).
Proof. exact eden_add. Qed.
Theorem mixed_product_dense_right : forall T a M t s, wfo a -> 0 <= t < T -> 0 <= s < T ->
  eden (emul T a (Dn M)) t s = window_product T (eden a) (fn M) t s.
Proof. exact eden_mul_dense_right. Qed.
Theorem mixed_product_dense_left : forall T M b t s, wfo b -> 0 <= t < T -> 0 <= s < T ->
  eden (emul T (Dn M) b) t s = window_product T (fn M) (eden b) t s.
Proof. exact eden_mul_dense_left. Qed.
Theorem mixed_product_sparse_sparse : forall T A B t s, wf Qc A -> wf Qc B ->
  eden (emul T (Sp A) (Sp B)) t s = sp_apply Qc g0 Qcplus Qcmult A (sdenq B) t s.
Proof. exact eden_mul_sparse. Qed.
Print Assumptions mixed_product_sparse_sparse.

Theorem memoised_accumulation_is_chain_accumulate : forall T N blocks init x,
  (forall b, In b blocks -> forall m, In m (c_ins opr b) -> (m < N)%nat) -> (x < N)%nat ->
  accumulateF T N blocks init x = accumulate opr ezero (eadd T) (emul T) blocks init x.
Proof. exact accumulateF_is_accumulate. Qed.
Print Assumptions memoised_accumulation_is_chain_accumulate.

(** non-vacuity: a model with a lead after a lag (v2 = v0(-1) + 2 v1, v3 = v2(+1), target v4 = 7 v1 + v3(-1) - v0), T = 4:
    the solve returns, the inputs are well-formed, and the window-of-product / product-of-windows difference is visible
    (the symbolic product S(+1) S(-1) keeps the first row that the product of the windows loses). *)
Definition ex_blocks : list (cblock opr) :=
  [ sblk [2%nat] [0%nat; 1%nat] [((2%nat, 0%nat), [((-1, 1), 1)]); ((2%nat, 1%nat), [((0, 0), 2)])];
    sblk [3%nat] [2%nat] [((3%nat, 2%nat), [((1, 0), 1)])];
    sblk [4%nat] [1%nat; 3%nat; 0%nat] [((4%nat, 1%nat), [((0, 0), 7)]); ((4%nat, 3%nat), [((-1, 1), 1)]); ((4%nat, 0%nat), [((0, 0), -1)])] ].
Example ex_returns : exists r, ge_solveT 4 5 ex_blocks [1%nat] [4%nat] [0%nat] [1%nat; 2%nat; 3%nat] = Some r.
Proof. vm_compute. eexists. reflexivity. Qed.
Example ex_wf : forall b, In b ex_blocks -> forall o m, wfo (c_J opr b o m).
Proof.
  intros b Hb o m. unfold ex_blocks in Hb. cbn [In] in Hb.
  destruct Hb as [<-|[<-|[<-|[]]]]; unfold sblk; cbn [c_J fold_left fst snd];
  repeat match goal with |- context [if ?c then _ else _] => destruct c end;
  cbn; try exact I; intros k x Hin; cbn in Hin; repeat (destruct Hin as [Hin|Hin]; [inversion Hin; subst; cbn; try discriminate; auto with zarith|]); try contradiction.
Qed.
Example ex_window_matters :
  to_dense 4 (emul 4 (Sp [((1, 0), g1)]) (Sp [((-1, 1), g1)])) <> to_dense 4 (emul 4 (Sp [((1, 0), g1)]) (Dn (sp_dense 4 [((-1, 1), g1)]))).
Proof. vm_compute. discriminate. Qed.
