(** C05.2 -- the EXECUTABLE model of Block.solve_jacobian used by the correspondence check (any acyclic block list, two
    unknowns, two targets, any shock columns and requested outputs, horizon 1, rationals): whenever it returns (non-singular
    target-unknown Jacobian), every reported column is  J[o,U] g + J[o,z]  for one pair g of unknown responses under which BOTH
    targets' total responses vanish.  This is the concrete instance of the abstract identity C05.1 that is run against the
    implementation. *)
From Coq Require Import ZArith QArith Qcanon List.
From SSJ Require Import Model.Chain Model.GE Proofs.GEProofs.
Open Scope Qc_scope.
Theorem ge_solve2_targets_vanish : forall blocks u1 u2 t1 t2 zs outs G,
  ge_solve2 blocks u1 u2 t1 t2 zs outs = Some G ->
  forall k z, nth_error zs k = Some z ->
  exists g1 g2,
    nth_error G k = Some (map (fun o => tot blocks u1 o * g1 + tot blocks u2 o * g2 + tot blocks z o) outs) /\
    tot blocks u1 t1 * g1 + tot blocks u2 t1 * g2 + tot blocks z t1 = 0 /\
    tot blocks u1 t2 * g1 + tot blocks u2 t2 * g2 + tot blocks z t2 = 0.
Proof. exact ge_solve2_targets_vanish_lemma. Qed.
Print Assumptions ge_solve2_targets_vanish.
