(** C05.1/3 -- in ANY (non-commutative) ring of operators, with the right inverse of the target-unknown Jacobian as
    the only hypothesis (what numpy.linalg.solve / lu_solve are trusted to deliver): G_U = -Hinv H_Z makes every
    target's total response zero; the linear impulse dU = -Hinv H_Z dZ solves H_U dU + H_Z dZ = 0, is additive in the
    shock and equals G_U applied to the shock. *)
From Coq Require Import List.
From SSJ Require Import Model.Chain Proofs.ChainProofs.
Theorem solve_jacobian_spec : forall (E : Type) (e0 e1 : E) (eadd emul esub : E -> E -> E) (eopp : E -> E),
  (forall x y, eadd x y = eadd y x) -> (forall x y z, eadd (eadd x y) z = eadd x (eadd y z)) -> (forall x, eadd e0 x = x) ->
  (forall x, eadd x (eopp x) = e0) -> (forall x y z, emul (emul x y) z = emul x (emul y z)) -> (forall x, emul e1 x = x) ->
  (forall x, emul x e1 = x) -> (forall x y z, emul x (eadd y z) = eadd (emul x y) (emul x z)) ->
  (forall x y z, emul (eadd x y) z = eadd (emul x z) (emul y z)) -> (forall x y, esub x y = eadd x (eopp y)) ->
  forall HU Hinv HZ dZ1 dZ2, emul HU Hinv = e1 ->
  eadd (emul HU (eopp (emul Hinv HZ))) HZ = e0 /\
  eadd (emul HU (eopp (emul Hinv (emul HZ dZ1)))) (emul HZ dZ1) = e0 /\
  eopp (emul Hinv (emul HZ (eadd dZ1 dZ2))) = eadd (eopp (emul Hinv (emul HZ dZ1))) (eopp (emul Hinv (emul HZ dZ2))) /\
  eopp (emul Hinv (emul HZ dZ1)) = emul (eopp (emul Hinv HZ)) dZ1.
Proof.
  intros E e0 e1 eadd emul esub eopp H1 H2 H3 H4 H5 H6 H7 H8 H9 H10 HU Hinv HZ dZ1 dZ2 Hi. split.
  - eapply (solve_jacobian_spec_lemma E e0 e1 eadd emul esub eopp); eassumption.
  - eapply (solve_impulse_linear_spec_lemma E e0 e1 eadd emul esub eopp); eassumption.
Qed.
Print Assumptions solve_jacobian_spec.
