(** C08.7 -- "Markov matrix on ANY state dimension": utilities/multidim.py applies a matrix (or a batch of matrices, for discrete-choice
    stages) along the i-th dimension of an n-dimensional state array by swapaxes / reshape / matrix product / reshape / swapaxes.
    For arrays with ANY number of dimensions and any sizes, any i, and every in-range multi-index:
      multiply_ith_dimension(Pi, i, X)[..., z, ...]       = sum_k Pi[z, k] * X[..., k, ...]
      batch_multiply_ith_dimension(P, i, X)[..., z, ...]  = sum_k P[z, ..., k, ...] * X[..., k, ...]
    (only the i-th index is touched; all other indices are carried unchanged).  Obligation: the bodies of the two functions in the
    TRANSLATED source are exactly the modelled sequences of numpy operations, and Markov.forward / Markov.expectation call
    multiply_ith_dimension with the transposed / plain matrix on their own dimension.  numpy's logical-index semantics of swapaxes and
    of C-order reshape are modelled by hand (trusted; the oracle compares with explicit einsum formulas on arrays of 1-4 dimensions). *)
From Coq Require Import List Arith.
From SSJ Require Import Gen.HetFacts Model.Multidim Proofs.MultidimProofs.
Import ListNotations.

Theorem multidim_index_algebra :
  multidim_ops_multiply = true /\ multidim_ops_batch = true /\ markov_uses_ith_dimension = true /\
  (forall (R : Type) (r0 : R) (radd rmul : R -> R -> R) sh Pi i X ix n', i < length sh -> rng (setn i n' sh) ix ->
     multiply_ith R r0 radd rmul sh Pi i X ix = rsum R r0 radd (nth i sh 0) (fun k => rmul (Pi (nth i ix 0) k) (X (setn i k ix)))) /\
  (forall (R : Type) (r0 : R) (radd rmul : R -> R -> R) sh (P : nat -> arr R) i X ix n', i < length sh -> rng (setn i n' sh) ix ->
     batch_multiply_ith R r0 radd rmul sh P i X ix
     = rsum R r0 radd (nth i sh 0) (fun k => rmul (P (nth i ix 0) (setn i k ix)) (X (setn i k ix)))).
Proof.
  split; [reflexivity|]. split; [reflexivity|]. split; [reflexivity|]. split.
  - intros; eapply multiply_ith_lemma; eassumption.
  - intros; eapply batch_multiply_ith_lemma; eassumption.
Qed.
Print Assumptions multidim_index_algebra.

(** non-vacuity: a 2 x 3 x 2 array, the matrix applied along the LAST dimension (i = 2) *)
Example multidim_example :
  let X := fun ix => match ix with [a; b; c] => 100 * a + 10 * b + c | _ => 0 end in
  let Pi := fun z k => z + 2 * k + 1 in
  multiply_ith nat 0 Nat.add Nat.mul [2; 3; 2] Pi 2 X [1; 2; 1] = Pi 1 0 * X [1; 2; 0] + Pi 1 1 * X [1; 2; 1]
  /\ rng (setn 2 2 [2; 3; 2]) [1; 2; 1].
Proof. split; [vm_compute; reflexivity | repeat constructor]. Qed.
