(** C08.8 -- "discrete-choice probabilities": the law of motion of a discrete-choice stage (law_of_motion.DiscreteChoice, built by
    stages.LogitChoice) for state arrays with ANY number of dimensions and any sizes, choice replacing ANY state dimension i.
    Model/DChoice.v writes  lom @ D  and  lom.T @ X  with the array operations of Model/Multidim.v (batch_multiply_ith_dimension with P and
    with P.swapaxes(0, 1 + i)); obligations: the TRANSLATED source still has that shape (DiscreteChoice.__init__/T/__matmul__, logit_choice,
    LogitChoice.backward_step / backward_step_shock).  Then, over the rationals, for every P, D, X:
      (formulas)   (lom @ D)[.., d, ..] = sum_k P[d][.., k, ..] D[.., k, ..]         (lom.T @ X)[.., k, ..] = sum_d P[d][.., k, ..] X[.., d, ..]
      (adjoint)    <lom @ D, X> = <D, lom.T @ X>   summed over the whole arrays (and on every fibre along dimension i)
      (mass)       if the probabilities of the choices sum to one at every state, sum(lom @ D) = sum(D)
      (sign)       P >= 0 and D >= 0 give lom @ D >= 0
      (logit)      P = e / sum_d e sums to one wherever the weights (the code's exp((V - max V) / scale)) do not sum to zero
      (shock)      dP = P (dV - dEV) / scale with dEV = sum_d P dV moves no mass (sum_d dP = 0) for ANY scale and value shock; dEV is the
                   expectation of next stage's value shock under P (envelope); and expectation is bilinear in (P, X):
                   E_{P + h dP}[X + h dX] = E_P[X] + h (E_dP[X] + E_P[dX]) + h^2 E_dP[dX]  EXACTLY, so backward_step_shock's
                   dlom.T @ ss[k] + lom.T @ shocks[k] is the derivative of the stage's expectation of k. *)
From Coq Require Import ZArith QArith Qcanon List Arith.
From SSJ Require Import Gen.HetFacts Model.Multidim Proofs.MultidimProofs Model.DChoice Proofs.DChoiceProofs.
Import ListNotations.

Theorem discrete_choice_laws :
  dchoice_matmul_shape = true /\ logit_choice_shape = true /\ logit_stage_shock_shape = true /\ multidim_ops_batch = true /\
  forall sh nch i (P : nat -> qarr), (i < length sh)%nat ->
  (forall D ix n' d, rng (setn i n' sh) ix ->
     dc_forward sh P i D (setn i d ix) = dsum (nth i sh 0%nat) (fun k => Qcmult (P d (setn i k ix)) (D (setn i k ix)))) /\
  (forall X ix, rng sh ix -> dc_expect sh nch P i X ix = dsum nch (fun d => Qcmult (P d ix) (X (setn i d ix)))) /\
  (forall D X, asum (setn i nch sh) (fun ix => Qcmult (dc_forward sh P i D ix) (X ix)) = asum sh (fun ix => Qcmult (D ix) (dc_expect sh nch P i X ix))) /\
  (forall D, (forall ix, rng sh ix -> dsum nch (fun d => P d ix) = d1) -> asum (setn i nch sh) (dc_forward sh P i D) = asum sh D) /\
  (forall D ix n' d, rng (setn i n' sh) ix -> (forall jx e, rng sh jx -> Qcle d0 (P e jx) /\ Qcle d0 (D jx)) -> Qcle d0 (dc_forward sh P i D (setn i d ix))) /\
  (forall e ix, dsum nch (fun d => e d ix) <> d0 -> dsum nch (fun d => logit_P nch e d ix) = d1) /\
  (forall dV scale ix, dsum nch (fun d => P d ix) = d1 -> dsum nch (fun d => lc_dP nch P dV scale d ix) = d0) /\
  (forall dVn ix, rng sh ix -> lc_dEV nch P (lc_dV i dVn) ix = dc_expect sh nch P i dVn ix) /\
  (forall dP X dX h ix, rng sh ix ->
     dc_expect sh nch (fun d jx => Qcplus (P d jx) (Qcmult h (dP d jx))) i (fun jx => Qcplus (X jx) (Qcmult h (dX jx))) ix
     = Qcplus (Qcplus (dc_expect sh nch P i X ix) (Qcmult h (Qcplus (dc_expect sh nch dP i X ix) (dc_expect sh nch P i dX ix))))
              (Qcmult (Qcmult h h) (dc_expect sh nch dP i dX ix))).
Proof.
  split; [reflexivity|]. split; [reflexivity|]. split; [reflexivity|]. split; [reflexivity|].
  intros sh nch i P Hi.
  split; [intros; eapply forward_formula; eassumption|].
  split; [intros; apply expect_formula; assumption|].
  split; [intros; apply total_adjoint_lemma; assumption|].
  split; [intros; apply total_mass_lemma; assumption|].
  split; [intros; eapply forward_nonneg; eassumption|].
  split; [intros; apply logit_sums_to_one; assumption|].
  split; [intros; apply shock_zero_mass; assumption|].
  split; [intros; apply envelope; assumption|].
  intros; apply expect_expansion; assumption.
Qed.
Print Assumptions discrete_choice_laws.

(** non-vacuity: two choices on a 2 x 3 state array, choice replacing dimension 1 (size 3 -> 2); probabilities 1/4 and 3/4 *)
Example discrete_choice_example :
  let sh := [2; 3]%nat in
  let P := fun (d : nat) (_ : idx) => if Nat.eqb d 0 then Q2Qc (1 # 4) else Q2Qc (3 # 4) in
  let D := fun ix => match ix with [a; b] => Q2Qc (Z.of_nat (1 + a + 2 * b) # 1) | _ => d0 end in
  asum (setn 1 2%nat sh) (dc_forward sh P 1 D) = asum sh D /\ asum sh D = Q2Qc (21 # 1) /\
  dc_forward sh P 1 D [1; 1]%nat = Q2Qc (12 * 3 # 4) /\ rng sh [1; 2]%nat.
Proof. split; [vm_compute; reflexivity|]. split; [vm_compute; reflexivity|]. split; [vm_compute; reflexivity | repeat constructor]. Qed.
