(** C08 (weight level, all six TRANSLATED kernels): the corner weights of the 1-D and 2-D scatter kernels sum to the
    incoming mass; the gather (expectation) kernels use the same weights (adjointness corner by corner); the shock
    kernels are exactly the first-order term of the forward weights in the policy weights (every corner sign of
    forward_policy_shock_2d), their corners sum to zero; the lottery preserves the policy mean and the shock moves
    it by the policy change.  Polynomial identities (valid in every commutative ring). *)
From Coq Require Import ZArith Bool List.
From SSJ Require Import Lib.Sums Gen.Kernels Model.Transitions Proofs.TransitionProofs.
Import ListNotations.
Open Scope Z_scope.

Theorem kernel_weights : forall d x y dx dy h X00 X10 X01 X11 g0 s a,
  fwd1d_w 0 0 d x + fwd1d_w 1 0 d x = d /\
  d * exp1d x X00 X10 = fwd1d_w 0 0 d x * X00 + fwd1d_w 1 0 d x * X10 /\
  fwd1d_w 0 0 d (x + h * dx) = fwd1d_w 0 0 d x + h * shock1d_w 0 0 d dx /\
  fwd1d_w 1 0 d (x + h * dx) = fwd1d_w 1 0 d x + h * shock1d_w 1 0 d dx /\
  shock1d_w 0 0 d dx + shock1d_w 1 0 d dx = 0 /\
  (x * s = g0 + s - a -> fwd1d_w 0 0 d x * g0 + fwd1d_w 1 0 d x * (g0 + s) = d * a) /\
  shock1d_w 0 0 d dx * g0 + shock1d_w 1 0 d dx * (g0 + s) = - (dx * s) * d /\
  fwd2d_w 0 0 d x y + fwd2d_w 1 0 d x y + fwd2d_w 0 1 d x y + fwd2d_w 1 1 d x y = d /\
  d * exp2d x y X00 X10 X01 X11 = fwd2d_w 0 0 d x y * X00 + fwd2d_w 1 0 d x y * X10 + fwd2d_w 0 1 d x y * X01 + fwd2d_w 1 1 d x y * X11 /\
  fwd2d_w 0 0 d (x + h * dx) (y + h * dy) = fwd2d_w 0 0 d x y + h * shock2d_w 0 0 d x y dx dy + h * h * (d * dx * dy) /\
  fwd2d_w 1 0 d (x + h * dx) (y + h * dy) = fwd2d_w 1 0 d x y + h * shock2d_w 1 0 d x y dx dy - h * h * (d * dx * dy) /\
  fwd2d_w 0 1 d (x + h * dx) (y + h * dy) = fwd2d_w 0 1 d x y + h * shock2d_w 0 1 d x y dx dy - h * h * (d * dx * dy) /\
  fwd2d_w 1 1 d (x + h * dx) (y + h * dy) = fwd2d_w 1 1 d x y + h * shock2d_w 1 1 d x y dx dy + h * h * (d * dx * dy) /\
  shock2d_w 0 0 d x y dx dy + shock2d_w 1 0 d x y dx dy + shock2d_w 0 1 d x y dx dy + shock2d_w 1 1 d x y dx dy = 0.
Proof.
  intros. pose proof (w1d_shock_is_derivative d x dx h) as [A B]. pose proof (w2d_shock_is_derivative d x y dx dy h) as (C1 & C2 & C3 & C4).
  repeat split; try assumption; try apply w1d_mass; try apply w1d_adjoint; try apply w1d_shock_mass; try apply w1d_mean;
    try apply w1d_shock_mean; try apply w2d_mass; try apply w2d_adjoint; try apply w2d_shock_mass.
Qed.
Print Assumptions kernel_weights.
