(** C08.1-4 (Markov step on one state dimension): forward uses Pi^T, expectation Pi; adjoint for ANY matrix; mass
    is conserved iff rows sum to one (shown: if); both operators are exactly linear in the matrix; a shifter whose
    rows sum to zero moves no mass. *)
From Coq Require Import ZArith Bool List.
From SSJ Require Import Lib.Sums Gen.Kernels Model.Transitions Proofs.TransitionProofs.
Import ListNotations.
Open Scope Z_scope.

Theorem markov_laws : forall n Pi D,
  (forall X, zs 0 n (fun z' => mk_fwd n Pi D z' * X z') = zs 0 n (fun z => D z * mk_exp n Pi X z)) /\
  ((forall z, 0 <= z < n -> zs 0 n (fun z' => Pi z z') = 1) -> zs 0 n (fun z' => mk_fwd n Pi D z') = zs 0 n D) /\
  (forall dPi X h z, mk_fwd n (fun a b => Pi a b + h * dPi a b) D z = mk_fwd n Pi D z + h * mk_fwd n dPi D z /\
                     mk_exp n (fun a b => Pi a b + h * dPi a b) X z = mk_exp n Pi X z + h * mk_exp n dPi X z) /\
  (forall dPi, (forall z, 0 <= z < n -> zs 0 n (fun z' => dPi z z') = 0) -> zs 0 n (fun z' => mk_fwd n dPi D z') = 0).
Proof.
  intros n Pi D. split; [intros; apply markov_adjoint_lemma|]. split; [apply markov_mass_lemma|].
  split; [intros; apply markov_shock_is_derivative_lemma | intros; apply markov_shock_mass_lemma; assumption].
Qed.
Print Assumptions markov_laws.
