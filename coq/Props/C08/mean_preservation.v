(** C08.6 -- the lottery preserves the mean of the policy: if the interpolation coordinates reproduce the policy value a(s)
    from the two (four) bracketing grid points -- which C17 proves of the coordinates whenever they are built from the grid,
    inside the grid or extrapolating -- then the mean of the grid under the new distribution equals the mean of the policy
    under the old one.  1-D rows and 2-D lotteries (either coordinate), every size, arbitrary D (no sign restriction). *)
From Coq Require Import ZArith Bool List.
From SSJ Require Import Lib.Sums Gen.Kernels Model.Transitions Model.Scatter Proofs.TransitionProofs Proofs.ScatterProofs.
Open Scope Z_scope.

Theorem mean_preservation_1d : forall n idx D pi grid a,
  (forall ix, 0 <= ix < n -> 0 <= idx ix /\ idx ix + 1 < n) ->
  (forall ix, 0 <= ix < n -> exp1d (pi ix) (grid (idx ix)) (grid (idx ix + 1)) = a ix) ->
  zsum_range 0 Z.add 0 n (fun j => fwd_row n idx D pi j * grid j) = zsum_range 0 Z.add 0 n (fun ix => D ix * a ix).
Proof.
  intros n idx D pi grid a Hidx Ha. rewrite (adjoint_1d_lemma n idx D pi grid Hidx).
  apply (zsum_range_ext Z 0 Z.add). intros ix Hix. unfold exp_row. rewrite (Ha ix Hix). reflexivity.
Qed.
Print Assumptions mean_preservation_1d.

Theorem mean_preservation_2d : forall nx ny xi yi D x y g a,
  (forall s, 0 <= s < nx * ny -> 0 <= xi s /\ xi s + 1 < nx /\ 0 <= yi s /\ yi s + 1 < ny) ->
  (forall s, 0 <= s < nx * ny -> exp2d_row ny xi yi x y g s = a s) ->
  zsum_range 0 Z.add 0 (nx * ny) (fun t => fwd2d nx ny xi yi D x y t * g t) = zsum_range 0 Z.add 0 (nx * ny) (fun s => D s * a s).
Proof.
  intros nx ny xi yi D x y g a H Ha. rewrite (adjoint_2d_lemma nx ny xi yi H D x y g).
  apply (zsum_range_ext Z 0 Z.add). intros s Hs. rewrite (Ha s Hs). reflexivity.
Qed.
Print Assumptions mean_preservation_2d.
