(** C08.1-4 (1-D policy lottery; corner weights TRANSLATED from het_compiled.py, scatter/gather loop hand-modelled),
    for every grid size n, every index array with i, i+1 in range, and arbitrary D, X, weights and perturbations
    (no sign or range restriction): adjointness, mass conservation, exact linearisation, zero-mass shocks. *)
From Coq Require Import ZArith Bool List.
From SSJ Require Import Lib.Sums Gen.Kernels Model.Transitions Proofs.TransitionProofs.
Import ListNotations.
Open Scope Z_scope.

Theorem lottery_1d_laws : forall n idx D pi, (forall ix, 0 <= ix < n -> 0 <= idx ix /\ idx ix + 1 < n) ->
  (forall X, zs 0 n (fun j => fwd_row n idx D pi j * X j) = zs 0 n (fun ix => D ix * exp_row idx pi X ix)) /\
  zs 0 n (fun j => fwd_row n idx D pi j) = zs 0 n D /\
  (forall dpi h j, fwd_row n idx D (fun ix => pi ix + h * dpi ix) j = fwd_row n idx D pi j + h * shock_row n idx D dpi j) /\
  (forall dpi, zs 0 n (fun j => shock_row n idx D dpi j) = 0).
Proof.
  intros n idx D pi H. split; [intros; apply adjoint_1d_lemma; assumption|]. split; [apply forward_mass_1d_lemma; assumption|].
  split; [intros; apply forward_shock_is_derivative_1d_lemma | intros; apply forward_shock_mass_1d_lemma; assumption].
Qed.
Print Assumptions lottery_1d_laws.
