(** C08.5 (sum level, any dimension; 2-D instance with the TRANSLATED corner weights of het_compiled.py).
    (a) ANY scatter/gather lottery -- every source point sends arbitrary weights to arbitrary in-range targets, any number of
        corners -- satisfies <forward D, X> = sum over sources of the gathered value, and total image mass = total corner weight;
        non-negative corner weights give a non-negative image.
    (b) The 2-D policy lottery on an nx x ny grid (any sizes, any index arrays with i, i+1 in range, arbitrary D, X, weights
        and perturbations, no sign restriction): expectation is the exact adjoint of forward; forward conserves mass; the forward
        map evaluated at perturbed weights equals forward + h * shock + h^2 * (an explicit scatter of +/- D dx dy) EXACTLY,
        so the shock kernel is the derivative; the shock has zero total mass; weights in [0,1] and D >= 0 give D' >= 0. *)
From Coq Require Import ZArith Bool List Lia.
From SSJ Require Import Lib.Sums Gen.Kernels Model.Scatter Proofs.ScatterProofs.
Import ListNotations.
Open Scope Z_scope.

Theorem scatter_laws : forall n M corners,
  (forall s c, 0 <= s < n -> In c (corners s) -> 0 <= fst c < M) ->
  (forall X, zs 0 M (fun t => gfwd n corners t * X t) = zs 0 n (fun s => gexp corners X s)) /\
  zs 0 M (fun t => gfwd n corners t) = zs 0 n (fun s => ls snd (corners s)) /\
  ((forall s c, 0 <= s < n -> In c (corners s) -> 0 <= snd c) -> forall t, 0 <= gfwd n corners t).
Proof.
  intros n M corners H. split; [intros X; apply scatter_gather_gen_lemma; assumption|].
  split; [apply scatter_mass_gen_lemma; assumption | intros Hw t; apply scatter_nonneg_gen_lemma; assumption].
Qed.
Print Assumptions scatter_laws.

Theorem lottery_2d_laws : forall nx ny xi yi,
  (forall s, 0 <= s < nx * ny -> 0 <= xi s /\ xi s + 1 < nx /\ 0 <= yi s /\ yi s + 1 < ny) ->
  forall D x y,
  (forall X, zs 0 (nx * ny) (fun t => fwd2d nx ny xi yi D x y t * X t) = zs 0 (nx * ny) (fun s => D s * exp2d_row ny xi yi x y X s)) /\
  zs 0 (nx * ny) (fun t => fwd2d nx ny xi yi D x y t) = zs 0 (nx * ny) D /\
  (forall dx dy h t, fwd2d nx ny xi yi D (fun s => x s + h * dx s) (fun s => y s + h * dy s) t
     = fwd2d nx ny xi yi D x y t + h * shock2d nx ny xi yi D x y dx dy t
       + h * h * gfwd (nx * ny) (corners2d ny xi yi (fun ox oy s => (if (ox + oy =? 1) then -1 else 1) * (D s * dx s * dy s))) t) /\
  (forall dx dy, zs 0 (nx * ny) (fun t => shock2d nx ny xi yi D x y dx dy t) = 0) /\
  ((forall s, 0 <= s < nx * ny -> 0 <= D s /\ 0 <= x s <= 1 /\ 0 <= y s <= 1) -> forall t, 0 <= fwd2d nx ny xi yi D x y t).
Proof.
  intros nx ny xi yi H D x y.
  split; [intros X; apply adjoint_2d_lemma; assumption|].
  split; [apply mass_2d_lemma; assumption|].
  split; [intros; apply forward_2d_expansion_lemma|].
  split; [intros; apply shock_mass_2d_lemma; assumption | intros Hw t; apply forward_2d_nonneg_lemma; assumption].
Qed.
Print Assumptions lottery_2d_laws.

(** non-vacuity: a 2 x 3 grid *)
Example lottery_2d_nonvacuous :
  (forall s, 0 <= s < 2 * 3 -> 0 <= (fun _ => 0) s /\ (fun _ => 0) s + 1 < 2 /\ 0 <= (fun s => s mod 2) s /\ (fun s => s mod 2) s + 1 < 3) /\
  tabz 6 (fwd2d 2 3 (fun _ => 0) (fun s => s mod 2) (fun s => s + 1) (fun _ => 1) (fun s => s mod 2)) <> tabz 6 (fun _ => 0).
Proof. split; [intros s Hs; cbn beta; pose proof (Z.mod_pos_bound s 2); lia | vm_compute; discriminate]. Qed.
