(** C08.3 (combined transitions, any number of stages, forward or expectation order): the accumulated shock equals the
    product-rule recursion dD_k = A_k(dD_(k-1)) + s_k with the shocks of unshocked (None) stages read as zero --
    in particular a stage WITHOUT its own shock still propagates the perturbation accumulated so far. *)
From Coq Require Import ZArith Bool List.
From SSJ Require Import Lib.Sums Gen.Kernels Model.Transitions Proofs.TransitionProofs.
Import ListNotations.
Open Scope Z_scope.

Theorem combined_shock_product_rule : forall (V : Type) (v0 : V) (vadd : V -> V -> V),
  (forall x, vadd v0 x = x) -> (forall x, vadd x v0 = x) ->
  forall stages, (forall st, In st stages -> fst st v0 = v0) ->
  vden V v0 (combined_shock V vadd stages) = fold_left (ref_step V v0 vadd) stages v0.
Proof. intros; apply combined_shock_is_product_rule_lemma; assumption. Qed.
Print Assumptions combined_shock_product_rule.
