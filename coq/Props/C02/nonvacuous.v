(** C02 -- the nested-shift example that used to lose a term: y = (x + x(1)(-1))(1) has dy_t/dx_{t+1} = 2 *)
From Coq Require Import ZArith Bool List Ring.
From SSJ Require Import Lib.Sums Model.Shift Model.Sparse Gen.MultiplyBasis Gen.ComputeL Model.SimpleBlk Proofs.SimpleBlkProofs.
Import ListNotations.
Open Scope Z_scope.

Example nested_shift_sums : zjac (fun _ => 3) 0 (EShift 1 (EAdd (EVar 0) (EShift (-1) (EShift 1 (EVar 0))))) = Some [((1, 0), 2)].
Proof. vm_compute. reflexivity. Qed.
