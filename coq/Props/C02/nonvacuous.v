(** C02 -- the nested-shift example that used to lose a term: y = (x + x(1)(-1))(1) has dy_t/dx_{t+1} = 2 *)
From Coq Require Import ZArith Bool List Ring.
From SSJ Require Import Lib.Sums Model.Shift Model.Sparse Gen.MultiplyBasis Gen.ComputeL Model.SimpleBlk Proofs.SimpleBlkProofs.
Import ListNotations.
Open Scope Z_scope.

Example nested_shift_sums : zjac (fun _ => 3) 0 (EShift 1 (EAdd (EVar 0) (EShift (-1) (EShift 1 (EVar 0))))) = Some [((1, 0), 2)].
Proof. vm_compute. reflexivity. Qed.

(** the rationals satisfy the hypotheses of C02.2 (ring, a/b = a * inv b, inv a * a = 1, a*a <> 0), and a program with a
    quotient, a power and nested shifts has the expected entries there:  y = x0(1) / x1 ** 2  at x0 = 3, x1 = 2 :
    dy_t/dx0_{t+1} = 1/4,   dy_t/dx1_t = -2 * 3 / 2^3 = -3/4 *)
From Coq Require Import QArith Qcanon.
Definition qjac := jac_entry Qc (Q2Qc 0) (Q2Qc 1) Qcplus Qcmult Qcminus Qcopp Qcdiv (fun x => Qc_eq_bool x (Q2Qc 0)).
Example rationals_are_an_instance :
  ring_theory (Q2Qc 0) (Q2Qc 1) Qcplus Qcmult Qcminus Qcopp eq /\
  (forall a b, Qcdiv a b = Qcmult a (Qcinv b)) /\ (forall a, a <> Q2Qc 0 -> Qcmult (Qcinv a) a = Q2Qc 1) /\ (forall a, a <> Q2Qc 0 -> Qcmult a a <> Q2Qc 0) /\
  (forall x, Qc_eq_bool x (Q2Qc 0) = true -> x = Q2Qc 0).
Proof.
  split; [exact Qcrt|]. split; [reflexivity|]. split; [exact Qcmult_inv_l|]. split.
  - intros a Ha H. apply Qcmult_integral in H. tauto.
  - intros x. apply Qc_eq_bool_correct.
Qed.
Example quotient_and_power :
  let ss := fun x : nat => match x with O => Q2Qc 3 | _ => Q2Qc 2 end in
  let e := EDiv (EShift 1 (EVar 0)) (EPow (EVar 1) 1) in
  option_map (map (fun kx => (fst kx, this (snd kx)))) (qjac ss 0%nat e) = Some [((1, 0)%Z, (1 # 4)%Q)] /\
  option_map (map (fun kx => (fst kx, this (snd kx)))) (qjac ss 1%nat e) = Some [((0, 0)%Z, ((-3) # 4)%Q)].
Proof. vm_compute. split; reflexivity. Qed.

(** an applied function: y = (x0 * x1(-1)).apply(f) with f(x) = x^2/2 + x and the symmetric quotient with step 1/1024 as supplied derivative:
    the quotient of a quadratic is its exact derivative x + 1, so at x0 = 3, x1 = 2 (argument 6): dy_t/dx0_t = 7 * 2 = 14, dy_t/dx1_{t-1} = 7 * 3 = 21 *)
Example applied_function :
  let ss := fun x : nat => match x with O => Q2Qc 3 | _ => Q2Qc 2 end in
  let f := fun x : Qc => Qcplus (Qcmult (Qcmult x x) (Q2Qc (1 # 2))) x in
  let e := EApp f (fun x => Qcdiv (Qcminus (f (Qcplus x (Q2Qc (1 # 1024)))) (f (Qcminus x (Q2Qc (1 # 1024))))) (Qcmult (Q2Qc 2) (Q2Qc (1 # 1024)))) (EMul (EVar 0) (EShift (-1) (EVar 1))) in
  option_map (map (fun kx => (fst kx, this (snd kx)))) (qjac ss 0%nat e) = Some [((0, 0)%Z, (14 # 1)%Q)] /\
  option_map (map (fun kx => (fst kx, this (snd kx)))) (qjac ss 1%nat e) = Some [((-1, 0)%Z, (21 # 1)%Q)].
Proof. vm_compute. split; reflexivity. Qed.
