(** C02.3 -- steady-state, time-path and derivative evaluation agree: the accumulator carries the steady-state
    value, and on the steady-state path (zero shock, same initial steady state, ANY horizon T or the infinite
    semantics) every output path is constant at its steady-state value: zero deviations.  Division and powers included. *)
From Coq Require Import ZArith Bool List Ring.
From SSJ Require Import Lib.Sums Model.Shift Model.Sparse Gen.MultiplyBasis Gen.ComputeL Model.SimpleBlk Proofs.SimpleBlkProofs.
Import ListNotations.
Open Scope Z_scope.

Theorem ss_td_jac_agree : forall (R : Type) (rO rI : R) (radd rmul rsub : R -> R -> R) (ropp : R -> R) (rdiv : R -> R -> R) (rinv : R -> R),
  ring_theory rO rI radd rmul rsub ropp eq ->
  (forall a b, rdiv a b = rmul a (rinv b)) -> (forall a, a <> rO -> rmul (rinv a) a = rI) -> (forall a, a <> rO -> rmul a a <> rO) ->
  forall tiny : R -> bool, (forall x, tiny x = true -> x = rO) ->
  forall ss x0 e,
  (divs_ok R rO rI radd rmul rsub ropp rdiv ss e ->
   a_value R (accum R rO rI radd rmul rsub ropp rdiv tiny ss x0 e) = eval_ss R rI radd rmul rsub ropp rdiv ss e)
  /\ forall T env t, (forall x u, env x u = ss x) -> eval_td R rI radd rmul rsub ropp rdiv T ss ss env e t = eval_ss R rI radd rmul rsub ropp rdiv ss e.
Proof.
  intros R rO rI radd rmul rsub ropp rdiv rinv Rth Hd Hi Hs tiny Ht ss x0 e. split.
  - intros Hok. pose proof (accum_correct R rO rI radd rmul rsub ropp rdiv rinv Rth Hd Hi Hs tiny Ht ss x0 e Hok) as H.
    destruct (accum R rO rI radd rmul rsub ropp rdiv tiny ss x0 e); cbn in *; symmetry; tauto.
  - intros; apply ss_td_agree; assumption.
Qed.
Print Assumptions ss_td_jac_agree.
