(** C02.4 -- the finite-horizon evaluation that the code performs (Displace pads with the steady-state value from date T on and
    with the initial steady-state value before date 0) equals the evaluation on one-sided infinite sequences at every date t
    with t + maxlead(e) < T, where maxlead(e) is the largest cumulative forward shift of the expression (0 when it only looks
    back).  Hence, inside that window, the nonlinear paths returned for a horizon T are the paths of the infinite-horizon map
    whose derivative C02.2 computes; near the end of the horizon they differ (truncation), which is why every comparison of
    the harness is made inside the window.  Every expression incl. division and powers, any value type. *)
From Coq Require Import ZArith Bool List.
From SSJ Require Import Model.SimpleBlk Proofs.SimpleBlkProofs.
Open Scope Z_scope.

Theorem finite_horizon_window : forall (R : Type) (rI : R) (radd rmul rsub : R -> R -> R) (ropp : R -> R) (rdiv : R -> R -> R)
  T ss ssi env (e : expr R) t, t + maxlead R e < T ->
  eval_td R rI radd rmul rsub ropp rdiv (Some T) ss ssi env e t = eval_td R rI radd rmul rsub ropp rdiv None ss ssi env e t.
Proof. intros. apply finite_horizon_window_lemma. assumption. Qed.
Print Assumptions finite_horizon_window.

Example window_is_tight :   (* y = x(2) at T = 5: dates 0..2 agree with the infinite map, date 3 is already truncated *)
  let env := fun (_ : nat) (t : Z) => t in
  maxlead Z (EShift 2 (EVar 0%nat)) = 2 /\
  zeval_td (Some 5) (fun _ => 0) (fun _ => 0) env (EShift 2 (EVar 0%nat)) 2 = zeval_td None (fun _ => 0) (fun _ => 0) env (EShift 2 (EVar 0%nat)) 2 /\
  zeval_td (Some 5) (fun _ => 0) (fun _ => 0) env (EShift 2 (EVar 0%nat)) 3 <> zeval_td None (fun _ => 0) (fun _ => 0) env (EShift 2 (EVar 0%nat)) 3.
Proof. vm_compute. repeat split; discriminate. Qed.
