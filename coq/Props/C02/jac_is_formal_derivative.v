(** C02.2/5 -- for EVERY expression of the DSL built from inputs, numbers, nested time shifts, .ss, unary minus, plus,
    minus, times, DIVISION, positive integer POWERS and APPLIED scalar functions e.apply(f), every steady state at which no divisor
    vanishes, every input x0 and dates t, s >= 0: an entry reported by the accumulator denotes the formal derivative
    d eval_t / d x0_s of the infinite time-path map at the steady state (sum, product, QUOTIENT, POWER and CHAIN rules; shifts commute
    with differentiation); an entry reported ABSENT has derivative zero everywhere.  For an applied function the chain rule uses the
    derivative the implementation supplies next to f: 1/x for np.log, and for every other function the symmetric difference quotient
    (f(x+h) - f(x-h)) / 2h with h = 1e-5 -- the reported entry is the chain rule WITH THAT QUOTIENT in the place of f' (exact for affine f,
    off by f''' h^2 / 6 in general; the executable instance [symq] reproduces the implementation's numbers).  Any commutative ring with a division satisfying a/b = a * inv b,
    inv a * a = 1 and a*a <> 0 for a <> 0 (every field: reals, rationals). *)
From Coq Require Import ZArith Bool List Ring.
From SSJ Require Import Lib.Sums Model.Shift Model.Sparse Gen.MultiplyBasis Gen.ComputeL Model.SimpleBlk Proofs.SimpleBlkProofs.
Import ListNotations.
Open Scope Z_scope.

Theorem jac_is_formal_derivative : forall (R : Type) (rO rI : R) (radd rmul rsub : R -> R -> R) (ropp : R -> R) (rdiv : R -> R -> R) (rinv : R -> R),
  ring_theory rO rI radd rmul rsub ropp eq ->
  (forall a b, rdiv a b = rmul a (rinv b)) -> (forall a, a <> rO -> rmul (rinv a) a = rI) -> (forall a, a <> rO -> rmul a a <> rO) ->
  forall tiny : R -> bool, (forall x, tiny x = true -> x = rO) ->
  forall ss x0 e, divs_ok R rO rI radd rmul rsub ropp rdiv ss e ->
  match jac_entry R rO rI radd rmul rsub ropp rdiv tiny ss x0 e with
  | None => forall t s, 0 <= t -> 0 <= s -> deriv R rO rI radd rmul rsub ropp rdiv ss x0 s e t = rO
  | Some Sp => wf R Sp /\ forall t s, 0 <= t -> 0 <= s -> deriv R rO rI radd rmul rsub ropp rdiv ss x0 s e t = sden R rO rI radd rmul Sp t s
  end.
Proof. intros; eapply jac_entry_correct; eassumption. Qed.
Print Assumptions jac_is_formal_derivative.
