(** C02.2/5 -- for EVERY expression of the ring fragment of the DSL (inputs, numbers, nested time shifts,
    .ss, unary minus, plus, minus, times), every steady state, input x0 and dates t, s >= 0: an entry reported by the
    accumulator denotes the formal derivative d eval_t / d x0_s of the infinite time-path map at the steady
    state; an entry reported ABSENT has derivative zero everywhere. *)
From Coq Require Import ZArith Bool List Ring.
From SSJ Require Import Lib.Sums Model.Shift Model.Sparse Gen.MultiplyBasis Gen.ComputeL Model.SimpleBlk Proofs.SimpleBlkProofs.
Import ListNotations.
Open Scope Z_scope.

Theorem jac_is_formal_derivative : forall (R : Type) (rO rI : R) (radd rmul rsub : R -> R -> R) (ropp : R -> R),
  ring_theory rO rI radd rmul rsub ropp eq ->
  forall tiny : R -> bool, (forall x, tiny x = true -> x = rO) ->
  forall ss x0 e,
  match jac_entry R rI radd rmul rsub ropp tiny ss x0 e with
  | None => forall t s, 0 <= t -> 0 <= s -> deriv R rO rI radd rmul rsub ropp ss x0 s e t = rO
  | Some Sp => wf R Sp /\ forall t s, 0 <= t -> 0 <= s -> deriv R rO rI radd rmul rsub ropp ss x0 s e t = sden R rO rI radd rmul Sp t s
  end.
Proof. intros; eapply jac_entry_correct; eassumption. Qed.
Print Assumptions jac_is_formal_derivative.
