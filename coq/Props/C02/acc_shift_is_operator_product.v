(** C02.1 -- applying a time shift to an accumulated derivative (translated key map and pairing mode of
    AccumulatedDerivative.__call__) denotes left multiplication by the shift operator E(i,0), for ALL i and all
    element sets, including several elements landing on the same basis element (which must be summed). *)
From Coq Require Import ZArith Bool List Ring.
From SSJ Require Import Lib.Sums Model.Shift Model.Sparse Gen.MultiplyBasis Gen.ComputeL Model.SimpleBlk Proofs.SimpleBlkProofs.
Import ListNotations.
Open Scope Z_scope.

Theorem acc_shift_is_operator_product : forall (R : Type) (rO rI : R) (radd rmul rsub : R -> R -> R) (ropp : R -> R),
  ring_theory rO rI radd rmul rsub ropp eq ->
  forall tiny : R -> bool, (forall x, tiny x = true -> x = rO) ->
  forall i S t s, wf R S ->
    sden R rO rI radd rmul (shift_keys R radd tiny i S) t s
    = (if den (i, 0) t (t + i) then sden R rO rI radd rmul S (t + i) s else rO)
    /\ wf R (shift_keys R radd tiny i S).
Proof.
  intros R rO rI radd rmul rsub ropp Rth tiny Ht i S t s HS. split.
  - eapply shift_keys_den; eassumption.
  - eapply wf_shift_keys; eassumption.
Qed.
Print Assumptions acc_shift_is_operator_product.
