(** C04.6 -- "... does not depend on whether only a subset of outputs is requested".  CombinedBlock._jacobian asks each block only for the rows of the
    WANTED names -- the requested outputs together with every intermediate name (an output of some block that some block reads: _required =
    find_intermediate_inputs(blocks)) -- and skips a block none of whose outputs is wanted.  For ANY operator algebra, ANY list of blocks and ANY
    set of wanted names that contains every intermediate name: on every wanted name, and on every model input, the selective accumulation returns
    exactly what the full accumulation (the object of chain_rule_equations / order_independence) returns.  Obligation: in the TRANSLATED source the
    wanted set is `(outputs | self._required) - vector_valued`, `_required` is `find_intermediate_inputs(blocks)` unless supplied, that function adds
    every block input that is in the output map, and the skip test is `inputs & block.inputs and outputs & block.outputs`.
    (Were an intermediate name missing from the wanted set, the rows computed downstream of it would silently lose that path: the oracle's
    output-subset runs exhibit it.) *)
From Coq Require Import List Arith Bool.
From SSJ Require Import Model.Chain Gen.BlockFacts Proofs.ChainProofs.
Import ListNotations.

Theorem requested_subset : combined_jacobian_wants_requested_and_intermediate = true /\
  forall (E : Type) (e0 : E) (eadd emul : E -> E -> E) (want : nat -> bool) (all : list (cblock E)),
  (forall b m, In b all -> In m (c_ins E b) -> (exists b', In b' all /\ In m (c_outs E b')) -> want m = true) ->
  forall init x, want x = true \/ (forall b, In b all -> ~ In x (c_outs E b)) ->
  accumulate_sel E e0 eadd emul want all init x = accumulate E e0 eadd emul all init x.
Proof.
  split; [reflexivity|]. intros E e0 eadd emul want all Hreq init x Hx.
  apply (requested_subset_lemma E e0 eadd emul want all Hreq all (fun b H => H) init init (fun _ _ => eq_refl) x Hx).
Qed.
Print Assumptions requested_subset.

(** non-vacuity: three blocks over the integers; block 2 (output 3) is not wanted and is skipped, the wanted outputs are unchanged, and
    dropping the intermediate name 1 from the wanted set does change output 2 *)
Example requested_subset_example :
  let b1 := {| c_outs := [1]; c_ins := [0]; c_J := fun _ _ => 2 |} in
  let b2 := {| c_outs := [3]; c_ins := [0]; c_J := fun _ _ => 7 |} in
  let b3 := {| c_outs := [2]; c_ins := [0; 1]; c_J := fun _ m => if Nat.eqb m 0 then 1 else 5 |} in
  let init := fun x => if Nat.eqb x 0 then 1 else 0 in
  let want := fun x => Nat.eqb x 1 || Nat.eqb x 2 in
  accumulate_sel nat 0 Nat.add Nat.mul want [b1; b2; b3] init 2 = accumulate nat 0 Nat.add Nat.mul [b1; b2; b3] init 2 /\
  accumulate nat 0 Nat.add Nat.mul [b1; b2; b3] init 2 = 11 /\ accumulate_sel nat 0 Nat.add Nat.mul want [b1; b2; b3] init 3 = 0 /\
  accumulate_sel nat 0 Nat.add Nat.mul (fun x => Nat.eqb x 2) [b1; b2; b3] init 2 = 1.
Proof. repeat split; vm_compute; reflexivity. Qed.
