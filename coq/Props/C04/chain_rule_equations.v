(** C04.1 -- forward accumulation of CombinedBlock._jacobian (total := identity(inputs); for block in order:
    total.update(J_block @ total)) over ANY operator algebra: if the blocks are in a well-formed evaluation order
    (no name output twice; a block reads only names no later block outputs -- what C15 proves of the sort), then
    the result satisfies the chain-rule equation of EVERY block with the FINAL totals on the right-hand side,
    total[o] = sum_m J_b[o, m] total[m], and rows of model inputs stay the identity.  These equations determine the
    totals uniquely along the order, so the result does not depend on which admissible order was used. *)
From Coq Require Import List.
From SSJ Require Import Model.Chain Proofs.ChainProofs.
Theorem chain_rule_equations : forall (E : Type) (e0 : E) (eadd emul : E -> E -> E) blocks,
  ordered E blocks -> forall init,
  (forall b o, In b blocks -> In o (c_outs E b) ->
     accumulate E e0 eadd emul blocks init o = esum E e0 eadd (fun m => emul (c_J E b o m) (accumulate E e0 eadd emul blocks init m)) (c_ins E b)) /\
  (forall x, (forall b, In b blocks -> ~ In x (c_outs E b)) -> accumulate E e0 eadd emul blocks init x = init x).
Proof. intros E e0 eadd emul blocks H init. split; [intros; apply chain_rule_equations_lemma; assumption | intros; apply inputs_keep_identity_lemma; assumption]. Qed.
Print Assumptions chain_rule_equations.
