(** C04 (tie A) -- structural facts extracted from the current source by tools/translate.py on which the abstract model
    of this property relies; a refactoring that changes one of them must be re-examined (the obligation breaks). *)
From Coq Require Import Bool.
From SSJ Require Import Gen.BlockFacts.
Theorem code_facts_C04 : options_kwargs_over_block_over_defaults = true /\ partial_jacobians_saved_guard_covers_request = true /\ jacobian_saved_guard_covers_request = true /\ combined_steady_state_forwards_options = true /\ combined_impulse_nonlinear_forwards = true /\ combined_impulse_linear_forwards = true /\ combined_jacobian_accumulates = true.
Proof. repeat split; reflexivity. Qed.
Print Assumptions code_facts_C04.
