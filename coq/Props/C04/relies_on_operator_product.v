(** C04 (imported obligation) -- the chain rule along the DAG multiplies the blocks' sparse shift-operator Jacobians with the
    TRANSLATED multiply_basis; the abstract accumulation theorem of C04.1 presupposes that this product is the operator
    product (C03.1).  Re-stated here so that a change to that rule breaks an obligation of THIS property too. *)
From Coq Require Import ZArith Bool List Ring.
From SSJ Require Import Lib.PySlice Lib.Sums Model.Shift Model.Sparse Gen.MultiplyBasis Gen.ComputeL Gen.SparseIndex Proofs.ShiftProofs Proofs.SparseProofs.
Import ListNotations.
Open Scope Z_scope.

Theorem chain_rule_uses_operator_product : forall i m j n t u, 0 <= m -> 0 <= n ->
  den (multiply_basis (i, m) (j, n)) t u = den (i, m) t (t + i) && den (j, n) (t + i) u.
Proof. exact basis_product_lemma. Qed.
Print Assumptions chain_rule_uses_operator_product.
