(** C04.2 -- UNIQUENESS AND ORDER INDEPENDENCE.  Along any well-formed evaluation order the chain-rule equations of the
    blocks together with the identity rows of the model inputs have exactly one solution; consequently the forward
    accumulation of CombinedBlock._jacobian gives the same total Jacobians for EVERY admissible listing of the same
    blocks (any operator algebra, any number of blocks). *)
From Coq Require Import List ZArith Arith Lia.
From SSJ Require Import Model.Chain Proofs.ChainProofs.
Import ListNotations.

Theorem chain_rule_solution_unique : forall (E : Type) (e0 : E) (eadd emul : E -> E -> E) blocks, ordered E blocks ->
  forall tot1 tot2 : nat -> E,
  (forall b o, In b blocks -> In o (c_outs E b) -> tot1 o = esum E e0 eadd (fun m => emul (c_J E b o m) (tot1 m)) (c_ins E b)) ->
  (forall b o, In b blocks -> In o (c_outs E b) -> tot2 o = esum E e0 eadd (fun m => emul (c_J E b o m) (tot2 m)) (c_ins E b)) ->
  (forall x, (forall b, In b blocks -> ~ In x (c_outs E b)) -> tot1 x = tot2 x) ->
  forall x, tot1 x = tot2 x.
Proof. intros E e0 eadd emul. exact (solutions_agree E e0 eadd emul). Qed.
Print Assumptions chain_rule_solution_unique.

Theorem order_independence : forall (E : Type) (e0 : E) (eadd emul : E -> E -> E) bs1 bs2,
  ordered E bs1 -> ordered E bs2 -> (forall b, In b bs1 <-> In b bs2) ->
  forall init x, accumulate E e0 eadd emul bs1 init x = accumulate E e0 eadd emul bs2 init x.
Proof. intros E e0 eadd emul. exact (order_independence_lemma E e0 eadd emul). Qed.
Print Assumptions order_independence.

(** non-vacuity: two different admissible listings of three integer blocks *)
Definition bA : cblock Z := {| c_outs := [3]; c_ins := [0]; c_J := fun _ _ => 2%Z |}.
Definition bB : cblock Z := {| c_outs := [4]; c_ins := [1; 0]; c_J := fun _ m => (Z.of_nat m - 3)%Z |}.
Definition bC : cblock Z := {| c_outs := [5; 6]; c_ins := [3; 4]; c_J := fun o m => Z.of_nat (o * m) |}.
Ltac ord1 := apply ord_cons; [ | intros b' Hb' m Hm Ho; cbn [In c_ins c_outs bA bB bC] in *; intuition (subst; cbn [In c_ins c_outs bA bB bC] in *; intuition lia)
                                  | intros b' Hb' o Ho Ho'; cbn [In c_ins c_outs bA bB bC] in *; intuition (subst; cbn [In c_ins c_outs bA bB bC] in *; intuition lia) ].
Ltac ord := ord1; [ord1; [ord1; [apply ord_nil]]].
Example both_orders_admissible : ordered Z [bA; bB; bC] /\ ordered Z [bB; bA; bC] /\
  accumulate Z 0%Z Z.add Z.mul [bA; bB; bC] (fun x => if Nat.eqb x 0 then 1%Z else 0%Z) 6 = (-36)%Z.
Proof. split; [ord | split; [ord | vm_compute; reflexivity]]. Qed.
