(** C04.7 -- "The linear impulse to any shock equals the model Jacobian applied to that shock."  CombinedBlock._impulse_linear walks the blocks in evaluation
    order and gives every output of a block the sum, over the block's inputs, of the block's Jacobian applied to that input's impulse; CombinedBlock._jacobian
    accumulates the operators (the object of chain_rule_equations).  For ANY operator algebra E acting on ANY space of paths V (the action distributes over the
    sum of operators, turns the product of operators into successive application, and the zero operator gives the zero path), ANY list of blocks and ANY shock:
    if the initial impulses are the initial operators applied to the shock (the shocked input carries the identity, every other name the zero operator), then
    after the walk EVERY name's impulse is its accumulated Jacobian applied to the shock; and the walk is additive in the initial impulses, so a shock to several
    inputs gives the sum of the single-input responses.  (Sparse and dense entries acting on horizon-T vectors form such an algebra INSIDE the exactness window
    -- semantic decision S1; obligation: the translated forwarding of impulse_linear to the blocks.) *)
From Coq Require Import List Arith Bool ZArith.
From SSJ Require Import Model.Chain Gen.BlockFacts Proofs.ChainProofs Proofs.ImpulseProofs.
Import ListNotations.

Theorem linear_impulse_is_jacobian_applied : combined_impulse_linear_forwards = true /\
  forall (E V : Type) (e0 : E) (eadd emul : E -> E -> E) (v0 : V) (vadd : V -> V -> V) (act : E -> V -> V),
  (forall a b v, act (eadd a b) v = vadd (act a v) (act b v)) -> (forall a b v, act (emul a b) v = act a (act b v)) -> (forall v, act e0 v = v0) ->
  (forall shock blocks (tot0 : nat -> E) (dv0 : nat -> V), (forall x, dv0 x = act (tot0 x) shock) ->
     forall x, impulse_acc E V v0 vadd act blocks dv0 x = act (accumulate E e0 eadd emul blocks tot0 x) shock) /\
  ((forall a b, vadd a b = vadd b a) -> (forall a b c, vadd a (vadd b c) = vadd (vadd a b) c) -> (forall a, vadd v0 a = a) -> (forall a u w, act a (vadd u w) = vadd (act a u) (act a w)) ->
   forall blocks (d1 d2 : nat -> V) x, impulse_acc E V v0 vadd act blocks (fun y => vadd (d1 y) (d2 y)) x
                                        = vadd (impulse_acc E V v0 vadd act blocks d1 x) (impulse_acc E V v0 vadd act blocks d2 x)).
Proof.
  split; [reflexivity|]. intros E V e0 eadd emul v0 vadd act H1 H2 H3. split.
  - intros; eapply linear_impulse_is_jacobian_applied_lemma; eassumption.
  - intros C A Z0 D. intros; apply (impulse_additive_lemma E V v0 vadd act C A Z0 D).
Qed.
Print Assumptions linear_impulse_is_jacobian_applied.

(** non-vacuity: integers acting on integers by multiplication; x1 = 2 x0, x2 = x0 + 5 x1: the impulse of x2 to a shock of 3 in x0 is (1 + 5 * 2) * 3 *)
Example linear_impulse_example :
  let b1 := {| c_outs := [1%nat]; c_ins := [0%nat]; c_J := fun _ _ => 2%Z |} in
  let b2 := {| c_outs := [2%nat]; c_ins := [0%nat; 1%nat]; c_J := fun _ m => if Nat.eqb m 0 then 1%Z else 5%Z |} in
  let tot0 := fun x => if Nat.eqb x 0 then 1%Z else 0%Z in
  impulse_acc Z Z 0%Z Z.add Z.mul [b1; b2] (fun x => (tot0 x * 3)%Z) 2%nat = (accumulate Z 0%Z Z.add Z.mul [b1; b2] tot0 2%nat * 3)%Z /\
  impulse_acc Z Z 0%Z Z.add Z.mul [b1; b2] (fun x => (tot0 x * 3)%Z) 2%nat = 33%Z.
Proof. vm_compute. split; reflexivity. Qed.
