(** C04.4 -- steady state and nonlinear impulse do not depend on the order in which the blocks were listed: in the executable model of
    models assembled from simple blocks (Model/NLSolve.v: blocks evaluated one after another; a block none of whose inputs is perturbed
    is skipped unless an initial steady state was supplied), for ANY two well-formed evaluation orders of the same blocks (the decidable test [wf_progb]; the correspondence check
    evaluates it on the order the implementation chose), any calibration, any horizon, any steady-state tables and any initial paths:
    the steady-state tables coincide and the nonlinear paths of every variable coincide. *)
From Coq Require Import ZArith QArith Qcanon Bool List Arith.
From SSJ Require Import Model.Sparse Model.SimpleBlk Model.SimpleBlkQ Model.Chain Model.GET Model.NLSolve Proofs.NLSolveProofs.
Import ListNotations.

Theorem dag_order_independence : forall N prog prog', wf_progb N prog = true -> wf_progb N prog' = true -> (forall b, In b prog <-> In b prog') ->
  (forall calib, length calib = N -> ss_eval prog calib = ss_eval prog' calib) /\
  (forall force T ss ssi P0, length P0 = N -> nl_eval force T ss ssi prog P0 = nl_eval force T ss ssi prog' P0).
Proof.
  intros N prog prog' H H' Hp. pose proof (wf_progb_sound N prog H) as Hwf. pose proof (wf_progb_sound N prog' H') as Hwf'. split.
  - intros calib Hl. apply (ss_order_independent_lemma N); assumption.
  - intros force T ss ssi P0 Hl. apply (nl_order_independent_lemma force T ss ssi N); assumption.
Qed.
Print Assumptions dag_order_independence.

(** non-vacuity: two admissible orders of a diamond (x2 and x3 from x0, x1; x4 from both) *)
Definition bA : sblock := {| sb_ins := [0; 1]%nat; sb_outs := [(2%nat, EMul (EVar 0%nat) (EShift (-1)%Z (EVar 1%nat)))] |}.
Definition bB : sblock := {| sb_ins := [0]%nat; sb_outs := [(3%nat, EPow (EShift 1%Z (EVar 0%nat)) 1%nat)] |}.
Definition bC : sblock := {| sb_ins := [2; 3]%nat; sb_outs := [(4%nat, ESub (EVar 2%nat) (EMul (EVar 3%nat) (EShift (-1)%Z (EVar 2%nat))))] |}.
Example two_orders_wf : wf_progb 5 [bA; bB; bC] = true /\ wf_progb 5 [bB; bA; bC] = true /\ wf_progb 5 [bC; bA; bB] = false.
Proof. vm_compute. repeat split. Qed.
Example two_orders_agree :
  let ss := ss_eval [bA; bB; bC] [qn 3 2; qn 1 2; q0; q0; q0] in
  let P0 := init_paths 5 ss [(0%nat, [qn 1 8; qn 0 1; qn (-1) 4])] in
  nl_eval false 3%Z ss ss [bA; bB; bC] P0 = nl_eval false 3%Z ss ss [bB; bA; bC] P0 /\ nth 4 (nl_eval false 3%Z ss ss [bA; bB; bC] P0) [] <> [].
Proof. vm_compute. split; [reflexivity | discriminate]. Qed.
