(** C13 (tie A) -- structural facts extracted from the current source (het_block.py, function.py) by tools/translate.py on
    which the loop models of this property rely. *)
From Coq Require Import Bool.
From SSJ Require Import Gen.HetFacts.
Theorem code_facts_C13 : aggregates_weight_by_D = true /\ hetoutput_derivative_sees_direct_input = true /\ impulse_uses_initial_distribution_and_copies_ss = true.
Proof. repeat split; reflexivity. Qed.
Print Assumptions code_facts_C13.
