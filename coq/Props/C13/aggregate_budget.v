(** C13.1-2 -- if consumption + end-of-period assets (+ adjustment costs x) equals income plus the gross return on the
    grid point at EVERY grid point, then for ANY distribution D the aggregates satisfy C + A + X = Y + R <D, grid>; the
    lotteries' mean preservation (C08 kernel_weights) gives <Dbeg_{t+1}, grid> = A_t; differences of two evaluations
    satisfying a linear identity satisfy it as well (numerical derivatives preserve linear identities).  The pointwise
    identity of the shipped backward functions is validated on every run by the oracle. *)
From Coq Require Import ZArith.
From SSJ Require Import Lib.Sums Proofs.BudgetProofs.
Open Scope Z_scope.
Theorem aggregate_budget : forall n (D c a x y g : Z -> Z) R,
  (forall i, 0 <= i < n -> c i + a i + x i = y i + R * g i) ->
  zsum_range 0 Z.add 0 n (fun i => D i * c i) + zsum_range 0 Z.add 0 n (fun i => D i * a i) + zsum_range 0 Z.add 0 n (fun i => D i * x i)
  = zsum_range 0 Z.add 0 n (fun i => D i * y i) + R * zsum_range 0 Z.add 0 n (fun i => D i * g i).
Proof. exact aggregate_budget_lemma. Qed.
Print Assumptions aggregate_budget.
Theorem numdiff_preserves_linear_identities : forall c1 c0 a1 a0 y1 y0 : Z,
  c1 + a1 = y1 -> c0 + a0 = y0 -> (c1 - c0) + (a1 - a0) = (y1 - y0).
Proof. exact numdiff_preserves_linear_identities_lemma. Qed.
Print Assumptions numdiff_preserves_linear_identities.
