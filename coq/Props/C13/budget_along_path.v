(** C13.3 -- aggregate accounting along the forward pass of the executable instance of the HetBlock loops (Model/HetPath.v; the
    correspondence check runs it on the OBSERVED policies of the shipped one-asset households): for every grid with two or more points
    whose neighbours differ, every path of Markov matrices and individual outcomes, every initial distribution and every date t:
    (a) the assets carried into date t+1 by its beginning-of-period distribution equal date t's aggregate asset choice
        (sum Dbeg_{t+1} a_grid = sum D_t a_t), policies outside the grid included;
    (b) if consumption + asset choice = cash on hand at every grid point of date t, then
        C_t + sum Dbeg_{t+1} a_grid = sum D_t coh_t:  aggregate consumption plus end-of-period assets equals aggregate resources. *)
From Coq Require Import ZArith QArith Qcanon Bool List Arith.
From SSJ Require Import Lib.Sums Model.HetLoop Model.HetPath Proofs.HetPathProofs.
Import ListNotations.

Theorem budget_along_path : forall nz na agrid, length agrid = na -> (2 <= na)%nat -> distinct_neighbours agrid ->
  forall (back : list hback) (Dbeg : arr) k b d d',
  nth_error back k = Some b ->
  nth_error (forward_nonlinear hback arr (exogB nz na) (endogB nz na agrid) back Dbeg) k = Some d ->
  nth_error (forward_nonlinear hback arr (exogB nz na) (endogB nz na agrid) back Dbeg) (S k) = Some d' ->
  carried_in nz na agrid (fst d') = aggregate nz na (snd d) (b_a b) /\
  forall coh : arr, (forall z a, (z < nz)%nat -> (a < na)%nat -> Qcplus (ent (b_c b) z a) (ent (b_a b) z a) = ent coh z a) ->
    Qcplus (aggregate nz na (snd d) (b_c b)) (carried_in nz na agrid (fst d')) = aggregate nz na (snd d) coh.
Proof.
  intros nz na agrid Hg Hna Hd back Dbeg k b d d' Hb Hk Hk'. split.
  - unfold carried_in. eapply forward_asset_accounting; eassumption.
  - intros coh Hbud. eapply budget_along_path_lemma; eassumption.
Qed.
Print Assumptions budget_along_path.

(** non-vacuity: a three-point grid, two dates, a policy that leaves the grid at the top *)
Example budget_example :
  let g := [hq 0 1; hq 1 1; hq 3 1] in
  let back := observed_back [[[hq 1 2; hq 1 2]; [hq 1 4; hq 3 4]]; [[hq 1 2; hq 1 2]; [hq 1 4; hq 3 4]]]
                            [[[hq 1 2; hq 2 1; hq 7 2]; [hq 0 1; hq 1 1; hq 5 2]]; [[hq 1 1; hq 1 1; hq 1 1]; [hq 1 1; hq 1 1; hq 1 1]]]
                            [[[hq 1 1; hq 1 1; hq 1 1]; [hq 1 1; hq 1 1; hq 1 1]]; [[hq 1 1; hq 1 1; hq 1 1]; [hq 1 1; hq 1 1; hq 1 1]]] in
  let fwd := forward_nonlinear hback arr (exogB 2 3) (endogB 2 3 g) back [[hq 1 4; hq 1 8; hq 1 8]; [hq 1 8; hq 1 8; hq 1 4]] in
  match fwd with
  | d0 :: d1 :: _ => Qc_eq_bool (carried_in 2 3 g (fst d1)) (aggregate 2 3 (snd d0) (b_a (nth 0 back {| b_V := []; b_a := []; b_c := []; b_Pi := [] |})))
                     && negb (Qc_eq_bool (carried_in 2 3 g (fst d1)) h0)
  | _ => false
  end = true.
Proof. vm_compute. reflexivity. Qed.
