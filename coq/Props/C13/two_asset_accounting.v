(** C13.4 -- two endogenous assets (the shipped two-asset household; the correspondence check replays its forward pass date by date through Model/HetPath2D.v):
    for every pair of grids with two or more points each, every pair of policies (inside or outside the grids) and every distribution, the 2-D policy lottery
    (a) conserves total mass;
    (b) on grids whose neighbouring points differ, carries into the next date exactly the aggregate of each asset chosen today:
        sum Dbeg' * b_grid = sum D * b'   and   sum Dbeg' * a_grid = sum D * a'.
    With the pointwise budget c + a' + b' + chi = resources (validated on every run) and the aggregation theorem (C13.1) this is the aggregate identity
    C + A + B + CHI = resources with A(-1), B(-1) the assets carried in by the beginning-of-period distribution. *)
From Coq Require Import ZArith QArith Qcanon Bool List Arith.
From SSJ Require Import Lib.Sums Model.HetLoop Model.HetPath Model.HetPath2D Proofs.HetPathProofs Proofs.HetPath2DProofs.
Import ListNotations.

Theorem two_asset_accounting : forall nz nx ny gx gy polx poly D, length gx = nx -> length gy = ny -> (2 <= nx)%nat -> (2 <= ny)%nat ->
  mass nz (nx * ny) (lottery2_forward nz nx ny gx gy polx poly D) = mass nz (nx * ny) D /\
  (distinct_neighbours gx -> carried_x nz nx ny gx (lottery2_forward nz nx ny gx gy polx poly D) = aggregate nz (nx * ny) D polx) /\
  (distinct_neighbours gy -> carried_y nz nx ny gy (lottery2_forward nz nx ny gx gy polx poly D) = aggregate nz (nx * ny) D poly).
Proof. exact lottery2_laws_lemma. Qed.
Print Assumptions two_asset_accounting.

(** non-vacuity: a 3 x 2 grid, one exogenous state, one policy above the x-grid *)
Example two_asset_example :
  let gx := [hq 0 1; hq 1 1; hq 3 1] in let gy := [hq 0 1; hq 2 1] in
  let polx := [[hq 1 2; hq 7 2; hq 2 1; hq 0 1; hq 1 1; hq 5 2]] in let poly := [[hq 1 1; hq 1 2; hq 3 2; hq 2 1; hq 0 1; hq 1 4]] in
  let D := [[hq 1 4; hq 1 8; hq 1 8; hq 1 4; hq 1 8; hq 1 8]] in
  Qc_eq_bool (carried_x 1 3 2 gx (lottery2_forward 1 3 2 gx gy polx poly D)) (aggregate 1 6 D polx)
  && Qc_eq_bool (carried_y 1 3 2 gy (lottery2_forward 1 3 2 gx gy polx poly D)) (aggregate 1 6 D poly)
  && negb (Qc_eq_bool (aggregate 1 6 D polx) h0) = true.
Proof. vm_compute. reflexivity. Qed.
