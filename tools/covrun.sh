#!/bin/bash
# which lines of the package do the 20 quick checks execute?  (development aid: blind spots of the oracles; not part of any registered check)
cd /verif
export PYTHONPATH=/repo/src:/verif/tools PYTHONHASHSEED=0 SEQUENCE_JACOBIAN_VERIF=1 NUMBA_CACHE_DIR=/verif/.work/numba_cache NUMBA_DISABLE_JIT=${NUMBA_DISABLE_JIT:-0}
out=${1:-/tmp/ssjcov}; rm -rf $out; mkdir -p $out
for p in $(/venv/bin/python -c "import json;print(' '.join(c['property_id'] for c in json.load(open('MANIFEST.json'))['checks']))"); do
  COVERAGE_FILE=$out/.coverage.$p /venv/bin/python -W ignore -m coverage run --source=/repo/src/sequence_jacobian tools/check.py $p --tier quick > $out/$p.log 2>&1
  echo "$p rc=$?"
done
cd $out && /venv/bin/python -m coverage combine .coverage.* > /dev/null 2>&1 && /venv/bin/python -m coverage report -m --skip-covered > $out/report.txt 2>&1
tail -n 40 $out/report.txt
