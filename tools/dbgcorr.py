"""development aid: run only the correspondence of one property and print the disagreements in full"""
import sys, os, json, time, importlib
sys.path.insert(0, os.path.dirname(os.path.abspath(__file__)))
from lib import common as C
prop = sys.argv[1]; seed = int(os.environ.get('VERIF_SEED', '0')); tier = os.environ.get('VERIF_TIER', 'quick')
mod = importlib.import_module(f'props.{prop}')
ctx = dict(prop=prop, tier=tier, seed=seed, rng=C.Rng(seed * 1000003 + int(prop[1:])))
t0 = time.time()
r = mod.correspondence(ctx)
print('evaluations', r['evaluations'], 'disagreements', len(r['disagreements']), 'stats', r.get('stats'), f'{time.time()-t0:.1f}s')
for d in r['disagreements'][:int(os.environ.get('NDIS', '3'))]:
    print(json.dumps(d, default=str)[:int(os.environ.get('DLEN', '3000'))])
