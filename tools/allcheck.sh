#!/bin/bash
# run every check for the given seeds (default 0 1 2) on the current /repo tree; summary on stdout
cd /verif
seeds="${@:-0 1 2}"
tier="${VERIF_TIER:-quick}"
for s in $seeds; do
  for p in $(/venv/bin/python -c "import json;print(' '.join(c['property_id'] for c in json.load(open('MANIFEST.json'))['checks']))"); do
    t0=$(date +%s)
    out=$(VERIF_SEED=$s ./check $p --tier $tier 2>&1); rc=$?
    echo "seed=$s $p rc=$rc $(( $(date +%s) - t0 ))s $(echo "$out" | grep -c '^VIOLATION') viol; $(echo "$out" | grep "^$p \[" | cut -c1-150)"
    if [ $rc -ne 0 ]; then echo "$out" | grep '^VIOLATION' | head -3; fi
  done
done
