"""Writes /verif/MANIFEST.json from the table below (kept valid at all times)."""
import json, os, sys
V = os.path.abspath(os.path.join(os.path.dirname(__file__), '..'))
sys.path.insert(0, os.path.join(V, 'tools'))
from manifest_table import CHECKS, PENDING

ids = [json.loads(l)['id'] for l in open(os.path.join(V, 'properties.jsonl'))]
checks = []
for pid in ids:
    if pid not in CHECKS:
        continue
    c = CHECKS[pid]
    checks.append(dict(
        property_id=pid,
        quick_cmd=f'./check {pid} --tier quick',
        thorough_cmd=f'./check {pid} --tier thorough',
        evidence_file=f'/verif/evidence/{pid}.json',
        replay_cmd_template=f'./check {pid} --replay {{path}}',
        engine='coq-proof+correspondence',
        level_claimed=dict(category='proof', text=c['text'], design_ref=c.get('design_ref', f'DESIGN.md section 5 {pid}')),
        level_note=c['note'],
        technique=c['technique'],
    ))
na = [dict(property_id=p, reason=PENDING.get(p, 'check not built yet; see DESIGN.md section 5 for the planned theorems')) for p in ids if p not in CHECKS]
m = dict(
    version=1,
    setup_cmd='./check --setup',
    hooks=dict(guard='SEQUENCE_JACOBIAN_VERIF', enable='no source hooks: every observation point is a public function; checks wrap from the harness process (SEQUENCE_JACOBIAN_VERIF=1 is exported but unused by the package)',
               baseline_off_cmd='cd /repo && /venv/bin/python -m pytest -ra -q -p no:cacheprovider --timeout=900 --continue-on-collection-errors',
               source_commits=[], add_only=True),
    engines=[dict(name='coq-proof+correspondence', path='/verif/check', serves_properties=[c['property_id'] for c in checks],
                  kind_free_text='Coq 8.16.1 theorems about a model that is partly regenerated from /repo by tools/translate.py (tie A) and partly hand-written and run against the implementation by vm_compute on generated cases (tie B); an independent numpy/python oracle searches the real code for a concrete failing input')],
    checks=checks,
    notes='See DESIGN.md. Every check regenerates coq/Gen from /repo working tree, rebuilds, recompiles each obligation file, runs the correspondence and the oracle.',
    not_applicable=na,
)
json.dump(m, open(os.path.join(V, 'MANIFEST.json'), 'w'), indent=1)
print('MANIFEST.json:', len(checks), 'checks,', len(na), 'not claimed')
