"""Generated NONLINEAR general-equilibrium models built from @simple blocks with polynomial equations, printed both as python source and
as the executable rational model of Model/NLSolve.v (blocks = lists of DSL expressions over global names).  Used by C06 (Newton iterations
of solve_impulse_nonlinear replayed step by step in Coq) and C04/C07 (nonlinear DAG evaluation / steady state of a DAG)."""
import os, sys, importlib
from fractions import Fraction
import numpy as np
from . import common as C

HEADER = ('From Coq Require Import ZArith QArith Qcanon List Arith Bool.\n'
          'From SSJ Require Import Model.Sparse Model.SimpleBlk Model.SimpleBlkQ Model.Chain Model.GET Model.NLSolve.\n'
          'Import ListNotations.\nOpen Scope nat_scope.\n')

qf = lambda v: (lambda fr: f'(qn {C.zs(fr.numerator)} {fr.denominator}%positive)')(Fraction(float(v)))


def py(e):
    k = e[0]
    if k == 'var':
        return f'x{e[1]}'
    if k == 'num':
        return f'({float(e[1])})'
    if k in ('add', 'sub', 'mul'):
        return f'({py(e[1])} {dict(add="+", sub="-", mul="*")[k]} {py(e[2])})'
    if k == 'neg':
        return f'(-{py(e[1])})'
    if k == 'shift':
        return f'{py(e[2])}({e[1]})'
    if k == 'pow':
        return f'({py(e[1])} ** {e[2]})'
    raise ValueError(k)


def coq(e):
    k = e[0]
    if k == 'var':
        return f'(EVar {e[1]}%nat)'
    if k == 'num':
        return f'(ENum {qf(e[1])})'
    if k in ('add', 'sub', 'mul'):
        return f'({dict(add="EAdd", sub="ESub", mul="EMul")[k]} {coq(e[1])} {coq(e[2])})'
    if k == 'neg':
        return f'(ENeg {coq(e[1])})'
    if k == 'shift':
        return f'(EShift ({e[1]})%Z {coq(e[2])})'
    if k == 'pow':
        return f'(EPow {coq(e[1])} {int(e[2]) - 1}%nat)'
    raise ValueError(k)


def variables(e, acc=None):
    acc = [] if acc is None else acc
    if e[0] == 'var':
        if e[1] not in acc:
            acc.append(e[1])
    else:
        for x in e[1:]:
            if isinstance(x, tuple):
                variables(x, acc)
    return acc


def gen_term(rng, ins, cube=False):
    """one polynomial term of degree <= 3 in led / lagged inputs"""
    v = lambda: ('var', rng.choice(ins))
    sh = lambda e: e if rng.random() < 0.45 else ('shift', rng.choice([-2, -1, -1, 1, 1, 2]), e)
    c = ('num', rng.choice([0.5, -0.5, 1.0, -1.0, 0.25, -0.25]))
    kind = rng.choice(['lin', 'lin', 'quad', 'quad', 'sq', 'nest'] + (['cube'] if cube else []))
    if kind == 'lin':
        body = sh(v())
    elif kind == 'quad':
        body = ('mul', sh(v()), sh(v()))
    elif kind == 'sq':
        body = ('pow', sh(v()), 2)
    elif kind == 'cube':
        body = ('pow', ('add', v(), ('num', rng.choice([0.5, -0.5]))), 3)
    else:                  # a shifted product whose factor is itself shifted: nested time displacement
        body = ('shift', rng.choice([-1, 1]), ('mul', sh(v()), v()))
    return ('mul', body, c)          # the wrapped object stays on the left of the plain number


def gen_expr(rng, ins, nterms, cube=False):
    e = gen_term(rng, ins, cube)
    for _ in range(nterms - 1):
        e = (rng.choice(['add', 'add', 'sub']), e, gen_term(rng, ins, cube))
    return e


def gen_nl_model(rng):
    while True:
        m = _gen_nl_model(rng)
        used = {i for b in m['blocks'] for i in b['ins']}
        if all(v in used for v in m['Z'] + m['U'] + m['Pm']):
            return m


def _gen_nl_model(rng):
    """exogenous Z, unknowns U, parameters Pm (never shocked), 1-2 intermediate blocks, one target per unknown dominated by 8 * 'its' unknown; sometimes a block that reads
    parameters only (none of its inputs is ever perturbed)"""
    nz, nu, npm = rng.choice([1, 1, 2]), rng.choice([1, 2, 2, 3]), rng.choice([0, 1, 1])
    Z = list(range(nz))
    U = list(range(nz, nz + nu))
    Pm = list(range(nz + nu, nz + nu + npm))
    nxt = nz + nu + npm
    avail, blocks = Z + U + Pm, []
    if Pm and rng.random() < 0.5:
        blocks.append(dict(name='par', outs=[(nxt, gen_expr(rng, Pm, 2))]))
        avail = avail + [nxt]
        nxt += 1
    for b in range(rng.randint(1, 2)):      # at most two levels of quadratic blocks below the (quadratic) targets: exact values stay below ~500 bits
        ins = rng.sample(avail, rng.randint(1, min(3, len(avail))))
        outs = []
        for _ in range(rng.randint(1, 2)):
            outs.append((nxt, gen_expr(rng, ins, rng.randint(1, 3), cube=(b == 0))))
            nxt += 1
        blocks.append(dict(name=f'mid{b}', outs=outs))
        avail = avail + [o for o, _ in outs]
    Tg = []
    for j, u in enumerate(U):
        others = rng.sample([v for v in avail if v != u], rng.randint(1, min(3, len(avail) - 1)))
        e = ('add', ('mul', ('var', u), ('num', rng.choice([8.0, -8.0, 6.0]))), gen_expr(rng, others + ([u] if rng.random() < 0.4 else []), rng.randint(1, 3)))
        blocks.append(dict(name=f'tgt{j}', outs=[(nxt, e)]))
        Tg.append(nxt)
        nxt += 1
    for b in blocks:
        ins = []
        for _, e in b['outs']:
            variables(e, ins)
        b['ins'] = sorted(ins)
    T = rng.randint(3, 6)
    val = lambda: rng.choice([0.5, 1.0, 1.5, -1.0, 0.75, 1.25])
    calib = {v: val() for v in Z + U + Pm}
    calib0 = {v: (val() if v in Pm or rng.random() < 0.5 else calib[v]) for v in Z + U + Pm}      # a distinct initial steady state (used by some callers)
    size = rng.choice([2.0 ** -4, 2.0 ** -5, 2.0 ** -7])
    shocks = {z: [size * rng.choice([1.0, -1.0, 0.5, 0.0, 2.0]) for _ in range(T)] for z in Z if rng.random() < 0.8 or z == Z[0]}
    return dict(blocks=blocks, Z=Z, U=U, Pm=Pm, Tg=Tg, T=T, N=nxt, calib=calib, calib0=calib0, shocks=shocks)


def write_module(tag, specs):
    d = os.path.join(C.WORK, 'models')
    os.makedirs(d, exist_ok=True)
    name = f'verif_nl_{tag}'
    with open(os.path.join(d, name + '.py'), 'w') as f:
        f.write('import numpy as np\nfrom sequence_jacobian import simple\n\n')
        for mi, spec in enumerate(specs):
            for b in spec['blocks']:
                f.write(f'@simple\ndef m{mi}_{b["name"]}({", ".join(f"x{i}" for i in b["ins"])}):\n')
                for o, e in b['outs']:
                    f.write(f'    x{o} = {py(e)}\n')
                f.write('    return ' + ', '.join(f'x{o}' for o, _ in b['outs']) + '\n\n')
    if d not in sys.path:
        sys.path.insert(0, d)
    importlib.invalidate_caches()
    sys.modules.pop(name, None)
    return importlib.import_module(name)


def coq_prog(blocks_in_order):
    return C.coq_list(blocks_in_order, lambda b: '{| sb_ins := ' + C.coq_list(b['ins'], str) + '; sb_outs := '
                      + C.coq_list(b['outs'], lambda oe: f'({oe[0]}, {coq(oe[1])})') + ' |}')


def coq_tbl(ss, N):
    return C.coq_list([ss[f'x{i}'] for i in range(N)], qf)


def coq_devs(devs):
    """[(name index, deviation path)]"""
    return C.coq_list(list(devs), lambda d: f'({d[0]}, {C.coq_list(d[1], qf)})')


def frac(x):
    return Fraction(int(x[0]), int(x[1]))


def dag_correspondence(ctx, prop, n):
    """steady_state and impulse_nonlinear of generated polynomial DAGs (shuffled listing) vs the executable rational model (Model/NLSolve.v run_dag):
    the model is given the calibration only and computes the steady-state table itself; well-formedness of the evaluation order is decided in Coq"""
    from sequence_jacobian import combine
    rng = ctx['rng']
    specs = [gen_nl_model(rng) for _ in range(n)]
    mod = write_module(f'{prop}_dag_{ctx["seed"]}_{ctx["tier"]}', specs)
    exprs, meta, dis = [], [], []
    for mi, spec in enumerate(specs):
        objs = [getattr(mod, f'm{mi}_{b["name"]}') for b in spec['blocks']]
        rng.shuffle(objs)
        model = combine(objs, name=f'dag{mi}')
        T, N = spec['T'], spec['N']
        calib = {f'x{k}': v for k, v in spec['calib'].items()}
        shocked = spec['Z'] + [u for u in spec['U'] if rng.random() < 0.5]
        devs = {f'x{v}': np.array([2.0 ** -3 * rng.choice([1.0, -1.0, 0.5, 0.0, 2.0]) for _ in range(T)]) for v in shocked}
        try:
            ss = model.steady_state(calib)
            re = model.steady_state({k: ss[k] for k in model.inputs})
            td = model.impulse_nonlinear(ss, devs)
            zero = model.impulse_nonlinear(ss, {k: np.zeros(T) for k in devs})
        except Exception as ex:
            dis.append(dict(what=f'generated polynomial DAG raised {type(ex).__name__}: {ex}', case=dict(spec=spec)))
            continue
        order = [b.name.split('_', 1)[1] for b in model.blocks]
        bmap = {b['name']: b for b in spec['blocks']}
        outs = sorted(int(k[1:]) for k in td.toplevel if k not in devs)
        table = C.coq_list([calib.get(f'x{i}', 0.0) for i in range(N)], qf)
        exprs.append(f'run_dag {N} {T}%Z {table} {coq_prog([bmap[nm] for nm in order])} {coq_devs([(int(k[1:]), v) for k, v in devs.items()])} {C.coq_list(outs, str)}')
        meta.append((dict(spec=spec, listing=[o.name for o in objs], shocked=sorted(devs)), ss, re, td, zero, outs, N))
    vals, logs = C.eval_in_coq(prop, HEADER, exprs, chunk=max(1, len(exprs) // 16 + 1), tag='dag')
    for (case, ss, re, td, zero, outs, N), vm in zip(meta, vals):
        if vm is None:
            continue
        wf, ssm, devm = vm if len(vm) == 3 else (vm[0][0], vm[0][1], vm[1])
        bad = []
        if wf is not True:
            bad.append('the evaluation order chosen by the implementation fails the well-formedness test of the model')
        for i in range(N):
            v = float(frac(ssm[i]))
            if f'x{i}' in ss.toplevel and abs(ss[f'x{i}'] - v) > 1e-12 * max(1.0, abs(v)):
                bad.append(f'steady state of x{i}')
            if f'x{i}' in ss.toplevel and f'x{i}' in re.toplevel and re[f'x{i}'] != ss[f'x{i}']:
                bad.append(f're-evaluation at the steady state changes x{i}')
        for o, pm in zip(outs, devm):
            pmf = np.array([float(frac(x)) for x in pm])
            if len(pmf) != len(td[f'x{o}']) or np.abs(pmf - td[f'x{o}']).max() > 1e-11 * max(1.0, np.abs(pmf).max()):
                bad.append(f'nonlinear path of x{o}')
        if any(np.abs(zero[k]).max() != 0 for k in zero.toplevel):
            bad.append('a zero shock gives non-zero deviations')
        if bad:
            dis.append(dict(what='steady_state / impulse_nonlinear of a DAG of simple blocks differs from the executable rational model', case=dict(case, differing=bad[:6])))
    for l in logs:
        dis.append(dict(what='coq evaluation failed', log=l))
    return meta, exprs, dis


# ---------------------------------------------------------------------------------------------------
# models that contain a solved block (Model/NLNested.v)
def gen_nested_model(rng):
    while True:
        m = _gen_nested_model(rng)
        used = {i for b in m['blocks'] for i in b['ins']}
        if all(v in used for v in m['Z'] + m['U'] + m['Pm'] + m['solved']['U']):
            return m


def _gen_nested_model(rng):
    """exogenous Z, 0-2 OUTER unknowns, a parameter, an optional intermediate block, a SOLVED block (own unknown v; inner blocks: an intermediate one reading v and outer names,
    and the inner target 8 v + ...), then one outer target per outer unknown reading any of the names so far (the solved block's unknown and outputs included)"""
    nz, nu, npm = rng.choice([1, 1, 2]), rng.choice([0, 1, 1, 2]), rng.choice([0, 1])
    Z = list(range(nz))
    U = list(range(nz, nz + nu))
    Pm = list(range(nz + nu, nz + nu + npm))
    nxt = nz + nu + npm
    avail, blocks = Z + U + Pm, []
    if rng.random() < 0.6:
        ins = rng.sample(avail, rng.randint(1, min(2, len(avail))))
        blocks.append(dict(name='mid0', outs=[(nxt, gen_expr(rng, ins, rng.randint(1, 2)))]))
        avail = avail + [nxt]
        nxt += 1
    v = nxt
    nxt += 1
    inner = []
    two = rng.random() < 0.7
    if two:
        w = nxt
        nxt += 1
        blocks.append(dict(name='imid', outs=[(w, gen_expr(rng, [v] + rng.sample(avail, rng.randint(1, min(2, len(avail)))), rng.randint(1, 2)))]))
        inner.append('imid')
    h = nxt
    nxt += 1
    others = rng.sample(avail, rng.randint(1, min(2, len(avail)))) + ([w] if two else [])
    blocks.append(dict(name='itgt', outs=[(h, ('add', ('mul', ('var', v), ('num', rng.choice([8.0, -8.0, 6.0]))), gen_expr(rng, others + ([v] if rng.random() < 0.3 else []), rng.randint(1, 2))))]))
    inner.append('itgt')
    avail = avail + [v] + ([w] if two else [])
    Tg = []
    for j, u in enumerate(U):
        oth = rng.sample([x for x in avail if x != u], rng.randint(1, min(3, len(avail) - 1)))
        e = ('add', ('mul', ('var', u), ('num', rng.choice([8.0, -8.0, 6.0]))), gen_expr(rng, oth + ([u] if rng.random() < 0.4 else []), rng.randint(1, 2)))
        blocks.append(dict(name=f'tgt{j}', outs=[(nxt, e)]))
        Tg.append(nxt)
        nxt += 1
    if not U or rng.random() < 0.5:       # an ordinary block downstream of the solved block
        blocks.append(dict(name='post', outs=[(nxt, gen_expr(rng, rng.sample(avail, rng.randint(1, min(2, len(avail)))) + [v], rng.randint(1, 2)))]))
        nxt += 1
    for b in blocks:
        ins = []
        for _, e in b['outs']:
            variables(e, ins)
        b['ins'] = sorted(ins)
    T = rng.randint(3, 4)
    val = lambda: rng.choice([0.5, 1.0, 1.5, -1.0, 0.75, 1.25])
    calib = {x: val() for x in Z + U + Pm}
    calib0 = {x: (val() if x in Pm or rng.random() < 0.5 else calib[x]) for x in Z + U + Pm}
    size = rng.choice([2.0 ** -4, 2.0 ** -5, 2.0 ** -7])
    shocks = {z: [size * rng.choice([1.0, -1.0, 0.5, 0.0, 2.0]) for _ in range(T)] for z in Z if rng.random() < 0.8 or z == Z[0]}
    inner_blocks = [b for b in blocks if b['name'] in inner]
    produced = {o for b in inner_blocks for o, _ in b['outs']}
    sins = sorted({i for b in inner_blocks for i in b['ins']} - produced - {v})
    return dict(blocks=blocks, Z=Z, U=U, Pm=Pm, Tg=Tg, T=T, N=nxt, calib=calib, calib0=calib0, shocks=shocks,
                solved=dict(inner=inner, U=[v], Tg=[h], ins=sins, outs=sorted(produced | {v})))


def coq_nprog(spec, order):
    """order: names of the OUTER blocks as the implementation sorted them ('solved' for the solved block); inner blocks in the given inner order"""
    bmap = {b['name']: b for b in spec['blocks']}
    sb = lambda b: '{| sb_ins := ' + C.coq_list(b['ins'], str) + '; sb_outs := ' + C.coq_list(b['outs'], lambda oe: f'({oe[0]}, {coq(oe[1])})') + ' |}'
    items = []
    for nm in order:
        if isinstance(nm, tuple):
            s = spec['solved']
            items.append('NSolved {| sv_inner := ' + C.coq_list([bmap[x] for x in nm[1]], sb) + f'; sv_U := {C.coq_list(s["U"], str)}; sv_Tg := {C.coq_list(s["Tg"], str)}; '
                         f'sv_ins := {C.coq_list(s["ins"], str)}; sv_outs := {C.coq_list(s["outs"], str)} |}}')
        else:
            items.append(f'NSimple {sb(bmap[nm])}')
    return '[' + '; '.join(items) + ']'
