"""Shared generated model families for the DAG / general-equilibrium properties (C04, C05, C06, C11, C19)."""
import os, sys, importlib
import numpy as np
from . import common as C

SRC = '''import numpy as np
from sequence_jacobian import simple, combine, create_model

# ---- a small forward-looking DAG: exogenous z, e; unknowns k, p; targets res_k, res_p -------------------------------
@simple
def prod(k, z, alpha):
    y = z * k(-1) ** alpha
    mpk = alpha * z(+1) * k ** (alpha - 1)
    return y, mpk

@simple
def demand(y, p, e):
    c = y * (1 + 0.3 * p(-1)) - e
    d = 0.5 * c + 0.2 * c(+1)
    return c, d

@simple
def euler(c, mpk, beta):
    res_k = c ** (-1) - beta * (mpk(+0) + 0.9) * c(+1) ** (-1)
    return res_k

@simple
def pricing(p, d, y, e, m):
    res_p = p - 0.4 * p(+1) - 0.3 * (d - 0.7 * y) - e(-1) * 0.1 - m
    return res_p

@simple
def extra(y, c, d):
    s = y - c + 0.1 * d(-1)
    return s

BLOCKS = [prod, demand, euler, pricing, extra]
CALIB = dict(k=1.2, z=1.0, alpha=0.33, p=0.2, e=0.05, beta=0.95, m=0.0)
UNKNOWNS, TARGETS, EXOG = ['k', 'p'], ['res_k', 'res_p'], ['z', 'e', 'm']


def flat():
    return combine(BLOCKS, name='flat')


def nested(inner_unknowns=None, inner_targets=None):
    inner = combine([prod, demand, euler], name='inner').solved(unknowns=inner_unknowns or {'k': (0.05, 60.0)}, targets=inner_targets or ['res_k'], name='inner_solved')
    return combine([inner, pricing, extra], name='nested'), inner


def solve_flat_ss(calib=None, res_k=0.0):
    c = dict(CALIB if calib is None else calib)
    return flat().solve_steady_state(c, {'k': c['k'], 'p': c['p']}, {'res_k': res_k, 'res_p': 0.0}, solver='broyden_custom')

# ---- the same model with an INTEGER-valued parameter left of a product that is then led, and a third unknown/target pair ----
@simple
def annual(mpk, periods):
    r_ann = (periods * mpk)(+1)
    return r_ann

@simple
def bond(i, r_ann):
    res_i = i - r_ann
    return res_i

CALIB_INT = dict(CALIB, periods=4, i=1.0)
UNKNOWNS_INT, TARGETS_INT = ['k', 'p', 'i'], ['res_k', 'res_p', 'res_i']


def flat_int():
    return combine(BLOCKS + [annual, bond], name='flat_int')


def solve_flat_int_ss(calib=None):
    c = dict(CALIB_INT if calib is None else calib)
    return flat_int().solve_steady_state(c, {'k': c['k'], 'p': c['p'], 'i': c['i']}, {'res_k': 0.0, 'res_p': 0.0, 'res_i': 0.0}, solver='broyden_custom')

# ---- linear contemporaneous blocks with integer coefficients (exact chain-rule correspondence at T = 1) -------------
'''


def reference_paths(ss, dev, T, ss0=None):
    """plain numpy evaluation of the equations of flat() / flat_int() on level paths; dev: deviation paths of k, p, (i), z, e, m (missing = zero); returns deviations of every output from ss.
    Values before date 0 are those of ss0 (default ss), values after T-1 those of ss."""
    ss0 = ss if ss0 is None else ss0
    lv = {x: ss[x] + np.asarray(dev.get(x, np.zeros(T)), float) for x in ('k', 'p', 'z', 'e', 'm')}
    lag = lambda x, name: np.concatenate(([ss0[name]], x[:-1]))
    lead = lambda x, name: np.concatenate((x[1:], [ss[name]]))
    al, be = ss['alpha'], ss['beta']
    o = {}
    o['y'] = lv['z'] * lag(lv['k'], 'k') ** al
    o['mpk'] = al * lead(lv['z'], 'z') * lv['k'] ** (al - 1)
    o['c'] = o['y'] * (1 + 0.3 * lag(lv['p'], 'p')) - lv['e']
    o['d'] = 0.5 * o['c'] + 0.2 * lead(o['c'], 'c')
    o['res_k'] = o['c'] ** (-1) - be * (o['mpk'] + 0.9) * lead(o['c'], 'c') ** (-1)
    o['res_p'] = lv['p'] - 0.4 * lead(lv['p'], 'p') - 0.3 * (o['d'] - 0.7 * o['y']) - lag(lv['e'], 'e') * 0.1 - lv['m']
    o['s'] = o['y'] - o['c'] + 0.1 * lag(o['d'], 'd')
    if 'periods' in ss:
        o['r_ann'] = ss['periods'] * lead(o['mpk'], 'mpk')
        o['res_i'] = ss['i'] + np.asarray(dev.get('i', np.zeros(T)), float) - o['r_ann']
    return {k: v - ss[k] for k, v in o.items()}


def load():
    d = os.path.join(C.WORK, 'models')
    os.makedirs(d, exist_ok=True)
    with open(os.path.join(d, 'verif_models.py'), 'w') as f:
        f.write(SRC)
    if d not in sys.path:
        sys.path.insert(0, d)
    importlib.invalidate_caches()
    sys.modules.pop('verif_models', None)
    return importlib.import_module('verif_models')


def random_calib(rng):
    """a calibration in a mild box around the base one (thorough tier: the properties quantify over calibrations)"""
    return dict(alpha=round(rng.uniform(0.28, 0.38), 4), beta=round(rng.uniform(0.93, 0.97), 4), z=round(rng.uniform(0.92, 1.08), 4), e=round(rng.uniform(0.02, 0.08), 4))


def write_linear_models(tag, specs):
    """specs: list of models; a model = list of blocks; a block = dict(name, ins=[names], outs={out: {in: coef}})"""
    d = os.path.join(C.WORK, 'models')
    os.makedirs(d, exist_ok=True)
    name = f'verif_linear_{tag}'
    with open(os.path.join(d, name + '.py'), 'w') as f:
        f.write('from sequence_jacobian import simple\n\n')
        for mi, blocks in enumerate(specs):
            for b in blocks:
                f.write(f'@simple\ndef m{mi}_{b["name"]}({", ".join(b["ins"])}):\n')
                for o, coefs in b['outs'].items():
                    term = lambda i, c: f'({c}) * {i}' if not isinstance(c, (tuple, list)) else (f'({c[0]}) * {i}({c[1]:+d})' if c[1] else f'({c[0]}) * {i}')
                    rhs = ' + '.join(term(i, c) for i, c in coefs.items()) or '0 * ' + b['ins'][0]
                    f.write(f'    {o} = {rhs}\n')
                f.write('    return ' + ', '.join(b['outs']) + '\n\n')
    if d not in sys.path:
        sys.path.insert(0, d)
    importlib.invalidate_caches()
    sys.modules.pop(name, None)
    return importlib.import_module(name)


def dense(e, N):
    """dense N x N matrix of a Jacobian entry (sparse entries through their own .matrix)"""
    if isinstance(e, np.ndarray):
        out = np.zeros((N, N))
        T = e.shape[0]
        out[:T, :T] = e
        return out
    return e.matrix(N)


def steady(model_or_blocks, calib):
    from sequence_jacobian import combine
    m = model_or_blocks if hasattr(model_or_blocks, 'steady_state') else combine(model_or_blocks)
    return m, m.steady_state(calib)


def reference_jacobian(blocks_in_order, ss, inputs, N):
    """independent dense chain rule: blocks must be given in a valid evaluation order"""
    total = {i: {i: np.eye(N)} for i in inputs}
    for b in blocks_in_order:
        bins = [i for i in b.inputs if i in total]
        if not bins:
            continue
        J = b.jacobian(ss, bins, T=N)
        for o in J.outputs:
            row = {}
            for m_ in bins:
                e = J.nesteddict.get(o, {}).get(m_)
                if e is None:
                    continue
                M = dense(e, N)
                for i, tm in total[m_].items():
                    row[i] = row.get(i, 0) + M @ tm
            if row:
                total[o] = row
    return total


# ---- linear general-equilibrium models whose blocks carry leads and lags of DIFFERENT depths ---------------------------------
def gen_shift_ge(rng):
    """exogenous v0, unknown v1, target v4; an upstream chain lead -> lag (v0 -> v2 -> v3) produces sparse elements with missing initial rows (m > 0)"""
    k1, k2 = rng.choice([1, 2, 3]), rng.choice([1, 2, 3])
    c = lambda: rng.choice([-2, -1, 1, 2])
    return [dict(name='fore', ins=['v0'], outs={'v2': {'v0': (c(), k1)}}),
            dict(name='contract', ins=['v2', 'v0'], outs={'v3': {'v2': (c(), -k2), 'v0': (c(), rng.choice([0, 0, -1]))}}),
            dict(name='pricing', ins=['v1', 'v3', 'v0'], outs={'v4': {'v1': (4, 0), 'v3': (c(), rng.choice([0, 1, -1])), 'v0': (c(), -1)}}),
            dict(name='market', ins=['v1', 'v3'], outs={'v5': {'v1': (2, -1), 'v3': (c(), rng.choice([0, 1, 2]))}, 'v6': {'v1': (c(), 1)}})]


def shift_ge_reference(model, ss, T, K=14):
    """dense reference of the T-truncated general-equilibrium Jacobian from the single-block Jacobians (chain rule on a longer horizon, cut to T)"""
    ref = reference_jacobian(model.blocks, ss, ['v0', 'v1'], T + K)
    w = lambda o, i: ref[o][i][:T, :T] if i in ref.get(o, {}) else np.zeros((T, T))
    GU = -np.linalg.solve(w('v4', 'v1'), w('v4', 'v0'))
    out = {'v1': GU}
    for o in ('v2', 'v3', 'v5', 'v6'):
        out[o] = w(o, 'v1') @ GU + w(o, 'v0')
    return out


def check_shift_ge(rng, nmodels, nested, tag):
    """flat solve_jacobian / solve_impulse_linear (and, if nested, the model with the pricing block wrapped as a solved block) vs the dense reference"""
    from sequence_jacobian import combine
    out, n, T = [], 0, 10
    W = T - 4      # H_U is diagonal here, so truncation (products of windows vs windows of products when a lead follows) only touches the last rows
    specs = [gen_shift_ge(rng) for _ in range(nmodels)]
    mod = write_linear_models(f'shiftge_{tag}_{nmodels}', specs)
    for mi, blocks in enumerate(specs):
        n += 1
        objs = {b['name']: getattr(mod, f'm{mi}_{b["name"]}') for b in blocks}
        flat = combine(list(objs.values()), name=f'sg{mi}')
        ss = flat.steady_state({'v0': 1.0, 'v1': 0.5})
        ref = shift_ge_reference(flat, ss, T)
        inp = dict(kind='shift-ge', blocks=blocks)
        try:
            G = flat.solve_jacobian(ss, ['v1'], ['v4'], ['v0'], T=T)
            bad = [o for o in ref if np.abs(dense(G[o]['v0'], T) - ref[o]).max() > 1e-9] if all(o in G.outputs for o in ref) else ['missing outputs']
            if not bad:
                sh = {'v0': np.r_[1.0, -0.5, 0.25, np.zeros(T - 3)]}
                imp = flat.solve_impulse_linear(ss, ['v1'], ['v4'], sh)
                bad = [o for o in ('v1', 'v3', 'v5') if np.abs(imp[o][:T - 4] - (ref[o] @ sh['v0'])[:T - 4]).max() > 1e-9]
        except Exception as ex:
            bad = [f'raised {type(ex).__name__}: {ex}']
        if bad:
            out.append(dict(what='general-equilibrium Jacobian / linear impulse of a model with leads and lags of different depths differs from the dense reference', input=dict(inp, form='flat', entries=bad[:4]),
                            signature=dict(op='shift-ge', form='flat')))
        if nested:
            try:
                inner = combine([objs['pricing']], name=f'in{mi}').solved(unknowns={'v1': (-60.0, 60.0)}, targets=['v4'], solver='brentq', name=f'solved{mi}')
                nm = combine([objs['fore'], objs['contract'], inner, objs['market']], name=f'nest{mi}')
                ssn = nm.steady_state({'v0': 1.0})
                ssf = flat.solve_steady_state({'v0': 1.0}, {'v1': (-60.0, 60.0)}, ['v4'], solver='brentq')
                reff = shift_ge_reference(flat, ssf, T)
                J = nm.jacobian(ssn, ['v0'], T=T)
                Js = nm.partial_jacobians(ssn, ['v0'], T=T)
                J2 = nm.jacobian(ssn, ['v0'], T=T, Js=Js)
                bad = [o for o in reff if np.abs(dense(J[o]['v0'], T)[:W] - reff[o][:W]).max() > 1e-8 or np.abs(dense(J2[o]['v0'], T)[:W] - reff[o][:W]).max() > 1e-8]
            except Exception as ex:
                bad = [f'raised {type(ex).__name__}: {ex}']
            if bad:
                out.append(dict(what='the Jacobian of a model whose solved block sits downstream of a lead/lag chain differs from the flat general-equilibrium Jacobian (dense reference)',
                                input=dict(inp, form='nested', entries=bad[:4]), signature=dict(op='shift-ge', form='nested')))
    return out, n


# ---- the shipped example models (sequence_jacobian.examples): rbc, krusell_smith, hank, two_asset ------------------------------
def example_models(names):
    import importlib
    out = []
    for nm in names:
        mod = importlib.import_module(f'sequence_jacobian.examples.{nm}')
        r = mod.dag()
        if len(r) == 5:
            model, ss, U, Tg, Z = r
            model_ss = model
        else:
            model_ss, ss, model, U, Tg, Z = r[:6]
        out.append((nm, model_ss, model, ss, list(U), list(Tg), list(Z)))
    return out


def check_examples(names, what, T=30):
    """what: 'ss' (steady state is a fixed point of the transition model, targets are zero), 'ge' (H_U G_U + H_Z = 0, chain-rule totals, impulse = G @ shock),
    'nl' (nonlinear: zero shock, consistency by re-evaluation, small shocks approach the linear impulse)"""
    viol, n = [], 0
    for nm, model_ss, model, ss, U, Tg, Z in example_models(names):
        inp = dict(kind='example', model=nm)
        if what == 'ss':
            n += 1
            re = model.steady_state({k: ss[k] for k in model.inputs})
            bad = [k for k in re.toplevel if k in ss.toplevel and np.isscalar(re[k]) and abs(re[k] - ss[k]) > 1e-7 * max(1, abs(ss[k]))]
            offt = [t for t in Tg if abs(re[t]) > 1e-6]
            if bad or offt:
                viol.append(dict(what='the shipped example model re-evaluated at its steady state does not reproduce it / its transition targets are not zero there', input=dict(inp, differing=bad[:5], targets_off=offt),
                                 signature=dict(op='example-ss', model=nm)))
        elif what == 'ge':
            n += 1
            G = model.solve_jacobian(ss, U, Tg, Z, T=T)
            H = model.jacobian(ss, U + Z, Tg, T=T)
            d = lambda J, o, i: dense(J.nesteddict.get(o, {}).get(i), T) if J.nesteddict.get(o, {}).get(i) is not None else np.zeros((T, T))
            for z in Z:
                for t in Tg:
                    resid = sum(d(H, t, u) @ d(G, u, z) for u in U) + d(H, t, z)
                    if np.abs(resid).max() > 1e-7:
                        viol.append(dict(what='general-equilibrium Jacobian of a shipped example model leaves a target response', input=dict(inp, target=t, shock=z), observed=float(np.abs(resid).max()), signature=dict(op='example-ge', model=nm)))
            sh = {Z[0]: 0.01 * 0.8 ** np.arange(T)}
            imp = model.solve_impulse_linear(ss, U, Tg, sh)
            app = G @ sh
            W = T - 6
            bad = [k for k in U if np.abs(imp[k][:W] - app[k][:W]).max() > 1e-8]
            if bad:
                viol.append(dict(what='linear impulse of a shipped example model differs from G applied to the shock', input=dict(inp, outputs=bad), signature=dict(op='example-impulse', model=nm)))
            # the same with differentiation options for the heterogeneous-agent blocks (two-sided, coarse step): the options must reach the linear impulse exactly as they reach G
            from sequence_jacobian.blocks.het_block import HetBlock
            hets = [b.name for b in getattr(model, 'blocks', []) if isinstance(b, HetBlock)]
            if hets:
                n += 1
                o2 = {h: dict(twosided=True, h=2e-3) for h in hets}
                G2 = model.solve_jacobian(ss, U, Tg, Z, T=T, options=o2)
                imp2 = model.solve_impulse_linear(ss, U, Tg, sh, options=o2)
                app2 = G2 @ sh
                bad = [k for k in U if np.abs(imp2[k][:W] - app2[k][:W]).max() > 1e-8 * max(1.0, np.abs(app2[k]).max() / 0.01)]
                if bad:
                    viol.append(dict(what='with two-sided differentiation requested for the household block, the linear impulse of a shipped example model differs from G (same options) applied to the shock',
                                     input=dict(inp, outputs=bad, options=o2), observed=float(max(np.abs(imp2[k][:W] - app2[k][:W]).max() for k in bad)), signature=dict(op='example-impulse-options', model=nm)))
        elif what == 'nl':
            n += 1
            T = 120          # short horizons truncate the linear operator algebra and the nonlinear path evaluation differently
            opts = {model.name: dict(verbose=False, tol=1e-7, maxit=40)}
            z0 = model.solve_impulse_nonlinear(ss, U, Tg, {Z[0]: np.zeros(T)}, options=opts)
            if max(np.abs(z0[u]).max() for u in U) > 1e-6:
                viol.append(dict(what='a zero shock moves a shipped example model', input=inp, signature=dict(op='example-zero', model=nm)))
            sh = {Z[0]: 1e-4 * 0.8 ** np.arange(T)}
            r = model.solve_impulse_nonlinear(ss, U, Tg, sh, options=opts)
            if any(np.abs(r[t]).max() > 1e-6 for t in Tg):
                viol.append(dict(what='nonlinear solution of a shipped example model misses its targets', input=inp, signature=dict(op='example-targets', model=nm)))
            lin = model.solve_impulse_linear(ss, U, Tg, sh)
            W = T - 6
            dev = max(np.abs(r[u][:W] - lin[u][:W]).max() / max(np.abs(lin[u]).max(), 1e-12) for u in U)
            if dev > 1e-2:       # the gap is second order in the shock size (measured: 4e-3 for the HANK example at this size)
                viol.append(dict(what='for a small shock the nonlinear path of a shipped example model is far from the linear impulse', input=inp, observed=float(dev), signature=dict(op='example-nl-vs-lin', model=nm)))
    return viol, n


# ---- variables measured in very small units: genuine coefficients of order 1e-11 must survive every sum of paths ---------------------
SMALL_SRC = '''from sequence_jacobian import simple

@simple
def su_tax(x, unit):
    tax_a = unit * x
    tax_b = unit * x + unit * x(-1)
    return tax_a, tax_b

@simple
def su_rev(tax_a, tax_b):
    revenue = tax_a + tax_b
    return revenue

@simple
def su_share(revenue, unit):
    share = revenue / unit
    return share
'''


def check_small_units():
    """x -> (tax_a, tax_b) -> revenue -> share with taxes measured in units of 2e-11: d share / d x = 2 on the diagonal and 1 on the first subdiagonal, whatever the listing order;
    also sums of sparse operators with coefficients of that order directly"""
    from sequence_jacobian import combine
    from sequence_jacobian.classes.sparse_jacobians import SimpleSparse
    import itertools
    d = os.path.join(C.WORK, 'models')
    os.makedirs(d, exist_ok=True)
    with open(os.path.join(d, 'verif_small_units.py'), 'w') as f:
        f.write(SMALL_SRC)
    if d not in sys.path:
        sys.path.insert(0, d)
    importlib.invalidate_caches()
    sys.modules.pop('verif_small_units', None)
    sm = importlib.import_module('verif_small_units')
    out, n, T = [], 0, 5
    want = 2 * np.eye(T) + np.eye(T, k=-1)
    for unit in (2e-11, 3e-12, 1.0):
        for perm in itertools.permutations([sm.su_tax, sm.su_rev, sm.su_share]):
            n += 1
            model = combine(list(perm), name='small_units')
            ss = model.steady_state({'x': 1.0, 'unit': unit})
            J = model.jacobian(ss, ['x'], ['share', 'revenue'], T=T)
            e = J.nesteddict.get('share', {}).get('x')
            got = np.zeros((T, T)) if e is None else dense(e, T)
            r = J.nesteddict.get('revenue', {}).get('x')
            gotr = np.zeros((T, T)) if r is None else dense(r, T)
            if np.abs(got - want).max() > 1e-9 or np.abs(gotr - unit * want).max() > 1e-9 * unit:
                out.append(dict(what='model Jacobian loses genuine coefficients of variables measured in small units (chain rule over several paths)',
                                input=dict(kind='small-units', unit=unit, listing=[b.name for b in perm], blocks=['tax_a = unit * x; tax_b = unit * x + unit * x(-1)', 'revenue = tax_a + tax_b', 'share = revenue / unit']),
                                observed=dict(share=got[:2, :2].tolist(), revenue=gotr[:2, :2].tolist()), expected=dict(share=want[:2, :2].tolist()), signature=dict(op='small-units', where='model')))
    for a, b in ((3e-11, 2e-11), (4e-12, -1e-12), (6e-14, 3e-14)):
        for form in ('add', 'sub', 'radd-dense'):
            n += 1
            A, B = SimpleSparse({(0, 0): a, (1, 0): 1.0}), SimpleSparse({(0, 0): b, (-1, 1): 2.0})
            if form == 'add':
                got, ref = (A + B).matrix(T), A.matrix(T) + B.matrix(T)
            elif form == 'sub':
                got, ref = (A - SimpleSparse({(0, 0): -b, (-1, 1): 2.0})).matrix(T), A.matrix(T) - SimpleSparse({(0, 0): -b, (-1, 1): 2.0}).matrix(T)
            else:
                got, ref = (A + B.matrix(T)), A.matrix(T) + B.matrix(T)
            if abs(got[0, 0] - ref[0, 0]) > 1e-9 * abs(ref[0, 0]) or np.abs(got - ref).max() > 1e-12:
                out.append(dict(what='a sum of sparse operators loses a genuine small coefficient', input=dict(kind='small-units', form=form, coefficients=[a, b]), observed=float(got[0, 0]), expected=float(ref[0, 0]),
                                signature=dict(op='small-units', where='sparse-' + form)))
    return out, n


# ---------------------------------------------------------------------------------------------------
# a REMAPPED block next to a block that produces a variable under the template's plain name (as in the shipped krusell_smith.remapped_dag): translating the model's
# steady state into the remapped block's internal names must give the REMAPPED names priority over plain names that happen to coincide
REMAP_SRC = '''import numpy as np
from sequence_jacobian import simple

@simple
def sector(K, Z, alpha):
    Y = Z * K ** alpha + 0.1 * Z(+1) + 0.05 * K(-1)
    return Y

@simple
def union(Y_a, Y_b, Z_a, Z_b):
    Y = 0.5 * (Y_a + Y_b)
    Z = 0.5 * (Z_a + Z_b)
    return Y, Z

@simple
def clear(Y, Ybar, K_a):
    gap = Y - Ybar + 0.05 * (K_a - K_a(-1))
    return gap

@simple
def sector_a(K_a, Z_a, alpha):
    Y_a = Z_a * K_a ** alpha + 0.1 * Z_a(+1) + 0.05 * K_a(-1)
    return Y_a

@simple
def sector_b(K_b, Z_b, alpha):
    Y_b = Z_b * K_b ** alpha + 0.1 * Z_b(+1) + 0.05 * K_b(-1)
    return Y_b
'''


def check_remap_next_to_plain(general_equilibrium=False):
    """model with two remapped copies of one block and a block producing the plain names vs the same equations written with the new names: Jacobian, linear and nonlinear impulses
    (general_equilibrium: solve_jacobian, solve_impulse_linear, solve_impulse_nonlinear with one unknown and target)"""
    from sequence_jacobian import combine
    d = os.path.join(C.WORK, 'models')
    os.makedirs(d, exist_ok=True)
    with open(os.path.join(d, 'verif_remap_plain.py'), 'w') as f:
        f.write(REMAP_SRC)
    if d not in sys.path:
        sys.path.insert(0, d)
    importlib.invalidate_caches()
    sys.modules.pop('verif_remap_plain', None)
    m = importlib.import_module('verif_remap_plain')
    out, n, T = [], 0, 8
    ra = m.sector.remap({'K': 'K_a', 'Z': 'Z_a', 'Y': 'Y_a'}).rename('sec_a')
    rb = m.sector.remap({'K': 'K_b', 'Z': 'Z_b', 'Y': 'Y_b'}).rename('sec_b')
    cal = dict(K_a=1.0, K_b=2.0, Z_a=1.0, Z_b=1.5, alpha=0.3, Ybar=0.0)
    models = {}
    for lab, blocks in (('remapped', [m.union, ra, m.clear, rb]), ('written with the new names', [m.union, m.sector_a, m.clear, m.sector_b])):
        mod = combine(blocks, name='rp_' + lab[:3])
        ss = mod.steady_state(dict(cal))
        ss = mod.steady_state(dict(cal, Ybar=float(ss['Y'])))
        models[lab] = (mod, ss)
    sh = {'Z_b': 0.01 * 0.6 ** np.arange(T), 'K_b': np.r_[0.0, 0.005, np.zeros(T - 2)]}
    quiet = lambda mod: {mod.name: dict(verbose=False)}
    if not general_equilibrium:
        calls = [('steady_state', lambda mod, ss: {k: np.atleast_1d(float(ss[k])) for k in ('Y_a', 'Y_b', 'Y', 'Z', 'gap')}),
                 ('jacobian', lambda mod, ss: {f'{o}/{i}': dense(J_[o][i], T) for J_ in [mod.jacobian(ss, ['K_a', 'K_b', 'Z_a', 'Z_b'], T=T)] for o in J_.outputs for i in J_.nesteddict[o]}),
                 ('impulse_linear', lambda mod, ss: dict(mod.impulse_linear(ss, {**sh, 'K_a': np.zeros(T)}).toplevel)),
                 ('impulse_nonlinear', lambda mod, ss: dict(mod.impulse_nonlinear(ss, {**sh, 'K_a': np.zeros(T)}).toplevel))]
    else:
        calls = [('solve_jacobian', lambda mod, ss: {f'{o}/{i}': dense(G_[o][i], T) for G_ in [mod.solve_jacobian(ss, ['K_a'], ['gap'], ['Z_b', 'K_b'], T=T)] for o in G_.outputs for i in G_.nesteddict[o]}),
                 ('solve_impulse_linear', lambda mod, ss: dict(mod.solve_impulse_linear(ss, ['K_a'], ['gap'], sh).toplevel)),
                 ('solve_impulse_nonlinear', lambda mod, ss: dict(mod.solve_impulse_nonlinear(ss, ['K_a'], ['gap'], sh, options=quiet(mod)).toplevel))]
    for label, f in calls:
        n += 1
        inp = dict(kind='remap-next-to-plain', call=label, general_equilibrium=bool(general_equilibrium))
        try:
            want = f(*models['written with the new names'])
        except Exception as ex:
            out.append(dict(what=f'remap-next-to-plain probe: the reference model failed in {label}: {type(ex).__name__}: {ex}', input=inp, signature=dict(op='raise')))
            continue
        try:
            got = f(*models['remapped'])
            bad = [k for k in want if k not in got or np.shape(got[k]) != np.shape(want[k]) or np.abs(np.asarray(got[k]) - np.asarray(want[k])).max() > 1e-9]
        except Exception as ex:
            bad = [f'raised {type(ex).__name__}: {str(ex)[:120]}']
        if bad:
            out.append(dict(what='a model with remapped blocks next to a block producing the template\'s plain names does not behave like the same equations written with the new names', input=inp, observed=bad[:5],
                            signature=dict(op='remap-next-to-plain', call=label)))
    return out, n
