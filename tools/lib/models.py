"""Shared generated model families for the DAG / general-equilibrium properties (C04, C05, C06, C11, C19)."""
import os, sys, importlib
import numpy as np
from . import common as C

SRC = '''import numpy as np
from sequence_jacobian import simple, combine, create_model

# ---- a small forward-looking DAG: exogenous z, e; unknowns k, p; targets res_k, res_p -------------------------------
@simple
def prod(k, z, alpha):
    y = z * k(-1) ** alpha
    mpk = alpha * z(+1) * k ** (alpha - 1)
    return y, mpk

@simple
def demand(y, p, e):
    c = y * (1 + 0.3 * p(-1)) - e
    d = 0.5 * c + 0.2 * c(+1)
    return c, d

@simple
def euler(c, mpk, beta):
    res_k = c ** (-1) - beta * (mpk(+0) + 0.9) * c(+1) ** (-1)
    return res_k

@simple
def pricing(p, d, y, e, m):
    res_p = p - 0.4 * p(+1) - 0.3 * (d - 0.7 * y) - e(-1) * 0.1 - m
    return res_p

@simple
def extra(y, c, d):
    s = y - c + 0.1 * d(-1)
    return s

BLOCKS = [prod, demand, euler, pricing, extra]
CALIB = dict(k=1.2, z=1.0, alpha=0.33, p=0.2, e=0.05, beta=0.95, m=0.0)
UNKNOWNS, TARGETS, EXOG = ['k', 'p'], ['res_k', 'res_p'], ['z', 'e', 'm']


def flat():
    return combine(BLOCKS, name='flat')


def nested(inner_unknowns=None, inner_targets=None):
    inner = combine([prod, demand, euler], name='inner').solved(unknowns=inner_unknowns or {'k': (0.05, 60.0)}, targets=inner_targets or ['res_k'], name='inner_solved')
    return combine([inner, pricing, extra], name='nested'), inner


def solve_flat_ss(calib=None, res_k=0.0):
    c = dict(CALIB if calib is None else calib)
    return flat().solve_steady_state(c, {'k': c['k'], 'p': c['p']}, {'res_k': res_k, 'res_p': 0.0}, solver='broyden_custom')

# ---- linear contemporaneous blocks with integer coefficients (exact chain-rule correspondence at T = 1) -------------
'''


def load():
    d = os.path.join(C.WORK, 'models')
    os.makedirs(d, exist_ok=True)
    with open(os.path.join(d, 'verif_models.py'), 'w') as f:
        f.write(SRC)
    if d not in sys.path:
        sys.path.insert(0, d)
    importlib.invalidate_caches()
    sys.modules.pop('verif_models', None)
    return importlib.import_module('verif_models')


def random_calib(rng):
    """a calibration in a mild box around the base one (thorough tier: the properties quantify over calibrations)"""
    return dict(alpha=round(rng.uniform(0.28, 0.38), 4), beta=round(rng.uniform(0.93, 0.97), 4), z=round(rng.uniform(0.92, 1.08), 4), e=round(rng.uniform(0.02, 0.08), 4))


def write_linear_models(tag, specs):
    """specs: list of models; a model = list of blocks; a block = dict(name, ins=[names], outs={out: {in: coef}})"""
    d = os.path.join(C.WORK, 'models')
    os.makedirs(d, exist_ok=True)
    name = f'verif_linear_{tag}'
    with open(os.path.join(d, name + '.py'), 'w') as f:
        f.write('from sequence_jacobian import simple\n\n')
        for mi, blocks in enumerate(specs):
            for b in blocks:
                f.write(f'@simple\ndef m{mi}_{b["name"]}({", ".join(b["ins"])}):\n')
                for o, coefs in b['outs'].items():
                    term = lambda i, c: f'({c}) * {i}' if not isinstance(c, (tuple, list)) else (f'({c[0]}) * {i}({c[1]:+d})' if c[1] else f'({c[0]}) * {i}')
                    rhs = ' + '.join(term(i, c) for i, c in coefs.items()) or '0 * ' + b['ins'][0]
                    f.write(f'    {o} = {rhs}\n')
                f.write('    return ' + ', '.join(b['outs']) + '\n\n')
    if d not in sys.path:
        sys.path.insert(0, d)
    importlib.invalidate_caches()
    sys.modules.pop(name, None)
    return importlib.import_module(name)


def dense(e, N):
    """dense N x N matrix of a Jacobian entry (sparse entries through their own .matrix)"""
    if isinstance(e, np.ndarray):
        out = np.zeros((N, N))
        T = e.shape[0]
        out[:T, :T] = e
        return out
    return e.matrix(N)


def steady(model_or_blocks, calib):
    from sequence_jacobian import combine
    m = model_or_blocks if hasattr(model_or_blocks, 'steady_state') else combine(model_or_blocks)
    return m, m.steady_state(calib)


def reference_jacobian(blocks_in_order, ss, inputs, N):
    """independent dense chain rule: blocks must be given in a valid evaluation order"""
    total = {i: {i: np.eye(N)} for i in inputs}
    for b in blocks_in_order:
        bins = [i for i in b.inputs if i in total]
        if not bins:
            continue
        J = b.jacobian(ss, bins, T=N)
        for o in J.outputs:
            row = {}
            for m_ in bins:
                e = J.nesteddict.get(o, {}).get(m_)
                if e is None:
                    continue
                M = dense(e, N)
                for i, tm in total[m_].items():
                    row[i] = row.get(i, 0) + M @ tm
            if row:
                total[o] = row
    return total
