"""Shared machinery of the checks: Coq build/obligation runner, correspondence evaluation inside Coq,
Coq value parser, evidence writer, known-findings filter, replay files."""
import os, sys, re, json, time, subprocess, fcntl, random, hashlib, shutil, glob

VERIF = os.path.abspath(os.path.join(os.path.dirname(os.path.abspath(__file__)), '..', '..'))
COQ = os.path.join(VERIF, 'coq')
WORK = os.path.join(VERIF, '.work')
REPLAYS = os.path.join(VERIF, 'replays')
REPO = os.environ.get('VERIF_REPO', '/repo')
COQC_TIMEOUT = int(os.environ.get('VERIF_COQC_TIMEOUT', '300'))
BANNED = r'\b(Admitted|admit|Axiom|Parameter|Parameters|Conjecture|Hypothesis|Variable|Variables|Hypotheses)\b|Unset Guard|bypass_check|type-in-type|impredicative-set|Admit Obligations'

TRUSTED_BASE = [
    'Coq 8.16.1 kernel (coqc, full .vo compilation; vm_compute used for correspondence evaluation and finite-domain lemmas; no native_compute)',
    'tools/translate.py (Python ast -> Gallina, fail-closed subset) for the definitions under coq/Gen',
    'correspondence harness tools/props/*.py (generators, canonicalisation, exact small-integer/dyadic inputs)',
    'CPython/numpy/numba semantics as transcribed in coq/Lib (slices, floor division, dict insertion order)',
]


def _unlimit_stack():
    import resource
    try:
        resource.setrlimit(resource.RLIMIT_STACK, (resource.RLIM_INFINITY, resource.RLIM_INFINITY))
    except Exception:
        pass


def sh(cmd, timeout=None, cwd=None, env=None):
    t0 = time.time()
    try:
        p = subprocess.run(cmd, shell=isinstance(cmd, str), cwd=cwd, env=env, timeout=timeout, preexec_fn=_unlimit_stack,
                           stdout=subprocess.PIPE, stderr=subprocess.STDOUT, text=True, errors='replace')
        return p.returncode, p.stdout, time.time() - t0
    except subprocess.TimeoutExpired as ex:
        out = ex.stdout or ''
        if isinstance(out, bytes):
            out = out.decode(errors='replace')
        return 124, out + '\n<<TIMEOUT>>', time.time() - t0


class Lock:
    def __enter__(self):
        os.makedirs(WORK, exist_ok=True)
        self.f = open(os.path.join(WORK, 'lock'), 'w')
        fcntl.flock(self.f, fcntl.LOCK_EX)
        return self

    def __exit__(self, *a):
        fcntl.flock(self.f, fcntl.LOCK_UN)
        self.f.close()


# --------------------------------------------------------------------------------------------------
# Coq build

def all_v_files(dirs=('Lib', 'Gen', 'Model', 'Proofs', 'Props')):
    out = []
    for d in dirs:
        for root, _, files in os.walk(os.path.join(COQ, d)):
            for f in sorted(files):
                if f.endswith('.v'):
                    out.append(os.path.relpath(os.path.join(root, f), COQ))
    return sorted(out)


def strip_comments(text):
    """remove (possibly nested, multi-line) Coq comments, keeping line structure"""
    out, depth, i = [], 0, 0
    while i < len(text):
        if text.startswith('(*', i):
            depth += 1
            i += 2
        elif text.startswith('*)', i) and depth > 0:
            depth -= 1
            i += 2
        else:
            if depth == 0 or text[i] == '\n':
                out.append(text[i])
            i += 1
    return ''.join(out)


def grep_banned():
    """Section variables are allowed (Variable/Hypothesis inside a Section); they are checked to be inside one."""
    bad = []
    for rel in all_v_files():
        depth = 0
        for ln, code in enumerate(strip_comments(open(os.path.join(COQ, rel)).read()).split('\n'), 1):
            if re.match(r'\s*Section\b', code):
                depth += 1
            if re.match(r'\s*End\b', code) and depth > 0:
                depth -= 1
            m = re.search(BANNED, code)
            if m:
                w = m.group(0)
                if w in ('Variable', 'Variables', 'Hypothesis', 'Hypotheses') and depth > 0:
                    continue
                bad.append(f'{rel}:{ln}: {code.strip()}')
    return bad


def write_makefile():
    files = all_v_files(('Lib', 'Gen', 'Model', 'Proofs'))
    rc, out, _ = sh(['coq_makefile', '-f', '_CoqProject', '-o', 'Makefile'] + files, cwd=COQ, timeout=60)
    if rc != 0:
        raise RuntimeError('coq_makefile failed: ' + out)


def coq_make(targets=None, jobs=16, timeout=1500):
    """Build Lib/Gen/Model/Proofs (or the given .vo targets). Returns (ok, failed_files, log)."""
    with Lock():
        write_makefile()
        cmd = ['make', '-k', f'-j{jobs}'] + (targets or [])
        rc, out, wall = sh(cmd, cwd=COQ, timeout=timeout)
    failed = sorted(set(re.findall(r'File "\./([^"]+\.v)", line \d+, characters [\d-]+:\s*\n\s*Error', out)))
    for m in re.finditer(r'\[Makefile[^\]]*: ([^\]]+?)\.vo\] (Error|Terminated)', out):
        f = m.group(1) + '.v'
        if f not in failed:
            failed.append(f)
    return rc == 0, failed, out


def compile_obligation(rel):
    """Compile one Props file with coqc (never cached) and return dict(ok, assumptions, log, wall)."""
    path = os.path.join(COQ, rel)
    rc, out, wall = sh(['coqc', '-R', '.', 'SSJ', '-w', '-notation-overridden', rel], cwd=COQ, timeout=COQC_TIMEOUT)
    axioms = []
    closed = 0
    for blk in re.split(r'(?=Closed under the global context|Axioms:)', out):
        if blk.startswith('Closed under'):
            closed += 1
        elif blk.startswith('Axioms:'):
            for m in re.finditer(r'^([A-Za-z_][\w.\']*)\s*:', blk[len('Axioms:'):], re.M):
                axioms.append(m.group(1))
    return {'file': rel, 'ok': rc == 0, 'axioms': sorted(set(axioms)), 'closed': closed,
            'log': out[-2000:] if rc != 0 else '', 'wall_s': round(wall, 2)}


# --------------------------------------------------------------------------------------------------
# Coq value printing/parsing (correspondence by evaluation inside Coq)

def zs(n):
    n = int(n)
    return str(n) if n >= 0 else f'({n})'


def coq_list(xs, f=zs):
    return '[' + '; '.join(f(x) for x in xs) + ']'


def coq_mat(M):
    return coq_list(M, lambda r: coq_list(r))


def coq_pair(a, b):
    return f'({a}, {b})'


def coq_opt(x, f=zs):
    return 'None' if x is None else f'(Some {f(x)})'


def coq_bool(b):
    return 'true' if b else 'false'


_tok = re.compile(r'\s*(?:(-?\d+)(?:%[A-Za-z_]+)?|("(?:[^"]|"")*")(?:%[A-Za-z_]+)?|([A-Za-z_][\w\'.]*)|([\[\]();,]))')


def parse_coq(text):
    """Parse a printed Coq value made of Z/nat/bool literals, lists, tuples, options, strings and
    constructor applications into Python (list, tuple, int, bool, None, str, (Ctor, args...))."""
    toks = []
    pos = 0
    text = re.sub(r'%[A-Za-z_]+', '', text).strip()       # scope annotations such as (-6)%Z
    while pos < len(text):
        m = _tok.match(text, pos)
        if not m:
            raise ValueError(f'cannot tokenise Coq output at {text[pos:pos + 40]!r}')
        pos = m.end()
        if m.group(1) is not None:
            toks.append(('int', int(m.group(1))))
        elif m.group(2) is not None:
            toks.append(('str', m.group(2)[1:-1].replace('""', '"')))
        elif m.group(3) is not None:
            toks.append(('id', m.group(3)))
        else:
            toks.append((m.group(4), m.group(4)))
    i = [0]

    def peek():
        return toks[i[0]][0] if i[0] < len(toks) else None

    def atom():
        k, v = toks[i[0]]
        if k == 'int' or k == 'str':
            i[0] += 1
            return v
        if k == 'id':
            i[0] += 1
            if v == 'true':
                return True
            if v == 'false':
                return False
            if v == 'None':
                return None
            if v == 'tt':
                return ()
            return ('@', v)
        if k == '[':
            i[0] += 1
            out = []
            if peek() == ']':
                i[0] += 1
                return out
            while True:
                out.append(term())
                k2 = peek()
                i[0] += 1
                if k2 == ']':
                    return out
                if k2 != ';':
                    raise ValueError('list syntax')
        if k == '(':
            i[0] += 1
            out = [term()]
            while peek() == ',':
                i[0] += 1
                out.append(term())
            if peek() != ')':
                raise ValueError('paren syntax')
            i[0] += 1
            return out[0] if len(out) == 1 else tuple(out)
        raise ValueError(f'unexpected token {k}')

    def term():
        a = atom()
        if isinstance(a, tuple) and len(a) == 2 and a[0] == '@':
            args = []
            while peek() in ('int', 'str', 'id', '[', '('):
                args.append(atom())
            args = [x[1] if (isinstance(x, tuple) and len(x) == 2 and x[0] == '@') else x for x in args]
            if a[1] == 'Some' and len(args) == 1:
                return ('Some', args[0])
            return (a[1],) + tuple(args) if args else a[1]
        return a

    v = term()
    if i[0] != len(toks):
        raise ValueError('trailing tokens in Coq output')
    return v


def eval_in_coq(prop, header, exprs, chunk=400, jobs=16, tag='cases'):
    """Evaluate the Gallina expressions `exprs` (strings, each of the same type) with vm_compute, in
    chunks compiled in parallel.  Returns a list of parsed values (None where evaluation failed) and a log."""
    d = os.path.join(WORK, prop)
    os.makedirs(d, exist_ok=True)
    for f in glob.glob(os.path.join(d, f'{tag}_*')):
        os.remove(f)
    files = []
    for c in range(0, len(exprs), chunk):
        name = f'{tag}_{c // chunk}'
        with open(os.path.join(d, name + '.v'), 'w') as f:
            f.write(header + '\n')
            f.write('Definition all_cases := [\n  ' + ';\n  '.join(exprs[c:c + chunk]) + '\n].\n')
            f.write('Eval vm_compute in all_cases.\n')
        files.append(name)
    procs = []
    results, logs = {}, []

    def launch(name):
        return subprocess.Popen(['timeout', str(COQC_TIMEOUT), 'coqc', '-R', COQ, 'SSJ', '-w', '-notation-overridden',
                                 name + '.v'], cwd=d, stdout=subprocess.PIPE, stderr=subprocess.STDOUT, text=True, preexec_fn=_unlimit_stack)
    pending = list(files)
    running = []
    while pending or running:
        while pending and len(running) < jobs:
            n = pending.pop(0)
            running.append((n, launch(n)))
        n, p = running.pop(0)
        out, _ = p.communicate()
        results[n] = (p.returncode, out)
    values = []
    for k, name in enumerate(files):
        rc, out = results[name]
        n_here = len(exprs[k * chunk:(k + 1) * chunk])
        if rc != 0:
            logs.append(f'{name}: coqc rc={rc}: {out[-1500:]}')
            values.extend([None] * n_here)
            continue
        m = re.search(r'^\s*=\s(.*)\n\s*:\s[^=]*\Z', out, re.S | re.M)
        if not m:
            logs.append(f'{name}: cannot find value in output: {out[-500:]}')
            values.extend([None] * n_here)
            continue
        try:
            v = parse_coq(m.group(1))
            if len(v) != n_here:
                raise ValueError(f'expected {n_here} results, got {len(v)}')
            values.extend(v)
        except Exception as ex:
            logs.append(f'{name}: parse error {ex}')
            values.extend([None] * n_here)
    return values, logs


# --------------------------------------------------------------------------------------------------
# known findings, replay files, evidence

def load_known():
    p = os.path.join(VERIF, 'known_findings.json')
    if not os.path.exists(p):
        return []
    return json.load(open(p)).get('entries', [])


def match_known(prop, violation):
    """A finding matches when every key of entry['match'] equals the violation's 'signature' entry."""
    sig = violation.get('signature', {})
    for e in load_known():
        if e.get('property') != prop or e.get('status') != 'finding':
            continue
        mt = e.get('match', {})
        if mt and all(sig.get(k) == v for k, v in mt.items()):
            return e
    return None


def write_replay(prop, violation, idx=0):
    os.makedirs(REPLAYS, exist_ok=True)
    h = hashlib.sha1(json.dumps(violation, sort_keys=True, default=str).encode()).hexdigest()[:10]
    path = os.path.join(REPLAYS, f'{prop}_{h}.json')
    with open(path, 'w') as f:
        json.dump(dict(property=prop, **violation,
                       how_to_run=f'cd /verif && ./check {prop} --replay {path}'), f, indent=1, default=str)
    return path


def write_evidence(prop, tier, seed, level, coverage, assumptions, wall, violations):
    os.makedirs(os.path.join(VERIF, 'evidence'), exist_ok=True)
    ev = dict(property_id=prop, tier=tier, seed=int(seed), level=level, coverage=coverage,
              assumptions=assumptions, wall_s=round(wall, 2), violations=int(violations))
    with open(os.path.join(VERIF, 'evidence', f'{prop}.json'), 'w') as f:
        json.dump(ev, f, indent=1, default=str)
    return ev


class Rng(random.Random):
    """the single PRNG of a run (VERIF_SEED)"""
    def ints(self, n, lo, hi):
        return [self.randint(lo, hi) for _ in range(n)]

    def imat(self, r, c, lo=-3, hi=3):
        return [[self.randint(lo, hi) for _ in range(c)] for _ in range(r)]


def canon(x):
    """hashable canonical form for distinct counting"""
    return json.dumps(x, sort_keys=True, default=str)


def push(viol, v, per_sig=3):
    """append a violation unless there are already `per_sig` with the same signature (keeps floods of one kind,
    e.g. a known finding, from hiding other kinds)"""
    if v is None:
        return
    k = canon(v.get('signature'))
    if sum(1 for w in viol if canon(w.get('signature')) == k) < per_sig:
        viol.append(v)


def numerically_singular(make_matrix, limit=1e9):
    """does the implementation agree that a matrix the exact model found singular is (numerically) singular?  make_matrix() builds the implementation's matrix"""
    import numpy as np
    try:
        A = np.asarray(make_matrix(), dtype=float)
        return A.size == 0 or A.shape[0] != A.shape[1] or not np.all(np.isfinite(A)) or np.linalg.cond(A) > limit
    except Exception:
        return True
