"""Shared heterogeneous-agent fixtures and an INDEPENDENT dense reference of the backward/forward recursions
(C01, C07, C09, C10, C13, C19).  The reference uses only numpy: einsum for Markov steps, searchsorted for the
lotteries; it calls the block's user-supplied backward/hetinput/hetoutput functions, never the library's loops."""
import os, sys, importlib
import numpy as np
from . import common as C

SRC = '''import numpy as np
from sequence_jacobian import grids, hetblocks, interpolate
from sequence_jacobian.blocks.stage_block import StageBlock
from sequence_jacobian.blocks.support.stages import Continuous1D, ExogenousMaker

# ---- one-asset (standard incomplete markets) --------------------------------------------------------------
def sim_grids(rho_e, sd_e, n_e, min_a, max_a, n_a):
    e_grid, _, Pi = grids.markov_rouwenhorst(rho_e, sd_e, n_e)
    a_grid = grids.asset_grid(min_a, max_a, n_a)
    return e_grid, Pi, a_grid

def sim_income(w, e_grid):
    y = w * e_grid
    return y

def sim_mpc_proxy(c, a):
    share = c / (c + a + 1.0)
    return share

def sim_asset_income(a, r, w):
    ainc = a * r + 0.1 * w          # a hetoutput that takes aggregate inputs DIRECTLY (not only through the policies)
    return ainc

sim = hetblocks.hh_sim.hh.add_hetinputs([sim_income, sim_grids]).add_hetoutputs([sim_mpc_proxy, sim_asset_income])
sim_shipped = hetblocks.hh_sim.hh_extended           # the shipped extended block with its own grid and income functions
SIM_SHIPPED_CALIB = dict(hetblocks.hh_sim.example_calibration(), n_a=30, n_e=3, max_a=80.0, min_a=-0.25)
SIM_CALIB = dict(min_a=0.0, max_a=60.0, rho_e=0.9, sd_e=0.6, n_a=24, n_e=3, w=1.0, r=0.02, beta=0.95, eis=0.8)

# ---- the same household as a backward-function block and as a sequence of stages (as in tests/base/test_stage_block.py) ----
from sequence_jacobian import misc
from sequence_jacobian.hetblocks.hh_sim import hh as _hh, hh_init as _hh_init

def pair_grids(rho_e, sd_e, nE, amin, amax, nA):
    e_grid, e_dist, Pi_ss = grids.markov_rouwenhorst(rho=rho_e, sigma=sd_e, N=nE)
    a_grid = grids.agrid(amin=amin, amax=amax, n=nA)
    return e_grid, e_dist, Pi_ss, a_grid

def alter_Pi(Pi_ss, shift, risk):
    Pi = Pi_ss.copy()
    Pi[:, 0] -= shift + 0.1 * risk
    Pi[:, -1] += shift + 0.1 * risk
    return Pi

def pair_income(atw, N, e_grid, transfer, risk):
    y = atw * N * e_grid * (1 + risk * (e_grid - 1)) + transfer
    return y

def household_new(Va, a_grid, y, r, beta, eis):
    uc_nextgrid = beta * Va
    c_nextgrid = uc_nextgrid ** (-eis)
    coh = (1 + r) * a_grid[np.newaxis, :] + y[:, np.newaxis]
    a = interpolate.interpolate_y(c_nextgrid + a_grid, coh, a_grid)
    misc.setmin(a, a_grid[0])
    c = coh - a
    Va = (1 + r) * c ** (-1 / eis)
    return Va, a, c

def marginal_utility(c, eis):
    uc = c ** (-1 / eis)
    return uc

def pair_asset_income(a, r):
    ainc = r * a            # takes a shockable input of the block directly
    return ainc

def value_per_unit(Va, r):
    vpu = Va / (1 + r)            # a hetoutput that reads the BACKWARD variable itself (it must see the value computed by this period's step, not the continuation value)
    return vpu

pair_het = _hh.add_hetinputs([pair_grids, pair_income, alter_Pi]).add_hetoutputs([marginal_utility, pair_asset_income, value_per_unit])
pair_stage = StageBlock([ExogenousMaker('Pi', 0, 'stage0'), Continuous1D(backward='Va', policy='a', f=household_new, name='stage1', hetoutputs=[marginal_utility, pair_asset_income, value_per_unit])],
                        name='hh', backward_init=_hh_init, hetinputs=(pair_grids, pair_income, alter_Pi))
pair_stage_bare = StageBlock([ExogenousMaker('Pi', 0, 'stage0'), Continuous1D(backward='Va', policy='a', f=household_new, name='stage1', hetoutputs=[marginal_utility])],
                             name='hh_bare', backward_init=_hh_init)
PAIR_CALIB = dict(r=0.01, eis=0.6, rho_e=0.9, sd_e=0.7, nE=3, amin=0.0, amax=80.0, nA=30, transfer=0.1, N=1.0, atw=1.0, beta=0.96, shift=0.0, risk=0.0)

# ---- one-asset household whose Markov matrix is an ordinary (directly shockable) input --------------------------------
sim_direct = hetblocks.hh_sim.hh.add_hetinputs([sim_income])

# ---- the same process as two independent exogenous dimensions, and as their Kronecker product (as in tests/base/test_multiexog.py) ----
import sequence_jacobian as sj
from sequence_jacobian import het

def household_init(a_grid, y, r, sigma):
    c = np.maximum(1e-8, y[..., np.newaxis] + np.maximum(r, 0.04) * a_grid)
    Va = (1 + r) * (c ** (-sigma))
    return Va

@het(exogenous=['Pi_e', 'Pi_z'], policy='a', backward='Va', backward_init=household_init)
def household_multidim(Va_p, a_grid, y, r, beta, sigma):
    c_nextgrid = (beta * Va_p) ** (-1 / sigma)
    coh = (1 + r) * a_grid + y[..., np.newaxis]
    a = sj.utilities.interpolate.interpolate_y(c_nextgrid + a_grid, coh, a_grid)
    a = np.maximum(a, a_grid[0])
    c = coh - a
    uc = c ** (-sigma)
    Va = (1 + r) * uc
    return Va, a, c

@het(exogenous='Pi', policy='a', backward='Va', backward_init=household_init)
def household_onedim(Va_p, a_grid, y, r, beta, sigma):
    c_nextgrid = (beta * Va_p) ** (-1 / sigma)
    coh = (1 + r) * a_grid[np.newaxis, :] + y[:, np.newaxis]
    a = sj.utilities.interpolate.interpolate_y(c_nextgrid + a_grid, coh, a_grid)
    sj.utilities.optimized_routines.setmin(a, a_grid[0])
    c = coh - a
    uc = c ** (-sigma)
    Va = (1 + r) * uc
    return Va, a, c

def _shift(P, s):
    Q = P.copy()
    Q[:, 0] -= s
    Q[:, -1] += s
    return Q

def alter_e(Pi_e0, shift_e):
    Pi_e = _shift(Pi_e0, shift_e)
    return Pi_e

def alter_z(Pi_z0, shift_z):
    Pi_z = _shift(Pi_z0, shift_z)
    return Pi_z

def income_multi(e1, e2, w):
    y = w * np.outer(e1, e2)
    return y

def alter_kron(Pi_e0, Pi_z0, shift_e, shift_z):
    Pi = np.kron(_shift(Pi_e0, shift_e), _shift(Pi_z0, shift_z))
    return Pi

def income_kron(e1, e2, w):
    y = w * np.kron(e1, e2)
    return y

multi = household_multidim.add_hetinputs([alter_e, alter_z, income_multi])
kron = household_onedim.add_hetinputs([alter_kron, income_kron])

def multi_calib():
    e1, _, Pi1 = sj.utilities.discretize.markov_rouwenhorst(rho=0.7, sigma=0.6, N=2)
    e2, _, Pi2 = sj.utilities.discretize.markov_rouwenhorst(rho=0.4, sigma=0.4, N=3)
    return dict(beta=0.94, r=0.02, sigma=1.5, w=1.0, a_grid=sj.utilities.discretize.agrid(40, 20), e1=e1, e2=e2, Pi_e0=Pi1, Pi_z0=Pi2, shift_e=0.0, shift_z=0.0)

# ---- the two-exogenous-dimension household as a STAGE block: two exogenous stages whose Markov matrices come from SEPARATE hetinput functions ----
def household_stage_md(Va, a_grid, y, r, beta, sigma):
    c_nextgrid = (beta * Va) ** (-1 / sigma)
    coh = (1 + r) * a_grid + y[..., np.newaxis]
    a = sj.utilities.interpolate.interpolate_y(c_nextgrid + a_grid, coh, a_grid)
    a = np.maximum(a, a_grid[0])
    c = coh - a
    uc = c ** (-sigma)
    Va = (1 + r) * uc
    return Va, a, c

multi_stage = StageBlock([ExogenousMaker('Pi_e', 0, 'stage_e'), ExogenousMaker('Pi_z', 1, 'stage_z'),
                          Continuous1D(backward='Va', policy='a', f=household_stage_md, name='stage_a')],
                         name='hh_multi_stage', backward_init=household_init, hetinputs=(alter_e, alter_z, income_multi))

# ---- the same with THREE independent exogenous dimensions, and as their Kronecker product ----
@het(exogenous=['Pi_e', 'Pi_z', 'Pi_q'], policy='a', backward='Va', backward_init=household_init)
def household_3dim(Va_p, a_grid, y, r, beta, sigma):
    c_nextgrid = (beta * Va_p) ** (-1 / sigma)
    coh = (1 + r) * a_grid + y[..., np.newaxis]
    a = sj.utilities.interpolate.interpolate_y(c_nextgrid + a_grid, coh, a_grid)
    a = np.maximum(a, a_grid[0])
    c = coh - a
    uc = c ** (-sigma)
    Va = (1 + r) * uc
    return Va, a, c

def alter_q(Pi_q0, shift_q):
    Pi_q = _shift(Pi_q0, shift_q)
    return Pi_q

def income_multi3(e1, e2, e3, w):
    y = w * e1[:, None, None] * e2[None, :, None] * e3[None, None, :]
    return y

def alter_kron3(Pi_e0, Pi_z0, Pi_q0, shift_e, shift_z, shift_q):
    Pi = np.kron(np.kron(_shift(Pi_e0, shift_e), _shift(Pi_z0, shift_z)), _shift(Pi_q0, shift_q))
    return Pi

def income_kron3(e1, e2, e3, w):
    y = w * np.kron(np.kron(e1, e2), e3)
    return y

multi3 = household_3dim.add_hetinputs([alter_e, alter_z, alter_q, income_multi3])
kron3 = household_onedim.add_hetinputs([alter_kron3, income_kron3])

def multi3_calib():
    c = multi_calib()
    e3, _, Pi3 = sj.utilities.discretize.markov_rouwenhorst(rho=0.5, sigma=0.3, N=2)
    c.update(e3=e3, Pi_q0=Pi3, shift_q=0.0, a_grid=sj.utilities.discretize.agrid(40, 14))
    return c

# ---- a stage block carrying TWO backward variables that converge at different speeds (marginal value by EGM, value by iteration) ----
def tb_util(c, eis):
    return c ** (1 - 1 / eis) / (1 - 1 / eis)

def tb_init(a_grid, y, r, eis):
    coh = (1 + r) * a_grid[np.newaxis, :] + y[:, np.newaxis]
    Va = (1 + r) * (0.1 * coh) ** (-1 / eis)
    V = tb_util(0.1 * coh, eis) / 0.05
    return Va, V

def tb_household(Va, V, a_grid, y, r, beta, eis):
    c_nextgrid = (beta * Va) ** (-eis)
    coh = (1 + r) * a_grid[np.newaxis, :] + y[:, np.newaxis]
    a = interpolate.interpolate_y(c_nextgrid + a_grid, coh, a_grid)
    misc.setmin(a, a_grid[0])
    c = coh - a
    i, pi = interpolate.interpolate_coord_robust(a_grid, a)
    V = tb_util(c, eis) + beta * interpolate.apply_coord(i, pi, V)
    Va = (1 + r) * c ** (-1 / eis)
    return Va, V, a, c

twoback_stage = StageBlock([ExogenousMaker('Pi', 0, 'shock'), Continuous1D(backward=['Va', 'V'], policy='a', f=tb_household, name='consav')],
                           name='hh2', backward_init=tb_init, hetinputs=[sim_grids, sim_income])
TWOBACK_CALIB = dict(SIM_CALIB, eis=0.5, n_a=40)

# ---- household whose borrowing limit is an INPUT: shocked below the bottom of the asset grid, policies leave the grid at the bottom ----
def loose_init(a_grid, y, r, eis):
    coh = (1 + r) * a_grid[np.newaxis, :] + y[:, np.newaxis]
    Va = (1 + r) * (0.1 * coh) ** (-1 / eis)
    return Va

@het(exogenous='Pi', policy='a', backward='Va', backward_init=loose_init)
def household_loose(Va_p, a_grid, y, r, beta, eis, blim):
    uc_nextgrid = beta * Va_p
    c_nextgrid = uc_nextgrid ** (-eis)
    coh = (1 + r) * a_grid[np.newaxis, :] + y[:, np.newaxis]
    a = interpolate.interpolate_y(c_nextgrid + a_grid, coh, a_grid)
    a = np.maximum(a, blim)
    c = coh - a
    Va = (1 + r) * c ** (-1 / eis)
    return Va, a, c

loose = household_loose.add_hetinputs([sim_income, sim_grids])

def household_loose_stage(Va, a_grid, y, r, beta, eis, blim):
    uc_nextgrid = beta * Va
    c_nextgrid = uc_nextgrid ** (-eis)
    coh = (1 + r) * a_grid[np.newaxis, :] + y[:, np.newaxis]
    a = interpolate.interpolate_y(c_nextgrid + a_grid, coh, a_grid)
    a = np.maximum(a, blim)
    c = coh - a
    Va = (1 + r) * c ** (-1 / eis)
    return Va, a, c

loose_stage = StageBlock([ExogenousMaker('Pi', 0, 'shock'), Continuous1D(backward='Va', policy='a', f=household_loose_stage, name='consav')],
                         name='loose_stage', backward_init=loose_init, hetinputs=[sim_income, sim_grids])
LOOSE_CALIB = dict(SIM_CALIB, blim=0.0)

# ---- the shipped discrete-choice stage model (labour-force participation with taste shocks; defined in the repository's tests/base/test_dchoice.py) ----
import importlib.util as _ilu, os as _os
_dc_path = _os.path.join(_os.path.dirname(_os.path.dirname(_os.path.dirname(sj.__file__))), 'tests', 'base', 'test_dchoice.py')
if _os.path.exists(_dc_path):
    _spec = _ilu.spec_from_file_location('verif_dchoice_src', _dc_path)
    _dcm = _ilu.module_from_spec(_spec)
    _spec.loader.exec_module(_dcm)
    dchoice = _dcm.hh
else:
    dchoice = None
DCHOICE_CALIB = {'taste_shock': 0.01, 'r': 0.005, 'beta': 0.97, 'eis': 0.5, 'vphi': 0.3, 'chi': 0.3, 'rho_e': 0.95, 'sd_e': 0.5, 'nE': 3, 'amin': .0, 'amax': 100.0, 'nA': 50,
                 'atw': 1.0, 'b': 0.5, 's': 0.1, 'f': 0.4}

# ---- (unused placeholder) ---------
def two_grids(rho_e, sd_e, n_e, rho_f, sd_f, n_f, min_a, max_a, n_a):
    e1, _, Pi_e = grids.markov_rouwenhorst(rho_e, sd_e, n_e)
    e2, _, Pi_f = grids.markov_rouwenhorst(rho_f, sd_f, n_f)
    a_grid = grids.asset_grid(min_a, max_a, n_a)
    return e1, e2, Pi_e, Pi_f, a_grid

# ---- endogenous labour -----------------------------------------------------------------------------------
def lab_grids(rho_s, sigma_s, nS, amin, amax, nA):
    e_grid, pi_e, Pi = grids.markov_rouwenhorst(rho=rho_s, sigma=sigma_s, N=nS)
    a_grid = grids.agrid(amax=amax, n=nA, amin=amin)
    return e_grid, pi_e, Pi, a_grid

def lab_transfers(pi_e, Div, Tax, e_grid):
    T = (Div - Tax) / np.sum(pi_e * e_grid) * e_grid
    return T

def lab_wages(w, e_grid):
    we = w * e_grid
    return we

def lab_supply(n, e_grid):
    ne = e_grid[:, np.newaxis] * n
    return ne

labor = hetblocks.hh_labor.hh.add_hetinputs([lab_transfers, lab_wages, lab_grids]).add_hetoutputs([lab_supply])
LAB_CALIB = dict(rho_s=0.9, sigma_s=0.5, nS=3, amin=0.0, amax=50.0, nA=24, Div=0.1, Tax=0.05, w=0.8, r=0.015, beta=0.96, eis=0.7, frisch=0.5, vphi=0.8)

# ---- two assets ------------------------------------------------------------------------------------------
def two_asset_grids(bmax, amax, kmax, nB, nA, nK, nZ, rho_z, sigma_z):
    b_grid = grids.agrid(amax=bmax, n=nB)
    a_grid = grids.agrid(amax=amax, n=nA)
    k_grid = grids.agrid(amax=kmax, n=nK)[::-1].copy()
    e_grid, _, Pi = grids.markov_rouwenhorst(rho=rho_z, sigma=sigma_z, N=nZ)
    return b_grid, a_grid, k_grid, e_grid, Pi

def two_asset_income(e_grid, tax, w, N):
    z_grid = (1 - tax) * w * N * e_grid
    return z_grid

twoasset = hetblocks.hh_twoasset.hh.add_hetinputs([two_asset_income, two_asset_grids])

def two_asset_grids_dyadic(nB, nA, nK, kmax, nZ, rho_z, sigma_z):
    """grids whose spacings are powers of two (0, 1/4, 3/4, 7/4, ...): lottery weights are then dyadic numbers, which keeps exact rational replays of the forward pass cheap"""
    b_grid = 0.25 * (2.0 ** np.arange(nB) - 1.0)
    a_grid = 0.5 * (2.0 ** np.arange(nA) - 1.0)
    k_grid = grids.agrid(amax=kmax, n=nK)[::-1].copy()
    e_grid, _, Pi = grids.markov_rouwenhorst(rho=rho_z, sigma=sigma_z, N=nZ)
    return b_grid, a_grid, k_grid, e_grid, Pi

twoasset_dyadic = hetblocks.hh_twoasset.hh.add_hetinputs([two_asset_income, two_asset_grids_dyadic])
# ---- the same two-asset household as a stage block with a two-dimensional continuous choice ----
from sequence_jacobian.blocks.support.stages import Continuous2D
_ta_raw = hetblocks.hh_twoasset.hh.backward_fun.f

def twoasset_stage_f(Va, Vb, a_grid, b_grid, z_grid, e_grid, k_grid, beta, eis, rb, ra, chi0, chi1, chi2, Psi1):
    Va, Vb, a, b, c, uce = _ta_raw(Va, Vb, a_grid, b_grid, z_grid, e_grid, k_grid, beta, eis, rb, ra, chi0, chi1, chi2, Psi1)
    return Va, Vb, a, b, c, uce

twoasset_stage = StageBlock([ExogenousMaker('Pi', 0, 'exo'), Continuous2D(backward=['Vb', 'Va'], policy=['b', 'a'], f=twoasset_stage_f, name='portfolio')],
                            name='hh2d', backward_init=hetblocks.hh_twoasset.hh_init,
                            hetinputs=[hetblocks.hh_twoasset.marginal_cost_grid, two_asset_income, two_asset_grids])
TWO_CALIB = dict(bmax=30.0, amax=80.0, kmax=1.0, nB=8, nA=10, nK=4, nZ=2, rho_z=0.9, sigma_z=0.5, tax=0.3, w=0.7, N=1.0,
                 beta=0.97, eis=0.5, rb=0.01, ra=0.015, chi0=0.25, chi1=6.0, chi2=2.0)
'''


def load():
    d = os.path.join(C.WORK, 'models')
    os.makedirs(d, exist_ok=True)
    with open(os.path.join(d, 'verif_het.py'), 'w') as f:
        f.write(SRC)
    if d not in sys.path:
        sys.path.insert(0, d)
    importlib.invalidate_caches()
    sys.modules.pop('verif_het', None)
    return importlib.import_module('verif_het')


def perturb(calib, rng, scale=0.06):
    """a calibration in a box around `calib` (thorough tier): prices, preferences and risk parameters are moved by up to +-scale, asset-grid sizes by a few points"""
    out = dict(calib)
    for k, v in calib.items():
        if k in ('r', 'rb', 'ra', 'beta', 'eis', 'sd_e', 'sigma_s', 'sigma_z', 'w', 'atw', 'frisch', 'vphi', 'chi1', 'tax', 'Div', 'transfer', 'sigma') and isinstance(v, float):
            nv = v * (1 + scale * rng.uniform(-1, 1))
            if k == 'beta':
                nv = min(nv, 0.985)
            out[k] = nv
        elif k in ('n_a', 'nA') and isinstance(v, int):
            out[k] = v + rng.randint(-3, 4)
    return out


# ----------------------------------------------------------------------------------------------------------
# independent reference operators

def markov_forward(Pi, dim, D):
    """D'[.., z', ..] = sum_z Pi[z, z'] D[.., z, ..]"""
    return np.moveaxis(np.tensordot(Pi.T, np.moveaxis(D, dim, 0), axes=(1, 0)), 0, dim)


def markov_expect(Pi, dim, X):
    return np.moveaxis(np.tensordot(Pi, np.moveaxis(X, dim, 0), axes=(1, 0)), 0, dim)


def coords(grid, a):
    i = np.clip(np.searchsorted(grid, a, side='left') - 1, 0, len(grid) - 2)
    pi = (grid[i + 1] - a) / (grid[i + 1] - grid[i])
    return i, pi


def lottery_forward(D, pols, grids):
    """mass-conserving lottery on the last len(pols) dimensions (1 or 2)"""
    out = np.zeros_like(D)
    nex = D.ndim - len(pols)
    if len(pols) == 1:
        i, p = coords(grids[0], pols[0])
        for idx in np.ndindex(*D.shape):
            d = D[idx]
            out[idx[:nex] + (i[idx],)] += d * p[idx]
            out[idx[:nex] + (i[idx] + 1,)] += d * (1 - p[idx])
    else:
        i1, p1 = coords(grids[0], pols[0])
        i2, p2 = coords(grids[1], pols[1])
        for idx in np.ndindex(*D.shape):
            d = D[idx]
            for o1, w1 in ((0, p1[idx]), (1, 1 - p1[idx])):
                for o2, w2 in ((0, p2[idx]), (1, 1 - p2[idx])):
                    out[idx[:nex] + (i1[idx] + o1, i2[idx] + o2)] += d * w1 * w2
    return out


def full_dict(block, ss):
    d = dict(ss.toplevel)
    d.update(ss.internals[block.name])
    return d


def reference_nonlinear(block, ss, shocks, T, Dbeg0=None):
    """independent perfect-foresight recursion; returns dict of paths for policies, backward vars, outputs, D, Dbeg, aggregates"""
    base = full_dict(block, ss)
    exo, pol, back = list(block.exogenous), list(block.policy), list(block.backward)
    paths = {}
    nxt = {k: base[k] for k in back}
    nxtPi = [base[k] for k in exo]
    dated = [None] * T
    for t in reversed(range(T)):
        d = dict(base)
        for k in back:
            x = nxt[k]
            for dim in reversed(range(len(exo))):
                x = markov_expect(nxtPi[dim], dim, x)
            d[k + '_p'] = x
            d.pop(k, None)
        for k, v in shocks.items():
            d[k] = base[k] + v[t]
        if block.hetinputs is not None:
            d.update(block.hetinputs(d))
        d.update(block.backward_fun(d))
        if block.hetoutputs is not None:
            d.update(block.hetoutputs(d))
        dated[t] = d
        nxt = {k: d[k] for k in back}
        nxtPi = [d[k] for k in exo]
    Dbeg = base['Dbeg'] if Dbeg0 is None else Dbeg0
    Dp, Dbp = [], []
    for t in range(T):
        d = dated[t]
        D = Dbeg
        for dim, k in enumerate(exo):
            D = markov_forward(d[k], dim, D)
        Dbp.append(Dbeg)
        Dp.append(D)
        Dbeg = lottery_forward(D, [d[p] for p in pol], [d[p + '_grid'] for p in pol])
    return dated, np.array(Dp), np.array(Dbp)
