#!/bin/bash
# development aid (not a registered command): run seeded changes in N parallel copies of /verif, each against its own scratch worktree of /repo (outside /repo and /verif);
# outcomes are copied back into /verif/seeded/<id>/meta.json; copies and worktrees are removed at the end.   usage: tools/seedpar.sh N seed...
N=$1; shift
seeds=("$@")
for w in $(seq 1 $N); do
  rm -rf /tmp/vw$w; git -C /repo worktree remove --force /tmp/rw$w 2>/dev/null; rm -rf /tmp/rw$w
  rsync -a --exclude .work --exclude replays /verif/ /tmp/vw$w/
  git -C /repo worktree add -q --detach /tmp/rw$w HEAD
done
for w in $(seq 1 $N); do
  mine=()
  for k in "${!seeds[@]}"; do if [ $(( k % N + 1 )) -eq $w ]; then mine+=("${seeds[$k]}"); fi; done
  ( cd /tmp/vw$w && VERIF_HOME=/tmp/vw$w VERIF_REPO=/tmp/rw$w PYTHONPATH=/tmp/rw$w/src /venv/bin/python tools/seedtest.py run "${mine[@]}" > /tmp/seedpar_$w.log 2>&1 ) &
done
wait
for w in $(seq 1 $N); do
  # copy back only the outcomes of the seeds THIS worker ran (every worker holds a stale copy of all the others)
  for k in "${!seeds[@]}"; do
    if [ $(( k % N + 1 )) -eq $w ]; then
      s="${seeds[$k]}"
      if [ -f /tmp/vw$w/seeded/$s/meta.json ]; then
        /venv/bin/python - "$s" "/tmp/vw$w/seeded/$s/meta.json" <<'PY'
import json, sys
s, src = sys.argv[1], sys.argv[2]
dst = f'/verif/seeded/{s}/meta.json'
new = json.load(open(src)); old = json.load(open(dst))
old['check'] = new.get('check', old.get('check'))      # keep the validation record of /verif, take the check outcome of the worker
json.dump(old, open(dst, 'w'), indent=1)
PY
      fi
    fi
  done
  rm -rf /tmp/vw$w; git -C /repo worktree remove --force /tmp/rw$w
done
for w in $(seq 1 $N); do grep -v WARN /tmp/seedpar_$w.log | cut -c1-200; done
