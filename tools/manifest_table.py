PENDING = {}
CHECKS = {
 'C03': dict(
  technique='Coq proof (lia/ring over an arbitrary commutative ring) about translated index code + vm_compute correspondence',
  text='Theorems for all integers i,j,t,u, all m,n>=0, all T, all coefficient rings: the translated multiply_basis/compute_l are the product of basis operators; the dict algorithms denote sum/difference/negation/scaling/transpose/product; multiply_rs_matrix and the flat-slice dense addition (translated bounds, Python slice semantics) compute the window product/sum; identity placeholder. The dict/loop skeleton is hand-modelled and run against the implementation on 340 (3400) generated cases per run.',
  note='Trusted: Coq kernel, translator subset, numpy/numba array semantics, pointwise modelling of write-once loops; coefficients exact in correspondence (1e-14 threshold modelled as ==0). No axioms (closed under the global context).'),
}
