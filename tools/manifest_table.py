PENDING = {}
CHECKS = {
 'C03': dict(
  technique='Coq proof (lia/ring over an arbitrary commutative ring) about translated index code + vm_compute correspondence',
  text='Theorems for all integers i,j,t,u, all m,n>=0, all T, all coefficient rings: the translated multiply_basis/compute_l are the product of basis operators; the dict algorithms denote sum/difference/negation/scaling/transpose/product; multiply_rs_matrix and the flat-slice dense addition (translated bounds, Python slice semantics) compute the window product/sum; identity placeholder. The dict/loop skeleton is hand-modelled and run against the implementation on 340 (3400) generated cases per run.',
  note='Trusted: Coq kernel, translator subset, numpy/numba array semantics, pointwise modelling of write-once loops; coefficients exact in correspondence (1e-14 threshold modelled as ==0). No axioms (closed under the global context).'),
 'C18': dict(
  technique='Coq proof by induction over lists/operation histories + exhaustive vm_compute enumeration (stated bound) + exhaustive correspondence',
  text='Unbounded theorems: membership laws of | & - ^ and reflected forms for any operand list (repeats allowed); subset/superset/disjoint/< <= > >= equal the mathematical relations; results duplicate-free and ordered by first appearance, left operand first; history invariant over any operation sequence; only in-place operators change the receiver; Bijection constructor rejects exactly non-injective maps; apply-then-inverse is the identity on non-colliding names. Bounded theorem (all partial injective maps on 4 / 3 names, all universes): right-to-left composition law and associativity. Hand model tied by exhaustive correspondence over a 4-letter alphabet.',
  note='Trusted: Coq kernel (vm_compute for the bounded enumeration), harness, CPython dict semantics as modelled. Composition law not proved for arbitrary alphabets (named *_partial). No axioms.'),
 'C15': dict(
  technique='Coq proof: loop invariants for Kahn sort, DFS path invariant, sweep induction; vm_compute correspondence on random block lists',
  text='Theorems for every block list: if the sort returns, the order is a permutation with every producer before its consumers (Kahn with the code stack and KeyError discipline, invariant proof); duplicate outputs are refused iff some name is produced twice; inputs/outputs = consumed-not-produced / produced; for any set.pop() choice a reported cycle is closed and made of real remaining dependency edges; visit_from_inputs is exactly the transitive closure on a sorted list. Hand model tied by exact comparison of order, io, adjacency and closures on 600 (6000) random block lists.',
  note='Trusted: Coq kernel, harness, OrderedSet/Bijection (C18). Not proved: completeness (acyclic => returns; cycle always found), visit_from_outputs closure (correspondence + oracle only). No axioms.'),
}
