"""development aid (not a registered command): prepare scratch worktrees and self-contained prompts for a round of seeded-change agents.
usage: mkround.py <round-number> <suffix-letter>; prompts go to /tmp/r<round>/prompt_k.txt, agents write to /tmp/r<round>/out_k/<ID>_mut<letter>/.
The prompts contain only the property text and the list of already-used places (file + enclosing function), nothing else from /verif."""
import json, subprocess, os, glob, re, sys
rnd, letter = sys.argv[1], sys.argv[2]
props = {json.loads(l)['id']: json.loads(l) for l in open('/verif/properties.jsonl')}
excl = {}
for d in sorted(glob.glob('/verif/seeded/*/')):
    pid = os.path.basename(d.rstrip('/'))[:3]
    patch = open(d + 'patch.diff').read()
    files = re.findall(r'^\+\+\+ b/(\S+)', patch, re.M)
    hunks = re.findall(r'^@@.*@@ ?(.*)$', patch, re.M)
    excl.setdefault(pid, []).append(f"{files[0].replace('src/sequence_jacobian/', '')} ({hunks[0].strip()[:50]})")
ids = sorted(props)
shift = 3 + 2 * int(rnd)
pairs = [(ids[k], ids[(k + shift) % 20 if (k + shift) % 20 >= 10 else 10 + (k + shift) % 10]) for k in range(10)]
seen = set()
fixed = []
free = [i for i in ids[10:]]
for k in range(10):
    b = free[(k * 3 + int(rnd)) % len(free)]
    free.remove(b)
    fixed.append((ids[k], b))
pairs = fixed
base = f'/tmp/r{rnd}'
os.makedirs(base, exist_ok=True)
for k, (a, b) in enumerate(pairs):
    wt = f'/tmp/mutw_r{rnd}_{k}'
    subprocess.run(['git', '-C', '/repo', 'worktree', 'add', '--detach', wt, 'HEAD'], capture_output=True)
    out = f'{base}/out_{k}'
    txt = f"""You are working in a scratch git worktree of the Python package shade-econ/sequence-jacobian at {wt} (source under {wt}/src/sequence_jacobian, tests under {wt}/tests). Work ONLY inside {wt} and {out}; never touch /repo, and do not read anything under /verif.

Your job: for EACH of the two semantic properties below, craft ONE realistic change to the package source (the kind of plausible regression or 'harmless-looking refactor' a developer could commit) such that:
  1. the property is now violated for SOME specific inputs (something specific is needed to manifest: a particular argument combination, size, ordering, option, history of calls ... not every call fails);
  2. the package still imports and the existing test-suite still passes completely with the change: run it as
       cd {wt} && PYTHONPATH={wt}/src /venv/bin/python -m pytest -q -p no:cacheprovider --timeout=900 -x -q
     (53 tests, takes a few minutes; all must pass) ;
  3. you write a demonstration script demo.py that exits 0 on the unchanged source and exits 1 (printing what went wrong) on the changed source, when run as
       PYTHONPATH={wt}/src /venv/bin/python demo.py
     The demo must exercise the package's public behaviour that the property talks about (not private helpers with patched internals), and must be deterministic and take < 2 minutes.
The change must be to files under src/sequence_jacobian only, small (a few lines), and should not be a syntax/crash-on-import bug. Prefer subtle semantic changes. Many obvious places have ALREADY been used (listed under 'already used' for each property: file and enclosing function/class). Pick something GENUINELY DIFFERENT: a different file, a rarely used class, option, branch or argument kind that the property's statement and quantifier still cover (read them carefully, including the parts about unusual sizes, orderings, options, kinds of operands, nesting depths, numbers of dimensions, shipped example models and household blocks, discrete-choice stages, user-supplied Jacobians, tolerances, non-default keyword arguments, etc.). Changes that only matter for a non-special parameter value (an exponent other than 2, three rather than two dimensions, an integer rather than a float, a permuted listing order, a second call after a first) are especially welcome.

For each property <ID> produce a directory {out}/<ID>_mut{letter}/ containing:
  - patch.diff  : output of `git -C {wt} diff` for that single change (must apply with `git apply` to a clean checkout of HEAD)
  - demo.py     : the demonstration script described above
  - notes.md    : 5-10 lines: what was changed, which inputs expose it, why the test-suite does not notice
After finishing one property run `git -C {wt} checkout -- .` before starting the next, so the two patches are independent. Verify yourself: on a clean tree demo exits 0; with the patch applied demo exits 1 and the full test-suite passes. Python to use: /venv/bin/python (the package's dependencies are installed there; there is no network).

At the end reply with a short summary (per property: file/function changed, how it manifests, test-suite result).

=== PROPERTY {a} ===
{json.dumps({x: props[a][x] for x in ('title', 'statement', 'quantifier', 'why_tests_cant', 'anchors') if x in props[a]}, indent=1)}
already used: {excl.get(a)}

=== PROPERTY {b} ===
{json.dumps({x: props[b][x] for x in ('title', 'statement', 'quantifier', 'why_tests_cant', 'anchors') if x in props[b]}, indent=1)}
already used: {excl.get(b)}
"""
    os.makedirs(out, exist_ok=True)
    open(f'{base}/prompt_{k}.txt', 'w').write(txt)
print(pairs)
