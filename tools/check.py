"""./check Cxx [--tier quick|thorough] [--replay FILE]   |   ./check --setup

For one property: (1) regenerate coq/Gen from /repo's working tree (tie A); (2) rebuild the model and
proofs, compile every obligation file of the property (one theorem per file, Print Assumptions captured);
(3) correspondence: run the implementation and the executable model on the same generated cases (tie B);
(4) failing-input search on the real code with an independent oracle; (5) known-findings filter,
evidence, VIOLATION lines."""
import os, sys, json, time, argparse, importlib, traceback, glob

sys.path.insert(0, os.path.dirname(os.path.abspath(__file__)))
from lib import common as C
import translate


def setup():
    t0 = time.time()
    bad = C.grep_banned()
    if bad:
        print('banned constructs in the Coq development:\n  ' + '\n  '.join(bad))
        return 1
    res = translate.generate()
    print('translate:', res)
    ok, failed, log = C.coq_make()
    if not ok:
        print(log[-3000:])
        print('setup: coq build failed for', failed)
        return 1
    print(f'setup ok in {time.time() - t0:.1f}s')
    return 0


def main():
    ap = argparse.ArgumentParser()
    ap.add_argument('prop', nargs='?')
    ap.add_argument('--tier', default=os.environ.get('VERIF_TIER', 'quick'))
    ap.add_argument('--replay')
    ap.add_argument('--setup', action='store_true')
    a = ap.parse_args()
    if a.setup:
        sys.exit(setup())
    prop = a.prop
    tier = a.tier if a.tier in ('quick', 'thorough') else 'quick'
    seed = int(os.environ.get('VERIF_SEED', '0') or 0)
    mod = importlib.import_module(f'props.{prop}')
    t0 = time.time()

    if a.replay:
        rp = json.load(open(a.replay))
        rmod = importlib.import_module(f"props.{rp['found_by_oracle_of']}") if rp.get('found_by_oracle_of') else mod      # failing input of an imported presupposition
        v = rmod.replay(rp)
        if v:
            print(f'replay reproduces: {json.dumps(v, default=str)[:600]}')
            print(f'VIOLATION property={prop} replay={a.replay}')
            sys.exit(1)
        print('replay: the recorded input no longer violates the property')
        sys.exit(0)

    ctx = dict(prop=prop, tier=tier, seed=seed, rng=C.Rng(seed * 1000003 + int(prop[1:])))
    broken = []          # names of theorems / correspondences that no longer check
    violations = []      # concrete failing inputs (dicts with 'signature', 'input', 'observed', 'expected', 'what')
    notes = []

    # (1) tie A
    gen = translate.generate()
    gen_needed = getattr(mod, 'GEN', [])
    for g in gen_needed:
        if gen.get(g) != 'ok':
            notes.append(f'translation of {g} failed: {gen.get(g)}')

    # (2) proofs
    bad = C.grep_banned()
    if bad:
        broken.append('banned constructs: ' + '; '.join(bad[:3]))
    ok, failed, log = C.coq_make()
    if not ok:
        notes.append('coq build failures: ' + ', '.join(failed))
    obligations = sorted(glob.glob(os.path.join(C.COQ, 'Props', prop, '*.v')))
    # obligations of OTHER properties that this property's theorems presuppose (e.g. the DAG chain rule presupposes the sparse operator algebra):
    # a change that breaks them breaks this property too, so they are re-checked here
    for imp in getattr(mod, 'IMPORTS', []):
        f = os.path.join(C.COQ, 'Props', imp + '.v')
        if os.path.exists(f):
            obligations.append(f)
        else:
            broken.append(f'imported obligation {imp} is missing')
    obl = []
    for f in obligations:
        r = C.compile_obligation(os.path.relpath(f, C.COQ))
        obl.append(r)
        if not r['ok']:
            broken.append('theorem ' + os.path.relpath(f, C.COQ))
            notes.append(f"{r['file']}: {r['log'][-600:]}")
    axioms = sorted({x for r in obl for x in r['axioms']})

    # (3) correspondence (tie B)
    corr = dict(evaluations=0, distinct_nontrivial=0, rule='', samples=[], disagreements=[], stats={})
    try:
        corr = mod.correspondence(ctx)
    except Exception:
        broken.append('correspondence harness crashed')
        notes.append(traceback.format_exc()[-1500:])
    for d in corr.get('disagreements', []):
        broken.append('correspondence ' + d.get('what', '?'))

    # (4) failing-input search on the real code (independent oracle, never the model)
    orc = dict(evaluations=0, violations=[], rule='')
    try:
        orc = mod.oracle(ctx, hints=corr.get('disagreements', []), broken=broken)
    except Exception:
        broken.append('oracle crashed')
        notes.append(traceback.format_exc()[-1500:])
    violations.extend(orc.get('violations', []))
    # an IMPORTED obligation (a presupposition proved under another property) broke and this property's own oracle exhibited nothing: search with the
    # oracle of the property the obligation belongs to -- a failing input of a presupposition is a failing input here (the theorems of this property rest on it)
    if not violations:
        import re as _re
        owners = sorted({m.group(1) for b in broken for m in [_re.match(r'theorem Props/(C\d\d)/', b)] if m and m.group(1) != prop})
        # an OWN obligation broke and nothing was exhibited: the module may name properties whose oracles exercise the same code from another side
        if any(f'Props/{prop}/' in b for b in broken):
            owners += [r for r in getattr(mod, 'RELATED', []) if r not in owners]
        for owner in owners:
            try:
                omod = importlib.import_module(f'props.{owner}')
                octx = dict(ctx, prop=owner)
                ores = omod.oracle(octx, hints=[], broken=[b for b in broken if f'Props/{owner}/' in b])
                for v in ores.get('violations', []):
                    v = dict(v, presupposition_of=prop, found_by_oracle_of=owner)
                    violations.append(v)
                orc['evaluations'] = orc.get('evaluations', 0) + ores.get('evaluations', 0)
                notes.append(f'imported obligation of {owner} broke: searched with the oracle of {owner} ({len(ores.get("violations", []))} violations)')
            except Exception:
                notes.append(f'oracle of {owner} crashed while searching for a failing input of an imported obligation: ' + traceback.format_exc()[-500:])

    # (5) known findings, replay files, verdict
    lines, unknown, known_hit = [], 0, []
    seen = set()
    for v in violations:
        key = C.canon(v.get('signature', v.get('input')))
        if key in seen:
            continue
        seen.add(key)
        e = C.match_known(prop, v)
        if e:
            if e['id'] not in known_hit:
                known_hit.append(e['id'])
                lines.append(f"KNOWN-FINDING: property={prop} {e['text']}")
            continue
        if unknown < 5:
            path = C.write_replay(prop, v)
            lines.append(f'VIOLATION property={prop} replay={path}')
        unknown += 1
    # known findings that explain a broken refutation-style obligation are handled by the property module
    unexplained = [b for b in broken if not getattr(mod, 'explained_by_known', lambda b, k: False)(b, known_hit)]
    if unexplained and unknown == 0:
        v = dict(kind='unproved', theorem_or_correspondence=unexplained, notes=notes[:6],
                 input=None, signature={'broken': unexplained[0]})
        path = C.write_replay(prop, v)
        lines.append(f'VIOLATION property={prop} replay={path} no-failing-input-found')
        unknown += 1

    n_obl = len(obl)
    n_ok = sum(1 for r in obl if r['ok'])
    wall = time.time() - t0
    coverage = dict(
        obligations=n_obl, discharged=n_ok,
        checker_cmd=f'cd /verif/coq && make (Lib Gen Model Proofs) && coqc -R . SSJ Props/{prop}/*.v',
        trusted_base=C.TRUSTED_BASE + getattr(mod, 'TRUSTED', []) + [f'axioms reported by Print Assumptions: {axioms or "none (closed under the global context)"}'],
        obligation_files=[dict(file=r['file'], ok=r['ok'], axioms=r['axioms'], wall_s=r['wall_s']) for r in obl],
        translated=dict((g, gen.get(g)) for g in gen_needed),
        evaluations=int(corr.get('evaluations', 0)), distinct_nontrivial=int(corr.get('distinct_nontrivial', 0)),
        rule=corr.get('rule', ''), samples=corr.get('samples', [])[:6] or ['(no correspondence cases)'],
        input_distribution=corr.get('stats', {}),
        correspondence_disagreements=len(corr.get('disagreements', [])),
        oracle=dict(evaluations=orc.get('evaluations', 0), rule=orc.get('rule', ''), violations=len(orc.get('violations', []))),
        broken=broken, known_findings_seen=known_hit, notes=notes[:10],
    )
    if n_ok == 0:          # schema: a proof-level claim needs discharged >= 1; report the count under another key
        coverage['discharged_count'] = coverage.pop('discharged')
    C.write_evidence(prop, tier, seed, 'proof', coverage,
                     getattr(mod, 'ASSUMPTIONS', []), wall, unknown)
    for n in notes[:10]:
        print('note:', n[:800])
    print(f'{prop} [{tier}] obligations {n_ok}/{n_obl}; correspondence {corr.get("evaluations", 0)} cases, '
          f'{len(corr.get("disagreements", []))} disagreements; oracle {orc.get("evaluations", 0)} cases, '
          f'{len(violations)} violations; {wall:.1f}s')
    for l in lines:
        print(l)
    sys.exit(1 if unknown else 0)


if __name__ == '__main__':
    main()
