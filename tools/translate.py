"""Tie A: fail-closed Python-ast -> Gallina translator.

Regenerates /verif/coq/Gen/*.v from /repo's *working tree* on every run.  Only a small, explicit
subset of Python is understood (integer arithmetic, comparisons, boolean connectives, max/min/abs,
if/elif/else ladders, tuple (un)packing, `return`).  Everything else raises Unsupported, and the
Gen file of that target is then written as a stub that does NOT define the names the theorems
mention -- so the dependent obligations stop compiling (fail closed).
"""
import ast, re, os, sys, textwrap, hashlib

REPO = os.environ.get('VERIF_REPO', '/repo')
SRC = os.path.join(REPO, 'src', 'sequence_jacobian')
GEN = os.path.join(os.path.dirname(os.path.abspath(__file__)), '..', 'coq', 'Gen')


class Unsupported(Exception):
    pass


# ------------------------------------------------------------------------------------------------
# expressions

BINOPS = {ast.Add: '+', ast.Sub: '-', ast.Mult: '*', ast.FloorDiv: '/', ast.Mod: 'mod'}
CMPOPS = {ast.Lt: '<?', ast.LtE: '<=?', ast.Gt: '>?', ast.GtE: '>=?', ast.Eq: '=?'}


def zlit(n):
    return str(n) if n >= 0 else f'({n})'


def expr(e, env=None):
    """Translate an integer-valued Python expression to a Gallina term of type Z."""
    env = env or {}
    if isinstance(e, ast.Constant):
        if isinstance(e.value, bool) or not isinstance(e.value, int):
            raise Unsupported(f'constant {e.value!r}')
        return zlit(e.value)
    if isinstance(e, ast.Name):
        return env.get(e.id, e.id)
    if isinstance(e, ast.Subscript) and '__arrays__' in env:
        return env['__arrays__'](e)
    if isinstance(e, ast.BinOp) and type(e.op) in BINOPS:
        a, b = expr(e.left, env), expr(e.right, env)
        op = BINOPS[type(e.op)]
        return f'({a} {op} {b})'
    if isinstance(e, ast.UnaryOp) and isinstance(e.op, ast.USub):
        return f'(- {expr(e.operand, env)})'
    if isinstance(e, ast.UnaryOp) and isinstance(e.op, ast.UAdd):
        return expr(e.operand, env)
    if isinstance(e, ast.Call) and isinstance(e.func, ast.Name) and e.func.id in ('max', 'min') \
            and len(e.args) >= 2 and not e.keywords:
        f = 'Z.max' if e.func.id == 'max' else 'Z.min'
        out = expr(e.args[0], env)
        for a in e.args[1:]:
            out = f'({f} {out} {expr(a, env)})'
        return out
    if isinstance(e, ast.Call) and isinstance(e.func, ast.Name) and e.func.id == 'abs' and len(e.args) == 1:
        return f'(Z.abs {expr(e.args[0], env)})'
    if isinstance(e, ast.Call) and isinstance(e.func, ast.Name) and e.func.id == 'len' and len(e.args) == 1 \
            and isinstance(e.args[0], ast.Name):
        return env.get('len_' + e.args[0].id, 'len_' + e.args[0].id)
    if isinstance(e, ast.IfExp):
        return f'(if {bexpr(e.test, env)} then {expr(e.body, env)} else {expr(e.orelse, env)})'
    raise Unsupported(ast.dump(e)[:120])


def bexpr(e, env=None):
    """Translate a boolean Python expression over integers to a Gallina term of type bool."""
    env = env or {}
    if isinstance(e, ast.Constant) and isinstance(e.value, bool):
        return 'true' if e.value else 'false'
    if isinstance(e, ast.Compare):
        parts, left = [], e.left
        for op, right in zip(e.ops, e.comparators):
            if type(op) in CMPOPS:
                parts.append(f'({expr(left, env)} {CMPOPS[type(op)]} {expr(right, env)})')
            elif isinstance(op, ast.NotEq):
                parts.append(f'(negb ({expr(left, env)} =? {expr(right, env)}))')
            else:
                raise Unsupported(ast.dump(op))
            left = right
        return parts[0] if len(parts) == 1 else '(' + ' && '.join(parts) + ')'
    if isinstance(e, ast.BoolOp):
        op = ' && ' if isinstance(e.op, ast.And) else ' || '
        return '(' + op.join(bexpr(v, env) for v in e.values) + ')'
    if isinstance(e, ast.UnaryOp) and isinstance(e.op, ast.Not):
        return f'(negb {bexpr(e.operand, env)})'
    if isinstance(e, ast.Name) and e.id in env:
        return env[e.id]
    raise Unsupported(ast.dump(e)[:120])


def texpr(e, env=None):
    """expression that may be a tuple of integers"""
    if isinstance(e, ast.Tuple):
        return '(' + ', '.join(texpr(x, env) for x in e.elts) + ')'
    return expr(e, env)


# ------------------------------------------------------------------------------------------------
# statements (continuation style; `if` duplicates the continuation in both branches)

def stmts(body, env=None):
    if not body:
        raise Unsupported('fell off the end of the function without return')
    s, rest = body[0], body[1:]
    if isinstance(s, ast.Expr) and isinstance(s.value, ast.Constant) and isinstance(s.value.value, str):
        return stmts(rest, env)                       # docstring
    if isinstance(s, ast.Return):
        if s.value is None:
            raise Unsupported('bare return')
        return texpr(s.value, env)
    if isinstance(s, ast.Assign) and len(s.targets) == 1:
        tgt = s.targets[0]
        if isinstance(tgt, ast.Name):
            return f"let {tgt.id} := {texpr(s.value, env)} in\n  {stmts(rest, env)}"
        if isinstance(tgt, ast.Tuple) and all(isinstance(x, ast.Name) for x in tgt.elts):
            names = ', '.join(x.id for x in tgt.elts)
            return f"let '({names}) := {texpr(s.value, env)} in\n  {stmts(rest, env)}"
        raise Unsupported('assignment target')
    if isinstance(s, ast.If):
        a = stmts(list(s.body) + rest, env)
        b = stmts(list(s.orelse) + rest, env)
        return f"(if {bexpr(s.test, env)}\n   then {a}\n   else {b})"
    raise Unsupported(type(s).__name__)


# ------------------------------------------------------------------------------------------------
# source lookup

_cache = {}


def module(relpath):
    p = os.path.join(SRC, relpath)
    if p not in _cache:
        with open(p) as f:
            _cache[p] = ast.parse(f.read(), filename=p)
    return _cache[p]


def find_def(relpath, qual):
    """qual = 'func' or 'Class.method'"""
    node = module(relpath)
    for part in qual.split('.'):
        for ch in node.body:
            if isinstance(ch, (ast.FunctionDef, ast.ClassDef)) and ch.name == part:
                node = ch
                break
        else:
            raise Unsupported(f'{qual} not found in {relpath}')
    return node


def params(fn):
    return [a.arg for a in fn.args.args]


def if_chain(s, leaf, env=None):
    """Nested if-expression over an if/elif/else statement ladder; leaf(list_of_stmts) -> str."""
    if isinstance(s, ast.If):
        a = if_chain_body(s.body, leaf, env)
        if not s.orelse:
            raise Unsupported('if without else in ladder')
        b = if_chain_body(s.orelse, leaf, env)
        return f"(if {bexpr(s.test, env)} then {a} else {b})"
    raise Unsupported('not an if ladder')


def if_chain_body(body, leaf, env=None):
    body = [b for b in body if not (isinstance(b, ast.Expr) and isinstance(b.value, ast.Constant))]
    if len(body) == 1 and isinstance(body[0], ast.If):
        return if_chain(body[0], leaf, env)
    return leaf(body)


def opt(e, env=None):
    return 'None' if e is None else f'(Some {expr(e, env)})'


# ------------------------------------------------------------------------------------------------
# targets: each returns Gallina text (body of a Gen file).  Names defined are listed in DEFINES.

HEADER = "From Coq Require Import ZArith Bool.\nOpen Scope Z_scope.\n"


def t_multiply_basis():
    fn = find_def('classes/sparse_jacobians.py', 'multiply_basis')
    if params(fn) != ['t1', 't2']:
        raise Unsupported('multiply_basis signature')
    return f"Definition multiply_basis (t1 t2 : Z * Z) : Z * Z :=\n  {stmts(fn.body)}.\n"


def t_compute_l():
    fn = find_def('blocks/support/simple_displacement.py', 'compute_l')
    if params(fn) != ['i', 'm', 'j', 'n']:
        raise Unsupported('compute_l signature')
    out = f"Definition compute_l (i m j n : Z) : Z :=\n  {stmts(fn.body)}.\n"
    # the key map of AccumulatedDerivative.__call__:  (i + j, compute_l(-i, 0, -j, n)) for (j, n) in self._keys
    call = find_def('blocks/support/simple_displacement.py', 'AccumulatedDerivative.__call__')
    if params(call) != ['self', 'i']:
        raise Unsupported('__call__ signature')
    src = ast.unparse(call)
    keyexprs = [n for n in ast.walk(call) if isinstance(n, ast.Tuple) and len(n.elts) == 2 and isinstance(n.elts[1], ast.Call)
                and ast.unparse(n.elts[1].func) == 'compute_l']
    if len(keyexprs) != 1:
        raise Unsupported('__call__ key expression')
    elt = keyexprs[0]
    if 'for j, n in self._keys' not in src and 'for (j, n), x in zip(self._keys, self._fp_values)' not in src:
        raise Unsupported('__call__ iteration')

    def e2(e):
        if isinstance(e, ast.Call) and isinstance(e.func, ast.Name) and e.func.id == 'compute_l' and len(e.args) == 4:
            return '(compute_l ' + ' '.join(expr(a) for a in e.args) + ')'
        return expr(e)
    out += f"\nDefinition acc_call_key (i : Z) (jn : Z * Z) : Z * Z :=\n  let '(j, n) := jn in ({e2(elt.elts[0])}, {e2(elt.elts[1])}).\n"
    # how the shifted keys are paired with the coefficients: dict(zip(keys, values)) overwrites equal keys; the loop accumulates
    if 'dict(zip(keys, self._fp_values))' in src:
        mode = 'zip_overwrite'
    elif 'elements[k] = elements.get(k, 0.0) + x' in src and 'return AccumulatedDerivative(elements=elements, f_value=self.f_value)' in src:
        mode = 'accumulate'
    else:
        raise Unsupported('__call__ pairing of keys and coefficients')
    out += f"\n(* pairing of shifted keys with coefficients in AccumulatedDerivative.__call__: {mode} *)\n"
    out += f"Definition acc_call_overwrites : bool := {'true' if mode == 'zip_overwrite' else 'false'}.\n"
    return out


def t_sparse_index():
    """index expressions of SimpleSparse.__add__ (dense branch), multiply_rs_matrix, .T, from_simple_diagonals"""
    out = ''
    add = find_def('classes/sparse_jacobians.py', 'SimpleSparse.__add__')
    loop = None
    for n in ast.walk(add):
        if isinstance(n, ast.For) and isinstance(n.target, ast.Tuple) and 'elements.items' in ast.unparse(n.iter) \
                and isinstance(n.target.elts[0], ast.Tuple):
            loop = n
    if loop is None or [x.id for x in loop.target.elts[0].elts] != ['i', 'm']:
        raise Unsupported('dense-add loop')
    # check the surrounding facts the model assumes: T = A.shape[0]; A = A.flatten(); reshape((T, T))
    src = ast.unparse(add)
    for needed in ('T = A.shape[0]', 'A = A.flatten()', 'A.reshape((T, T))'):
        if needed not in src:
            raise Unsupported(f'dense-add context: {needed}')

    def leaf_slice(which):
        def leaf(body):
            if len(body) != 1 or not isinstance(body[0], ast.AugAssign) or not isinstance(body[0].op, ast.Add):
                raise Unsupported('dense-add leaf')
            tgt = body[0].target
            if not (isinstance(tgt, ast.Subscript) and isinstance(tgt.value, ast.Name) and tgt.value.id == 'A'
                    and isinstance(tgt.slice, ast.Slice) and ast.unparse(body[0].value) == 'x'):
                raise Unsupported('dense-add target')
            return opt(getattr(tgt.slice, which))
        return leaf
    body = [b for b in loop.body]
    if len(body) != 1:
        raise Unsupported('dense-add loop body')
    for which, nm in (('lower', 'start'), ('upper', 'stop'), ('step', 'step')):
        out += f"Definition dense_add_{nm} (T i m : Z) : option Z :=\n  {if_chain(body[0], leaf_slice(which))}.\n\n"

    # multiply_rs_matrix
    rs = find_def('classes/sparse_jacobians.py', 'multiply_rs_matrix')
    src = ast.unparse(rs)
    for needed in ('T = A.shape[0]', 'S = A.shape[1]', 'Aout = np.zeros((T, S))', 'i = indices[count, 0]',
                   'm = indices[count, 1]', 'x = xs[count]', 'for count in range(n)', 'return Aout'):
        if needed not in src:
            raise Unsupported(f'multiply_rs_matrix context: {needed}')
    outer = [n for n in rs.body if isinstance(n, ast.For)]
    if len(outer) != 1:
        raise Unsupported('multiply_rs_matrix outer loop')
    ladder = [n for n in outer[0].body if isinstance(n, (ast.If, ast.For))]
    if len(ladder) != 1:
        raise Unsupported('multiply_rs_matrix ladder')

    def rs_chain(leaf):
        return if_chain(ladder[0], leaf) if isinstance(ladder[0], ast.If) else leaf([ladder[0]])

    def leaf_rs(which):
        def leaf(body):
            if len(body) != 1 or not isinstance(body[0], ast.For):
                raise Unsupported('rs leaf')
            f = body[0]
            if not (isinstance(f.target, ast.Name) and f.target.id == 't' and isinstance(f.iter, ast.Call)
                    and ast.unparse(f.iter.func) == 'range' and len(f.iter.args) == 2):
                raise Unsupported('rs t-loop')
            if len(f.body) != 1 or not isinstance(f.body[0], ast.For) or ast.unparse(f.body[0].iter) != 'range(S)':
                raise Unsupported('rs s-loop')
            inner = f.body[0].body
            if len(inner) != 1 or not isinstance(inner[0], ast.AugAssign) or not isinstance(inner[0].op, ast.Add):
                raise Unsupported('rs update')
            tgt, val = inner[0].target, inner[0].value
            if not (isinstance(tgt, ast.Subscript) and ast.unparse(tgt.value) == 'Aout' and isinstance(tgt.slice, ast.Tuple)
                    and ast.unparse(tgt.slice.elts[1]) == 's'):
                raise Unsupported('rs target')
            if not (isinstance(val, ast.BinOp) and isinstance(val.op, ast.Mult) and ast.unparse(val.left) == 'x'
                    and isinstance(val.right, ast.Subscript) and ast.unparse(val.right.value) == 'A'
                    and isinstance(val.right.slice, ast.Tuple) and ast.unparse(val.right.slice.elts[1]) == 's'):
                raise Unsupported('rs value')
            return {'lo': lambda: expr(f.iter.args[0]), 'hi': lambda: expr(f.iter.args[1]),
                    'dst': lambda: expr(tgt.slice.elts[0]), 'src': lambda: expr(val.right.slice.elts[0])}[which]()
        return leaf
    for which in ('lo', 'hi'):
        out += f"Definition rs_{which} (T i m : Z) : Z :=\n  {rs_chain(leaf_rs(which))}.\n\n"
    for which in ('dst', 'src'):
        out += f"Definition rs_{which} (i t : Z) : Z :=\n  {rs_chain(leaf_rs(which))}.\n\n"

    # transpose key map and from_simple_diagonals
    tr = find_def('classes/sparse_jacobians.py', 'SimpleSparse.T')
    comps = [n for n in ast.walk(tr) if isinstance(n, ast.DictComp)]
    if len(comps) != 1 or ast.unparse(comps[0].value) != 'x' or ast.unparse(comps[0].generators[0].target) != '((i, m), x)':
        raise Unsupported('transpose comprehension')
    out += f"Definition transpose_key (im : Z * Z) : Z * Z :=\n  let '(i, m) := im in {texpr(comps[0].key)}.\n\n"
    fd = find_def('classes/sparse_jacobians.py', 'SimpleSparse.from_simple_diagonals')
    comps = [n for n in ast.walk(fd) if isinstance(n, ast.DictComp)]
    if len(comps) != 1 or ast.unparse(comps[0].value) != 'x' or ast.unparse(comps[0].generators[0].target) != '(i, x)':
        raise Unsupported('from_simple_diagonals comprehension')
    out += f"Definition diag_key (i : Z) : Z * Z := {texpr(comps[0].key)}.\n"
    # sparsity safeguards: every 'abs(...) < c' test in the sparse-Jacobian and derivative-accumulator classes; the model idealises them as 'is zero',
    # which is only defensible for thresholds at rounding-error level: the exponents k of the constants 1E-k are exported and must all be >= 14
    exps = []
    for rel in ('classes/sparse_jacobians.py', 'blocks/support/simple_displacement.py'):
        for n in ast.walk(module(rel)):
            if isinstance(n, ast.Compare) and len(n.ops) == 1 and isinstance(n.ops[0], (ast.Lt, ast.LtE)) and isinstance(n.left, ast.Call) and ast.unparse(n.left.func) == 'abs':
                c = n.comparators[0]
                if not (isinstance(c, ast.Constant) and isinstance(c.value, float) and c.value > 0):
                    raise Unsupported(f'sparsity threshold {ast.unparse(c)}')
                import math
                k = -math.log10(c.value)
                if abs(k - round(k)) > 1e-9:
                    raise Unsupported(f'sparsity threshold {c.value} is not a power of ten')
                exps.append(int(round(k)))
    if not exps:
        raise Unsupported('no sparsity thresholds found')
    out += "\nFrom Coq Require Import List.\nDefinition prune_threshold_exponents : list Z := " + '(' + ' :: '.join(zlit(k) for k in exps) + ' :: nil)' + ".\n"
    # the second entry point of "conversion to a T x T matrix": make_matrix (used by JacobianDict.pack and the dense fallbacks) must hand every non-array operand to its own .matrix(T)
    mm = find_def('classes/sparse_jacobians.py', 'make_matrix')
    body = [ast.unparse(b) for b in mm.body if not (isinstance(b, ast.Expr) and isinstance(b.value, ast.Constant))]
    ok = body == ['if not isinstance(A, np.ndarray):\n    return A.matrix(T)\nelse:\n    return A']
    out += f"Definition make_matrix_delegates_to_matrix : bool := {'true' if ok else 'false'}.\n"
    return out


def t_estimation():
    """estimation.all_covariances: FFT length and result slice; build_full_covariance_matrix: branch ladder"""
    fn = find_def('estimation.py', 'all_covariances')
    src = ast.unparse(fn)
    if 'T = M.shape[0]' not in src:
        raise Unsupported('all_covariances: T')
    pads = []
    keep = None
    for n in ast.walk(fn):
        if isinstance(n, ast.Call) and ast.unparse(n.func) in ('np.fft.rfftn', 'np.fft.irfftn'):
            kw = {k.arg: k.value for k in n.keywords}
            if 's' not in kw or not isinstance(kw['s'], ast.Tuple) or len(kw['s'].elts) != 1 or ast.unparse(kw.get('axes')) != '(0,)':
                raise Unsupported('fft call shape')
            pads.append((ast.unparse(n.func), expr(kw['s'].elts[0])))
        if isinstance(n, ast.Subscript) and isinstance(n.value, ast.Call) and ast.unparse(n.value.func) == 'np.fft.irfftn':
            if not isinstance(n.slice, ast.Slice) or n.slice.lower is not None or n.slice.step is not None:
                raise Unsupported('result slice')
            keep = expr(n.slice.upper)
    if sorted(p[0] for p in pads) != ['np.fft.irfftn', 'np.fft.rfftn'] or keep is None:
        raise Unsupported('all_covariances structure')
    if 'dft.conjugate() * sigmas ** 2 @ dft.swapaxes(1, 2)' not in src:
        raise Unsupported('all_covariances: spectral product')
    out = "From SSJ Require Import Lib.EstTypes.\n\n"
    out += f"Definition pad_forward (T : Z) : Z := {dict(pads)['np.fft.rfftn']}.\n"
    out += f"Definition pad_inverse (T : Z) : Z := {dict(pads)['np.fft.irfftn']}.\n"
    out += f"Definition cov_keep (T : Z) : Z := {keep}.\n\n"
    bf = find_def('estimation.py', 'build_full_covariance_matrix')
    src = ast.unparse(bf)
    for needed in ('T, O, O = Sigma.shape', 'V = np.empty((Tobs, O, Tobs, O))', 'for t1 in range(Tobs)', 'for t2 in range(Tobs)',
                   'return V.reshape((Tobs * O, Tobs * O))'):
        if needed not in src:
            raise Unsupported(f'build_full_covariance_matrix context: {needed}')
    loops = [n for n in bf.body if isinstance(n, ast.For)]
    if len(loops) != 1 or len(loops[0].body) != 1 or not isinstance(loops[0].body[0], ast.For) or len(loops[0].body[0].body) != 1:
        raise Unsupported('build_full_covariance_matrix loops')
    ladder = loops[0].body[0].body[0]

    def leaf(body):
        if len(body) != 1 or not isinstance(body[0], ast.Assign) or ast.unparse(body[0].targets[0]) != 'V[t1, :, t2, :]':
            raise Unsupported('covariance block assignment')
        v = body[0].value
        u = ast.unparse(v)
        if u == 'np.zeros((O, O))':
            return 'VZero'
        if u == 'np.diag(sigma_measurement ** 2) + (Sigma[0, :, :] + Sigma[0, :, :].T) / 2':
            return 'VDiag'
        tr = False
        if isinstance(v, ast.Attribute) and v.attr == 'T':
            tr, v = True, v.value
        if isinstance(v, ast.Subscript) and ast.unparse(v.value) == 'Sigma' and isinstance(v.slice, ast.Tuple) \
                and [ast.unparse(x) for x in v.slice.elts[1:]] == [':', ':']:
            return f"(VLag {expr(v.slice.elts[0])} {'true' if tr else 'false'})"
        raise Unsupported('covariance block value ' + u)
    out += f"Definition v_block (T t1 t2 : Z) : vblock :=\n  {if_chain(ladder, leaf)}.\n"
    return out


CLASSMAP = {'ImpulseDict': 'ClsImpulseDict', 'SteadyStateDict': 'ClsSteadyStateDict', 'ResultDict': 'ClsResultDict', 'float': 'ClsFloat',
            'int': 'ClsInt', 'numbers.Real': 'ClsReal', 'Real': 'ClsReal', 'numbers.Number': 'ClsNumber', 'str': 'ClsStr', 'dict': 'ClsDict',
            'np.ndarray': 'ClsNdarray'}


def isinstance_test(t, var):
    """isinstance(var, C) / isinstance(var, (C1, C2)) / and / or / not  ->  Gallina bool over [k : okind]"""
    if isinstance(t, ast.Call) and ast.unparse(t.func) == 'isinstance' and len(t.args) == 2 and ast.unparse(t.args[0]) == var:
        cls = t.args[1].elts if isinstance(t.args[1], ast.Tuple) else [t.args[1]]
        parts = []
        for c in cls:
            nm = ast.unparse(c)
            if nm not in CLASSMAP:
                raise Unsupported(f'class {nm} in isinstance')
            parts.append(f'is_instance k {CLASSMAP[nm]}')
        return '(' + ' || '.join(parts) + ')'
    if isinstance(t, ast.BoolOp):
        op = ' && ' if isinstance(t.op, ast.And) else ' || '
        return '(' + op.join(isinstance_test(v, var) for v in t.values) + ')'
    if isinstance(t, ast.UnaryOp) and isinstance(t.op, ast.Not):
        return f'(negb {isinstance_test(t.operand, var)})'
    raise Unsupported('operand test ' + ast.unparse(t)[:80])


def t_containers():
    """ImpulseDict.binary_operation operand ladder; pack/unpack slice bounds of JacobianDict and ImpulseDict"""
    out = "From SSJ Require Import Lib.OperandKinds.\n\n"
    bo = find_def('classes/impulse_dict.py', 'ImpulseDict.binary_operation')
    if params(bo) != ['self', 'other', 'op']:
        raise Unsupported('binary_operation signature')
    body = [b for b in bo.body if not (isinstance(b, ast.Expr) and isinstance(b.value, ast.Constant))]
    if len(body) != 1 or not isinstance(body[0], ast.If):
        raise Unsupported('binary_operation body')

    def classify(stmts_):
        last = stmts_[-1]
        src = '\n'.join(ast.unparse(x) for x in stmts_)
        if isinstance(last, ast.Raise):
            return 'LRefused'
        if isinstance(last, ast.Return):
            u = ast.unparse(last.value)
            if u == 'NotImplemented':
                return 'LRefused'
            if isinstance(last.value, ast.Call) and ast.unparse(last.value.func).endswith(('Error', 'Exception')):
                return 'LReturnsExceptionObject'
            if u.startswith('ImpulseDict(toplevel, internals'):
                if 'other[k]' in src and 'other.internals[b]' in src:
                    return 'LElementwiseDict'
                if 'op(v, other)' in src and 'other[' not in src:
                    return 'LElementwiseScalar'
        raise Unsupported('binary_operation branch: ' + src[:100])

    def chain(node):
        test = isinstance_test(node.test, 'other')
        a = classify(node.body)
        if len(node.orelse) == 1 and isinstance(node.orelse[0], ast.If):
            b = chain(node.orelse[0])
        elif node.orelse:
            b = classify(node.orelse)
        else:
            raise Unsupported('ladder falls through (implicit return None)')
        return f"(if {test} then {a} else {b})"
    out += f"Definition impulse_operand_ladder (k : okind) : ladder :=\n  {chain(body[0])}.\n\n"

    def slice_bounds(relpath, qual, arr, names):
        fn = find_def(relpath, qual)
        found = []
        for n in ast.walk(fn):
            if isinstance(n, ast.Subscript) and ast.unparse(n.value) == arr:
                sl = n.slice.elts if isinstance(n.slice, ast.Tuple) else [n.slice]
                if all(isinstance(x, ast.Slice) and x.step is None and x.lower is not None and x.upper is not None for x in sl):
                    found.append([(expr(x.lower), expr(x.upper)) for x in sl])
        if not found or any(f != found[0] for f in found):
            raise Unsupported(f'{qual}: slices of {arr}')
        return found[0]
    jp = slice_bounds('classes/jacobian_dict.py', 'JacobianDict.pack', 'J', None)
    ju = slice_bounds('classes/jacobian_dict.py', 'JacobianDict.unpack', 'bigjac', None)
    ip = slice_bounds('classes/impulse_dict.py', 'ImpulseDict.pack', 'bigv', None)
    iu = slice_bounds('classes/impulse_dict.py', 'ImpulseDict.unpack', 'bigv', None)
    src = ast.unparse(find_def('classes/jacobian_dict.py', 'JacobianDict.pack'))
    for needed in ('J = np.empty((len(self.outputs) * T, len(self.inputs) * T))', 'for iO, O in enumerate(self.outputs)', 'for iI, I in enumerate(self.inputs)'):
        if needed not in src:
            raise Unsupported('JacobianDict.pack context: ' + needed)
    for nm, (lo, hi), var in (('jpack_row', jp[0], 'iO'), ('jpack_col', jp[1], 'iI'), ('junpack_row', ju[0], 'iO'), ('junpack_col', ju[1], 'iI'),
                              ('ipack', ip[0], 'i'), ('iunpack', iu[0], 'i')):
        out += f"Definition {nm}_lo (T {var} : Z) : Z := {lo}.\nDefinition {nm}_hi (T {var} : Z) : Z := {hi}.\n"
    return out


def t_kernels():
    """het_compiled.py: corner weights of the scatter (forward, forward-shock) and gather (expectation) kernels"""
    out = ''

    def kernel(name, arrays, ndim, target, gather=False):
        """arrays: param name -> Gallina variable ('@idx1'/'@idx2' for the index arrays); returns corner dict {(ox, oy): term}"""
        fn = find_def('blocks/support/het_compiled.py', name)
        if params(fn) != list(arrays):
            raise Unsupported(f'{name} signature {params(fn)}')
        loop = [n for n in fn.body if isinstance(n, ast.For)]
        if len(loop) != 1:
            raise Unsupported(f'{name}: loops')
        body, depth = loop[0], 1
        while len(body.body) == 1 and isinstance(body.body[0], ast.For):
            body, depth = body.body[0], depth + 1
        if depth != ndim + 1:
            raise Unsupported(f'{name}: loop depth {depth}')
        cur = ['iz', 'ix', 'iy'][:ndim + 1]
        env, idxname = {}, {}

        def arr(e):
            nm = ast.unparse(e.value)
            sub = [ast.unparse(x) for x in (e.slice.elts if isinstance(e.slice, ast.Tuple) else [e.slice])]
            if nm in arrays and not arrays[nm].startswith('@') and nm != target and not (gather and nm == 'X'):
                if sub != cur:
                    raise Unsupported(f'{name}: {nm}[{sub}]')
                return arrays[nm]
            if gather and nm == 'X':
                offs = []
                for a_, x in zip(sub[1:], e.slice.elts[1:]):
                    base = x.left.id if isinstance(x, ast.BinOp) else x.id
                    off = 1 if isinstance(x, ast.BinOp) else 0
                    if isinstance(x, ast.BinOp) and not (isinstance(x.op, ast.Add) and ast.unparse(x.right) == '1'):
                        raise Unsupported('gather offset')
                    if base not in idxname:
                        raise Unsupported(f'gather base {base}')
                    offs.append((idxname[base], off))
                offs = dict(offs)
                return f"X{offs.get(1, 0)}{offs.get(2, 0)}"
            raise Unsupported(f'{name}: array {nm}')
        env['__arrays__'] = arr
        corners, gathered = {}, None
        for st in body.body:
            if isinstance(st, ast.Assign) and isinstance(st.targets[0], ast.Name):
                v = st.value
                if isinstance(v, ast.Subscript) and ast.unparse(v.value) in arrays and arrays[ast.unparse(v.value)].startswith('@'):
                    idxname[st.targets[0].id] = int(arrays[ast.unparse(v.value)][-1])
                else:
                    env[st.targets[0].id] = expr(v, env)
            elif isinstance(st, ast.AugAssign) and not gather:
                sub = st.target.slice.elts
                if ast.unparse(st.target.value) != target or ast.unparse(sub[0]) != 'iz':
                    raise Unsupported(f'{name}: scatter target')
                offs = {}
                for x in sub[1:]:
                    base = x.left.id if isinstance(x, ast.BinOp) else x.id
                    if isinstance(x, ast.BinOp) and not (isinstance(x.op, ast.Add) and ast.unparse(x.right) == '1'):
                        raise Unsupported('scatter offset')
                    offs[idxname[base]] = 1 if isinstance(x, ast.BinOp) else 0
                key = (offs.get(1, 0), offs.get(2, 0))
                term = expr(st.value, env)
                if isinstance(st.op, ast.Sub):
                    term = f'(- {term})'
                elif not isinstance(st.op, ast.Add):
                    raise Unsupported('scatter operator')
                corners[key] = f'({corners[key]} + {term})' if key in corners else term
            elif isinstance(st, ast.Assign) and gather and ast.unparse(st.targets[0].value) == target:
                if [ast.unparse(x) for x in st.targets[0].slice.elts] != cur:
                    raise Unsupported('gather target')
                gathered = expr(st.value, env)
            else:
                raise Unsupported(f'{name}: statement {ast.unparse(st)[:60]}')
        return gathered if gather else corners

    def emit_corners(dname, sig, corners, nd):
        keys = [(0, 0), (1, 0)] if nd == 1 else [(0, 0), (1, 0), (0, 1), (1, 1)]
        if sorted(corners) != sorted(keys):
            raise Unsupported(f'{dname}: corners {sorted(corners)}')
        body = '0'
        for k in reversed(keys):
            body = f'if (ox =? {k[0]}) && (oy =? {k[1]}) then {corners[k]} else {body}'
        return f"Definition {dname} (ox oy : Z) {sig} : Z :=\n  {body}.\n\n"

    c = kernel('forward_policy_1d', {'D': 'd', 'x_i': '@idx1', 'x_pi': 'xpi'}, 1, 'Dnew')
    out += emit_corners('fwd1d_w', '(d xpi : Z)', c, 1)
    c = kernel('forward_policy_shock_1d', {'Dss': 'd', 'x_i_ss': '@idx1', 'x_pi_shock': 'dxpi'}, 1, 'Dshock')
    out += emit_corners('shock1d_w', '(d dxpi : Z)', c, 1)
    g = kernel('expectation_policy_1d', {'X': 'X', 'x_i': '@idx1', 'x_pi': 'xpi'}, 1, 'Xnew', gather=True)
    out += f"Definition exp1d (xpi X00 X10 : Z) : Z :=\n  {g}.\n\n"
    c = kernel('forward_policy_2d', {'D': 'd', 'x_i': '@idx1', 'y_i': '@idx2', 'x_pi': 'xpi', 'y_pi': 'ypi'}, 2, 'Dnew')
    out += emit_corners('fwd2d_w', '(d xpi ypi : Z)', c, 2)
    c = kernel('forward_policy_shock_2d', {'Dss': 'd', 'x_i_ss': '@idx1', 'y_i_ss': '@idx2', 'x_pi_ss': 'xpi', 'y_pi_ss': 'ypi',
                                           'x_pi_shock': 'dxpi', 'y_pi_shock': 'dypi'}, 2, 'Dshock')
    out += emit_corners('shock2d_w', '(d xpi ypi dxpi dypi : Z)', c, 2)
    g = kernel('expectation_policy_2d', {'X': 'X', 'x_i': '@idx1', 'y_i': '@idx2', 'x_pi': 'xpi', 'y_pi': 'ypi'}, 2, 'Xnew', gather=True)
    out += f"Definition exp2d (xpi ypi X00 X10 X01 X11 : Z) : Z :=\n  {g}.\n"
    return out


def t_interp():
    """interpolate_coord_robust_vector: guards, initial bracket, loop condition, midpoint, branch"""
    fn = find_def('utilities/interpolate.py', 'interpolate_coord_robust_vector')
    src = ast.unparse(fn)
    for needed in ('n = len(x)', 'for iq in range(nq)', 'xqi[iq] = ilow', 'xqpi[iq] = (x[ilow + 1] - xq[iq]) / (x[ilow + 1] - x[ilow])', 'return (xqi, xqpi)'):
        if needed not in src:
            raise Unsupported('robust vector context: ' + needed)
    loop = [n for n in fn.body if isinstance(n, ast.For)][0]
    ladder = [n for n in loop.body if isinstance(n, ast.If)]
    if len(ladder) != 1:
        raise Unsupported('robust ladder')
    lad = ladder[0]

    def arrs(e):
        u = ast.unparse(e)
        table = {'xq[iq]': 'q', 'x[0]': 'x0', 'x[-2]': 'xn2', 'x[imid]': 'xmid'}
        if u in table:
            return table[u]
        raise Unsupported('array reference ' + u)
    env = {'__arrays__': arrs}
    g1 = bexpr(lad.test, env)
    if len(lad.body) != 1 or ast.unparse(lad.body[0].targets[0]) != 'ilow':
        raise Unsupported('low branch')
    low_val = expr(lad.body[0].value, env)
    el = lad.orelse[0]
    if not isinstance(el, ast.If):
        raise Unsupported('high branch')
    g2 = bexpr(el.test, env)
    high_val = expr(el.body[0].value, env)
    body = [b for b in el.orelse if not (isinstance(b, ast.Expr))]
    inits = {ast.unparse(b.targets[0]): expr(b.value, env) for b in body if isinstance(b, ast.Assign)}
    wl = [b for b in body if isinstance(b, ast.While)]
    if len(wl) != 1 or set(inits) != {'ihigh', 'ilow'}:
        raise Unsupported('search loop')
    cond = bexpr(wl[0].test, env)
    wb = wl[0].body
    if len(wb) != 2 or ast.unparse(wb[0].targets[0]) != 'imid' or not isinstance(wb[1], ast.If):
        raise Unsupported('search body')
    mid = expr(wb[0].value, env)
    br = bexpr(wb[1].test, env)
    if ast.unparse(wb[1].body[0]) != 'ilow = imid' or ast.unparse(wb[1].orelse[0]) != 'ihigh = imid':
        raise Unsupported('search update')
    out = f"Definition rb_low_guard (q x0 : Z) : bool := {g1}.\nDefinition rb_low_value (n : Z) : Z := {low_val}.\n"
    out += f"Definition rb_high_guard (q xn2 : Z) : bool := {g2}.\nDefinition rb_high_value (n : Z) : Z := {high_val}.\n"
    out += f"Definition rb_init_low (n : Z) : Z := {inits['ilow']}.\nDefinition rb_init_high (n : Z) : Z := {inits['ihigh']}.\n"
    out += f"Definition rb_continue (ilow ihigh : Z) : bool := {cond}.\nDefinition rb_mid (ilow ihigh : Z) : Z := {mid}.\n"
    out += f"Definition rb_go_right (q xmid : Z) : bool := {br}.\n"
    # width of the integer type in which bracketing indices are stored (np.empty(..., dtype=np.uintNN) and the guvectorize signatures): an index i < n must fit
    import re as _re
    bits = []
    for n_ in ast.walk(module('utilities/interpolate.py')):
        if isinstance(n_, ast.keyword) and n_.arg == 'dtype':
            m_ = _re.fullmatch(r'np\.u?int(\d+)', ast.unparse(n_.value))
            if m_:
                bits.append(int(m_.group(1)))
            elif 'int' in ast.unparse(n_.value):
                raise Unsupported('index dtype ' + ast.unparse(n_.value))
        if isinstance(n_, ast.Constant) and isinstance(n_.value, str) and 'int' in n_.value and '[:]' in n_.value:
            bits += [int(b) for b in _re.findall(r'u?int(\d+)\[', n_.value)]
    if not bits:
        raise Unsupported('no index dtypes found')
    out += "From Coq Require Import List.\nDefinition index_dtype_bits : list Z := (" + ' :: '.join(zlit(b) for b in bits) + " :: nil).\n"
    return out


def t_solvers():
    """steady_state.residual_with_linear_continuation: the two censoring rules as scalar functions;
    solvers.newton_solver / broyden_solver: iteration limits and the structure flags the model relies on"""
    fn = find_def('blocks/support/steady_state.py', 'residual_with_linear_continuation')
    inner = [n for n in fn.body if isinstance(n, ast.FunctionDef) and n.name == 'constr_residual']
    if len(inner) != 1:
        raise Unsupported('constr_residual')
    ifs = [n for n in inner[0].body if isinstance(n, ast.If) and ast.unparse(n.test) == 'eval_at_boundary']
    if len(ifs) != 1:
        raise Unsupported('eval_at_boundary branch')
    names = {'lbs': 'lb', 'ubs': 'ub', 'boundary_epsilon': 'eps', 'x': 'x'}

    def where(e, env):
        if isinstance(e, ast.Call) and ast.unparse(e.func) == 'np.where' and len(e.args) == 3:
            return f'(if {bexpr(e.args[0], env)} then {expr(e.args[1], env)} else {expr(e.args[2], env)})'
        raise Unsupported('censoring expression ' + ast.unparse(e)[:60])

    def branch(body):
        env = dict(names)
        if len(body) != 2:
            raise Unsupported('censoring branch length')
        for st in body:
            if not (isinstance(st, ast.Assign) and ast.unparse(st.targets[0]) == 'x_censored'):
                raise Unsupported('censoring statement')
            env['x_censored'] = where(st.value, env)
        return env['x_censored']
    out = f"Definition censor_closed (x lb ub eps : Z) : Z :=\n  {branch(ifs[0].body)}.\n"
    out += f"Definition censor_open (x lb ub eps : Z) : Z :=\n  {branch(ifs[0].orelse)}.\n"
    src = ast.unparse(inner[0])
    calls = [n for n in ast.walk(inner[0]) if isinstance(n, ast.Call) and ast.unparse(n.func) == 'residual']
    if 'residual_censored = residual(x_censored)' not in src or len(calls) != 1:
        raise Unsupported('the wrapped residual must be called exactly once, at the censored point')
    # solver loop constants
    for nm in ('newton_solver', 'broyden_solver'):
        sv = find_def('utilities/solvers.py', nm)
        ssrc = ast.unparse(sv)
        m = [n for n in ast.walk(sv) if isinstance(n, ast.For) and ast.unparse(n.target) == 'bcount']
        if len(m) != 1 or not (isinstance(m[0].iter, ast.Call) and ast.unparse(m[0].iter.func) == 'range' and len(m[0].iter.args) == 1):
            raise Unsupported(f'{nm}: backtrack loop')
        out += f"Definition {nm}_max_backtracks : Z := {expr(m[0].iter.args[0])}.\n"
        for needed in ('for count in range(maxcount)', 'if np.max(np.abs(y)) < tol:', 'return (x, y)', 'except ValueError', 'x += dx', 'y = ynew',
                       "raise ValueError('Too many backtracks, maybe bad initial guess?')", "raise ValueError(f'No convergence after {maxcount} iterations')"):
            if needed not in ssrc:
                raise Unsupported(f'{nm}: expected structure `{needed}`')
    # provide_solver_default: which unknown specifications are accepted when no solver is named
    pd = find_def('blocks/support/steady_state.py', 'provide_solver_default')
    alls = [n for n in ast.walk(pd) if isinstance(n, ast.Call) and ast.unparse(n.func) == 'np.all']
    every = (len(alls) == 1 and len(alls[0].args) == 1 and isinstance(alls[0].args[0], ast.ListComp)       # a generator would make np.all truthy whatever it yields
             and ast.unparse(alls[0].args[0].elt) == 'isinstance(v, Real)' and ast.unparse(alls[0].args[0].generators[0].iter) == 'init_values')
    psrc = ast.unparse(pd)
    shape = all(x in psrc for x in ('if len(unknowns) == 1:', 'if not isinstance(bounds, tuple) or bounds[0] > bounds[1]:', "return 'brentq'", 'elif len(unknowns) > 1:',
                                    'init_values = list(unknowns.values())', 'if not np.all([isinstance(v, Real) for v in init_values]):', "return 'broyden_custom'")) \
        and psrc.count('raise ValueError') == 3
    sfu = find_def('blocks/support/steady_state.py', 'solve_for_unknowns')
    calls = [n for n in ast.walk(sfu) if isinstance(n, ast.Call) and ast.unparse(n.func) in ('solvers.broyden_solver', 'solvers.newton_solver', 'opt.root', 'opt.root_scalar')]
    fwd = len(calls) >= 6 and all(any(k.arg in ('tol', 'xtol') and ast.unparse(k.value) == 'tol' for k in c.keywords) for c in calls)
    # ... and that tolerance is the target tolerance the user asked for (options['ttol']) at the entry point solve_steady_state
    sss = find_def('blocks/block.py', 'Block.solve_steady_state')
    scalls = [n for n in ast.walk(sss) if isinstance(n, ast.Call) and ast.unparse(n.func) == 'solve_for_unknowns']
    fwd = fwd and len(scalls) == 1 and any(k.arg == 'tol' and ast.unparse(k.value) == "options['ttol']" for k in scalls[0].keywords)
    out += f"Definition every_solver_call_receives_the_tolerance : bool := {'true' if fwd else 'false'}.\n"
    out += f"Definition default_solver_validates_every_unknown : bool := {'true' if every else 'false'}.\n"
    out += f"Definition default_solver_decision_shape : bool := {'true' if shape else 'false'}.\n"
    return out


def t_remap():
    """Block.remap: order of composition of M and which map is applied to the (already renamed) interface sets"""
    fn = find_def('blocks/block.py', 'Block.remap')
    newmap = None
    order = None
    applied = {}
    for st in fn.body:
        if isinstance(st, ast.Assign):
            t, v = ast.unparse(st.targets[0]), st.value
            if isinstance(v, ast.Call) and ast.unparse(v.func) == 'Bijection' and ast.unparse(v.args[0]) == 'map':
                newmap = t
            if t == 'other.M' and isinstance(v, ast.BinOp) and isinstance(v.op, ast.MatMult):
                l, r = ast.unparse(v.left), ast.unparse(v.right)
                isnew = lambda u: u == 'Bijection(map)' or (newmap is not None and u == newmap)
                if isnew(l) and r == 'self.M':
                    order = 'true'
                elif l == 'self.M' and isnew(r):
                    order = 'false'
                else:
                    raise Unsupported('remap: composition ' + ast.unparse(v))
            if t in ('other.inputs', 'other.outputs') and isinstance(v, ast.BinOp) and isinstance(v.op, ast.MatMult):
                applied[t] = (ast.unparse(v.left), ast.unparse(v.right))
    if order is None or set(applied) != {'other.inputs', 'other.outputs'}:
        raise Unsupported('remap structure')
    only_new = all((l == newmap or l == 'Bijection(map)') and r == 'self.' + t.split('.')[1] for t, (l, r) in applied.items())
    out = f"Definition remap_new_after_old : bool := {order}.\n"
    out += f"Definition remap_interface_uses_new_map_only : bool := {'true' if only_new else 'false'}.\n"
    for (rel, qual) in (('blocks/het_block.py', 'HetBlock.process_hetinputs_hetoutputs'), ('blocks/stage_block.py', 'StageBlock.process_hetinputs')):
        src = ast.unparse(find_def(rel, qual))
        ok = 'self.inputs = self.M @ inputs' in src and ('self.outputs = self.M @ outputs' in src or 'Stage' in qual)
        out += f"Definition {qual.split('.')[1]}_keeps_renaming : bool := {'true' if ok else 'false'}.\n"
    return out


def t_block():
    """structural facts of block.py / combined_block.py / solved_block.py that the abstract models rely on"""
    facts = {}
    go = ast.unparse(find_def('blocks/block.py', 'Block.get_options'))
    facts['options_kwargs_over_block_over_defaults'] = ('merged = {**own_options, **options[self.name], **kwargs}' in go and 'merged = {**own_options, **kwargs}' in go
                                                        and 'return {k: merged[k] for k in own_options}' in go)
    guard = '(inputs <= Js[self.name].inputs) and (outputs <= Js[self.name].outputs)'.replace('(', '').replace(')', '')
    for q in ('Block.partial_jacobians', 'Block.jacobian'):
        src = ast.unparse(find_def('blocks/block.py', q)).replace('(', '').replace(')', '')
        facts[q.split('.')[1] + '_saved_guard_covers_request'] = guard in src
    jac = ast.unparse(find_def('blocks/block.py', 'Block.jacobian'))
    def copies_first(src):
        return src.find('Js = Js.copy()') != -1 and src.find('Js = Js.copy()') < src.find('Js[self.name] = self.M.inv @ Js[self.name]')
    try:
        own = ast.unparse(find_def('blocks/block.py', 'Block.remap_own_J'))
    except Unsupported:
        own = ''
    # either jacobian copies the caller's dict itself, or (after the repair of D30) every method that needs the block's own saved J in internal names goes through remap_own_J, which copies before writing
    facts['jacobian_copies_Js_before_writing'] = copies_first(jac) or (copies_first(own) and 'Js = self.remap_own_J(Js)' in jac and not re.search(r'Js\[[^\]]*\]\s*=[^=]', jac))
    cb = 'blocks/combined_block.py'
    facts['combined_steady_state_forwards_options'] = 'block.steady_state(ss, dissolve=inner_dissolve, **kwargs)' in ast.unparse(find_def(cb, 'CombinedBlock._steady_state'))
    cin = ast.unparse(find_def(cb, 'CombinedBlock._impulse_nonlinear'))
    # the block's inputs are forwarded either as the plain dict or as an ImpulseDict carrying the horizon (after the repair of D24: a block none of whose inputs is perturbed)
    facts['combined_impulse_nonlinear_forwards'] = any(f'block.impulse_nonlinear(ss, {a}, outputs & block.outputs, internals, Js, options, ss_initial)' in cin
                                                       for a in ('input_args', 'ImpulseDict(input_args, T=impulses.T)'))
    facts['combined_impulse_linear_forwards'] = 'block.impulse_linear(ss, input_args, outputs & block.outputs, Js, options)' in ast.unparse(find_def(cb, 'CombinedBlock._impulse_linear'))
    cj = ast.unparse(find_def(cb, 'CombinedBlock._jacobian'))
    facts['combined_jacobian_accumulates'] = all(x in cj for x in ('total_Js = JacobianDict.identity(inputs)', 'for block in self.blocks', 'J = block.jacobian(ss, inputs & block.inputs, outputs & block.outputs, T, Js, options)',
                                                                   'total_Js.update(J @ total_Js)', 'return total_Js[original_outputs & total_Js.outputs, :]'))
    # requested subsets: the names whose rows _jacobian computes are the requested outputs plus every intermediate name (an output of some block that some block reads)
    fii = ast.unparse(find_def('utilities/graph.py', 'find_intermediate_inputs'))
    cinit = ast.unparse(find_def(cb, 'CombinedBlock.__init__'))
    facts['combined_jacobian_wants_requested_and_intermediate'] = (
        all(x in cj for x in ('original_outputs = outputs', 'outputs = (outputs | self._required) - vector_valued', 'if inputs & block.inputs and outputs & block.outputs:'))
        and 'self._required = find_intermediate_inputs(blocks) if intermediate_inputs is None else intermediate_inputs' in cinit
        and all(x in fii for x in ('required = OrderedSet()', 'outmap = get_output_map(blocks)', 'for num, block in enumerate(blocks):', 'inputs = block.inputs', 'for i in inputs:', 'if i in outmap:', 'required.add(i)', 'return required')))
    # objects derived from an argument are built afresh (C19): what a sparse Jacobian caches on first use, a steady-state container or a saved factorisation must not travel into (or be overwritten by) derived objects
    def body(rel, q):
        fn = find_def(rel, q)
        return [ast.unparse(b) for b in fn.body if not (isinstance(b, ast.Expr) and isinstance(b.value, ast.Constant))]
    sp = 'classes/sparse_jacobians.py'
    facts['derived_objects_are_fresh'] = (
        body(sp, 'SimpleSparse.T') == ['return SimpleSparse({(-i, m): x for (i, m), x in self.elements.items()})']
        and body(sp, 'SimpleSparse.__mul__') == ['if not np.isscalar(a):\n    return NotImplemented', 'return SimpleSparse({im: a * x for im, x in self.elements.items()})']
        and body(sp, 'SimpleSparse.__rmul__') == ['return self * a']
        and body('classes/result_dict.py', 'ResultDict.__matmul__') == ['if isinstance(x, Bijection):\n    new = copy.deepcopy(self)\n    new.toplevel = x @ self.toplevel\n    return new\nelse:\n    return NotImplemented']
        and body('classes/jacobian_dict.py', 'FactoredJacobianDict.remap') == ['if not x:\n    return self', 'newself = copy.copy(self)', 'newself.unknowns = x @ self.unknowns', 'newself.targets = x @ self.targets', 'return newself'])
    sn = find_def('blocks/block.py', 'Block.solve_impulse_nonlinear')
    src = ast.unparse(sn)
    loops = [n for n in sn.body if isinstance(n, ast.For)]
    ok = len(loops) == 1 and len(loops[0].orelse) == 1 and isinstance(loops[0].orelse[0], ast.Raise)
    if ok:
        body = loops[0].body
        ok = ast.unparse(body[0]).startswith('results = self.impulse_nonlinear(ss, inputs | U, actual_outputs | targets, internals, Js, options, ss_initial')
        last = body[-1]
        # the block's own solver options are read from `options` (before the repair of D28: the name was rebound, losing the per-block options) or from `own_options`
        ok = ok and isinstance(last, ast.If) and ast.unparse(last.test) in ("all((v < options['tol'] for v in errors.values()))", "all((v < own_options['tol'] for v in errors.values()))") and isinstance(last.body[0], ast.Break) \
            and ast.unparse(last.orelse[0]) == 'U += H_U_factored.apply(results)'
        ok = ok and "errors = {k: np.max(np.abs(results[k])) for k in targets}" in src and 'return (inputs | U)[inputs_as_outputs] | results' in src
    facts['newton_loop_shape'] = ok
    sb = 'blocks/solved_block.py'
    facts['solved_impulse_nonlinear_passes_initial_ss'] = 'inputs, outputs, internals, Js, options, self._get_H_U_factored(Js), ss_initial, **kwargs)' in ast.unparse(find_def(sb, 'SolvedBlock._impulse_nonlinear'))
    pj = ast.unparse(find_def(sb, 'SolvedBlock._partial_jacobians'))
    facts['solved_factorisation_from_current_ss'] = all(x in pj for x in ('H_U = self.block.jacobian(ss, OrderedSet(self.unknowns), OrderedSet(self.targets), T, inner_Js, options)',
                                                                           'H_U_factored = FactoredJacobianDict(H_U, T)', 'return {**inner_Js, self.name: H_U_factored}'))
    facts['solved_keeps_target_values'] = 'self.targets = targets' in ast.unparse(find_def(sb, 'SolvedBlock.__init__'))
    sj = ast.unparse(find_def('blocks/block.py', 'Block.solve_jacobian'))
    facts['solve_jacobian_shape'] = all(x in sj for x in ('H_Z = self.jacobian(ss, inputs, targets, T, Js, options, **kwargs)', 'U_Z = JacobianDict.unpack(-np.linalg.solve(H_U, H_Z.pack(T)), unknowns, inputs, T)',
                                                         'U_Z = H_U_factored @ H_Z', 'self_with_unknowns = combine([U_Z, self])'))
    sl = ast.unparse(find_def('blocks/block.py', 'Block.solve_impulse_linear'))
    facts['solve_impulse_linear_shape'] = all(x in sl for x in ('dH = self.impulse_linear(ss, inputs, targets, Js, options, **kwargs).get(targets)', 'dU = ImpulseDict.unpack(-np.linalg.solve(H_U, dH.pack()), unknowns, T)',
                                                               'dU = H_U_factored @ dH'))
    out = ''
    for k, v in facts.items():
        out += f"Definition {k} : bool := {'true' if v else 'false'}.\n"
    out += 'Definition block_plumbing_facts : list bool := (' + ' :: '.join(facts) + ' :: nil)%list.\n'
    return out


def t_hetfacts():
    """structural facts of het_block.py / function.py that the loop models rely on"""
    hb = 'blocks/het_block.py'
    U = lambda q: ast.unparse(find_def(hb, q))
    facts = {}
    bn = U('HetBlock.backward_nonlinear')
    facts['backward_nonlinear_shape'] = all(x in bn for x in ("for t in reversed(range(T))", "backdict[k + '_p'] = exog.expectation(backdict[k])",
        "backdict.update({k: ss[k] + v[t, ...] for k, v in inputs.items()})", "backdict.update(self.backward_fun(backdict))",
        "individual_paths[k][t, ...] = backdict[k]", "exog = self.make_exog_law_of_motion(backdict)", "exog_path.append(exog)", "return (individual_paths, exog_path[::-1])"))
    fn = U('HetBlock.forward_nonlinear')
    facts['forward_nonlinear_shape'] = all(x in fn for x in ("Dbeg = ss['Dbeg']", "Dbeg_path[0, ...] = Dbeg", "D_path[t, ...] = exog_path[t].forward(Dbeg)", "Dbeg = endog.forward(D_path[t, ...])",
        "Dbeg_path[t + 1, ...] = Dbeg", "individual_paths[k][t, ...] for k in self.policy"))
    imp = U('HetBlock._impulse_nonlinear')
    facts['impulse_uses_initial_distribution_and_copies_ss'] = all(x in imp for x in ("ss = self.extract_ss_dict(ssin)", "ss['Dbeg'] = ss_initial.internals[self.name]['Dbeg']",
        "fast_aggregate(individual_paths['D'], individual_paths[self.M_outputs.inv @ o])", "toreturn = (toreturn | internals) - ['D', 'Dbeg']"))
    bs = find_def(hb, 'HetBlock.backward_steady_state')
    src = ast.unparse(bs)
    loops = [n for n in bs.body if isinstance(n, ast.For) and n.orelse]
    facts['backward_steady_state_shape'] = (len(loops) == 1 and len(loops[0].orelse) == 1 and isinstance(loops[0].orelse[0], ast.Raise)
        and "if it % 10 == 1 and all((utils.optimized_routines.within_tolerance(ss[k], old[k], tol) for k in self.policy)):" in src
        and "old.update({k: ss[k] for k in self.policy})" in src and "ss.update(self.backward_fun(ss))" in src)
    fs = find_def(hb, 'HetBlock.forward_steady_state')
    src = ast.unparse(fs)
    loops = [n for n in fs.body if isinstance(n, ast.For)]
    facts['forward_steady_state_shape'] = (len(loops) == 1 and len(loops[0].orelse) == 1 and isinstance(loops[0].orelse[0], ast.Raise)
        and "if it % 10 == 0 and utils.optimized_routines.within_tolerance(Dbeg, Dbeg_new, tol):" in src and "Dbeg_new = endog.forward(D)" in src
        and "D_new = exog.forward(Dbeg_new)" in src and "return (Dbeg, D)" in src)
    st = U('HetBlock._steady_state')
    facts['aggregates_weight_by_D'] = "aggregates = {o.upper(): np.vdot(D, ss[o]) for o in toreturn}" in st and "ss.update({'Dbeg': Dbeg, 'D': D})" in st
    jf = U('HetBlock.J_from_F')
    facts['J_from_F_shape'] = all(x in jf for x in ("J = F.copy()", "for t in range(1, J.shape[1]):", "J[1:, t] += J[:-1, t - 1]", "return J"))
    bf = U('HetBlock.build_F')
    facts['build_F_shape'] = all(x in bf for x in ("Tpost = curlyEs.shape[0] - T + 2", "F[0, :] = curlyYs", "F[1:, :] = curlyEs.reshape((Tpost + T - 2, -1)) @ curlyDs.reshape((T, -1)).T"))
    bfn = U('HetBlock.backward_fakenews')
    facts['backward_fakenews_shape'] = all(x in bfn for x in ("din_dict = {input_shocked: 1}",
        "curlyV, curlyD, curlyY = self.backward_step_fakenews(din_dict, output_list, differentiable_backward_fun, differentiable_hetoutput, law_of_motion, exog, True)",
        "curlyDs[0, ...] = curlyD", "curlyYs[k][0] = curlyY[k]", "for t in range(1, T):",
        "curlyV, curlyDs[t, ...], curlyY = self.backward_step_fakenews({k + '_p': v for k, v in curlyV.items()}, output_list, differentiable_backward_fun, differentiable_hetoutput, law_of_motion, exog)",
        "curlyYs[k][t] = curlyY[k]", "return (curlyYs, curlyDs)"))
    ev = U('HetBlock.expectation_vectors')
    facts['expectation_vectors_shape'] = all(x in ev for x in ("curlyEs[0, ...] = utils.misc.demean(law_of_motion[0].expectation(o_ss))", "for t in range(1, T):",
        "curlyEs[t, ...] = utils.misc.demean(law_of_motion.expectation(curlyEs[t - 1, ...]))", "return curlyEs"))
    jc = U('HetBlock._jacobian')
    facts['jacobian_pipeline_shape'] = all(x in jc for x in ("law_of_motion = CombinedTransition([exog, endog]).forward_shockable(ss['Dbeg'])",
        "curlyYs[i], curlyDs[i] = self.backward_fakenews(i, outputs, T, differentiable_backward_fun, differentiable_hetinputs, differentiable_hetoutputs, law_of_motion, exog_by_output)",
        "curlyPs[o] = self.expectation_vectors(ss[o], T - 1, law_of_motion)", "F[o.upper()][i] = HetBlock.build_F(curlyYs[i][o], curlyDs[i], curlyPs[o])",
        "J[o.upper()][i] = HetBlock.J_from_F(F[o.upper()][i])"))
    sfk = U('HetBlock.backward_step_fakenews')
    facts['backward_step_fakenews_shape'] = all(x in sfk for x in ("Dbeg, D = (law_of_motion[0].Dss, law_of_motion[1].Dss)", "shocked_outputs = differentiable_backward_fun.diff(din_dict)",
        "curlyV = {k: law_of_motion[0].expectation(shocked_outputs[k]) for k in self.backward}", "curlyD = law_of_motion.forward_shock([shocks_to_exog, policy_shock])",
        "curlyY = {k: np.vdot(D, shocked_outputs[k]) for k in output_list}", "curlyY[k] += np.vdot(Dbeg, shock)", "return (curlyV, curlyD, curlyY)"))
    dmn = ast.unparse(find_def('utilities/misc.py', 'demean'))
    facts['demean_subtracts_mean'] = 'return x - x.sum() / x.size' in dmn
    # utilities/multidim.py: the exact sequence of numpy operations that Model/Multidim.v models (any change of an axis operation breaks the obligation)
    def body_of(q):
        fn = find_def('utilities/multidim.py', q)
        return [ast.unparse(b) for b in fn.body if not (isinstance(b, ast.Expr) and isinstance(b.value, ast.Constant))]
    facts['multidim_ops_multiply'] = body_of('multiply_ith_dimension') == ['X = X.swapaxes(0, i)', 'shape = X.shape', 'X = X.reshape((shape[0], -1))', 'X = Pi @ X',
                                                                           'X = X.reshape((Pi.shape[0], *shape[1:]))', 'return X.swapaxes(0, i)']
    facts['multidim_ops_batch'] = body_of('batch_multiply_ith_dimension') == ['P = P.swapaxes(1, 1 + i)', 'X = X.swapaxes(0, i)', 'Pshape = P.shape', 'P = P.reshape((*Pshape[:2], -1))',
                                                                              'X = X.reshape((X.shape[0], -1))', "X = np.einsum('ijb,jb->ib', P, X)", 'X = X.reshape(Pshape[0], *Pshape[2:])',
                                                                              'return X.swapaxes(0, i)']
    hsup = 'blocks/support/het_support.py'
    facts['markov_uses_ith_dimension'] = ('return multiply_ith_dimension(self.Pi_T, self.i, D)' in ast.unparse(find_def(hsup, 'Markov.forward'))
                                          and 'return multiply_ith_dimension(self.Pi, self.i, X)' in ast.unparse(find_def(hsup, 'Markov.expectation')))
    # discrete-choice law of motion and the logit stage (Model/DChoice.v)
    lomf = 'blocks/support/law_of_motion.py'
    def stmts(fn):
        return [ast.unparse(b) for b in fn.body if not (isinstance(b, ast.Expr) and isinstance(b.value, ast.Constant))]
    facts['dchoice_matmul_shape'] = (stmts(find_def(lomf, 'DiscreteChoice.__matmul__')) ==
                                     ['if self.forward:\n    return batch_multiply_ith_dimension(self.P, self.i, X)\nelse:\n    return batch_multiply_ith_dimension(self.P_T, self.i, X)']
                                     and stmts(find_def(lomf, 'DiscreteChoice.__init__')) == ['self.P = P', 'self.i = i', 'self.forward = True', 'self.P_T = P.swapaxes(0, 1 + self.i).copy()']
                                     and stmts(find_def(lomf, 'DiscreteChoice.T')) == ['newself = copy.copy(self)', 'newself.forward = not self.forward', 'return newself'])
    facts['logit_choice_shape'] = stmts(find_def('utilities/misc.py', 'logit_choice')) == ['const = V.max(axis=0)', 'Vnorm = V - const', 'Vexp = np.exp(Vnorm / scale)', 'Vexpsum = Vexp.sum(axis=0)',
                                                                                          'P = Vexp / Vexpsum', 'EV = const + scale * np.log(Vexpsum)', 'return (P, EV)']
    lcs = ast.unparse(find_def('blocks/support/stages.py', 'LogitChoice.backward_step_shock'))
    lcb = ast.unparse(find_def('blocks/support/stages.py', 'LogitChoice.backward_step'))
    facts['logit_stage_shock_shape'] = all(x in lcs for x in ('dV_next = shocks[self.value]', 'dV = dV_next[np.newaxis, ...]', 'dV = np.swapaxes(dV, 0, self.index + 1)', 'dV = dflow_u + dV',
        'dEV = np.sum(lom.P * dV, axis=0)', 'scale = ss[self.taste_shock_scale]', 'dP = lom.P * (dV - dEV) / scale', 'dlom = DiscreteChoice(dP, self.index)', 'doutputs = {self.value: dEV}',
        'doutputs[k] = dlom.T @ ss[k]', 'doutputs[k] += lom.T @ shocks[k]', 'return (doutputs, dlom)')) and all(x in lcb for x in ('V = V_next[np.newaxis, ...]', 'V = np.swapaxes(V, 0, self.index + 1)',
        'V = flow_u + V', 'P, EV = logit_choice(V, inputs[self.taste_shock_scale])', 'lom = DiscreteChoice(P, self.index)', 'outputs = {k: lom.T @ inputs[k] for k in self.backward}', 'outputs[self.value] = EV'))
    sbs = find_def('blocks/stage_block.py', 'StageBlock.backward_steady_state')
    ssrc = ast.unparse(sbs)
    sloops = [n for n in sbs.body if isinstance(n, ast.For) and n.orelse]
    facts['stage_backward_steady_state_shape'] = (len(sloops) == 1 and isinstance(sloops[0].orelse[0], ast.Raise)
        and 'if it % 10 == 0 and all((within_tolerance(backward_new[k], backward[k], tol) for k in backward)):' in ssrc
        and 'backward_new = self.backward_step_steady_state(backward, ss)' in ssrc and 'backward = backward_new' in ssrc
        and 'backward = {k: ss[k] for k in self.stages[0].backward_outputs}' in ssrc)
    sfn = U('HetBlock.backward_step_fakenews')
    facts['hetoutput_derivative_sees_direct_input'] = "differentiable_hetoutput.diff({**shocked_outputs, **din_dict}, outputs=differentiable_hetoutput.outputs & output_list)" in sfn
    fun = 'utilities/function.py'
    d1 = find_def(fun, 'DifferentiableExtendedFunction.diff')
    d2 = find_def(fun, 'DifferentiableCombinedExtendedFunction.diff')

    def default_of(fn, name):
        a = fn.args
        names = [x.arg for x in a.args]
        defaults = dict(zip(names[len(names) - len(a.defaults):], a.defaults))
        return ast.unparse(defaults[name]) if name in defaults else None
    facts['twosided_default_defers_to_constructor'] = default_of(d1, 'twosided') == 'None' and default_of(d2, 'twosided') == 'None' \
        and 'twosided = self.default_twosided' in ast.unparse(d1) and 'twosided = self.default_twosided' in ast.unparse(d2)
    jp = U('HetBlock.jac_backward_prelim')
    facts['twosided_request_reaches_backward_and_hetoutputs'] = "self.hetoutputs.differentiable(ss, h, twosided)" in jp and "self.backward_fun.differentiable(ss, h, twosided)" in jp \
        and "self.hetinputs.differentiable(ss, h, True)" in jp
    out = ''
    for k, v in facts.items():
        out += f"Definition {k} : bool := {'true' if v else 'false'}.\n"
    return out


TARGETS = {
    'MultiplyBasis': t_multiply_basis,
    'ComputeL': t_compute_l,
    'SparseIndex': t_sparse_index,
    'Estimation': t_estimation,
    'Containers': t_containers,
    'Kernels': t_kernels,
    'Interp': t_interp,
    'Solvers': t_solvers,
    'Remap': t_remap,
    'BlockFacts': t_block,
    'HetFacts': t_hetfacts,
}


def generate(names=None, outdir=None, verbose=False):
    """Regenerate Gen files. Returns {name: 'ok' | 'unsupported: ...'}; writes only when the text changed."""
    outdir = outdir or GEN
    os.makedirs(outdir, exist_ok=True)
    _cache.clear()
    res = {}
    for name, fn in TARGETS.items():
        if names and name not in names:
            continue
        try:
            body = fn()
            text = f"(* GENERATED by tools/translate.py from {SRC} -- do not edit *)\n" + HEADER + "\n" + body
            res[name] = 'ok'
        except (Unsupported, SyntaxError, OSError) as ex:
            text = (f"(* GENERATED by tools/translate.py: translation FAILED (fail closed): {str(ex)[:200]} *)\n"
                    + HEADER + "\nDefinition translation_failed := tt.\n")
            res[name] = f'unsupported: {ex}'
        path = os.path.join(outdir, name + '.v')
        old = open(path).read() if os.path.exists(path) else None
        if old != text:
            with open(path, 'w') as f:
                f.write(text)
        if verbose:
            print(name, res[name])
    return res


if __name__ == '__main__':
    r = generate(sys.argv[1:] or None, verbose=True)
    sys.exit(0 if all(v == 'ok' for v in r.values()) else 2)
