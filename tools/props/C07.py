"""C07 -- steady states are genuine fixed points that hit their targets."""
import numpy as np
from lib import common as C, het as H, models as M

GEN = ['HetFacts', 'Solvers']
IMPORTS = ['C08/kernel_weights', 'C08/lottery_1d_laws', 'C08/lottery_2d_laws', 'C08/markov_laws', 'C08/multidim_index_algebra', 'C08/combined_shock_product_rule', 'C17/robust_bracket', 'C17/coord_reproduces_query', 'C17/monotone_equals_robust']
TRUSTED = ['scipy brentq / root internals', 'root finders (C20), transitions (C08), iterate-until contract (C17)']
ASSUMPTIONS = ['convergence of the backward/forward iterations and of the outer solvers for a given calibration is not proved; the contracts are: return only after '
               'a passed test, raise otherwise', 'fixed-point, invariance, aggregation and target residuals are checked on the implementation over a calibration box']
HEADER = ''


def correspondence(ctx):
    """steady state of generated polynomial DAGs: the implementation's table vs the executable model's (which decides well-formedness of the evaluation order itself),
    re-evaluation at the steady state, zero shock"""
    from lib import nlmodels as NL
    meta, exprs, dis = NL.dag_correspondence(ctx, 'C07', 24 if ctx['tier'] == 'quick' else 240)
    return dict(evaluations=len(exprs), distinct_nontrivial=len({C.canon(m[0]['spec']) for m in meta}),
                rule='generated models of polynomial @simple blocks (1-3 unknowns, leads/lags, shuffled listing): steady_state from the calibration vs the table computed by the executable rational model '
                     '(Model/NLSolve.v ss_eval; 1e-12), well-formedness of the evaluation order decided in Coq (hypothesis of the fixed-point theorem), bit-exact re-evaluation at the steady state, '
                     'exactly zero response to a zero shock, nonlinear paths vs the model (1e-11)',
                samples=[dict(blocks=[[NL.py(e) for _, e in b['outs']] for b in meta[0][0]['spec']['blocks']])] if meta else [], disagreements=dis, stats={})


def check_het(name, blk, calib, out):
    inp = dict(kind='het-ss', block=name, calib={k: v for k, v in calib.items() if np.isscalar(v)})
    ss = blk.steady_state(calib)
    d = H.full_dict(blk, ss)
    D, Dbeg = d['D'], d['Dbeg']
    sig = lambda what: dict(op=what, block=name)
    if abs(D.sum() - 1) > 1e-9 or abs(Dbeg.sum() - 1) > 1e-9 or D.min() < -1e-12 or Dbeg.min() < -1e-12:
        # a distinguishable sub-case (known finding D27): total mass is one, but households with positive mass choose assets ABOVE the top grid point, where the
        # mean-preserving lottery extrapolates with a negative weight on the second-highest point
        above = [bool((d[p] > d[p + '_grid'][-1] + 1e-12).any()) for p in blk.policy]
        cond = 'mass-above-top-grid-point' if (abs(D.sum() - 1) <= 1e-9 and abs(Dbeg.sum() - 1) <= 1e-9 and any(above)) else 'general'
        C.push(out, dict(what='reported distribution is not a probability distribution' + (' (negative masses next to the top grid point: policies leave the grid at the top)' if cond != 'general' else ''),
                         input=inp, observed=dict(min_mass=float(min(D.min(), Dbeg.min())), total=float(D.sum())), signature=dict(sig('distribution'), cond=cond)))
    exo, pol = list(blk.exogenous), list(blk.policy)
    Dx = Dbeg
    for dim, k in enumerate(exo):
        Dx = H.markov_forward(d[k], dim, Dx)
    if np.abs(Dx - D).max() > 1e-9:
        C.push(out, dict(what='D is not the beginning-of-period distribution pushed through the exogenous transition', input=inp, signature=sig('D-vs-Dbeg')))
    Dn = H.lottery_forward(D, [d[p] for p in pol], [d[p + '_grid'] for p in pol])
    if np.abs(Dn - Dbeg).max() > 1e-7:
        C.push(out, dict(what='the reported distribution is not invariant under the reported policies and Markov matrices', input=inp, observed=float(np.abs(Dn - Dbeg).max()), signature=sig('invariance')))
    # policies are a fixed point of one backward step
    dd = dict(d)
    for k in blk.backward:
        x = d[k]
        for dim in reversed(range(len(exo))):
            x = H.markov_expect(d[exo[dim]], dim, x)
        dd[k + '_p'] = x
    new = blk.backward_fun(dd)
    dev = max(np.abs(new[p] - d[p]).max() for p in pol)
    if dev > 1e-6:
        C.push(out, dict(what='reported policies are not a fixed point of the backward step', input=inp, observed=float(dev), signature=sig('policy-fixed-point')))
    for O in blk.outputs:
        o = blk.M_outputs.inv @ O
        if abs(ss[O] - np.vdot(D, d[o])) > 1e-10 * max(1, abs(ss[O])):
            C.push(out, dict(what=f'aggregate {O} is not the D-weighted sum of its individual counterpart', input=inp, observed=float(ss[O]), expected=float(np.vdot(D, d[o])), signature=sig('aggregate')))
    # zero shock
    z = blk.impulse_nonlinear(ss, {list(blk.inputs)[0]: np.zeros(4)})
    if max(np.abs(z[k]).max() for k in z.toplevel) > 1e-6:
        C.push(out, dict(what='the nonlinear response to no shock is not zero', input=inp, signature=sig('zero-shock')))
    # failure to converge raises
    for kw in (dict(backward_maxit=3), dict(forward_maxit=3)):
        try:
            blk.steady_state(calib, **kw)
            C.push(out, dict(what=f'steady_state returned although {list(kw)[0]}=3 cannot converge', input=dict(inp, **kw), signature=dict(op='maxit', which=list(kw)[0], block=name)))
        except ValueError:
            pass
    return ss


def check(rng, deep):
    m = H.load()
    out, n = [], 0
    nr = np.random.default_rng(7)
    for name, blk, calib in (('sim_shipped', m.sim_shipped, m.SIM_SHIPPED_CALIB), ('sim', m.sim, m.SIM_CALIB), ('labor', m.labor, m.LAB_CALIB), ('twoasset', m.twoasset, m.TWO_CALIB), ('pair_het', m.pair_het, m.PAIR_CALIB)):
        for rep in range(1 if not deep else 4):
            c = dict(calib)
            if rep:
                for k in ('r', 'rb', 'beta'):
                    if k in c:
                        c[k] = c[k] * (1 + 0.05 * nr.normal())
            n += 1
            try:
                check_het(name, blk, c, out)
            except ValueError as ex:
                # perturbed calibrations (thorough tier) may have no stationary equilibrium (e.g. beta (1 + r) too close to one): the documented
                # 'No convergence' raise is the correct outcome there -- "failure to converge raises rather than returning"; the base calibrations must converge
                if rep == 0 or 'No convergence' not in str(ex):
                    raise
    # comparative statics from a previous RESULT: re-solving from a copy of a solved steady state must leave the first result the steady state it was (aggregates = D-weighted sums of ITS OWN policies)
    n += 1
    try:
        from sequence_jacobian import create_model
        from sequence_jacobian.examples import krusell_smith as ks
        kmodel = create_model([ks.hh.add_hetinputs([ks.income, ks.make_grids]), ks.firm_ss, ks.mkt_clearing], name='ks_ss')
    except Exception:
        kmodel = None
    if kmodel is not None:
        kcal = {'eis': 1.0, 'delta': 0.025, 'alpha': 0.11, 'rho': 0.966, 'sigma': 0.5, 'Y': 1.0, 'L': 1.0, 'nS': 3, 'nA': 40, 'amax': 200, 'r': 0.01}
        inp = dict(kind='resolve-from-result', model='krusell_smith', first=dict(r=0.01), second=dict(r=0.02))
        try:
            s1 = kmodel.solve_steady_state(kcal, {'beta': (0.98 / 1.01, 0.999 / 1.01)}, {'asset_mkt': 0.}, solver='brentq')
            D1, a1 = s1.internals['hh']['D'].copy(), s1.internals['hh']['a'].copy()
            c2 = s1.copy()
            c2['r'] = 0.02
            s2 = kmodel.solve_steady_state(c2, {'beta': (0.95 / 1.02, 0.999 / 1.02)}, {'asset_mkt': 0.}, solver='brentq')
            bad = []
            if not (np.array_equal(s1.internals['hh']['D'], D1) and np.array_equal(s1.internals['hh']['a'], a1)):
                bad.append('the first result now carries another distribution / policy')
            for lab, s_ in (('first', s1), ('second', s2)):
                h_ = s_.internals['hh']
                if abs(s_['A'] - np.vdot(h_['D'], h_['a'])) > 1e-9 * max(1, abs(s_['A'])):
                    bad.append(f'{lab} result: A = {float(s_["A"]):.6f} but sum(D * a) = {float(np.vdot(h_["D"], h_["a"])):.6f}')
                if abs(s_['asset_mkt']) > 1e-8:
                    bad.append(f'{lab} result misses its target')
            if bad:
                C.push(out, dict(what='re-solving from a copy of a solved steady state changed the first result (it is no longer the steady state it reported)', input=inp, observed=bad[:4], signature=dict(op='resolve-from-result')))
        except Exception as ex:
            C.push(out, dict(what=f're-solving the Krusell-Smith steady state from a previous result raised {type(ex).__name__}: {ex}', input=inp, signature=dict(op='raise', where='resolve-from-result')))
    # probe of known finding D27 (every tier): the shipped extended household at a patient calibration whose savers leave the 80-unit grid at the top
    n += 1
    check_het('sim_shipped', m.sim_shipped, dict(m.SIM_SHIPPED_CALIB, r=0.002500153769169685, beta=0.994638531337915), out)
    # stage block steady state: forward iteration limit raises too
    n += 1
    try:
        m.pair_stage.steady_state(m.PAIR_CALIB, forward_maxit=3)
        C.push(out, dict(what='StageBlock steady_state returned although forward_maxit=3 cannot converge', input=dict(kind='stage-ss'), signature=dict(op='maxit', which='forward_maxit', block='stage')))
    except ValueError:
        pass
    # a stage block with TWO backward variables converging at different speeds: every one of them must be a fixed point of the backward step
    n += 1
    tol = 1e-9
    blk = m.twoback_stage
    ss2 = blk.steady_state(m.TWOBACK_CALIB, backward_tol=tol)
    st = ss2.internals[blk.name]['consav']
    stepped = blk.backward_step_steady_state({'Va': st['Va'], 'V': st['V']}, {**m.TWOBACK_CALIB, **ss2.internals[blk.name]})
    tight = blk.steady_state(m.TWOBACK_CALIB, backward_tol=1e-13, backward_maxit=200_000).internals[blk.name]['consav']
    for k in ('Va', 'V'):
        res = float(np.abs(stepped[k] - st[k]).max())
        far = float(np.abs(tight[k] - st[k]).max())
        if res > 10 * tol * max(1.0, float(np.abs(st[k]).max())) or far > 1e-6 * max(1.0, float(np.abs(st[k]).max())):
            C.push(out, dict(what=f'the reported backward variable {k} of a stage block with two backward variables is not a fixed point of the backward step', input=dict(kind='stage-ss', backward=['Va', 'V'], variable=k),
                             observed=dict(step_residual=res, distance_to_tight_solve=far), signature=dict(op='backward-fixed-point', block='stage', variable=k)))
    # the shipped discrete-choice stage model: every stage's distribution is a probability distribution, aggregates are distribution-weighted sums, no shock -> no response
    n += 1
    dc = m.dchoice
    ssd = dc.steady_state(m.DCHOICE_CALIB)
    ints = ssd.internals[dc.name]
    for st, dd in ints.items():
        if isinstance(dd, dict) and 'D' in dd:
            if abs(dd['D'].sum() - 1) > 1e-9 or dd['D'].min() < -1e-12:
                C.push(out, dict(what='a stage distribution of the discrete-choice model is not a probability distribution', input=dict(kind='dchoice-ss', stage=st), observed=[float(dd['D'].sum()), float(dd['D'].min())], signature=dict(op='mass', block='dchoice')))
    cs = ints['consav']
    for O, o in (('A', 'a'), ('C', 'c')):
        if abs(ssd[O] - np.vdot(cs['D'], cs[o])) > 1e-9 * max(1, abs(ssd[O])):
            C.push(out, dict(what=f'aggregate {O} of the discrete-choice model is not the distribution-weighted sum of its individual counterpart', input=dict(kind='dchoice-ss'), signature=dict(op='aggregate', block='dchoice')))
    z = dc.impulse_nonlinear(ssd, {'f': np.zeros(5)}, ['A', 'C'])
    if max(np.abs(z[k]).max() for k in ('A', 'C')) > 1e-6:          # up to the accuracy of the inner iterations (the test-suite itself subtracts this ghost run)
        C.push(out, dict(what='the discrete-choice model responds to a zero shock', input=dict(kind='dchoice-ss'), observed=float(max(np.abs(z[k]).max() for k in ('A', 'C'))), signature=dict(op='zero-shock', block='dchoice')))
    # model-level: targets, brackets, fixed point of re-evaluation, all applicable solvers
    mm = M.load()
    flat = mm.flat()
    for solver, unknowns in (('broyden_custom', {'k': 1.2, 'p': 0.2}), ('newton_custom', {'k': 1.5, 'p': 0.0}), ('hybr', {'k': 1.2, 'p': 0.2}),
                             ('broyden_custom', {'k': (0.2, 1.2, 8.0), 'p': (-1.0, 0.2, 1.0)})):
        for targets in ({'res_k': 0.0, 'res_p': 0.0}, {'res_k': 0.004, 'res_p': 's'}, ['res_k', 'res_p']):
            n += 1
            inp = dict(kind='model-ss', solver=solver, unknowns={k: (list(v) if isinstance(v, tuple) else v) for k, v in unknowns.items()}, targets=targets if isinstance(targets, dict) else list(targets))
            try:
                ss = flat.solve_steady_state(dict(mm.CALIB), dict(unknowns), targets, solver=solver)
            except Exception as ex:
                C.push(out, dict(what=f'solve_steady_state raised {type(ex).__name__}: {ex}', input=inp, signature=dict(op='solve-raise', solver=solver)))
                continue
            tv = targets if isinstance(targets, dict) else {t: 0.0 for t in targets}
            for t, v in tv.items():
                want = ss[v] if isinstance(v, str) else v
                if abs(ss[t] - want) > (1e-7 if solver == 'hybr' else 2e-11):          # the requested tolerance (default ttol = 1e-12) must reach the bundled solvers
                    C.push(out, dict(what=f'a requested target is not hit to the solver tolerance ({t})', input=inp, observed=float(ss[t]), expected=float(want), signature=dict(op='target', solver=solver)))
            re = flat.steady_state({k: ss[k] for k in flat.inputs})
            if any(re[k] != ss[k] for k in re.toplevel):          # simple blocks only: re-evaluation at identical inputs is bit-exact
                C.push(out, dict(what='re-evaluating the model at the solved steady state does not reproduce it', input=inp, observed=float(max(abs(re[k] - ss[k]) for k in re.toplevel)), signature=dict(op='reevaluation', solver=solver)))
            for k, v in unknowns.items():
                if isinstance(v, tuple) and not (v[0] <= ss[k] <= v[-1]):
                    C.push(out, dict(what='solution lies outside the supplied bounds', input=inp, signature=dict(op='bounds', solver=solver)))
            # warm start from the solution returns the same steady state
            if not isinstance(list(unknowns.values())[0], tuple):
                ss2 = flat.solve_steady_state({**mm.CALIB, **{k: ss[k] for k in unknowns}}, {k: float(ss[k]) for k in unknowns}, targets, solver=solver)
                if max(abs(ss2[k] - ss[k]) for k in ('k', 'p', 'c')) > 1e-7 or any(abs(ss2[t] - (ss2[v] if isinstance(v, str) else v)) > 1e-7 for t, v in tv.items()):
                    C.push(out, dict(what='re-solving from the solution moves away from it / misses the targets', input=inp, observed={k: float(ss2[k]) for k in unknowns}, signature=dict(op='warm-start', solver=solver)))
    # numeric targets of every real scalar kind (python int, numpy integer, numpy float32, float): "a number" is not only a python float
    import os, sys, importlib
    dmod = os.path.join(C.WORK, 'models')
    os.makedirs(dmod, exist_ok=True)
    with open(os.path.join(dmod, 'verif_c07_tiny.py'), 'w') as f:
        f.write('from sequence_jacobian import simple\n\n@simple\ndef tiny_fg(x, y):\n    f = x + 2 * y\n    g = x * y\n    return f, g\n\n@simple\ndef tiny_e(x):\n    excess = x ** 3 - 7\n    return excess\n\n@simple\ndef tiny_goal(goal):\n    goal2 = 2 * goal\n    return goal2\n')
    if dmod not in sys.path:
        sys.path.insert(0, dmod)
    importlib.invalidate_caches()
    sys.modules.pop('verif_c07_tiny', None)
    tm = importlib.import_module('verif_c07_tiny')
    from sequence_jacobian import combine
    fg, ex = combine([tm.tiny_fg], name='tiny_fg_model'), combine([tm.tiny_e], name='tiny_e_model')
    for solver in ('broyden_custom', 'newton_custom', 'hybr'):
        for kind, five, two in (('int', 5, 2), ('np.int64', np.int64(5), np.int64(2)), ('mixed int/float', 5, 2.0), ('np.float32', np.float32(5), np.float32(2)), ('float', 5.0, 2.0)):
            n += 1
            inp = dict(kind='numeric-target-kinds', solver=solver, targets={'f': f'{kind} 5', 'g': f'{kind} 2'}, unknowns={'x': 3.5, 'y': 0.7})
            try:
                ss = fg.solve_steady_state({}, {'x': 3.5, 'y': 0.7}, {'f': five, 'g': two}, solver=solver)
                if abs(ss['f'] - 5) > 1e-7 or abs(ss['g'] - 2) > 1e-7:
                    C.push(out, dict(what='a numeric target that is not a python float is not hit', input=inp, observed=dict(f=float(ss['f']), g=float(ss['g'])), expected=dict(f=5, g=2), signature=dict(op='target-kind', solver=solver)))
            except Exception as ex_:
                C.push(out, dict(what=f'solve_steady_state with a numeric target that is not a python float raised {type(ex_).__name__}: {ex_}', input=inp, signature=dict(op='target-kind', solver=solver)))
    for kind, one in (('int', 1), ('np.int64', np.int64(1)), ('float', 1.0)):
        n += 1
        inp = dict(kind='numeric-target-kinds', solver='brentq', targets={'excess': f'{kind} 1'}, unknowns={'x': [0.0, 3.0]})
        try:
            ss = ex.solve_steady_state({}, {'x': (0.0, 3.0)}, {'excess': one}, solver='brentq')
            if abs(ss['excess'] - 1) > 1e-9 or abs(ss['x'] - 2.0) > 1e-9:
                C.push(out, dict(what='a numeric target that is not a python float is not hit (brentq)', input=inp, observed=dict(excess=float(ss['excess']), x=float(ss['x'])), expected=dict(excess=1, x=2), signature=dict(op='target-kind', solver='brentq')))
        except Exception as ex_:
            C.push(out, dict(what=f'solve_steady_state (brentq) with a numeric target that is not a python float raised {type(ex_).__name__}: {ex_}', input=inp, signature=dict(op='target-kind', solver='brentq')))
    # solved blocks whose OWN targets are a number or another variable (dict targets of @solved / Block.solved): the enclosing model's steady state must satisfy them
    for form, tg, want in (('number', {'excess': 1.0}, lambda s_: s_['excess'] - 1.0), ('variable', {'excess': 'goal2'}, lambda s_: s_['excess'] - s_['goal2']), ('zero', ['excess'], lambda s_: s_['excess'])):
        n += 1
        inp = dict(kind='solved-block-targets', form=form, targets=tg if isinstance(tg, dict) else list(tg), unknown={'x': [0.0, 3.0]})
        try:
            sb = combine([tm.tiny_e, tm.tiny_goal], name='tiny_inner').solved(unknowns={'x': (0.0, 3.0)}, targets=tg, solver='brentq', name='tiny_solved')
            outer = combine([sb], name='tiny_outer')
            sso = outer.steady_state({'goal': 0.5})
            if abs(want(sso)) > 1e-9:
                C.push(out, dict(what='the steady state of a model containing a solved block does not satisfy the solved block\'s own target (a number / another variable)', input=inp,
                                 observed=dict(excess=float(sso['excess']), x=float(sso['x'])), signature=dict(op='solved-block-target', form=form)))
        except Exception as ex_:
            C.push(out, dict(what=f'steady state of a model containing a solved block with {form} targets raised {type(ex_).__name__}: {ex_}', input=inp, signature=dict(op='solved-block-target', form=form)))
    ss = flat.solve_steady_state(dict(mm.CALIB, k=3.0), {'p': (-2.0, 2.0)}, {'res_p': 0.0}, solver='brentq')
    n += 1
    if abs(ss['res_p']) > 1e-9 or not (-2 <= ss['p'] <= 2):
        C.push(out, dict(what='brentq steady state misses the target or leaves the bracket', input=dict(kind='model-ss', solver='brentq'), signature=dict(op='target', solver='brentq')))
    # scalar solvers at tight and loose tolerances: whatever is returned must be ONE consistent evaluation of the model (every reported variable is the model's value at the reported unknown)
    for solver in ('brentq', 'brenth', 'ridder', 'bisect', 'toms748'):
        for ttol in (1e-12, 1e-4):
            for kfix in (3.0, 0.8 + 2.0 * rng.random()):
                n += 1
                inp = dict(kind='model-ss', solver=solver, ttol=ttol, k=kfix, unknowns={'p': [-2.0, 2.0]}, targets={'res_p': 0.0})
                try:
                    ss = flat.solve_steady_state(dict(mm.CALIB, k=kfix), {'p': (-2.0, 2.0)}, {'res_p': 0.0}, solver=solver, ttol=ttol)
                except Exception as ex:
                    C.push(out, dict(what=f'solve_steady_state raised {type(ex).__name__}: {ex}', input=inp, signature=dict(op='solve-raise', solver=solver)))
                    continue
                re = flat.steady_state({k: ss[k] for k in flat.inputs})
                if any(re[k] != ss[k] for k in re.toplevel):
                    bad = [k for k in re.toplevel if re[k] != ss[k]]
                    C.push(out, dict(what='the steady state returned by a bracketing solver is not a single evaluation of the model: re-evaluating at the reported unknown gives other values', input=inp,
                                     observed={k: [float(ss[k]), float(re[k])] for k in bad[:3]}, signature=dict(op='reevaluation', solver=solver)))
                if not (-2 <= ss['p'] <= 2):
                    C.push(out, dict(what='scalar steady-state solution leaves the bracket', input=inp, signature=dict(op='bounds', solver=solver)))
    return out, n


def oracle(ctx, hints, broken):
    try:
        viol, n = check(ctx['rng'], bool(broken) or ctx['tier'] == 'thorough')
        import io, contextlib
        with contextlib.redirect_stdout(io.StringIO()):
            ve, ne = M.check_examples(['rbc', 'krusell_smith', 'hank', 'two_asset'] if ctx['tier'] == 'thorough' or broken else ['rbc', 'krusell_smith'], 'ss')
        viol, n = viol + ve, n + ne
    except Exception as ex:
        import traceback
        viol, n = [dict(what=f'C07 oracle raised {type(ex).__name__}: {ex}', input=dict(kind='raise', trace=traceback.format_exc()[-800:]), signature=dict(op='raise'))], 1
    return dict(evaluations=n, violations=viol,
                rule='a stage block with two backward variables (both fixed points of the backward step, vs a tight solve); three shipped households + the paired het/stage household (small grids): mass, non-negativity, D vs Dbeg, invariance, policy fixed point, aggregates, '
                     'zero shock, maxit raises; 5-block model: every applicable solver (brentq, hybr, broyden_custom, newton_custom, bounded) x three target forms: targets, '
                     'bounds, re-evaluation fixed point, warm start')


def replay(rp):
    v = check(C.Rng(0), False)[0]
    return v[0] if v else None
